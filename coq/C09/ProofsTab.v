(* C09 — proofs, part 1: what one [perform] does to the descriptor table. *)
From Yv Require Import Common.Base C09.Kernel C09.Model.

Local Open Scope N_scope.

(* well-formed process: the table is a map (sorted, like the BTreeMap) and no
   open descriptor is at or above the limit *)
Definition wf (s : kst) : Prop := sorted (k_tab s) /\ below_limit (k_lim s) (k_tab s).

Lemma wf_intro s t lim :
  k_tab s = t -> k_lim s = lim -> sorted t -> below_limit lim t -> wf s.
Proof. intros <- <-. split; assumption. Qed.

(* ---- tables ---------------------------------------------------------------- *)

Lemma tdel_tset_fresh t k v : sorted t -> lookup t k = None -> tdel (tset t k v) k = t.
Proof.
  intros Hs Hn. apply sorted_ext; [apply sorted_tdel, sorted_tset; assumption|assumption|].
  intros k'. rewrite lookup_tdel by (apply sorted_tset; assumption). rewrite lookup_tset.
  destruct (N.eqb_spec k k') as [->|]; [symmetry; assumption|reflexivity].
Qed.

Lemma below_limit_tset lim t k v :
  below_limit lim t -> in_limit lim k = true -> below_limit lim (tset t k v).
Proof. intros Hb Hk k' Hin. apply keys_tset in Hin. destruct Hin as [->|Hin]; auto. Qed.

Lemma below_limit_tdel lim t k : below_limit lim t -> below_limit lim (tdel t k).
Proof. intros Hb k' Hin. apply keys_tdel_incl in Hin. auto. Qed.

Lemma below_limit_lookup lim t k e : below_limit lim t -> lookup t k = Some e -> in_limit lim k = true.
Proof. intros Hb Hl. apply Hb. apply in_keys_lookup. congruence. Qed.

(* t' is t with the binding of n replaced by v *)
Definition upd (t t' : table) (n : N) (v : option fdent) : Prop :=
  forall fd, lookup t' fd = if N.eqb fd n then v else lookup t fd.

Lemma upd_tset t n v : upd t (tset t n v) n (Some v).
Proof. intros fd. rewrite lookup_tset, N.eqb_sym. reflexivity. Qed.

Lemma upd_tdel t n : sorted t -> upd t (tdel t n) n None.
Proof. intros Hs fd. rewrite lookup_tdel by assumption. rewrite N.eqb_sym. reflexivity. Qed.

Lemma upd_same t n : upd t t n (lookup t n).
Proof. intros fd. destruct (N.eqb_spec fd n) as [->|]; reflexivity. Qed.

(* ---- the system calls ------------------------------------------------------- *)

(* everything but the table and the fault list *)
Definition frame (s s' : kst) : Prop :=
  k_lim s' = k_lim s /\ k_next s' = k_next s /\ k_ofd s' = k_ofd s /\ k_fs s' = k_fs s.

Lemma frame_refl s : frame s s.
Proof. repeat split. Qed.

Lemma take_fault_frame s b s1 :
  take_fault s = (b, s1) -> k_tab s1 = k_tab s /\ frame s s1.
Proof.
  unfold take_fault. destruct (k_flt s); intros E; injection E as <- <-; cbn; repeat split.
Qed.

Lemma alloc_fd_ok s min v s' c :
  alloc_fd s min v = (s', Ok c) ->
  k_tab s' = tset (k_tab s) c v /\ c = min_unused min (k_tab s)
  /\ in_limit (k_lim s) c = true /\ frame s s'.
Proof.
  unfold alloc_fd. destruct (take_fault s) as [b s1] eqn:Ef.
  apply take_fault_frame in Ef. destruct Ef as [Et [El [En [Eo Efs]]]].
  destruct b; [discriminate|]. cbv zeta.
  rewrite Et, El. destruct (in_limit (k_lim s) (min_unused min (k_tab s))) eqn:Ei; [|discriminate].
  intros E. injection E as <- <-. cbn. repeat split; assumption.
Qed.

Lemma alloc_fd_err s min v s' e :
  alloc_fd s min v = (s', Err e) -> k_tab s' = k_tab s /\ frame s s' /\ e = EMFILE.
Proof.
  unfold alloc_fd. destruct (take_fault s) as [b s1] eqn:Ef.
  apply take_fault_frame in Ef. destruct Ef as [Et Hf].
  destruct b.
  - intros E. injection E as <- <-. auto.
  - cbv zeta. destruct (in_limit (k_lim s1) (min_unused min (k_tab s1))); [discriminate|].
    intros E. injection E as <- <-. auto.
Qed.

Lemma alloc_fd_fresh s min v s' c :
  sorted (k_tab s) -> alloc_fd s min v = (s', Ok c) ->
  lookup (k_tab s) c = None /\ min <= c.
Proof.
  intros Hs Ha. apply alloc_fd_ok in Ha. destruct Ha as [_ [-> _]].
  split; [apply min_unused_fresh; assumption|apply min_unused_ge].
Qed.

Lemma alloc_fd_wf s min v s' r : wf s -> alloc_fd s min v = (s', r) -> wf s'.
Proof.
  intros [Hs Hb] Ha. destruct r as [c|e].
  - apply alloc_fd_ok in Ha. destruct Ha as [Et [_ [Hi [El _]]]]. unfold wf. rewrite Et, El.
    split; [apply sorted_tset; assumption|apply below_limit_tset; assumption].
  - apply alloc_fd_err in Ha. destruct Ha as [Et [[El _] _]]. unfold wf. rewrite Et, El.
    split; assumption.
Qed.

(* [k_open] either fails leaving the table alone, or binds a fresh descriptor
   to a new description *)
Lemma k_open_tab s p r w fl s' res :
  k_open s p r w fl = (s', res) ->
  k_lim s' = k_lim s /\
  match res with
  | Ok c => k_tab s' = tset (k_tab s) c (mkEnt (k_next s) false)
            /\ c = min_unused 0 (k_tab s) /\ in_limit (k_lim s) c = true
  | Err _ => k_tab s' = k_tab s
  end.
Proof.
  unfold k_open. destruct (k_resolve (k_fs s) p w fl) as [f' [k|e]].
  - cbn [new_ofd]. intros Ha. destruct res as [c|e].
    + apply alloc_fd_ok in Ha. cbn in Ha. destruct Ha as [-> [-> [Hi [-> _]]]]. auto.
    + apply alloc_fd_err in Ha. cbn in Ha. destruct Ha as [-> [[-> _] _]]. auto.
  - intros E. injection E as <- <-. cbn. auto.
Qed.

Lemma k_tmpfile_tab s c s' res :
  k_tmpfile s c = (s', res) ->
  k_lim s' = k_lim s /\
  match res with
  | Ok fd => k_tab s' = tset (k_tab s) fd (mkEnt (k_next s) false)
            /\ fd = min_unused 0 (k_tab s) /\ in_limit (k_lim s) fd = true
  | Err _ => k_tab s' = k_tab s
  end.
Proof.
  unfold k_tmpfile. cbn [new_ofd]. intros Ha. destruct res as [fd|e].
  - apply alloc_fd_ok in Ha. cbn in Ha. destruct Ha as [-> [-> [Hi [-> _]]]]. auto.
  - apply alloc_fd_err in Ha. cbn in Ha. destruct Ha as [-> [[-> _] _]]. auto.
Qed.

(* ---- open_normal -------------------------------------------------------------- *)

(* what the descriptor handed to [apply] is *)
Definition spec_shape (t t1 : table) (osp : option fdspec) : Prop :=
  match osp with
  | None | Some SClosed => t1 = t
  | Some (Owned f) => lookup t f = None /\ exists id, t1 = tset t f (mkEnt id false)
  | Some (Borrowed m) => t1 = t /\ exists e, lookup t m = Some e /\ e_cx e = false
  end.

Lemma open_file_shape s r w fl p s1 osp :
  wf s -> open_file s r w fl p = (s1, osp) ->
  wf s1 /\ k_lim s1 = k_lim s /\ spec_shape (k_tab s) (k_tab s1) osp.
Proof.
  intros [Hs Hb]. unfold open_file. destruct (k_open s p r w fl) as [s' [c|e]] eqn:Eo;
    intros E; injection E as <- <-; apply k_open_tab in Eo; destruct Eo as [El Ho].
  - destruct Ho as [Et [Hc Hi]]. split; [|split; [assumption|]].
    + eapply wf_intro; [eassumption..|apply sorted_tset; assumption|apply below_limit_tset; assumption].
    + cbn. split; [rewrite Hc; apply min_unused_fresh; assumption|eauto].
  - cbn. split; [eapply wf_intro; eassumption|]. split; assumption.
Qed.

Lemma open_file_noclobber_shape s p s1 osp :
  wf s -> open_file_noclobber s p = (s1, osp) ->
  wf s1 /\ k_lim s1 = k_lim s /\ spec_shape (k_tab s) (k_tab s1) osp.
Proof.
  intros [Hs Hb]. unfold open_file_noclobber.
  destruct (k_open s p false true fl_excl) as [sa [c|e]] eqn:Ea;
    apply k_open_tab in Ea; destruct Ea as [Ela Ha].
  - intros E. injection E as <- <-. destruct Ha as [Et [Hc Hi]].
    split; [|split; [assumption|]].
    + apply (wf_intro sa _ _ Et Ela); [apply sorted_tset; assumption|apply below_limit_tset; assumption].
    + cbn. split; [rewrite Hc; apply min_unused_fresh; assumption|eauto].
  - assert (forall s1 osp, (sa, @None fdspec) = (s1, osp) ->
              wf s1 /\ k_lim s1 = k_lim s /\ spec_shape (k_tab s) (k_tab s1) osp) as Hnone.
    { intros s1' osp' E. injection E as <- <-. cbn.
      split; [apply (wf_intro sa _ _ Ha Ela); assumption|]. split; assumption. }
    destruct e; try apply Hnone.
    destruct (k_open sa p false true fl_none) as [sb [c|e]] eqn:Eb;
      apply k_open_tab in Eb; destruct Eb as [Elb Hb'].
    + destruct Hb' as [Et [Hc Hi]]. rewrite Ha in Et, Hc. rewrite Ela in Hi.
      assert (lookup (k_tab s) c = None) as Hfresh by (rewrite Hc; apply min_unused_fresh; assumption).
      assert (k_lim sb = k_lim s) as Elb' by congruence.
      destruct (is_regular_fd sb c); intros E; injection E as <- <-.
      * assert (k_tab (k_close sb c) = k_tab s) as Ek
          by (cbn; rewrite Et; apply tdel_tset_fresh; assumption).
        split; [apply (wf_intro _ _ _ Ek Elb'); assumption|]. split; [exact Elb'|exact Ek].
      * split; [apply (wf_intro _ _ _ Et Elb');
                [apply sorted_tset; assumption|apply below_limit_tset; assumption]|].
        split; [exact Elb'|]. cbn. split; [assumption|eauto].
    + intros E. injection E as <- <-.
      assert (k_tab sb = k_tab s) as Ek by congruence.
      assert (k_lim sb = k_lim s) as Elb' by congruence.
      split; [apply (wf_intro _ _ _ Ek Elb'); assumption|]. split; [exact Elb'|exact Ek].
Qed.

Lemma open_normal_shape nc s b s1 osp :
  wf s -> open_normal nc s b = (s1, osp) ->
  wf s1 /\ k_lim s1 = k_lim s /\ spec_shape (k_tab s) (k_tab s1) osp.
Proof.
  intros Hwf. pose proof Hwf as [Hs Hb]. destruct b as [op p|op a|c|]; cbn [open_normal].
  - destruct op; try (apply open_file_shape; assumption).
    destruct nc; [apply open_file_noclobber_shape|apply open_file_shape]; assumption.
  - intros E. injection E as <- <-. split; [assumption|]. split; [reflexivity|].
    unfold copy_fd. destruct a as [n| |]; cbn; try reflexivity.
    destruct (fd_valid s n op) eqn:Ev; cbn; [|reflexivity].
    destruct (k_cloexec s n) eqn:Ec; cbn; [reflexivity|].
    split; [reflexivity|]. unfold fd_valid, k_ofd_of in Ev. unfold k_cloexec in Ec.
    destruct (lookup (k_tab s) n) as [e|]; [|discriminate]. eauto.
  - destruct (k_tmpfile s c) as [s' [fd|e]] eqn:Et; intros E; injection E as <- <-;
      apply k_tmpfile_tab in Et; destruct Et as [El Ht].
    + destruct Ht as [Et [Hc Hi]]. split; [|split; [assumption|]].
      * apply (wf_intro _ _ _ Et El); [apply sorted_tset; assumption|apply below_limit_tset; assumption].
      * cbn. split; [rewrite Hc; apply min_unused_fresh; assumption|eauto].
    + split; [apply (wf_intro _ _ _ Ht El); assumption|]. split; [assumption|exact Ht].
  - intros E. injection E as <- <-. cbn. repeat split; assumption.
Qed.

(* ---- apply ------------------------------------------------------------------------ *)

Definition not_cx (v : option fdent) : Prop := forall e, v = Some e -> e_cx e = false.

(* On success only the binding of the target has changed (to a description
   without close-on-exec, or to nothing); on failure nothing has. *)
Lemma apply_tab nc s r s2 ok :
  wf s -> apply nc s r = (s2, ok) ->
  wf s2 /\ k_lim s2 = k_lim s /\
  if ok then exists v, upd (k_tab s) (k_tab s2) (r_fd r) v /\ not_cx v
  else k_tab s2 = k_tab s.
Proof.
  intros Hwf. unfold apply.
  destruct (open_normal nc s (r_body r)) as [s1 osp] eqn:Eo.
  apply open_normal_shape in Eo; [|assumption].
  destruct Eo as [[Hs1 Hb1] [El1 Hsh]]. pose proof Hwf as [Hs Hb].
  destruct osp as [sp|].
  2:{ intros E. injection E as <- <-. cbn in Hsh.
      split; [split; assumption|]. split; assumption. }
  destruct sp as [f|m|]; cbn [spec_fd spec_close].
  - (* Owned f *)
    destruct Hsh as [Hfresh [id Et1]].
    destruct (N.eqb_spec f (r_fd r)) as [Heq|Hne].
    + intros E. injection E as <- <-. split; [split; assumption|]. split; [assumption|].
      exists (Some (mkEnt id false)). split; [rewrite Et1, Heq; apply upd_tset|].
      intros e E. injection E as <-. reflexivity.
    + unfold k_dup2, t_dup2. rewrite Et1, lookup_tset, N.eqb_refl. rewrite El1.
      destruct (N.eqb_spec f (r_fd r)) as [|_]; [congruence|].
      destruct (in_limit (k_lim s) (r_fd r)) eqn:Ei; intros E; injection E as <- <-.
      * assert (sorted (tset (tset (k_tab s) f (mkEnt id false)) (r_fd r) (mkEnt id false))) as Hs2
          by (apply sorted_tset, sorted_tset; assumption).
        split; [|split; [exact El1|]].
        -- eapply wf_intro; [reflexivity|exact El1|cbn..].
           ++ apply sorted_tdel. exact Hs2.
           ++ apply below_limit_tdel, below_limit_tset; [|assumption].
              rewrite <- El1, <- Et1. assumption.
        -- exists (Some (mkEnt id false)). split.
           ++ intros fd. cbn. rewrite lookup_tdel by exact Hs2. rewrite !lookup_tset.
              destruct (N.eqb_spec f fd) as [<-|Hfd].
              ** destruct (N.eqb_spec f (r_fd r)); [congruence|]. symmetry; assumption.
              ** rewrite (N.eqb_sym fd). destruct (N.eqb_spec (r_fd r) fd); reflexivity.
           ++ intros e E. injection E as <-. reflexivity.
      * assert (k_tab (k_close (with_tab s1 (tset (k_tab s) f (mkEnt id false))) f) = k_tab s) as Ek
          by (cbn; apply tdel_tset_fresh; assumption).
        split; [apply (wf_intro _ _ _ Ek El1); assumption|]. split; [exact El1|exact Ek].
  - (* Borrowed m *)
    destruct Hsh as [Et1 [e [Hm Hcx]]].
    destruct (N.eqb_spec m (r_fd r)) as [Heq|Hne].
    + intros E. injection E as <- <-. split; [split; assumption|]. split; [assumption|].
      exists (Some e). split; [rewrite Et1, <- Hm, Heq; apply upd_same|].
      intros e' E. injection E as <-. assumption.
    + unfold k_dup2, t_dup2. rewrite Et1, Hm, El1.
      destruct (N.eqb_spec m (r_fd r)) as [|_]; [congruence|].
      destruct (in_limit (k_lim s) (r_fd r)) eqn:Ei; intros E; injection E as <- <-.
      * split; [|split; [exact El1|]].
        -- eapply wf_intro; [reflexivity|exact El1|cbn..];
             [apply sorted_tset; assumption|apply below_limit_tset; assumption].
        -- exists (Some (mkEnt (e_ofd e) false)).
           split; [cbn; apply upd_tset|]. intros e' E. injection E as <-. reflexivity.
      * split; [eapply wf_intro; [reflexivity|exact El1|cbn; assumption..]|]. split; [exact El1|reflexivity].
  - (* Closed *)
    cbn in Hsh. intros E. injection E as <- <-.
    split; [|split; [exact El1|]].
    + eapply wf_intro; [reflexivity|exact El1|cbn; rewrite Hsh..];
        [apply sorted_tdel; assumption|apply below_limit_tdel; assumption].
    + exists None. split; [cbn; rewrite Hsh; apply upd_tdel; assumption|discriminate].
Qed.

(* ---- perform ------------------------------------------------------------------------ *)

(* The step lemma: everything the later theorems need to know about one
   [perform]. *)
Lemma perform_step nc s r s' res :
  wf s -> perform nc s r = (s', res) ->
  wf s' /\ k_lim s' = k_lim s /\
  match res with
  | None => k_tab s' = k_tab s
  | Some (n, save) =>
      n = r_fd r /\ k_cloexec s n = false /\
      exists v, not_cx v /\
      match save with
      | None =>
          lookup (k_tab s) n = None /\ upd (k_tab s) (k_tab s') n v
      | Some sv =>
          exists en, lookup (k_tab s) n = Some en /\ e_cx en = false /\
          lookup (k_tab s) sv = None /\ 10 <= sv /\ sv <> n /\
          upd (tset (k_tab s) sv (mkEnt (e_ofd en) true)) (k_tab s') n v
      end
  end.
Proof.
  intros Hwf. pose proof Hwf as [Hs Hb]. unfold perform.
  destruct (k_cloexec s (r_fd r)) eqn:Ecx.
  { intros E. injection E as <- <-. repeat split; assumption. }
  unfold k_dup. destruct (lookup (k_tab s) (r_fd r)) as [en|] eqn:Hn.
  - destruct (alloc_fd s MIN_INTERNAL_FD (mkEnt (e_ofd en) true)) as [s1 [sv|e]] eqn:Ea.
    + pose proof (alloc_fd_wf _ _ _ _ _ Hwf Ea) as Hwf1.
      pose proof (alloc_fd_fresh _ _ _ _ _ Hs Ea) as [Hfresh Hge].
      apply alloc_fd_ok in Ea. destruct Ea as [Et1 [_ [Hi [El1 _]]]].
      assert (sv <> r_fd r) as Hne by (intros ->; congruence).
      assert (e_cx en = false) as Hcxn by (unfold k_cloexec in Ecx; rewrite Hn in Ecx; assumption).
      destruct (apply nc s1 r) as [s2 ok] eqn:Eap.
      apply apply_tab in Eap; [|assumption]. destruct Eap as [Hwf2 [El2 Hap]].
      destruct ok; intros E; injection E as <- <-.
      * split; [assumption|]. split; [congruence|].
        split; [reflexivity|]. split; [assumption|].
        destruct Hap as [v [Hupd Hv]]. exists v. split; [assumption|].
        exists en. rewrite <- Et1. unfold MIN_INTERNAL_FD in Hge. repeat split; assumption.
      * assert (k_tab (close_opt s2 (Some sv)) = k_tab s) as Ek
          by (cbn; rewrite Hap, Et1; apply tdel_tset_fresh; assumption).
        assert (k_lim (close_opt s2 (Some sv)) = k_lim s) as Elk by (cbn; congruence).
        split; [apply (wf_intro _ _ _ Ek Elk); assumption|]. split; [exact Elk|exact Ek].
    + pose proof (alloc_fd_wf _ _ _ _ _ Hwf Ea) as Hwf1.
      apply alloc_fd_err in Ea. destruct Ea as [Et1 [[El1 _] ->]].
      intros E. injection E as <- <-. split; [assumption|]. split; assumption.
  - destruct (apply nc s r) as [s2 ok] eqn:Eap.
    apply apply_tab in Eap; [|assumption]. destruct Eap as [Hwf2 [El2 Hap]].
    destruct ok; intros E; injection E as <- <-.
    + split; [assumption|]. split; [assumption|]. split; [reflexivity|]. split; [assumption|].
      destruct Hap as [v [Hupd Hv]]. exists v. repeat split; assumption.
    + cbn [close_opt]. split; [assumption|]. split; assumption.
Qed.
