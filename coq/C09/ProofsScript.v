(* C09 — proofs, part 6: scripts.  Compound commands and functions with
   redirections whose bodies contain further redirected commands (nested
   RedirGuards): whatever happens inside, afterwards the table is the one
   before - provided nothing in the body is meant to persist (exec, ulimit). *)
From Yv Require Import Common.Base C09.Kernel C09.Model C09.Spec
  C09.ProofsTab C09.ProofsList C09.ProofsVal C09.ProofsSpec C09.ProofsOwn C09.ProofsPipe.

Local Open Scope N_scope.

(* induction over items, with the bodies *)
Lemma item_ind' (P : item -> Prop) :
  (forall c, P (ICmd c)) ->
  (forall k rs body, Forall P body -> P (IGroup k rs body)) ->
  (forall via rs p body, Forall P body -> P (IDot via rs p body)) ->
  (forall c, P (ISubst c)) ->
  (forall n, P (IPipe n)) ->
  (forall p, P (IStartup p)) ->
  (forall l, P (ILimit l)) ->
  (forall b, P (INoclobber b)) ->
  (forall b, P (IErrexit b)) ->
  forall i, P i.
Proof.
  intros Hc Hg Hd Hsu Hp Hst Hl Hn He.
  fix IH 1. intros [c|k rs body|via rs p body|c|n|p|l|b|b].
  - apply Hc.
  - apply Hg. induction body as [|x body IHb]; constructor; [apply IH|exact IHb].
  - apply Hd. induction body as [|x body IHb]; constructor; [apply IH|exact IHb].
  - apply Hsu.
  - apply Hp.
  - apply Hst.
  - apply Hl.
  - apply Hn.
  - apply He.
Qed.

Definition same_table (s s' : kst) : Prop := k_tab s' = k_tab s /\ k_lim s' = k_lim s.

Lemma same_table_wf s s' : same_table s s' -> wf s -> wf s'.
Proof. intros [A B] [C D]. split; [rewrite A; exact C|rewrite A, B; exact D]. Qed.

Lemma same_table_trans a b c : same_table a b -> same_table b c -> same_table a c.
Proof. intros [A B] [C D]. split; congruence. Qed.

Lemma undo_same_table s s' stack :
  same_table s s' -> k_tab (undo_redirs s' stack) = k_tab (undo_redirs s stack)
                     /\ k_lim (undo_redirs s' stack) = k_lim (undo_redirs s stack).
Proof. intros [A B]. cbn. rewrite A, B. split; reflexivity. Qed.

(* the property of one item that the induction carries *)
Definition restores (i : item) : Prop :=
  forall sh steps sh' ex,
    wf (sh_k sh) -> transient i = true -> run_item sh i = (steps, sh', ex) ->
    same_table (sh_k sh) (sh_k sh').

Lemma run_list_restores body :
  Forall restores body ->
  forall sh steps sh' ex,
    wf (sh_k sh) -> forallb transient body = true ->
    run_list_with run_item sh body = (steps, sh', ex) ->
    same_table (sh_k sh) (sh_k sh').
Proof.
  induction 1 as [|x body Hx Hbody IH]; intros sh steps sh' ex Hwf Ht; cbn [run_list_with].
  - intros E. injection E as _ <- _. split; reflexivity.
  - cbn [forallb] in Ht. apply andb_true_iff in Ht. destruct Ht as [Htx Htb].
    destruct (run_item sh x) as [[o1 sh1] ex1] eqn:E1.
    pose proof (Hx _ _ _ _ Hwf Htx E1) as H1.
    destruct ex1.
    + intros E. injection E as _ <- _. exact H1.
    + fold (run_list_with run_item).
      destruct (run_list_with run_item sh1 body) as [[o2 sh2] ex2] eqn:E2.
      intros E. injection E as _ <- _.
      eapply same_table_trans; [exact H1|].
      eapply IH; [eapply same_table_wf; eassumption|exact Htb|exact E2].
Qed.

Lemma item_restores : forall i, restores i.
Proof.
  apply item_ind'.
  - (* a command *)
    intros c sh steps sh' ex [Hs Hb] Ht. cbn [run_item transient] in *.
    destruct (run_cmd (sh_nc sh) (sh_k sh) c) as [[s' inside] ex'] eqn:Er.
    intros E. injection E as _ <- _. cbn [sh_k with_k].
    eapply command_restores_lemma; [exact Hs|exact Hb|exact Er|].
    left. destruct (c_kind c); try reflexivity; discriminate.
  - (* a compound command with a body *)
    intros k rs body Hbody sh steps sh' ex Hwf Ht. cbn [run_item transient] in *.
    destruct (perform_redirs (sh_nc sh) (sh_k sh) rs []) as [[s1 stack] ok] eqn:Hp.
    pose proof Hwf as [Hs Hb].
    pose proof (undo_restores_lemma _ _ _ _ _ _ Hs Hb Hp) as Hundo.
    pose proof (perform_redirs_wf _ _ _ _ _ _ _ Hwf Hp) as [Hwf1 El].
    assert (k_lim (undo_redirs s1 stack) = k_lim (sh_k sh)) as Hul by exact El.
    destruct ok.
    + destruct (run_list_with run_item (with_k sh s1) body) as [[ob shb] exb] eqn:Eb.
      pose proof (run_list_restores body Hbody (with_k sh s1) _ _ _ Hwf1 Ht Eb) as Hsame. cbn [sh_k with_k] in Hsame.
      destruct (undo_same_table _ _ stack Hsame) as [A B].
      destruct exb; intros E; injection E as _ <- _; cbn [sh_k with_k]; split; congruence.
    + intros E. injection E as _ <- _. cbn [sh_k with_k]. unfold same_table. rewrite undo_stderr. split; [exact Hundo|].
      cbn. destruct (stderr_write_tab s1) as [_ ->]. exact El.
  - (* the . built-in *)
    intros via rs p body Hbody sh steps sh' ex Hwf Ht. cbn [run_item transient] in *.
    destruct (perform_redirs (sh_nc sh) (sh_k sh) rs []) as [[s1 stack] ok] eqn:Hp.
    pose proof Hwf as [Hs Hb].
    pose proof (undo_restores_lemma _ _ _ _ _ _ Hs Hb Hp) as Hundo.
    pose proof (perform_redirs_wf _ _ _ _ _ _ _ Hwf Hp) as [Hwf1 El].
    assert (forall sx, k_tab sx = k_tab s1 -> k_lim sx = k_lim s1 ->
              same_table (sh_k sh) (undo_redirs sx stack)) as Hback.
    { intros sx A B. destruct (undo_same_table s1 sx stack (conj A B)) as [C D].
      split; [rewrite C; exact Hundo|rewrite D; exact El]. }
    destruct ok.
    + destruct (open_internal s1 p) as [s2 [fd|]] eqn:Eo;
        apply open_internal_tab in Eo; try exact Hwf1; destruct Eo as [Hwf2 [El2 Ho]].
      * destruct Ho as [Hge [Hfresh [id Et2]]].
        destruct (run_list_with run_item (with_k sh s2) body) as [[ob shb] exb] eqn:Eb.
        pose proof (run_list_restores body Hbody (with_k sh s2) _ _ _ Hwf2 Ht Eb) as [A B].
        cbn [sh_k with_k] in A, B.
        assert (same_table (sh_k sh) (undo_redirs (k_close (sh_k shb) fd) stack)) as Hfin.
        { apply Hback; cbn; [|congruence].
          rewrite A, Et2. apply tdel_tset_fresh; [apply Hwf1|exact Hfresh]. }
        destruct exb; intros E; injection E as _ <- _; exact Hfin.
      * intros E. injection E as _ <- _. cbn [sh_k with_k].
        destruct (stderr_write_tab s2) as [A B]. apply Hback; congruence.
    + intros E. injection E as _ <- _. cbn [sh_k with_k].
      destruct (stderr_write_tab s1) as [A B]. apply Hback; assumption.
  - (* a command with a command substitution *)
    intros c sh steps sh' ex Hwf Ht. cbn [run_item transient] in *.
    destruct (k_pipe (sh_k sh)) as [s1 [[r w]|er]] eqn:Ep;
      apply k_pipe_tab in Ep; try exact Hwf; destruct Ep as [Hwf1 [El1 Hpipe]].
    + destruct Hpipe as [Hne [Hr [Hw [e1 [e2 Et1]]]]].
      set (s2 := k_close (k_close s1 w) r).
      assert (same_table (sh_k sh) s2) as H2.
      { split; [cbn; rewrite Et1; apply close_both; try assumption; apply Hwf|exact El1]. }
      destruct (run_cmd (sh_nc sh) s2 c) as [[s' inside] ex'] eqn:Er.
      intros E. injection E as _ <- _. cbn [sh_k with_k].
      pose proof (same_table_wf _ _ H2 Hwf) as [Hs2 Hb2].
      eapply same_table_trans; [exact H2|].
      eapply command_restores_lemma; [exact Hs2|exact Hb2|exact Er|].
      left. destruct (c_kind c); try reflexivity; discriminate.
    + intros E. injection E as _ <- _. cbn [sh_k with_k].
      destruct (stderr_write_tab s1) as [A B]. split; congruence.
  - (* a pipeline *)
    intros n sh steps sh' ex [Hs Hb] _. cbn [run_item].
    destruct (run_pipeline (sh_k sh) n) as [[s' children] ok] eqn:Er.
    intros E. injection E as _ <- _. cbn [sh_k with_k].
    exact (pipeline_restores_lemma _ _ _ _ _ Hs Hb Er).
  - intros p sh steps sh' ex _ Ht. discriminate.
  - intros l sh steps sh' ex _ Ht. discriminate.
  - intros b sh steps sh' ex _ _ E. cbn in E. injection E as _ <- _. split; reflexivity.
  - intros b sh steps sh' ex _ _ E. cbn in E. injection E as _ <- _. split; reflexivity.
Qed.

Lemma script_restores_lemma i sh steps sh' ex :
  sorted (k_tab (sh_k sh)) -> below_limit (k_lim (sh_k sh)) (k_tab (sh_k sh)) ->
  transient i = true -> run_item sh i = (steps, sh', ex) ->
  k_tab (sh_k sh') = k_tab (sh_k sh) /\ k_lim (sh_k sh') = k_lim (sh_k sh).
Proof. intros Hs Hb Ht Hr. exact (item_restores i sh steps sh' ex (conj Hs Hb) Ht Hr). Qed.
