(* C09 — proofs, part 3: which description a successful [perform] binds the
   target to, and what it does to the files and to the store of
   descriptions. *)
From Yv Require Import Common.Base C09.Kernel C09.Model C09.Spec C09.ProofsTab C09.ProofsList.

Local Open Scope N_scope.

Lemma frame_trans a b c : frame a b -> frame b c -> frame a c.
Proof. intros [A1 [A2 [A3 A4]]] [B1 [B2 [B3 B4]]]. repeat split; congruence. Qed.

Lemma k_resolve_err f p w fl f' e : k_resolve f p w fl = (f', Err e) -> f' = f.
Proof.
  unfold k_resolve. destruct p as [k|]; [|intros E; injection E as <- _; reflexivity].
  destruct (fs_get f k) as [node|].
  - destruct (f_excl fl); [intros E; injection E as <- _; reflexivity|].
    destruct node; [destruct (f_trunc fl); discriminate|].
    destruct w; [intros E; injection E as <- _; reflexivity|discriminate].
  - destruct (f_create fl); [discriminate|intros E; injection E as <- _; reflexivity].
Qed.

Lemma k_open_ok_full s p r w fl s' c :
  k_open s p r w fl = (s', Ok c) ->
  exists f' k, k_resolve (k_fs s) p w fl = (f', Ok k) /\ k_fs s' = f'
               /\ k_next s' = k_next s + 1
               /\ k_ofd s' = (k_next s, mkOfd (FPath k) r w (f_append fl)) :: k_ofd s.
Proof.
  unfold k_open. destruct (k_resolve (k_fs s) p w fl) as [f' [k|e]]; [|discriminate].
  cbn [new_ofd]. intros Ha. apply alloc_fd_ok in Ha. destruct Ha as [_ [_ [_ [_ [En [Eo Ef]]]]]].
  cbn in En, Eo, Ef. exists f', k. repeat split; assumption.
Qed.

(* an error other than EMFILE comes from the path resolution: nothing changed *)
Lemma k_open_err_full s p r w fl s' e :
  k_open s p r w fl = (s', Err e) -> e <> EMFILE ->
  k_fs s' = k_fs s /\ k_next s' = k_next s /\ k_ofd s' = k_ofd s /\ k_tab s' = k_tab s
  /\ k_lim s' = k_lim s /\ exists f', k_resolve (k_fs s) p w fl = (f', Err e).
Proof.
  unfold k_open. destruct (k_resolve (k_fs s) p w fl) as [f' [k|e']] eqn:Er.
  - cbn [new_ofd]. intros Ha Hne. apply alloc_fd_err in Ha. destruct Ha as [_ [_ ->]]. congruence.
  - intros E Hne. injection E as <- <-. apply k_resolve_err in Er as Ef. subst f'.
    cbn. repeat split. exists (k_fs s). reflexivity.
Qed.

Definition fresh_val (nc : bool) (s s' : kst) (b : body) (v : option fdent) : Prop :=
  exists f' o, spec_new nc (k_fs s) b = Some (f', o) /\ k_fs s' = f'
               /\ k_next s' = k_next s + 1 /\ k_ofd s' = (k_next s, o) :: k_ofd s
               /\ v = Some (mkEnt (k_next s) false).

(* what a successful redirection with body b has done, v being the new
   binding of the target *)
Definition step_val (nc : bool) (s s' : kst) (b : body) (v : option fdent) : Prop :=
  match b with
  | BDup op (DFd m) =>
      frame s s' /\ exists e o, lookup (k_tab s) m = Some e /\ e_cx e = false
                                /\ ofd_get (k_ofd s) (e_ofd e) = Some o /\ acc op o = true
                                /\ v = Some (mkEnt (e_ofd e) false)
  | BDup _ DClose => frame s s' /\ v = None
  | BDup _ DMalformed | BUnsupported => False
  | BFile _ _ | BHere _ => fresh_val nc s s' b v
  end.

Definition opens_file (b : body) : Prop :=
  match b with BFile _ _ | BHere _ => True | _ => False end.

Lemma open_file_val s r w fl p s1 f :
  open_file s r w fl p = (s1, Some (Owned f)) ->
  k_tab s1 = tset (k_tab s) f (mkEnt (k_next s) false)
  /\ exists f' o, sopen (k_fs s) p r w fl = Some (f', o) /\ k_fs s1 = f'
                  /\ k_next s1 = k_next s + 1 /\ k_ofd s1 = (k_next s, o) :: k_ofd s.
Proof.
  unfold open_file. destruct (k_open s p r w fl) as [s' [c|e]] eqn:Eo; [|discriminate].
  intros E. injection E as <- <-.
  pose proof (k_open_tab _ _ _ _ _ _ _ Eo) as [_ [Et _]].
  apply k_open_ok_full in Eo. destruct Eo as [f' [k [Er [Ef [En Eofd]]]]].
  split; [exact Et|]. exists f', (mkOfd (FPath k) r w (f_append fl)).
  unfold sopen. rewrite Er. repeat split; assumption.
Qed.

Lemma open_file_spec s r w fl p s1 sp :
  open_file s r w fl p = (s1, Some sp) -> exists f, sp = Owned f.
Proof.
  unfold open_file. destruct (k_open s p r w fl) as [s' [c|e]]; [|discriminate].
  intros E. injection E as _ <-. eauto.
Qed.

Lemma open_file_noclobber_val s p s1 sp :
  open_file_noclobber s p = (s1, Some sp) ->
  exists f, sp = Owned f /\
  k_tab s1 = tset (k_tab s) f (mkEnt (k_next s) false)
  /\ exists f' o, spec_new true (k_fs s) (BFile FileOut p) = Some (f', o) /\ k_fs s1 = f'
                  /\ k_next s1 = k_next s + 1 /\ k_ofd s1 = (k_next s, o) :: k_ofd s.
Proof.
  unfold open_file_noclobber.
  destruct (k_open s p false true fl_excl) as [sa [c|e]] eqn:Ea.
  - (* created *)
    intros E. injection E as <- <-. exists c. split; [reflexivity|].
    pose proof (k_open_tab _ _ _ _ _ _ _ Ea) as [_ [Et _]].
    apply k_open_ok_full in Ea. destruct Ea as [f' [k [Er [Ef [En Eofd]]]]].
    split; [exact Et|]. exists f', (mkOfd (FPath k) false true false).
    split; [|repeat split; assumption].
    cbn [spec_new]. unfold k_resolve in Er. destruct p as [k0|]; [|discriminate].
    destruct (fs_get (k_fs s) k0) as [node|]; cbn in Er; [discriminate|].
    injection Er as <- <-. reflexivity.
  - destruct e; try discriminate.
    apply k_open_err_full in Ea; [|discriminate].
    destruct Ea as [Efa [Ena [Eoa [Eta [_ [fx Era]]]]]].
    destruct (k_open sa p false true fl_none) as [sb [c|e]] eqn:Eb; [|discriminate].
    pose proof (k_open_tab _ _ _ _ _ _ _ Eb) as [_ [Etb _]].
    apply k_open_ok_full in Eb as Eb'. destruct Eb' as [f' [k [Er [Ef [En Eofd]]]]].
    rewrite Efa in Er. rewrite Ena in En, Etb, Eofd. rewrite Eoa in Eofd. rewrite Eta in Etb.
    unfold k_resolve in Er. destruct p as [k0|]; [|discriminate].
    destruct (fs_get (k_fs s) k0) as [node|] eqn:Eg; cbn in Er; [|discriminate].
    (* a directory cannot be opened for writing; a regular file is refused *)
    destruct node as [cc dd|]; [|discriminate]. injection Er as <- <-.
    assert (is_regular_fd sb c = true) as Hreg.
    { unfold is_regular_fd, k_ofd_of. rewrite Etb, lookup_tset, N.eqb_refl. cbn [e_ofd].
      rewrite Eofd. cbn [ofd_get]. rewrite N.eqb_refl. cbn [o_file]. rewrite Ef, Eg. reflexivity. }
    rewrite Hreg. discriminate.
Qed.

Lemma open_normal_val nc s b s1 sp :
  open_normal nc s b = (s1, Some sp) ->
  match sp with
  | Owned f =>
      opens_file b /\ k_tab s1 = tset (k_tab s) f (mkEnt (k_next s) false)
      /\ exists f' o, spec_new nc (k_fs s) b = Some (f', o) /\ k_fs s1 = f'
                      /\ k_next s1 = k_next s + 1 /\ k_ofd s1 = (k_next s, o) :: k_ofd s
  | Borrowed m =>
      s1 = s /\ exists op e o, b = BDup op (DFd m) /\ lookup (k_tab s) m = Some e /\ e_cx e = false
                               /\ ofd_get (k_ofd s) (e_ofd e) = Some o /\ acc op o = true
  | SClosed => s1 = s /\ exists op, b = BDup op DClose
  end.
Proof.
  destruct b as [op p|op a|c|]; cbn [open_normal].
  - assert (forall r w fl,
              sopen (k_fs s) p r w fl = spec_new nc (k_fs s) (BFile op p) ->
              open_file s r w fl p = (s1, Some sp) ->
              match sp with
              | Owned f =>
                  opens_file (BFile op p) /\ k_tab s1 = tset (k_tab s) f (mkEnt (k_next s) false)
                  /\ exists f' o, spec_new nc (k_fs s) (BFile op p) = Some (f', o) /\ k_fs s1 = f'
                                  /\ k_next s1 = k_next s + 1 /\ k_ofd s1 = (k_next s, o) :: k_ofd s
              | Borrowed m =>
                  s1 = s /\ exists op' e o, BFile op p = BDup op' (DFd m) /\ lookup (k_tab s) m = Some e
                                            /\ e_cx e = false
                                            /\ ofd_get (k_ofd s) (e_ofd e) = Some o /\ acc op' o = true
              | SClosed => s1 = s /\ exists op', BFile op p = BDup op' DClose
              end) as Hfile.
    { intros r w fl Hsp Ho. destruct (open_file_spec _ _ _ _ _ _ _ Ho) as [f ->].
      apply open_file_val in Ho. destruct Ho as [Et [f' [o [Hso Hrest]]]].
      split; [exact I|]. split; [exact Et|]. exists f', o. rewrite <- Hsp. split; assumption. }
    destruct op.
    + apply Hfile. reflexivity.
    + apply Hfile. reflexivity.
    + destruct nc.
      * intros Ho. apply open_file_noclobber_val in Ho. destruct Ho as [f [-> [Et Hrest]]].
        split; [exact I|]. split; assumption.
      * apply Hfile. reflexivity.
    + apply Hfile. reflexivity.
    + apply Hfile. reflexivity.
  - intros E. injection E as <- Hc. unfold copy_fd in Hc. destruct a as [n| |].
    + destruct (fd_valid s n op) eqn:Ev; cbn in Hc; [|discriminate].
      destruct (k_cloexec s n) eqn:Ec; cbn in Hc; [discriminate|]. injection Hc as <-.
      split; [reflexivity|]. unfold fd_valid, k_ofd_of in Ev. unfold k_cloexec in Ec.
      destruct (lookup (k_tab s) n) as [e|]; [|discriminate].
      destruct (ofd_get (k_ofd s) (e_ofd e)) as [o|] eqn:Eo; [|discriminate].
      exists op, e, o. unfold acc. repeat split; assumption.
    + injection Hc as <-. split; [reflexivity|]. exists op. reflexivity.
    + discriminate.
  - destruct (k_tmpfile s c) as [s' [fd|e]] eqn:Et; [|discriminate].
    intros E. injection E as <- <-.
    pose proof (k_tmpfile_tab _ _ _ _ Et) as [_ [Etab _]].
    unfold k_tmpfile in Et. cbn [new_ofd] in Et. apply alloc_fd_ok in Et.
    destruct Et as [_ [_ [_ [_ [En [Eo Ef]]]]]]. cbn in En, Eo, Ef.
    split; [exact I|]. split; [exact Etab|].
    exists (k_fs s), (mkOfd (FAnon c 0) true true false). cbn [spec_new]. repeat split; assumption.
  - discriminate.
Qed.

Lemma apply_val nc s r s2 :
  wf s -> apply nc s r = (s2, true) ->
  step_val nc s s2 (r_body r) (lookup (k_tab s2) (r_fd r)).
Proof.
  intros [Hs Hb]. unfold apply.
  destruct (open_normal nc s (r_body r)) as [s1 [sp|]] eqn:Eo; [|discriminate].
  apply open_normal_val in Eo. destruct sp as [f|m|]; cbn [spec_fd spec_close].
  - destruct Eo as [Hopens [Et [f' [o [Hsn [Ef [En Eofd]]]]]]].
    assert (fresh_val nc s s2 (r_body r) (lookup (k_tab s2) (r_fd r)) ->
            step_val nc s s2 (r_body r) (lookup (k_tab s2) (r_fd r))) as Hfin.
    { unfold step_val. destruct (r_body r); cbn in Hopens; tauto. }
    destruct (N.eqb_spec f (r_fd r)) as [Heq|Hne].
    + intros E. injection E as <-. apply Hfin. exists f', o.
      rewrite Et, Heq, lookup_tset, N.eqb_refl. repeat split; assumption.
    + unfold k_dup2, t_dup2. rewrite Et, lookup_tset, N.eqb_refl.
      destruct (N.eqb_spec f (r_fd r)) as [|_]; [congruence|].
      destruct (in_limit (k_lim s1) (r_fd r)); intros E; [|discriminate]; injection E as <-.
      apply Hfin. exists f', o. cbn.
      rewrite lookup_tdel by (apply sorted_tset, sorted_tset; assumption).
      destruct (N.eqb_spec f (r_fd r)); [congruence|].
      rewrite lookup_tset, N.eqb_refl. repeat split; assumption.
  - destruct Eo as [-> [op [e [o [Hbody [Hm [Hcx [Ho Hacc]]]]]]]].
    unfold step_val. rewrite Hbody.
    destruct (N.eqb_spec m (r_fd r)) as [Heq|Hne].
    + intros E. injection E as <-. split; [apply frame_refl|].
      exists e, o. rewrite <- Heq, Hm, ent_eta by assumption. repeat split; assumption.
    + unfold k_dup2, t_dup2. rewrite Hm.
      destruct (N.eqb_spec m (r_fd r)) as [|_]; [congruence|].
      destruct (in_limit (k_lim s) (r_fd r)); intros E; [|discriminate]; injection E as <-.
      split; [repeat split|]. exists e, o. cbn. rewrite lookup_tset, N.eqb_refl.
      repeat split; assumption.
  - destruct Eo as [-> [op Hbody]]. intros E. injection E as <-.
    unfold step_val. rewrite Hbody. split; [repeat split|].
    cbn. rewrite lookup_tdel by assumption. rewrite N.eqb_refl. reflexivity.
Qed.

Lemma step_val_transport nc s s1 s2 b v sv X :
  frame s s1 -> k_tab s1 = tset (k_tab s) sv X -> e_cx X = true ->
  step_val nc s1 s2 b v -> step_val nc s s2 b v.
Proof.
  intros Hf Et Hx. pose proof Hf as [Hl [Hn [Ho Hfs]]].
  assert (fresh_val nc s1 s2 b v -> fresh_val nc s s2 b v) as Hfresh.
  { intros [f' [o H]]. exists f', o. rewrite Hfs, Hn, Ho in H. exact H. }
  destruct b as [op p|op a|c|]; cbn [step_val]; try exact Hfresh; try tauto.
  destruct a as [m| |]; [| |tauto].
  - intros [Hf2 [e [o [Hm [Hcx [Hofd [Hacc Hv]]]]]]]. split; [eapply frame_trans; eassumption|].
    exists e, o. rewrite Et, lookup_tset in Hm. rewrite Ho in Hofd.
    destruct (N.eqb_spec sv m) as [->|_].
    + injection Hm as <-. congruence.
    + repeat split; assumption.
  - intros [Hf2 Hv]. split; [eapply frame_trans; eassumption|assumption].
Qed.

Lemma perform_val nc s r s' n save :
  wf s -> perform nc s r = (s', Some (n, save)) ->
  step_val nc s s' (r_body r) (lookup (k_tab s') n).
Proof.
  intros Hwf. unfold perform. destruct (k_cloexec s (r_fd r)); [discriminate|].
  unfold k_dup. destruct (lookup (k_tab s) (r_fd r)) as [en|] eqn:Hn.
  - destruct (alloc_fd s MIN_INTERNAL_FD (mkEnt (e_ofd en) true)) as [s1 [sv|e]] eqn:Ea.
    2:{ apply alloc_fd_err in Ea. destruct Ea as [_ [_ ->]]. discriminate. }
    pose proof (alloc_fd_wf _ _ _ _ _ Hwf Ea) as Hwf1.
    apply alloc_fd_ok in Ea. destruct Ea as [Et1 [_ [_ Hf1]]].
    destruct (apply nc s1 r) as [s2 [|]] eqn:Eap; [|discriminate].
    intros E. injection E as <- <- _.
    apply apply_val in Eap; [|assumption].
    eapply step_val_transport; [exact Hf1|exact Et1|reflexivity|exact Eap].
  - destruct (apply nc s r) as [s2 [|]] eqn:Eap; [|discriminate].
    intros E. injection E as <- <- _. apply apply_val; assumption.
Qed.
