(* C09 — a small pure model of the descriptor-table part of a POSIX kernel,
   shaped like yash-env/src/system/virtual{.rs,/process.rs,/file_system.rs}:

     per-process table  fd |-> (open-file-description id, close-on-exec flag)
     (the Rust [BTreeMap<Fd, FdBody>]: kept sorted by descriptor, so that two
     tables with the same bindings are the same list),
     a soft limit RLIMIT_NOFILE on descriptor *numbers* ([Process::set_fd]),
     [open] = lowest unused descriptor, [dup(fd, min, flags)] = lowest unused
     descriptor >= min, [dup2], [close], and a tiny file system (path key |->
     regular file / directory) with the O_CREAT / O_EXCL / O_TRUNC effects and
     the EISDIR rule of [VirtualSystem::resolve_file].

   Every *allocation* of a descriptor additionally consumes one bit of a fault
   list [k_flt]; a [true] bit makes the allocation fail with EMFILE whatever the
   table looks like.  The implementation corresponds to the empty fault list
   (failures then come from the limit only); the theorems hold for every list,
   i.e. for every pattern of allocation failures. *)
From Yv Require Import Common.Base.

(* ---- descriptor tables ------------------------------------------------ *)

Record fdent := mkEnt { e_ofd : N; e_cx : bool }.

Definition fdent_eqb (a b : fdent) : bool :=
  N.eqb (e_ofd a) (e_ofd b) && Bool.eqb (e_cx a) (e_cx b).

Definition table := list (N * fdent).

Fixpoint lookup (t : table) (k : N) : option fdent :=
  match t with
  | [] => None
  | (k', v) :: t' => if N.eqb k' k then Some v else lookup t' k
  end.

(* BTreeMap::insert *)
Fixpoint tset (t : table) (k : N) (v : fdent) : table :=
  match t with
  | [] => [(k, v)]
  | (k', v') :: t' =>
      if N.ltb k k' then (k, v) :: t
      else if N.eqb k k' then (k, v) :: t'
      else (k', v') :: tset t' k v
  end.

(* BTreeMap::remove *)
Fixpoint tdel (t : table) (k : N) : table :=
  match t with
  | [] => []
  | (k', v') :: t' => if N.eqb k k' then t' else (k', v') :: tdel t' k
  end.

Definition keys (t : table) : list N := map fst t.

Fixpoint sorted (t : table) : Prop :=
  match t with
  | [] => True
  | (k, _) :: t' => (forall k', In k' (keys t') -> (k < k')%N) /\ sorted t'
  end.

(* process.rs [min_unused_fd]: the least descriptor >= c that is not a key of
   the (sorted) table *)
Fixpoint min_unused (c : N) (t : table) : N :=
  match t with
  | [] => c
  | (k, _) :: t' =>
      if N.ltb k c then min_unused c t'
      else if N.eqb k c then min_unused (c + 1) t'
      else c
  end.

Definition in_limit (lim : option N) (fd : N) : bool :=
  match lim with None => true | Some l => N.ltb fd l end.

(* every open descriptor is below the limit (true of a process that has not
   lowered its limit below a descriptor it holds) *)
Definition below_limit (lim : option N) (t : table) : Prop :=
  forall k, In k (keys t) -> in_limit lim k = true.

(* ---- open file descriptions and files --------------------------------- *)

Inductive fref :=
| FPath (p : N)                   (* the file found at path key p when it was opened *)
| FAnon (content : list N) (off : N)    (* unnamed temporary file (here-document) *)
| FAnonDirty                           (* ... after a diagnostic message of unknown text was written to it *)
| FPipe.                               (* one end of a pipe *)

Record ofd := mkOfd { o_file : fref; o_r : bool; o_w : bool; o_app : bool }.

Inductive fnode :=
| Reg (content : list N) (dirty : bool)   (* dirty: a diagnostic message of unknown text was written *)
| Dir.

Definition fsys := list (N * fnode).

Fixpoint fs_get (f : fsys) (p : N) : option fnode :=
  match f with
  | [] => None
  | (p', n) :: f' => if N.eqb p' p then Some n else fs_get f' p
  end.

Fixpoint fs_set (f : fsys) (p : N) (n : fnode) : fsys :=
  match f with
  | [] => [(p, n)]
  | (p', n') :: f' => if N.eqb p' p then (p, n) :: f' else (p', n') :: fs_set f' p n
  end.

Fixpoint ofd_get (l : list (N * ofd)) (i : N) : option ofd :=
  match l with
  | [] => None
  | (i', o) :: l' => if N.eqb i' i then Some o else ofd_get l' i
  end.

(* ---- kernel state and system calls ------------------------------------- *)

Record kst := mkK {
  k_tab : table;
  k_lim : option N;            (* soft RLIMIT_NOFILE, None = infinity *)
  k_flt : list bool;           (* injected allocation failures *)
  k_next : N;                  (* next open-file-description id *)
  k_ofd : list (N * ofd);      (* attributes of the descriptions created so far *)
  k_fs : fsys
}.

Definition with_tab (s : kst) (t : table) : kst :=
  mkK t (k_lim s) (k_flt s) (k_next s) (k_ofd s) (k_fs s).
Definition with_fs (s : kst) (f : fsys) : kst :=
  mkK (k_tab s) (k_lim s) (k_flt s) (k_next s) (k_ofd s) f.
Definition with_lim (s : kst) (l : option N) : kst :=
  mkK (k_tab s) l (k_flt s) (k_next s) (k_ofd s) (k_fs s).

Definition take_fault (s : kst) : bool * kst :=
  match k_flt s with
  | [] => (false, s)
  | b :: f => (b, mkK (k_tab s) (k_lim s) f (k_next s) (k_ofd s) (k_fs s))
  end.

Inductive errno := EBADF | EMFILE | EEXIST | ENOENT | EOTHER.

Inductive res (A : Type) := Ok (a : A) | Err (e : errno).
Arguments Ok {A} a.
Arguments Err {A} e.

(* Process::open_fd_ge + set_fd: the lowest unused descriptor >= min, refused
   at or above the limit.  One fault bit is consumed per call. *)
Definition alloc_fd (s : kst) (min : N) (v : fdent) : kst * res N :=
  let (flt, s1) := take_fault s in
  if flt then (s1, Err EMFILE)
  else
    let c := min_unused min (k_tab s1) in
    if in_limit (k_lim s1) c then (with_tab s1 (tset (k_tab s1) c v), Ok c)
    else (s1, Err EMFILE).

(* Dup::dup *)
Definition k_dup (s : kst) (from min : N) (cx : bool) : kst * res N :=
  match lookup (k_tab s) from with
  | None => (s, Err EBADF)
  | Some e => alloc_fd s min (mkEnt (e_ofd e) cx)
  end.

(* Dup::dup2, on the table alone (the rest of the state is not touched) *)
Definition t_dup2 (lim : option N) (t : table) (from to : N) : table * bool :=
  match lookup t from with
  | None => (t, false)
  | Some e =>
      (* POSIX: if the two descriptors are equal, dup2 returns it without
         closing it or changing its flags *)
      if N.eqb from to then (t, true)
      else if in_limit lim to then (tset t to (mkEnt (e_ofd e) false), true) else (t, false)
  end.

Definition k_dup2 (s : kst) (from to : N) : kst * bool :=
  let (t, ok) := t_dup2 (k_lim s) (k_tab s) from to in (with_tab s t, ok).

(* Close::close (never fails in the virtual system) *)
Definition k_close (s : kst) (fd : N) : kst := with_tab s (tdel (k_tab s) fd).

(* Fcntl::fcntl_getfd ... contains(CloseOnExec); false for a closed descriptor *)
Definition k_cloexec (s : kst) (fd : N) : bool :=
  match lookup (k_tab s) fd with Some e => e_cx e | None => false end.

Definition k_ofd_of (s : kst) (fd : N) : option ofd :=
  match lookup (k_tab s) fd with
  | Some e => ofd_get (k_ofd s) (e_ofd e)
  | None => None
  end.

Inductive pth := PKey (p : N) | PBad.   (* PBad: a path through a regular file (ENOTDIR) *)

Record oflags := mkFl { f_create : bool; f_excl : bool; f_trunc : bool; f_append : bool }.

(* VirtualSystem::resolve_file: the effects on the file system happen before a
   descriptor is allocated *)
Definition k_resolve (f : fsys) (p : pth) (w : bool) (fl : oflags) : fsys * res N :=
  match p with
  | PBad => (f, Err EOTHER)
  | PKey k =>
      match fs_get f k with
      | Some node =>
          if f_excl fl then (f, Err EEXIST)
          else
            match node with
            | Dir => if w then (f, Err EOTHER) (* EISDIR: a directory is opened read-only or not at all *)
                     else (f, Ok k)
            | Reg _ _ => if f_trunc fl then (fs_set f k (Reg [] false), Ok k) else (f, Ok k)
            end
      | None => if f_create fl then (fs_set f k (Reg [] false), Ok k) else (f, Err ENOENT)
      end
  end.

(* a new open file description; its id is returned *)
Definition new_ofd (s : kst) (o : ofd) : kst * N :=
  (mkK (k_tab s) (k_lim s) (k_flt s) (k_next s + 1) ((k_next s, o) :: k_ofd s) (k_fs s), k_next s).

(* Open::open *)
Definition k_open (s : kst) (p : pth) (r w : bool) (fl : oflags) : kst * res N :=
  let (f', rk) := k_resolve (k_fs s) p w fl in
  let s1 := with_fs s f' in
  match rk with
  | Err e => (s1, Err e)
  | Ok k =>
      let (s2, id) := new_ofd s1 (mkOfd (FPath k) r w (f_append fl)) in
      alloc_fd s2 0 (mkEnt id false)
  end.

(* Open::open with O_CLOEXEC, read-only, no other flag (how the shell opens a
   script for its own use) *)
Definition k_open_cx (s : kst) (p : pth) : kst * res N :=
  let (f', rk) := k_resolve (k_fs s) p false (mkFl false false false false) in
  let s1 := with_fs s f' in
  match rk with
  | Err e => (s1, Err e)
  | Ok k =>
      let (s2, id) := new_ofd s1 (mkOfd (FPath k) true false false) in
      alloc_fd s2 0 (mkEnt id true)
  end.

(* Pipe::pipe: reader then writer, each at the lowest unused descriptor; the
   reader is closed again if the writer cannot be allocated *)
Definition k_pipe (s : kst) : kst * res (N * N) :=
  let (s1, rid) := new_ofd s (mkOfd FPipe true false false) in
  let (s2, wid) := new_ofd s1 (mkOfd FPipe false true false) in
  match alloc_fd s2 0 (mkEnt rid false) with
  | (s3, Err e) => (s3, Err e)
  | (s3, Ok r) =>
      match alloc_fd s3 0 (mkEnt wid false) with
      | (s4, Err e) => (k_close s4 r, Err e)
      | (s4, Ok w) => (s4, Ok (r, w))
      end
  end.

(* Open::open_tmpfile followed by here_doc::fill_content (write, lseek 0) *)
Definition k_tmpfile (s : kst) (content : list N) : kst * res N :=
  let (s2, id) := new_ofd s (mkOfd (FAnon content 0) true true false) in
  alloc_fd s2 0 (mkEnt id false).

(* ---- facts about tables -------------------------------------------------- *)

Lemma lookup_tset t k v k' :
  lookup (tset t k v) k' = if N.eqb k k' then Some v else lookup t k'.
Proof.
  induction t as [|[k0 v0] t IH]; cbn [tset lookup].
  - reflexivity.
  - destruct (N.ltb_spec k k0) as [Hlt|Hge].
    + cbn [lookup]. reflexivity.
    + destruct (N.eqb_spec k k0) as [->|Hne].
      * cbn [lookup]. destruct (N.eqb_spec k0 k'); reflexivity.
      * cbn [lookup]. rewrite IH.
        destruct (N.eqb_spec k0 k') as [->|Hne']; [|reflexivity].
        destruct (N.eqb_spec k k'); [congruence|reflexivity].
Qed.

Lemma in_keys_lookup t k : In k (keys t) <-> lookup t k <> None.
Proof.
  induction t as [|[k0 v0] t IH]; cbn [keys map fst In lookup].
  - split; [tauto|congruence].
  - destruct (N.eqb_spec k0 k) as [->|Hne].
    + split; [congruence|auto].
    + unfold keys in IH. rewrite <- IH. split; [intros [?|?]; [congruence|auto]|auto].
Qed.

Lemma lookup_tdel t k k' :
  sorted t -> lookup (tdel t k) k' = if N.eqb k k' then None else lookup t k'.
Proof.
  induction t as [|[k0 v0] t IH]; cbn [tdel lookup sorted].
  - destruct (N.eqb k k'); reflexivity.
  - intros [Hlt Hs]. destruct (N.eqb_spec k k0) as [->|Hne].
    + destruct (N.eqb_spec k0 k') as [->|Hne'].
      * destruct (lookup t k') eqn:E; [|reflexivity].
        assert (In k' (keys t)) as Hin by (apply in_keys_lookup; congruence).
        apply Hlt in Hin. lia.
      * reflexivity.
    + cbn [lookup]. rewrite IH by assumption.
      destruct (N.eqb_spec k0 k') as [->|Hne'].
      * destruct (N.eqb_spec k k'); [congruence|reflexivity].
      * reflexivity.
Qed.

Lemma keys_tset t k v k' : In k' (keys (tset t k v)) <-> k' = k \/ In k' (keys t).
Proof.
  rewrite !in_keys_lookup, lookup_tset.
  destruct (N.eqb_spec k k') as [->|Hne].
  - split; [auto|congruence].
  - split; [auto|intros [?|?]; [congruence|auto]].
Qed.

Lemma sorted_tset t k v : sorted t -> sorted (tset t k v).
Proof.
  induction t as [|[k0 v0] t IH]; cbn [tset sorted].
  - intros _. split; [intros k' []|exact I].
  - intros [Hlt Hs]. destruct (N.ltb_spec k k0) as [Hl|Hge].
    + cbn [sorted]. split; [|split; assumption].
      intros k' Hin. cbn [keys map fst In] in Hin. destruct Hin as [<-|Hin]; [assumption|].
      apply Hlt in Hin. lia.
    + destruct (N.eqb_spec k k0) as [->|Hne].
      * cbn [sorted]. split; assumption.
      * cbn [sorted]. split; [|apply IH; assumption].
        intros k' Hin. apply keys_tset in Hin. destruct Hin as [->|Hin]; [lia|auto].
Qed.

Lemma keys_tdel_incl t k k' : In k' (keys (tdel t k)) -> In k' (keys t).
Proof.
  induction t as [|[k0 v0] t IH]; cbn [tdel keys map fst In]; [tauto|].
  destruct (N.eqb k k0); cbn [keys map fst In]; [auto|].
  intros [?|?]; [auto|right; apply IH; assumption].
Qed.

Lemma sorted_tdel t k : sorted t -> sorted (tdel t k).
Proof.
  induction t as [|[k0 v0] t IH]; cbn [tdel sorted]; [tauto|].
  intros [Hlt Hs]. destruct (N.eqb k k0); [assumption|].
  cbn [sorted]. split; [|apply IH; assumption].
  intros k' Hin. apply keys_tdel_incl in Hin. auto.
Qed.

(* sorted tables are canonical: same bindings, same list *)
Lemma sorted_ext t1 t2 :
  sorted t1 -> sorted t2 -> (forall k, lookup t1 k = lookup t2 k) -> t1 = t2.
Proof.
  revert t2. induction t1 as [|[k1 v1] t1 IH]; intros [|[k2 v2] t2] S1 S2 H.
  - reflexivity.
  - specialize (H k2). cbn [lookup] in H. rewrite N.eqb_refl in H. discriminate.
  - specialize (H k1). cbn [lookup] in H. rewrite N.eqb_refl in H. discriminate.
  - cbn [sorted] in S1, S2. destruct S1 as [L1 S1], S2 as [L2 S2].
    assert (k1 = k2) as ->.
    { pose proof (H k1) as H1. pose proof (H k2) as H2. cbn [lookup] in H1, H2.
      rewrite N.eqb_refl in H1, H2.
      destruct (N.eqb_spec k2 k1) as [->|Hne]; [reflexivity|].
      destruct (N.eqb_spec k1 k2) as [->|_]; [reflexivity|].
      assert (In k1 (keys t2)) as I1 by (apply in_keys_lookup; congruence).
      assert (In k2 (keys t1)) as I2 by (apply in_keys_lookup; congruence).
      apply L2 in I1. apply L1 in I2. lia. }
    pose proof (H k2) as H2. cbn [lookup] in H2. rewrite N.eqb_refl in H2.
    injection H2 as ->. f_equal. apply IH; [assumption..|].
    intros k. specialize (H k). cbn [lookup] in H.
    destruct (N.eqb_spec k2 k) as [->|Hne]; [|assumption].
    destruct (lookup t1 k) eqn:E1.
    { assert (In k (keys t1)) as I by (apply in_keys_lookup; congruence). apply L1 in I. lia. }
    destruct (lookup t2 k) eqn:E2; [|reflexivity].
    assert (In k (keys t2)) as I by (apply in_keys_lookup; congruence). apply L2 in I. lia.
Qed.

Lemma min_unused_ge c t : (c <= min_unused c t)%N.
Proof.
  revert c. induction t as [|[k v] t IH]; intros c; cbn [min_unused]; [lia|].
  destruct (N.ltb k c); [apply IH|].
  destruct (N.eqb k c); [|lia]. specialize (IH (c + 1)%N). lia.
Qed.

Lemma min_unused_fresh c t : sorted t -> lookup t (min_unused c t) = None.
Proof.
  revert c. induction t as [|[k v] t IH]; intros c; cbn [min_unused sorted]; [reflexivity|].
  intros [Hlt Hs]. destruct (N.ltb_spec k c) as [Hl|Hge].
  - cbn [lookup]. pose proof (min_unused_ge c t).
    destruct (N.eqb_spec k (min_unused c t)); [lia|]. apply IH; assumption.
  - destruct (N.eqb_spec k c) as [->|Hne].
    + cbn [lookup]. pose proof (min_unused_ge (c + 1) t).
      destruct (N.eqb_spec c (min_unused (c + 1) t)); [lia|]. apply IH; assumption.
    + cbn [lookup]. destruct (N.eqb_spec k c); [congruence|].
      destruct (lookup t c) eqn:E; [|reflexivity].
      assert (In c (keys t)) as I by (apply in_keys_lookup; congruence). apply Hlt in I. lia.
Qed.

(* ... and it is the least such descriptor *)
Lemma min_unused_least c t x :
  sorted t -> (c <= x < min_unused c t)%N -> lookup t x <> None.
Proof.
  revert c. induction t as [|[k v] t IH]; intros c; cbn [min_unused sorted]; [lia|].
  intros [Hlt Hs] Hx. destruct (N.ltb_spec k c) as [Hl|Hge].
  - cbn [lookup]. destruct (N.eqb_spec k x); [congruence|]. eapply IH; eassumption.
  - destruct (N.eqb_spec k c) as [->|Hne]; [|lia].
    cbn [lookup]. destruct (N.eqb_spec c x); [congruence|].
    apply (IH (c + 1)%N); [assumption|lia].
Qed.
