(* C09 — proofs, part 4: the model refines the specification; noclobber;
   the commands; soundness of the oracle clauses about tables. *)
From Yv Require Import Common.Base C09.Kernel C09.Model C09.Spec
  C09.ProofsTab C09.ProofsList C09.ProofsVal.

Local Open Scope N_scope.

(* ---- model refines specification -------------------------------------------- *)

(* the abstract state u describes the process s, s0 being the process before
   the first redirection *)
Record sim (s0 s : kst) (u : ust) : Prop := mkSim {
  sim_view : forall fd, view (k_tab s) fd = uget (view (k_tab s0)) u fd;
  sim_fs : k_fs s = u_fs u;
  sim_next : k_next s = u_next u;
  sim_attr : forall id, ofd_get (k_ofd s) id = uattr (ofd_get (k_ofd s0)) u id
}.

Definition ust0 (s : kst) : ust := mkU [] (k_fs s) (k_next s) [].

Lemma sim_init s : sim s s (ust0 s).
Proof. split; reflexivity. Qed.

Lemma view_of_lookup t fd v : lookup t fd = v ->
  view t fd = match v with Some e => if e_cx e then None else Some (e_ofd e) | None => None end.
Proof. intros <-. reflexivity. Qed.

Lemma uget_ufresh base u f n o fd :
  uget base (ufresh u f n o) fd = if N.eqb n fd then Some (u_next u) else uget base u fd.
Proof. unfold uget, ufresh. cbn. destruct (N.eqb n fd); reflexivity. Qed.

Lemma uget_ubind base u n v fd :
  uget base (ubind u n v) fd = if N.eqb n fd then v else uget base u fd.
Proof. unfold uget, ubind. cbn. destruct (N.eqb n fd); reflexivity. Qed.

Lemma uattr_ufresh battr u f n o id :
  uattr battr (ufresh u f n o) id = if N.eqb (u_next u) id then Some o else uattr battr u id.
Proof. unfold uattr, ufresh. cbn. destruct (N.eqb (u_next u) id); reflexivity. Qed.

Lemma step_sim nc s0 s u r s' n save :
  wf s -> sim s0 s u -> perform nc s r = (s', Some (n, save)) ->
  exists u', spec_redir (view (k_tab s0)) (ofd_get (k_ofd s0)) nc u r = Some u' /\ sim s0 s' u'.
Proof.
  intros Hwf [Sv Sf Sn Sa] Hp.
  pose proof (perform_val _ _ _ _ _ _ Hwf Hp) as Hval.
  apply perform_step in Hp; [|assumption].
  destruct Hp as [_ [_ [Hn [Hcx [v [Hv Hsave]]]]]].
  (* the table: only n changed as far as the user can see *)
  assert (lookup (k_tab s') n = v /\
          forall fd, fd <> n -> view (k_tab s') fd = view (k_tab s) fd) as [Hnv Hrest].
  { destruct save as [sv|].
    - destruct Hsave as [en [Hln [Hcxn [Hfresh [Hge [Hne Hupd]]]]]]. split.
      + rewrite Hupd, N.eqb_refl. reflexivity.
      + intros fd Hfd. unfold view. rewrite Hupd. destruct (N.eqb_spec fd n); [congruence|].
        rewrite lookup_tset. destruct (N.eqb_spec sv fd) as [<-|_]; [|reflexivity].
        cbn. rewrite Hfresh. reflexivity.
    - destruct Hsave as [Hln Hupd]. split.
      + rewrite Hupd, N.eqb_refl. reflexivity.
      + intros fd Hfd. unfold view. rewrite Hupd. destruct (N.eqb_spec fd n); [congruence|reflexivity]. }
  rewrite Hnv in Hval. subst n. unfold spec_redir.
  destruct (r_body r) as [op p|op a|c|] eqn:Hbody; cbn [step_val] in Hval.
  - (* a file *)
    destruct Hval as [f' [o [Hsn [Ef [En [Eo Ev]]]]]].
    rewrite <- Sf, Hsn. eexists. split; [destruct op; reflexivity|].
    split.
    + intros fd. rewrite uget_ufresh.
      destruct (N.eqb_spec (r_fd r) fd) as [<-|Hfd].
      * unfold view. rewrite Hnv, Ev. cbn. rewrite Sn. reflexivity.
      * rewrite Hrest by congruence. apply Sv.
    + exact Ef.
    + rewrite En, Sn. reflexivity.
    + intros id. rewrite Eo, uattr_ufresh. cbn [ofd_get]. rewrite Sn.
      destruct (N.eqb (u_next u) id); [reflexivity|apply Sa].
  - destruct a as [m| |]; [| |contradiction].
    + (* n<&m *)
      destruct Hval as [[_ [En [Eo Ef]]] [e [o [Hm [Hcxm [Hofd [Hacc Ev]]]]]]].
      assert (uget (view (k_tab s0)) u m = Some (e_ofd e)) as Hum.
      { rewrite <- Sv. unfold view. rewrite Hm, Hcxm. reflexivity. }
      rewrite Hum, <- Sa, Hofd, Hacc. eexists. split; [reflexivity|].
      split.
      * intros fd. rewrite uget_ubind.
        destruct (N.eqb_spec (r_fd r) fd) as [<-|Hfd].
        -- unfold view. rewrite Hnv, Ev. reflexivity.
        -- rewrite Hrest by congruence. apply Sv.
      * cbn. congruence.
      * cbn. congruence.
      * intros id. rewrite Eo. apply Sa.
    + (* n<&- *)
      destruct Hval as [[_ [En [Eo Ef]]] Ev].
      eexists. split; [reflexivity|].
      split.
      * intros fd. rewrite uget_ubind.
        destruct (N.eqb_spec (r_fd r) fd) as [<-|Hfd].
        -- unfold view. rewrite Hnv, Ev. reflexivity.
        -- rewrite Hrest by congruence. apply Sv.
      * cbn. congruence.
      * cbn. congruence.
      * intros id. rewrite Eo. apply Sa.
  - (* here-document *)
    destruct Hval as [f' [o [Hsn [Ef [En [Eo Ev]]]]]].
    rewrite <- Sf, Hsn. eexists. split; [reflexivity|].
    split.
    + intros fd. rewrite uget_ufresh.
      destruct (N.eqb_spec (r_fd r) fd) as [<-|Hfd].
      * unfold view. rewrite Hnv, Ev. cbn. rewrite Sn. reflexivity.
      * rewrite Hrest by congruence. apply Sv.
    + exact Ef.
    + rewrite En, Sn. reflexivity.
    + intros id. rewrite Eo, uattr_ufresh. cbn [ofd_get]. rewrite Sn.
      destruct (N.eqb (u_next u) id); [reflexivity|apply Sa].
  - contradiction.
Qed.

Lemma perform_redirs_sim nc s0 rs :
  forall s stack u s' stack',
    wf s -> sim s0 s u -> perform_redirs nc s rs stack = (s', stack', true) ->
    exists u', spec_redirs (view (k_tab s0)) (ofd_get (k_ofd s0)) nc u rs = Some u' /\ sim s0 s' u'.
Proof.
  induction rs as [|r rs IH]; intros s stack u s' stack' Hwf Hsim; cbn [perform_redirs spec_redirs].
  - intros E. injection E as <- _. eauto.
  - destruct (perform nc s r) as [s1 [[n save]|]] eqn:Hp; [|discriminate].
    pose proof (perform_step _ _ _ _ _ Hwf Hp) as [Hwf1 _].
    destruct (step_sim _ _ _ _ _ _ _ _ Hwf Hsim Hp) as [u1 [Hs1 Hsim1]].
    rewrite Hs1. intros Hrs. eapply IH; eassumption.
Qed.

Lemma redirs_applied_in_order_lemma nc s rs s' stack :
  sorted (k_tab s) -> below_limit (k_lim s) (k_tab s) ->
  perform_redirs nc s rs [] = (s', stack, true) ->
  exists u, spec_redirs (view (k_tab s)) (ofd_get (k_ofd s)) nc (ust0 s) rs = Some u
            /\ (forall fd, view (k_tab s') fd = uget (view (k_tab s)) u fd)
            /\ k_fs s' = u_fs u
            /\ (forall id, ofd_get (k_ofd s') id = uattr (ofd_get (k_ofd s)) u id).
Proof.
  intros Hs Hb Hp.
  destruct (perform_redirs_sim nc s rs s [] (ust0 s) s' stack (conj Hs Hb) (sim_init s) Hp)
    as [u [Hu [A B _ D]]].
  exists u. repeat split; assumption.
Qed.

Lemma k_resolve_excl_exists f k node :
  fs_get f k = Some node -> k_resolve f (PKey k) true fl_excl = (f, Err EEXIST).
Proof. intros H. unfold k_resolve. rewrite H. reflexivity. Qed.

Lemma k_resolve_none_exists f k c d w :
  fs_get f k = Some (Reg c d) -> k_resolve f (PKey k) w fl_none = (f, Ok k).
Proof. intros H. unfold k_resolve. rewrite H. reflexivity. Qed.

(* ---- noclobber ------------------------------------------------------------------- *)

Lemma noclobber_lemma s r k c d :
  sorted (k_tab s) -> below_limit (k_lim s) (k_tab s) ->
  r_body r = BFile FileOut (PKey k) -> fs_get (k_fs s) k = Some (Reg c d) ->
  exists s', perform true s r = (s', None) /\ k_tab s' = k_tab s /\ k_fs s' = k_fs s.
Proof.
  intros Hs Hb Hbody Hreg.
  destruct (perform true s r) as [s' [[n save]|]] eqn:Hp.
  - exfalso. apply perform_val in Hp; [|split; assumption].
    rewrite Hbody in Hp. cbn [step_val] in Hp. destruct Hp as [f' [o [Hsn _]]].
    cbn in Hsn. rewrite Hreg in Hsn. discriminate.
  - exists s'. split; [reflexivity|].
    pose proof (perform_step _ _ _ _ _ (conj Hs Hb) Hp) as [_ [_ Et]]. split; [exact Et|].
    (* the files: nothing on this path writes *)
    revert Hp. unfold perform. destruct (k_cloexec s (r_fd r)); [intros E; injection E as <-; reflexivity|].
    assert (forall s1 s2 ok, k_fs s1 = k_fs s -> apply true s1 r = (s2, ok) -> k_fs s2 = k_fs s) as Happly.
    { intros s1 s2 ok Hfs1. unfold apply. rewrite Hbody. cbn [open_normal].
      assert (forall sx (osp : option fdspec), open_file_noclobber s1 (PKey k) = (sx, osp) -> k_fs sx = k_fs s) as Hopen.
      { assert (fs_get (k_fs s1) k = Some (Reg c d)) as Hreg1 by (rewrite Hfs1; exact Hreg).
        unfold open_file_noclobber, k_open.
        rewrite (k_resolve_excl_exists _ _ _ Hreg1). cbn [with_fs k_fs].
        rewrite (k_resolve_none_exists _ _ _ _ _ Hreg1). cbn [new_ofd].
        intros sx osp.
        destruct (alloc_fd _ 0 _) as [sb [fd|e]] eqn:Ea.
        - apply alloc_fd_ok in Ea. destruct Ea as [_ [_ [_ [_ [_ [_ Ef]]]]]]. cbn in Ef.
          destruct (is_regular_fd sb fd); intros E; injection E as <- _; cbn; congruence.
        - apply alloc_fd_err in Ea. destruct Ea as [_ [[_ [_ [_ Ef]]] _]]. cbn in Ef.
          intros E. injection E as <- _. congruence. }
      destruct (open_file_noclobber s1 (PKey k)) as [sx [sp|]] eqn:Eo.
      - pose proof (Hopen _ _ eq_refl) as Hx.
        destruct (spec_fd sp) as [fd|].
        + destruct (N.eqb fd (r_fd r)); [intros E; injection E as <- _; exact Hx|].
          unfold k_dup2. destruct (t_dup2 _ _ _ _) as [t ok'].
          intros E. injection E as <- _. destruct sp; cbn; exact Hx.
        + intros E. injection E as <- _. cbn. exact Hx.
      - intros E. injection E as <- _. exact (Hopen _ _ eq_refl). }
    unfold k_dup. destruct (lookup (k_tab s) (r_fd r)) as [en|].
    + destruct (alloc_fd s MIN_INTERNAL_FD _) as [s1 [sv|e]] eqn:Ea.
      * apply alloc_fd_ok in Ea. destruct Ea as [_ [_ [_ [_ [_ [_ Ef1]]]]]].
        destruct (apply true s1 r) as [s2 ok] eqn:Eap. apply Happly in Eap; [|exact Ef1].
        destruct ok; intros E; injection E as <-; cbn; exact Eap.
      * apply alloc_fd_err in Ea. destruct Ea as [_ [[_ [_ [_ Ef1]]] ->]].
        intros E. injection E as <-. exact Ef1.
    + destruct (apply true s r) as [s2 ok] eqn:Eap. apply Happly in Eap; [|reflexivity].
      destruct ok; intros E; injection E as <-; cbn; exact Eap.
Qed.

(* ---- undo never panics, saved descriptors stay intact ------------------------------ *)

Lemma undo_never_panics_lemma nc s rs s' stack ok :
  sorted (k_tab s) -> below_limit (k_lim s) (k_tab s) ->
  perform_redirs nc s rs [] = (s', stack, ok) -> undo_panics stack = false.
Proof.
  intros Hs Hb Hp. apply perform_redirs_shape0 in Hp; [|split; assumption].
  destruct Hp as [_ _ H3 _ _]. unfold undo_panics.
  destruct (existsb _ stack) eqn:E; [|reflexivity].
  apply existsb_exists in E. destruct E as [[orig sv] [Hin Hx]]. cbn in Hx.
  destruct sv as [x|]; [|discriminate]. apply N.eqb_eq in Hx. subst x.
  destruct (H3 _ _ Hin) as [_ Hne]. congruence.
Qed.

Lemma saved_fds_intact_lemma nc s rs s' stack ok orig sv :
  sorted (k_tab s) -> below_limit (k_lim s) (k_tab s) ->
  perform_redirs nc s rs [] = (s', stack, ok) -> In (orig, Some sv) stack ->
  (exists e, lookup (k_tab s') sv = Some e /\ e_cx e = true) /\ 10 <= sv /\ sv <> orig
  /\ NoDup (saves stack).
Proof.
  intros Hs Hb Hp Hin. apply perform_redirs_shape0 in Hp; [|split; assumption].
  destruct Hp as [H1 _ H3 _ H4].
  assert (In sv (saves stack)) as Hsv by (apply in_saves; eauto).
  destruct (H1 sv Hsv) as [A [B _]]. destruct (H3 _ _ Hin) as [_ C].
  split; [exact A|]. split; [exact B|]. split; [congruence|exact H4].
Qed.

Lemma saved_fd_never_target_lemma nc nc' s rs s' stack ok orig sv r :
  sorted (k_tab s) -> below_limit (k_lim s) (k_tab s) ->
  perform_redirs nc s rs [] = (s', stack, ok) -> In (orig, Some sv) stack ->
  r_fd r = sv -> perform nc' s' r = (s', None).
Proof.
  intros Hs Hb Hp Hin Hr.
  destruct (saved_fds_intact_lemma _ _ _ _ _ _ _ _ Hs Hb Hp Hin) as [[e [He Hcx]] _].
  unfold perform, k_cloexec. rewrite Hr, He, Hcx. reflexivity.
Qed.

(* ---- internal descriptors ------------------------------------------------------------- *)

Lemma internal_lemma nc s rs s' stack ok :
  sorted (k_tab s) -> below_limit (k_lim s) (k_tab s) ->
  perform_redirs nc s rs [] = (s', stack, ok) ->
  explained (targets rs) (k_tab s) (k_tab s').
Proof.
  intros Hs Hb Hp. eapply shape_explained. eapply perform_redirs_shape0; [split|]; eassumption.
Qed.

(* ---- preserve ---------------------------------------------------------------------------- *)

Lemma perform_redirs_wf nc s rs stack s' stack' ok :
  wf s -> perform_redirs nc s rs stack = (s', stack', ok) -> wf s' /\ k_lim s' = k_lim s.
Proof.
  intros Hwf Hp. apply perform_redirs_undo in Hp; [|assumption]. destruct Hp as [A [B _]]. auto.
Qed.

Lemma preserve_lemma nc s rs s' stack ok fd :
  sorted (k_tab s) -> below_limit (k_lim s) (k_tab s) ->
  perform_redirs nc s rs [] = (s', stack, ok) -> ~ In fd (targets rs) ->
  lookup (k_tab (preserve_redirs s' stack)) fd = lookup (k_tab s) fd.
Proof.
  intros Hs Hb Hp Hnt.
  pose proof (perform_redirs_wf _ _ _ _ _ _ _ (conj Hs Hb) Hp) as [[Hs' _] _].
  apply perform_redirs_shape0 in Hp; [|split; assumption]. destruct Hp as [H1 H2 _ _ _].
  cbn. destruct (preserve_tab_lookup (k_tab s') stack fd Hs') as [A B].
  destruct (in_dec N.eq_dec fd (saves stack)) as [Hin|Hnin].
  - rewrite A by exact Hin. destruct (H1 fd Hin) as [_ [_ [C|C]]]; [congruence|contradiction].
  - rewrite B by exact Hnin. destruct (H2 fd Hnin) as [C|[C _]]; [exact C|contradiction].
Qed.

(* what the user sees after exec is what the (vanished) command would have seen *)
Lemma preserve_view_lemma nc s rs s' stack ok fd :
  sorted (k_tab s) -> below_limit (k_lim s) (k_tab s) ->
  perform_redirs nc s rs [] = (s', stack, ok) ->
  view (k_tab (preserve_redirs s' stack)) fd = view (k_tab s') fd.
Proof.
  intros Hs Hb Hp.
  pose proof (perform_redirs_wf _ _ _ _ _ _ _ (conj Hs Hb) Hp) as [[Hs' _] _].
  apply perform_redirs_shape0 in Hp; [|split; assumption]. destruct Hp as [H1 _ _ _ _].
  unfold view. cbn. destruct (preserve_tab_lookup (k_tab s') stack fd Hs') as [A B].
  destruct (in_dec N.eq_dec fd (saves stack)) as [Hin|Hnin].
  - rewrite A by exact Hin. destruct (H1 fd Hin) as [[e [-> ->]] _]. reflexivity.
  - rewrite B by exact Hnin. reflexivity.
Qed.

Lemma preserve_sorted t stack : sorted t -> sorted (preserve_tab t stack).
Proof.
  unfold preserve_tab. intros Hs. destruct (fold_preserve 0 (rev stack) t Hs) as [A _]. exact A.
Qed.

(* ---- the commands ------------------------------------------------------------------------------ *)

(* Whatever the command and however it ends, the shell's table afterwards is
   the table before - except after a successful exec. *)
Definition redirs_ok (nc : bool) (s : kst) (c : cmd) : bool :=
  snd (perform_redirs nc s (c_redirs c) []).

Lemma stderr_preserve s stack :
  k_tab (preserve_redirs (stderr_write s) stack) = k_tab (preserve_redirs s stack)
  /\ k_lim (preserve_redirs (stderr_write s) stack) = k_lim s.
Proof. destruct (stderr_write_tab s) as [A B]. cbn. rewrite A, B. split; reflexivity. Qed.

Lemma command_restores_lemma nc s c s' inside ex :
  sorted (k_tab s) -> below_limit (k_lim s) (k_tab s) ->
  run_cmd nc s c = (s', inside, ex) ->
  exec_like (c_kind c) = false \/ redirs_ok nc s c = false ->
  k_tab s' = k_tab s /\ k_lim s' = k_lim s.
Proof.
  intros Hs Hb. unfold run_cmd, redirs_ok.
  destruct (perform_redirs nc s (c_redirs c) []) as [[s1 stack] ok] eqn:Hp.
  pose proof (undo_restores_lemma _ _ _ _ _ _ Hs Hb Hp) as Hundo.
  pose proof (perform_redirs_wf _ _ _ _ _ _ _ (conj Hs Hb) Hp) as [_ El].
  assert (k_tab (undo_redirs (stderr_write s1) stack) = k_tab s
          /\ k_lim (undo_redirs (stderr_write s1) stack) = k_lim s) as Herr.
  { rewrite undo_stderr. split; [exact Hundo|]. cbn. destruct (stderr_write_tab s1) as [_ ->]. exact El. }
  assert (k_tab (undo_redirs s1 stack) = k_tab s /\ k_lim (undo_redirs s1 stack) = k_lim s) as Hok
    by (split; [exact Hundo|exact El]).
  cbn [snd].
  destruct (c_kind c) eqn:Ek; destruct ok; cbv beta iota zeta; intros E Hk; injection E as <- _ _;
    try assumption; try (split; reflexivity);
    destruct Hk; discriminate.
Qed.

Lemma run_cmd_inside nc s c s' si ex :
  c_kind c <> KAsync ->
  run_cmd nc s c = (s', Some si, ex) ->
  exists stack, perform_redirs nc s (c_redirs c) [] = (si, stack, true).
Proof.
  unfold run_cmd. intros Hk. destruct (perform_redirs nc s (c_redirs c) []) as [[s1 stack] ok].
  destruct (c_kind c); try congruence; destruct ok; cbv beta iota zeta; intros E;
    injection E as _ E2 _; try discriminate; subst si; eauto.
Qed.

(* exec, with or without an operand: successful redirections stay *)
Lemma run_cmd_exec nc s c s' inside ex s1 stack :
  exec_like (c_kind c) = true ->
  perform_redirs nc s (c_redirs c) [] = (s1, stack, true) ->
  run_cmd nc s c = (s', inside, ex) ->
  k_tab s' = k_tab (preserve_redirs s1 stack) /\ k_lim s' = k_lim s1
  /\ ex = match c_kind c with KExecFail false => true | _ => false end.
Proof.
  unfold run_cmd. intros Hk Hp. rewrite Hp.
  destruct (c_kind c) as [| | | | | | | | |i]; try discriminate; cbv beta iota zeta;
    intros E; injection E as <- _ <-.
  - repeat split.
  - destruct (stderr_preserve s1 stack) as [A B]. split; [exact A|]. split; [exact B|].
    destruct i; reflexivity.
Qed.

(* ---- soundness of the oracle clauses about tables -------------------------------------------------- *)

Lemma fdent_eqb_refl e : fdent_eqb e e = true.
Proof. unfold fdent_eqb. rewrite N.eqb_refl, Bool.eqb_reflx. reflexivity. Qed.

Lemma ent_opt_eqb_refl a : ent_opt_eqb a a = true.
Proof. destruct a; cbn; [apply fdent_eqb_refl|reflexivity]. Qed.

Lemma restored_refl t : restored t t = true.
Proof. unfold restored. apply forallb_forall. intros fd _. apply ent_opt_eqb_refl. Qed.

Lemma mem_In x l : In x l -> mem x l = true.
Proof. intros H. unfold mem. apply existsb_exists. exists x. split; [exact H|apply N.eqb_refl]. Qed.

Lemma explained_internal_ok tg t0 t : explained tg t0 t -> internal_ok tg t0 t = true.
Proof.
  intros H. unfold internal_ok. apply forallb_forall. intros fd _.
  destruct (H fd) as [E|E].
  - rewrite E, ent_opt_eqb_refl. reflexivity.
  - apply orb_true_iff. right. destruct (lookup t fd) as [e|].
    + destruct (e_cx e).
      * destruct E as [Hge [Hin|Hn]].
        -- apply andb_true_iff. split; [apply N.leb_le; exact Hge|]. rewrite (mem_In _ _ Hin). reflexivity.
        -- apply andb_true_iff. split; [apply N.leb_le; exact Hge|]. rewrite Hn. apply orb_true_r.
      * apply mem_In. exact E.
    + apply mem_In. exact E.
Qed.

Lemma oracle_restored_sound nc s c s' inside ex :
  sorted (k_tab s) -> below_limit (k_lim s) (k_tab s) ->
  run_cmd nc s c = (s', inside, ex) ->
  exec_like (c_kind c) = false \/ redirs_ok nc s c = false ->
  restored (k_tab s) (k_tab s') = true.
Proof.
  intros Hs Hb Hr Hk. destruct (command_restores_lemma _ _ _ _ _ _ Hs Hb Hr Hk) as [-> _].
  apply restored_refl.
Qed.

Lemma oracle_internal_sound nc s c s' si ex :
  sorted (k_tab s) -> below_limit (k_lim s) (k_tab s) ->
  c_kind c <> KAsync ->
  run_cmd nc s c = (s', Some si, ex) ->
  internal_ok (targets (c_redirs c)) (k_tab s) (k_tab si) = true.
Proof.
  intros Hs Hb Hk Hr. apply run_cmd_inside in Hr; [|exact Hk]. destruct Hr as [stack Hp].
  apply explained_internal_ok. eapply internal_lemma; eassumption.
Qed.

Lemma oracle_persisted_sound nc s c s' inside ex s1 stack :
  sorted (k_tab s) -> below_limit (k_lim s) (k_tab s) ->
  exec_like (c_kind c) = true ->
  perform_redirs nc s (c_redirs c) [] = (s1, stack, true) ->
  run_cmd nc s c = (s', inside, ex) ->
  persisted_ok (targets (c_redirs c)) (k_tab s) (k_tab s') = true.
Proof.
  intros Hs Hb Hk Hp Hr. destruct (run_cmd_exec _ _ _ _ _ _ _ _ Hk Hp Hr) as [-> _].
  unfold persisted_ok. apply forallb_forall. intros fd _.
  destruct (in_dec N.eq_dec fd (targets (c_redirs c))) as [Hin|Hnin].
  - apply orb_true_iff. right. rewrite (mem_In _ _ Hin). cbn [andb].
    pose proof (perform_redirs_wf _ _ _ _ _ _ _ (conj Hs Hb) Hp) as [[Hs1 _] _].
    pose proof (perform_redirs_shape0 _ _ _ _ _ _ (conj Hs Hb) Hp) as [_ _ _ H5 _].
    destruct (perform_redirs_done _ _ _ _ _ _ Hp fd Hin) as [sv Hst].
    cbn. destruct (preserve_tab_lookup (k_tab s1) stack fd Hs1) as [A B].
    destruct (in_dec N.eq_dec fd (saves stack)) as [Hsv|Hnsv].
    + rewrite A by exact Hsv. reflexivity.
    + rewrite B by exact Hnsv. pose proof (H5 _ _ Hst Hnsv) as C.
      destruct (lookup (k_tab s1) fd) as [e|]; [|reflexivity]. rewrite (C e eq_refl). reflexivity.
  - apply orb_true_iff. left.
    rewrite (preserve_lemma _ _ _ _ _ _ _ Hs Hb Hp Hnin). apply ent_opt_eqb_refl.
Qed.

(* ---- the hypotheses of the theorems are invariants of the commands ------------------------------ *)

Lemma fold_preserve_below lim l :
  forall t, below_limit lim t -> below_limit lim (fold_left preserve_one l t).
Proof.
  induction l as [|[orig sv] l IH]; intros t Hb; cbn [fold_left]; [exact Hb|].
  apply IH. unfold preserve_one. cbn [snd]. destruct sv; [apply below_limit_tdel|]; exact Hb.
Qed.

Lemma command_keeps_wf_lemma nc s c s' inside ex :
  sorted (k_tab s) -> below_limit (k_lim s) (k_tab s) ->
  run_cmd nc s c = (s', inside, ex) ->
  sorted (k_tab s') /\ below_limit (k_lim s') (k_tab s').
Proof.
  intros Hs Hb Hr.
  destruct (exec_like (c_kind c)) eqn:Ek.
  2:{ destruct (command_restores_lemma _ _ _ _ _ _ Hs Hb Hr) as [-> ->]; [left; exact Ek|split; assumption]. }
  destruct (perform_redirs nc s (c_redirs c) []) as [[s1 stack] ok] eqn:Hp.
  destruct ok.
  - destruct (run_cmd_exec _ _ _ _ _ _ _ _ Ek Hp Hr) as [-> [-> _]].
    pose proof (perform_redirs_wf _ _ _ _ _ _ _ (conj Hs Hb) Hp) as [[Hs1 Hb1] El].
    cbn. split; [apply preserve_sorted; exact Hs1|].
    unfold preserve_tab. apply fold_preserve_below. exact Hb1.
  - destruct (command_restores_lemma _ _ _ _ _ _ Hs Hb Hr) as [-> ->];
      [right; unfold redirs_ok; rewrite Hp; reflexivity|split; assumption].
Qed.
