(* C09 — proofs, part 7: descriptors the shell opens for its own use: the
   script read by `.` or at start-up (opened low, moved to 10 or above), and the
   pipes of command substitutions and pipelines. *)
From Yv Require Import Common.Base C09.Kernel C09.Model C09.Spec
  C09.ProofsTab C09.ProofsList.

Local Open Scope N_scope.

Lemma k_open_cx_tab s p s' res :
  k_open_cx s p = (s', res) ->
  k_lim s' = k_lim s /\
  match res with
  | Ok c => k_tab s' = tset (k_tab s) c (mkEnt (k_next s) true)
            /\ c = min_unused 0 (k_tab s) /\ in_limit (k_lim s) c = true
  | Err _ => k_tab s' = k_tab s
  end.
Proof.
  unfold k_open_cx. destruct (k_resolve (k_fs s) p false _) as [f' [k|e]].
  - cbn [new_ofd]. intros Ha. destruct res as [c|e].
    + apply alloc_fd_ok in Ha. cbn in Ha. destruct Ha as [-> [-> [Hi [-> _]]]]. auto.
    + apply alloc_fd_err in Ha. cbn in Ha. destruct Ha as [-> [[-> _] _]]. auto.
  - intros E. injection E as <- <-. cbn. auto.
Qed.

Lemma tdel_tset_other t k v k' :
  sorted t -> lookup t k' = None -> k <> k' ->
  tdel (tset (tset t k' v) k v) k' = tset t k v.
Proof.
  intros Hs Hn Hne. apply sorted_ext.
  - apply sorted_tdel, sorted_tset, sorted_tset; exact Hs.
  - apply sorted_tset; exact Hs.
  - intros fd. rewrite lookup_tdel by (apply sorted_tset, sorted_tset; exact Hs).
    rewrite !lookup_tset. destruct (N.eqb_spec k' fd) as [<-|Hfd].
    + destruct (N.eqb_spec k k'); [congruence|]. symmetry; exact Hn.
    + reflexivity.
Qed.

(* move_fd_internal: the descriptor moved from is closed whatever happens *)
Lemma move_fd_internal_tab s from e s' res :
  wf s -> lookup (k_tab s) from = Some e -> move_fd_internal s from = (s', res) ->
  wf s' /\ k_lim s' = k_lim s /\
  match res with
  | Ok fd =>
      if N.leb 10 from then fd = from /\ k_tab s' = k_tab s
      else 10 <= fd /\ lookup (k_tab s) fd = None
           /\ k_tab s' = tdel (tset (k_tab s) fd (mkEnt (e_ofd e) true)) from
  | Err _ => from < 10 /\ k_tab s' = tdel (k_tab s) from
  end.
Proof.
  intros Hwf Hfrom. pose proof Hwf as [Hs Hb]. unfold move_fd_internal, MIN_INTERNAL_FD.
  destruct (N.leb_spec 10 from) as [Hge|Hlt].
  - intros E. injection E as <- <-. split; [exact Hwf|]. split; [reflexivity|]. split; reflexivity.
  - unfold k_dup. rewrite Hfrom.
    destruct (alloc_fd s 10 (mkEnt (e_ofd e) true)) as [s1 [sv|er]] eqn:Ea; intros E; injection E as <- <-.
    + pose proof (alloc_fd_fresh _ _ _ _ _ Hs Ea) as [Hfresh Hge].
      pose proof (alloc_fd_wf _ _ _ _ _ Hwf Ea) as [Hs1 Hb1].
      apply alloc_fd_ok in Ea. destruct Ea as [Et [_ [_ [El _]]]].
      split; [|split; [exact El|]].
      * eapply wf_intro; [reflexivity|exact El|cbn..].
        -- apply sorted_tdel. exact Hs1.
        -- rewrite <- El. apply below_limit_tdel. exact Hb1.
      * split; [exact Hge|]. split; [exact Hfresh|]. cbn. rewrite Et. reflexivity.
    + apply alloc_fd_err in Ea. destruct Ea as [Et [[El _] _]].
      split; [|split; [exact El|]].
      * eapply wf_intro; [reflexivity|exact El|cbn..].
        -- rewrite Et. apply sorted_tdel. exact Hs.
        -- rewrite Et. apply below_limit_tdel. exact Hb.
      * split; [exact Hlt|]. cbn. rewrite Et. reflexivity.
Qed.

(* open_internal: on success exactly one new descriptor, close-on-exec, at 10
   or above; on failure nothing at all *)
Lemma open_internal_tab s p s' r :
  wf s -> open_internal s p = (s', r) ->
  wf s' /\ k_lim s' = k_lim s /\
  match r with
  | None => k_tab s' = k_tab s
  | Some fd => 10 <= fd /\ lookup (k_tab s) fd = None
               /\ exists id, k_tab s' = tset (k_tab s) fd (mkEnt id true)
  end.
Proof.
  intros Hwf. pose proof Hwf as [Hs Hb]. unfold open_internal.
  destruct (k_open_cx s p) as [s1 [c|er]] eqn:Eo; apply k_open_cx_tab in Eo; destruct Eo as [El1 Ho].
  2:{ intros E. injection E as <- <-. split; [eapply wf_intro; eassumption|]. split; assumption. }
  destruct Ho as [Et1 [Hc Hi]].
  assert (lookup (k_tab s) c = None) as Hfresh by (rewrite Hc; apply min_unused_fresh; exact Hs).
  assert (wf s1) as Hwf1.
  { eapply wf_intro; [exact Et1|exact El1|apply sorted_tset; exact Hs|apply below_limit_tset; assumption]. }
  assert (lookup (k_tab s1) c = Some (mkEnt (k_next s) true)) as Hc1
    by (rewrite Et1, lookup_tset, N.eqb_refl; reflexivity).
  destruct (move_fd_internal s1 c) as [s2 [fd|er]] eqn:Em;
    apply (move_fd_internal_tab _ _ _ _ _ Hwf1 Hc1) in Em; destruct Em as [Hwf2 [El2 Hm]];
    intros E; injection E as <- <-; (split; [exact Hwf2|]); (split; [congruence|]).
  - destruct (N.leb_spec 10 c) as [Hge|Hlt].
    + destruct Hm as [-> Et2]. split; [exact Hge|]. split; [exact Hfresh|].
      exists (k_next s). congruence.
    + destruct Hm as [Hge [Hf1 Et2]]. cbn [e_ofd] in Et2.
      rewrite Et1, lookup_tset in Hf1. destruct (N.eqb_spec c fd) as [->|Hne]; [discriminate|].
      split; [exact Hge|]. split; [exact Hf1|]. exists (k_next s).
      rewrite Et2, Et1. apply tdel_tset_other; [exact Hs|exact Hfresh|congruence].
  - destruct Hm as [_ Et2]. rewrite Et2, Et1. apply tdel_tset_fresh; assumption.
Qed.

(* ---- pipes ----------------------------------------------------------------------- *)

Lemma k_pipe_tab s s' res :
  wf s -> k_pipe s = (s', res) ->
  wf s' /\ k_lim s' = k_lim s /\
  match res with
  | Ok (r, w) =>
      r <> w /\ lookup (k_tab s) r = None /\ lookup (k_tab s) w = None
      /\ exists e1 e2, k_tab s' = tset (tset (k_tab s) r e1) w e2
  | Err _ => k_tab s' = k_tab s
  end.
Proof.
  intros Hwf. pose proof Hwf as [Hs Hb]. unfold k_pipe. cbn [new_ofd].
  match goal with |- context [alloc_fd ?x 0 (mkEnt (k_next s) false)] => set (sa := x) end.
  assert (wf sa) as Hwfa by (split; assumption).
  destruct (alloc_fd sa 0 (mkEnt (k_next s) false)) as [s3 [r|er]] eqn:Ea.
  2:{ pose proof (alloc_fd_wf _ _ _ _ _ Hwfa Ea) as Hwf3.
      apply alloc_fd_err in Ea. destruct Ea as [Et [[El _] _]]. subst sa. cbn in Et, El.
      intros E. injection E as <- <-. split; [exact Hwf3|]. split; assumption. }
  pose proof (alloc_fd_wf _ _ _ _ _ Hwfa Ea) as Hwf3.
  pose proof (alloc_fd_fresh _ _ _ _ _ (proj1 Hwfa) Ea) as [Hfr _].
  apply alloc_fd_ok in Ea. destruct Ea as [Et3 [_ [_ [El3 _]]]]. subst sa. cbn in Et3, El3, Hfr.
  match goal with |- context [alloc_fd s3 0 ?v] => destruct (alloc_fd s3 0 v) as [s4 [w|er]] eqn:Eb end.
  - pose proof (alloc_fd_wf _ _ _ _ _ Hwf3 Eb) as Hwf4. destruct Hwf3 as [Hs3 _].
    pose proof (alloc_fd_fresh _ _ _ _ _ Hs3 Eb) as [Hfw _].
    apply alloc_fd_ok in Eb. destruct Eb as [Et4 [_ [_ [El4 _]]]].
    intros E. injection E as <- <-. split; [exact Hwf4|]. split; [congruence|].
    rewrite Et3, lookup_tset in Hfw. destruct (N.eqb_spec r w) as [->|Hne]; [discriminate|].
    split; [exact Hne|]. split; [exact Hfr|]. split; [exact Hfw|].
    eexists. eexists. rewrite Et4, Et3. reflexivity.
  - apply alloc_fd_err in Eb. destruct Eb as [Et4 [[El4 _] _]].
    intros E. injection E as <- <-.
    assert (k_tab (k_close s4 r) = k_tab s) as Ek
      by (cbn; rewrite Et4, Et3; apply tdel_tset_fresh; assumption).
    assert (k_lim (k_close s4 r) = k_lim s) as Elk by (cbn; congruence).
    split; [eapply wf_intro; eassumption|]. split; assumption.
Qed.

Lemma close_both t r w e1 e2 :
  sorted t -> lookup t r = None -> lookup t w = None -> r <> w ->
  tdel (tdel (tset (tset t r e1) w e2) w) r = t.
Proof.
  intros Hs Hr Hw Hne.
  assert (sorted (tset t r e1)) as Hs1 by (apply sorted_tset; exact Hs).
  rewrite tdel_tset_fresh; [apply tdel_tset_fresh; assumption|exact Hs1|].
  rewrite lookup_tset. destruct (N.eqb_spec r w); [congruence|exact Hw].
Qed.
