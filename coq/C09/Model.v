(* C09 — MODEL: yash-semantics/src/redir.rs re-stated over Kernel.v.

   [perform] / [apply] / [open_normal] / [open_file_noclobber] / [copy_fd] and
   RedirGuard::{perform_redirs, undo_redirs, preserve_redirs} follow the Rust
   case by case (current code: [perform] closes the saved descriptor when
   [apply] fails).  On top of that, [run_cmd] re-states what the callers do
   with the guard for each kind of command (simple_command/{builtin,function,
   external,absent}.rs, compound_command.rs, yash-builtin exec).

   Operands are literal (no expansion inside a redirection operand). *)
From Yv Require Import Common.Base C09.Kernel.

(* ---- syntax ------------------------------------------------------------- *)

Inductive fop := FileIn | FileInOut | FileOut | FileClobber | FileAppend.   (* <  <>  >  >|  >> *)
Inductive dop := FdIn | FdOut.                                              (* <&  >& *)
Inductive darg := DFd (n : N) | DClose | DMalformed.                        (* digits, "-", anything else *)

Inductive body :=
| BFile (op : fop) (p : pth)
| BDup (op : dop) (a : darg)
| BHere (content : list N)       (* here-document, content already expanded *)
| BUnsupported.                  (* >>| and <<< : "not yet implemented" errors *)

Record redir := mkRedir { r_fd : N; r_body : body }.   (* r_fd = Redir::fd_or_default *)

(* ---- redir.rs ------------------------------------------------------------ *)

Inductive fdspec := Owned (fd : N) | Borrowed (fd : N) | SClosed.

Definition spec_fd (sp : fdspec) : option N :=
  match sp with Owned fd | Borrowed fd => Some fd | SClosed => None end.

Definition spec_close (s : kst) (sp : fdspec) : kst :=
  match sp with Owned fd => k_close s fd | Borrowed _ | SClosed => s end.

Definition MIN_INTERNAL_FD : N := 10.

Definition fl_none := mkFl false false false false.
Definition fl_excl := mkFl true true false false.      (* Create | Exclusive *)
Definition fl_trunc := mkFl true false true false.     (* Create | Truncate *)
Definition fl_append := mkFl true false false true.    (* Create | Append *)
Definition fl_create := mkFl true false false false.   (* Create *)

Definition open_file (s : kst) (r w : bool) (fl : oflags) (p : pth) : kst * option fdspec :=
  match k_open s p r w fl with
  | (s', Ok fd) => (s', Some (Owned fd))
  | (s', Err _) => (s', None)
  end.

(* fstat(fd).is_ok_and(is_regular_file) *)
Definition is_regular_fd (s : kst) (fd : N) : bool :=
  match k_ofd_of s fd with
  | Some o =>
      match o_file o with
      | FPath k => match fs_get (k_fs s) k with Some (Reg _ _) => true | _ => false end
      | FAnon _ _ | FAnonDirty => true
      | FPipe => false
      end
  | None => false
  end.

Definition open_file_noclobber (s : kst) (p : pth) : kst * option fdspec :=
  match k_open s p false true fl_excl with
  | (s1, Ok fd) => (s1, Some (Owned fd))
  | (s1, Err EEXIST) =>
      (* there is an existing file: open it and look what it is *)
      match k_open s1 p false true fl_none with
      | (s2, Ok fd) =>
          if is_regular_fd s2 fd then (k_close s2 fd, None)      (* EEXIST *)
          else (s2, Some (Owned fd))
      | (s2, Err _) => (s2, None)
      end
  | (s1, Err _) => (s1, None)
  end.

Definition fd_valid (s : kst) (fd : N) (op : dop) : bool :=
  match k_ofd_of s fd with
  | Some o => match op with FdIn => o_r o | FdOut => o_w o end
  | None => false
  end.

Definition copy_fd (s : kst) (a : darg) (op : dop) : option fdspec :=
  match a with
  | DClose => Some SClosed
  | DMalformed => None                               (* MalformedFd *)
  | DFd n =>
      if negb (fd_valid s n op) then None            (* UnreadableFd / UnwritableFd *)
      else if k_cloexec s n then None                (* ReservedFd *)
      else Some (Borrowed n)
  end.

Definition open_normal (nc : bool) (s : kst) (b : body) : kst * option fdspec :=
  match b with
  | BFile FileIn p => open_file s true false fl_none p
  | BFile FileOut p =>
      if nc then open_file_noclobber s p else open_file s false true fl_trunc p
  | BFile FileClobber p => open_file s false true fl_trunc p
  | BFile FileAppend p => open_file s false true fl_append p
  | BFile FileInOut p => open_file s true true fl_create p
  | BDup op a => (s, copy_fd s a op)
  | BHere content =>
      match k_tmpfile s content with
      | (s', Ok fd) => (s', Some (Owned fd))
      | (s', Err _) => (s', None)                    (* TemporaryFileUnavailable *)
      end
  | BUnsupported => (s, None)
  end.

(* [apply]: runs after the original description of the target has been saved;
   false = Err *)
Definition apply (nc : bool) (s : kst) (r : redir) : kst * bool :=
  let target := r_fd r in
  match open_normal nc s (r_body r) with
  | (s1, None) => (s1, false)
  | (s1, Some sp) =>
      match spec_fd sp with
      | Some fd =>
          if N.eqb fd target then (s1, true)
          else
            let (s2, ok) := k_dup2 s1 fd target in
            (spec_close s2 sp, ok)                   (* Err = FdNotOverwritten *)
      | None => (k_close s1 target, true)
      end
  end.

(* SavedFd { original, save } *)
Definition saved := (N * option N)%type.

Definition close_opt (s : kst) (o : option N) : kst :=
  match o with Some fd => k_close s fd | None => s end.

(* [perform]: None = Err *)
Definition perform (nc : bool) (s : kst) (r : redir) : kst * option saved :=
  let target := r_fd r in
  if k_cloexec s target then (s, None)               (* ReservedFd *)
  else
    let go (s1 : kst) (save : option N) :=
      match apply nc s1 r with
      | (s2, true) => (s2, Some (target, save))
      | (s2, false) => (close_opt s2 save, None)     (* the saved FD is no longer needed *)
      end in
    match k_dup s target MIN_INTERNAL_FD true with
    | (s1, Ok sv) => go s1 (Some sv)
    | (s1, Err EBADF) => go s1 None
    | (s1, Err _) => (s1, None)                      (* FdNotOverwritten *)
    end.

(* RedirGuard::perform_redirs; the Vec<SavedFd> is kept newest first *)
Fixpoint perform_redirs (nc : bool) (s : kst) (rs : list redir) (stack : list saved)
  : kst * list saved * bool :=
  match rs with
  | [] => (s, stack, true)
  | r :: rs' =>
      match perform nc s r with
      | (s', Some sv) => perform_redirs nc s' rs' (sv :: stack)
      | (s', None) => (s', stack, false)
      end
  end.

(* RedirGuard::undo_redirs: saved_fds.drain(..).rev() *)
Definition undo_one (lim : option N) (t : table) (sv : saved) : table :=
  match sv with
  | (original, Some save) => tdel (fst (t_dup2 lim t save original)) save
  | (original, None) => tdel t original
  end.

Definition undo_tab (lim : option N) (t : table) (stack : list saved) : table :=
  fold_left (undo_one lim) stack t.

Definition undo_redirs (s : kst) (stack : list saved) : kst :=
  with_tab s (undo_tab (k_lim s) (k_tab s) stack).

(* assert_ne!(save, original) *)
Definition undo_panics (stack : list saved) : bool :=
  existsb (fun sv : saved => match snd sv with Some save => N.eqb save (fst sv) | None => false end) stack.

(* RedirGuard::preserve_redirs: saved_fds.drain(..), oldest first *)
Definition preserve_one (t : table) (sv : saved) : table :=
  match snd sv with Some save => tdel t save | None => t end.

Definition preserve_tab (t : table) (stack : list saved) : table :=
  fold_left preserve_one (rev stack) t.

Definition preserve_redirs (s : kst) (stack : list saved) : kst :=
  with_tab s (preserve_tab (k_tab s) stack).

(* ---- the callers --------------------------------------------------------- *)

Inductive ckind :=
| KRegular      (* non-special built-in *)
| KSpecial      (* special built-in *)
| KFunction
| KGroup        (* compound command run in the shell process: { } if while for case *)
| KSubshell     (* ( ) : redirections are performed by the parent *)
| KNotFound     (* external utility that does not exist *)
| KEmpty        (* redirections only: performed in a subshell *)
| KExec         (* exec without operands: redirections persist *)
| KAsync        (* cmd & : the command and its redirections run in a child process
                   whose standard input is /dev/null *)
| KExecFail (interactive : bool).
                (* exec with an operand that cannot be invoked: the redirections
                   persist as well (Result::retain_redirs); a shell that is not
                   interactive then exits (Divert::Abort) *)

Record cmd := mkCmd { c_kind : ckind; c_redirs : list redir }.

(* commands that keep their redirections when these succeed *)
Definition exec_like (k : ckind) : bool :=
  match k with KExec | KExecFail _ => true | _ => false end.

Definition ofd_set (l : list (N * ofd)) (i : N) (o : ofd) : list (N * ofd) :=
  map (fun p : N * ofd => if N.eqb (fst p) i then (i, o) else p) l.

Definition with_ofd (s : kst) (l : list (N * ofd)) : kst :=
  mkK (k_tab s) (k_lim s) (k_flt s) (k_next s) l (k_fs s).

(* A diagnostic message is written to descriptor 2, whatever that is now.  Its
   text is not modelled: the file that receives it becomes [dirty]. *)
Definition stderr_write (s : kst) : kst :=
  match lookup (k_tab s) 2 with
  | None => s
  | Some e =>
      match ofd_get (k_ofd s) (e_ofd e) with
      | None => s
      | Some o =>
          if negb (o_w o) then s
          else
            match o_file o with
            | FPath p =>
                match fs_get (k_fs s) p with
                | Some (Reg c _) => with_fs s (fs_set (k_fs s) p (Reg c true))
                | _ => s
                end
            | FAnon _ _ | FAnonDirty =>
                with_ofd s (ofd_set (k_ofd s) (e_ofd e) (mkOfd FAnonDirty (o_r o) (o_w o) (o_app o)))
            | FPipe => s
            end
      end
  end.

(* path key of /dev/null *)
Definition DEVNULL : N := 10.

(* item.rs async_body: the child closes descriptor 0 and opens /dev/null (which
   then is descriptor 0; a failure is ignored), then performs the redirections.
   Result: the child when it stops, and what the command body sees. *)
Definition async_child (nc : bool) (s : kst) (rs : list redir) : kst * option kst :=
  let sc := fst (k_open (k_close s 0) (PKey DEVNULL) true false fl_none) in
  let '(c1, _, cok) := perform_redirs nc sc rs [] in
  if cok then (c1, Some c1) else (stderr_write c1, None).

(* What one command does to the shell process.  Result: the state afterwards,
   the state seen by the command body while it runs (if it runs and can be
   observed), and whether the shell exits because of the command. *)
Definition run_cmd (nc : bool) (s : kst) (c : cmd) : kst * option kst * bool :=
  let '(s1, stack, ok) := perform_redirs nc s (c_redirs c) [] in
  match c_kind c with
  | KEmpty =>
      (* absent.rs: a child process performs the redirections and exits; the
         parent's table is not involved, the file system is shared *)
      let s2 := if ok then s1 else stderr_write s1 in
      (mkK (k_tab s) (k_lim s) (k_flt s2) (k_next s2) (k_ofd s2) (k_fs s2), None, false)
  | KAsync =>
      (* the parent's table is not involved; files and descriptions are shared *)
      let r := async_child nc s (c_redirs c) in
      (mkK (k_tab s) (k_lim s) (k_flt (fst r)) (k_next (fst r)) (k_ofd (fst r)) (k_fs (fst r)),
       snd r, false)
  | KNotFound =>
      (* external.rs: "utility not found" is reported while the redirections
         are in effect *)
      (undo_redirs (stderr_write s1) stack, None, false)
  | KRegular | KFunction | KGroup | KSubshell =>
      if ok then (undo_redirs s1 stack, Some s1, false)
      else (undo_redirs (stderr_write s1) stack, None, false)
  | KSpecial =>
      if ok then (undo_redirs s1 stack, Some s1, false)
      else (undo_redirs (stderr_write s1) stack, None, true)    (* Divert::Interrupt *)
  | KExec =>
      if ok then (preserve_redirs s1 stack, None, false)        (* should_retain_redirs *)
      else (undo_redirs (stderr_write s1) stack, None, true)
  | KExecFail interactive =>
      (* "cannot execute" is reported while the redirections are in effect *)
      if ok then (preserve_redirs (stderr_write s1) stack, None, negb interactive)
      else (undo_redirs (stderr_write s1) stack, None, true)
  end.

(* ---- descriptors the shell opens for its own use ------------------------------ *)

(* yash-env/src/io.rs move_fd_internal: the source is closed whether or not the
   duplication succeeds *)
Definition move_fd_internal (s : kst) (from : N) : kst * res N :=
  if N.leb MIN_INTERNAL_FD from then (s, Ok from)
  else
    let (s1, r) := k_dup s from MIN_INTERNAL_FD true in
    (k_close s1 from, r).

(* source/semantics.rs open_file, startup/input.rs: open with O_CLOEXEC at the
   lowest free slot, then move to 10 or above *)
Definition open_internal (s : kst) (p : pth) : kst * option N :=
  match k_open_cx s p with
  | (s1, Ok fd) =>
      match move_fd_internal s1 fd with
      | (s2, Ok fd') => (s2, Some fd')
      | (s2, Err _) => (s2, None)
      end
  | (s1, Err _) => (s1, None)
  end.

(* ---- pipes: command substitution and pipelines --------------------------------- *)

(* command_subst.rs subshell_body: what the child does with the pipe before it
   runs the command; None = it gives up *)
Definition subst_child (s : kst) (r w : N) : option kst :=
  let s1 := k_close s r in
  if N.eqb w 1 then Some s1
  else match k_dup2 s1 w 1 with
       | (s2, true) => Some (k_close s2 w)
       | (_, false) => None
       end.

(* pipeline.rs PipeSet::shift, in the parent *)
Definition pipe_shift (s : kst) (prev : option N) (next : option (N * N)) (has_next : bool)
  : kst * option N * option (N * N) * bool :=
  let s1 := close_opt s prev in
  let (s2, prev') :=
    match next with
    | Some (r, w) => (k_close s1 w, Some r)
    | None => (s1, None)
    end in
  if has_next then
    match k_pipe s2 with
    | (s3, Ok rw) => (s3, prev', Some rw, true)
    | (s3, Err _) =>
        (* the pipeline is abandoned: the reader is no longer needed *)
        (close_opt s3 prev', None, None, false)
    end
  else (s2, prev', None, true).

(* PipeSet::move_to_stdin_stdout, in the child; None = it gives up *)
Definition pipe_child (s : kst) (prev : option N) (next : option (N * N)) : option kst :=
  let step1 :=
    match next with
    | Some (r, w) =>
        let s1 := k_close s r in
        if N.eqb w 1 then Some (s1, prev)
        else
          let moved :=
            match prev with
            | Some 1%N =>
                match k_dup s1 1 0 false with
                | (s2, Ok d) => Some (s2, Some d)
                | (_, Err _) => None
                end
            | _ => Some (s1, prev)
            end in
          match moved with
          | None => None
          | Some (s2, prev2) =>
              match k_dup2 s2 w 1 with
              | (s3, true) => Some (k_close s3 w, prev2)
              | (_, false) => None
              end
          end
    | None => Some (s, prev)
    end in
  match step1 with
  | None => None
  | Some (s4, Some rd) =>
      if N.eqb rd 0 then Some s4
      else match k_dup2 s4 rd 0 with
           | (s5, true) => Some (k_close s5 rd)
           | (_, false) => None
           end
  | Some (s4, None) => Some s4
  end.

(* execute_multi_command_pipeline: k commands are still to be started.  Result:
   the parent afterwards, what each started child's command sees, and whether
   all pipes could be made. *)
Fixpoint pipe_loop (s : kst) (prev : option N) (next : option (N * N)) (k : nat)
    (acc : list (option kst)) : kst * list (option kst) * bool :=
  match k with
  | O => let '(s1, _, _, _) := pipe_shift s prev next false in (s1, acc, true)
  | S k' =>
      let '(s1, prev1, next1, ok) :=
        pipe_shift s prev next (match k' with O => false | S _ => true end) in
      if ok then pipe_loop s1 prev1 next1 k' (acc ++ [pipe_child s1 prev1 next1])
      else (stderr_write s1, acc, false)     (* "cannot connect pipes", Divert::Interrupt *)
  end.

Definition run_pipeline (s : kst) (n : nat) : kst * list (option kst) * bool :=
  pipe_loop s None None n [].

(* A script: commands, compound commands and functions whose body is again a
   list of items run while the redirections of the compound command are in
   effect (nested RedirGuards), changes of the descriptor limit and of the
   noclobber option. *)
Inductive item :=
| ICmd (c : cmd)
| IGroup (k : ckind) (rs : list redir) (body : list item)   (* k = KGroup or KFunction *)
| IDot (via_command : bool) (rs : list redir) (p : pth) (body : list item)
                               (* . p  /  command . p : the script is a list of items *)
| ISubst (c : cmd)             (* a command with a command substitution among its words *)
| IPipe (n : nat)              (* a pipeline of n >= 2 commands *)
| IStartup (p : pth)           (* the shell opens the script it was started with *)
| ILimit (l : option N)        (* setrlimit(RLIMIT_NOFILE) soft limit *)
| INoclobber (b : bool)        (* set -C / set +C *)
| IErrexit (b : bool).         (* set -e / set +e *)

Record shell := mkSh { sh_k : kst; sh_nc : bool; sh_ee : bool (* errexit *) }.

Definition with_k (sh : shell) (s : kst) : shell := mkSh s (sh_nc sh) (sh_ee sh).

(* the command ends with a non-zero exit status: a redirection failed, or the
   utility was not found *)
Definition cmd_fails (nc : bool) (s : kst) (c : cmd) : bool :=
  match c_kind c with
  | KAsync => false
  | KNotFound | KExecFail _ => true
  | _ => negb (snd (perform_redirs nc s (c_redirs c) []))
  end.

(* one observable step: the state seen inside (if any), the state after, and
   whether the shell exits *)
Definition out := (option kst * kst * bool)%type.

Definition patch_last (f : kst -> kst) (l : list out) : list out :=
  match rev l with
  | [] => []
  | (i, a, x) :: r => rev ((i, f a, x) :: r)
  end.

(* a list of items, given how to run one: stops at the first that exits *)
Definition run_list_with (f : shell -> item -> list out * shell * bool) :=
  fix go (sh : shell) (l : list item) : list out * shell * bool :=
    match l with
    | [] => ([], sh, false)
    | x :: l' =>
        let '(o1, sh1, ex) := f sh x in
        if ex then (o1, sh1, true)
        else let '(o2, sh2, ex2) := go sh1 l' in (o1 ++ o2, sh2, ex2)
    end.

(* Result: the steps in execution order, the shell afterwards, exited?  The
   script stops at the first command that makes the shell exit; the guards of
   the enclosing compound commands are then dropped (undo) on the way out, so
   the state observed after an exiting command is the fully unwound one. *)
Fixpoint run_item (sh : shell) (i : item) : list out * shell * bool :=
  match i with
  | ICmd c =>
      (* errexit: a command that fails makes the shell exit *)
      let '(s', inside, ex) := run_cmd (sh_nc sh) (sh_k sh) c in
      let ex' := ex || (sh_ee sh && cmd_fails (sh_nc sh) (sh_k sh) c) in
      ([(inside, s', ex')], with_k sh s', ex')
  | ILimit l =>
      let s' := with_lim (sh_k sh) l in ([(None, s', false)], with_k sh s', false)
  | INoclobber b => ([(None, sh_k sh, false)], mkSh (sh_k sh) b (sh_ee sh), false)
  | IErrexit b => ([(None, sh_k sh, false)], mkSh (sh_k sh) (sh_nc sh) b, false)
  | IGroup k rs body =>
      let '(s1, stack, ok) := perform_redirs (sh_nc sh) (sh_k sh) rs [] in
      if ok then
        let '(ob, shb, ex) := run_list_with run_item (with_k sh s1) body in
        if ex then
          ((Some s1, s1, false) :: patch_last (fun a => undo_redirs a stack) ob,
           with_k shb (undo_redirs (sh_k shb) stack), true)
        else
          let s' := undo_redirs (sh_k shb) stack in
          ((Some s1, s1, false) :: ob ++ [(None, s', false)], with_k shb s', false)
      else
        (* compound_command.rs: apply_errexit *)
        let s' := undo_redirs (stderr_write s1) stack in
        ([(None, s', sh_ee sh)], with_k sh s', sh_ee sh)
  | IDot via rs p body =>
      (* `.` is a special built-in: an error makes the shell exit, unless it is
         run through `command` *)
      let '(s1, stack, ok) := perform_redirs (sh_nc sh) (sh_k sh) rs [] in
      if ok then
        match open_internal s1 p with
        | (s2, Some fd) =>
            let fin := fun a => undo_redirs (k_close a fd) stack in
            let '(ob, shb, ex) := run_list_with run_item (with_k sh s2) body in
            if ex then
              ((Some s2, s2, false) :: patch_last fin ob, with_k shb (fin (sh_k shb)), true)
            else
              let s' := fin (sh_k shb) in
              ((Some s2, s2, false) :: ob ++ [(None, s', false)], with_k shb s', false)
        | (s2, None) =>
            let s' := undo_redirs (stderr_write s2) stack in
            ([(None, s', negb via || sh_ee sh)], with_k sh s', negb via || sh_ee sh)
        end
      else
        let s' := undo_redirs (stderr_write s1) stack in
        ([(None, s', negb via || sh_ee sh)], with_k sh s', negb via || sh_ee sh)
  | ISubst c =>
      (* the words are expanded before the redirections are performed; an
         expansion error makes the shell exit *)
      match k_pipe (sh_k sh) with
      | (s1, Ok (r, w)) =>
          let s2 := k_close (k_close s1 w) r in
          let '(s', inside, ex0) := run_cmd (sh_nc sh) s2 c in
          let ex := ex0 || (sh_ee sh && cmd_fails (sh_nc sh) s2 c) in
          ([(subst_child s1 r w, s', ex); (inside, s', ex)], with_k sh s', ex)
      | (s1, Err _) =>
          let s' := stderr_write s1 in ([(None, s', true)], with_k sh s', true)
      end
  | IPipe n =>
      let '(s', children, ok) := run_pipeline (sh_k sh) n in
      let ex := negb ok in
      (* one step per child that was started (a child that gives up shows
         nothing) *)
      let steps := map (fun ch : option kst => (ch, s', ex)) children in
      (match steps with [] => [(None, s', ex)] | _ => steps end, with_k sh s', ex)
  | IStartup p =>
      match open_internal (sh_k sh) p with
      | (s', Some _) => ([(None, s', false)], with_k sh s', false)
      | (s', None) => ([(None, s', true)], with_k sh s', true)
      end
  end.

Definition run_script (sh : shell) (is : list item) : list out :=
  fst (fst (run_list_with run_item sh is)).

(* nothing in the item is meant to outlive it: no exec, no change of the limit *)
Fixpoint transient (i : item) : bool :=
  match i with
  | ICmd c => match c_kind c with KExec | KExecFail _ => false | _ => true end
  | IGroup _ _ body => forallb transient body
  | IDot _ _ _ body => forallb transient body
  | ISubst c => match c_kind c with KExec | KExecFail _ => false | _ => true end
  | IPipe _ => true
  | IStartup _ => false
  | ILimit _ => false
  | INoclobber _ | IErrexit _ => true
  end.
