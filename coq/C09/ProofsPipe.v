(* C09 — proofs, part 8: the parent's side of a pipeline.  Whether or not every
   pipe can be made, the parent's table afterwards is the table before. *)
From Yv Require Import Common.Base C09.Kernel C09.Model C09.Spec
  C09.ProofsTab C09.ProofsList C09.ProofsOwn.

Local Open Scope N_scope.

(* t is t0 plus exactly the descriptors xs *)
Record extra (t0 t : table) (xs : list N) : Prop := mkExtra {
  ex_new : forall fd, In fd xs -> lookup t0 fd = None /\ lookup t fd <> None;
  ex_old : forall fd, ~ In fd xs -> lookup t fd = lookup t0 fd
}.

Definition without (x : N) (xs : list N) : list N := filter (fun y => negb (N.eqb y x)) xs.

Lemma in_without x xs y : In y (without x xs) <-> In y xs /\ y <> x.
Proof.
  unfold without. rewrite filter_In, negb_true_iff, N.eqb_neq. reflexivity.
Qed.

Lemma extra_nil t0 t : sorted t0 -> sorted t -> extra t0 t [] -> t = t0.
Proof. intros H0 H1 [_ Ho]. apply sorted_ext; try assumption. intros fd. apply Ho. intros []. Qed.

Lemma extra_close t0 t xs x :
  sorted t -> In x xs -> extra t0 t xs -> extra t0 (tdel t x) (without x xs).
Proof.
  intros Hs Hx [Hn Ho]. split.
  - intros fd Hin. apply in_without in Hin. destruct Hin as [Hin Hne].
    destruct (Hn fd Hin) as [A B]. split; [exact A|].
    rewrite lookup_tdel by exact Hs. destruct (N.eqb_spec x fd); [congruence|exact B].
  - intros fd Hnin. rewrite lookup_tdel by exact Hs. destruct (N.eqb_spec x fd) as [<-|Hne].
    + destruct (Hn x Hx) as [A _]. symmetry. exact A.
    + apply Ho. intros Hin. apply Hnin. apply in_without. split; [exact Hin|congruence].
Qed.

Lemma extra_open t0 t xs x e :
  lookup t x = None -> extra t0 t xs -> extra t0 (tset t x e) (xs ++ [x]).
Proof.
  intros Hx [Hn Ho].
  assert (~ In x xs) as Hnx by (intros Hin; destruct (Hn x Hin) as [_ B]; congruence).
  split.
  - intros fd Hin. apply in_app_or in Hin. rewrite lookup_tset. destruct Hin as [Hin|[<-|[]]].
    + destruct (Hn fd Hin) as [A B]. split; [exact A|].
      destruct (N.eqb_spec x fd); [discriminate|exact B].
    + rewrite N.eqb_refl. split; [rewrite <- (Ho x Hnx); exact Hx|discriminate].
  - intros fd Hnin. rewrite lookup_tset. destruct (N.eqb_spec x fd) as [<-|Hne].
    + exfalso. apply Hnin. apply in_or_app. right. left. reflexivity.
    + apply Ho. intros Hin. apply Hnin. apply in_or_app. left. exact Hin.
Qed.

Lemma extra_same t0 t xs ys : (forall x, In x xs <-> In x ys) -> extra t0 t xs -> extra t0 t ys.
Proof.
  intros H [Hn Ho]. split.
  - intros fd Hin. apply Hn. apply H. exact Hin.
  - intros fd Hnin. apply Ho. intros Hin. apply Hnin. apply H. exact Hin.
Qed.

Definition opt_fd (o : option N) : list N := match o with Some p => [p] | None => [] end.

Definition fds_of (prev : option N) (next : option (N * N)) : list N :=
  opt_fd prev ++ match next with Some (r, w) => [r; w] | None => [] end.

Lemma nodup_fds prev r w :
  (forall p, prev = Some p -> p <> r /\ p <> w) -> r <> w -> NoDup (opt_fd prev ++ [r; w]).
Proof.
  intros Hp Hne.
  assert (NoDup [r; w]) as Hrw.
  { constructor; [intros [E|[]]; congruence|constructor; [intros []|constructor]]. }
  destruct prev as [p|]; cbn; [|exact Hrw].
  destruct (Hp p eq_refl) as [A B]. constructor; [|exact Hrw].
  intros [E|[E|[]]]; congruence.
Qed.

(* the state of the parent between two commands of the pipeline *)
Record pinv (t0 : table) (lim : option N) (s : kst) (prev : option N) (next : option (N * N)) : Prop := {
  pi_wf : wf s;
  pi_lim : k_lim s = lim;
  pi_extra : extra t0 (k_tab s) (fds_of prev next);
  pi_nodup : NoDup (fds_of prev next)
}.

Lemma close_opt_inv t0 lim s prev next :
  pinv t0 lim s prev next -> pinv t0 lim (close_opt s prev) None next.
Proof.
  intros [[Hs Hb] Hl He Hd]. destruct prev as [p|]; [|split; try assumption; split; assumption].
  cbn [close_opt]. split.
  - eapply wf_intro; [reflexivity|reflexivity|cbn..]; [apply sorted_tdel|apply below_limit_tdel]; assumption.
  - exact Hl.
  - cbn. eapply extra_same; [|exact (extra_close t0 (k_tab s) (fds_of (Some p) next) p Hs (or_introl eq_refl) He)].
    intros x. rewrite in_without. unfold fds_of, opt_fd. cbn [app].
    inversion Hd as [|? ? Hnin Hd']. subst. split.
    + intros [[->|Hin] Hne]; [congruence|exact Hin].
    + intros Hin. split; [right; exact Hin|]. intros ->. contradiction.
  - unfold fds_of, opt_fd in *. cbn [app] in *. inversion Hd. assumption.
Qed.

Lemma pipe_shift_inv t0 lim s prev next has_next s' prev' next' ok :
  pinv t0 lim s prev next ->
  pipe_shift s prev next has_next = (s', prev', next', ok) ->
  pinv t0 lim s' prev' next'
  /\ (ok = true -> (next' = None <-> has_next = false))
  /\ (ok = false -> next' = None /\ prev' = None).
Proof.
  intros Hinv. apply close_opt_inv in Hinv. unfold pipe_shift.
  set (s1 := close_opt s prev) in *.
  (* close the write end of the last pipe; its read end becomes prev *)
  assert (exists s2 prev2,
            (let (s2, prev') := match next with
                                | Some (r, w) => (k_close s1 w, Some r)
                                | None => (s1, None)
                                end in (s2, prev')) = (s2, prev2)
            /\ pinv t0 lim s2 prev2 None) as [s2 [prev2 [E2 Hinv2]]].
  { destruct next as [[r w]|].
    - exists (k_close s1 w), (Some r). split; [reflexivity|].
      destruct Hinv as [[Hs Hb] Hl He Hd]. unfold fds_of, opt_fd in *. cbn [app] in *. split.
      + eapply wf_intro; [reflexivity|reflexivity|cbn..]; [apply sorted_tdel|apply below_limit_tdel]; assumption.
      + exact Hl.
      + cbn. eapply extra_same; [|exact (extra_close t0 (k_tab s1) [r; w] w Hs (or_intror (or_introl eq_refl)) He)].
        intros x. rewrite in_without. cbn. inversion Hd as [|? ? Hnin Hd']. subst.
        split.
        * intros [[->|[->|[]]] Hne]; [left; reflexivity|congruence].
        * intros [->|[]]. split; [left; reflexivity|]. intros ->. apply Hnin. left. reflexivity.
      + constructor; [intros []|constructor].
    - exists s1, None. split; [reflexivity|]. exact Hinv. }
  destruct (match next with Some (r, w) => (k_close s1 w, Some r) | None => (s1, None) end)
    as [s2' prev2'] eqn:Em.
  injection E2 as -> ->.
  destruct has_next.
  - destruct (k_pipe s2) as [s3 [[r w]|er]] eqn:Ep;
      apply k_pipe_tab in Ep; try apply Hinv2; destruct Ep as [Hwf3 [El3 Hp]];
      intros E; injection E as <- <- <- <-.
    + destruct Hp as [Hne [Hr [Hw [e1 [e2 Et3]]]]].
      destruct Hinv2 as [[Hs2 Hb2] Hl2 He2 Hd2]. unfold fds_of in *. rewrite app_nil_r in *.
      split; [|split; [intros _; split; discriminate|discriminate]].
      split; [exact Hwf3|congruence| |].
      * rewrite Et3.
        assert (lookup (tset (k_tab s2) r e1) w = None) as Hw'
          by (rewrite lookup_tset; destruct (N.eqb_spec r w); [congruence|exact Hw]).
        pose proof (extra_open _ _ _ w e2 Hw' (extra_open _ _ _ r e1 Hr He2)) as H.
        rewrite <- app_assoc in H. exact H.
      * apply nodup_fds; [|exact Hne]. intros p ->.
        destruct (ex_new _ _ _ He2 p (or_introl eq_refl)) as [_ B]. split; intros ->; congruence.
    + split; [|split; [discriminate|intros _; split; reflexivity]].
      assert (pinv t0 lim s3 prev2 None) as Hinv3.
      { destruct Hinv2 as [Hwf2 Hl2 He2 Hd2].
        split; [exact Hwf3|congruence|rewrite Hp; exact He2|exact Hd2]. }
      exact (close_opt_inv _ _ _ _ _ Hinv3).
  - intros E. injection E as <- <- <- <-.
    split; [exact Hinv2|]. split; [intros _; split; reflexivity|discriminate].
Qed.

Lemma pipe_loop_inv t0 lim k :
  forall s prev next acc s' children ok,
    pinv t0 lim s prev next -> (k = O -> next = None) ->
    pipe_loop s prev next k acc = (s', children, ok) ->
    k_lim s' = lim /\ extra t0 (k_tab s') [] /\ sorted (k_tab s').
Proof.
  induction k as [|k IH]; intros s prev next acc s' children ok Hinv Hk; cbn [pipe_loop].
  - rewrite (Hk eq_refl) in *.
    destruct (pipe_shift s prev None false) as [[[s1 prev1] next1] ok1] eqn:Es.
    intros E. injection E as <- _ _.
    revert Es. unfold pipe_shift. intros Es. injection Es as <- _ _ _.
    apply close_opt_inv in Hinv. destruct Hinv as [[Hs Hb] Hl He Hd].
    split; [exact Hl|]. split; [exact He|exact Hs].
  - destruct (pipe_shift s prev next (match k with O => false | S _ => true end))
      as [[[s1 prev1] next1] ok1] eqn:Es.
    destruct (pipe_shift_inv _ _ _ _ _ _ _ _ _ _ Hinv Es) as [Hinv1 [Hok Hfail]].
    destruct ok1.
    + apply IH; [exact Hinv1|]. intros ->. apply (Hok eq_refl). reflexivity.
    + intros E. injection E as <- _ _. destruct (Hfail eq_refl) as [-> ->].
      destruct (stderr_write_tab s1) as [A B]. destruct Hinv1 as [[Hs Hb] Hl He Hd].
      rewrite A. split; [congruence|]. split; [exact He|exact Hs].
Qed.

(* whether or not every pipe can be made, the parent's table afterwards is the
   one before *)
Lemma pipeline_restores_lemma s n s' children ok :
  sorted (k_tab s) -> below_limit (k_lim s) (k_tab s) ->
  run_pipeline s n = (s', children, ok) ->
  k_tab s' = k_tab s /\ k_lim s' = k_lim s.
Proof.
  intros Hs Hb Hr. unfold run_pipeline in Hr.
  assert (pinv (k_tab s) (k_lim s) s None None) as Hinv.
  { split; [split; assumption|reflexivity| |constructor].
    split; [intros fd []|reflexivity]. }
  destruct (pipe_loop_inv _ _ n _ _ _ _ _ _ _ Hinv (fun _ => eq_refl) Hr) as [Hl [He Hs']].
  split; [apply extra_nil; assumption|exact Hl].
Qed.
