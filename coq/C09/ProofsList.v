(* C09 — proofs, part 2: lists of redirections, the stack of saved
   descriptors, undo and preserve. *)
From Yv Require Import Common.Base C09.Kernel C09.Model C09.Spec C09.ProofsTab.

Local Open Scope N_scope.

(* ---- undo restores ------------------------------------------------------------ *)

Lemma ent_eta e : e_cx e = false -> mkEnt (e_ofd e) false = e.
Proof. destruct e as [o c]. cbn. intros ->. reflexivity. Qed.

Lemma undo_one_restores nc s r s' n save :
  wf s -> perform nc s r = (s', Some (n, save)) ->
  undo_one (k_lim s) (k_tab s') (n, save) = k_tab s.
Proof.
  intros Hwf Hp. pose proof Hwf as [Hs Hb].
  apply perform_step in Hp; [|assumption].
  destruct Hp as [[Hs' Hb'] [El [Hn [Hcx [v [Hv Hsave]]]]]].
  destruct save as [sv|]; cbn [undo_one].
  - destruct Hsave as [en [Hln [Hcxn [Hfresh [Hge [Hne Hupd]]]]]].
    unfold t_dup2.
    assert (lookup (k_tab s') sv = Some (mkEnt (e_ofd en) true)) as Hsv.
    { rewrite Hupd. destruct (N.eqb_spec sv n); [congruence|].
      rewrite lookup_tset, N.eqb_refl. reflexivity. }
    rewrite Hsv. destruct (N.eqb_spec sv n) as [|_]; [congruence|].
    rewrite (below_limit_lookup _ _ _ _ Hb Hln). cbn [fst e_ofd].
    apply sorted_ext; [apply sorted_tdel, sorted_tset; assumption|assumption|].
    intros fd. rewrite lookup_tdel by (apply sorted_tset; assumption). rewrite lookup_tset.
    destruct (N.eqb_spec sv fd) as [<-|Hfd]; [symmetry; assumption|].
    destruct (N.eqb_spec n fd) as [<-|Hfd'].
    + rewrite Hln, ent_eta by assumption. reflexivity.
    + rewrite Hupd. destruct (N.eqb_spec fd n); [congruence|].
      rewrite lookup_tset. destruct (N.eqb_spec sv fd); [congruence|reflexivity].
  - destruct Hsave as [Hln Hupd].
    apply sorted_ext; [apply sorted_tdel; assumption|assumption|].
    intros fd. rewrite lookup_tdel by assumption.
    destruct (N.eqb_spec n fd) as [<-|Hfd]; [symmetry; assumption|].
    rewrite Hupd. destruct (N.eqb_spec fd n); [congruence|reflexivity].
Qed.

Lemma undo_tab_app lim t a b : undo_tab lim t (a ++ b) = undo_tab lim (undo_tab lim t a) b.
Proof. unfold undo_tab. apply fold_left_app. Qed.

Lemma perform_redirs_undo nc rs :
  forall s stack s' stack' ok,
    wf s -> perform_redirs nc s rs stack = (s', stack', ok) ->
    wf s' /\ k_lim s' = k_lim s /\
    exists pre, stack' = pre ++ stack /\ undo_tab (k_lim s) (k_tab s') pre = k_tab s.
Proof.
  induction rs as [|r rs IH]; intros s stack s' stack' ok Hwf; cbn [perform_redirs].
  - intros E. injection E as <- <- <-. split; [assumption|]. split; [reflexivity|].
    exists []. split; reflexivity.
  - destruct (perform nc s r) as [s1 [sv|]] eqn:Hp.
    + pose proof (perform_step _ _ _ _ _ Hwf Hp) as [Hwf1 [El1 _]].
      intros Hrs. apply IH in Hrs; [|assumption].
      destruct Hrs as [Hwf' [El' [pre [-> Hundo]]]].
      split; [assumption|]. split; [congruence|].
      exists (pre ++ [sv]). split; [rewrite <- app_assoc; reflexivity|].
      rewrite undo_tab_app. rewrite El1 in Hundo. rewrite Hundo. cbn.
      destruct sv as [n save]. eapply undo_one_restores; eassumption.
    + pose proof (perform_step _ _ _ _ _ Hwf Hp) as [Hwf1 [El1 Et1]].
      intros E. injection E as <- <- <-. split; [assumption|]. split; [assumption|].
      exists []. split; [reflexivity|exact Et1].
Qed.

Lemma undo_restores_lemma nc s rs s' stack ok :
  sorted (k_tab s) -> below_limit (k_lim s) (k_tab s) ->
  perform_redirs nc s rs [] = (s', stack, ok) ->
  k_tab (undo_redirs s' stack) = k_tab s.
Proof.
  intros Hs Hb Hp. apply perform_redirs_undo in Hp; [|split; assumption].
  destruct Hp as [_ [El [pre [-> Hundo]]]]. rewrite app_nil_r.
  cbn. rewrite El. exact Hundo.
Qed.

(* ---- the shape of the table while redirections are in effect --------------------- *)

Record shape (t0 t : table) (stack : list saved) (tg : list N) : Prop := mkShape {
  (* a saved descriptor is open, close-on-exec, >= 10, in a slot that was
     free at the beginning or has been freed by a redirection of that slot *)
  sh_save : forall fd, In fd (saves stack) ->
            (exists e, lookup t fd = Some e /\ e_cx e = true) /\ 10 <= fd
            /\ (lookup t0 fd = None \/ In fd tg);
  (* any other descriptor is as it was, or is a target and visible to the user *)
  sh_other : forall fd, ~ In fd (saves stack) ->
             lookup t fd = lookup t0 fd \/ (In fd tg /\ not_cx (lookup t fd));
  sh_orig : forall orig sv, In (orig, sv) stack -> In orig tg /\ sv <> Some orig;
  (* a descriptor that has been redirected is visible to the user, unless its
     slot has since been taken by a saved descriptor *)
  sh_done : forall orig sv, In (orig, sv) stack -> ~ In orig (saves stack) ->
            not_cx (lookup t orig);
  sh_nodup : NoDup (saves stack)
}.

Lemma shape_init t0 : shape t0 t0 [] [].
Proof.
  split.
  - intros fd [].
  - intros fd _. left. reflexivity.
  - intros orig sv [].
  - intros orig sv [].
  - constructor.
Qed.

Lemma shape_mono t0 t stack tg tg' :
  incl tg tg' -> shape t0 t stack tg -> shape t0 t stack tg'.
Proof.
  intros Hi [H1 H2 H3 H5 H4]. split.
  - intros fd Hin. destruct (H1 fd Hin) as [A [B [C|C]]]; auto.
  - intros fd Hin. destruct (H2 fd Hin) as [A|[A B]]; auto.
  - intros orig sv Hin. destruct (H3 orig sv Hin). auto.
  - assumption.
  - assumption.
Qed.

Lemma shape_step nc t0 s r s' n save stack tg :
  wf s -> shape t0 (k_tab s) stack tg ->
  perform nc s r = (s', Some (n, save)) ->
  shape t0 (k_tab s') ((n, save) :: stack) (n :: tg).
Proof.
  intros Hwf Hsh Hp. apply perform_step in Hp; [|assumption].
  destruct Hp as [_ [_ [Hn [Hcx [v [Hv Hsave]]]]]].
  destruct Hsh as [H1 H2 H3 H5 H4].
  assert (~ In n (saves stack)) as Hn_nosave.
  { intros Hin. destruct (H1 n Hin) as [[e [He Hce]] _].
    unfold k_cloexec in Hcx. rewrite He in Hcx. congruence. }
  destruct save as [sv|].
  - destruct Hsave as [en [Hln [Hcxn [Hfresh [Hge [Hne Hupd]]]]]].
    assert (~ In sv (saves stack)) as Hsv_nosave.
    { intros Hin. destruct (H1 sv Hin) as [[e [He _]] _]. congruence. }
    assert (forall fd, fd <> n -> fd <> sv -> lookup (k_tab s') fd = lookup (k_tab s) fd) as Hrest.
    { intros fd A B. rewrite Hupd. destruct (N.eqb_spec fd n); [congruence|].
      rewrite lookup_tset. destruct (N.eqb_spec sv fd); [congruence|reflexivity]. }
    assert (lookup (k_tab s') sv = Some (mkEnt (e_ofd en) true)) as Hsv.
    { rewrite Hupd. destruct (N.eqb_spec sv n); [congruence|].
      rewrite lookup_tset, N.eqb_refl. reflexivity. }
    assert (lookup (k_tab s') n = v) as Hnv by (rewrite Hupd, N.eqb_refl; reflexivity).
    split; cbn [saves flat_map snd app].
    + intros fd [<-|Hin].
      * split; [eexists; split; [exact Hsv|reflexivity]|]. split; [assumption|].
        destruct (H2 sv Hsv_nosave) as [A|[A _]].
        -- left. congruence.
        -- right. right. assumption.
      * assert (fd <> n) by (intros ->; contradiction). assert (fd <> sv) by (intros ->; contradiction).
        rewrite Hrest by assumption. destruct (H1 fd Hin) as [A [B [C|C]]].
        -- split; [assumption|]. split; [assumption|]. left; assumption.
        -- split; [assumption|]. split; [assumption|]. right; right; assumption.
    + intros fd Hnin.
      assert (fd <> sv) by (intros ->; apply Hnin; left; reflexivity).
      assert (~ In fd (saves stack)) as Hnin' by (intros A; apply Hnin; right; assumption).
      destruct (N.eq_dec fd n) as [->|Hfd].
      * right. split; [left; reflexivity|]. rewrite Hnv. assumption.
      * rewrite Hrest by assumption. destruct (H2 fd Hnin') as [A|[A B]]; [left; assumption|].
        right. split; [right; assumption|assumption].
    + intros orig sv' [E|Hin].
      * injection E as <- <-. split; [left; reflexivity|]. congruence.
      * destruct (H3 orig sv' Hin). split; [right; assumption|assumption].
    + intros orig sv' Hin Hns.
      assert (orig <> sv) by (intros ->; apply Hns; left; reflexivity).
      assert (~ In orig (saves stack)) as Hns' by (intros A; apply Hns; right; assumption).
      destruct (N.eq_dec orig n) as [->|Hon]; [rewrite Hnv; assumption|].
      rewrite Hrest by assumption. destruct Hin as [E|Hin]; [congruence|].
      eapply H5; eassumption.
    + constructor; assumption.
  - destruct Hsave as [Hln Hupd].
    assert (forall fd, fd <> n -> lookup (k_tab s') fd = lookup (k_tab s) fd) as Hrest.
    { intros fd A. rewrite Hupd. destruct (N.eqb_spec fd n); [congruence|reflexivity]. }
    assert (lookup (k_tab s') n = v) as Hnv by (rewrite Hupd, N.eqb_refl; reflexivity).
    split; cbn [saves flat_map snd app].
    + intros fd Hin. assert (fd <> n) by (intros ->; contradiction). rewrite Hrest by assumption.
      destruct (H1 fd Hin) as [A [B [C|C]]].
      * split; [assumption|]. split; [assumption|]. left; assumption.
      * split; [assumption|]. split; [assumption|]. right; right; assumption.
    + intros fd Hnin. destruct (N.eq_dec fd n) as [->|Hfd].
      * right. split; [left; reflexivity|]. rewrite Hnv. assumption.
      * rewrite Hrest by assumption. destruct (H2 fd Hnin) as [A|[A B]]; [left; assumption|].
        right. split; [right; assumption|assumption].
    + intros orig sv' [E|Hin].
      * injection E as <- <-. split; [left; reflexivity|discriminate].
      * destruct (H3 orig sv' Hin). split; [right; assumption|assumption].
    + intros orig sv' Hin Hns.
      destruct (N.eq_dec orig n) as [->|Hon]; [rewrite Hnv; assumption|].
      rewrite Hrest by assumption. destruct Hin as [E|Hin]; [congruence|].
      eapply H5; eassumption.
    + assumption.
Qed.

Lemma perform_redirs_shape nc t0 rs :
  forall s stack tg s' stack' ok,
    wf s -> shape t0 (k_tab s) stack tg ->
    perform_redirs nc s rs stack = (s', stack', ok) ->
    shape t0 (k_tab s') stack' (targets rs ++ tg).
Proof.
  induction rs as [|r rs IH]; intros s stack tg s' stack' ok Hwf Hsh; cbn [perform_redirs targets map].
  - intros E. injection E as <- <- <-. exact Hsh.
  - destruct (perform nc s r) as [s1 [[n save]|]] eqn:Hp.
    + pose proof (perform_step _ _ _ _ _ Hwf Hp) as [Hwf1 [_ [Hn _]]].
      intros Hrs.
      pose proof (shape_step _ _ _ _ _ _ _ _ _ Hwf Hsh Hp) as Hsh1.
      pose proof (IH _ _ _ _ _ _ Hwf1 Hsh1 Hrs) as Hfin.
      eapply shape_mono; [|exact Hfin]. subst n.
      intros x Hx. apply in_app_or in Hx. cbn. destruct Hx as [Hx|[Hx|Hx]].
      * right. apply in_or_app. left. exact Hx.
      * left. exact Hx.
      * right. apply in_or_app. right. exact Hx.
    + pose proof (perform_step _ _ _ _ _ Hwf Hp) as [_ [_ Et]].
      intros E. injection E as <- <- <-. rewrite Et.
      eapply shape_mono; [|exact Hsh]. intros x Hx. right. apply in_or_app. right. exact Hx.
Qed.

Lemma perform_redirs_shape0 nc s rs s' stack ok :
  wf s -> perform_redirs nc s rs [] = (s', stack, ok) ->
  shape (k_tab s) (k_tab s') stack (targets rs).
Proof.
  intros Hwf Hp.
  pose proof (perform_redirs_shape _ _ _ _ _ _ _ _ _ Hwf (shape_init (k_tab s)) Hp) as H.
  rewrite app_nil_r in H. exact H.
Qed.

Lemma perform_redirs_done nc rs :
  forall s stack s' stack',
    perform_redirs nc s rs stack = (s', stack', true) ->
    forall fd, In fd (targets rs) -> exists sv, In (fd, sv) stack'.
Proof.
  induction rs as [|r rs IH]; intros s stack s' stack'; cbn [perform_redirs targets map].
  - intros _ fd [].
  - unfold perform at 1. intros Hp fd Hin. revert Hp.
    fold (perform nc s r). destruct (perform nc s r) as [s1 [[n save]|]] eqn:Hp1; [|discriminate].
    intros Hrs. destruct Hin as [<-|Hin].
    + assert (n = r_fd r) as ->.
      { revert Hp1. unfold perform. destruct (k_cloexec s (r_fd r)); [discriminate|].
        destruct (k_dup s (r_fd r) MIN_INTERNAL_FD true) as [s0 [sv|e]].
        - destruct (apply nc s0 r) as [s2 [|]]; intros E; [injection E as _ <- _; reflexivity|discriminate].
        - destruct e; try discriminate.
          destruct (apply nc s0 r) as [s2 [|]]; intros E; [injection E as _ <- _; reflexivity|discriminate]. }
      clear IH Hp1. revert s1 Hrs.
      assert (forall l s1 st, In (r_fd r, save) st -> perform_redirs nc s1 l st = (s', stack', true) ->
                exists sv, In (r_fd r, sv) stack') as Hkeep.
      { induction l as [|r' l IHl]; intros s1 st Hst; cbn [perform_redirs].
        - intros E. injection E as _ <-. eauto.
        - destruct (perform nc s1 r') as [s2 [sv'|]]; [|discriminate].
          apply IHl. right. exact Hst. }
      intros s1. apply Hkeep. left. reflexivity.
    + eapply IH; eassumption.
Qed.

(* ---- consequences ------------------------------------------------------------------- *)

Lemma in_saves stack fd : In fd (saves stack) <-> exists orig, In (orig, Some fd) stack.
Proof.
  unfold saves. rewrite in_flat_map. split.
  - intros [[orig [sv|]] [Hin Hx]]; cbn in Hx; [|contradiction].
    destruct Hx as [->|[]]. exists orig. exact Hin.
  - intros [orig Hin]. exists (orig, Some fd). split; [exact Hin|left; reflexivity].
Qed.

Lemma shape_explained t0 t stack tg : shape t0 t stack tg -> explained tg t0 t.
Proof.
  intros [H1 H2 _ _ _] fd.
  destruct (in_dec N.eq_dec fd (saves stack)) as [Hin|Hnin].
  - right. destruct (H1 fd Hin) as [[e [-> Hce]] [Hge Hor]]. rewrite Hce.
    split; [assumption|]. destruct Hor; auto.
  - destruct (H2 fd Hnin) as [A|[A B]]; [left; assumption|]. right.
    destruct (lookup t fd) as [e|] eqn:E; [|assumption].
    rewrite (B e eq_refl). assumption.
Qed.

Lemma saves_cons orig sv l :
  saves ((orig, sv) :: l) = match sv with Some x => x :: saves l | None => saves l end.
Proof. unfold saves. cbn. destruct sv; reflexivity. Qed.

Lemma fold_preserve fd l :
  forall t, sorted t ->
    sorted (fold_left preserve_one l t)
    /\ (In fd (saves l) -> lookup (fold_left preserve_one l t) fd = None)
    /\ (~ In fd (saves l) -> lookup (fold_left preserve_one l t) fd = lookup t fd).
Proof.
  induction l as [|[orig sv] l IH]; intros t Hs; cbn [fold_left].
  - split; [assumption|]. split; [intros []|reflexivity].
  - rewrite saves_cons. unfold preserve_one at 2 4 6. cbn [snd].
    destruct sv as [x|]; [|apply IH; assumption].
    destruct (IH (tdel t x) (sorted_tdel _ _ Hs)) as [A [B C]].
    split; [exact A|]. split.
    + intros Hin. destruct (in_dec N.eq_dec fd (saves l)) as [Hl|Hl]; [apply B; exact Hl|].
      destruct Hin as [->|Hin]; [|contradiction].
      rewrite C by exact Hl. rewrite lookup_tdel by assumption. rewrite N.eqb_refl. reflexivity.
    + intros Hnin. rewrite C by (intros X; apply Hnin; right; exact X).
      rewrite lookup_tdel by assumption.
      destruct (N.eqb_spec x fd) as [->|_]; [|reflexivity].
      exfalso. apply Hnin. left. reflexivity.
Qed.

Lemma saves_rev stack x : In x (saves (rev stack)) <-> In x (saves stack).
Proof.
  rewrite !in_saves. split; intros [o Ho]; exists o; [apply in_rev|apply in_rev in Ho]; assumption.
Qed.

Lemma preserve_tab_lookup t stack fd :
  sorted t ->
  (In fd (saves stack) -> lookup (preserve_tab t stack) fd = None)
  /\ (~ In fd (saves stack) -> lookup (preserve_tab t stack) fd = lookup t fd).
Proof.
  unfold preserve_tab. intros Hs.
  destruct (fold_preserve fd (rev stack) t Hs) as [_ [B C]]. split.
  - intros Hin. apply B. apply saves_rev. exact Hin.
  - intros Hnin. apply C. intros X. apply Hnin. apply saves_rev. exact X.
Qed.

Lemma stderr_write_tab s : k_tab (stderr_write s) = k_tab s /\ k_lim (stderr_write s) = k_lim s.
Proof.
  unfold stderr_write. destruct (lookup (k_tab s) 2) as [e|]; [|auto].
  destruct (ofd_get (k_ofd s) (e_ofd e)) as [o|]; [|auto].
  destruct (negb (o_w o)); [auto|].
  destruct (o_file o); [|cbn; auto..].
  destruct (fs_get (k_fs s) p) as [[c d|]|]; cbn; auto.
Qed.

Lemma undo_stderr s stack : k_tab (undo_redirs (stderr_write s) stack) = k_tab (undo_redirs s stack).
Proof. destruct (stderr_write_tab s) as [A B]. cbn. rewrite A, B. reflexivity. Qed.
