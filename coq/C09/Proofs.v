(* C09 — proofs: the lemmas the property theorems are closed with.
     ProofsTab   one [perform] and the descriptor table (the step lemma)
     ProofsList  lists of redirections, the stack of saved descriptors, undo, preserve
     ProofsVal   which description a successful [perform] binds the target to
     ProofsSpec  model refines specification; noclobber; commands; oracle soundness
     ProofsProgress  an accepted list is performed when nothing constrains allocation
     ProofsOwn   descriptors the shell opens for itself: scripts (move_fd_internal), pipes
     ProofsPipe  the parent's side of a pipeline
     ProofsScript  nested compound commands, functions, the . built-in, command substitution
     ProofsSave  the saving dup as a failure point; backups while a command runs *)
From Yv Require Export Common.Base C09.Kernel C09.Model C09.Spec
  C09.ProofsTab C09.ProofsList C09.ProofsVal C09.ProofsSpec C09.ProofsProgress C09.ProofsOwn C09.ProofsPipe C09.ProofsScript C09.ProofsSave C09.Symlink C09.Examples.

Local Open Scope N_scope.

Lemma min_unused_spec_lemma c t :
  sorted t ->
  lookup t (min_unused c t) = None /\ c <= min_unused c t
  /\ forall x, c <= x < min_unused c t -> lookup t x <> None.
Proof.
  intros H. split; [apply min_unused_fresh; assumption|]. split; [apply min_unused_ge|].
  intros x Hx. eapply min_unused_least; eassumption.
Qed.

Lemma undo_restores_ext_lemma nc s rs s' stack ok :
  sorted (k_tab s) -> below_limit (k_lim s) (k_tab s) ->
  perform_redirs nc s rs [] = (s', stack, ok) ->
  forall fd, lookup (k_tab (undo_redirs s' stack)) fd = lookup (k_tab s) fd.
Proof. intros Hs Hb Hp fd. rewrite (undo_restores_lemma _ _ _ _ _ _ Hs Hb Hp). reflexivity. Qed.

Lemma failed_redir_lemma nc s r s' :
  sorted (k_tab s) -> below_limit (k_lim s) (k_tab s) ->
  perform nc s r = (s', None) -> k_tab s' = k_tab s.
Proof. intros Hs Hb Hp. apply perform_step in Hp; [|split; assumption]. tauto. Qed.

Lemma wellformed_lemma nc s rs s' stack ok :
  sorted (k_tab s) -> below_limit (k_lim s) (k_tab s) ->
  perform_redirs nc s rs [] = (s', stack, ok) ->
  sorted (k_tab s') /\ below_limit (k_lim s') (k_tab s') /\ k_lim s' = k_lim s.
Proof.
  intros Hs Hb Hp. destruct (perform_redirs_wf _ _ _ _ _ _ _ (conj Hs Hb) Hp) as [[A B] C]. auto.
Qed.

(* Without the hypothesis on the limit the table is not restored: a descriptor
   at or above a limit that was lowered afterwards cannot be put back. *)
Definition limit_witness : kst :=
  mkK [(0, mkEnt 0 false); (15, mkEnt 1 false)] (Some 12) [] 2
      [(1, mkOfd (FPath 1) true true false); (0, mkOfd (FPath 0) true true false)] [].

Lemma undo_needs_limit_lemma :
  exists nc s rs s' stack ok,
    sorted (k_tab s) /\ perform_redirs nc s rs [] = (s', stack, ok)
    /\ lookup (k_tab (undo_redirs s' stack)) 15 <> lookup (k_tab s) 15.
Proof.
  exists false, limit_witness, [mkRedir 15 (BDup FdIn DClose)].
  eexists. eexists. eexists. split; [|split; [vm_compute; reflexivity|vm_compute; discriminate]].
  cbn. repeat split; intros k' H; cbn in H; intuition lia.
Qed.

(* statements without [wf] *)
Lemma move_fd_internal_lemma s from e s' res :
  sorted (k_tab s) -> below_limit (k_lim s) (k_tab s) ->
  lookup (k_tab s) from = Some e -> move_fd_internal s from = (s', res) ->
  k_lim s' = k_lim s /\
  match res with
  | Ok fd =>
      if N.leb 10 from then fd = from /\ k_tab s' = k_tab s
      else 10 <= fd /\ lookup (k_tab s) fd = None
           /\ k_tab s' = tdel (tset (k_tab s) fd (mkEnt (e_ofd e) true)) from
  | Err _ => from < 10 /\ k_tab s' = tdel (k_tab s) from
  end.
Proof.
  intros Hs Hb Hf Hm. destruct (move_fd_internal_tab _ _ _ _ _ (conj Hs Hb) Hf Hm) as [_ H]. exact H.
Qed.

Lemma open_internal_lemma s p s' r :
  sorted (k_tab s) -> below_limit (k_lim s) (k_tab s) ->
  open_internal s p = (s', r) ->
  k_lim s' = k_lim s /\
  match r with
  | None => k_tab s' = k_tab s
  | Some fd => 10 <= fd /\ lookup (k_tab s) fd = None
               /\ exists id, k_tab s' = tset (k_tab s) fd (mkEnt id true)
  end.
Proof.
  intros Hs Hb Ho. destruct (open_internal_tab _ _ _ _ (conj Hs Hb) Ho) as [_ H]. exact H.
Qed.

Lemma pipe_lemma s s' res :
  sorted (k_tab s) -> below_limit (k_lim s) (k_tab s) ->
  k_pipe s = (s', res) ->
  k_lim s' = k_lim s /\
  match res with
  | Ok (r, w) =>
      r <> w /\ lookup (k_tab s) r = None /\ lookup (k_tab s) w = None
      /\ exists e1 e2, k_tab s' = tset (tset (k_tab s) r e1) w e2
  | Err _ => k_tab s' = k_tab s
  end.
Proof.
  intros Hs Hb Hp. destruct (k_pipe_tab _ _ _ (conj Hs Hb) Hp) as [_ H]. exact H.
Qed.
