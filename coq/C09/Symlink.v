(* C09 — noclobber and symbolic links.

   The simulated OS does not follow symbolic links in open(2) (known finding F41
   of C19), so this part cannot be tied to the code by the correspondence check
   of Run.v.  It is a self-contained model of redir.rs [open_file_noclobber]
   over POSIX open(2) with links:

     open(name, O_WRONLY|O_CREAT|O_EXCL)  fails with EEXIST if the name exists -
                                          even as a (dangling) symbolic link - and
                                          creates the file otherwise;
     open(name, O_WRONLY)                 follows links; ENOENT for a dangling
                                          link, ELOOP for a cycle, EISDIR for a
                                          directory;
     fstat(fd)                            is about the file that was opened.

   and of the variant that looks at the name instead of the opened file. *)
From Yv Require Import Common.Base.

Inductive lnode :=
| LReg | LFifo | LDev | LDir
| LLink (target : N).          (* names are numbers *)

Definition lfs := N -> option lnode.

Inductive lres :=
| Found (name : N) (n : lnode)   (* n is not a link *)
| Dangling                       (* a link to a name that does not exist *)
| Loop.

(* path resolution of the last component, following links (SYMLOOP_MAX = fuel) *)
Fixpoint lresolve (fuel : nat) (f : lfs) (name : N) : option lres :=
  match f name with
  | None => None                                  (* the name itself does not exist *)
  | Some (LLink t) =>
      match fuel with
      | O => Some Loop
      | S fuel' => match lresolve fuel' f t with
                   | None => Some Dangling
                   | r => r
                   end
      end
  | Some n => Some (Found name n)
  end.

Inductive verdict_nc :=
| Created                        (* the file did not exist and was created *)
| Opened (n : lnode)             (* an existing file that is not regular was opened as it is *)
| Refused.                       (* the redirection fails *)

(* redir.rs open_file_noclobber *)
Definition noclobber_open (fuel : nat) (f : lfs) (name : N) : verdict_nc :=
  match f name with
  | None => Created                                        (* O_EXCL succeeded *)
  | Some _ =>
      (* EEXIST: open it again without O_CREAT, then fstat the descriptor *)
      match lresolve fuel f name with
      | Some (Found _ LDir) => Refused                     (* EISDIR *)
      | Some (Found _ LReg) => Refused                     (* is_regular: close, EEXIST *)
      | Some (Found _ n) => Opened n
      | Some Dangling | Some Loop | None => Refused        (* ENOENT -> EEXIST; ELOOP *)
      end
  end.

(* the variant that examines the name (lstat) instead of the opened file *)
Definition noclobber_open_lstat (fuel : nat) (f : lfs) (name : N) : verdict_nc :=
  match f name with
  | None => Created
  | Some LReg => Refused
  | Some _ =>
      match lresolve fuel f name with
      | Some (Found _ LDir) => Refused
      | Some (Found _ n) => Opened n
      | _ => Refused
      end
  end.

Lemma lresolve_exists fuel f name r : lresolve fuel f name = Some r -> f name <> None.
Proof. intros H E. destruct fuel; cbn in H; rewrite E in H; discriminate. Qed.

Lemma link_noclobber_regular_lemma fuel f name final :
  lresolve fuel f name = Some (Found final LReg) -> noclobber_open fuel f name = Refused.
Proof.
  intros H. unfold noclobber_open. rewrite H.
  pose proof (lresolve_exists _ _ _ _ H). destruct (f name); [reflexivity|congruence].
Qed.

Lemma link_noclobber_special_lemma fuel f name final n :
  lresolve fuel f name = Some (Found final n) -> n = LFifo \/ n = LDev ->
  noclobber_open fuel f name = Opened n.
Proof.
  intros H Hn. unfold noclobber_open. rewrite H.
  pose proof (lresolve_exists _ _ _ _ H). destruct (f name); [|congruence].
  destruct Hn as [-> | ->]; reflexivity.
Qed.

Lemma link_noclobber_other_lemma fuel f name :
  (f name = None -> noclobber_open fuel f name = Created)
  /\ (forall final, lresolve fuel f name = Some (Found final LDir) -> noclobber_open fuel f name = Refused)
  /\ (lresolve fuel f name = Some Dangling -> noclobber_open fuel f name = Refused)
  /\ (lresolve fuel f name = Some Loop -> noclobber_open fuel f name = Refused).
Proof.
  unfold noclobber_open. repeat split.
  - intros ->. reflexivity.
  - intros final H. rewrite H. pose proof (lresolve_exists _ _ _ _ H).
    destruct (f name); [reflexivity|congruence].
  - intros H. rewrite H. pose proof (lresolve_exists _ _ _ _ H).
    destruct (f name); [reflexivity|congruence].
  - intros H. rewrite H. pose proof (lresolve_exists _ _ _ _ H).
    destruct (f name); [reflexivity|congruence].
Qed.

(* name 1 -> name 2 -> name 3, a regular file *)
Definition chain_fs : lfs :=
  fun n => match n with
           | 1%N => Some (LLink 2) | 2%N => Some (LLink 3) | 3%N => Some LReg
           | _ => None
           end.

Lemma link_noclobber_lstat_lemma :
  exists fuel f name final,
    lresolve fuel f name = Some (Found final LReg)
    /\ noclobber_open fuel f name = Refused
    /\ noclobber_open_lstat fuel f name = Opened LReg.
Proof. exists 8%nat, chain_fs, 1%N, 3%N. repeat split. Qed.
