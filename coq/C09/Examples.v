(* C09 — non-vacuity: concrete, non-trivial states that satisfy the hypotheses
   of the implication-shaped theorems of Properties.v. *)
From Yv Require Import Common.Base C09.Kernel C09.Model C09.Spec.

(* -- non-vacuity ------------------------------------------------------------------------------------ *)

(* A process with descriptors 0-2 and 5, a limit of 12, an allocation failure
   injected at the sixth allocation (the descriptor of the here-document); the list  0</3  5>&-  1>/4  2<</  ...:
   the hypotheses hold, three redirections succeed (two descriptors saved at
   10 and 11), the fourth fails. *)
Definition ex_state : kst :=
  mkK [(0, mkEnt 0 false); (1, mkEnt 1 false); (2, mkEnt 2 false); (5, mkEnt 1 false)]%N
      (Some 12%N) [false; false; false; false; false; true] 3%N
      [(2, mkOfd (FPath 2) true true true); (1, mkOfd (FPath 1) true true true);
       (0, mkOfd (FPath 0) true true true)]%N
      [(3, Reg [65; 66] false); (4, Reg [67] false)]%N.

Definition ex_redirs : list redir :=
  [mkRedir 0 (BFile FileIn (PKey 3)); mkRedir 5 (BDup FdOut DClose);
   mkRedir 1 (BFile FileOut (PKey 4)); mkRedir 2 (BHere [104; 10])]%N.

Example hypotheses_satisfiable :
  sorted (k_tab ex_state) /\ below_limit (k_lim ex_state) (k_tab ex_state)
  /\ exists s' stack,
       perform_redirs false ex_state ex_redirs [] = (s', stack, false)
       /\ saves stack = [11; 10]%N
       /\ k_tab s' <> k_tab ex_state
       /\ k_tab (undo_redirs s' stack) = k_tab ex_state.
Proof.
  split; [|split].
  - cbn. repeat split; intros k' H; cbn in H; intuition lia.
  - intros k' H. cbn in H. intuition (subst; reflexivity).
  - eexists. eexists. split; [vm_compute; reflexivity|].
    split; [reflexivity|]. split; [vm_compute; discriminate|vm_compute; reflexivity].
Qed.

Example success_case_satisfiable :
  exists s' stack,
    perform_redirs false (with_lim ex_state None) (firstn 3 ex_redirs ++ [mkRedir 7 (BDup FdIn (DFd 0))]%N) []
    = (s', stack, true) /\ view (k_tab s') 7%N = view (k_tab s') 0%N /\ view (k_tab s') 7%N <> None.
Proof.
  eexists. eexists. split; [vm_compute; reflexivity|]. split; [reflexivity|vm_compute; discriminate].
Qed.

Example noclobber_case_satisfiable :
  fs_get (k_fs ex_state) 4%N = Some (Reg [67]%N false)
  /\ exists s', perform true ex_state (mkRedir 1 (BFile FileOut (PKey 4)))%N = (s', None).
Proof. split; [reflexivity|]. eexists. vm_compute. reflexivity. Qed.

(* progress: no limit, no injected failure, the shell's own descriptors (none
   here) at 10 or above, a portable list the specification accepts *)
Definition ex_free : kst :=
  mkK (k_tab ex_state) None [] (k_next ex_state) (k_ofd ex_state) (k_fs ex_state).

Example progress_case_satisfiable :
  k_lim ex_free = None /\ k_flt ex_free = [] /\ portable ex_redirs = true
  /\ (forall fd e, lookup (k_tab ex_free) fd = Some e -> e_cx e = true -> (10 <= fd)%N)
  /\ spec_redirs (view (k_tab ex_free)) (ofd_get (k_ofd ex_free)) false
                 (mkU [] (k_fs ex_free) (k_next ex_free) []) ex_redirs <> None.
Proof.
  repeat split; try reflexivity; [|vm_compute; discriminate].
  intros fd e H Hc. cbn [lookup k_tab ex_free ex_state] in H.
  repeat (destruct (N.eqb _ fd) in H; [injection H as <-; cbn in Hc; discriminate Hc|]).
  discriminate H.
Qed.

(* a function with redirections whose body holds a redirected command, a
   command whose redirection is refused, and a nested compound command *)
Definition ex_item : item :=
  IGroup KFunction [mkRedir 1 (BFile FileOut (PKey 4)); mkRedir 0 (BDup FdIn DClose)]%N
    [ICmd (mkCmd KRegular [mkRedir 2 (BDup FdOut (DFd 1))]%N);
     ICmd (mkCmd KRegular [mkRedir 0 (BFile FileIn (PKey 9))]%N);
     IGroup KGroup [mkRedir 5 (BHere [104; 10])]%N
       [ICmd (mkCmd KSubshell [mkRedir 5 (BDup FdIn DClose)]%N)]].

Example script_case_satisfiable :
  transient ex_item = true
  /\ exists steps sh',
       run_item (mkSh ex_free false false) ex_item = (steps, sh', false)
       /\ length steps = 7%nat
       /\ k_tab (sh_k sh') = k_tab ex_free.
Proof.
  split; [reflexivity|]. eexists. eexists. split; [vm_compute; reflexivity|].
  split; reflexivity.
Qed.

(* the shell opens a script with a limit of 10: the file is opened at 3, cannot
   be moved to 10 or above, and 3 is closed again; with a limit of 11 it ends
   up at 10 *)
Definition ex_tight (l : N) : kst :=
  mkK (k_tab ex_free) (Some l) [] (k_next ex_free) (k_ofd ex_free) (k_fs ex_free).

Example own_descriptor_cases_satisfiable :
  (exists s', open_internal (ex_tight 10) (PKey 3) = (s', None) /\ k_tab s' = k_tab (ex_tight 10))
  /\ (exists s', open_internal (ex_tight 11) (PKey 3) = (s', Some 10%N))
  /\ (exists s1 s', k_open_cx (ex_tight 10) (PKey 3) = (s1, Ok 3%N)
                    /\ move_fd_internal s1 3 = (s', Err EMFILE) /\ lookup (k_tab s') 3%N = None).
Proof.
  split; [|split].
  - eexists. split; vm_compute; reflexivity.
  - eexists. vm_compute. reflexivity.
  - eexists. eexists. split; [vm_compute; reflexivity|]. split; vm_compute; reflexivity.
Qed.

(* exec with an operand that cannot be invoked, in an interactive shell: the
   shell goes on with the redirection in place *)
Example exec_operand_case_satisfiable :
  exists s' s1 stack,
    perform_redirs false ex_free [mkRedir 7 (BFile FileOut (PKey 4))]%N [] = (s1, stack, true)
    /\ run_cmd false ex_free (mkCmd (KExecFail true) [mkRedir 7 (BFile FileOut (PKey 4))]%N) = (s', None, false)
    /\ lookup (k_tab s') 7%N <> None /\ lookup (k_tab ex_free) 7%N = None.
Proof.
  eexists. eexists. eexists. split; [vm_compute; reflexivity|].
  split; [vm_compute; reflexivity|]. split; [vm_compute; discriminate|reflexivity].
Qed.

(* a script read with `command .` under redirections, whose body holds a command
   with a command substitution *)
Definition ex_dot : item :=
  IDot true [mkRedir 0 (BFile FileIn (PKey 3))]%N (PKey 4)
    [ISubst (mkCmd KRegular [mkRedir 5 (BHere [104; 10])]%N)].

Example dot_case_satisfiable :
  transient ex_dot = true
  /\ (exists steps sh', run_item (mkSh ex_free false false) ex_dot = (steps, sh', false)
                        /\ length steps = 4%nat /\ k_tab (sh_k sh') = k_tab ex_free)
  /\ (exists steps sh', run_item (mkSh (ex_tight 11) false false) ex_dot = (steps, sh', false)
                        /\ length steps = 1%nat /\ k_tab (sh_k sh') = k_tab ex_free).
Proof.
  split; [reflexivity|]. split; eexists; eexists; (split; [vm_compute; reflexivity|]); split; reflexivity.
Qed.

(* three commands, descriptors 0 1 2 (and 5) open, a limit of 6: the second pipe
   cannot be made; the parent's table is nevertheless the one before *)
Example pipeline_failure_case_satisfiable :
  exists s' children,
    run_pipeline (ex_tight 6) 3 = (s', children, false)
    /\ length children = 1%nat /\ k_tab s' = k_tab (ex_tight 6).
Proof. eexists. eexists. split; [vm_compute; reflexivity|]. split; reflexivity. Qed.
