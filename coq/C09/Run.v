(* C09 — what the correspondence check evaluates on every case. *)
From Yv Require Export Common.Base C09.Kernel C09.Model C09.Spec C09.Symlink.

(* One case: the files that exist when the shell starts, the items of the
   script, the observation made before the first item and the steps observed, in
   execution order: one per command / limit change / option change that was
   executed; for a compound command with a body, one when the body starts (or
   one when its redirections are refused), the steps of the body, and one after
   the command.  The script stops when the shell exits; the last step then
   shows the state the shell exits with. *)
Definition script_case := (fsys * list item * obs * list step)%type.

(* A second, small kind of case, run by the real binary on the real OS (the
   simulated OS does not follow symbolic links): a directory of names (regular
   files, FIFOs, a device, directories, symbolic links), the name that
   `set -C; { :; } > name` was applied to, and what was observed. *)
Definition link_case := (list (N * lnode) * N * verdict_nc)%type.

Definition case := (script_case + link_case)%type.

(* ---- oracle over the whole script (implementation's observations only) ---- *)

Definition table_below (lim : option N) (t : table) : bool :=
  forallb (fun k => in_limit lim k) (keys t).

(* what the oracle carries along the script *)
Record ost := mkO { o_nc : bool; o_lim : option N; o_before : obs }.

Inductive ores :=
| OBad (v : verdict)                      (* a clause is violated (or the case is malformed: 99) *)
| OStop                                   (* the trace ends here: the shell exited *)
| OCont (st : ost) (rest : list step).    (* accepted so far *)

Fixpoint has_exec (i : item) : bool :=
  match i with
  | ICmd c | ISubst c => exec_like (c_kind c)
  | IGroup _ _ body | IDot _ _ _ body => existsb has_exec body
  | IPipe _ | IStartup _ | ILimit _ | INoclobber _ | IErrexit _ => false
  end.

(* the table an exiting command must leave behind: the one before the command
   itself (top level), the one before the outermost enclosing compound command,
   or unknown (an exec in an enclosing body may have changed it for good) *)
Inductive oref := RSelf | RObs (o : obs) | RNone.

Definition exit_ref (outer : oref) (before : obs) (s1 : step) : obs :=
  if st_exit s1
  then match outer with RSelf => before | RObs o => o | RNone => st_after s1 end
  else before.

(* the steps of the children of a pipeline of n commands, from the k-th on:
   m steps are consumed *)
Fixpoint pipe_walk (before : obs) (n k m : nat) (sts : list step) : option (list step) :=
  match m with
  | O => Some sts
  | S m' =>
      match sts with
      | [] => None
      | s :: rest =>
          if match st_inside s with
             | Some ch => child_ok before ch (Nat.ltb 1 k) (Nat.ltb k n)
             | None => true
             end
          then pipe_walk before n (S k) m' rest
          else None
      end
  end.

Fixpoint oracle_item (outer : oref) (st : ost) (i : item) (sts : list step) : ores :=
  match sts with
  | [] => OBad 99%N
  | s1 :: rest =>
      let before := o_before st in
      let ref := exit_ref outer before s1 in
      let go_on := OCont (mkO (o_nc st) (o_lim st) (st_after s1)) rest in
      if negb (table_below (o_lim st) (ob_tab before)) then OBad 99%N
      else
      match i with
      | ICmd c =>
          match oracle_cmd (o_nc st) (o_lim st) ref before c s1 with
          | Some k => OBad (2 + k)%N
          | None => if st_exit s1 then OStop else go_on
          end
      | ILimit l =>
          if negb (restored (ob_tab before) (ob_tab (st_after s1))) then OBad 2%N
          else OCont (mkO (o_nc st) l (st_after s1)) rest
      | INoclobber b =>
          if negb (restored (ob_tab before) (ob_tab (st_after s1))) then OBad 2%N
          else OCont (mkO b (o_lim st) (st_after s1)) rest
      | IErrexit _ =>
          (* when the shell exits is not the oracle's business; the table it
             exits with is *)
          if negb (restored (ob_tab before) (ob_tab (st_after s1))) then OBad 2%N else go_on
      | IStartup _ =>
          (* the script is opened: one new internal descriptor, or - if that
             fails - nothing at all *)
          if st_exit s1 then
            if restored (ob_tab before) (ob_tab (st_after s1)) then OStop else OBad 2%N
          else if internal_ok [] (ob_tab before) (ob_tab (st_after s1)) then go_on else OBad 4%N
      | ISubst c =>
          match st_inside s1, st_exit s1 with
          | None, true =>
              (* the pipe could not be made: expansion error *)
              if restored (ob_tab ref) (ob_tab (st_after s1)) then OStop else OBad 2%N
          | ch, _ =>
              if match ch with Some o => child_ok before o false true | None => true end then
                match rest with
                | [] => OBad 99%N
                | s2 :: rest' =>
                    match oracle_cmd (o_nc st) (o_lim st) (exit_ref outer before s2) before c s2 with
                    | Some k => OBad (2 + k)%N
                    | None => if st_exit s2 then OStop
                              else OCont (mkO (o_nc st) (o_lim st) (st_after s2)) rest'
                    end
                end
              else OBad 10%N
          end
      | IPipe n =>
          let m := if st_exit s1 then length sts else n in
          match pipe_walk before n 1 m sts with
          | None => OBad 10%N
          | Some rest' =>
              if negb (restored (ob_tab ref) (ob_tab (st_after s1))) then OBad 2%N
              else if st_exit s1 then OStop
              else OCont (mkO (o_nc st) (o_lim st) (st_after s1)) rest'
          end
      | IGroup _ rs body | IDot _ rs _ body =>
          match st_inside s1 with
          | None =>
              (* the redirections were refused or the script could not be
                 opened: the body does not run *)
              match oracle_table ref before (mkCmd KGroup rs) s1 with
              | Some v => OBad (2 + v)%N
              | None =>
                  match (match i with
                         | IGroup _ _ _ => oracle_seen (o_nc st) (o_lim st) ref before (mkCmd KGroup rs) s1
                         | _ => None
                         end) with
                  | Some v => OBad (2 + v)%N
                  | None => if st_exit s1 then OStop else go_on
                  end
              end
          | Some bstart =>
              match oracle_seen (o_nc st) (o_lim st) before before (mkCmd KGroup rs) s1 with
              | Some v => OBad (2 + v)%N
              | None =>
                  let outer' := if existsb has_exec body then RNone
                                else match outer with RSelf => RObs before | x => x end in
                  let run_list :=
                    fix run_list (st : ost) (l : list item) (sts : list step) : ores :=
                      match l with
                      | [] => OCont st sts
                      | x :: l' =>
                          match oracle_item outer' st x sts with
                          | OCont st' sts' => run_list st' l' sts'
                          | r => r
                          end
                      end in
                  match run_list (mkO (o_nc st) (o_lim st) bstart) body rest with
                  | OCont st' (p :: rest') =>
                      (* the command is over: restored, unless something in
                         the body was meant to persist *)
                      if negb (existsb has_exec body)
                         && negb (restored (ob_tab before) (ob_tab (st_after p)))
                      then OBad 2%N
                      else OCont (mkO (o_nc st') (o_lim st') (st_after p)) rest'
                  | OCont _ [] => OBad 99%N
                  | r => r
                  end
              end
          end
      end
  end.

Fixpoint oracle_steps (st : ost) (is : list item) (sts : list step) : verdict :=
  match is with
  | [] => match sts with [] => 0%N | _ => 99%N end
  | i :: is' =>
      match oracle_item RSelf st i sts with
      | OBad v => v
      | OStop => 0%N
      | OCont st' sts' => oracle_steps st' is' sts'
      end
  end.

(* ---- model = implementation, up to the names of the descriptions ---------- *)

Definition ren := list (N * N).    (* model id, implementation label *)

Definition ren_rel (m : ren) (x y : N) : option ren :=
  match ren_get m x with
  | Some y' => if N.eqb y y' then Some m else None
  | None => if ren_has_image m y then None else Some ((x, y) :: m)
  end.

Definition attr_match (a b : ofd) : bool :=
  match o_file a, o_file b with
  | FAnonDirty, FAnon _ _ => Bool.eqb (o_r a) (o_r b) && Bool.eqb (o_w a) (o_w b) && Bool.eqb (o_app a) (o_app b)
  | _, _ => ofd_eqb a b
  end.

Fixpoint cmp_tab (m : ren) (s : kst) (o : obs) (t1 t2 : table) : option ren :=
  match t1, t2 with
  | [], [] => Some m
  | (k1, e1) :: t1', (k2, e2) :: t2' =>
      if N.eqb k1 k2 && Bool.eqb (e_cx e1) (e_cx e2) then
        match ren_rel m (e_ofd e1) (e_ofd e2) with
        | Some m' =>
            match ofd_get (k_ofd s) (e_ofd e1), ofd_get (ob_ofd o) (e_ofd e2) with
            | Some a, Some b => if attr_match a b then cmp_tab m' s o t1' t2' else None
            | _, _ => None
            end
        | None => None
        end
      else None
  | _, _ => None
  end.

Definition node_match (model : option fnode) (impl : option fnode) : bool :=
  match model, impl with
  | None, None => true
  | Some (Reg c dirty), Some (Reg c' _) => dirty || str_eqb c c'
  | Some Dir, Some Dir => true
  | _, _ => false
  end.

Definition cmp_obs (m : ren) (s : kst) (o : obs) : option ren :=
  if forallb (fun p : N * option fnode => node_match (fs_get (k_fs s) (fst p)) (snd p)) (ob_fs o)
  then cmp_tab m s o (k_tab s) (ob_tab o)
  else None.

Fixpoint cmp_steps (m : ren) (ms : list (option kst * kst * bool)) (sts : list step) : bool :=
  match ms, sts with
  | [], [] => true
  | (mi, ma, mx) :: ms', st :: sts' =>
      let m1 :=
        match mi, st_inside st with
        | None, None => Some m
        | Some s, Some o => cmp_obs m s o
        | _, _ => None
        end in
      match m1 with
      | None => false
      | Some m1 =>
          match cmp_obs m1 ma (st_after st) with
          | Some m2 => Bool.eqb mx (st_exit st) && cmp_steps m2 ms' sts'
          | None => false
          end
      end
  | _, _ => false
  end.

(* The process the script starts in is read off the first observation: the
   shell may hold descriptors of its own from the start (the script file it
   reads, at 10 or above). *)
Definition kst_of_obs (files : fsys) (o : obs) : kst :=
  mkK (ob_tab o) None [] (max_id o + 1) (ob_ofd o)
      ((0, Reg [] true) :: (1, Reg [] true) :: (2, Reg [] true) :: files)%N.

(* ... and must be a table in which the user's descriptors are below 10 and
   visible, and the shell's own are at 10 or above with close-on-exec *)
Definition initial_ok (o : obs) : bool :=
  forallb (fun p : N * fdent => if e_cx (snd p) then N.leb 10 (fst p) else N.ltb (fst p) 10) (ob_tab o).

Definition lfs_of (l : list (N * lnode)) : lfs :=
  fun n => match find (fun p : N * lnode => N.eqb (fst p) n) l with
           | Some p => Some (snd p)
           | None => None
           end.

Definition lnode_eqb (a b : lnode) : bool :=
  match a, b with
  | LReg, LReg | LFifo, LFifo | LDev, LDev | LDir, LDir => true
  | LLink x, LLink y => N.eqb x y
  | _, _ => false
  end.

Definition verdict_nc_eqb (a b : verdict_nc) : bool :=
  match a, b with
  | Created, Created | Refused, Refused => true
  | Opened x, Opened y => lnode_eqb x y
  | _, _ => false
  end.

(* Linux follows at most 40 links; the generated chains are much shorter *)
Definition run_link_case (c : link_case) : verdict :=
  let '(l, name, observed) := c in
  if verdict_nc_eqb (noclobber_open 40 (lfs_of l) name) observed then 0%N else 11%N.

Definition run_script_case (c : script_case) : verdict :=
  let '(files, items, o0, sts) := c in
  (* oracle first: evaluated on the implementation's observations only *)
  match (if initial_ok o0 then oracle_steps (mkO false None o0) items sts else 9%N) with
  | 0%N =>
      let s0 := kst_of_obs files o0 in
      match cmp_obs [] s0 o0 with
      | None => 1%N
      | Some m =>
          if cmp_steps m (run_script (mkSh s0 false false) items) sts then 0%N else 1%N
      end
  | v => v
  end.

Definition run_case (c : case) : verdict :=
  match c with
  | inl sc => run_script_case sc
  | inr lc => run_link_case lc
  end.

Definition run_cases := run_cases_with run_case.
