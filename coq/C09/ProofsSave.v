(* C09 — the saving step of [perform] (redir.rs: dup(target, MIN_INTERNAL_FD,
   CLOEXEC)) as a failure point of its own.

   - when the target is open and no descriptor can be allocated for its backup,
     [perform] refuses the redirection and changes nothing; a command with such
     a redirection does not run, and the shell goes on with the table intact;
   - a record without a backup is made only for a target that was closed, so
     the undo closes only descriptors that were closed before;
   - while a command runs, every target that was open before has a backup on
     the very description it had (soundness of oracle clause B);
   - the lenient variant (any failure of the saving dup taken as "the target is
     not open") is refuted: the undo closes a descriptor of the user's. *)
From Yv Require Import Common.Base C09.Kernel C09.Model C09.Spec
  C09.ProofsTab C09.ProofsList C09.ProofsSpec.

Local Open Scope N_scope.

(* ---- the saving dup fails ------------------------------------------------- *)

Lemma save_failure_refuses_lemma nc s r en s1 e :
  lookup (k_tab s) (r_fd r) = Some en -> e_cx en = false ->
  alloc_fd s MIN_INTERNAL_FD (mkEnt (e_ofd en) true) = (s1, Err e) ->
  perform nc s r = (s1, None) /\ k_tab s1 = k_tab s /\ k_fs s1 = k_fs s.
Proof.
  intros Hl Hcx Ha. pose proof (alloc_fd_err _ _ _ _ _ Ha) as [Et [[_ [_ [_ Efs]]] ->]].
  unfold perform, k_cloexec, k_dup. rewrite Hl, Hcx, Ha. auto.
Qed.

(* the limit alone (no injected failure): no free slot at 10 or above *)
Lemma alloc_fd_limit s min v :
  k_flt s = [] -> in_limit (k_lim s) (min_unused min (k_tab s)) = false ->
  alloc_fd s min v = (s, Err EMFILE).
Proof.
  intros Hf Hl. unfold alloc_fd, take_fault. rewrite Hf. cbv zeta. rewrite Hl. reflexivity.
Qed.

Lemma no_backup_slot_refuses_lemma nc s r en :
  lookup (k_tab s) (r_fd r) = Some en -> e_cx en = false ->
  k_flt s = [] -> in_limit (k_lim s) (min_unused MIN_INTERNAL_FD (k_tab s)) = false ->
  perform nc s r = (s, None).
Proof.
  intros Hl Hcx Hf Hlim.
  destruct (save_failure_refuses_lemma nc s r en s EMFILE Hl Hcx (alloc_fd_limit _ _ _ Hf Hlim)) as [H _].
  exact H.
Qed.

(* the trigger: `ulimit -n 10; echo x >file; echo still-here` *)
Lemma command_refused_lemma nc s c r rs en s' inside ex :
  c_redirs c = r :: rs ->
  lookup (k_tab s) (r_fd r) = Some en -> e_cx en = false ->
  k_flt s = [] -> in_limit (k_lim s) (min_unused MIN_INTERNAL_FD (k_tab s)) = false ->
  match c_kind c with KRegular | KFunction | KGroup | KSubshell | KNotFound => True | _ => False end ->
  run_cmd nc s c = (s', inside, ex) ->
  inside = None /\ ex = false /\ k_tab s' = k_tab s /\ k_lim s' = k_lim s.
Proof.
  intros Hc Hl Hcx Hf Hlim Hk. unfold run_cmd. rewrite Hc. cbn [perform_redirs].
  rewrite (no_backup_slot_refuses_lemma nc s r en Hl Hcx Hf Hlim).
  pose proof (stderr_write_tab s) as [Et El].
  destruct (c_kind c); try contradiction; intros E; injection E as <- <- <-;
    (split; [reflexivity|]; split; [reflexivity|]); cbn; rewrite ?Et, ?El; split; reflexivity.
Qed.

(* ---- a record without a backup only for a closed target ----------------------- *)

Lemma backup_iff_open_lemma nc s r s' n save :
  sorted (k_tab s) -> below_limit (k_lim s) (k_tab s) ->
  perform nc s r = (s', Some (n, save)) ->
  n = r_fd r /\
  match save with
  | None => lookup (k_tab s) n = None
  | Some sv =>
      exists en, lookup (k_tab s) n = Some en /\ e_cx en = false
                 /\ lookup (k_tab s) sv = None /\ 10 <= sv /\ sv <> n
                 /\ lookup (k_tab s') sv = Some (mkEnt (e_ofd en) true)
  end.
Proof.
  intros Hs Hb Hp. apply perform_step in Hp; [|split; assumption].
  destruct Hp as [_ [_ [Hn [_ [v [_ Hsave]]]]]]. split; [exact Hn|].
  destruct save as [sv|].
  - destruct Hsave as [en [A [B [C [D [E Hupd]]]]]]. exists en. repeat split; try assumption.
    rewrite Hupd. destruct (N.eqb_spec sv n); [congruence|].
    rewrite lookup_tset, N.eqb_refl. reflexivity.
  - tauto.
Qed.

(* every record (orig, None) on the stack is for a descriptor that was closed
   when it was redirected for the first time ... in particular: *)
Lemma undo_closes_only_closed_lemma nc s r s' n :
  sorted (k_tab s) -> below_limit (k_lim s) (k_tab s) ->
  perform nc s r = (s', Some (n, None)) ->
  lookup (k_tab s) n = None /\ lookup (undo_one (k_lim s') (k_tab s') (n, None)) n = lookup (k_tab s) n.
Proof.
  intros Hs Hb Hp. pose proof (backup_iff_open_lemma _ _ _ _ _ _ Hs Hb Hp) as [_ Hc].
  split; [exact Hc|]. rewrite Hc. cbn [undo_one].
  apply perform_step in Hp; [|split; assumption]. destruct Hp as [[Hs' _] _].
  rewrite (upd_tdel _ n Hs'). rewrite N.eqb_refl. reflexivity.
Qed.

(* ---- backups while the command runs -------------------------------------------- *)

Definition has_backup (t : table) (e : fdent) : Prop :=
  exists x ex, lookup t x = Some ex /\ 10 <= x /\ e_cx ex = true /\ e_ofd ex = e_ofd e.

Record binv (t0 t : table) (stack : list saved) : Prop := mkBinv {
  (* a descriptor is a recorded target, a backup, or as it was *)
  b_cover : forall fd, (exists sv, In (fd, sv) stack) \/ In fd (saves stack) \/ lookup t fd = lookup t0 fd;
  b_cx : forall fd, In fd (saves stack) -> exists ex, lookup t fd = Some ex /\ e_cx ex = true;
  b_backup : forall fd sv e, In (fd, sv) stack -> lookup t0 fd = Some e -> has_backup t e
}.

Lemma binv_init t0 : binv t0 t0 [].
Proof.
  split.
  - intros fd. right. right. reflexivity.
  - intros fd [].
  - intros fd sv e [].
Qed.

Lemma saves_cons_eq n save stack :
  saves ((n, save) :: stack) = match save with Some x => [x] | None => [] end ++ saves stack.
Proof. reflexivity. Qed.

Lemma binv_step nc t0 s r s' n save stack :
  wf s -> binv t0 (k_tab s) stack ->
  perform nc s r = (s', Some (n, save)) ->
  binv t0 (k_tab s') ((n, save) :: stack).
Proof.
  intros Hwf [Hcov Hcx Hbk] Hp. apply perform_step in Hp; [|assumption].
  destruct Hp as [_ [_ [_ [Hncx [v [_ Hsave]]]]]].
  assert (~ In n (saves stack)) as Hn_nosave.
  { intros Hin. destruct (Hcx n Hin) as [ex [He Hce]].
    unfold k_cloexec in Hncx. rewrite He in Hncx. congruence. }
  (* entries that are close-on-exec survive the step *)
  assert (forall x ex, lookup (k_tab s) x = Some ex -> e_cx ex = true ->
                       lookup (k_tab s') x = Some ex) as Hkeep.
  { intros x ex Hx Hxc.
    assert (x <> n) as Hxn.
    { intros ->. unfold k_cloexec in Hncx. rewrite Hx in Hncx. congruence. }
    destruct save as [sv|].
    - destruct Hsave as [en [_ [_ [Hfresh [_ [_ Hupd]]]]]].
      rewrite Hupd. destruct (N.eqb_spec x n); [congruence|].
      rewrite lookup_tset. destruct (N.eqb_spec sv x); [congruence|exact Hx].
    - destruct Hsave as [_ Hupd]. rewrite Hupd.
      destruct (N.eqb_spec x n); [congruence|exact Hx]. }
  assert (forall e, has_backup (k_tab s) e -> has_backup (k_tab s') e) as Hbk_keep.
  { intros e [x [ex [A [B [C D]]]]]. exists x, ex. repeat split; try assumption.
    apply Hkeep; assumption. }
  split.
  - (* cover *)
    intros fd. destruct (N.eq_dec fd n) as [->|Hne].
    { left. exists save. left. reflexivity. }
    rewrite saves_cons_eq.
    destruct save as [sv|].
    + destruct Hsave as [en [_ [_ [_ [_ [_ Hupd]]]]]].
      destruct (N.eq_dec fd sv) as [->|Hne2].
      { right. left. left. reflexivity. }
      destruct (Hcov fd) as [[sv0 H]|[H|H]].
      * left. exists sv0. right. exact H.
      * right. left. right. exact H.
      * right. right. rewrite Hupd. destruct (N.eqb_spec fd n); [congruence|].
        rewrite lookup_tset. destruct (N.eqb_spec sv fd); [congruence|exact H].
    + destruct Hsave as [_ Hupd].
      destruct (Hcov fd) as [[sv0 H]|[H|H]].
      * left. exists sv0. right. exact H.
      * right. left. exact H.
      * right. right. rewrite Hupd. destruct (N.eqb_spec fd n); [congruence|exact H].
  - (* backups are close-on-exec *)
    intros fd. rewrite saves_cons_eq. intros Hin. apply in_app_or in Hin. destruct Hin as [Hin|Hin].
    + destruct save as [sv|]; [|destruct Hin].
      destruct Hin as [<-|[]].
      destruct Hsave as [en [_ [_ [_ [_ [Hne Hupd]]]]]].
      exists (mkEnt (e_ofd en) true). split; [|reflexivity].
      rewrite Hupd. destruct (N.eqb_spec sv n); [congruence|].
      rewrite lookup_tset, N.eqb_refl. reflexivity.
    + destruct (Hcx fd Hin) as [ex [A B]]. exists ex. split; [apply Hkeep; assumption|exact B].
  - (* every recorded target that was open at the beginning has a backup *)
    intros fd sv0 e Hin Hl0. destruct Hin as [Heq|Hin].
    + injection Heq as <- <-.
      destruct (Hcov n) as [[sv1 H]|[H|H]].
      * apply Hbk_keep. eapply Hbk; eassumption.
      * contradiction.
      * rewrite Hl0 in H. destruct save as [sv|].
        -- destruct Hsave as [en [Hln [_ [_ [Hge [Hne Hupd]]]]]].
           assert (en = e) as -> by congruence.
           exists sv, (mkEnt (e_ofd e) true). repeat split; try assumption.
           rewrite Hupd. destruct (N.eqb_spec sv n); [congruence|].
           rewrite lookup_tset, N.eqb_refl. reflexivity.
        -- destruct Hsave as [Hln _]. congruence.
    + apply Hbk_keep. eapply Hbk; eassumption.
Qed.

Lemma perform_redirs_binv nc t0 rs :
  forall s stack s' stack' ok,
    wf s -> binv t0 (k_tab s) stack ->
    perform_redirs nc s rs stack = (s', stack', ok) ->
    binv t0 (k_tab s') stack'.
Proof.
  induction rs as [|r rs IH]; intros s stack s' stack' ok Hwf Hb; cbn [perform_redirs].
  - intros E. injection E as <- <- <-. exact Hb.
  - destruct (perform nc s r) as [s1 [[n save]|]] eqn:Hp.
    + pose proof (perform_step _ _ _ _ _ Hwf Hp) as [Hwf1 _].
      intros Hrs. eapply IH; [exact Hwf1| |exact Hrs].
      exact (binv_step _ _ _ _ _ _ _ _ Hwf Hb Hp).
    + pose proof (perform_step _ _ _ _ _ Hwf Hp) as [_ [_ Et]].
      intros E. injection E as <- <- <-. rewrite Et. exact Hb.
Qed.

Lemma lookup_In t k v : lookup t k = Some v -> In (k, v) t.
Proof.
  induction t as [|[k' v'] t IH]; cbn; [discriminate|].
  destruct (N.eqb_spec k' k) as [->|_].
  - intros E. injection E as ->. left. reflexivity.
  - intros H. right. apply IH. exact H.
Qed.

Lemma backups_while_running_lemma nc s rs s' stack fd e :
  sorted (k_tab s) -> below_limit (k_lim s) (k_tab s) ->
  perform_redirs nc s rs [] = (s', stack, true) ->
  In fd (targets rs) -> lookup (k_tab s) fd = Some e ->
  exists sv esv, lookup (k_tab s') sv = Some esv /\ 10 <= sv /\ e_cx esv = true /\ e_ofd esv = e_ofd e.
Proof.
  intros Hs Hb Hp Hin Hl.
  pose proof (perform_redirs_binv _ _ _ _ _ _ _ _ (conj Hs Hb) (binv_init (k_tab s)) Hp) as [_ _ Hbk].
  destruct (perform_redirs_done _ _ _ _ _ _ Hp fd Hin) as [sv Hst].
  exact (Hbk fd sv e Hst Hl).
Qed.

Lemma oracle_backup_sound_lemma nc s c s' si ex :
  sorted (k_tab s) -> below_limit (k_lim s) (k_tab s) ->
  c_kind c <> KAsync ->
  run_cmd nc s c = (s', Some si, ex) ->
  backup_ok (targets (c_redirs c)) (k_tab s) (k_tab si) = true.
Proof.
  intros Hs Hb Hk Hr. apply run_cmd_inside in Hr; [|exact Hk]. destruct Hr as [stack Hp].
  unfold backup_ok. apply forallb_forall. intros fd Hin.
  destruct (lookup (k_tab s) fd) as [e|] eqn:Hl; [|reflexivity].
  destruct (backups_while_running_lemma _ _ _ _ _ _ _ Hs Hb Hp Hin Hl) as [sv [esv [A [B [C D]]]]].
  apply existsb_exists. exists (sv, esv). split; [apply lookup_In; exact A|].
  cbn [fst snd]. rewrite C, D, N.eqb_refl. apply N.leb_le in B. rewrite B. reflexivity.
Qed.

(* ---- the lenient variant is refuted ---------------------------------------------- *)

(* [perform] with every failure of the saving dup taken as "nothing to save" *)
Definition perform_lenient (nc : bool) (s : kst) (r : redir) : kst * option saved :=
  let target := r_fd r in
  if k_cloexec s target then (s, None)
  else
    let go (s1 : kst) (save : option N) :=
      match apply nc s1 r with
      | (s2, true) => (s2, Some (target, save))
      | (s2, false) => (close_opt s2 save, None)
      end in
    match k_dup s target MIN_INTERNAL_FD true with
    | (s1, Ok sv) => go s1 (Some sv)
    | (s1, Err _) => go s1 None
    end.

(* descriptors 0 1 2 open, descriptor limit 10, /b a regular file *)
Definition lenient_witness : kst :=
  mkK [(0, mkEnt 0 false); (1, mkEnt 1 false); (2, mkEnt 2 false)] (Some 10) [] 3
      [(2, mkOfd (FPath 2) true true false); (1, mkOfd (FPath 1) true true false);
       (0, mkOfd (FPath 0) true true false)]
      [(4, Reg [66; 66] false)].

Lemma lenient_save_refuted_lemma :
  exists nc s r s' sv,
    sorted (k_tab s) /\ below_limit (k_lim s) (k_tab s) /\ k_flt s = [] /\
    perform_lenient nc s r = (s', Some sv) /\
    lookup (k_tab s) 1 <> None /\
    lookup (k_tab (undo_redirs s' [sv])) 1 = None /\
    perform nc s r = (s, None).
Proof.
  exists false, lenient_witness, (mkRedir 1 (BFile FileOut (PKey 4))).
  eexists. eexists.
  split; [cbn; repeat split; intros k' H; cbn in H; intuition lia|].
  split; [intros k H; cbn in H; intuition (subst; reflexivity)|].
  split; [reflexivity|].
  split; [vm_compute; reflexivity|].
  split; [vm_compute; discriminate|].
  split; vm_compute; reflexivity.
Qed.

(* non-vacuity of command_refused_lemma: the witness satisfies its hypotheses
   (descriptor 1 open and visible, no injected failure, no slot at 10 or
   above), and this is what the command does *)
Example command_refused_example :
  exists s', run_cmd false lenient_witness (mkCmd KRegular [mkRedir 1 (BFile FileOut (PKey 4))])
             = (s', None, false) /\ k_tab s' = k_tab lenient_witness
  /\ in_limit (k_lim lenient_witness) (min_unused MIN_INTERNAL_FD (k_tab lenient_witness)) = false.
Proof. eexists. split; [vm_compute; reflexivity|]. split; vm_compute; reflexivity. Qed.
