(* C06 — proofs, part 9: basic facts for the word-level round trip: line
   continuations at the head of a text, names, backquotes. *)
From Yv Require Import Common.Base C06.Ast C06.Print C06.Lex C06.SpecLex C06.LexEq C06.ProofsLen
  C06.ProofsStop C06.ProofsTilde.
Local Open Scope N_scope.


Lemma nolc_nil : nolc [].
Proof. reflexivity. Qed.

Lemma nolc_cons c z : (c =? c_bslash) = false -> nolc (c :: z).
Proof. intros H. apply skip_lc_nonbslash. exact H. Qed.

Lemma nolc_bslash c z : (c =? c_nl) = false -> nolc (c_bslash :: c :: z).
Proof.
  intros H. unfold nolc. cbn [skip_lc]. rewrite H. rewrite Bool.andb_false_r. reflexivity.
Qed.

Lemma nolc_skip_lc s : nolc (skip_lc s).
Proof. apply skip_lc_idem. Qed.

(* what [skip_lc] leaves at the head is not a line continuation *)
Lemma skip_lc_head s c1 c2 t :
  skip_lc s = c1 :: c2 :: t -> (c1 =? c_bslash) && (c2 =? c_nl) = false.
Proof.
  intros H. pose proof (skip_lc_idem s) as I. rewrite H in I. cbn [skip_lc] in I.
  destruct ((c1 =? c_bslash) && (c2 =? c_nl)) eqn:E; [|reflexivity].
  exfalso. pose proof (skip_lc_len t) as L. rewrite I in L. cbn [length] in L. lia.
Qed.

Lemma skip_lc_bslash_next s c2 t :
  skip_lc s = c_bslash :: c2 :: t -> (c2 =? c_nl) = false.
Proof. intros H. apply skip_lc_head in H. exact H. Qed.

(* ---- names ------------------------------------------------------------------------------ *)

Lemma lex_name_spec f s n r :
  lex_name f s = (n, r) -> (len s <= f)%nat ->
  forallb is_name_char n = true /\ nolc r /\
  match r with c :: _ => is_name_char c = false | [] => True end.
Proof.
  revert s n r. induction f as [|f IH]; intros s n r H Hf; cbn [lex_name] in H.
  - inv H. destruct s; [|cbn in Hf; lia]. cbn. auto using nolc_nil.
  - pose proof (skip_lc_len s) as L. destruct (skip_lc s) as [|c s'] eqn:E.
    + inv H. cbn. auto using nolc_nil.
    + destruct (is_name_char c) eqn:Ec.
      * destruct (lex_name f s') as [n' r'] eqn:E'. inv H. cbn [length] in L.
        destruct (IH _ _ _ E' ltac:(lia)) as (A & B & C). cbn [forallb]. rewrite Ec. auto.
      * inv H. cbn [forallb]. repeat split; auto. rewrite <- E. apply nolc_skip_lc.
Qed.

Lemma name_char_not_bslash c : is_name_char c = true -> (c =? c_bslash) = false.
Proof.
  unfold is_name_char, is_digit, in_range, c_bslash. intros H.
  apply N.eqb_neq. intros ->. cbn in H. discriminate.
Qed.

(* reading a printed name back: name characters followed by a text that does
   not continue the name *)
Lemma lex_name_print n z f :
  forallb is_name_char n = true -> nolc z ->
  match z with c :: _ => is_name_char c = false | [] => True end ->
  (length n <= f)%nat ->
  lex_name f (n ++ z) = (n, z).
Proof.
  revert f. induction n as [|c n IH]; intros f Hn Hz Hh Hf.
  - destruct f as [|f]; cbn [app lex_name]; rewrite Hz; [reflexivity|].
    destruct z as [|c z']; [reflexivity|]. rewrite Hh. reflexivity.
  - destruct f as [|f]; [cbn in Hf; lia|]. cbn [forallb] in Hn. apply andb_prop in Hn.
    destruct Hn as [Hc Hn]. cbn [app lex_name].
    rewrite (skip_lc_nonbslash _ _ (name_char_not_bslash _ Hc)). rewrite Hc.
    rewrite (IH f Hn Hz Hh ltac:(cbn [length] in Hf; lia)). reflexivity.
Qed.

(* ---- backquotes ---------------------------------------------------------------------------- *)

(* what the lexer produces between backquotes *)
Fixpoint bq_wf (cx : ctx) (us : list bq_unit) : Prop :=
  match us with
  | [] => True
  | BqBackslashed c :: us' => bq_escapable cx c = true /\ bq_wf cx us'
  | BqLiteral c :: us' =>
      (c =? c_bq) = false /\ bq_wf cx us' /\
      ((c =? c_bslash) = true ->
       match us' with
       | BqLiteral c2 :: _ => bq_escapable cx c2 = false /\ (c2 =? c_nl) = false
       | _ => False
       end)
  end.

Lemma bq_escapable_not_nl cx c : bq_escapable cx c = true -> (c =? c_nl) = false.
Proof.
  unfold bq_escapable, c_dollar, c_bq, c_bslash, c_dq, c_nl. intros H.
  apply N.eqb_neq. intros ->. cbn in H. destruct cx; discriminate.
Qed.

Lemma lex_bq_wf f cx s us r :
  lex_bq f cx s = Ok (us, r) ->
  (r = [] \/ exists r', r = c_bq :: r') /\ (r <> [] -> bq_wf cx us).
Proof.
  revert s us r. induction f as [|f IH]; intros s us r H; cbn [lex_bq] in H; [discriminate|].
  unfold bind in H. destruct (skip_lc s) as [|c s1] eqn:E.
  { inv H. split; [auto | congruence]. }
  destruct (c =? c_bslash) eqn:Eb.
  - destruct s1 as [|c2 s2].
    { inv H. split; [auto | congruence]. }
    destruct (bq_escapable cx c2) eqn:Ee.
    + destruct (lex_bq f cx s2) as [[us' r']| | | |] eqn:E'; try discriminate. inv H.
      destruct (IH _ _ _ E') as [A B]. split; [exact A|]. intros Hr. cbn [bq_wf]. auto.
    + destruct (lex_bq f cx (c2 :: s2)) as [[us' r']| | | |] eqn:E'; try discriminate. inv H.
      destruct (IH _ _ _ E') as [A B]. split; [exact A|]. intros Hr. specialize (B Hr).
      cbn [bq_wf]. apply N.eqb_eq in Eb. subst c. repeat split; auto.
      intros _.
      (* the next unit is the literal c2 *)
      apply N.eqb_eq in Eb || idtac.
      destruct f as [|f]; [discriminate|]. cbn [lex_bq] in E'. unfold bind in E'.
      assert (Hc2 : (c2 =? c_bslash) = false).
      { unfold bq_escapable in Ee. apply Bool.orb_false_iff in Ee. destruct Ee as [Ee _].
        apply Bool.orb_false_iff in Ee. destruct Ee as [_ Ee]. exact Ee. }
      rewrite (skip_lc_nonbslash _ _ Hc2) in E'. rewrite Hc2 in E'.
      assert (Hc2q : (c2 =? c_bq) = false).
      { unfold bq_escapable in Ee. apply Bool.orb_false_iff in Ee. destruct Ee as [Ee _].
        apply Bool.orb_false_iff in Ee. destruct Ee as [Ee _].
        apply Bool.orb_false_iff in Ee. destruct Ee as [_ Ee]. exact Ee. }
      rewrite Hc2q in E'.
      destruct (lex_bq f cx s2) as [[us'' r'']| | | |]; try discriminate. inv E'.
      split; [exact Ee|]. apply skip_lc_bslash_next in E. exact E.
  - destruct (c =? c_bq) eqn:Eq.
    + inv H. apply N.eqb_eq in Eq. subst. split; [eauto | intros; exact I].
    + destruct (lex_bq f cx s1) as [[us' r']| | | |] eqn:E'; try discriminate. inv H.
      destruct (IH _ _ _ E') as [A B]. split; [exact A|]. intros Hr. cbn [bq_wf].
      repeat split; auto. intros X. congruence.
Qed.

Lemma lex_bq_print cx us z f :
  bq_wf cx us -> (length us < f)%nat ->
  lex_bq f cx (cat_map print_bq us ++ c_bq :: z) = Ok (us, c_bq :: z).
Proof.
  revert f. induction us as [|u us IH]; intros f W Hf.
  - destruct f as [|f]; [cbn in Hf; lia|]. cbn [cat_map app lex_bq].
    rewrite skip_lc_nonbslash by reflexivity. reflexivity.
  - destruct f as [|f]; [cbn in Hf; lia|]. cbn [length] in Hf.
    destruct u as [c|c]; cbn [bq_wf] in W.
    + destruct W as (W1 & W2 & W3). specialize (IH f W2 ltac:(lia)).
      cbn [cat_map print_bq app lex_bq].
      destruct (c =? c_bslash) eqn:Eb.
      * specialize (W3 eq_refl). destruct us as [|[c2|c2] us']; try contradiction.
        destruct W3 as [W3 W4]. apply N.eqb_eq in Eb. subst c.
        cbn [cat_map print_bq app]. rewrite (nolc_bslash c2 _ W4).
        change (c_bslash =? c_bslash) with true. cbv iota. rewrite W3.
        cbn [cat_map print_bq app] in IH. unfold bind. rewrite IH. reflexivity.
      * rewrite (skip_lc_nonbslash _ _ Eb). rewrite Eb, W1. unfold bind. rewrite IH. reflexivity.
    + destruct W as (W1 & W2). specialize (IH f W2 ltac:(lia)).
      cbn [cat_map print_bq app lex_bq].
      rewrite (nolc_bslash c _ (bq_escapable_not_nl _ _ W1)).
      change (c_bslash =? c_bslash) with true. cbv iota. rewrite W1. unfold bind. rewrite IH.
      reflexivity.
Qed.
