(* C06 — proofs, part 11: more fuel never changes an answer.  If a lexer or
   parser function answers (with anything but [Fuel]) on some fuel, it gives
   the same answer on every larger fuel. *)
From Yv Require Import Common.Base C06.Ast C06.Print C06.Lex C06.LexEq C06.Parse C06.ParseEq
  C06.ProofsLen.
Local Open Scope N_scope.

(* [i2] answers like [i1] wherever [i1] answers *)
Definition ext {A B} (i1 i2 : A -> res B) : Prop :=
  forall s R, i1 s = R -> R <> Fuel -> i2 s = R.

Lemma lex_bq_mono f f' cx s R :
  (f <= f')%nat -> lex_bq f cx s = R -> R <> Fuel -> lex_bq f' cx s = R.
Proof.
  revert f' s R. induction f as [|f IH]; intros f' s R Hle H HR; [cbn in H; congruence|].
  destruct f' as [|f']; [lia|]. cbn [lex_bq] in H |- *. unfold bind in *.
  destruct (skip_lc s) as [|c s1]; [exact H|].
  destruct (c =? c_bslash).
  - destruct s1 as [|c2 s2]; [exact H|]. destruct (bq_escapable cx c2).
    + destruct (lex_bq f cx s2) as [[us r]| | | |] eqn:E;
        try (rewrite (IH f' s2 _ ltac:(lia) E ltac:(discriminate)); exact H).
      congruence.
    + destruct (lex_bq f cx (c2 :: s2)) as [[us r]| | | |] eqn:E;
        try (rewrite (IH f' _ _ ltac:(lia) E ltac:(discriminate)); exact H).
      congruence.
  - destruct (c =? c_bq); [exact H|].
    destruct (lex_bq f cx s1) as [[us r]| | | |] eqn:E;
      try (rewrite (IH f' _ _ ltac:(lia) E ltac:(discriminate)); exact H).
    congruence.
Qed.

Lemma lex_escaped_mono f f' s R :
  (f <= f')%nat -> lex_escaped f s = R -> R <> Fuel -> lex_escaped f' s = R.
Proof.
  revert f' s R. induction f as [|f IH]; intros f' s R Hle H HR; [cbn in H; congruence|].
  destruct f' as [|f']; [lia|]. cbn [lex_escaped] in H |- *. unfold bind in *.
  destruct s as [|c1 s1]; [exact H|].
  destruct (c1 =? c_sq); [exact H|]. destruct (c1 =? c_bslash).
  - destruct s1 as [|c2 s2]; [exact H|].
    destruct (lex_escape c2 s2) as [[u r]| | | |]; try exact H.
    destruct (lex_escaped f r) as [[us r']| | | |] eqn:E;
      try (rewrite (IH f' _ _ ltac:(lia) E ltac:(discriminate)); exact H).
    congruence.
  - destruct (lex_escaped f s1) as [[us r']| | | |] eqn:E;
      try (rewrite (IH f' _ _ ltac:(lia) E ltac:(discriminate)); exact H).
    congruence.
Qed.

Section LexMono.
  Variables i1 i2 : str -> res (str * str).
  Hypothesis i_ext : ext i1 i2.

  Definition M_all (f : nat) :=
    (forall f' cx d e s R, (f <= f')%nat -> lex_tu i1 f cx d e s = R -> R <> Fuel ->
                           lex_tu i2 f' cx d e s = R) /\
    (forall f' cx s R, (f <= f')%nat -> lex_dollar i1 f cx s = R -> R <> Fuel ->
                       lex_dollar i2 f' cx s = R) /\
    (forall f' cx s R, (f <= f')%nat -> lex_braced i1 f cx s = R -> R <> Fuel ->
                       lex_braced i2 f' cx s = R) /\
    (forall f' d e s R, (f <= f')%nat -> lex_text i1 f d e s = R -> R <> Fuel ->
                        lex_text i2 f' d e s = R) /\
    (forall f' depth s R, (f <= f')%nat -> lex_twp i1 f depth s = R -> R <> Fuel ->
                          lex_twp i2 f' depth s = R) /\
    (forall f' cx d s R, (f <= f')%nat -> lex_wu i1 f cx d s = R -> R <> Fuel ->
                         lex_wu i2 f' cx d s = R) /\
    (forall f' cx d s R, (f <= f')%nat -> lex_units i1 f cx d s = R -> R <> Fuel ->
                         lex_units i2 f' cx d s = R).

  (* transport every answered sub-call of the hypothesis to the larger fuel and
     rewrite it in the goal *)
  Ltac transport f' :=
    repeat match goal with
    | IH : forall f' cx d e s R, _ -> lex_tu i1 _ cx d e s = R -> _ -> _,
      E : lex_tu i1 _ ?cx ?d ?e ?s = ?R |- _ =>
        rewrite (IH f' cx d e s R ltac:(lia) E ltac:(discriminate))
    | IH : forall f' cx s R, _ -> lex_dollar i1 _ cx s = R -> _ -> _,
      E : lex_dollar i1 _ ?cx ?s = ?R |- _ =>
        rewrite (IH f' cx s R ltac:(lia) E ltac:(discriminate))
    | IH : forall f' cx s R, _ -> lex_braced i1 _ cx s = R -> _ -> _,
      E : lex_braced i1 _ ?cx ?s = ?R |- _ =>
        rewrite (IH f' cx s R ltac:(lia) E ltac:(discriminate))
    | IH : forall f' d e s R, _ -> lex_text i1 _ d e s = R -> _ -> _,
      E : lex_text i1 _ ?d ?e ?s = ?R |- _ =>
        rewrite (IH f' d e s R ltac:(lia) E ltac:(discriminate))
    | IH : forall f' depth s R, _ -> lex_twp i1 _ depth s = R -> _ -> _,
      E : lex_twp i1 _ ?depth ?s = ?R |- _ =>
        rewrite (IH f' depth s R ltac:(lia) E ltac:(discriminate))
    | IH : forall f' cx d s R, _ -> lex_wu i1 _ cx d s = R -> _ -> _,
      E : lex_wu i1 _ ?cx ?d ?s = ?R |- _ =>
        rewrite (IH f' cx d s R ltac:(lia) E ltac:(discriminate))
    | IH : forall f' cx d s R, _ -> lex_units i1 _ cx d s = R -> _ -> _,
      E : lex_units i1 _ ?cx ?d ?s = ?R |- _ =>
        rewrite (IH f' cx d s R ltac:(lia) E ltac:(discriminate))
    | E : lex_bq ?f ?cx ?s = ?R |- _ =>
        rewrite (lex_bq_mono f f' cx s R ltac:(lia) E ltac:(discriminate))
    | E : i1 ?s = ?R |- _ =>
        rewrite (i_ext s R E ltac:(discriminate))
    end.

  Ltac mono_step eqn f' :=
    rewrite eqn in *; unfold lex_param, lex_suffix, bind in *; cbv zeta in *;
    dmall; clean;
    try (exfalso; match goal with H1 : Fuel = ?R, H2 : ?R <> Fuel |- _ =>
                    apply H2; symmetry; exact H1 end);
    try (exfalso; match goal with H2 : Fuel <> Fuel |- _ => apply H2; reflexivity end);
    repeat (progress (transport f';
                      repeat match goal with
                             | E : ?x = _ |- context [match ?x with _ => _ end] => rewrite E
                             | E : ?x = _ |- context [if ?x then _ else _] => rewrite E
                             end;
                      cbv beta iota));
    try reflexivity; try congruence.

  Lemma lex_mono : forall f, M_all f.
  Proof.
    induction f as [|f (Htu & Hdol & Hbr & Htx & Htwp & Hwu & Hun)].
    { repeat split; intros; cbn in *; congruence. }
    repeat split.
    - intros f' cx d e s R Hle H HR. destruct f' as [|f']; [lia|]. mono_step lex_tu_eq f'.
    - intros f' cx s R Hle H HR. destruct f' as [|f']; [lia|]. mono_step lex_dollar_eq f'.
    - intros f' cx s R Hle H HR. destruct f' as [|f']; [lia|]. mono_step lex_braced_eq f'.
    - intros f' d e s R Hle H HR. destruct f' as [|f']; [lia|]. mono_step lex_text_eq f'.
    - intros f' depth s R Hle H HR. destruct f' as [|f']; [lia|]. mono_step lex_twp_eq f'.
    - intros f' cx d s R Hle H HR. destruct f' as [|f']; [lia|]. mono_step lex_wu_eq f'.
    - intros f' cx d s R Hle H HR. destruct f' as [|f']; [lia|]. mono_step lex_units_eq f'.
  Qed.
End LexMono.

(* ---- tokens and the token-level loops ------------------------------------------------------ *)

Lemma lex_token_mono i1 i2 f f' s R :
  ext i1 i2 -> (f <= f')%nat -> lex_token i1 f s = R -> R <> Fuel -> lex_token i2 f' s = R.
Proof.
  intros Hi Hle H HR. unfold lex_token, bind in *.
  destruct (lex_operator (skip_blanks_and_comment s)) as [[op r]|]; [exact H|].
  destruct (lex_mono i1 i2 Hi f) as (_ & _ & _ & _ & _ & _ & Hun).
  destruct (lex_units i1 f CWord DToken (skip_blanks_and_comment s)) as [[w r]| | | |] eqn:E;
    try (rewrite (Hun f' _ _ _ _ Hle E ltac:(discriminate)); exact H).
  congruence.
Qed.

Section LoopMono.
  Variables tk1 tk2 : str -> res (token * str).
  Hypothesis tk_ext : ext tk1 tk2.

  Ltac tkt :=
    repeat match goal with
    | E : tk1 ?s = ?R |- _ =>
        rewrite (tk_ext s R E ltac:(discriminate))
    end.

  Ltac loop_step IH f' :=
    unfold bind in *; dmall; clean;
    try (exfalso; match goal with H1 : Fuel = ?R, H2 : ?R <> Fuel |- _ =>
                    apply H2; symmetry; exact H1 end);
    try (exfalso; match goal with H2 : Fuel <> Fuel |- _ => apply H2; reflexivity end);
    repeat (progress (tkt;
                      repeat match goal with
                             | E : ?x = _ |- context [match ?x with _ => _ end] => rewrite E
                             end;
                      cbv beta iota));
    try reflexivity; try congruence.

  Lemma skip_newlines_mono f f' s R :
    (f <= f')%nat -> skip_newlines tk1 f s = R -> R <> Fuel -> skip_newlines tk2 f' s = R.
  Proof.
    revert f' s R. induction f as [|f IH]; intros f' s R Hle H HR; [cbn in H; congruence|].
    destruct f' as [|f']; [lia|]. cbn [skip_newlines] in *. loop_step IH f'.
    all: try (apply IH; [lia | assumption | assumption]).
  Qed.

  Lemma p_redir_mono s R : p_redir tk1 s = R -> R <> Fuel -> p_redir tk2 s = R.
  Proof. intros H HR. unfold p_redir in *. loop_step I O. Qed.

  Lemma p_redirs_mono f f' s R :
    (f <= f')%nat -> p_redirs tk1 f s = R -> R <> Fuel -> p_redirs tk2 f' s = R.
  Proof.
    revert f' s R. induction f as [|f IH]; intros f' s R Hle H HR; [cbn in H; congruence|].
    destruct f' as [|f']; [lia|]. cbn [p_redirs] in *. unfold bind in *.
    destruct (p_redir tk1 s) as [[[r|] s1]| | | |] eqn:E;
      try (rewrite (p_redir_mono _ _ E ltac:(discriminate)); try exact H); try congruence.
    destruct (p_redirs tk1 f s1) as [[rs s2]| | | |] eqn:E2;
      try (rewrite (IH f' _ _ ltac:(lia) E2 ltac:(discriminate)); exact H).
    congruence.
  Qed.

  Lemma p_array_mono f f' s R :
    (f <= f')%nat -> p_array tk1 f s = R -> R <> Fuel -> p_array tk2 f' s = R.
  Proof.
    revert f' s R. induction f as [|f IH]; intros f' s R Hle H HR; [cbn in H; congruence|].
    destruct f' as [|f']; [lia|]. cbn [p_array] in *. loop_step IH f'.
    all: try (apply IH; [lia | assumption | assumption]).
    all: match goal with E : p_array tk1 _ ?s = ?R0 |- context [p_array tk2 ?f2 ?s] =>
           rewrite (IH f2 s R0 ltac:(lia) E ltac:(discriminate)) end; first [reflexivity | assumption | congruence].
  Qed.

  Lemma p_for_words_mono f f' s R :
    (f <= f')%nat -> p_for_words tk1 f s = R -> R <> Fuel -> p_for_words tk2 f' s = R.
  Proof.
    revert f' s R. induction f as [|f IH]; intros f' s R Hle H HR; [cbn in H; congruence|].
    destruct f' as [|f']; [lia|]. cbn [p_for_words] in *. loop_step IH f'.
    all: match goal with E : p_for_words tk1 _ ?s = ?R0 |- context [p_for_words tk2 ?f2 ?s] =>
           rewrite (IH f2 s R0 ltac:(lia) E ltac:(discriminate)) end; first [reflexivity | assumption | congruence].
  Qed.

  Lemma p_for_values_mono f f' b s R :
    (f <= f')%nat -> p_for_values tk1 f b s = R -> R <> Fuel -> p_for_values tk2 f' b s = R.
  Proof.
    revert f' b s R. induction f as [|f IH]; intros f' b s R Hle H HR; [cbn in H; congruence|].
    destruct f' as [|f']; [lia|]. cbn [p_for_values] in *. loop_step IH f'.
    all: try (apply IH; [lia | assumption | assumption]).
    all: match goal with E : p_for_words tk1 ?f0 ?s = ?R0 |- context [p_for_words tk2 ?f2 ?s] =>
           rewrite (p_for_words_mono f0 f2 s R0 ltac:(lia) E ltac:(discriminate)) end; first [reflexivity | assumption | congruence].
  Qed.

  Lemma p_patterns_mono f f' s R :
    (f <= f')%nat -> p_patterns tk1 f s = R -> R <> Fuel -> p_patterns tk2 f' s = R.
  Proof.
    revert f' s R. induction f as [|f IH]; intros f' s R Hle H HR; [cbn in H; congruence|].
    destruct f' as [|f']; [lia|]. cbn [p_patterns] in *. loop_step IH f'.
    all: match goal with E : p_patterns tk1 _ ?s = ?R0 |- context [p_patterns tk2 ?f2 ?s] =>
           rewrite (IH f2 s R0 ltac:(lia) E ltac:(discriminate)) end; first [reflexivity | assumption | congruence].
  Qed.
End LoopMono.

(* ---- the parser ------------------------------------------------------------------------------------ *)

Record GMono (f : nat) : Prop := {
  gm_inner : forall f' s R, (f <= f')%nat -> p_inner f s = R -> R <> Fuel -> p_inner f' s = R;
  gm_mcl : forall f' s R, (f <= f')%nat -> p_mcl f s = R -> R <> Fuel -> p_mcl f' s = R;
  gm_list : forall f' s R, (f <= f')%nat -> p_list f s = R -> R <> Fuel -> p_list f' s = R;
  gm_and_or : forall f' s R, (f <= f')%nat -> p_and_or f s = R -> R <> Fuel -> p_and_or f' s = R;
  gm_and_or_rest : forall f' s R, (f <= f')%nat -> p_and_or_rest f s = R -> R <> Fuel ->
                   p_and_or_rest f' s = R;
  gm_pipeline : forall f' s R, (f <= f')%nat -> p_pipeline f s = R -> R <> Fuel -> p_pipeline f' s = R;
  gm_pipe_rest : forall f' s R, (f <= f')%nat -> p_pipe_rest f s = R -> R <> Fuel ->
                 p_pipe_rest f' s = R;
  gm_command : forall f' s R, (f <= f')%nat -> p_command f s = R -> R <> Fuel -> p_command f' s = R;
  gm_simple : forall f' d b s R, (f <= f')%nat -> p_simple f d b s = R -> R <> Fuel ->
              p_simple f' d b s = R;
  gm_full_compound : forall f' s R, (f <= f')%nat -> p_full_compound f s = R -> R <> Fuel ->
                     p_full_compound f' s = R;
  gm_compound : forall f' s R, (f <= f')%nat -> p_compound f s = R -> R <> Fuel -> p_compound f' s = R;
  gm_do_clause : forall f' s R, (f <= f')%nat -> p_do_clause f s = R -> R <> Fuel ->
                 p_do_clause f' s = R;
  gm_elifs : forall f' s R, (f <= f')%nat -> p_elifs f s = R -> R <> Fuel -> p_elifs f' s = R;
  gm_case_items : forall f' s R, (f <= f')%nat -> p_case_items f s = R -> R <> Fuel ->
                  p_case_items f' s = R
}.

Lemma GMono_0 : GMono 0.
Proof. constructor; intros; cbn in *; congruence. Qed.

Section StepMono.
  Variable f : nat.
  Hypothesis G : GMono f.
  Variable f' : nat.
  Hypothesis Hle : (f <= f')%nat.

  Local Notation tk1 := (lex_token (p_inner f) f).
  Local Notation tk2 := (lex_token (p_inner f') f').

  Lemma inner_ext : ext (p_inner f) (p_inner f').
  Proof. intros s R H HR. exact (gm_inner f G f' s R Hle H HR). Qed.

  Lemma tk_ext12 : ext tk1 tk2.
  Proof. intros s R H HR. exact (lex_token_mono _ _ _ _ _ _ inner_ext Hle H HR). Qed.

  Ltac ptransport :=
    repeat match goal with
    | E : lex_token (p_inner f) f ?s = ?R |- _ =>
        rewrite (tk_ext12 s R E ltac:(discriminate))
    | E : skip_newlines _ f ?s = ?R |- _ =>
        rewrite (skip_newlines_mono tk1 tk2 tk_ext12 f f' s R Hle E ltac:(discriminate))
    | E : p_redir _ ?s = ?R |- _ =>
        rewrite (p_redir_mono tk1 tk2 tk_ext12 s R E ltac:(discriminate))
    | E : p_redirs _ f ?s = ?R |- _ =>
        rewrite (p_redirs_mono tk1 tk2 tk_ext12 f f' s R Hle E ltac:(discriminate))
    | E : p_array _ f ?s = ?R |- _ =>
        rewrite (p_array_mono tk1 tk2 tk_ext12 f f' s R Hle E ltac:(discriminate))
    | E : p_for_values _ f ?b ?s = ?R |- _ =>
        rewrite (p_for_values_mono tk1 tk2 tk_ext12 f f' b s R Hle E ltac:(discriminate))
    | E : p_patterns _ f ?s = ?R |- _ =>
        rewrite (p_patterns_mono tk1 tk2 tk_ext12 f f' s R Hle E ltac:(discriminate))
    | E : p_inner f ?s = ?R |- _ => rewrite (gm_inner f G f' s R Hle E ltac:(discriminate))
    | E : p_mcl f ?s = ?R |- _ => rewrite (gm_mcl f G f' s R Hle E ltac:(discriminate))
    | E : p_list f ?s = ?R |- _ => rewrite (gm_list f G f' s R Hle E ltac:(discriminate))
    | E : p_and_or f ?s = ?R |- _ => rewrite (gm_and_or f G f' s R Hle E ltac:(discriminate))
    | E : p_and_or_rest f ?s = ?R |- _ =>
        rewrite (gm_and_or_rest f G f' s R Hle E ltac:(discriminate))
    | E : p_pipeline f ?s = ?R |- _ => rewrite (gm_pipeline f G f' s R Hle E ltac:(discriminate))
    | E : p_pipe_rest f ?s = ?R |- _ => rewrite (gm_pipe_rest f G f' s R Hle E ltac:(discriminate))
    | E : p_command f ?s = ?R |- _ => rewrite (gm_command f G f' s R Hle E ltac:(discriminate))
    | E : p_simple f ?d ?b ?s = ?R |- _ =>
        rewrite (gm_simple f G f' d b s R Hle E ltac:(discriminate))
    | E : p_full_compound f ?s = ?R |- _ =>
        rewrite (gm_full_compound f G f' s R Hle E ltac:(discriminate))
    | E : p_compound f ?s = ?R |- _ => rewrite (gm_compound f G f' s R Hle E ltac:(discriminate))
    | E : p_do_clause f ?s = ?R |- _ => rewrite (gm_do_clause f G f' s R Hle E ltac:(discriminate))
    | E : p_elifs f ?s = ?R |- _ => rewrite (gm_elifs f G f' s R Hle E ltac:(discriminate))
    | E : p_case_items f ?s = ?R |- _ =>
        rewrite (gm_case_items f G f' s R Hle E ltac:(discriminate))
    end.

  (* transport one freshly obtained equation about a call on fuel [f] *)
  Ltac ptransport1 E :=
    match type of E with
    | lex_token (p_inner f) f ?s = ?R => rewrite (tk_ext12 s R E ltac:(discriminate))
    | skip_newlines _ f ?s = ?R =>
        rewrite (skip_newlines_mono tk1 tk2 tk_ext12 f f' s R Hle E ltac:(discriminate))
    | p_redir _ ?s = ?R => rewrite (p_redir_mono tk1 tk2 tk_ext12 s R E ltac:(discriminate))
    | p_redirs _ f ?s = ?R =>
        rewrite (p_redirs_mono tk1 tk2 tk_ext12 f f' s R Hle E ltac:(discriminate))
    | p_array _ f ?s = ?R =>
        rewrite (p_array_mono tk1 tk2 tk_ext12 f f' s R Hle E ltac:(discriminate))
    | p_for_values _ f ?b ?s = ?R =>
        rewrite (p_for_values_mono tk1 tk2 tk_ext12 f f' b s R Hle E ltac:(discriminate))
    | p_patterns _ f ?s = ?R =>
        rewrite (p_patterns_mono tk1 tk2 tk_ext12 f f' s R Hle E ltac:(discriminate))
    | p_inner f ?s = ?R => rewrite (gm_inner f G f' s R Hle E ltac:(discriminate))
    | p_mcl f ?s = ?R => rewrite (gm_mcl f G f' s R Hle E ltac:(discriminate))
    | p_list f ?s = ?R => rewrite (gm_list f G f' s R Hle E ltac:(discriminate))
    | p_and_or f ?s = ?R => rewrite (gm_and_or f G f' s R Hle E ltac:(discriminate))
    | p_and_or_rest f ?s = ?R => rewrite (gm_and_or_rest f G f' s R Hle E ltac:(discriminate))
    | p_pipeline f ?s = ?R => rewrite (gm_pipeline f G f' s R Hle E ltac:(discriminate))
    | p_pipe_rest f ?s = ?R => rewrite (gm_pipe_rest f G f' s R Hle E ltac:(discriminate))
    | p_command f ?s = ?R => rewrite (gm_command f G f' s R Hle E ltac:(discriminate))
    | p_simple f ?d ?b ?s = ?R => rewrite (gm_simple f G f' d b s R Hle E ltac:(discriminate))
    | p_full_compound f ?s = ?R =>
        rewrite (gm_full_compound f G f' s R Hle E ltac:(discriminate))
    | p_compound f ?s = ?R => rewrite (gm_compound f G f' s R Hle E ltac:(discriminate))
    | p_do_clause f ?s = ?R => rewrite (gm_do_clause f G f' s R Hle E ltac:(discriminate))
    | p_elifs f ?s = ?R => rewrite (gm_elifs f G f' s R Hle E ltac:(discriminate))
    | p_case_items f ?s = ?R => rewrite (gm_case_items f G f' s R Hle E ltac:(discriminate))
    end.

  (* walk through the hypothesis and the goal in step: destruct the next
     scrutinee of the hypothesis and transport the equation at once *)
  Ltac psync H :=
    repeat (match type of H with
            | context [match ?x with _ => _ end] =>
                lazymatch x with
                | context [match _ with _ => _ end] => fail
                | _ => idtac
                end;
                let E := fresh "E" in
                destruct x eqn:E; try ptransport1 E; cbv beta iota in H |- *
            end; try discriminate).

  Ltac pmono eqn :=
    intros H HR; rewrite eqn in H |- *; unfold bind in *; cbv zeta in *;
    psync H;
    try (exfalso; apply HR; symmetry; exact H);
    try exact H; try reflexivity; try congruence.

  Lemma sm_inner : forall s R, p_inner (S f) s = R -> R <> Fuel -> p_inner (S f') s = R.
  Proof. intros s R. pmono p_inner_eq. Qed.
  Lemma sm_mcl : forall s R, p_mcl (S f) s = R -> R <> Fuel -> p_mcl (S f') s = R.
  Proof. intros s R. pmono p_mcl_eq. Qed.
  Lemma sm_list : forall s R, p_list (S f) s = R -> R <> Fuel -> p_list (S f') s = R.
  Proof. intros s R. pmono p_list_eq. Qed.
  Lemma sm_and_or : forall s R, p_and_or (S f) s = R -> R <> Fuel -> p_and_or (S f') s = R.
  Proof. intros s R. pmono p_and_or_eq. Qed.
  Lemma sm_and_or_rest : forall s R, p_and_or_rest (S f) s = R -> R <> Fuel -> p_and_or_rest (S f') s = R.
  Proof. intros s R. pmono p_and_or_rest_eq. Qed.
  Lemma sm_pipeline : forall s R, p_pipeline (S f) s = R -> R <> Fuel -> p_pipeline (S f') s = R.
  Proof. intros s R. pmono p_pipeline_eq. Qed.
  Lemma sm_pipe_rest : forall s R, p_pipe_rest (S f) s = R -> R <> Fuel -> p_pipe_rest (S f') s = R.
  Proof. intros s R. pmono p_pipe_rest_eq. Qed.
  Lemma sm_command : forall s R, p_command (S f) s = R -> R <> Fuel -> p_command (S f') s = R.
  Proof. intros s R. pmono p_command_eq. Qed.
  Lemma sm_simple : forall d b s R, p_simple (S f) d b s = R -> R <> Fuel -> p_simple (S f') d b s = R.
  Proof.
    intros d b s R. pmono p_simple_eq.
    all: try (eapply (gm_simple f G f'); [exact Hle | eassumption | assumption]).
  Qed.
  Lemma sm_full_compound : forall s R, p_full_compound (S f) s = R -> R <> Fuel ->
                           p_full_compound (S f') s = R.
  Proof. intros s R. pmono p_full_compound_eq. Qed.
  Lemma sm_compound : forall s R, p_compound (S f) s = R -> R <> Fuel -> p_compound (S f') s = R.
  Proof. intros s R. pmono p_compound_eq. Qed.
  Lemma sm_do_clause : forall s R, p_do_clause (S f) s = R -> R <> Fuel -> p_do_clause (S f') s = R.
  Proof. intros s R. pmono p_do_clause_eq. Qed.
  Lemma sm_elifs : forall s R, p_elifs (S f) s = R -> R <> Fuel -> p_elifs (S f') s = R.
  Proof. intros s R. pmono p_elifs_eq. Qed.
  Lemma sm_case_items : forall s R, p_case_items (S f) s = R -> R <> Fuel -> p_case_items (S f') s = R.
  Proof. intros s R. pmono p_case_items_eq. Qed.
End StepMono.

Lemma parser_mono : forall f, GMono f.
Proof.
  induction f as [|f IH]; [exact GMono_0|].
  constructor; intros f' ?; intros; (destruct f' as [|f']; [lia|]);
    match goal with Hle : (S f <= S f')%nat |- _ => apply le_S_n in Hle end.
  - eapply sm_inner; eauto.
  - eapply sm_mcl; eauto.
  - eapply sm_list; eauto.
  - eapply sm_and_or; eauto.
  - eapply sm_and_or_rest; eauto.
  - eapply sm_pipeline; eauto.
  - eapply sm_pipe_rest; eauto.
  - eapply sm_command; eauto.
  - eapply sm_simple; eauto.
  - eapply sm_full_compound; eauto.
  - eapply sm_compound; eauto.
  - eapply sm_do_clause; eauto.
  - eapply sm_elifs; eauto.
  - eapply sm_case_items; eauto.
Qed.

(* the answer of the parser model does not depend on the fuel, as soon as the
   fuel is enough for an answer *)
Theorem parse_fuel_irrelevant : forall f f' s R R',
  p_mcl f s = R -> R <> Fuel -> p_mcl f' s = R' -> R' <> Fuel -> R = R'.
Proof.
  intros f f' s R R' H HR H' HR'.
  pose proof (gm_mcl f (parser_mono f) (max f f') s R ltac:(lia) H HR) as A.
  pose proof (gm_mcl f' (parser_mono f') (max f f') s R' ltac:(lia) H' HR') as B.
  congruence.
Qed.

