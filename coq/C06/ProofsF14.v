(* C06 — known finding F14 at the level of whole programs: the model (which
   mirrors the implementation) shows that the unrestricted statement "the
   printed text of a parsed tree parses back to the tree" is false; the
   witnesses are in the class [f14_class]. *)
From Yv Require Import Common.Base C06.Model C06.Spec.
From Coq Require Ascii String.
Import Coq.Strings.String.StringSyntax.

(* `)` follows the printed word: `(echo $(('(' ) ) )` prints as
   `(echo $(('(' ) ))`, which is a syntax error *)
Lemma f14_witness_paren :
  exists t, parse_program (lit "(echo $(('(' ) ) )") = Ok t /\ f14_class t = true /\
            print_list false t = lit "(echo $(('(' ) ))" /\
            parse_program (print_list false t) = Err.
Proof.
  eexists. split; [vm_compute; reflexivity|]. repeat split; vm_compute; reflexivity.
Qed.

(* the end of the text follows the printed word: `echo $(('(' ) ) ;` prints as
   `echo $(('(' ) )`, which is a syntax error *)
Lemma f14_witness_eof :
  exists t, parse_program (lit "echo $(('(' ) ) ;") = Ok t /\ f14_class t = true /\
            print_list false t = lit "echo $(('(' ) )" /\
            parse_program (print_list false t) = Err.
Proof.
  eexists. split; [vm_compute; reflexivity|]. repeat split; vm_compute; reflexivity.
Qed.

Lemma parse_print_refuted_lemma :
  exists s t, parse_program s = Ok t /\ f14_class t = true /\
              parse_program (print_list false t) <> Ok t.
Proof.
  destruct f14_witness_paren as (t & A & B & _ & C).
  eexists _, t. split; [exact A|]. split; [exact B|]. rewrite C. discriminate.
Qed.
