(* C06 — proofs, part 20: simple commands.  The second run of the loop of
   simple_command.rs on the printed command; the round trip of a simple
   command that is followed by something in the source. *)
From Yv Require Import Common.Base C06.Ast C06.Print C06.Lex C06.LexEq C06.Parse C06.ParseEq
  C06.Spec C06.ProofsLen C06.ProofsStop C06.ProofsTilde C06.ProofsNum C06.ProofsRtBase C06.ProofsRt
  C06.ProofsMono C06.ProofsOp C06.ProofsToken C06.ProofsInner C06.ProofsRedir C06.SpecCmd C06.ProofsCmdBase C06.ProofsSimple
  C06.ProofsSimpleAux C06.ProofsSimpleFirst.
Local Open Scope N_scope.

(* ---- the second run: the items of the printed command, one after the other ---- *)

Inductive sitem := IA (a : assign) | IW (W : word) | IR (rd : redir).

Definition print_sitem (it : sitem) : str :=
  match it with IA a => print_assign a | IW W => print_word W | IR rd => print_redir rd end.

(* the state of the loop after an item *)
Definition step_item (st : option bool * builder) (it : sitem) : option bool * builder :=
  let (decl, b) := st in
  match it with
  | IR rd => (decl, add_redir b rd)
  | IA a => (decl, add_assign b a)
  | IW W =>
      match decl with
      | Some d => (decl, add_word b (if d then determine_expansion_mode W else (W, Multiple)))
      | None => (names_declaration_utility W, add_word b (W, Multiple))
      end
  end.

Definition item_ok (F : nat) (st : option bool * builder) (it : sitem) : Prop :=
  let (decl, b) := st in
  match it with
  | IR rd => R_ok F None rd
  | IA a => A_ok F None a /\ decl = None /\ b_words b = []
  | IW W => W_ok F None W /\ (word_kw W = None \/ builder_is_empty b = false) /\
            (decl = None -> b_words b = [] -> assign_of_word W = None)
  end.

Fixpoint items_ok (F : nat) (st : option bool * builder) (its : list sitem) : Prop :=
  match its with
  | [] => True
  | it :: l => item_ok F st it /\ items_ok F (step_item st it) l
  end.

Lemma settled_none w0 : settled None w0 -> ends_bslash w0 = false.
Proof. intros [H|H]; [exact H | discriminate]. Qed.

Lemma follow_good w0 z : follow z -> ends_bslash w0 = false -> good_follow w0 z.
Proof.
  intros [->|[[z' ->]|(c & z' & -> & Hc)]] Hb.
  - apply good_follow_nil.
  - apply good_follow_blank. exact Hb.
  - apply good_follow_end; assumption.
Qed.

Lemma follow_peek z : follow z -> peek_is_redir z = false.
Proof.
  unfold peek_is_redir. intros [->|[[z' ->]|(c & z' & -> & Hc)]].
  - reflexivity.
  - rewrite skip_lc_nonbslash by reflexivity. reflexivity.
  - unfold end_char in Hc.
    repeat (apply Bool.orb_true_iff in Hc; destruct Hc as [Hc|Hc]); apply N.eqb_eq in Hc; subst;
      rewrite skip_lc_nonbslash by reflexivity; reflexivity.
Qed.

(* after an assignment with an empty value: no array value follows *)
Lemma follow_no_array z f' (a : assign) :
  follow z -> (3 <= f')%nat ->
  (if (match a_value a with Scalar [] => true | _ => false end)
      && negb (match skip_lc z with c :: _ => is_blank c | [] => false end) then
     let* (t', s2') := tk2 f' z in
     match t_id t' with
     | TOp OpOpenParen =>
         let* (ws, s3) := p_array (tk2 f') f' s2' in
         Ok (mkAssign (a_name a) (Array ws), s3)
     | _ => Ok (a, z)
     end
   else Ok (a, z)) = Ok (a, z).
Proof.
  intros Hz Hf.
  destruct (match a_value a with Scalar [] => true | _ => false end); [|reflexivity].
  cbn [andb].
  assert (Hc : cmd_end z ->
     (let* (t', s2') := tk2 f' z in
     match t_id t' with
     | TOp OpOpenParen =>
         let* (ws, s3) := p_array (tk2 f') f' s2' in
         Ok (mkAssign (a_name a) (Array ws), s3)
     | _ => Ok (a, z)
     end) = Ok (a, z)).
  { intros He. destruct (cmd_end_token (p_inner f') f' z He Hf) as (t & r & Et & _ & _ & Hid).
    unfold bind. rewrite Et. destruct (t_id t) as [|op| | |]; try reflexivity.
    destruct op; try reflexivity. destruct Hid as (_ & X & _). congruence. }
  destruct Hz as [->|[[z' ->]|(c & z' & -> & Hce)]].
  - cbn [skip_lc negb]. apply Hc. exact I.
  - rewrite skip_lc_nonbslash by reflexivity. reflexivity.
  - destruct (negb _); [|reflexivity]. apply Hc. unfold cmd_end.
    assert (N : nolc (c :: z')).
    { apply nolc_cons. unfold end_char in Hce.
      repeat (apply Bool.orb_true_iff in Hce; destruct Hce as [Hce|Hce]); apply N.eqb_eq in Hce; subst; reflexivity. }
    rewrite skip_blanks_and_comment_id; [exact Hce | exact N | |];
      unfold end_char in Hce;
      repeat (apply Bool.orb_true_iff in Hce; destruct Hce as [Hce|Hce]); apply N.eqb_eq in Hce; subst; reflexivity.
Qed.

(* ---- keywords ---- *)
Lemma keyword_of_in l k : keyword_of l = Some k -> In l (map fst keyword_table).
Proof.
  unfold keyword_of. destruct (find (fun p => str_eqb (fst p) l) keyword_table) as [[x k']|] eqn:E; [|discriminate].
  intros _. apply find_some in E. destruct E as [E1 E2]. cbn [fst] in E2. apply str_eqb_eq in E2. subst x.
  apply (in_map fst) in E1. exact E1.
Qed.

Lemma keyword_no_eq l k : keyword_of l = Some k -> existsb (N.eqb 61) l = false.
Proof.
  intros H. apply keyword_of_in in H.
  assert (A : forallb (fun kw => negb (existsb (N.eqb 61) kw)) (map fst keyword_table) = true)
    by (vm_compute; reflexivity).
  rewrite forallb_forall in A. apply A in H. apply Bool.negb_true_iff in H. exact H.
Qed.

Lemma find_eq_literal W n l : find_eq W = Some n -> word_literal W = Some l -> existsb (N.eqb 61) l = true.
Proof.
  revert n l. induction W as [|u W IH]; intros n l H Hl; cbn [find_eq] in H; [discriminate|].
  cbn [word_literal] in Hl. destruct u as [t| | | |]; try discriminate. destruct t; try discriminate.
  destruct (word_literal W) as [l'|]; [|discriminate]. inv Hl. cbn [existsb].
  destruct (c =? 61) eqn:Ec.
  - apply N.eqb_eq in Ec. subst. reflexivity.
  - rewrite N.eqb_sym, Ec. cbn [orb]. destruct (find_eq W) as [m|]; [|discriminate]. eapply IH; eauto.
Qed.

Lemma assign_word_kw W a : assign_of_word W = Some a -> word_kw W = None.
Proof.
  intros H. destruct (assign_of_word_spec _ _ H) as (n & name & Ef & _).
  unfold word_kw. destruct (word_literal W) as [l|] eqn:El; [|reflexivity].
  destruct (keyword_of l) as [k|] eqn:Ek; [|reflexivity].
  pose proof (keyword_no_eq _ _ Ek) as X. rewrite (find_eq_literal _ _ _ Ef El) in X. discriminate.
Qed.

Lemma open_paren_token f' z :
  tk2 f' (40 :: z) = Ok (mkToken [] (TOp OpOpenParen) (40 :: z), z).
Proof.
  unfold lex_token.
  rewrite (skip_blanks_and_comment_id 40 z (nolc_cons 40 z eq_refl) eq_refl eq_refl).
  unfold lex_operator. rewrite skip_lc_nonbslash by reflexivity. reflexivity.
Qed.

Lemma one_item F f' st it z pre :
  item_ok F st it -> (F <= f')%nat -> (3 <= f')%nat -> is_lead pre -> follow z ->
  p_simple (S f') (fst st) (snd st) (pre ++ print_sitem it ++ z)
  = p_simple f' (fst (step_item st it)) (snd (step_item st it)) z.
Proof.
  destruct st as [decl b]. intros Hok HF H3 Hl Hz. cbn [fst snd].
  destruct it as [a | W | rd]; cbn [item_ok step_item print_sitem] in *.
  - (* an assignment *)
    destruct Hok as (HA & -> & Hbw). cbn [fst snd]. unfold A_ok in HA.
    destruct (a_value a) as [v | ws] eqn:Ev.
    + destruct HA as (W & (w0 & WI & St) & Ep & Ea). rewrite Ep.
      rewrite (simple_word_unfold F W w0 z f' None b pre WI HF
                 (follow_good _ _ Hz (settled_none _ St)) (follow_peek _ Hz) Hl).
      2:{ left. eapply assign_word_kw; eauto. }
      rewrite Hbw, Ea. cbv beta iota zeta. rewrite (follow_no_array z f' a Hz H3). reflexivity.
    + destruct HA as (Wn & w0n & WI & Ep & Ea & Lf & AI & AL).
      assert (Et : print_assign a = print_word Wn ++ 40 ::
                (match ws with [] => [] | W :: ws' => print_word W ++ print_array_tail ws' end
                 ++ c_rparen :: z) -> True) by auto.
      assert (Etxt : pre ++ print_assign a ++ z = pre ++ print_word Wn ++ 40 ::
                (match ws with [] => [] | W :: ws' => print_word W ++ print_array_tail ws' end
                 ++ c_rparen :: z)).
      { unfold print_assign. rewrite Ev, Ep. cbn [print_value]. f_equal. rewrite <- !app_assoc. f_equal.
        cbn [app]. f_equal. f_equal.
        destruct ws as [|W ws']; [reflexivity|]. rewrite print_array_tail_cat, join_map_cons. reflexivity. }
      rewrite Etxt.
      set (z' := match ws with [] => [] | W :: ws' => print_word W ++ print_array_tail ws' end
                 ++ c_rparen :: z).
      assert (Hg : good_follow w0n (40 :: z')).
      { split; [apply nolc_cons; reflexivity|]. split; [reflexivity | exact Lf]. }
      assert (Hp : peek_is_redir (40 :: z') = false).
      { unfold peek_is_redir. rewrite skip_lc_nonbslash by reflexivity. reflexivity. }
      rewrite (simple_word_unfold F Wn w0n (40 :: z') f' None b pre WI HF Hg Hp Hl
                 (or_introl (assign_word_kw _ _ Ea))).
      rewrite Hbw, Ea. cbv beta iota zeta. cbn [a_value a_name].
      rewrite skip_lc_nonbslash by reflexivity. cbn [is_blank andb negb N.eqb Pos.eqb orb].
      unfold bind. rewrite open_paren_token. cbn [t_id].
      unfold z'. destruct (p_array_print F ws z f' AI HF H3 ltac:(lia)) as [PA _]. rewrite PA.
      assert (Ha : a = mkAssign (a_name a) (Array ws)) by (destruct a; cbn in *; subst; reflexivity).
      rewrite <- Ha. reflexivity.
  - (* a word *)
    destruct Hok as ((w0 & WI & St) & Hk & Hna).
    rewrite (simple_word_unfold F W w0 z f' decl b pre WI HF
               (follow_good _ _ Hz (settled_none _ St)) (follow_peek _ Hz) Hl Hk).
    destruct decl as [d|]; [reflexivity|]. cbn [fst snd].
    destruct (b_words b) as [|e l] eqn:Eb; [rewrite (Hna eq_refl eq_refl)|]; reflexivity.
  - (* a redirection *)
    destruct Hok as (w0 & RI & St).
    apply (simple_redir_step F rd w0 z f' decl b pre RI HF); [|exact Hl].
    apply follow_good; [exact Hz | apply settled_none; exact St].
Qed.

(* ---- a sequence of items ---- *)
Definition step_items (st : option bool * builder) (its : list sitem) := fold_left step_item its st.

Lemma run_tail F : forall its st z f',
  items_ok F st its -> follow z -> (F <= f')%nat -> (3 <= f')%nat ->
  p_simple (length its + f') (fst st) (snd st) (cat_map (fun it => [32] ++ print_sitem it) its ++ z)
  = p_simple f' (fst (step_items st its)) (snd (step_items st its)) z.
Proof.
  induction its as [|it l IH]; intros st z f' Hok Hz HF H3; [reflexivity|].
  destruct Hok as [Hi Hl]. cbn [length cat_map plus]. rewrite <- !app_assoc.
  rewrite (one_item F (length l + f') st it (cat_map (fun it0 => [32] ++ print_sitem it0) l ++ z) [32]
             Hi ltac:(lia) ltac:(lia) (or_intror eq_refl)).
  - apply IH; assumption.
  - destruct l as [|it2 l2]; [exact Hz|]. right. left. cbn [cat_map app]. eauto.
Qed.

Lemma run_items F it l st z f' pre :
  items_ok F st (it :: l) -> follow z -> (F <= f')%nat -> (3 <= f')%nat -> is_lead pre ->
  p_simple (S (length l + f')) (fst st) (snd st) (pre ++ join_map print_sitem [32] (it :: l) ++ z)
  = p_simple f' (fst (step_items st (it :: l))) (snd (step_items st (it :: l))) z.
Proof.
  intros [Hi Hl] Hz HF H3 Hpre. rewrite join_map_cons, <- app_assoc.
  rewrite (one_item F (length l + f') st it (cat_map (fun it0 => [32] ++ print_sitem it0) l ++ z) pre
             Hi ltac:(lia) ltac:(lia) Hpre).
  - change (step_items st (it :: l)) with (step_items (step_item st it) l). apply (run_tail F); assumption.
  - destruct l as [|it2 l2]; [exact Hz|]. right. left. cbn [cat_map app]. eauto.
Qed.

Lemma items_ok_app F l1 : forall st l2,
  items_ok F st l1 -> items_ok F (step_items st l1) l2 -> items_ok F st (l1 ++ l2).
Proof.
  induction l1 as [|it l IH]; intros st l2 H1 H2; [exact H2|].
  destruct H1 as [A B]. split; [exact A|]. apply IH; assumption.
Qed.

Lemma step_items_app st l1 l2 : step_items st (l1 ++ l2) = step_items (step_items st l1) l2.
Proof. apply fold_left_app. Qed.

(* the three kinds of segments *)
Lemma step_redirs rs : forall decl b,
  step_items (decl, b) (map IR rs) = (decl, mkBuilder (b_assigns b) (b_words b) (rev rs ++ b_redirs b)).
Proof.
  induction rs as [|rd rs IH]; intros decl b; [destruct b; reflexivity|].
  cbn [map]. unfold step_items in *. cbn [fold_left step_item]. rewrite IH.
  cbn [add_redir b_assigns b_words b_redirs rev]. rewrite <- app_assoc. reflexivity.
Qed.

Lemma step_assigns l : forall decl b,
  step_items (decl, b) (map IA l) = (decl, mkBuilder (rev l ++ b_assigns b) (b_words b) (b_redirs b)).
Proof.
  induction l as [|a l IH]; intros decl b; [destruct b; reflexivity|].
  cbn [map]. unfold step_items in *. cbn [fold_left step_item]. rewrite IH.
  cbn [add_assign b_assigns b_words b_redirs rev]. rewrite <- app_assoc. reflexivity.
Qed.

Lemma step_words Ws : forall decl b,
  step_items (decl, b) (map IW Ws) =
  (snd (modes decl Ws), mkBuilder (b_assigns b) (rev (fst (modes decl Ws)) ++ b_words b) (b_redirs b)).
Proof.
  induction Ws as [|W Ws IH]; intros decl b; [destruct b; reflexivity|].
  cbn [map]. unfold step_items in *. cbn [fold_left step_item modes]. destruct decl as [d|].
  - rewrite IH. destruct (modes (Some d) Ws) as [l d']. cbn [fst snd add_word b_assigns b_words b_redirs rev].
    rewrite <- app_assoc. reflexivity.
  - rewrite IH. destruct (modes (names_declaration_utility W) Ws) as [l d'].
    cbn [fst snd add_word b_assigns b_words b_redirs rev]. rewrite <- app_assoc. reflexivity.
Qed.

Lemma ok_redirs F rs : Forall (R_ok F None) rs -> forall st, items_ok F st (map IR rs).
Proof.
  induction 1 as [|rd rs H _ IH]; intros st; [exact I|]. cbn [map items_ok]. split; [|apply IH].
  destruct st. exact H.
Qed.

Lemma ok_assigns F l : Forall (A_ok F None) l -> forall b, b_words b = [] -> items_ok F (None, b) (map IA l).
Proof.
  induction 1 as [|a l H _ IH]; intros b Hb; [exact I|]. cbn [map items_ok]. split; [cbn; auto|].
  cbn [step_item]. apply IH. exact Hb.
Qed.

(* words after the first *)
Lemma ok_words_more F Ws : Forall (W_ok F None) Ws -> forall decl b, b_words b <> [] ->
  items_ok F (decl, b) (map IW Ws).
Proof.
  induction 1 as [|W Ws H _ IH]; intros decl b Hb; [exact I|]. cbn [map items_ok]. split.
  - cbn [item_ok]. split; [exact H|]. split; [|intros _ X; congruence].
    right. unfold builder_is_empty. destruct (b_assigns b); [|reflexivity].
    destruct (b_words b); [congruence | reflexivity].
  - cbn [step_item]. destruct decl as [d|]; apply IH; cbn [add_word b_words]; discriminate.
Qed.

Lemma ok_words_first F W1 Ws b :
  Forall (W_ok F None) (W1 :: Ws) -> b_words b = [] -> assign_of_word W1 = None ->
  (word_kw W1 = None \/ builder_is_empty b = false) ->
  items_ok F (None, b) (map IW (W1 :: Ws)).
Proof.
  intros H Hb Ha Hk. cbn [map items_ok]. split.
  - cbn [item_ok]. split; [exact (Forall_inv H)|]. split; [exact Hk | auto].
  - cbn [step_item]. apply ok_words_more; [exact (Forall_inv_tail H)|]. cbn [add_word b_words]. discriminate.
Qed.

(* ---- the printed simple command ---- *)
Lemma join_map_map {A} (pr : A -> str) sep l :
  join_map (fun x => x) sep (map pr l) = join_map pr sep l.
Proof.
  induction l as [|x l IH]; [reflexivity|]. destruct l as [|y l]; [reflexivity|].
  change (join_map (fun x0 => x0) sep (map pr (x :: y :: l)))
    with (pr x ++ sep ++ join_map (fun x0 => x0) sep (map pr (y :: l))).
  rewrite IH. reflexivity.
Qed.

Lemma print_modes Ws : forall decl,
  map (fun x => print_word (fst x)) (fst (modes decl Ws)) = map print_word Ws.
Proof.
  induction Ws as [|W Ws IH]; intros decl; [reflexivity|]. cbn [modes]. destruct decl as [d|].
  - specialize (IH (Some d)). destruct (modes (Some d) Ws) as [l d']. cbn [fst map] in *. rewrite IH.
    f_equal. destruct d; [apply print_expansion_mode | reflexivity].
  - specialize (IH (names_declaration_utility W)). destruct (modes (names_declaration_utility W) Ws) as [l d'].
    cbn [fst map] in *. rewrite IH. reflexivity.
Qed.

Lemma keyword_is_keyword l k : keyword_of l = Some k -> is_keyword l = true.
Proof.
  intros H. apply keyword_of_in in H.
  assert (A : forallb (fun x => is_keyword x) (map fst keyword_table) = true) by (vm_compute; reflexivity).
  rewrite forallb_forall in A. apply A. exact H.
Qed.

Lemma first_kw W1 Ws :
  first_word_is_keyword (fst (modes None (W1 :: Ws))) = false -> word_kw W1 = None.
Proof.
  cbn [modes]. destruct (modes (names_declaration_utility W1) Ws) as [l d']. cbn [fst first_word_is_keyword].
  unfold word_kw. destruct (word_literal W1) as [s|]; [|reflexivity].
  destruct (keyword_of s) as [k|] eqn:Ek; [|reflexivity]. rewrite (keyword_is_keyword _ _ Ek). discriminate.
Qed.


Lemma rev_app_nil_ne {A} (l : list A) : l <> [] -> rev l ++ [] <> [].
Proof. destruct l as [|x l]; [congruence|]. intros _. cbn [rev]. destruct (rev l); discriminate. Qed.

(* ---- items whose printed form does not end with a backslash ---- *)
Lemma last_opt_app {A} (w : list A) u : last_opt w = Some u -> exists w', w = w' ++ [u].
Proof.
  induction w as [|x w IH]; [discriminate|]. destruct w as [|y w].
  - cbn. intros H. inv H. exists []. reflexivity.
  - intros H. change (last_opt (x :: y :: w)) with (last_opt (y :: w)) in H.
    destruct (IH H) as [w' E]. exists (x :: w'). rewrite E. reflexivity.
Qed.

Lemma ends92_app p x : ends92 (p ++ x ++ [92]) = true.
Proof. unfold ends92. rewrite !rev_app_distr. reflexivity. Qed.

Lemma ends_bslash_print p w : ends92 (p ++ print_word w) = false -> ends_bslash w = false.
Proof.
  intros H. destruct (ends_bslash w) eqn:E; [|reflexivity]. unfold ends_bslash in E.
  destruct (last_opt w) as [u|] eqn:El; [|discriminate].
  destruct u as [t| | | |]; try discriminate. destruct t; try discriminate.
  apply N.eqb_eq in E. subst c. destruct (last_opt_app _ _ El) as [w' ->].
  rewrite print_word_app in H. change (print_word [Unquoted (Literal c_bslash)]) with [92] in H.
  rewrite ends92_app in H. discriminate.
Qed.

Lemma settle_nobs F b decl pend s Ws :
  inv F b decl pend s ->
  nobs_res (rev (b_assigns b), fst (modes None Ws), rev (b_redirs b)) ->
  Forall (W_ok F pend) Ws ->
  Forall (R_ok F None) (b_redirs b) /\ Forall (A_ok F None) (b_assigns b) /\ Forall (W_ok F None) Ws.
Proof.
  intros [IR IA _ _] (NA & NW & NR) HW. cbn [fst snd] in *. split; [|split].
  - rewrite Forall_forall in *. intros rd Hin. destruct (IR rd Hin) as (w0 & RI & _).
    exists w0. split; [exact RI|]. left. destruct RI as [[p Ep] _].
    apply (ends_bslash_print p). rewrite <- Ep. apply NR. apply -> in_rev. exact Hin.
  - rewrite Forall_forall in *. intros a Hin. specialize (IA a Hin). unfold A_ok in *.
    destruct (a_value a); [|exact IA]. destruct IA as (W & (w0 & WI & _) & Ep & Ea).
    exists W. split; [|auto]. exists w0. split; [exact WI|]. left.
    apply (ends_bslash_print []). cbn [app]. rewrite <- (wi_print _ _ _ WI), <- Ep.
    apply NA. apply -> in_rev. exact Hin.
  - rewrite Forall_forall in *. intros W Hin. destruct (HW W Hin) as (w0 & WI & _).
    exists w0. split; [exact WI|]. left. apply (ends_bslash_print []). cbn [app].
    rewrite <- (wi_print _ _ _ WI).
    apply (in_map print_word) in Hin. rewrite <- (print_modes Ws None) in Hin.
    apply in_map_iff in Hin. destruct Hin as (e & Ee & Hin). rewrite <- Ee. apply NW. exact Hin.
Qed.

Theorem simple_print_lemma f s a w rds r z pre :
  p_simple f None empty_b s = Ok (Some (a, w, rds), r) ->
  r <> [] \/ nobs_res (a, w, rds) -> nocs_res (a, w, rds) -> follow z -> cmd_end z -> is_lead pre ->
  exists F, forall f', (F <= f')%nat ->
    p_simple f' None empty_b (pre ++ print_simple a w rds ++ z) = Ok (Some (a, w, rds), z).
Proof.
  intros H Hr Hn Hz He Hpre.
  set (F0 := max (S (S f)) 13).
  assert (I0 : inv F0 empty_b None None s).
  { constructor; cbn; auto. exists []. cbn. auto. intros w0 X. discriminate. }
  destruct (simple_first F0 _ _ _ _ _ _ None H ltac:(unfold F0; lia) Hn I0)
    as (bF & declF & pendF & IF & Eres & Hne).
  assert (Hset : exists Ws, Forall (R_ok F0 None) (b_redirs bF) /\ Forall (A_ok F0 None) (b_assigns bF) /\
            Forall (W_ok F0 None) Ws /\ rev (b_words bF) = fst (modes None Ws) /\
            match Ws with
            | W1 :: _ => assign_of_word W1 = None /\
                         (word_kw W1 <> None -> b_assigns bF <> [] \/ b_redirs bF <> [])
            | [] => True
            end).
  { destruct Hr as [Hr|Hr].
    - destruct (inv_settle _ _ _ _ _ IF Hr None) as (SR & SA & SW).
      destruct IF as [_ _ (Ws & HW & E1 & E2 & E3) _]. exists Ws. auto 10.
    - pose proof IF as IF'. destruct IF' as [_ _ (Ws & HW & E1 & E2 & E3) _]. exists Ws.
      inv Eres. rewrite E1 in Hr.
      destruct (settle_nobs _ _ _ _ _ Ws IF Hr HW) as (SR & SA & SW). auto 10. }
  destruct Hset as (Ws & SR & SA & HW & E1 & E3). clear IF Hr.
  inv Eres. rewrite E1.
  set (as_ := rev (b_assigns bF)). set (rs := rev (b_redirs bF)).
  assert (HA : Forall (A_ok F0 None) as_) by (apply Forall_rev; exact SA).
  assert (HR : Forall (R_ok F0 None) rs) by (apply Forall_rev; exact SR).
  (* the loop over any of the two orders *)
  assert (Hfinal : forall its, its <> [] -> items_ok F0 (None, empty_b) its ->
            (exists d, step_items (None, empty_b) its
             = (d, mkBuilder (rev as_ ++ []) (rev (fst (modes None Ws)) ++ []) (rev rs ++ []))) ->
            exists F, forall f', (F <= f')%nat ->
              p_simple f' None empty_b (pre ++ join_map print_sitem [32] its ++ z)
              = Ok (Some (as_, fst (modes None Ws), rs), z)).
  { intros its Hne' Hok (d & Est). destruct its as [|it l]; [congruence|].
    exists (S (length l + S (max F0 3))). intros f' Hf'.
    replace f' with (S (length l + S (f' - length l - 2))) by lia.
    pose proof (run_items F0 it l (None, empty_b) z (S (f' - length l - 2)) pre Hok Hz ltac:(lia) ltac:(lia) Hpre) as Rn.
    cbn [fst snd] in Rn. rewrite Rn. clear Rn.
    rewrite Est. cbn [fst snd].
    rewrite (simple_finish z (f' - length l - 2) d _ He ltac:(lia)).
    cbn [b_assigns b_words b_redirs]. rewrite !app_nil_r, !rev_involutive.
    assert (X : builder_is_empty (mkBuilder (rev as_) (rev (fst (modes None Ws))) (rev rs)) = false).
    { unfold builder_is_empty in *. cbn [b_assigns b_words b_redirs]. unfold as_, rs.
      rewrite !rev_involutive, <- E1, rev_involutive. exact Hne. }
    rewrite X. reflexivity. }
  assert (Hnil : forall its : list sitem,
            (its = [] -> rs = [] /\ as_ = [] /\ Ws = []) -> its <> []).
  { intros its X Y. destruct (X Y) as (Y1 & Y2 & Y3). subst Ws. cbn in E1.
    unfold builder_is_empty in Hne.
    assert (b_redirs bF = []) by (rewrite <- (rev_involutive (b_redirs bF)); fold rs; rewrite Y1; reflexivity).
    assert (b_assigns bF = []) by (rewrite <- (rev_involutive (b_assigns bF)); fold as_; rewrite Y2; reflexivity).
    assert (b_words bF = []) by (rewrite <- (rev_involutive (b_words bF)), E1; reflexivity).
    rewrite H0, H1, H2 in Hne. discriminate. }
  (* redirections, assignments, words *)
  assert (HordA : exists F, forall f', (F <= f')%nat ->
            p_simple f' None empty_b
              (pre ++ join_map (fun x => x) [32]
                 (map print_redir rs ++ map print_assign as_ ++ map print_word Ws) ++ z)
            = Ok (Some (as_, fst (modes None Ws), rs), z)).
  { destruct (Hfinal (map IR rs ++ map IA as_ ++ map IW Ws)) as [F HF].
    - apply Hnil. intros X. apply app_eq_nil in X. destruct X as [X1 X]. apply app_eq_nil in X.
      destruct X as [X2 X3]. apply map_eq_nil in X1, X2, X3. auto.
    - apply items_ok_app; [apply ok_redirs; exact HR|]. rewrite step_redirs.
      apply items_ok_app; [apply ok_assigns; [exact HA | reflexivity]|]. rewrite step_assigns.
      cbn [b_assigns b_words b_redirs empty_b].
      destruct Ws as [|W1 Ws']; [exact I|]. destruct E3 as [E3 E4].
      apply ok_words_first; [exact HW | reflexivity | exact E3|].
      destruct (word_kw W1) as [k|] eqn:Ek; [|left; reflexivity]. right.
      unfold as_, rs. rewrite !rev_involutive, !app_nil_r.
      unfold builder_is_empty. cbn [b_assigns b_words b_redirs].
      destruct (E4 ltac:(discriminate)) as [X|X].
      + destruct (b_assigns bF); [congruence | reflexivity].
      + destruct (b_assigns bF); [|reflexivity]. destruct (b_redirs bF); [congruence | reflexivity].
    - rewrite step_items_app, step_redirs, step_items_app, step_assigns, step_words.
      cbn [b_assigns b_words b_redirs empty_b]. eexists. reflexivity.
    - exists F. intros f' Hf'. rewrite <- (HF f' Hf'). f_equal. f_equal. f_equal.
      rewrite <- (join_map_map print_sitem). f_equal. rewrite !map_app, !map_map. reflexivity. }
  assert (HordB : (as_ <> [] \/ first_word_is_keyword (fst (modes None Ws)) = false) ->
          exists F, forall f', (F <= f')%nat ->
            p_simple f' None empty_b
              (pre ++ join_map (fun x => x) [32]
                 (map print_assign as_ ++ map print_word Ws ++ map print_redir rs) ++ z)
            = Ok (Some (as_, fst (modes None Ws), rs), z)).
  { intros Hcond. destruct (Hfinal (map IA as_ ++ map IW Ws ++ map IR rs)) as [F HF].
    - apply Hnil. intros X. apply app_eq_nil in X. destruct X as [X1 X]. apply app_eq_nil in X.
      destruct X as [X2 X3]. apply map_eq_nil in X1, X2, X3. auto.
    - apply items_ok_app; [apply ok_assigns; [exact HA | reflexivity]|]. rewrite step_assigns.
      cbn [b_assigns b_words b_redirs empty_b].
      apply items_ok_app; [|apply ok_redirs; exact HR].
      destruct Ws as [|W1 Ws']; [exact I|]. destruct E3 as [E3 E4].
      apply ok_words_first; [exact HW | reflexivity | exact E3|].
      destruct Hcond as [X|X]; [|left; eapply first_kw; exact X].
      right. unfold builder_is_empty. cbn [b_assigns b_words b_redirs].
      pose proof (rev_app_nil_ne _ X) as Y. destruct (rev as_ ++ []); [congruence | reflexivity].
    - rewrite step_items_app, step_assigns, step_items_app, step_words, step_redirs.
      cbn [b_assigns b_words b_redirs empty_b fst snd]. eexists. reflexivity.
    - exists F. intros f' Hf'. rewrite <- (HF f' Hf'). f_equal. f_equal. f_equal.
      rewrite <- (join_map_map print_sitem). f_equal. rewrite !map_app, !map_map. reflexivity. }
  (* all redirections but the last, words, the last redirection *)
  assert (HordC : forall rs1 lr, rs = rs1 ++ [lr] -> rs1 <> [] -> as_ = [] ->
          exists F, forall f', (F <= f')%nat ->
            p_simple f' None empty_b
              (pre ++ join_map (fun x => x) [32]
                 (map print_redir rs1 ++ map print_word Ws ++ [print_redir lr]) ++ z)
            = Ok (Some (as_, fst (modes None Ws), rs), z)).
  { intros rs1 lr Ers Hrs1 Eas.
    assert (HR' : Forall (R_ok F0 None) (rs1 ++ [lr])) by (rewrite <- Ers; exact HR).
    apply Forall_app in HR'. destruct HR' as [HR1 HR2].
    destruct (Hfinal (map IR rs1 ++ map IW Ws ++ map IR [lr])) as [F HF].
    - intros X. apply app_eq_nil in X. destruct X as [X1 _]. apply map_eq_nil in X1. congruence.
    - apply items_ok_app; [apply ok_redirs; exact HR1|]. rewrite step_redirs.
      cbn [b_assigns b_words b_redirs empty_b].
      apply items_ok_app; [|apply ok_redirs; exact HR2].
      destruct Ws as [|W1 Ws']; [exact I|]. destruct E3 as [E3 E4].
      apply ok_words_first; [exact HW | reflexivity | exact E3|].
      right. unfold builder_is_empty. cbn [b_assigns b_words b_redirs].
      pose proof (rev_app_nil_ne _ Hrs1) as Y. destruct (rev rs1 ++ []); [congruence | reflexivity].
    - rewrite step_items_app, step_redirs, step_items_app, step_words, step_redirs.
      cbn [b_assigns b_words b_redirs empty_b fst snd]. eexists. f_equal. f_equal.
      + rewrite Eas. reflexivity.
      + rewrite Ers, rev_app_distr. cbn [rev app]. reflexivity.
    - exists F. intros f' Hf'. rewrite <- (HF f' Hf'). f_equal. f_equal. f_equal.
      rewrite <- (join_map_map print_sitem). f_equal. rewrite !map_app, !map_map. reflexivity. }
  unfold print_simple. rewrite print_modes.
  destruct (ends_with_backslash as_ (fst (modes None Ws))); [exact HordA|].
  destruct (negb match as_ with [] => true | _ :: _ => false end
            || negb (first_word_is_keyword (fst (modes None Ws)))) eqn:Ec.
  - apply HordB. apply Bool.orb_true_iff in Ec. destruct Ec as [Ec|Ec].
    + left. destruct as_; [discriminate | discriminate].
    + right. apply Bool.negb_true_iff in Ec. exact Ec.
  - apply Bool.orb_false_iff in Ec. destruct Ec as [Ec _]. apply Bool.negb_false_iff in Ec.
    destruct as_ as [|? ?] eqn:Eas; [|discriminate].
    destruct (rev rs) as [|lr [|o1 others]] eqn:Erev; try exact HordA.
    destruct (operand_ends_with_backslash lr); [|exact HordA].
    apply HordC; [|cbn [rev]; intros X; apply app_eq_nil in X; destruct X; discriminate | reflexivity].
    rewrite <- (rev_involutive rs), Erev. reflexivity.
Qed.
