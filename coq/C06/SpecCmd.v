(* C06 — the vocabulary of the command-level round-trip theorems (simple
   commands): which trees are covered and what may follow the printed text. *)
From Yv Require Import Common.Base C06.Ast C06.Print C06.Lex C06.Parse C06.SpecLex.
Local Open Scope N_scope.

(* ---- what ends a command: an operator other than a redirection operator and
   the opening parenthesis, or the end of the text ------------------------------------------- *)

Definition end_char (c : N) : bool :=
  (c =? 10) || (c =? 38) || (c =? 41) || (c =? 59) || (c =? 124).

(* after blanks and a comment the text is empty or starts with such a character *)
Definition cmd_end (z : str) : Prop :=
  match skip_blanks_and_comment z with
  | [] => True
  | c :: _ => end_char c = true
  end.

(* the text directly after the printed command: nothing, a blank, or such a character *)
Definition follow (z : str) : Prop :=
  z = [] \/ (exists z', z = 32 :: z') \/ (exists c z', z = c :: z' /\ end_char c = true).

(* the printed command may be preceded by one blank *)
Definition is_lead (pre : str) : Prop := pre = [] \/ pre = [32].

(* ---- the simple commands covered ---------------------------------------------------------------- *)

(* no `$(...)` command substitution in any word *)
Definition nocs_redir (rd : redir) : bool :=
  match r_body rd with
  | RNormal _ w => nocs_word w
  | RHereDoc d _ _ => nocs_word d
  end.

Definition nocs_assign (a : assign) : bool :=
  match a_value a with
  | Scalar v => nocs_word v
  | Array ws => forallb nocs_word ws
  end.

Definition nocs_res (res : list assign * list (word * exp_mode) * list redir) : Prop :=
  (forall a, In a (fst (fst res)) -> nocs_assign a = true) /\
  (forall e, In e (snd (fst res)) -> nocs_word (fst e) = true) /\
  (forall rd, In rd (snd res) -> nocs_redir rd = true).

(* no assignment, word or redirection whose printed form ends with a backslash
   (a word can end with an unquoted backslash only at the end of the input) *)
Definition ends92 (x : str) : bool := match rev x with c :: _ => c =? 92 | [] => false end.

Definition nobs_res (res : list assign * list (word * exp_mode) * list redir) : Prop :=
  (forall a, In a (fst (fst res)) -> ends92 (print_assign a) = false) /\
  (forall e, In e (snd (fst res)) -> ends92 (print_word (fst e)) = false) /\
  (forall rd, In rd (snd res) -> ends92 (print_redir rd) = false).

(* the state in which simple_command.rs starts *)
Definition empty_b : builder := mkBuilder [] [] [].

(* ---- the lists covered: pipelines, and-or lists and sequences of simple
   commands without `$(...)` whose printed items do not end with a backslash --------- *)

Definition clean_command (c : command) : Prop :=
  match c with
  | CSimple a w rds => nocs_res (a, w, rds) /\ nobs_res (a, w, rds)
  | _ => False
  end.

Definition clean_pipeline (p : pipeline) : Prop :=
  match p with Pipeline cs _ => Forall clean_command cs end.

Definition clean_and_or (ao : and_or_list) : Prop :=
  match ao with
  | AndOrList p rest => clean_pipeline p /\ Forall (fun x => clean_pipeline (snd x)) rest
  end.

Definition clean_list (l : slist) : Prop :=
  Forall (fun i => match i with Item ao _ => clean_and_or ao end) l.
