(* C06 — Gallina model of the token layer (lex/op.rs, lex/token.rs,
   lex/keyword.rs, lex/misc.rs) and of the command-level parser
   (parser/{core,list,and_or,pipeline,command,simple_command,redir,function,
   compound_command,grouping,if,while_loop,for_loop,case}.rs and
   from_str.rs `impl FromStr for List`), default parser mode, no aliases,
   POSIX declaration utilities.

   A parser function takes the text that starts at the not yet consumed
   token and returns the text after the last token it consumed; "peeking" a
   token lexes it without moving on (the Rust parser caches the token it
   peeked; the lexer is deterministic, so lexing it again is the same).
   Here-document operators make the model answer [Unsupp]: here-document
   contents are outside the model (and outside the property). *)
From Yv Require Import Common.Base C06.Ast C06.Print C06.Lex.
From Coq Require Ascii String.
Import Coq.Strings.String.StringSyntax.
Local Open Scope N_scope.

(* ---- operators and keywords ---------------------------------------------------- *)

Inductive operator :=
| OpNewline | OpAnd | OpAndAnd | OpOpenParen | OpCloseParen | OpSemicolon | OpSemicolonAnd
| OpSemicolonSemicolon | OpSemicolonSemicolonAnd | OpSemicolonBar | OpLess | OpLessAnd
| OpLessOpenParen | OpLessLess | OpLessLessDash | OpLessLessLess | OpLessGreater | OpGreater
| OpGreaterAnd | OpGreaterOpenParen | OpGreaterGreater | OpGreaterGreaterBar | OpGreaterBar
| OpBar | OpBarBar.

Inductive keyword :=
| KBang | KOpenBracketBracket | KCloseBracketBracket | KCase | KDo | KDone | KElif | KElse
| KEsac | KFi | KFor | KFunction | KIf | KIn | KNamespace | KSelect | KThen | KUntil | KWhile
| KOpenBrace | KCloseBrace.

Definition keyword_table : list (str * keyword) :=
  Eval compute in
    [(lit "!", KBang); (lit "[[", KOpenBracketBracket); (lit "]]", KCloseBracketBracket);
     (lit "case", KCase); (lit "do", KDo); (lit "done", KDone); (lit "elif", KElif);
     (lit "else", KElse); (lit "esac", KEsac); (lit "fi", KFi); (lit "for", KFor);
     (lit "function", KFunction); (lit "if", KIf); (lit "in", KIn);
     (lit "namespace", KNamespace); (lit "select", KSelect); (lit "then", KThen);
     (lit "until", KUntil); (lit "while", KWhile); (lit "{", KOpenBrace); (lit "}", KCloseBrace)].

Definition keyword_of (s : str) : option keyword :=
  match find (fun p => str_eqb (fst p) s) keyword_table with
  | Some (_, k) => Some k
  | None => None
  end.

Inductive token_id :=
| TToken (k : option keyword)
| TOp (o : operator)
| TIoNumber
| TIoLocation
| TEnd.

(* [t_at]: the text from the first character of the token (its index) *)
Record token := mkToken { t_word : word; t_id : token_id; t_at : str }.

(* Keyword::is_clause_delimiter, Operator::is_clause_delimiter, TokenId:: *)
Definition is_clause_delimiter (t : token_id) : bool :=
  match t with
  | TToken (Some (KDo | KDone | KElif | KElse | KEsac | KFi | KThen | KCloseBrace)) => true
  | TToken _ => false
  | TOp (OpCloseParen | OpSemicolonAnd | OpSemicolonSemicolon | OpSemicolonSemicolonAnd
        | OpSemicolonBar) => true
  | TOp _ => false
  | TIoNumber | TIoLocation => false
  | TEnd => true
  end.

(* ---- lex/op.rs: the operator trie, longest match ----------------------------------- *)

(* the next character (line continuations skipped) selects a continuation,
   otherwise the operator read so far stands *)
Definition alt (s : str) (cases : list (N * (str -> operator * str))) (dflt : operator)
    : operator * str :=
  match skip_lc s with
  | c :: s' => match find (fun p => fst p =? c) cases with
               | Some (_, k) => k s'
               | None => (dflt, c :: s')
               end
  | [] => (dflt, [])
  end.

Definition fin (o : operator) : str -> operator * str := fun r => (o, r).

Definition lex_operator (s : str) : option (operator * str) :=
  match skip_lc s with
  | [] => None
  | c :: s1 =>
      if c =? 10 then Some (OpNewline, s1)
      else if c =? 38 then Some (alt s1 [(38, fin OpAndAnd)] OpAnd)
      else if c =? 40 then Some (OpOpenParen, s1)
      else if c =? 41 then Some (OpCloseParen, s1)
      else if c =? 59 then
        Some (alt s1 [(38, fin OpSemicolonAnd);
                      (59, fun r => alt r [(38, fin OpSemicolonSemicolonAnd)] OpSemicolonSemicolon);
                      (124, fin OpSemicolonBar)] OpSemicolon)
      else if c =? 60 then
        Some (alt s1 [(38, fin OpLessAnd); (40, fin OpLessOpenParen);
                      (60, fun r => alt r [(45, fin OpLessLessDash); (60, fin OpLessLessLess)]
                                        OpLessLess);
                      (62, fin OpLessGreater)] OpLess)
      else if c =? 62 then
        Some (alt s1 [(38, fin OpGreaterAnd); (40, fin OpGreaterOpenParen);
                      (62, fun r => alt r [(124, fin OpGreaterGreaterBar)] OpGreaterGreater);
                      (124, fin OpGreaterBar)] OpGreater)
      else if c =? 124 then Some (alt s1 [(124, fin OpBarBar)] OpBar)
      else None
  end.

(* ---- lex/misc.rs ---------------------------------------------------------------------- *)

Fixpoint skip_blanks (f : nat) (s : str) : str :=
  match f with
  | O => skip_lc s
  | S f => match skip_lc s with
           | c :: s' => if is_blank c then skip_blanks f s' else c :: s'
           | [] => []
           end
  end.

Fixpoint drop_line (s : str) : str :=
  match s with
  | c :: s' => if c =? c_nl then s else drop_line s'
  | [] => []
  end.

Definition skip_comment (s : str) : str :=
  match skip_lc s with
  | c :: s' => if c =? c_hash then drop_line s' else c :: s'
  | [] => []
  end.

Definition skip_blanks_and_comment (s : str) : str := skip_comment (skip_blanks (length s) s).

(* ---- lex/token.rs ------------------------------------------------------------------------ *)

Definition peek_is_redir (s : str) : bool :=
  match skip_lc s with c :: _ => (c =? 60) || (c =? 62) | [] => false end.

Definition token_id_of (w : word) (rest : str) : token_id :=
  match w with
  | [] => TEnd
  | first :: _ =>
      let lit_id :=
        match word_literal w with
        | Some l =>
            match keyword_of l with
            | Some k => Some (TToken (Some k))
            | None => if forallb is_digit l && peek_is_redir rest then Some TIoNumber else None
            end
        | None => None
        end in
      match lit_id with
      | Some t => t
      | None =>
          let braced :=
            match first with
            | Unquoted (Literal c) =>
                (c =? c_lbrace)
                && match last w first with
                   | Unquoted (Literal c') => (c' =? c_rbrace) && (3 <=? length w)%nat
                   | Unquoted (Backslashed c') => c' =? c_rbrace
                   | Unquoted (BracedParam _ _) => true
                   | _ => false
                   end
            | _ => false
            end in
          if braced && peek_is_redir rest then TIoLocation else TToken None
      end
  end.

Section Token.
  Variable inner : str -> res (str * str).

  (* Parser::require_token + Lexer::token: the next token and the text after it *)
  Definition lex_token (f : nat) (s : str) : res (token * str) :=
    let s0 := skip_blanks_and_comment s in
    match lex_operator s0 with
    | Some (op, r) => Ok (mkToken [] (TOp op) s0, r)
    | None =>
        let* (w, r) := lex_units inner f CWord DToken s0 in
        let w := tilde_front w in
        Ok (mkToken w (token_id_of w r) s0, r)
    end.
End Token.

(* ---- conversions ------------------------------------------------------------------------------ *)

Definition redir_op_of (o : operator) : option redir_op :=
  match o with
  | OpLess => Some FileIn | OpLessGreater => Some FileInOut | OpGreater => Some FileOut
  | OpGreaterGreater => Some FileAppend | OpGreaterBar => Some FileClobber
  | OpLessAnd => Some FdIn | OpGreaterAnd => Some FdOut | OpGreaterGreaterBar => Some Pipe
  | OpLessLessLess => Some HereString
  | _ => None
  end.

Definition case_cont_of (o : operator) : option case_cont :=
  match o with
  | OpSemicolonSemicolon => Some CcBreak
  | OpSemicolonAnd => Some CcFallThrough
  | OpSemicolonBar | OpSemicolonSemicolonAnd => Some CcContinue
  | _ => None
  end.

(* position of the first unquoted '=' *)
Fixpoint find_eq (w : word) : option nat :=
  match w with
  | [] => None
  | Unquoted (Literal c) :: w' =>
      if c =? 61 then Some O else match find_eq w' with Some n => Some (S n) | None => None end
  | _ :: w' => match find_eq w' with Some n => Some (S n) | None => None end
  end.

(* impl TryFrom<Word> for Assign *)
Definition assign_of_word (w : word) : option assign :=
  match find_eq w with
  | Some (S n as eq) =>
      match word_literal (firstn eq w) with
      | Some name =>
          let v := skipn (S eq) w in
          Some (mkAssign name (Scalar (tilde_everywhere (S (length v)) v)))
      | None => None
      end
  | _ => None
  end.

(* simple_command.rs determine_expansion_mode *)
Definition determine_expansion_mode (w : word) : word * exp_mode :=
  match find_eq w with
  | Some eq =>
      match word_literal (firstn eq w) with
      | Some (_ :: _) =>
          let v := skipn (S eq) w in
          (firstn (S eq) w ++ tilde_everywhere (S (length v)) v, Single)
      | _ => (w, Multiple)
      end
  | None => (w, Multiple)
  end.

(* Parser::word_names_declaration_utility with the PosixGlossary *)
Definition names_declaration_utility (w : word) : option bool :=
  match word_literal w with
  | Some l => if str_eqb l (lit "export") || str_eqb l (lit "readonly") then Some true
              else if str_eqb l (lit "command") then None
              else Some false
  | None => Some false
  end.

(* str::parse::<i32>() of an all-digit string *)
Definition fd_of_word (w : word) : option Z :=
  match word_literal w with
  | Some l => match dec_value 0 l with
              | Some v => if v <=? 2147483647 then Some (Z.of_N v) else None
              | None => None
              end
  | None => None
  end.

(* ---- token-level helpers that do not recurse into commands ------------------------------------- *)

Section WithTokens.
  (* the token function, closed over the parser for command substitutions *)
  Variable tk : str -> res (token * str).

  (* while newline_and_here_doc_contents() {} *)
  Fixpoint skip_newlines (f : nat) (s : str) : res str :=
    match f with
    | O => Fuel
    | S f =>
        let* (t, s') := tk s in
        match t_id t with
        | TOp OpNewline => skip_newlines f s'
        | _ => Ok s
        end
    end.

  (* redir.rs redirection *)
  Definition p_redir (s : str) : res (option redir * str) :=
    let* (t, s1) := tk s in
    let* (fd, s2) :=
      (match t_id t with
       | TIoNumber => match fd_of_word (t_word t) with
                      | Some fd => Ok (Some fd, s1)
                      | None => Err                               (* FdOutOfRange *)
                      end
       | TIoLocation => Err                                       (* InvalidIoLocation *)
       | _ => Ok (None, s)
       end) in
    let* (t', s3) := tk s2 in
    match t_id t' with
    | TOp op =>
        match redir_op_of op with
        | Some rop =>
            let* (o, s4) := tk s3 in
            match t_id o with
            | TToken _ | TIoNumber | TIoLocation =>
                Ok (Some (mkRedir fd (RNormal rop (t_word o))), s4)
            | TOp _ | TEnd => Err                                 (* MissingRedirOperand *)
            end
        | None =>
            match op with
            | OpLessLess | OpLessLessDash => Unsupp               (* here-document *)
            | OpLessOpenParen | OpGreaterOpenParen => Err         (* process redirection *)
            | _ => Ok (None, s2)
            end
        end
    | _ => Ok (None, s2)
    end.

  (* redir.rs redirections *)
  Fixpoint p_redirs (f : nat) (s : str) : res (list redir * str) :=
    match f with
    | O => Fuel
    | S f =>
        let* (o, s1) := p_redir s in
        match o with
        | Some r => let* (rs, s2) := p_redirs f s1 in Ok (r :: rs, s2)
        | None => Ok ([], s1)
        end
    end.

  (* simple_command.rs array_values, after the opening parenthesis *)
  Fixpoint p_array (f : nat) (s : str) : res (list word * str) :=
    match f with
    | O => Fuel
    | S f =>
        let* (t, s1) := tk s in
        match t_id t with
        | TOp OpNewline => p_array f s1
        | TOp OpCloseParen => Ok ([], s1)
        | TToken _ => let* (ws, s2) := p_array f s1 in Ok (t_word t :: ws, s2)
        | _ => Err                                                (* UnclosedArrayValue *)
        end
    end.

  (* for_loop.rs: the words after `in` up to `;`, newline or end of input *)
  Fixpoint p_for_words (f : nat) (s : str) : res (list word * str) :=
    match f with
    | O => Fuel
    | S f =>
        let* (t, s1) := tk s in
        match t_id t with
        | TToken _ | TIoNumber | TIoLocation =>
            let* (ws, s2) := p_for_words f s1 in Ok (t_word t :: ws, s2)
        | TOp OpSemicolon | TOp OpNewline | TEnd => Ok ([], s1)
        | TOp _ => Err                                            (* InvalidForValue *)
        end
    end.

  (* for_loop.rs for_loop_values: [None] = no `in` *)
  Fixpoint p_for_values (f : nat) (first_line : bool) (s : str)
      : res (option (list word) * str) :=
    match f with
    | O => Fuel
    | S f =>
        let* (t, s1) := tk s in
        match t_id t with
        | TOp OpSemicolon => if first_line then Ok (None, s1) else Err
        | TToken (Some KDo) => Ok (None, s)
        | TOp OpNewline => p_for_values f false s1
        | TToken (Some KIn) => let* (ws, s2) := p_for_words f s1 in Ok (Some ws, s2)
        | _ => Err                                                (* MissingForBody *)
        end
    end.

  (* case.rs: the rest of the pattern list after the first pattern *)
  Fixpoint p_patterns (f : nat) (s : str) : res (list word * str) :=
    match f with
    | O => Fuel
    | S f =>
        let* (t, s1) := tk s in
        match t_id t with
        | TOp OpCloseParen => Ok ([], s1)
        | TOp OpBar =>
            let* (p, s2) := tk s1 in
            match t_id p with
            | TToken _ => let* (ps, s3) := p_patterns f s2 in Ok (t_word p :: ps, s3)
            | _ => Err
            end
        | _ => Err                                                (* UnclosedPatternList *)
        end
    end.
End WithTokens.

(* simple_command.rs: what has been collected so far *)
Record builder := mkBuilder {
  b_assigns : list assign;       (* reversed *)
  b_words : list (word * exp_mode);   (* reversed *)
  b_redirs : list redir          (* reversed *)
}.

Definition builder_is_empty (b : builder) : bool :=
  match b_assigns b, b_words b, b_redirs b with [], [], [] => true | _, _, _ => false end.

(* ---- the recursive-descent parser ---------------------------------------------------------------------- *)

Fixpoint p_inner (f : nat) (s : str) {struct f} : res (str * str) :=
  (* Lexer::inner_program *)
  match f with
  | O => Fuel
  | S f =>
      let tk := lex_token (p_inner f) f in
      let* (_, s1) := p_mcl f s in
      let* (t, _) := tk s1 in
      Ok (firstn (length s - length (t_at t)) s, t_at t)
  end

(* list.rs maybe_compound_list *)
with p_mcl (f : nat) (s : str) {struct f} : res (slist * str) :=
  match f with
  | O => Fuel
  | S f =>
      let tk := lex_token (p_inner f) f in
      let* (l, s1) := p_list f s in
      let* (t, s2) := tk s1 in
      match t_id t with
      | TOp OpNewline => let* (l', s3) := p_mcl f s2 in Ok (l ++ l', s3)
      | id => if is_clause_delimiter id then Ok (l, s1) else Err      (* InvalidCommandToken *)
      end
  end

(* list.rs list *)
with p_list (f : nat) (s : str) {struct f} : res (slist * str) :=
  match f with
  | O => Fuel
  | S f =>
      let tk := lex_token (p_inner f) f in
      let* (o, s1) := p_and_or f s in
      match o with
      | None => Ok ([], s1)
      | Some ao =>
          let* (t, s2) := tk s1 in
          match t_id t with
          | TOp OpSemicolon => let* (l, s3) := p_list f s2 in Ok (Item ao false :: l, s3)
          | TOp OpAnd => let* (l, s3) := p_list f s2 in Ok (Item ao true :: l, s3)
          | _ => Ok ([Item ao false], s1)
          end
      end
  end

(* and_or.rs and_or_list *)
with p_and_or (f : nat) (s : str) {struct f} : res (option and_or_list * str) :=
  match f with
  | O => Fuel
  | S f =>
      let* (o, s1) := p_pipeline f s in
      match o with
      | None => Ok (None, s1)
      | Some p => let* (rest, s2) := p_and_or_rest f s1 in Ok (Some (AndOrList p rest), s2)
      end
  end

with p_and_or_rest (f : nat) (s : str) {struct f} : res (list (and_or * pipeline) * str) :=
  match f with
  | O => Fuel
  | S f =>
      let tk := lex_token (p_inner f) f in
      let* (t, s1) := tk s in
      let go (c : and_or) :=
        let* s2 := skip_newlines tk f s1 in
        let* (o, s3) := p_pipeline f s2 in
        match o with
        | None => Err                                                (* MissingPipeline *)
        | Some p => let* (rest, s4) := p_and_or_rest f s3 in Ok ((c, p) :: rest, s4)
        end in
      match t_id t with
      | TOp OpAndAnd => go AndThen
      | TOp OpBarBar => go OrElse
      | _ => Ok ([], s)
      end
  end

(* pipeline.rs pipeline *)
with p_pipeline (f : nat) (s : str) {struct f} : res (option pipeline * str) :=
  match f with
  | O => Fuel
  | S f =>
      let tk := lex_token (p_inner f) f in
      let* (o, s1) := p_command f s in
      let* (first, s2) :=
        (match o with
         | Some c => Ok (Some (c, false), s1)
         | None =>
             let* (t, s1') := tk s1 in
             match t_id t with
             | TToken (Some KBang) =>
                 let* (o', s2) := p_command f s1' in
                 match o' with
                 | Some c => Ok (Some (c, true), s2)
                 | None => Err                                       (* DoubleNegation / MissingCommandAfterBang *)
                 end
             | _ => Ok (None, s1)
             end
         end) in
      match first with
      | None => Ok (None, s2)
      | Some (c, neg) =>
          let* (cs, s3) := p_pipe_rest f s2 in Ok (Some (Pipeline (c :: cs) neg), s3)
      end
  end

with p_pipe_rest (f : nat) (s : str) {struct f} : res (list command * str) :=
  match f with
  | O => Fuel
  | S f =>
      let tk := lex_token (p_inner f) f in
      let* (t, s1) := tk s in
      match t_id t with
      | TOp OpBar =>
          let* s2 := skip_newlines tk f s1 in
          let* (o, s3) := p_command f s2 in
          match o with
          | None => Err                                              (* BangAfterBar / MissingCommandAfterBar *)
          | Some c => let* (cs, s4) := p_pipe_rest f s3 in Ok (c :: cs, s4)
          end
      | _ => Ok ([], s)
      end
  end

(* command.rs command *)
with p_command (f : nat) (s : str) {struct f} : res (option command * str) :=
  match f with
  | O => Fuel
  | S f =>
      let tk := lex_token (p_inner f) f in
      let* (o, s1) := p_simple f None (mkBuilder [] [] []) s in
      match o with
      | Some (a, w, r) =>
          (* function.rs short_function_definition *)
          match a, w, r with
          | [], [(name, _)], [] =>
              let* (t, s2) := tk s1 in
              match t_id t with
              | TOp OpOpenParen =>
                  let* (t', s3) := tk s2 in
                  match t_id t' with
                  | TOp OpCloseParen =>
                      let* s4 := skip_newlines tk f s3 in
                      let* (o', s5) := p_full_compound f s4 in
                      match o' with
                      | Some (c, rs) => Ok (Some (CFunction false name c rs), s5)
                      | None => Err                                  (* Invalid/MissingFunctionBody *)
                      end
                  | _ => Err                                         (* UnmatchedParenthesis *)
                  end
              | _ => Ok (Some (CSimple a w r), s1)
              end
          | _, _, _ => Ok (Some (CSimple a w r), s1)
          end
      | None =>
          let* (o', s2) := p_full_compound f s1 in
          match o' with
          | Some (c, rs) => Ok (Some (CCompound c rs), s2)
          | None =>
              let* (t, _) := tk s2 in
              match t_id t with
              | TToken (Some (KFunction | KOpenBracketBracket | KNamespace | KSelect)) => Err
              | _ => Ok (None, s2)
              end
          end
      end
  end

(* simple_command.rs simple_command: the loop; [decl] is is_declaration_utility *)
with p_simple (f : nat) (decl : option bool) (b : builder) (s : str) {struct f}
    : res (option (list assign * list (word * exp_mode) * list redir) * str) :=
  match f with
  | O => Fuel
  | S f =>
      let tk := lex_token (p_inner f) f in
      let finish (s' : str) :=
        if builder_is_empty b then Ok (None, s')
        else Ok (Some (rev (b_assigns b), rev (b_words b), rev (b_redirs b)), s') in
      let* (o, s1) := p_redir tk s in
      match o with
      | Some r => p_simple f decl (mkBuilder (b_assigns b) (b_words b) (r :: b_redirs b)) s1
      | None =>
          let* (t, s2) := tk s1 in
          let take :=
            match t_id t with
            | TToken (Some _) => negb (builder_is_empty b)
            | TToken None => true
            | _ => false
            end in
          if negb take then finish s1
          else
            let w := t_word t in
            match decl with
            | Some d =>
                let e := if d then determine_expansion_mode w else (w, Multiple) in
                p_simple f decl (mkBuilder (b_assigns b) (e :: b_words b) (b_redirs b)) s2
            | _ =>
                let a := match b_words b with [] => assign_of_word w | _ => None end in
                match a with
                | None =>
                    p_simple f (names_declaration_utility w)
                             (mkBuilder (b_assigns b) ((w, Multiple) :: b_words b) (b_redirs b)) s2
                | Some a =>
                    (* array assignment? *)
                    let empty := match a_value a with Scalar [] => true | _ => false end in
                    let blank := match skip_lc s2 with c :: _ => is_blank c | [] => false end in
                    let* (a', s3) :=
                      (if empty && negb blank then
                         let* (t', s2') := tk s2 in
                         match t_id t' with
                         | TOp OpOpenParen =>
                             let* (ws, s3) := p_array tk f s2' in
                             Ok (mkAssign (a_name a) (Array ws), s3)
                         | _ => Ok (a, s2)
                         end
                       else Ok (a, s2)) in
                    p_simple f decl (mkBuilder (a' :: b_assigns b) (b_words b) (b_redirs b)) s3
                end
            end
      end
  end

(* compound_command.rs full_compound_command *)
with p_full_compound (f : nat) (s : str) {struct f} : res (option (compound * list redir) * str) :=
  match f with
  | O => Fuel
  | S f =>
      let tk := lex_token (p_inner f) f in
      let* (o, s1) := p_compound f s in
      match o with
      | None => Ok (None, s1)
      | Some c => let* (rs, s2) := p_redirs tk f s1 in Ok (Some (c, rs), s2)
      end
  end

(* compound_command.rs compound_command and the parsers it dispatches to *)
with p_compound (f : nat) (s : str) {struct f} : res (option compound * str) :=
  match f with
  | O => Fuel
  | S f =>
      let tk := lex_token (p_inner f) f in
      let* (t, s1) := tk s in
      match t_id t with
      | TToken (Some KOpenBrace) =>
          (* grouping.rs grouping *)
          let* (l, s2) := p_mcl f s1 in
          let* (c, s3) := tk s2 in
          match t_id c, l with
          | TToken (Some KCloseBrace), _ :: _ => Ok (Some (Grouping l), s3)
          | _, _ => Err
          end
      | TOp OpOpenParen =>
          (* grouping.rs subshell *)
          let* (l, s2) := p_mcl f s1 in
          let* (c, s3) := tk s2 in
          match t_id c, l with
          | TOp OpCloseParen, _ :: _ => Ok (Some (Subshell l), s3)
          | _, _ => Err
          end
      | TToken (Some KFor) =>
          (* for_loop.rs for_loop *)
          let* (n, s2) := tk s1 in
          match t_id n with
          | TToken _ | TIoNumber | TIoLocation =>
              let* (vs, s3) := p_for_values tk f true s2 in
              let* s4 := skip_newlines tk f s3 in
              let* (o, s5) := p_do_clause f s4 in
              match o with
              | Some body => Ok (Some (For (t_word n) vs body), s5)
              | None => Err                                          (* MissingForBody *)
              end
          | _ => Err                                                 (* Missing/InvalidForName *)
          end
      | TToken (Some KWhile) =>
          let* (c, s2) := p_mcl f s1 in
          match c with
          | [] => Err
          | _ => let* (o, s3) := p_do_clause f s2 in
                 match o with Some b => Ok (Some (While c b), s3) | None => Err end
          end
      | TToken (Some KUntil) =>
          let* (c, s2) := p_mcl f s1 in
          match c with
          | [] => Err
          | _ => let* (o, s3) := p_do_clause f s2 in
                 match o with Some b => Ok (Some (Until c b), s3) | None => Err end
          end
      | TToken (Some KIf) =>
          (* if.rs if_command *)
          let* (c, s2) := p_mcl f s1 in
          let* (th, s3) := tk s2 in
          match c, t_id th with
          | _ :: _, TToken (Some KThen) =>
              let* (b, s4) := p_mcl f s3 in
              match b with
              | [] => Err
              | _ =>
                  let* (es, s5) := p_elifs f s4 in
                  let* (t', s6) := tk s5 in
                  let* (el, s7) :=
                    (match t_id t' with
                     | TToken (Some KElse) =>
                         let* (l, s7) := p_mcl f s6 in
                         match l with [] => Err | _ => Ok (Some l, s7) end
                     | _ => Ok (None, s5)
                     end) in
                  let* (fi, s8) := tk s7 in
                  match t_id fi with
                  | TToken (Some KFi) => Ok (Some (If c b es el), s8)
                  | _ => Err                                         (* UnclosedIf *)
                  end
              end
          | _, _ => Err
          end
      | TToken (Some KCase) =>
          (* case.rs case_command *)
          let* (subj, s2) := tk s1 in
          match t_id subj with
          | TToken _ =>
              let* s3 := skip_newlines tk f s2 in
              let* (i, s4) := tk s3 in
              match t_id i with
              | TToken (Some KIn) =>
                  let* (items, s5) := p_case_items f s4 in
                  let* (e, s6) := tk s5 in
                  match t_id e with
                  | TToken (Some KEsac) => Ok (Some (Case (t_word subj) items), s6)
                  | _ => Err                                         (* UnclosedCase *)
                  end
              | _ => Err                                             (* MissingIn *)
              end
          | _ => Err
          end
      | _ => Ok (None, s)
      end
  end

(* compound_command.rs do_clause *)
with p_do_clause (f : nat) (s : str) {struct f} : res (option slist * str) :=
  match f with
  | O => Fuel
  | S f =>
      let tk := lex_token (p_inner f) f in
      let* (t, s1) := tk s in
      match t_id t with
      | TToken (Some KDo) =>
          let* (l, s2) := p_mcl f s1 in
          let* (c, s3) := tk s2 in
          match t_id c, l with
          | TToken (Some KDone), _ :: _ => Ok (Some l, s3)
          | _, _ => Err
          end
      | _ => Ok (None, s)
      end
  end

(* if.rs elif_then_clause, repeated *)
with p_elifs (f : nat) (s : str) {struct f} : res (list (slist * slist) * str) :=
  match f with
  | O => Fuel
  | S f =>
      let tk := lex_token (p_inner f) f in
      let* (t, s1) := tk s in
      match t_id t with
      | TToken (Some KElif) =>
          let* (c, s2) := p_mcl f s1 in
          let* (th, s3) := tk s2 in
          match c, t_id th with
          | _ :: _, TToken (Some KThen) =>
              let* (b, s4) := p_mcl f s3 in
              match b with
              | [] => Err
              | _ => let* (es, s5) := p_elifs f s4 in Ok ((c, b) :: es, s5)
              end
          | _, _ => Err
          end
      | _ => Ok ([], s)
      end
  end

(* case.rs case_item, repeated as in case_command *)
with p_case_items (f : nat) (s : str) {struct f} : res (list case_item * str) :=
  match f with
  | O => Fuel
  | S f =>
      let tk := lex_token (p_inner f) f in
      let* s0 := skip_newlines tk f s in
      let* (t, s1) := tk s0 in
      match t_id t with
      | TToken (Some KEsac) => Ok ([], s0)
      | _ =>
          let* (first, s2) :=
            (match t_id t with
             | TToken _ => Ok (t_word t, s1)
             | TOp OpOpenParen =>
                 let* (p, s2) := tk s1 in
                 match t_id p with
                 | TToken _ => Ok (t_word p, s2)
                 | _ => Err
                 end
             | _ => Err
             end) in
          let* (ps, s3) := p_patterns tk f s2 in
          let* (body, s4) := p_mcl f s3 in
          let* (c, s5) := tk s4 in
          match match t_id c with TOp op => case_cont_of op | _ => None end with
          | Some cont =>
              let* (items, s6) := p_case_items f s5 in
              Ok (CaseItem (first :: ps) body cont :: items, s6)
          | None => Ok ([CaseItem (first :: ps) body CcBreak], s4)
          end
      end
  end.

(* `impl FromStr for List`: maybe_compound_list on the whole text (what follows
   the list is not looked at any further) *)
(* every function needs at most [fuel_k] levels of recursion per character
   plus its rank in the call graph (Proofs: parse_total) *)
Definition fuel_k : nat := 16.
Definition parse_fuel (s : str) : nat := fuel_k * length s + fuel_k.

Definition parse_program (s : str) : res slist :=
  let* (l, _) := p_mcl (parse_fuel s) s in Ok l.
