(* C06 -- the vocabulary of the round-trip theorem for lists with grouping
   and subshell commands (parse_print_compound_lists). *)
From Yv Require Import Common.Base C06.Ast C06.Print C06.Lex C06.Parse C06.SpecLex C06.SpecCmd.
Local Open Scope N_scope.

(* ---- the lists covered by parse_print_compound_lists: as above, and the
   commands may also be groupings `{ ...; }`, subshells `( ... )` and
   `while` / `until` loops (without redirections of their own) whose bodies
   (and conditions) are again such lists.  The trees
   are described level by level: [clean_n n] allows [n] levels of grouping /
   subshell nesting; the theorem is stated for every [n]. ------------------------------ *)

Definition pl_of (P : command -> Prop) (p : pipeline) : Prop :=
  match p with Pipeline cs _ => Forall P cs end.

Definition ao_of (P : command -> Prop) (ao : and_or_list) : Prop :=
  match ao with
  | AndOrList p rest => pl_of P p /\ Forall (fun x => pl_of P (snd x)) rest
  end.

Definition list_of (P : command -> Prop) (l : slist) : Prop :=
  Forall (fun i => match i with Item ao _ => ao_of P ao end) l.

Fixpoint clean_n (n : nat) (c : command) {struct n} : Prop :=
  match c with
  | CSimple a w rds => nocs_res (a, w, rds) /\ nobs_res (a, w, rds)
  | CCompound (Grouping l) [] | CCompound (Subshell l) [] =>
      match n with
      | O => False
      | S n' => list_of (clean_n n') l
      end
  | CCompound (While c b) [] | CCompound (Until c b) [] =>
      match n with
      | O => False
      | S n' => list_of (clean_n n') c /\ list_of (clean_n n') b
      end
  | _ => False
  end.

Definition clean_list_n (n : nat) (l : slist) : Prop := list_of (clean_n n) l.
