(* C06 — proofs, part 19: simple commands.  What the first run of the loop of
   simple_command.rs tells about the items it collected. *)
From Yv Require Import Common.Base C06.Ast C06.Print C06.Lex C06.LexEq C06.Parse C06.ParseEq
  C06.Spec C06.ProofsLen C06.ProofsStop C06.ProofsTilde C06.ProofsNum C06.ProofsRtBase C06.ProofsRt
  C06.ProofsMono C06.ProofsOp C06.ProofsToken C06.ProofsInner C06.ProofsRedir C06.SpecCmd C06.ProofsCmdBase C06.ProofsSimple
  C06.ProofsSimpleAux.
Local Open Scope N_scope.

(* ---- what the first run of the loop tells about the items it collected --------------------------- *)

(* expansion modes recomputed from the words in order (is_declaration_utility) *)
Fixpoint modes (decl : option bool) (Ws : list word) : list (word * exp_mode) * option bool :=
  match Ws with
  | [] => ([], decl)
  | W :: Ws' =>
      match decl with
      | Some d =>
          let (l, d') := modes decl Ws' in
          ((if d then determine_expansion_mode W else (W, Multiple)) :: l, d')
      | None =>
          let (l, d') := modes (names_declaration_utility W) Ws' in ((W, Multiple) :: l, d')
      end
  end.

Lemma modes_app decl Ws W :
  modes decl (Ws ++ [W]) =
  let (l, d) := modes decl Ws in
  (l ++ [match d with
         | Some true => determine_expansion_mode W
         | _ => (W, Multiple)
         end],
   match d with Some _ => d | None => names_declaration_utility W end).
Proof.
  revert decl. induction Ws as [|X Ws IH]; intros decl; cbn [app modes].
  - destruct decl as [[|]|]; reflexivity.
  - destruct decl as [d|].
    + rewrite IH. destruct (modes (Some d) Ws) as [l d']. reflexivity.
    + rewrite IH. destruct (modes (names_declaration_utility X) Ws) as [l d']. reflexivity.
Qed.

(* [pend]: the units of the item consumed last, if it is not yet known to be
   followed by something *)
Definition settled (pend : option word) (w0 : word) : Prop :=
  ends_bslash w0 = false \/ pend = Some w0.

Definition R_ok (F : nat) (pend : option word) (rd : redir) : Prop :=
  exists w0, ritem F rd w0 /\ settled pend w0.

Definition W_ok (F : nat) (pend : option word) (W : word) : Prop :=
  exists w0, witem F W w0 /\ settled pend w0.

Definition A_ok (F : nat) (pend : option word) (a : assign) : Prop :=
  match a_value a with
  | Scalar _ =>
      exists W, W_ok F pend W /\ print_assign a = print_word W /\ assign_of_word W = Some a
  | Array ws =>
      exists Wn w0n, witem F Wn w0n /\ print_word Wn = a_name a ++ [61] /\
        assign_of_word Wn = Some (mkAssign (a_name a) (Scalar [])) /\
        last_fo_word CWord DToken w0n (Some 40) /\ aitems F ws /\ (length ws < F)%nat
  end.

Record inv (F : nat) (b : builder) (decl : option bool) (pend : option word) (s : str) : Prop := {
  inv_redirs : Forall (R_ok F pend) (b_redirs b);
  inv_assigns : Forall (A_ok F pend) (b_assigns b);
  inv_words : exists Ws, Forall (W_ok F pend) Ws /\
                rev (b_words b) = fst (modes None Ws) /\ decl = snd (modes None Ws) /\
                match Ws with
                | W1 :: _ => assign_of_word W1 = None /\
                             (word_kw W1 <> None -> b_assigns b <> [] \/ b_redirs b <> [])
                | [] => True
                end;
  inv_pend : forall w0, pend = Some w0 ->
               nolc s /\ stops DToken s /\ last_fo_word CWord DToken w0 (hd s)
}.

Lemma settled_step pend w0 s :
  settled pend w0 ->
  (forall w, pend = Some w -> nolc s /\ stops DToken s /\ last_fo_word CWord DToken w (hd s)) ->
  s <> [] -> forall pend', settled pend' w0.
Proof.
  intros [H|H] Hp Hs pend'; [left; exact H|].
  left. destruct (Hp _ H) as (_ & _ & L). eapply not_ends_bslash; eauto.
Qed.

Definition nocs_b (b : builder) : Prop :=
  (forall a, In a (b_assigns b) -> nocs_assign a = true) /\
  (forall e, In e (b_words b) -> nocs_word (fst e) = true) /\
  (forall rd, In rd (b_redirs b) -> nocs_redir rd = true).

Lemma nocs_sub f decl b s res r :
  p_simple f decl b s = Ok (Some res, r) -> nocs_res res -> nocs_b b.
Proof.
  intros H (A & B & C). destruct (simple_result _ _ _ _ _ _ H) as (b' & (S1 & S2 & S3) & ->).
  cbn [fst snd] in *. repeat split; intros x Hx;
    [apply A | apply B | apply C]; apply -> in_rev; auto.
Qed.

Lemma token_id_kw W z k : word_kw W = Some k -> W <> [] -> token_id_of W z = TToken (Some k).
Proof.
  unfold word_kw, token_id_of. destruct W as [|u us]; [congruence|].
  destruct (word_literal (u :: us)) as [l|]; [|discriminate]. intros -> _. reflexivity.
Qed.

Lemma open_paren_head i f c x t r :
  nolc (c :: x) -> is_blank c = false -> stops DToken (c :: x) ->
  lex_token i f (c :: x) = Ok (t, r) -> t_id t = TOp OpOpenParen -> c = 40.
Proof.
  intros N B S. cbn [stops is_delim] in S.
  assert (Hh : (c =? c_hash) = false).
  { destruct (c =? c_hash) eqn:E; [|reflexivity]. apply N.eqb_eq in E. subst. discriminate. }
  unfold lex_token, bind. rewrite (skip_blanks_and_comment_id _ _ N B Hh).
  destruct (lex_operator (c :: x)) as [[op r']|] eqn:Eop.
  2:{ destruct (lex_units i f CWord DToken (c :: x)) as [[w r']| | | |]; try discriminate.
      intros H. inv H. cbn [t_id]. unfold token_id_of.
      destruct (tilde_front w) as [|u us]; [discriminate|].
      destruct (word_literal (u :: us)) as [l|].
      - destruct (keyword_of l); [discriminate|].
        destruct (forallb is_digit l && peek_is_redir r); [discriminate|].
        intros H. repeat (dmh H; try discriminate).
      - intros H. repeat (dmh H; try discriminate). }
  intros H. inv H. cbn [t_id]. intros H. inv H.
  unfold lex_operator in Eop. rewrite N in Eop.
  destruct (c =? 40) eqn:E40; [apply N.eqb_eq in E40; exact E40|].
  unfold alt in Eop. cbn [find fst fin] in Eop.
  repeat (dmh Eop; try discriminate);
    repeat match goal with
           | H : (if ?b then _ else _) = Some _ |- _ => destruct b; try discriminate
           | H : Some (_, _) = Some (_, _) |- _ => inv H
           | H : (_, _) = (_, _) |- _ => inv H
           end;
    cbn [fin] in Eop; try discriminate;
    unfold alt in Eop; cbn [find fst fin] in Eop; repeat (dmh Eop; try discriminate);
    repeat match goal with
           | H : (if ?b then _ else _) = Some _ |- _ => destruct b; try discriminate
           | H : Some (_, _) = Some (_, _) |- _ => inv H
           | H : (_, _) = (_, _) |- _ => inv H
           end;
    cbn [fin] in Eop; try discriminate.
Qed.

Lemma W_ok_settle F pend W s :
  (forall w, pend = Some w -> nolc s /\ stops DToken s /\ last_fo_word CWord DToken w (hd s)) ->
  s <> [] -> W_ok F pend W -> forall pend', W_ok F pend' W.
Proof.
  intros Hp Hs (w0 & WI & St) pend'. exists w0. split; [exact WI|]. eapply settled_step; eauto.
Qed.

Lemma inv_settle F b decl pend s :
  inv F b decl pend s -> s <> [] -> forall pend',
  Forall (R_ok F pend') (b_redirs b) /\ Forall (A_ok F pend') (b_assigns b) /\
  (forall Ws, Forall (W_ok F pend) Ws -> Forall (W_ok F pend') Ws).
Proof.
  intros [IR IA IW IP] Hs pend'. split; [|split].
  - eapply Forall_impl; [|exact IR]. intros rd (w0 & RI & St). exists w0. split; [exact RI|].
    eapply settled_step; eauto.
  - eapply Forall_impl; [|exact IA]. intros a. unfold A_ok. destruct (a_value a); [|auto].
    intros (W & WO & X). exists W. split; [|exact X]. eapply W_ok_settle; eauto.
  - intros Ws HW. eapply Forall_impl; [|exact HW]. intros W HWo. eapply W_ok_settle; eauto.
Qed.

Lemma modes_nil_inv Ws : fst (modes None Ws) = [] -> Ws = [].
Proof.
  destruct Ws as [|W Ws]; [reflexivity|]. cbn [modes].
  destruct (modes (names_declaration_utility W) Ws). discriminate.
Qed.

Lemma simple_first F : forall f decl b s res r pend,
  p_simple f decl b s = Ok (Some res, r) -> (max (S (S f)) 13 <= F)%nat -> nocs_res res ->
  inv F b decl pend s ->
  exists b' decl' pend', inv F b' decl' pend' r /\
    res = (rev (b_assigns b'), rev (b_words b'), rev (b_redirs b')) /\ builder_is_empty b' = false.
Proof.
  induction f as [|f IH]; intros decl b s res r pend H HF Hn I; [discriminate|].
  rewrite p_simple_eq in H. cbv zeta in H. unfold bind in H.
  destruct (p_redir (tk2 f) s) as [[[rd|] s1]| | | |] eqn:Er; try discriminate.
  - (* a redirection *)
    assert (Hs : s <> []).
    { intros ->. apply p_redir_nil in Er. destruct Er; discriminate. }
    change (mkBuilder (b_assigns b) (b_words b) (rd :: b_redirs b)) with (add_redir b rd) in H.
    destruct (nocs_sub _ _ _ _ _ _ H Hn) as (_ & _ & NR).
    destruct (ritem_of _ _ _ _ _ Er (NR rd (or_introl eq_refl))) as (w0 & RI & Rest).
    destruct (inv_settle _ _ _ _ _ I Hs (Some w0)) as (SR & SA & SW).
    destruct I as [IR IA (Ws & HW & E1 & E2 & E3) IP].
    apply (IH _ _ _ _ _ (Some w0) H); [lia | exact Hn|].
    constructor; cbn [add_redir b_redirs b_assigns b_words].
    + constructor; [|exact SR]. exists w0. split; [eapply ritem_mono; [|exact RI]; lia | right; reflexivity].
    + exact SA.
    + exists Ws. split; [apply SW; exact HW|]. split; [exact E1|]. split; [exact E2|].
      destruct Ws as [|W1 Ws']; [exact I|]. destruct E3 as [E3 E4]. split; [exact E3|].
      intros _. right. discriminate.
    + intros w X. inv X. exact Rest.
  - (* no redirection here *)
    apply p_redir_none in Er. subst s1.
    destruct (tk2 f s) as [[t s2]| | | |] eqn:Et; try discriminate.
    destruct (negb match t_id t with
                   | TToken (Some _) => negb (builder_is_empty b)
                   | TToken None => true
                   | _ => false
                   end) eqn:Etake.
    { (* the end of the command *)
      destruct (builder_is_empty b) eqn:Eb; inv H.
      exists b, decl, pend. split; [exact I|]. split; [reflexivity | exact Eb]. }
    apply Bool.negb_false_iff in Etake.
    destruct (t_id t) as [kw| | | |] eqn:Eid; try discriminate.
    pose proof (token_ttoken_ne _ _ _ _ _ _ Et Eid) as Hne.
    assert (Hs : s <> []).
    { intros ->. apply lex_token_nil in Et. destruct Et as (X & _). congruence. }
    destruct (lex_token_word _ _ _ _ _ Et Hne) as (w00 & _ & _ & _ & Hid).
    assert (Hkw : word_kw (t_word t) <> None -> builder_is_empty b = false).
    { intros X. destruct (word_kw (t_word t)) as [k|] eqn:Ek; [|congruence].
      rewrite (token_id_kw _ s2 _ Ek Hne) in Hid. rewrite Hid in Eid. inv Eid.
      apply Bool.negb_true_iff in Etake. exact Etake. }
    assert (Wnew : nocs_word (t_word t) = true -> exists w0,
              witem F (t_word t) w0 /\ (nolc s2 /\ stops DToken s2 /\ last_fo_word CWord DToken w0 (hd s2))).
    { intros X. destruct (witem_of _ _ _ _ _ Et Hne X) as (w0 & WI & Rest).
      exists w0. split; [eapply witem_mono; [|exact WI]; lia | exact Rest]. }
    destruct decl as [d|].
    + (* declaration utility known *)
      set (e := if d then determine_expansion_mode (t_word t) else (t_word t, Multiple)) in H.
      change (mkBuilder (b_assigns b) (e :: b_words b) (b_redirs b)) with (add_word b e) in H.
      destruct (nocs_sub _ _ _ _ _ _ H Hn) as (_ & NW & _).
      assert (NWt : nocs_word (t_word t) = true).
      { specialize (NW e (or_introl eq_refl)). unfold e in NW. destruct d; [|exact NW].
        apply nocs_expansion_mode. exact NW. }
      destruct (Wnew NWt) as (w0 & WI & Rest).
      destruct (inv_settle _ _ _ _ _ I Hs (Some w0)) as (SR & SA & SW).
      destruct I as [IR IA (Ws & HW & E1 & E2 & E3) IP].
      apply (IH _ _ _ _ _ (Some w0) H); [lia | exact Hn|].
      constructor; cbn [add_word b_redirs b_assigns b_words]; [exact SR | exact SA | |].
      * exists (Ws ++ [t_word t]). split.
        { apply Forall_app. split; [apply SW; exact HW|]. constructor; [|constructor].
          exists w0. split; [exact WI | right; reflexivity]. }
        rewrite modes_app. destruct (modes None Ws) as [l d'] eqn:Em. cbn [fst snd] in *. subst d'.
        split; [cbn [rev]; rewrite E1; unfold e; destruct d; reflexivity|]. split; [reflexivity|].
        destruct Ws as [|W1 Ws']; [cbn in Em; congruence|]. cbn [app]. exact E3.
      * intros w X. inv X. exact Rest.
    + destruct (match b_words b with [] => assign_of_word (t_word t) | _ :: _ => None end) as [a0|] eqn:Ea.
      * (* an assignment *)
        destruct (b_words b) as [|e0 l0] eqn:Ebw; [|discriminate].
        match type of H with
        | match ?x with _ => _ end = _ => destruct x as [[a' s3]| | | |] eqn:Eblk; try discriminate
        end.
        change (mkBuilder (a' :: b_assigns b) [] (b_redirs b)) with
          (mkBuilder (a' :: b_assigns b) (b_words (mkBuilder (b_assigns b) [] (b_redirs b))) (b_redirs b)) in H.
        assert (Hb : b = mkBuilder (b_assigns b) [] (b_redirs b)).
        { destruct b. cbn in *. subst. reflexivity. }
        rewrite <- Hb in H.
        change (mkBuilder (a' :: b_assigns b) (b_words b) (b_redirs b)) with (add_assign b a') in H.
        destruct (assign_scalar _ _ Ea) as [v Ev].
        destruct (nocs_sub _ _ _ _ _ _ H Hn) as (NA & _ & _).
        pose proof (NA a' (or_introl eq_refl)) as NAa.
        assert (Hcases : (a' = a0 /\ s3 = s2) \/
                  (v = [] /\ match skip_lc s2 with c :: _ => is_blank c | [] => false end = false /\
                   exists t' s2' ws, tk2 f s2 = Ok (t', s2') /\ t_id t' = TOp OpOpenParen /\
                     p_array (tk2 f) f s2' = Ok (ws, s3) /\ a' = mkAssign (a_name a0) (Array ws))).
        { rewrite Ev in Eblk.
          destruct v as [|u v'].
          2:{ cbn [andb] in Eblk. inv Eblk. left. auto. }
          destruct (match skip_lc s2 with c :: _ => is_blank c | [] => false end) eqn:Ebl.
          { cbn [andb negb] in Eblk. inv Eblk. left. auto. }
          cbn [andb negb] in Eblk.
          destruct (tk2 f s2) as [[t' s2']| | | |] eqn:Et'; try discriminate.
          destruct (t_id t') as [|op| | |] eqn:Eid'; try (inv Eblk; left; auto; fail).
          destruct op; try (inv Eblk; left; auto; fail).
          destruct (p_array (tk2 f) f s2') as [[ws s3']| | | |] eqn:Earr; try discriminate.
          inv Eblk. right. split; [reflexivity|]. split; [reflexivity|]. eauto 10. }
        destruct Hcases as [[-> ->] | (-> & Ebl & t' & s2' & ws & Et' & Eid' & Earr & ->)].
        -- (* a scalar value *)
           pose proof (nocs_assign_of_word _ _ Ea NAa) as NWt.
           destruct (Wnew NWt) as (w0 & WI & Rest).
           destruct (inv_settle _ _ _ _ _ I Hs (Some w0)) as (SR & SA & SW).
           destruct I as [IR IA (Ws & HW & E1 & E2 & E3) IP].
           apply (IH _ _ _ _ _ (Some w0) H); [lia | exact Hn|].
           constructor; cbn [add_assign b_redirs b_assigns b_words]; [exact SR | | |].
           ++ constructor; [|exact SA]. unfold A_ok. rewrite Ev. exists (t_word t).
              split; [exists w0; split; [exact WI | right; reflexivity]|].
              split; [apply print_assign_of_word; exact Ea | exact Ea].
           ++ exists Ws. split; [apply SW; exact HW|]. split; [exact E1|]. split; [exact E2|].
              destruct Ws as [|W1 Ws']; [exact I|]. destruct E3 as [E3 E4]. split; [exact E3|].
              intros _. left. discriminate.
           ++ intros w X. inv X. exact Rest.
        -- (* an array value *)
           assert (NWt : nocs_word (t_word t) = true).
           { apply (nocs_assign_of_word _ _ Ea). unfold nocs_assign. rewrite Ev. reflexivity. }
           destruct (Wnew NWt) as (w0 & WI & (R1 & R2 & R3)).
           assert (Hhd : exists x, s2 = 40 :: x).
           { destruct s2 as [|c x].
             - apply lex_token_nil in Et'. destruct Et' as (X & _). congruence.
             - rewrite R1 in Ebl. rewrite (open_paren_head _ _ _ _ _ _ R1 Ebl R2 Et' Eid'). eauto. }
           destruct Hhd as [x ->]. cbn [hd] in R3.
           unfold nocs_assign in NAa. cbn [a_value] in NAa.
           destruct (p_array_first (p_inner f) f F ltac:(lia) _ _ _ _ Earr NAa) as [AI AL].
           destruct (inv_settle _ _ _ _ _ I Hs None) as (SR & SA & SW).
           destruct I as [IR IA (Ws & HW & E1 & E2 & E3) IP].
           apply (IH _ _ _ _ _ None H); [lia | exact Hn|].
           constructor; cbn [add_assign b_redirs b_assigns b_words]; [exact SR | | |].
           ++ constructor; [|exact SA]. unfold A_ok. cbn [a_value a_name].
              exists (t_word t), w0. split; [exact WI|].
              assert (Ha0 : a0 = mkAssign (a_name a0) (Scalar [])).
              { destruct a0. cbn in *. subst. reflexivity. }
              split.
              { rewrite <- (print_assign_of_word _ _ Ea). rewrite Ha0 at 1. unfold print_assign.
                cbn [a_name a_value print_value]. reflexivity. }
              split; [rewrite <- Ha0; exact Ea|]. split; [exact R3|]. split; [exact AI | lia].
           ++ exists Ws. split; [apply SW; exact HW|]. split; [exact E1|]. split; [exact E2|].
              destruct Ws as [|W1 Ws']; [exact I|]. destruct E3 as [E3 E4]. split; [exact E3|].
              intros _. left. discriminate.
           ++ intros w X. discriminate.
      * (* a word, the declaration utility not yet known *)
        change (mkBuilder (b_assigns b) ((t_word t, Multiple) :: b_words b) (b_redirs b))
          with (add_word b (t_word t, Multiple)) in H.
        destruct (nocs_sub _ _ _ _ _ _ H Hn) as (_ & NW & _).
        pose proof (NW _ (or_introl eq_refl)) as NWt. cbn [fst] in NWt.
        destruct (Wnew NWt) as (w0 & WI & Rest).
        destruct (inv_settle _ _ _ _ _ I Hs (Some w0)) as (SR & SA & SW).
        destruct I as [IR IA (Ws & HW & E1 & E2 & E3) IP].
        apply (IH _ _ _ _ _ (Some w0) H); [lia | exact Hn|].
        constructor; cbn [add_word b_redirs b_assigns b_words]; [exact SR | exact SA | |].
        -- exists (Ws ++ [t_word t]). split.
           { apply Forall_app. split; [apply SW; exact HW|]. constructor; [|constructor].
             exists w0. split; [exact WI | right; reflexivity]. }
           rewrite modes_app. destruct (modes None Ws) as [l d'] eqn:Em. cbn [fst snd] in *. subst d'.
           split; [cbn [rev]; rewrite E1; reflexivity|]. split; [reflexivity|].
           destruct Ws as [|W1 Ws']; [|cbn [app]; exact E3].
           cbn [app]. cbn in Em. assert (El : l = []) by congruence. rewrite El in E1.
           destruct (b_words b) as [|? ?] eqn:Ebw.
           ++ split; [exact Ea|]. intros X. specialize (Hkw X). unfold builder_is_empty in Hkw.
              rewrite Ebw in Hkw. destruct (b_assigns b); [|left; discriminate].
              destruct (b_redirs b); [discriminate | right; discriminate].
           ++ cbn [rev] in E1. apply app_eq_nil in E1. destruct E1; discriminate.
        -- intros w X. inv X. exact Rest.
Qed.
