(* C06 — proofs, part 18: assignments, expansion modes and tilde post-processing
   keep the absence of command substitutions and the printed form. *)
From Yv Require Import Common.Base C06.Ast C06.Print C06.Lex C06.LexEq C06.Parse C06.ParseEq
  C06.Spec C06.ProofsLen C06.ProofsStop C06.ProofsTilde C06.ProofsNum C06.ProofsRtBase C06.ProofsRt
  C06.ProofsMono C06.ProofsOp C06.ProofsToken C06.ProofsInner C06.ProofsRedir C06.SpecCmd C06.ProofsCmdBase C06.ProofsSimple.
Local Open Scope N_scope.

Lemma nocs_app a b : nocs_word (a ++ b) = nocs_word a && nocs_word b.
Proof. apply forallb_app. Qed.

Lemma nocs_firstn n w : nocs_word w = true -> nocs_word (firstn n w) = true.
Proof.
  intros H. rewrite <- (firstn_skipn n w), nocs_app in H. apply andb_prop in H. tauto.
Qed.

Lemma nocs_skipn n w : nocs_word w = true -> nocs_word (skipn n w) = true.
Proof.
  intros H. rewrite <- (firstn_skipn n w), nocs_app in H. apply andb_prop in H. tauto.
Qed.

Lemma parse_tilde_nocs colon w n name sl :
  parse_tilde colon w = Some (n, name, sl) -> nocs_word (firstn n w) = true.
Proof.
  unfold parse_tilde. destruct w as [|u w']; [discriminate|].
  destruct u as [t| | | |]; try discriminate. destruct t; try discriminate.
  destruct (c =? c_tilde); [|discriminate].
  destruct (tilde_name colon w') as [[[n' name'] sl']|] eqn:E2; [|discriminate]. intros H. inv H.
  cbn [firstn]. unfold nocs_word. cbn [forallb nocs_wu nocs_tu andb]. eapply tilde_name_nocs; eauto.
Qed.

Lemma nocs_tilde_everywhere k w : nocs_word (tilde_everywhere k w) = true -> nocs_word w = true.
Proof.
  revert w. induction k as [|k IH]; intros w; cbn [tilde_everywhere]; [auto|].
  destruct (parse_tilde true w) as [[[n name] sl]|] eqn:E.
  - pose proof (parse_tilde_nocs _ _ _ _ _ E) as Hf.
    intros H. rewrite <- (firstn_skipn n w), nocs_app, Hf. cbn [andb].
    change (nocs_word (Tilde name sl :: ?x)) with (nocs_word x) in H.
    destruct (skip_to_colon (skipn n w)) as [[a b]|] eqn:Es; [|exact H].
    rewrite (skip_to_colon_app _ _ _ Es). rewrite nocs_app in H |- *.
    apply andb_prop in H. destruct H as [H1 H2]. rewrite H1, (IH _ H2). reflexivity.
  - destruct (skip_to_colon w) as [[a b]|] eqn:Es; [|auto].
    intros H. rewrite (skip_to_colon_app _ _ _ Es). rewrite nocs_app in H |- *.
    apply andb_prop in H. destruct H as [H1 H2]. rewrite H1, (IH _ H2). reflexivity.
Qed.

Lemma nocs_expansion_mode W :
  nocs_word (fst (determine_expansion_mode W)) = true -> nocs_word W = true.
Proof.
  unfold determine_expansion_mode. destruct (find_eq W) as [eq|]; [|auto].
  destruct (word_literal (firstn eq W)) as [[|c l]|]; auto.
  cbn [fst]. rewrite nocs_app. intros H. apply andb_prop in H. destruct H as [H1 H2].
  apply nocs_tilde_everywhere in H2.
  rewrite <- (firstn_skipn (S eq) W), nocs_app, H1, H2. reflexivity.
Qed.

Lemma word_literal_nocs w l : word_literal w = Some l -> nocs_word w = true.
Proof.
  revert l. induction w as [|u w IH]; intros l H; [reflexivity|].
  cbn [word_literal] in H. destruct u as [t| | | |]; try discriminate. destruct t; try discriminate.
  destruct (word_literal w) as [l'|]; [|discriminate]. unfold nocs_word. cbn [forallb nocs_wu nocs_tu andb].
  eapply IH; eauto.
Qed.

Lemma assign_of_word_spec W a :
  assign_of_word W = Some a ->
  exists n name, find_eq W = Some (S n) /\ word_literal (firstn (S n) W) = Some name /\
    a = mkAssign name (Scalar (tilde_everywhere (S (length (skipn (S (S n)) W))) (skipn (S (S n)) W))).
Proof.
  unfold assign_of_word. destruct (find_eq W) as [[|n]|]; try discriminate.
  destruct (word_literal (firstn (S n) W)) as [name|] eqn:El; [|discriminate].
  intros H. exists n, name. split; [reflexivity|]. split; [exact El|].
  symmetry. injection H. exact (fun x => x).
Qed.

Lemma find_eq_spec W n : find_eq W = Some n -> exists v, skipn n W = Unquoted (Literal 61) :: v.
Proof.
  revert n. induction W as [|u W IH]; intros n H; cbn [find_eq] in H; [discriminate|].
  destruct u as [t| | | |].
  1: destruct t.
  1: destruct (c =? 61) eqn:Ec; [apply N.eqb_eq in Ec; subst; inv H; cbn [skipn]; eauto|].
  all: destruct (find_eq W) as [k|]; [|discriminate]; inv H; cbn [skipn]; apply IH; reflexivity.
Qed.

Lemma skipn_S_cons {A} n (W : list A) u v : skipn n W = u :: v -> skipn (S n) W = v.
Proof.
  revert W. induction n as [|n IH]; intros W H.
  - cbn [skipn] in H. subst. reflexivity.
  - destruct W as [|x W]; [discriminate|]. cbn [skipn] in H. change (skipn (S (S n)) (x :: W)) with (skipn (S n) W).
    apply IH. exact H.
Qed.

Lemma nocs_assign_of_word W a :
  assign_of_word W = Some a -> nocs_assign a = true -> nocs_word W = true.
Proof.
  intros H. destruct (assign_of_word_spec _ _ H) as (n & name & Ef & El & ->).
  unfold nocs_assign. cbn [a_value]. intros Hn. apply nocs_tilde_everywhere in Hn.
  destruct (find_eq_spec _ _ Ef) as [v Ev].
  rewrite <- (firstn_skipn (S n) W), nocs_app, (word_literal_nocs _ _ El), Ev. cbn [andb].
  rewrite (skipn_S_cons _ _ _ _ Ev) in Hn. exact Hn.
Qed.

(* ---- printing ---- *)
Lemma word_literal_print w l : word_literal w = Some l -> print_word w = l.
Proof.
  revert l. induction w as [|u w IH]; intros l H; cbn [word_literal] in H; [inv H; reflexivity|].
  destruct u as [t| | | |]; try discriminate. destruct t; try discriminate.
  destruct (word_literal w) as [l'|]; [|discriminate]. inv H.
  unfold print_word. cbn [cat_map print_wu print_tu app]. f_equal. apply IH. reflexivity.
Qed.

Lemma print_word_app a b : print_word (a ++ b) = print_word a ++ print_word b.
Proof. apply cat_map_app. Qed.

Lemma print_expansion_mode W : print_word (fst (determine_expansion_mode W)) = print_word W.
Proof.
  unfold determine_expansion_mode. destruct (find_eq W) as [eq|]; [|reflexivity].
  destruct (word_literal (firstn eq W)) as [[|c l]|]; try reflexivity.
  cbn [fst]. rewrite print_word_app, print_tilde_everywhere, <- print_word_app, firstn_skipn. reflexivity.
Qed.

Lemma print_assign_of_word W a : assign_of_word W = Some a -> print_assign a = print_word W.
Proof.
  intros H. destruct (assign_of_word_spec _ _ H) as (n & name & Ef & El & ->).
  destruct (find_eq_spec _ _ Ef) as [v Ev].
  unfold print_assign. cbn [a_name a_value print_value]. rewrite print_tilde_everywhere.
  rewrite (skipn_S_cons _ _ _ _ Ev).
  transitivity (print_word (firstn (S n) W ++ skipn (S n) W)); [|rewrite firstn_skipn; reflexivity].
  rewrite print_word_app, Ev, (word_literal_print _ _ El).
  reflexivity.
Qed.

Lemma assign_scalar W a : assign_of_word W = Some a -> exists v, a_value a = Scalar v.
Proof. intros H. destruct (assign_of_word_spec _ _ H) as (n & name & Ef & El & ->). cbn [a_value]. eauto. Qed.

Lemma witem_mono F F' W w0 : (F <= F')%nat -> witem F W w0 -> witem F' W w0.
Proof.
  intros Hle [A B C D]. constructor; auto. intros z f' Hf Hg. apply B; [lia | exact Hg].
Qed.

Lemma ritem_mono F F' rd w0 : (F <= F')%nat -> ritem F rd w0 -> ritem F' rd w0.
Proof. intros Hle [P H]. split; [exact P|]. intros z f' Hf Hg. apply H; [lia | exact Hg]. Qed.

Lemma token_ttoken_ne i f s t r k : lex_token i f s = Ok (t, r) -> t_id t = TToken k -> t_word t <> [].
Proof.
  unfold lex_token, bind. destruct (lex_operator (skip_blanks_and_comment s)) as [[op r']|].
  - intros H. inv H. discriminate.
  - destruct (lex_units i f CWord DToken (skip_blanks_and_comment s)) as [[w r']| | | |]; try discriminate.
    intros H. inv H. cbn [t_id t_word]. destruct (tilde_front w); [discriminate | intros _; discriminate].
Qed.

Lemma lex_token_nil i f t r : lex_token i f [] = Ok (t, r) -> t_id t = TEnd /\ t_word t = [] /\ r = [].
Proof.
  unfold lex_token. cbn [skip_blanks_and_comment length skip_blanks skip_lc lex_operator]. unfold bind.
  destruct f as [|f]; [cbn; discriminate|].
  rewrite lex_units_eq. unfold bind.
  destruct f as [|f]; [cbn; discriminate|].
  rewrite lex_wu_eq. cbn [skip_lc].
  intros H. inv H. auto.
Qed.

Lemma p_redir_nil i f o r : p_redir (lex_token i f) [] = Ok (o, r) -> o = None /\ r = [].
Proof.
  unfold p_redir, bind. destruct (lex_token i f []) as [[t s1]| | | |] eqn:E; try discriminate.
  destruct (lex_token_nil _ _ _ _ E) as (A & B & ->). rewrite A, E, A. intros H. inv H. auto.
Qed.

(* ---- the first run of array_values ---- *)
Lemma p_array_first (i1 : inner_t) f F : (S (S f) <= F)%nat ->
  forall k s ws r,
  p_array (lex_token i1 f) k s = Ok (ws, r) -> forallb nocs_word ws = true ->
  aitems F ws /\ (length ws < k)%nat.
Proof.
  intros HF. induction k as [|k IH]; intros s ws r H Hn; [discriminate|].
  cbn [p_array] in H. unfold bind in H.
  destruct (lex_token i1 f s) as [[t s1]| | | |] eqn:Et; try discriminate.
  destruct (t_id t) as [kw | op | | |] eqn:Eid; try discriminate.
  - destruct (p_array (lex_token i1 f) k s1) as [[ws' s2]| | | |] eqn:Ea; try discriminate.
    inv H. cbn [forallb] in Hn. apply andb_prop in Hn. destruct Hn as [Hn1 Hn2].
    destruct (IH _ _ _ Ea Hn2) as [A B]. split; [|cbn [length]; lia].
    constructor; [|exact A].
    destruct (witem_of i1 f s t s1 Et (token_ttoken_ne _ _ _ _ _ _ Et Eid) Hn1) as (w0 & WI & _ & _ & L).
    exists w0. split; [eapply witem_mono; eauto|].
    eapply not_ends_bslash; [exact L|]. intros ->.
    destruct k as [|k']; [discriminate|]. cbn [p_array] in Ea. unfold bind in Ea.
    destruct (lex_token i1 f []) as [[t2 s2']| | | |] eqn:E2; try discriminate.
    destruct (lex_token_nil _ _ _ _ E2) as (X & _). rewrite X in Ea. discriminate.
  - destruct op; try discriminate.
    + destruct (IH _ _ _ H Hn) as [A B]. split; [exact A | lia].
    + inv H. split; [constructor | cbn; lia].
Qed.

(* ---- the items of the builder stay ---- *)
Definition sub (b b' : builder) : Prop :=
  incl (b_assigns b) (b_assigns b') /\ incl (b_words b) (b_words b') /\ incl (b_redirs b) (b_redirs b').

Lemma sub_refl b : sub b b.
Proof. repeat split; apply incl_refl. Qed.

Lemma sub_trans a b c : sub a b -> sub b c -> sub a c.
Proof. intros (A & B & C) (D & E & G). repeat split; eapply incl_tran; eauto. Qed.

Lemma simple_result f : forall decl b s res r,
  p_simple f decl b s = Ok (Some res, r) ->
  exists b', sub b b' /\ res = (rev (b_assigns b'), rev (b_words b'), rev (b_redirs b')).
Proof.
  induction f as [|f IH]; intros decl b s res r H; [discriminate|].
  rewrite p_simple_eq in H. cbv zeta in H. unfold bind in H.
  assert (Hfin : forall s', (if builder_is_empty b then Ok (None, s')
                      else Ok (Some (rev (b_assigns b), rev (b_words b), rev (b_redirs b)), s'))
                     = Ok (Some res, r) ->
                 exists b', sub b b' /\ res = (rev (b_assigns b'), rev (b_words b'), rev (b_redirs b'))).
  { intros s' X. destruct (builder_is_empty b); inv X. exists b. split; [apply sub_refl | reflexivity]. }
  assert (Hrec : forall decl' b1 s', sub b b1 -> p_simple f decl' b1 s' = Ok (Some res, r) ->
                 exists b', sub b b' /\ res = (rev (b_assigns b'), rev (b_words b'), rev (b_redirs b'))).
  { intros decl' b1 s' Hs X. destruct (IH _ _ _ _ _ X) as (b' & S1 & E). exists b'. split; [|exact E].
    eapply sub_trans; eauto. }
  assert (S1 : forall x, sub b (add_redir b x)).
  { intros x. repeat split; cbn; try apply incl_refl. apply incl_tl, incl_refl. }
  assert (S2 : forall x, sub b (add_word b x)).
  { intros x. repeat split; cbn; try apply incl_refl. apply incl_tl, incl_refl. }
  assert (S3 : forall x, sub b (add_assign b x)).
  { intros x. repeat split; cbn; try apply incl_refl. apply incl_tl, incl_refl. }
  repeat match type of H with
         | context [match ?a with _ => _ end] => destruct a eqn:?; try discriminate
         end;
    try (eapply Hfin; eassumption);
    try (eapply Hrec; [|eassumption]; first [apply S1 | apply S2 | apply S3]).
Qed.

(* ---- a position where no redirection starts is left unchanged ---- *)
Lemma ionumber_peek i f s t r : lex_token i f s = Ok (t, r) -> t_id t = TIoNumber -> peek_is_redir r = true.
Proof.
  unfold lex_token, bind. destruct (lex_operator (skip_blanks_and_comment s)) as [[op r']|].
  - intros H. inv H. discriminate.
  - destruct (lex_units i f CWord DToken (skip_blanks_and_comment s)) as [[w r']| | | |]; try discriminate.
    intros H. inv H. cbn [t_id]. unfold token_id_of.
    destruct (tilde_front w) as [|u us]; [discriminate|].
    destruct (word_literal (u :: us)) as [l|].
    + destruct (keyword_of l); [discriminate|].
      destruct (forallb is_digit l && peek_is_redir r) eqn:E.
      * apply andb_prop in E. tauto.
      * intros H. repeat (dmh H; try discriminate).
    + intros H. repeat (dmh H; try discriminate).
Qed.

Definition redirish (op : operator) : Prop :=
  redir_op_of op <> None \/ op = OpLessLess \/ op = OpLessLessDash \/ op = OpLessOpenParen \/
  op = OpGreaterOpenParen.

Lemma peek_redir_token i f r t s3 :
  peek_is_redir r = true -> lex_token i f r = Ok (t, s3) -> exists op, t_id t = TOp op /\ redirish op.
Proof.
  unfold peek_is_redir. intros Hp.
  destruct (skip_lc r) as [|c x] eqn:E; [discriminate|].
  assert (Hs : skip_blanks_and_comment r = c :: x).
  { unfold skip_blanks_and_comment. destruct r as [|c0 r0]; [discriminate|].
    cbn [length skip_blanks]. rewrite E.
    assert (Hc : c = 60 \/ c = 62).
    { apply Bool.orb_true_iff in Hp. destruct Hp as [X|X]; apply N.eqb_eq in X; auto. }
    assert (N : nolc (c :: x)) by (destruct Hc; subst; apply nolc_cons; reflexivity).
    unfold skip_comment. destruct Hc; subst; cbn [is_blank]; rewrite N; reflexivity. }
  assert (N : nolc (c :: x)).
  { apply Bool.orb_true_iff in Hp. destruct Hp as [X|X]; apply N.eqb_eq in X; subst; apply nolc_cons; reflexivity. }
  unfold lex_token. rewrite Hs. unfold lex_operator. rewrite N.
  unfold redirish.
  apply Bool.orb_true_iff in Hp. destruct Hp as [X|X]; apply N.eqb_eq in X; subst c; cbn -[alt].
  - unfold alt. destruct (skip_lc x) as [|c2 x2]; cbn [find fst].
    { intros H. inv H. eexists. split; [reflexivity|]. left. discriminate. }
    destruct (38 =? c2); cbn [fin].
    { intros H. inv H. eexists. split; [reflexivity|]. left. discriminate. }
    destruct (40 =? c2); cbn [fin].
    { intros H. inv H. eexists. split; [reflexivity|]. tauto. }
    destruct (60 =? c2); cbn [fin].
    { destruct (skip_lc x2) as [|c3 x3]; cbn [find fst].
      { intros H. inv H. eexists. split; [reflexivity|]. tauto. }
      destruct (45 =? c3); cbn [fin].
      { intros H. inv H. eexists. split; [reflexivity|]. tauto. }
      destruct (60 =? c3); cbn [fin]; intros H; inv H; eexists; (split; [reflexivity|]);
        [left; discriminate | tauto]. }
    destruct (62 =? c2); cbn [fin]; intros H; inv H; eexists; (split; [reflexivity|]); left; discriminate.
  - unfold alt. destruct (skip_lc x) as [|c2 x2]; cbn [find fst].
    { intros H. inv H. eexists. split; [reflexivity|]. left. discriminate. }
    destruct (38 =? c2); cbn [fin].
    { intros H. inv H. eexists. split; [reflexivity|]. left. discriminate. }
    destruct (40 =? c2); cbn [fin].
    { intros H. inv H. eexists. split; [reflexivity|]. tauto. }
    destruct (62 =? c2); cbn [fin].
    { destruct (skip_lc x2) as [|c3 x3]; cbn [find fst].
      { intros H. inv H. eexists. split; [reflexivity|]. left. discriminate. }
      destruct (124 =? c3); cbn [fin]; intros H; inv H; eexists; (split; [reflexivity|]); left; discriminate. }
    destruct (124 =? c2); cbn [fin]; intros H; inv H; eexists; (split; [reflexivity|]); left; discriminate.
Qed.

Lemma p_redir_none i f s s1 : p_redir (lex_token i f) s = Ok (None, s1) -> s1 = s.
Proof.
  unfold p_redir, bind. destruct (lex_token i f s) as [[t s1']| | | |] eqn:E; try discriminate.
  destruct (t_id t) eqn:Eid.
  1,2,5: rewrite E, Eid; intros H; repeat (dmh H; try discriminate); inv H; reflexivity.
  - destruct (fd_of_word (t_word t)); [|discriminate].
    destruct (lex_token i f s1') as [[t' s3]| | | |] eqn:E2; try discriminate.
    destruct (peek_redir_token _ _ _ _ _ (ionumber_peek _ _ _ _ _ E Eid) E2) as (op & Eop & Hr).
    rewrite Eop. intros H. destruct Hr as [Hr|[->|[->|[->| ->]]]]; try discriminate.
    destruct (redir_op_of op); [|congruence]. repeat (dmh H; try discriminate).
  - discriminate.
Qed.
