(* C06 — Gallina model of the word-level lexer of yash-syntax:
   parser/lex/{core,word,text,dollar,raw_param,braced_param,modifier,arith,
   command_subst,backquote,escape,tilde,op,token,misc}.rs (default parser
   mode: [portable] off; no aliases).

   The input is the list of the remaining characters.  "Peeking" skips line
   continuations (backslash-newline) exactly like [Lexer::peek_char]; the
   functions that read "raw" characters (single quotes, the character after a
   backslash in text.rs, dollar-single-quotes, comments) do not.  Every
   recursive function runs on explicit fuel and returns [Fuel] when it runs
   out; Rust panic sites are [Panic].  The parser used for the inside of a
   command substitution is the section variable [inner]. *)
From Yv Require Import Common.Base C06.Ast.
Local Open Scope N_scope.

Inductive res (A : Type) :=
| Ok (a : A)
| Err            (* syntax error *)
| Fuel           (* the fuel ran out *)
| Panic          (* a Rust panic site was reached *)
| Unsupp.        (* construct outside the model (here-document contents) *)
Arguments Ok {A} a.
Arguments Err {A}.
Arguments Fuel {A}.
Arguments Panic {A}.
Arguments Unsupp {A}.

Definition bind {A B} (r : res A) (k : A -> res B) : res B :=
  match r with
  | Ok a => k a
  | Err => Err
  | Fuel => Fuel
  | Panic => Panic
  | Unsupp => Unsupp
  end.
Notation "'let*' x ':=' e 'in' k" := (bind e (fun x => k))
  (at level 200, x pattern, e at level 100, k at level 200, right associativity).

(* ---- characters --------------------------------------------------------------- *)

Definition c_nl := 10.   Definition c_dq := 34.    Definition c_hash := 35.
Definition c_dollar := 36. Definition c_sq := 39.  Definition c_lparen := 40.
Definition c_rparen := 41. Definition c_bslash := 92. Definition c_bq := 96.
Definition c_lbrace := 123. Definition c_rbrace := 125. Definition c_tilde := 126.

Definition in_range (lo hi c : N) : bool := (lo <=? c) && (c <=? hi).

(* char::is_whitespace (Unicode White_Space) *)
Definition is_whitespace (c : N) : bool :=
  in_range 9 13 c || (c =? 32) || (c =? 133) || (c =? 160) || (c =? 5760)
  || in_range 8192 8202 c || (c =? 8232) || (c =? 8233) || (c =? 8239) || (c =? 8287)
  || (c =? 12288).

(* lex/core.rs is_blank *)
Definition is_blank (c : N) : bool := negb (c =? c_nl) && is_whitespace c.

(* lex/op.rs is_operator_char: first characters of the operator trie *)
Definition is_operator_char (c : N) : bool :=
  (c =? 10) || (c =? 38) || (c =? 40) || (c =? 41) || (c =? 59) || (c =? 60) || (c =? 62)
  || (c =? 124).

Definition is_token_delimiter_char (c : N) : bool := is_operator_char c || is_blank c.

Definition is_digit (c : N) : bool := in_range 48 57 c.

(* raw_param.rs is_portable_name_char *)
Definition is_name_char (c : N) : bool :=
  is_digit c || in_range 65 90 c || (c =? 95) || in_range 97 122 c.

(* SpecialParam::from_char *)
Definition special_of_char (c : N) : option special_param :=
  if c =? 64 then Some SpAt else if c =? 42 then Some SpAsterisk
  else if c =? 35 then Some SpNumber else if c =? 63 then Some SpQuestion
  else if c =? 45 then Some SpHyphen else if c =? 36 then Some SpDollar
  else if c =? 33 then Some SpExclamation else if c =? 48 then Some SpZero
  else None.

(* ---- contexts, delimiters, escapable sets (the closures of the Rust code) ------- *)

Inductive ctx := CWord | CText.

Inductive delim :=
| DNone          (* |_| false *)
| DToken         (* is_token_delimiter_char *)
| DBrace         (* c == '}' *)
| DDQuote        (* c is the double quote *)
| DParen.        (* c == '(' || c == ')' : text_with_parentheses in arith.rs *)

Definition is_delim (d : delim) (c : N) : bool :=
  match d with
  | DNone => false
  | DToken => is_token_delimiter_char c
  | DBrace => c =? c_rbrace
  | DDQuote => c =? c_dq
  | DParen => (c =? c_lparen) || (c =? c_rparen)
  end.

Inductive esc :=
| EAll                 (* |_| true : word context *)
| ESome (d : delim)    (* dollar, double quote, backquote, backslash or a delimiter : text context in word_unit *)
| EDQuote              (* dollar, backquote, double quote, backslash : double_quote *)
| EArith.              (* dollar, backquote, backslash : arithmetic expansion *)

Definition is_esc (e : esc) (c : N) : bool :=
  match e with
  | EAll => true
  | ESome d => (c =? c_dollar) || (c =? c_dq) || (c =? c_bq) || (c =? c_bslash) || is_delim d c
  | EDQuote => (c =? c_dollar) || (c =? c_bq) || (c =? c_dq) || (c =? c_bslash)
  | EArith => (c =? c_dollar) || (c =? c_bq) || (c =? c_bslash)
  end.

Definition esc_of (cx : ctx) (d : delim) : esc :=
  match cx with CWord => EAll | CText => ESome d end.

(* ---- line continuations -------------------------------------------------------------- *)

(* Lexer::peek_char: skip backslash-newline pairs *)
Fixpoint skip_lc (s : str) : str :=
  match s with
  | c1 :: ((c2 :: s') as t) => if (c1 =? c_bslash) && (c2 =? c_nl) then skip_lc s' else s
  | _ => s
  end.

(* ---- small loops ------------------------------------------------------------------------ *)

(* while consume_char_if(is_name_char) *)
Fixpoint lex_name (f : nat) (s : str) : str * str :=
  match f with
  | O => ([], skip_lc s)
  | S f =>
      match skip_lc s with
      | c :: s' => if is_name_char c then let (n, r) := lex_name f s' in (c :: n, r)
                   else ([], c :: s')
      | [] => ([], [])
      end
  end.

(* single_quote: raw characters up to the closing quote *)
Fixpoint lex_single_quote (s : str) : res (str * str) :=
  match s with
  | [] => Err
  | c :: s' => if c =? c_sq then Ok ([], s')
               else let* (q, r) := lex_single_quote s' in Ok (c :: q, r)
  end.

(* backquote.rs backquote_unit, repeated; stops at the closing backquote or at
   the end of input *)
Definition bq_escapable (cx : ctx) (c : N) : bool :=
  (c =? c_dollar) || (c =? c_bq) || (c =? c_bslash)
  || ((c =? c_dq) && match cx with CText => true | CWord => false end).

Fixpoint lex_bq (f : nat) (cx : ctx) (s : str) : res (list bq_unit * str) :=
  match f with
  | O => Fuel
  | S f =>
      match skip_lc s with
      | [] => Ok ([], [])
      | c :: s1 =>
          if c =? c_bslash then
            (* the character right after the backslash is read raw *)
            match s1 with
            | c2 :: s2 =>
                if bq_escapable cx c2
                then let* (us, r) := lex_bq f cx s2 in Ok (BqBackslashed c2 :: us, r)
                else let* (us, r) := lex_bq f cx s1 in Ok (BqLiteral c_bslash :: us, r)
            | [] => Ok ([BqLiteral c_bslash], [])
            end
          else if c =? c_bq then Ok ([], c :: s1)
          else let* (us, r) := lex_bq f cx s1 in Ok (BqLiteral c :: us, r)
      end
  end.

(* ---- escape units of $'...' (escape.rs; raw characters) ---------------------------------------- *)

Definition hex_val (c : N) : option N :=
  if is_digit c then Some (c - 48)
  else if in_range 97 102 c then Some (c - 87)
  else if in_range 65 70 c then Some (c - 55)
  else None.

Definition oct_val (c : N) : option N := if in_range 48 55 c then Some (c - 48) else None.

(* hex_digits(count): at least one, at most [count] digits *)
Fixpoint hex_more (count : nat) (acc : N) (s : str) : N * str :=
  match count with
  | O => (acc, s)
  | S k => match s with
           | c :: s' => match hex_val c with
                        | Some d => hex_more k (acc * 16 + d) s'
                        | None => (acc, s)
                        end
           | [] => (acc, s)
           end
  end.

Definition hex_digits (count : nat) (s : str) : option (N * str) :=
  match s with
  | c :: s' => match hex_val c with
               | Some d => Some (hex_more (count - 1) d s')
               | None => None
               end
  | [] => None
  end.

Fixpoint oct_more (count : nat) (acc : N) (s : str) : N * str :=
  match count with
  | O => (acc, s)
  | S k => match s with
           | c :: s' => match oct_val c with
                        | Some d => oct_more k (acc * 8 + d) s'
                        | None => (acc, s)
                        end
           | [] => (acc, s)
           end
  end.

(* char::from_u32 succeeds *)
Definition is_scalar_value (v : N) : bool := (v <? 55296) || in_range 57344 1114111 v.

Definition to_ascii_upper (c : N) : N := if in_range 97 122 c then c - 32 else c.

(* escape_unit after the backslash; [c2] is the character after it *)
Definition lex_escape (c2 : N) (s : str) : res (escape_unit * str) :=
  if c2 =? 34 then Ok (EuDoubleQuote, s)
  else if c2 =? 39 then Ok (EuSingleQuote, s)
  else if c2 =? 92 then Ok (EuBackslash, s)
  else if c2 =? 63 then Ok (EuQuestion, s)
  else if c2 =? 97 then Ok (EuAlert, s)
  else if c2 =? 98 then Ok (EuBackspace, s)
  else if (c2 =? 101) || (c2 =? 69) then Ok (EuEscape, s)
  else if c2 =? 102 then Ok (EuFormFeed, s)
  else if c2 =? 110 then Ok (EuNewline, s)
  else if c2 =? 114 then Ok (EuCarriageReturn, s)
  else if c2 =? 116 then Ok (EuTab, s)
  else if c2 =? 118 then Ok (EuVerticalTab, s)
  else if c2 =? 99 then
    match s with
    | [] => Err
    | c3 :: s3 =>
        let u := to_ascii_upper c3 in
        if u =? 92 then
          match s3 with
          | c4 :: s4 => if c4 =? 92 then Ok (EuControl 28, s4) else Err
          | [] => Err
          end
        else if in_range 63 95 u then Ok (EuControl (N.lxor u 64), s3)
        else Err
    end
  else if c2 =? 120 then
    match hex_digits 2 s with
    | Some (v, r) => Ok (EuHex v, r)
    | None => Err
    end
  else if c2 =? 117 then
    match hex_digits 4 s with
    | Some (v, r) => if is_scalar_value v then Ok (EuUnicode v, r) else Err
    | None => Err
    end
  else if c2 =? 85 then
    match hex_digits 8 s with
    | Some (v, r) => if is_scalar_value v then Ok (EuUnicode v, r) else Err
    | None => Err
    end
  else
    match oct_val c2 with
    | None => Err
    | Some d => let (v, r) := oct_more 2 d s in
                if v <=? 255 then Ok (EuOctal v, r) else Err
    end.

(* escaped_string(|c| c == '\'') followed by the closing quote *)
Fixpoint lex_escaped (f : nat) (s : str) : res (list escape_unit * str) :=
  match f with
  | O => Fuel
  | S f =>
      match s with
      | [] => Err                                   (* UnclosedDollarSingleQuote *)
      | c1 :: s1 =>
          if c1 =? c_sq then Ok ([], s1)
          else if c1 =? c_bslash then
            match s1 with
            | [] => Err                             (* IncompleteEscape *)
            | c2 :: s2 =>
                let* (u, r) := lex_escape c2 s2 in
                let* (us, r') := lex_escaped f r in Ok (u :: us, r')
            end
          else let* (us, r) := lex_escaped f s1 in Ok (EuLiteral c1 :: us, r)
      end
  end.

(* ---- parameters ------------------------------------------------------------------------------------ *)

(* usize::MAX on the 64-bit target *)
Definition usize_max : N := 18446744073709551615.

Fixpoint dec_value (acc : N) (s : str) : option N :=
  match s with
  | [] => Some acc
  | c :: s' => if is_digit c then dec_value (acc * 10 + (c - 48)) s' else None
  end.

(* braced_param.rs type_of_id *)
Definition type_of_id (id : str) : option param_type :=
  match id with
  | [c] => if c =? 48 then Some (PtSpecial SpZero)
           else if is_digit c then Some (PtPositional (c - 48)) else Some PtVariable
  | c :: _ =>
      if is_digit c then
        match dec_value 0 id with
        | Some v => Some (PtPositional (if v <=? usize_max then v else usize_max))
        | None => None
        end
      else Some PtVariable
  | [] => Some PtVariable
  end.

(* has_length_prefix, on the text after "${" *)
Definition has_length_prefix (s : str) : bool :=
  match skip_lc s with
  | c0 :: s1 =>
      if c0 =? c_hash then
        match skip_lc s1 with
        | [] => true
        | c :: s2 =>
            if (c =? 125) || (c =? 43) || (c =? 61) || (c =? 58) || (c =? 37) then false
            else if (c =? 45) || (c =? 63) || (c =? 35) then
              match skip_lc s2 with
              | c3 :: _ => c3 =? 125
              | [] => true
              end
            else true
        end
      else false
  | [] => false
  end.

(* ---- tilde.rs ----------------------------------------------------------------------------------------- *)

(* parse_tilde(units, delimit_at_colon): Some (number of units, name, followed_by_slash) *)
Fixpoint tilde_name (colon : bool) (w : word) : option (nat * str * bool) :=
  match w with
  | [] => Some (O, [], false)
  | Unquoted (Literal c) :: w' =>
      if c =? 47 then Some (O, [], true)
      else if colon && (c =? 58) then Some (O, [], false)
      else match tilde_name colon w' with
           | Some (n, name, sl) => Some (S n, c :: name, sl)
           | None => None
           end
  | _ => None
  end.

Definition parse_tilde (colon : bool) (w : word) : option (nat * str * bool) :=
  match w with
  | Unquoted (Literal c) :: w' =>
      if c =? c_tilde then
        match tilde_name colon w' with
        | Some (n, name, sl) => Some (S n, name, sl)
        | None => None
        end
      else None
  | _ => None
  end.

(* Word::parse_tilde_front *)
Definition tilde_front (w : word) : word :=
  match parse_tilde false w with
  | Some (n, name, sl) => Tilde name sl :: skipn n w
  | None => w
  end.

(* Word::parse_tilde_everywhere_after(index) on the part after [index];
   [fuel] >= length of the word *)
Fixpoint skip_to_colon (w : word) : option (word * word) :=   (* (up to and including ':', rest) *)
  match w with
  | [] => None
  | Unquoted (Literal c) :: w' =>
      if c =? 58 then Some ([Unquoted (Literal c)], w')
      else match skip_to_colon w' with
           | Some (a, b) => Some (Unquoted (Literal c) :: a, b)
           | None => None
           end
  | u :: w' => match skip_to_colon w' with
               | Some (a, b) => Some (u :: a, b)
               | None => None
               end
  end.

Fixpoint tilde_everywhere (fuel : nat) (w : word) : word :=
  match fuel with
  | O => w
  | S fuel =>
      match parse_tilde true w with
      | Some (n, name, sl) =>
          let rest := skipn n w in
          Tilde name sl ::
            match skip_to_colon rest with
            | Some (a, b) => a ++ tilde_everywhere fuel b
            | None => rest
            end
      | None =>
          match skip_to_colon w with
          | Some (a, b) => a ++ tilde_everywhere fuel b
          | None => w
          end
      end
  end.

(* ---- braced_param.rs: the parameter and suffix_modifier (modifier.rs) -------------------------- *)

(* the parameter of a braced expansion, at the current position *)
Definition lex_param (s0 : str) : res (param * str) :=
  match skip_lc s0 with
  | [] => Err                                             (* EmptyParam at end of input *)
  | c :: s1 =>
      if is_name_char c then
        let (n, r) := lex_name (length s1) s1 in
        match type_of_id (c :: n) with
        | Some t => Ok (mkParam (c :: n) t, r)
        | None => Err                                     (* InvalidParam *)
        end
      else match special_of_char c with
           | Some sp => Ok (mkParam [c] (PtSpecial sp), s1)
           | None => Err                                  (* EmptyParam *)
           end
  end.

Definition switch_action_of (sym : N) : switch_action :=
  if sym =? 43 then SaAlter else if sym =? 45 then SaDefault
  else if sym =? 61 then SaAssign else SaError.

(* suffix_modifier; [lu cx s] lexes a word that ends at a closing brace *)
Definition lex_suffix (lu : ctx -> str -> res (word * str)) (cx : ctx) (r : str)
    : res (modifier * str) :=
  let r0 := skip_lc r in
  let colon := match r0 with c :: _ => c =? 58 | [] => false end in
  let r1 := if colon then match r0 with _ :: t => skip_lc t | [] => [] end else r0 in
  match r1 with
  | [] => if colon then Err else Ok (MNone, r1)
  | sym :: r1' =>
      if (sym =? 43) || (sym =? 45) || (sym =? 61) || (sym =? 63) then
        let* (w, r') := lu cx r1' in
        Ok (MSwitch (switch_action_of sym) (if colon then ScUnsetOrEmpty else ScUnset)
                    (match cx with CWord => tilde_front w | CText => w end), r')
      else if (sym =? 35) || (sym =? 37) then
        if colon then Err
        else
          let side := if sym =? 35 then TsPrefix else TsSuffix in
          let (len, r1'') :=
            match skip_lc r1' with
            | c' :: t => if c' =? sym then (TlLongest, t) else (TlShortest, c' :: t)
            | [] => (TlShortest, [])
            end in
          let* (w, r') := lu CWord r1'' in
          Ok (MTrim side len (tilde_front w), r')
      else if colon then Err else Ok (MNone, r1)
  end.

(* ---- the mutually recursive core ------------------------------------------------------------------------------ *)

Section Lexer.
  (* Lexer::inner_program on the text after "$(": the content string and the
     rest (which starts at the next token) *)
  Variable inner : str -> res (str * str).

  Fixpoint lex_tu (f : nat) (cx : ctx) (d : delim) (e : esc) (s : str) {struct f}
      : res (option text_unit * str) :=
    match f with
    | O => Fuel
    | S f =>
        match skip_lc s with
        | [] => Ok (None, [])
        | c :: s1 =>
            if c =? c_bslash then
              (* consume_raw_char_if_dyn: no line continuation here *)
              match s1 with
              | c2 :: s2 => if is_esc e c2 then Ok (Some (Backslashed c2), s2)
                            else Ok (Some (Literal c_bslash), s1)
              | [] => Ok (Some (Literal c_bslash), [])
              end
            else if c =? c_dollar then
              let* (o, r) := lex_dollar f cx s1 in
              match o with
              | Some u => Ok (Some u, r)
              | None => if is_delim d c then Ok (None, c :: s1) else Ok (Some (Literal c), s1)
              end
            else if c =? c_bq then
              let* (us, r) := lex_bq f cx s1 in
              match r with
              | _ :: r' => Ok (Some (Backquote us), r')    (* the closing backquote *)
              | [] => Err
              end
            else if is_delim d c then Ok (None, c :: s1)
            else Ok (Some (Literal c), s1)
        end
    end

  (* dollar.rs dollar_unit, after the '$' *)
  with lex_dollar (f : nat) (cx : ctx) (s : str) {struct f} : res (option text_unit * str) :=
    match f with
    | O => Fuel
    | S f =>
        match skip_lc s with
        | [] => Ok (None, [])
        | c :: s1 =>
            match special_of_char c with
            | Some sp => Ok (Some (RawParam (mkParam [c] (PtSpecial sp))), s1)
            | None =>
                if is_digit c then Ok (Some (RawParam (mkParam [c] (PtPositional (c - 48)))), s1)
                else if is_name_char c then
                  let (n, r) := lex_name (length s1) s1 in
                  Ok (Some (RawParam (mkParam (c :: n) PtVariable)), r)
                else if c =? c_lbrace then
                  let* (u, r) := lex_braced f cx s1 in Ok (Some u, r)
                else if c =? c_lparen then
                  let cmdsubst :=
                    let* (content, r) := inner s1 in
                    match skip_lc r with
                    | c' :: r' => if c' =? c_rparen then Ok (Some (CommandSubst content), r')
                                  else Err
                    | [] => Err
                    end in
                  match skip_lc s1 with
                  | c' :: s2 =>
                      if c' =? c_lparen then
                        (* arithmetic expansion, falling back to a command substitution *)
                        let* (content, r) := lex_twp f O s2 in
                        match skip_lc r with
                        | [] => Err
                        | c1 :: r1 =>
                            if c1 =? c_rparen then
                              match skip_lc r1 with
                              | [] => Err
                              | c2 :: r2 => if c2 =? c_rparen then Ok (Some (Arith content), r2)
                                            else cmdsubst
                              end
                            else Panic                       (* unreachable!() *)
                        end
                      else cmdsubst
                  | [] => cmdsubst
                  end
                else Ok (None, c :: s1)
            end
        end
    end

  (* braced_param.rs braced_param, after the opening brace *)
  with lex_braced (f : nat) (cx : ctx) (s : str) {struct f} : res (text_unit * str) :=
    match f with
    | O => Fuel
    | S f =>
        let pre := has_length_prefix s in
        let s0 := if pre then match skip_lc s with _ :: t => t | [] => [] end else s in
        let* (p, r) := lex_param s0 in
        let* (m, r2) := lex_suffix (fun cx' s' => lex_units f cx' DBrace s') cx r in
        match skip_lc r2 with
        | c' :: r3 =>
            if c' =? c_rbrace then
              match pre, m with
              | true, MNone => Ok (BracedParam p MLength, r3)
              | true, _ => Err                              (* MultipleModifier *)
              | false, _ => Ok (BracedParam p m, r3)
              end
            else Err                                        (* UnclosedParam *)
        | [] => Err
        end
    end

  (* text.rs text_dyn *)
  with lex_text (f : nat) (d : delim) (e : esc) (s : str) {struct f} : res (text * str) :=
    match f with
    | O => Fuel
    | S f =>
        let* (o, r) := lex_tu f CText d e s in
        match o with
        | None => Ok ([], r)
        | Some u => let* (us, r') := lex_text f d e r in Ok (u :: us, r')
        end
    end

  (* text.rs text_with_parentheses_dyn as called from arith.rs; [depth] is the
     number of open parentheses *)
  with lex_twp (f : nat) (depth : nat) (s : str) {struct f} : res (text * str) :=
    match f with
    | O => Fuel
    | S f =>
        let* (us, r) := lex_text f DParen EArith s in
        match skip_lc r with
        | c :: r1 =>
            if c =? c_lparen then
              let* (vs, r2) := lex_twp f (S depth) r1 in Ok (us ++ Literal c_lparen :: vs, r2)
            else
              match depth with
              | O => Ok (us, c :: r1)
              | S dep =>
                  if c =? c_rparen then
                    let* (vs, r2) := lex_twp f dep r1 in Ok (us ++ Literal c_rparen :: vs, r2)
                  else Err                                       (* UnclosedParen *)
              end
        | [] => match depth with O => Ok (us, []) | S _ => Err end
        end
    end

  (* word.rs word_unit_dyn *)
  with lex_wu (f : nat) (cx : ctx) (d : delim) (s : str) {struct f}
      : res (option word_unit * str) :=
    match f with
    | O => Fuel
    | S f =>
        match skip_lc s with
        | [] => Ok (None, [])
        | c :: s1 =>
            if (c =? c_sq) && match cx with CWord => true | CText => false end then
              let* (q, r) := lex_single_quote s1 in Ok (Some (SingleQuote q), r)
            else if c =? c_dq then
              let* (t, r) := lex_text f DDQuote EDQuote s1 in
              match skip_lc r with
              | c' :: r' => if c' =? c_dq then Ok (Some (DoubleQuote t), r') else Err
              | [] => Err                                        (* UnclosedDoubleQuote *)
              end
            else
              let* (o, r) := lex_tu f cx d (esc_of cx d) (c :: s1) in
              match o with
              | None => Ok (None, r)
              | Some u =>
                  match cx, u with
                  | CWord, Literal c0 =>
                      if c0 =? c_dollar then
                        (* single_quoted_escaped_string *)
                        match skip_lc r with
                        | c' :: r' =>
                            if c' =? c_sq then
                              let* (es, r'') := lex_escaped (S (length r')) r' in
                              Ok (Some (DollarSingleQuote es), r'')
                            else Ok (Some (Unquoted u), c' :: r')
                        | [] => Ok (Some (Unquoted u), [])
                        end
                      else Ok (Some (Unquoted u), r)
                  | _, _ => Ok (Some (Unquoted u), r)
                  end
              end
        end
    end

  (* word.rs word_dyn (without the tilde post-processing of its callers) *)
  with lex_units (f : nat) (cx : ctx) (d : delim) (s : str) {struct f} : res (word * str) :=
    match f with
    | O => Fuel
    | S f =>
        let* (o, r) := lex_wu f cx d s in
        match o with
        | None => Ok ([], r)
        | Some u => let* (us, r') := lex_units f cx d r in Ok (u :: us, r')
        end
    end.

End Lexer.
