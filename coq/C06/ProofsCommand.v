(* C06 — proofs, part 21: a simple command at the level of command.rs: the
   printed command is read back as the same simple command (it is not taken
   for a function definition or a compound command). *)
From Yv Require Import Common.Base C06.Ast C06.Print C06.Lex C06.LexEq C06.Parse C06.ParseEq
  C06.Spec C06.ProofsLen C06.ProofsStop C06.ProofsTilde C06.ProofsNum C06.ProofsRtBase C06.ProofsRt
  C06.ProofsMono C06.ProofsOp C06.ProofsToken C06.ProofsInner C06.ProofsRedir C06.SpecCmd C06.ProofsCmdBase C06.ProofsSimple
  C06.ProofsSimpleAux C06.ProofsSimpleFirst C06.ProofsSimpleRun.
Local Open Scope N_scope.

(* a simple command returned by command.rs was returned by simple_command.rs *)
Lemma command_simple f s a w rds r :
  p_command f s = Ok (Some (CSimple a w rds), r) ->
  exists f0, p_simple f0 None empty_b s = Ok (Some (a, w, rds), r).
Proof.
  destruct f as [|f]; [discriminate|]. rewrite p_command_eq. cbv zeta. unfold bind.
  destruct (p_simple f None (mkBuilder [] [] []) s) as [[[[[a' w'] rds']|] s1]| | | |] eqn:E; try discriminate.
  - intros H. exists f.
    assert (X : CSimple a w rds = CSimple a' w' rds' /\ r = s1).
    { repeat (dmh H; try discriminate); inv H; auto. }
    destruct X as [X ->]. inv X. exact E.
  - intros H. repeat (dmh H; try discriminate).
Qed.

Theorem command_print_lemma f s a w rds r z pre :
  p_command f s = Ok (Some (CSimple a w rds), r) ->
  r <> [] \/ nobs_res (a, w, rds) -> nocs_res (a, w, rds) -> follow z -> cmd_end z -> is_lead pre ->
  exists F, forall f', (F <= f')%nat ->
    p_command f' (pre ++ print_command (CSimple a w rds) ++ z) = Ok (Some (CSimple a w rds), z).
Proof.
  intros H Hb Hn Hz He Hl. destruct (command_simple _ _ _ _ _ _ H) as [f0 H0].
  destruct (simple_print_lemma _ _ _ _ _ _ z pre H0 Hb Hn Hz He Hl) as [F HF].
  exists (S (max F 3)). intros f' Hf'. destruct f' as [|f']; [lia|].
  rewrite p_command_eq. cbv zeta. unfold bind.
  change (mkBuilder [] [] []) with empty_b. cbn [print_command]. rewrite (HF f' ltac:(lia)).
  destruct (cmd_end_token (p_inner f') f' z He ltac:(lia)) as (t & r' & Et & _ & _ & Hid).
  destruct a; [|reflexivity]. destruct w as [|[name m] [|]]; try reflexivity.
  destruct rds; [|reflexivity]. rewrite Et.
  destruct (t_id t) as [|op| | |]; try reflexivity. destruct op; try reflexivity.
  destruct Hid as (_ & X & _). congruence.
Qed.
