(* C06 — proofs, part 13: a word token is read back from its printed form. *)
From Yv Require Import Common.Base C06.Ast C06.Print C06.Lex C06.LexEq C06.Parse C06.Spec
  C06.ProofsLen C06.ProofsStop C06.ProofsTilde C06.ProofsRtBase C06.ProofsRt.
Local Open Scope N_scope.

Lemma skip_blanks_spec f s :
  (len s <= f)%nat ->
  nolc (skip_blanks f s) /\
  match skip_blanks f s with c :: _ => is_blank c = false | [] => True end.
Proof.
  revert s. induction f as [|f IH]; intros s Hf; cbn [skip_blanks].
  - destruct s; [|cbn in Hf; lia]. cbn. auto using nolc_nil.
  - pose proof (skip_lc_len s) as L. destruct (skip_lc s) as [|c s'] eqn:E.
    + auto using nolc_nil.
    + destruct (is_blank c) eqn:Eb.
      * apply IH. cbn [length] in L. lia.
      * split; [rewrite <- E; apply nolc_skip_lc | exact Eb].
Qed.

Lemma drop_line_spec s :
  match drop_line s with c :: _ => c = c_nl | [] => True end.
Proof.
  induction s as [|c s IH]; cbn [drop_line]; [exact I|].
  destruct (c =? c_nl) eqn:E; [apply N.eqb_eq in E; exact E | exact IH].
Qed.

(* after blanks and a comment: no line continuation, no blank, no `#` *)
Lemma skip_blanks_and_comment_spec s :
  nolc (skip_blanks_and_comment s) /\
  match skip_blanks_and_comment s with
  | c :: _ => is_blank c = false /\ (c =? c_hash) = false
  | [] => True
  end.
Proof.
  unfold skip_blanks_and_comment, skip_comment.
  destruct (skip_blanks_spec (len s) s ltac:(lia)) as [N B].
  rewrite N. destruct (skip_blanks (len s) s) as [|c s'] eqn:E; [auto using nolc_nil|].
  destruct (c =? c_hash) eqn:Eh.
  - pose proof (drop_line_spec s') as D. destruct (drop_line s') as [|c' t]; [auto using nolc_nil|].
    subst c'. split; [apply nolc_cons; reflexivity | split; reflexivity].
  - split; [exact N | split; assumption].
Qed.

Lemma skip_blanks_and_comment_id c t :
  nolc (c :: t) -> is_blank c = false -> (c =? c_hash) = false ->
  skip_blanks_and_comment (c :: t) = c :: t.
Proof.
  intros N B H. unfold skip_blanks_and_comment, skip_comment. cbn [length skip_blanks].
  rewrite N, B, N, H. reflexivity.
Qed.

Lemma lex_operator_head c t t' :
  nolc (c :: t) -> nolc (c :: t') -> lex_operator (c :: t) = None -> lex_operator (c :: t') = None.
Proof.
  unfold lex_operator. intros N N' H. rewrite N in H. rewrite N'.
  repeat (dmh H; try discriminate). 
  repeat match goal with E : (c =? _) = false |- _ => rewrite E; clear E end. reflexivity.
Qed.

Lemma lex_operator_none_head' c t :
  nolc (c :: t) -> lex_operator (c :: t) = None -> is_operator_char c = false.
Proof.
  unfold lex_operator. intros N H. rewrite N in H. unfold is_operator_char.
  repeat (dmh H; try discriminate).
  repeat match goal with E : (c =? _) = false |- _ => rewrite E; clear E end. reflexivity.
Qed.

Lemma tilde_front_nil' w : tilde_front w = [] -> w = [].
Proof.
  unfold tilde_front. destruct (parse_tilde false w) as [[[n name] sl]|]; [discriminate | auto].
Qed.

Section TokenRt.
  Variable inner : str -> res (str * str).
  Hypothesis inner_rt : forall s content r0 r0',
    inner s = Ok (content, r0) -> skip_lc r0 = c_rparen :: r0' ->
    forall z, inner (content ++ c_rparen :: z) = Ok (content, c_rparen :: z).

  (* a word token (not an operator, not the end of input) and its units
     before the tilde post-processing *)
  Theorem lex_token_print_lemma f s t r :
    lex_token inner f s = Ok (t, r) -> t_word t <> [] ->
    exists w,
      t_word t = tilde_front w /\
      (ok_word w = true ->
       forall z, nolc z -> stops DToken z -> last_fo_word CWord DToken w (hd z) ->
         lex_token inner (S (S f)) (print_word (t_word t) ++ z)
         = Ok (mkToken (t_word t) (token_id_of (t_word t) z) (print_word (t_word t) ++ z), z)).
  Proof.
    unfold lex_token, bind. intros H Hw.
    destruct (skip_blanks_and_comment_spec s) as [N0 B0].
    destruct (lex_operator (skip_blanks_and_comment s)) as [[op r']|] eqn:Eop.
    { inv H. cbn [t_word] in Hw. congruence. }
    destruct (lex_units inner f CWord DToken (skip_blanks_and_comment s)) as [[w r']| | | |] eqn:Eu;
      try discriminate.
    inv H. cbn [t_word] in *. exists w. split; [reflexivity|].
    intros Hk z Hz Hs Hl.
    assert (Hw' : w <> []).
    { intros ->. apply Hw. reflexivity. }
    destruct (lex_rt inner inner_rt f) as (_ & _ & _ & _ & _ & _ & Hun).
    destruct (Hun _ _ _ _ _ Eu Hk ltac:(discriminate)) as (_ & _ & _ & Hd & Rt).
    destruct (Hd Hw') as (c & x & y & Hsx & Hp).
    destruct (Rt z Hz Hs Hl) as [N1 L1].
    rewrite print_tilde_front. rewrite N0 in Hsx. rewrite Hsx in B0, Eop, N0.
    destruct B0 as [B1 B2].
    rewrite Hp in N1 |- *. cbn [app] in N1 |- *.
    rewrite (skip_blanks_and_comment_id _ _ N1 B1 B2).
    rewrite (lex_operator_head _ _ _ N0 N1 Eop).
    rewrite Hp in L1. cbn [app] in L1. rewrite L1. reflexivity.
  Qed.
End TokenRt.

Section TokenHead.
  Variable inner : str -> res (str * str).
  Hypothesis inner_rt : forall s content r0 r0',
    inner s = Ok (content, r0) -> skip_lc r0 = c_rparen :: r0' ->
    forall z, inner (content ++ c_rparen :: z) = Ok (content, c_rparen :: z).

  (* the first character of a printed word token: not an operator character,
     not a blank, not `#` *)
  Lemma lex_token_head f s t r w :
    lex_token inner f s = Ok (t, r) -> t_word t = tilde_front w -> w <> [] ->
    lex_units inner f CWord DToken (skip_blanks_and_comment s) = Ok (w, r) ->
    ok_word w = true ->
    exists c y, print_word (t_word t) = c :: y /\ is_operator_char c = false /\
                is_blank c = false /\ (c =? c_hash) = false.
  Proof.
    intros H Et Hw Eu Hk.
    destruct (skip_blanks_and_comment_spec s) as [N0 B0].
    unfold lex_token, bind in H.
    destruct (lex_operator (skip_blanks_and_comment s)) as [[op r']|] eqn:Eop.
    { inv H. cbn [t_word] in Et. symmetry in Et. apply tilde_front_nil' in Et. congruence. }
    destruct (lex_rt inner inner_rt f) as (_ & _ & _ & _ & _ & _ & Hun).
    destruct (Hun _ _ _ _ _ Eu Hk ltac:(discriminate)) as (_ & _ & _ & Hd & _).
    destruct (Hd Hw) as (c & x & y & Hsx & Hp).
    rewrite N0 in Hsx. rewrite Hsx in B0, Eop, N0. destruct B0 as [B1 B2].
    rewrite Et, print_tilde_front, Hp. exists c, y. split; [reflexivity|].
    split; [eapply lex_operator_none_head'; eauto | auto].
  Qed.

  Lemma lex_token_print_w f s t r w :
    lex_token inner f s = Ok (t, r) -> t_word t = tilde_front w -> w <> [] ->
    lex_units inner f CWord DToken (skip_blanks_and_comment s) = Ok (w, r) ->
    ok_word w = true ->
    forall z, nolc z -> stops DToken z -> last_fo_word CWord DToken w (hd z) ->
      lex_token inner (S (S f)) (print_word (t_word t) ++ z)
      = Ok (mkToken (t_word t) (token_id_of (t_word t) z) (print_word (t_word t) ++ z), z).
  Proof.
    intros H Et Hw Eu Hk z Hz Hs Hl.
    destruct (skip_blanks_and_comment_spec s) as [N0 B0].
    unfold lex_token, bind in H.
    destruct (lex_operator (skip_blanks_and_comment s)) as [[op r']|] eqn:Eop.
    { inv H. cbn [t_word] in Et. symmetry in Et. apply tilde_front_nil' in Et. congruence. }
    clear H.
    destruct (lex_rt inner inner_rt f) as (_ & _ & _ & _ & _ & _ & Hun).
    destruct (Hun _ _ _ _ _ Eu Hk ltac:(discriminate)) as (_ & _ & _ & Hd & Rt).
    destruct (Hd Hw) as (c & x & y & Hsx & Hp).
    destruct (Rt z Hz Hs Hl) as [N1 L1].
    rewrite Et, print_tilde_front. rewrite N0 in Hsx. rewrite Hsx in B0, Eop, N0.
    destruct B0 as [B1 B2].
    unfold lex_token, bind.
    rewrite Hp in N1 |- *. cbn [app] in N1 |- *.
    rewrite (skip_blanks_and_comment_id _ _ N1 B1 B2).
    rewrite (lex_operator_head _ _ _ N0 N1 Eop).
    rewrite Hp in L1. cbn [app] in L1. rewrite L1. reflexivity.
  Qed.
End TokenHead.

(* a word token comes from a run of [lex_units] *)
Lemma lex_token_word inner f s t r :
  lex_token inner f s = Ok (t, r) -> t_word t <> [] ->
  exists w, t_word t = tilde_front w /\ w <> [] /\
            lex_units inner f CWord DToken (skip_blanks_and_comment s) = Ok (w, r) /\
            t_id t = token_id_of (t_word t) r.
Proof.
  unfold lex_token, bind. intros H Hw.
  destruct (lex_operator (skip_blanks_and_comment s)) as [[op r']|] eqn:Eop.
  { inv H. cbn [t_word] in Hw. congruence. }
  destruct (lex_units inner f CWord DToken (skip_blanks_and_comment s)) as [[w r']| | | |] eqn:Eu;
    try discriminate.
  inv H. cbn [t_word t_id] in *. exists w. repeat split; auto.
  intros ->. apply Hw. reflexivity.
Qed.
