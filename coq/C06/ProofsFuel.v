(* C06 — proofs, part 2: the fuel computed from the length of the input is
   never exhausted (lexer). *)
From Yv Require Import Common.Base C06.Ast C06.Print C06.Lex C06.LexEq C06.Parse C06.ProofsLen.
Local Open Scope N_scope.

Lemma lex_bq_fuel f cx s : (len s < f)%nat -> lex_bq f cx s <> Fuel.
Proof.
  revert s. induction f as [|f IH]; intros s L; [lia|].
  cbn [lex_bq]. pose proof (skip_lc_len s) as L1. unfold bind.
  destruct (skip_lc s) as [|c s1]; [discriminate|]. cbn [length] in L1.
  destruct (c =? c_bslash).
  - destruct s1 as [|c2 s2]; [discriminate|]. cbn [length] in L1.
    destruct (bq_escapable cx c2).
    + specialize (IH s2 ltac:(lia)). destruct (lex_bq f cx s2) as [[? ?]| | | |]; congruence.
    + specialize (IH (c2 :: s2) ltac:(cbn [length]; lia)).
      destruct (lex_bq f cx (c2 :: s2)) as [[? ?]| | | |]; congruence.
  - destruct (c =? c_bq); [discriminate|].
    specialize (IH s1 ltac:(lia)). destruct (lex_bq f cx s1) as [[? ?]| | | |]; congruence.
Qed.

Lemma lex_escape_nofuel c2 s : lex_escape c2 s <> Fuel.
Proof.
  unfold lex_escape. repeat (dmg; try discriminate).
Qed.

Lemma lex_escaped_fuel f s : (len s < f)%nat -> lex_escaped f s <> Fuel.
Proof.
  revert s. induction f as [|f IH]; intros s L; [lia|].
  cbn [lex_escaped]. unfold bind. destruct s as [|c1 s1]; [discriminate|]. cbn [length] in L.
  destruct (c1 =? c_sq); [discriminate|]. destruct (c1 =? c_bslash).
  - destruct s1 as [|c2 s2]; [discriminate|]. cbn [length] in L.
    pose proof (lex_escape_nofuel c2 s2).
    destruct (lex_escape c2 s2) as [[u r]| | | |] eqn:E; try congruence.
    apply lex_escape_len in E. specialize (IH r ltac:(lia)).
    destruct (lex_escaped f r) as [[? ?]| | | |]; congruence.
  - specialize (IH s1 ltac:(lia)). destruct (lex_escaped f s1) as [[? ?]| | | |]; congruence.
Qed.

Lemma lex_single_quote_nofuel s : lex_single_quote s <> Fuel.
Proof.
  induction s as [|c s IH]; cbn [lex_single_quote]; [discriminate|].
  destruct (c =? c_sq); [discriminate|]. unfold bind.
  destruct (lex_single_quote s) as [[? ?]| | | |]; congruence.
Qed.

(* ranks of the lexer functions in the call graph on inputs of the same length *)
Definition rk_tu := 0%nat.   Definition rk_dollar := 0%nat. Definition rk_braced := 0%nat.
Definition rk_text := 1%nat. Definition rk_wu := 1%nat.
Definition rk_twp := 2%nat.  Definition rk_units := 2%nat.
Definition rk_inner := 12%nat.

Section LexFuel.
  Variable inner : str -> res (str * str).
  Variable F : nat.      (* the fuel [inner] runs on *)
  Hypothesis inner_len : forall s c r, inner s = Ok (c, r) -> (len r <= len s)%nat.
  Hypothesis inner_fuel : forall s, (fuel_k * len s + rk_inner < F)%nat -> inner s <> Fuel.

  Definition F_tu (f : nat) := forall cx d e s,
    (f <= F)%nat -> (fuel_k * len s + rk_tu < f)%nat -> lex_tu inner f cx d e s <> Fuel.
  Definition F_dollar (f : nat) := forall cx s,
    (f <= F)%nat -> (fuel_k * len s + rk_dollar < f)%nat -> lex_dollar inner f cx s <> Fuel.
  Definition F_braced (f : nat) := forall cx s,
    (f <= F)%nat -> (fuel_k * len s + rk_braced < f)%nat -> lex_braced inner f cx s <> Fuel.
  Definition F_text (f : nat) := forall d e s,
    (f <= F)%nat -> (fuel_k * len s + rk_text < f)%nat -> lex_text inner f d e s <> Fuel.
  Definition F_twp (f : nat) := forall depth s,
    (f <= F)%nat -> (fuel_k * len s + rk_twp < f)%nat -> lex_twp inner f depth s <> Fuel.
  Definition F_wu (f : nat) := forall cx d s,
    (f <= F)%nat -> (fuel_k * len s + rk_wu < f)%nat -> lex_wu inner f cx d s <> Fuel.
  Definition F_units (f : nat) := forall cx d s,
    (f <= F)%nat -> (fuel_k * len s + rk_units < f)%nat -> lex_units inner f cx d s <> Fuel.

  Definition F_all f :=
    F_tu f /\ F_dollar f /\ F_braced f /\ F_text f /\ F_twp f /\ F_wu f /\ F_units f.

  Lemma F_all_0 : F_all 0.
  Proof. repeat split; hnf; intros; lia. Qed.

  Ltac lexunfg :=
    first [ rewrite lex_tu_eq | rewrite lex_dollar_eq | rewrite lex_braced_eq
          | rewrite lex_text_eq | rewrite lex_twp_eq | rewrite lex_wu_eq
          | rewrite lex_units_eq ];
    unfold lex_param, lex_suffix, bind.

  Ltac lenfacts' :=
    repeat match goal with
    | H : lex_tu _ ?f _ _ _ _ = Ok (_, _) |- _ => apply (proj1 (lex_len inner inner_len f)) in H
    | H : lex_dollar _ ?f _ _ = Ok (_, _) |- _ =>
        apply (proj1 (proj2 (lex_len inner inner_len f))) in H
    | H : lex_braced _ ?f _ _ = Ok (_, _) |- _ =>
        apply (proj1 (proj2 (proj2 (lex_len inner inner_len f)))) in H
    | H : lex_text _ ?f _ _ _ = Ok (_, _) |- _ =>
        apply (proj1 (proj2 (proj2 (proj2 (lex_len inner inner_len f))))) in H
    | H : lex_twp _ ?f _ _ = Ok (_, _) |- _ =>
        apply (proj1 (proj2 (proj2 (proj2 (proj2 (lex_len inner inner_len f)))))) in H
    | H : lex_wu _ ?f _ _ _ = Ok (_, _) |- _ =>
        apply (proj1 (proj2 (proj2 (proj2 (proj2 (proj2 (lex_len inner inner_len f))))))) in H
    | H : lex_units _ ?f _ _ _ = Ok (_, _) |- _ =>
        apply (proj2 (proj2 (proj2 (proj2 (proj2 (proj2 (lex_len inner inner_len f))))))) in H
    | H : lex_bq _ _ _ = Ok (_, _) |- _ => apply lex_bq_len in H
    | H : lex_name _ _ = (_, _) |- _ => apply lex_name_len in H
    | H : lex_single_quote _ = Ok (_, _) |- _ => apply lex_single_quote_len in H
    | H : lex_escaped _ _ = Ok (_, _) |- _ => apply lex_escaped_len in H
    | H : inner _ = Ok (_, _) |- _ => apply inner_len in H
    | H : skip_lc ?s = _ |- _ =>
        let L := fresh "L" in pose proof (skip_lc_len s) as L; rewrite H in L; clear H
    end;
    repeat match goal with H : _ /\ _ |- _ => destruct H end;
    repeat match goal with
           | H : Some _ <> None -> _ |- _ => specialize (H ltac:(discriminate))
           | H : None <> None -> _ |- _ => clear H
           end;
    cbn [length] in *.

  (* a call that ran out of fuel although it had enough *)
  Ltac fuelcontra :=
    unfold F_tu, F_dollar, F_braced, F_text, F_twp, F_wu, F_units in *;
    unfold rk_tu, rk_dollar, rk_braced, rk_text, rk_wu, rk_twp, rk_units, rk_inner, fuel_k in *;
    match goal with
    | H : lex_bq _ _ _ = Fuel |- _ => apply lex_bq_fuel in H; [exact H | cbn [length]; lia]
    | H : lex_escaped _ _ = Fuel |- _ => apply lex_escaped_fuel in H; [exact H | cbn [length]; lia]
    | H : lex_single_quote _ = Fuel |- _ => apply lex_single_quote_nofuel in H; exact H
    | H : inner _ = Fuel |- _ => apply inner_fuel in H; [exact H | cbn [length]; lia]
    | H : _ = Fuel |- _ =>
        match goal with
        | IH : forall _, _ |- _ => apply IH in H; [exact H | cbn [length]; lia | cbn [length]; lia]
        end
    end.

  Ltac fuelstep :=
    intros Hle Hf Hfuel; revert Hfuel; lexunfg; cbv zeta; intros Hfuel;
    dmall; clean; try discriminate; lenfacts'; fuelcontra.

  Lemma F_tu_S f : F_all f -> F_tu (S f).
  Proof. intros (Htu & Hdol & Hbr & Htx & Htwp & Hwu & Hun) cx d e s. fuelstep. Qed.

  Lemma F_dollar_S f : F_all f -> F_dollar (S f).
  Proof. intros (Htu & Hdol & Hbr & Htx & Htwp & Hwu & Hun) cx s.
    intros Hle Hf Hfuel; revert Hfuel; lexunfg; cbv zeta; intros Hfuel;
    dmall; clean; try discriminate; lenfacts'; fuelcontra. Qed.

  Lemma F_braced_S f : F_all f -> F_braced (S f).
  Proof. intros (Htu & Hdol & Hbr & Htx & Htwp & Hwu & Hun) cx s.
    intros Hle Hf Hfuel; revert Hfuel; lexunfg; cbv zeta; intros Hfuel;
    dmall; clean; try discriminate; lenfacts'; fuelcontra. Qed.

  Lemma F_text_S f : F_all f -> F_text (S f).
  Proof. intros (Htu & Hdol & Hbr & Htx & Htwp & Hwu & Hun) d e s. fuelstep. Qed.

  Lemma F_twp_S f : F_all f -> F_twp (S f).
  Proof. intros (Htu & Hdol & Hbr & Htx & Htwp & Hwu & Hun) depth s. fuelstep. Qed.

  Lemma F_wu_S f : F_all f -> F_wu (S f).
  Proof. intros (Htu & Hdol & Hbr & Htx & Htwp & Hwu & Hun) cx d s. fuelstep. Qed.

  Lemma F_units_S f : F_all f -> F_units (S f).
  Proof. intros (Htu & Hdol & Hbr & Htx & Htwp & Hwu & Hun) cx d s. fuelstep. Qed.

  Lemma lex_fuel : forall f, F_all f.
  Proof.
    induction f as [|f IH]; [exact F_all_0|].
    unfold F_all.
    pose proof (F_tu_S f IH). pose proof (F_dollar_S f IH). pose proof (F_braced_S f IH).
    pose proof (F_text_S f IH). pose proof (F_twp_S f IH). pose proof (F_wu_S f IH).
    pose proof (F_units_S f IH). tauto.
  Qed.
End LexFuel.
