(* C06 — proofs: collects the proof files. *)
From Yv Require Export Common.Base C06.Model C06.Spec.
From Yv Require Export C06.LexEq C06.ParseEq C06.ProofsLen C06.ProofsFuel C06.ProofsStop
  C06.ProofsTok C06.ProofsParse C06.ProofsTilde C06.ProofsNum C06.ProofsEscape C06.ProofsRtBase
  C06.ProofsRt C06.ProofsF14 C06.ProofsMono C06.ProofsTop C06.ProofsOp C06.ProofsToken C06.ProofsInner
  C06.ProofsRedir C06.SpecCmd C06.ProofsCmdBase C06.ProofsSimple C06.ProofsSimpleAux C06.ProofsSimpleFirst
  C06.ProofsSimpleRun C06.ProofsCommand C06.ProofsList C06.SpecCompound C06.ProofsCompound.

Lemma oracle_accepts_errors : forall s, oracle PErr s = None.
Proof. reflexivity. Qed.
