(* C06 — the property as a specification.

   Prop form: what "total" and "printing re-parses to the same tree" mean for
   a parser/printer pair; boolean form (the ORACLE): the same statement
   evaluated on what the implementation returned for one source text. *)
From Yv Require Import Common.Base C06.Ast C06.Lex C06.Parse.
From Yv Require Export C06.SpecLex.

(* ---- operators (Operator::as_str) and what may follow them ------------------- *)

Definition print_op (o : operator) : str :=
  match o with
  | OpNewline => [10] | OpAnd => [38] | OpAndAnd => [38; 38] | OpOpenParen => [40]
  | OpCloseParen => [41] | OpSemicolon => [59] | OpSemicolonAnd => [59; 38]
  | OpSemicolonSemicolon => [59; 59] | OpSemicolonSemicolonAnd => [59; 59; 38]
  | OpSemicolonBar => [59; 124] | OpLess => [60] | OpLessAnd => [60; 38]
  | OpLessOpenParen => [60; 40] | OpLessLess => [60; 60] | OpLessLessDash => [60; 60; 45]
  | OpLessLessLess => [60; 60; 60] | OpLessGreater => [60; 62] | OpGreater => [62]
  | OpGreaterAnd => [62; 38] | OpGreaterOpenParen => [62; 40] | OpGreaterGreater => [62; 62]
  | OpGreaterGreaterBar => [62; 62; 124] | OpGreaterBar => [62; 124] | OpBar => [124]
  | OpBarBar => [124; 124]
  end%N.

(* the characters that would turn the operator into a longer one *)
Definition op_ext (o : operator) : list N :=
  match o with
  | OpAnd => [38] | OpSemicolon => [38; 59; 124] | OpSemicolonSemicolon => [38]
  | OpLess => [38; 40; 60; 62] | OpLessLess => [45; 60] | OpGreater => [38; 40; 62; 124]
  | OpGreaterGreater => [124] | OpBar => [124]
  | _ => []
  end%N.

Definition op_follow_ok (o : operator) (h : option N) : Prop :=
  match h with
  | Some c => existsb (N.eqb c) (op_ext o) = false
  | None => True
  end.

(* ---- Prop form ------------------------------------------------------------ *)

(* outcome of running a parser on a text *)
Inductive outcome (T : Type) :=
| Tree (t : T)           (* a syntax tree *)
| SyntaxError            (* a syntax error *)
| Panics                 (* a Rust panic site was reached *)
| OutOfFuel.             (* the step budget was exhausted *)
Arguments Tree {T} t.
Arguments SyntaxError {T}.
Arguments Panics {T}.
Arguments OutOfFuel {T}.

Section Spec.
  Context {T : Type} (parse : str -> outcome T) (print : T -> str).

  (* the parser terminates with a tree or a syntax error on every text *)
  Definition total : Prop :=
    forall s, (exists t, parse s = Tree t) \/ parse s = SyntaxError.

  (* for every tree the parser produces, the printed text parses back to it *)
  Definition print_reparses : Prop :=
    forall s t, parse s = Tree t -> parse (print t) = Tree t.
End Spec.

(* ---- what the harness observed for one source text -------------------------- *)

Inductive parsed :=
| PTree (t : slist) (printed : str)   (* Ok(tree); tree.to_string() *)
| PErr                                (* Err(syntax error) *)
| PPanic                              (* the parser or the printer panicked *)
| PTimeout                            (* no answer within the step budget *)
| PReadAhead                          (* more lines requested than the input has (+1) *)
| PLcDiff.                            (* the text is another text with a backslash-newline inserted
                                         outside quotes, comments and here-documents, and the two
                                         are not parsed to the same tree / both rejected *)

Inductive reparsed :=
(* not re-parsed: the tree has here-documents whose bodies cannot be written
   back after the single-line form *)
| SNone
(* the printed text parsed to a tree whose location-free form is identical to
   the first one; [printed] is what that second tree prints *)
| SSame (printed : str)
(* the same, and the second tree also prints to the very same text *)
| SSameAll
| SOther (p : parsed).

(* ---- the oracle ---------------------------------------------------------------- *)

(* does the tree contain a here-document operator? *)
Definition redir_is_heredoc (r : redir) : bool :=
  match r_body r with RHereDoc _ _ _ => true | _ => false end.

Fixpoint command_has_heredoc (c : command) : bool :=
  match c with
  | CSimple _ _ r => existsb redir_is_heredoc r
  | CCompound c r => compound_has_heredoc c || existsb redir_is_heredoc r
  | CFunction _ _ c r => compound_has_heredoc c || existsb redir_is_heredoc r
  end
with compound_has_heredoc (c : compound) : bool :=
  match c with
  | Grouping l | Subshell l => existsb item_has_heredoc l
  | For _ _ b => existsb item_has_heredoc b
  | While c b | Until c b => existsb item_has_heredoc c || existsb item_has_heredoc b
  | If c b es e =>
      existsb item_has_heredoc c || existsb item_has_heredoc b
      || existsb (fun p => existsb item_has_heredoc (fst p) || existsb item_has_heredoc (snd p)) es
      || match e with Some l => existsb item_has_heredoc l | None => false end
  | Case _ items =>
      existsb (fun i => match i with CaseItem _ b _ => existsb item_has_heredoc b end) items
  end
with item_has_heredoc (i : item) : bool :=
  match i with
  | Item (AndOrList f r) _ =>
      pipeline_has_heredoc f || existsb (fun p => pipeline_has_heredoc (snd p)) r
  end
with pipeline_has_heredoc (p : pipeline) : bool :=
  match p with Pipeline cs _ => existsb command_has_heredoc cs end.

Definition has_heredoc (l : slist) : bool := existsb item_has_heredoc l.

(* ---- the class of known finding F14 ------------------------------------------- *)

(* a word with a `$(...)` substitution whose content starts with `(` (only
   accepted through the `$((` arithmetic fallback) *)
Definition f14_word (w : word) : bool := negb (ok_word w).

Definition f14_redir (r : redir) : bool :=
  match r_body r with
  | RNormal _ w => f14_word w
  | RHereDoc d _ _ => f14_word d
  end.

Definition f14_assign (a : assign) : bool :=
  match a_value a with
  | Scalar w => f14_word w
  | Array ws => existsb f14_word ws
  end.

Fixpoint f14_command (c : command) : bool :=
  match c with
  | CSimple a w r =>
      existsb f14_assign a || existsb (fun x => f14_word (fst x)) w || existsb f14_redir r
  | CCompound c r => f14_compound c || existsb f14_redir r
  | CFunction _ n c r => f14_word n || f14_compound c || existsb f14_redir r
  end
with f14_compound (c : compound) : bool :=
  match c with
  | Grouping l | Subshell l => existsb f14_item l
  | For n vs b =>
      f14_word n || match vs with Some ws => existsb f14_word ws | None => false end
      || existsb f14_item b
  | While c b | Until c b => existsb f14_item c || existsb f14_item b
  | If c b es e =>
      existsb f14_item c || existsb f14_item b
      || existsb (fun p => existsb f14_item (fst p) || existsb f14_item (snd p)) es
      || match e with Some l => existsb f14_item l | None => false end
  | Case s items =>
      f14_word s
      || existsb (fun i => match i with
                           | CaseItem ps b _ => existsb f14_word ps || existsb f14_item b
                           end) items
  end
with f14_item (i : item) : bool :=
  match i with
  | Item (AndOrList f r) _ => f14_pipeline f || existsb (fun p => f14_pipeline (snd p)) r
  end
with f14_pipeline (p : pipeline) : bool :=
  match p with Pipeline cs _ => existsb f14_command cs end.

Definition f14_class (l : slist) : bool := existsb f14_item l.

(* [None]: the observation satisfies the property; [Some k]: clause k is
   violated (verdict code 2+k).  Evaluated on the implementation's outputs
   only. *)
Definition oracle (first : parsed) (second : reparsed) : option N :=
  match first with
  | PPanic => Some 0%N                     (* panic on the source text *)
  | PTimeout => Some 1%N                   (* hang *)
  | PReadAhead => Some 2%N                 (* unbounded read-ahead *)
  | PLcDiff => Some 7%N                    (* a line continuation changed the tree *)
  | PErr => None
  | PTree t p =>
      match second with
      | SNone => if has_heredoc t then None else Some 8%N
      | SSame p2 => if str_eqb p p2 then None else Some 6%N
      | SSameAll => None
      | SOther PErr => Some 3%N            (* the printed text is a syntax error *)
      | SOther (PTree t2 p2) =>
          if negb (slist_eqb t t2) then Some 4%N        (* a different tree *)
          else if str_eqb p p2 then None else Some 6%N
      | SOther PPanic => Some 5%N
      | SOther PTimeout => Some 5%N
      | SOther PReadAhead => Some 5%N
      | SOther PLcDiff => Some 5%N
      end
  end.
