(* C06 — proofs, part 5: the command-level parser returns a suffix no longer
   than its input, never runs out of the fuel computed from the input length,
   and never reaches the modelled panic site. *)
From Yv Require Import Common.Base C06.Ast C06.Print C06.Lex C06.LexEq C06.Parse C06.ParseEq
  C06.ProofsLen C06.ProofsFuel C06.ProofsStop C06.ProofsTok.
Local Open Scope N_scope.

(* ---- lengths --------------------------------------------------------------------- *)

Record GLen (f : nat) : Prop := {
  gl_inner : forall s c r, p_inner f s = Ok (c, r) -> (len r <= len s)%nat;
  gl_mcl : forall s l r, p_mcl f s = Ok (l, r) -> (len r <= len s)%nat;
  gl_list : forall s l r, p_list f s = Ok (l, r) -> (len r <= len s)%nat;
  gl_and_or : forall s o r, p_and_or f s = Ok (o, r) -> (len r <= len s)%nat;
  gl_and_or_rest : forall s l r, p_and_or_rest f s = Ok (l, r) -> (len r <= len s)%nat;
  gl_pipeline : forall s o r, p_pipeline f s = Ok (o, r) -> (len r <= len s)%nat;
  gl_pipe_rest : forall s l r, p_pipe_rest f s = Ok (l, r) -> (len r <= len s)%nat;
  gl_command : forall s o r, p_command f s = Ok (o, r) -> (len r <= len s)%nat;
  gl_simple : forall d b s o r, p_simple f d b s = Ok (o, r) -> (len r <= len s)%nat;
  gl_full_compound : forall s o r, p_full_compound f s = Ok (o, r) -> (len r <= len s)%nat;
  gl_compound : forall s o r, p_compound f s = Ok (o, r) -> (len r <= len s)%nat;
  gl_do_clause : forall s o r, p_do_clause f s = Ok (o, r) -> (len r <= len s)%nat;
  gl_elifs : forall s l r, p_elifs f s = Ok (l, r) -> (len r <= len s)%nat;
  gl_case_items : forall s l r, p_case_items f s = Ok (l, r) -> (len r <= len s)%nat
}.

Lemma GLen_0 : GLen 0.
Proof. constructor; intros; discriminate. Qed.

Section StepLen.
  Variable f : nat.
  Hypothesis G : GLen f.

  Let inner := p_inner f.
  Let tk := lex_token inner f.

  Lemma inner_len_f : forall s c r, inner s = Ok (c, r) -> (len r <= len s)%nat.
  Proof. exact (gl_inner f G). Qed.

  Lemma tk_len_f : forall s t r, tk s = Ok (t, r) ->
    (len r <= len s)%nat /\ (t_id t <> TEnd -> (len r < len s)%nat).
  Proof.
    intros s t r H. apply (lex_token_len inner inner_len_f) in H.
    destruct H as (H1 & H2 & H3). split; [lia | intros X; specialize (H3 X); lia].
  Qed.

  Ltac pfacts :=
    repeat match goal with
    | H : lex_token _ _ _ = Ok (_, _) |- _ => apply (lex_token_len inner inner_len_f) in H
    | H : skip_newlines _ _ _ = Ok _ |- _ => apply (skip_newlines_len tk tk_len_f) in H
    | H : p_redir _ _ = Ok (_, _) |- _ => apply (p_redir_len tk tk_len_f) in H
    | H : p_redirs _ _ _ = Ok (_, _) |- _ => apply (p_redirs_len tk tk_len_f) in H
    | H : p_array _ _ _ = Ok (_, _) |- _ => apply (p_array_len tk tk_len_f) in H
    | H : p_for_values _ _ _ _ = Ok (_, _) |- _ => apply (p_for_values_len tk tk_len_f) in H
    | H : p_patterns _ _ _ = Ok (_, _) |- _ => apply (p_patterns_len tk tk_len_f) in H
    | H : p_inner f _ = Ok (_, _) |- _ => apply (gl_inner f G) in H
    | H : p_mcl f _ = Ok (_, _) |- _ => apply (gl_mcl f G) in H
    | H : p_list f _ = Ok (_, _) |- _ => apply (gl_list f G) in H
    | H : p_and_or f _ = Ok (_, _) |- _ => apply (gl_and_or f G) in H
    | H : p_and_or_rest f _ = Ok (_, _) |- _ => apply (gl_and_or_rest f G) in H
    | H : p_pipeline f _ = Ok (_, _) |- _ => apply (gl_pipeline f G) in H
    | H : p_pipe_rest f _ = Ok (_, _) |- _ => apply (gl_pipe_rest f G) in H
    | H : p_command f _ = Ok (_, _) |- _ => apply (gl_command f G) in H
    | H : p_simple f _ _ _ = Ok (_, _) |- _ => apply (gl_simple f G) in H
    | H : p_full_compound f _ = Ok (_, _) |- _ => apply (gl_full_compound f G) in H
    | H : p_compound f _ = Ok (_, _) |- _ => apply (gl_compound f G) in H
    | H : p_do_clause f _ = Ok (_, _) |- _ => apply (gl_do_clause f G) in H
    | H : p_elifs f _ = Ok (_, _) |- _ => apply (gl_elifs f G) in H
    | H : p_case_items f _ = Ok (_, _) |- _ => apply (gl_case_items f G) in H
    | H : skip_lc ?s = _ |- _ =>
        let L := fresh "L" in pose proof (skip_lc_len s) as L; rewrite H in L; clear H
    end;
    repeat match goal with H : _ /\ _ |- _ => destruct H end;
    repeat match goal with
    | E : t_id ?t = _, H : t_id ?t <> TEnd -> _ |- _ =>
        specialize (H ltac:(rewrite E; discriminate))
    | H : Some _ <> None -> _ |- _ => specialize (H ltac:(discriminate))
    end;
    cbn [length] in *.

  Ltac plen eqn :=
    intros H; rewrite eqn in H; unfold bind in H; cbv zeta in H;
    dmall; clean; try discriminate; pfacts; lia.

  Lemma sl_inner : forall s c r, p_inner (S f) s = Ok (c, r) -> (len r <= len s)%nat.
  Proof. intros s c r. plen p_inner_eq. Qed.

  Lemma sl_mcl : forall s l r, p_mcl (S f) s = Ok (l, r) -> (len r <= len s)%nat.
  Proof. intros s l r. plen p_mcl_eq. Qed.
  Lemma sl_list : forall s l r, p_list (S f) s = Ok (l, r) -> (len r <= len s)%nat.
  Proof. intros s l r. plen p_list_eq. Qed.
  Lemma sl_and_or : forall s o r, p_and_or (S f) s = Ok (o, r) -> (len r <= len s)%nat.
  Proof. intros s o r. plen p_and_or_eq. Qed.
  Lemma sl_and_or_rest : forall s l r, p_and_or_rest (S f) s = Ok (l, r) -> (len r <= len s)%nat.
  Proof. intros s l r. plen p_and_or_rest_eq. Qed.
  Lemma sl_pipeline : forall s o r, p_pipeline (S f) s = Ok (o, r) -> (len r <= len s)%nat.
  Proof. intros s o r. plen p_pipeline_eq. Qed.
  Lemma sl_pipe_rest : forall s l r, p_pipe_rest (S f) s = Ok (l, r) -> (len r <= len s)%nat.
  Proof. intros s l r. plen p_pipe_rest_eq. Qed.
  Lemma sl_command : forall s o r, p_command (S f) s = Ok (o, r) -> (len r <= len s)%nat.
  Proof. intros s o r. plen p_command_eq. Qed.
  Lemma sl_simple : forall d b s o r, p_simple (S f) d b s = Ok (o, r) -> (len r <= len s)%nat.
  Proof. intros d b s o r. plen p_simple_eq. Qed.
  Lemma sl_full_compound : forall s o r, p_full_compound (S f) s = Ok (o, r) -> (len r <= len s)%nat.
  Proof. intros s o r. plen p_full_compound_eq. Qed.
  Lemma sl_compound : forall s o r, p_compound (S f) s = Ok (o, r) -> (len r <= len s)%nat.
  Proof. intros s o r. plen p_compound_eq. Qed.
  Lemma sl_do_clause : forall s o r, p_do_clause (S f) s = Ok (o, r) -> (len r <= len s)%nat.
  Proof. intros s o r. plen p_do_clause_eq. Qed.
  Lemma sl_elifs : forall s l r, p_elifs (S f) s = Ok (l, r) -> (len r <= len s)%nat.
  Proof. intros s l r. plen p_elifs_eq. Qed.
  Lemma sl_case_items : forall s l r, p_case_items (S f) s = Ok (l, r) -> (len r <= len s)%nat.
  Proof. intros s l r. plen p_case_items_eq. Qed.
End StepLen.

Lemma parser_len : forall f, GLen f.
Proof.
  induction f as [|f IH]; [exact GLen_0|].
  constructor.
  - apply sl_inner; assumption.
  - apply sl_mcl; assumption.
  - apply sl_list; assumption.
  - apply sl_and_or; assumption.
  - apply sl_and_or_rest; assumption.
  - apply sl_pipeline; assumption.
  - apply sl_pipe_rest; assumption.
  - apply sl_command; assumption.
  - apply sl_simple; assumption.
  - apply sl_full_compound; assumption.
  - apply sl_compound; assumption.
  - apply sl_do_clause; assumption.
  - apply sl_elifs; assumption.
  - apply sl_case_items; assumption.
Qed.

(* ---- fuel ------------------------------------------------------------------------------ *)

(* ranks in the call graph on inputs of the same length; [rk_inner] = 12 *)
Definition rk_low := 3%nat.        (* compound, do_clause, elifs, pipe_rest, and_or_rest,
                                      case_items, simple *)
Definition rk_full_compound := 4%nat.
Definition rk_command := 5%nat.
Definition rk_pipeline := 6%nat.
Definition rk_and_or := 7%nat.
Definition rk_list := 8%nat.
Definition rk_mcl := 9%nat.

Record GFuel (f : nat) : Prop := {
  gf_inner : forall s, (fuel_k * len s + rk_inner < f)%nat -> p_inner f s <> Fuel;
  gf_mcl : forall s, (fuel_k * len s + rk_mcl < f)%nat -> p_mcl f s <> Fuel;
  gf_list : forall s, (fuel_k * len s + rk_list < f)%nat -> p_list f s <> Fuel;
  gf_and_or : forall s, (fuel_k * len s + rk_and_or < f)%nat -> p_and_or f s <> Fuel;
  gf_and_or_rest : forall s, (fuel_k * len s + rk_low < f)%nat -> p_and_or_rest f s <> Fuel;
  gf_pipeline : forall s, (fuel_k * len s + rk_pipeline < f)%nat -> p_pipeline f s <> Fuel;
  gf_pipe_rest : forall s, (fuel_k * len s + rk_low < f)%nat -> p_pipe_rest f s <> Fuel;
  gf_command : forall s, (fuel_k * len s + rk_command < f)%nat -> p_command f s <> Fuel;
  gf_simple : forall d b s, (fuel_k * len s + rk_low < f)%nat -> p_simple f d b s <> Fuel;
  gf_full_compound : forall s, (fuel_k * len s + rk_full_compound < f)%nat ->
                     p_full_compound f s <> Fuel;
  gf_compound : forall s, (fuel_k * len s + rk_low < f)%nat -> p_compound f s <> Fuel;
  gf_do_clause : forall s, (fuel_k * len s + rk_low < f)%nat -> p_do_clause f s <> Fuel;
  gf_elifs : forall s, (fuel_k * len s + rk_low < f)%nat -> p_elifs f s <> Fuel;
  gf_case_items : forall s, (fuel_k * len s + rk_low < f)%nat -> p_case_items f s <> Fuel
}.

Lemma GFuel_0 : GFuel 0.
Proof. constructor; intros; lia. Qed.

Section StepFuel.
  Variable f : nat.
  Hypothesis G : GFuel f.

  Let inner := p_inner f.
  Let tk := lex_token inner f.
  Let GL := parser_len f.

  Lemma inner_fuel_f : forall s, (fuel_k * len s + rk_inner < f)%nat -> inner s <> Fuel.
  Proof. exact (gf_inner f G). Qed.

  Lemma tk_fuel_f s : (fuel_k * len s + 2 < f)%nat -> tk s <> Fuel.
  Proof.
    intros H. apply (lex_token_fuel inner f (inner_len_f f GL) inner_fuel_f); [lia | exact H].
  Qed.

  Lemma tk_nofuel_B B : (fuel_k * B + 2 < f)%nat -> forall s, (len s <= B)%nat -> tk s <> Fuel.
  Proof. intros HB s Hs. apply tk_fuel_f. unfold fuel_k in *. lia. Qed.

  Lemma snl_fuel s : (fuel_k * len s + 2 < f)%nat -> skip_newlines tk f s <> Fuel.
  Proof.
    intros H. apply (skip_newlines_fuel tk (tk_len_f f GL) (len s) (tk_nofuel_B _ H)); unfold fuel_k in *; lia.
  Qed.
  Lemma redir_fuel s : (fuel_k * len s + 2 < f)%nat -> p_redir tk s <> Fuel.
  Proof.
    intros H. apply (p_redir_fuel tk (tk_len_f f GL) (len s) (tk_nofuel_B _ H)); lia.
  Qed.
  Lemma redirs_fuel s : (fuel_k * len s + 2 < f)%nat -> p_redirs tk f s <> Fuel.
  Proof.
    intros H. apply (p_redirs_fuel tk (tk_len_f f GL) (len s) (tk_nofuel_B _ H)); unfold fuel_k in *; lia.
  Qed.
  Lemma array_fuel s : (fuel_k * len s + 2 < f)%nat -> p_array tk f s <> Fuel.
  Proof.
    intros H. apply (p_array_fuel tk (tk_len_f f GL) (len s) (tk_nofuel_B _ H)); unfold fuel_k in *; lia.
  Qed.
  Lemma for_values_fuel b s : (fuel_k * len s + 2 < f)%nat -> p_for_values tk f b s <> Fuel.
  Proof.
    intros H. apply (p_for_values_fuel tk (tk_len_f f GL) (len s) (tk_nofuel_B _ H)); unfold fuel_k in *; lia.
  Qed.
  Lemma patterns_fuel s : (fuel_k * len s + 2 < f)%nat -> p_patterns tk f s <> Fuel.
  Proof.
    intros H. apply (p_patterns_fuel tk (tk_len_f f GL) (len s) (tk_nofuel_B _ H)); unfold fuel_k in *; lia.
  Qed.

  Ltac pfacts :=
    repeat match goal with
    | H : lex_token _ _ _ = Ok (_, _) |- _ => apply (lex_token_len inner (inner_len_f f GL)) in H
    | H : skip_newlines _ _ _ = Ok _ |- _ => apply (skip_newlines_len tk (tk_len_f f GL)) in H
    | H : p_redir _ _ = Ok (_, _) |- _ => apply (p_redir_len tk (tk_len_f f GL)) in H
    | H : p_redirs _ _ _ = Ok (_, _) |- _ => apply (p_redirs_len tk (tk_len_f f GL)) in H
    | H : p_array _ _ _ = Ok (_, _) |- _ => apply (p_array_len tk (tk_len_f f GL)) in H
    | H : p_for_values _ _ _ _ = Ok (_, _) |- _ => apply (p_for_values_len tk (tk_len_f f GL)) in H
    | H : p_patterns _ _ _ = Ok (_, _) |- _ => apply (p_patterns_len tk (tk_len_f f GL)) in H
    | H : p_inner f _ = Ok (_, _) |- _ => apply (gl_inner f GL) in H
    | H : p_mcl f _ = Ok (_, _) |- _ => apply (gl_mcl f GL) in H
    | H : p_list f _ = Ok (_, _) |- _ => apply (gl_list f GL) in H
    | H : p_and_or f _ = Ok (_, _) |- _ => apply (gl_and_or f GL) in H
    | H : p_and_or_rest f _ = Ok (_, _) |- _ => apply (gl_and_or_rest f GL) in H
    | H : p_pipeline f _ = Ok (_, _) |- _ => apply (gl_pipeline f GL) in H
    | H : p_pipe_rest f _ = Ok (_, _) |- _ => apply (gl_pipe_rest f GL) in H
    | H : p_command f _ = Ok (_, _) |- _ => apply (gl_command f GL) in H
    | H : p_simple f _ _ _ = Ok (_, _) |- _ => apply (gl_simple f GL) in H
    | H : p_full_compound f _ = Ok (_, _) |- _ => apply (gl_full_compound f GL) in H
    | H : p_compound f _ = Ok (_, _) |- _ => apply (gl_compound f GL) in H
    | H : p_do_clause f _ = Ok (_, _) |- _ => apply (gl_do_clause f GL) in H
    | H : p_elifs f _ = Ok (_, _) |- _ => apply (gl_elifs f GL) in H
    | H : p_case_items f _ = Ok (_, _) |- _ => apply (gl_case_items f GL) in H
    | H : skip_lc ?s = _ |- _ =>
        let L := fresh "L" in pose proof (skip_lc_len s) as L; rewrite H in L; clear H
    end;
    repeat match goal with H : _ /\ _ |- _ => destruct H end;
    repeat match goal with
    | E : t_id ?t = _, H : t_id ?t <> TEnd -> _ |- _ =>
        specialize (H ltac:(rewrite E; discriminate))
    | H : Some _ <> None -> _ |- _ => specialize (H ltac:(discriminate))
    end;
    cbn [length] in *.

  Ltac side := unfold fuel_k, rk_inner, rk_low, rk_full_compound, rk_command, rk_pipeline,
                 rk_and_or, rk_list, rk_mcl in *; cbn [length]; lia.

  Ltac pfuelcontra :=
    match goal with
    | H : lex_token _ _ _ = Fuel |- _ => apply tk_fuel_f in H; [exact H | side]
    | H : skip_newlines _ _ _ = Fuel |- _ => apply snl_fuel in H; [exact H | side]
    | H : p_redir _ _ = Fuel |- _ => apply redir_fuel in H; [exact H | side]
    | H : p_redirs _ _ _ = Fuel |- _ => apply redirs_fuel in H; [exact H | side]
    | H : p_array _ _ _ = Fuel |- _ => apply array_fuel in H; [exact H | side]
    | H : p_for_values _ _ _ _ = Fuel |- _ => apply for_values_fuel in H; [exact H | side]
    | H : p_patterns _ _ _ = Fuel |- _ => apply patterns_fuel in H; [exact H | side]
    | H : p_inner f _ = Fuel |- _ => apply (gf_inner f G) in H; [exact H | side]
    | H : p_mcl f _ = Fuel |- _ => apply (gf_mcl f G) in H; [exact H | side]
    | H : p_list f _ = Fuel |- _ => apply (gf_list f G) in H; [exact H | side]
    | H : p_and_or f _ = Fuel |- _ => apply (gf_and_or f G) in H; [exact H | side]
    | H : p_and_or_rest f _ = Fuel |- _ => apply (gf_and_or_rest f G) in H; [exact H | side]
    | H : p_pipeline f _ = Fuel |- _ => apply (gf_pipeline f G) in H; [exact H | side]
    | H : p_pipe_rest f _ = Fuel |- _ => apply (gf_pipe_rest f G) in H; [exact H | side]
    | H : p_command f _ = Fuel |- _ => apply (gf_command f G) in H; [exact H | side]
    | H : p_simple f _ _ _ = Fuel |- _ => apply (gf_simple f G) in H; [exact H | side]
    | H : p_full_compound f _ = Fuel |- _ => apply (gf_full_compound f G) in H; [exact H | side]
    | H : p_compound f _ = Fuel |- _ => apply (gf_compound f G) in H; [exact H | side]
    | H : p_do_clause f _ = Fuel |- _ => apply (gf_do_clause f G) in H; [exact H | side]
    | H : p_elifs f _ = Fuel |- _ => apply (gf_elifs f G) in H; [exact H | side]
    | H : p_case_items f _ = Fuel |- _ => apply (gf_case_items f G) in H; [exact H | side]
    end.

  Ltac pfuel eqn :=
    intros Hf Hfuel; rewrite eqn in Hfuel; unfold bind in Hfuel; cbv zeta in Hfuel;
    dmall; clean; try discriminate; pfacts; pfuelcontra.

  Lemma sf_inner : forall s, (fuel_k * len s + rk_inner < S f)%nat -> p_inner (S f) s <> Fuel.
  Proof. intros s. pfuel p_inner_eq. Qed.
  Lemma sf_mcl : forall s, (fuel_k * len s + rk_mcl < S f)%nat -> p_mcl (S f) s <> Fuel.
  Proof. intros s. pfuel p_mcl_eq. Qed.
  Lemma sf_list : forall s, (fuel_k * len s + rk_list < S f)%nat -> p_list (S f) s <> Fuel.
  Proof. intros s. pfuel p_list_eq. Qed.
  Lemma sf_and_or : forall s, (fuel_k * len s + rk_and_or < S f)%nat -> p_and_or (S f) s <> Fuel.
  Proof. intros s. pfuel p_and_or_eq. Qed.
  Lemma sf_and_or_rest : forall s, (fuel_k * len s + rk_low < S f)%nat -> p_and_or_rest (S f) s <> Fuel.
  Proof. intros s. pfuel p_and_or_rest_eq. Qed.
  Lemma sf_pipeline : forall s, (fuel_k * len s + rk_pipeline < S f)%nat -> p_pipeline (S f) s <> Fuel.
  Proof. intros s. pfuel p_pipeline_eq. Qed.
  Lemma sf_pipe_rest : forall s, (fuel_k * len s + rk_low < S f)%nat -> p_pipe_rest (S f) s <> Fuel.
  Proof. intros s. pfuel p_pipe_rest_eq. Qed.
  Lemma sf_command : forall s, (fuel_k * len s + rk_command < S f)%nat -> p_command (S f) s <> Fuel.
  Proof. intros s. pfuel p_command_eq. Qed.
  Lemma sf_simple : forall d b s, (fuel_k * len s + rk_low < S f)%nat -> p_simple (S f) d b s <> Fuel.
  Proof. intros d b s. pfuel p_simple_eq. Qed.
  Lemma sf_full_compound : forall s, (fuel_k * len s + rk_full_compound < S f)%nat ->
                           p_full_compound (S f) s <> Fuel.
  Proof. intros s. pfuel p_full_compound_eq. Qed.
  Lemma sf_compound : forall s, (fuel_k * len s + rk_low < S f)%nat -> p_compound (S f) s <> Fuel.
  Proof. intros s. pfuel p_compound_eq. Qed.
  Lemma sf_do_clause : forall s, (fuel_k * len s + rk_low < S f)%nat -> p_do_clause (S f) s <> Fuel.
  Proof. intros s. pfuel p_do_clause_eq. Qed.
  Lemma sf_elifs : forall s, (fuel_k * len s + rk_low < S f)%nat -> p_elifs (S f) s <> Fuel.
  Proof. intros s. pfuel p_elifs_eq. Qed.
  Lemma sf_case_items : forall s, (fuel_k * len s + rk_low < S f)%nat -> p_case_items (S f) s <> Fuel.
  Proof. intros s. pfuel p_case_items_eq. Qed.
End StepFuel.

Lemma parser_fuel : forall f, GFuel f.
Proof.
  induction f as [|f IH]; [exact GFuel_0|].
  constructor.
  - apply sf_inner; assumption.
  - apply sf_mcl; assumption.
  - apply sf_list; assumption.
  - apply sf_and_or; assumption.
  - apply sf_and_or_rest; assumption.
  - apply sf_pipeline; assumption.
  - apply sf_pipe_rest; assumption.
  - apply sf_command; assumption.
  - apply sf_simple; assumption.
  - apply sf_full_compound; assumption.
  - apply sf_compound; assumption.
  - apply sf_do_clause; assumption.
  - apply sf_elifs; assumption.
  - apply sf_case_items; assumption.
Qed.

(* ---- no panic --------------------------------------------------------------------------- *)

Record GPanic (f : nat) : Prop := {
  gp_inner : forall s, p_inner f s <> Panic;
  gp_mcl : forall s, p_mcl f s <> Panic;
  gp_list : forall s, p_list f s <> Panic;
  gp_and_or : forall s, p_and_or f s <> Panic;
  gp_and_or_rest : forall s, p_and_or_rest f s <> Panic;
  gp_pipeline : forall s, p_pipeline f s <> Panic;
  gp_pipe_rest : forall s, p_pipe_rest f s <> Panic;
  gp_command : forall s, p_command f s <> Panic;
  gp_simple : forall d b s, p_simple f d b s <> Panic;
  gp_full_compound : forall s, p_full_compound f s <> Panic;
  gp_compound : forall s, p_compound f s <> Panic;
  gp_do_clause : forall s, p_do_clause f s <> Panic;
  gp_elifs : forall s, p_elifs f s <> Panic;
  gp_case_items : forall s, p_case_items f s <> Panic
}.

Lemma GPanic_0 : GPanic 0.
Proof. constructor; intros; discriminate. Qed.

Section StepPanic.
  Variable f : nat.
  Hypothesis G : GPanic f.

  Let inner := p_inner f.
  Let tk := lex_token inner f.

  Lemma tk_nopanic_f s : tk s <> Panic.
  Proof. apply lex_token_nopanic. exact (gp_inner f G). Qed.

  Ltac ppaniccontra :=
    match goal with
    | H : lex_token _ _ _ = Panic |- _ => apply tk_nopanic_f in H; exact H
    | H : skip_newlines _ _ _ = Panic |- _ => apply (skip_newlines_nopanic tk tk_nopanic_f) in H; exact H
    | H : p_redir _ _ = Panic |- _ => apply (p_redir_nopanic tk tk_nopanic_f) in H; exact H
    | H : p_redirs _ _ _ = Panic |- _ => apply (p_redirs_nopanic tk tk_nopanic_f) in H; exact H
    | H : p_array _ _ _ = Panic |- _ => apply (p_array_nopanic tk tk_nopanic_f) in H; exact H
    | H : p_for_values _ _ _ _ = Panic |- _ => apply (p_for_values_nopanic tk tk_nopanic_f) in H; exact H
    | H : p_patterns _ _ _ = Panic |- _ => apply (p_patterns_nopanic tk tk_nopanic_f) in H; exact H
    | H : p_inner f _ = Panic |- _ => apply (gp_inner f G) in H; exact H
    | H : p_mcl f _ = Panic |- _ => apply (gp_mcl f G) in H; exact H
    | H : p_list f _ = Panic |- _ => apply (gp_list f G) in H; exact H
    | H : p_and_or f _ = Panic |- _ => apply (gp_and_or f G) in H; exact H
    | H : p_and_or_rest f _ = Panic |- _ => apply (gp_and_or_rest f G) in H; exact H
    | H : p_pipeline f _ = Panic |- _ => apply (gp_pipeline f G) in H; exact H
    | H : p_pipe_rest f _ = Panic |- _ => apply (gp_pipe_rest f G) in H; exact H
    | H : p_command f _ = Panic |- _ => apply (gp_command f G) in H; exact H
    | H : p_simple f _ _ _ = Panic |- _ => apply (gp_simple f G) in H; exact H
    | H : p_full_compound f _ = Panic |- _ => apply (gp_full_compound f G) in H; exact H
    | H : p_compound f _ = Panic |- _ => apply (gp_compound f G) in H; exact H
    | H : p_do_clause f _ = Panic |- _ => apply (gp_do_clause f G) in H; exact H
    | H : p_elifs f _ = Panic |- _ => apply (gp_elifs f G) in H; exact H
    | H : p_case_items f _ = Panic |- _ => apply (gp_case_items f G) in H; exact H
    end.

  Ltac ppanic eqn :=
    intros Hp; rewrite eqn in Hp; unfold bind in Hp; cbv zeta in Hp;
    dmall; clean; try discriminate; ppaniccontra.

  Lemma sp_inner : forall s, p_inner (S f) s <> Panic. Proof. intros s. ppanic p_inner_eq. Qed.
  Lemma sp_mcl : forall s, p_mcl (S f) s <> Panic. Proof. intros s. ppanic p_mcl_eq. Qed.
  Lemma sp_list : forall s, p_list (S f) s <> Panic. Proof. intros s. ppanic p_list_eq. Qed.
  Lemma sp_and_or : forall s, p_and_or (S f) s <> Panic. Proof. intros s. ppanic p_and_or_eq. Qed.
  Lemma sp_and_or_rest : forall s, p_and_or_rest (S f) s <> Panic.
  Proof. intros s. ppanic p_and_or_rest_eq. Qed.
  Lemma sp_pipeline : forall s, p_pipeline (S f) s <> Panic. Proof. intros s. ppanic p_pipeline_eq. Qed.
  Lemma sp_pipe_rest : forall s, p_pipe_rest (S f) s <> Panic. Proof. intros s. ppanic p_pipe_rest_eq. Qed.
  Lemma sp_command : forall s, p_command (S f) s <> Panic. Proof. intros s. ppanic p_command_eq. Qed.
  Lemma sp_simple : forall d b s, p_simple (S f) d b s <> Panic.
  Proof. intros d b s. ppanic p_simple_eq. Qed.
  Lemma sp_full_compound : forall s, p_full_compound (S f) s <> Panic.
  Proof. intros s. ppanic p_full_compound_eq. Qed.
  Lemma sp_compound : forall s, p_compound (S f) s <> Panic. Proof. intros s. ppanic p_compound_eq. Qed.
  Lemma sp_do_clause : forall s, p_do_clause (S f) s <> Panic. Proof. intros s. ppanic p_do_clause_eq. Qed.
  Lemma sp_elifs : forall s, p_elifs (S f) s <> Panic. Proof. intros s. ppanic p_elifs_eq. Qed.
  Lemma sp_case_items : forall s, p_case_items (S f) s <> Panic.
  Proof. intros s. ppanic p_case_items_eq. Qed.
End StepPanic.

Lemma parser_nopanic : forall f, GPanic f.
Proof.
  induction f as [|f IH]; [exact GPanic_0|].
  constructor.
  - apply sp_inner; assumption.
  - apply sp_mcl; assumption.
  - apply sp_list; assumption.
  - apply sp_and_or; assumption.
  - apply sp_and_or_rest; assumption.
  - apply sp_pipeline; assumption.
  - apply sp_pipe_rest; assumption.
  - apply sp_command; assumption.
  - apply sp_simple; assumption.
  - apply sp_full_compound; assumption.
  - apply sp_compound; assumption.
  - apply sp_do_clause; assumption.
  - apply sp_elifs; assumption.
  - apply sp_case_items; assumption.
Qed.

(* ---- the model of the parser is total --------------------------------------------------------- *)

(* With the fuel computed from the length of the text, the parser model
   answers with a tree, a syntax error, or "outside the model"
   (here-document); it never runs out of fuel and never reaches the modelled
   panic site. *)
Theorem parse_program_total : forall s,
  (exists t, parse_program s = Ok t) \/ parse_program s = Err \/ parse_program s = Unsupp.
Proof.
  intros s. unfold parse_program, bind.
  pose proof (gf_mcl _ (parser_fuel (parse_fuel s)) s) as HF.
  pose proof (gp_mcl _ (parser_nopanic (parse_fuel s)) s) as HP.
  destruct (p_mcl (parse_fuel s) s) as [[l r]| | | |] eqn:E; eauto.
  - exfalso. apply HF; [|reflexivity]. unfold parse_fuel, fuel_k, rk_mcl. lia.
  - exfalso. apply HP. reflexivity.
Qed.
