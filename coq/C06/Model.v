(* C06 — the executable model: syntax tree (Ast), the printer of
   impl_display.rs (Print), the word-level lexer (Lex) and the token layer and
   command-level parser (Parse).  This file only re-exports them. *)
From Yv Require Export Common.Base C06.Ast C06.Print C06.Lex C06.Parse.
