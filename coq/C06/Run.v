(* C06 — what the correspondence check evaluates on every case. *)
From Yv Require Export Common.Base C06.Model C06.Spec.
From Coq Require Ascii String.
Export Coq.Strings.String.StringSyntax.

(* One case: the source text, whether it lies in the language the parser model
   covers (decided by the harness: no here-document operator can occur), what
   the implementation did with it, and what it did with the text it printed. *)
Record case := mkCase {
  c_src : str;
  c_dom : bool;
  c_first : parsed;
  c_second : reparsed
}.

(* the printer model agrees with the implementation's Display on a tree *)
Definition print_agrees (p : parsed) : bool :=
  match p with
  | PTree t printed => str_eqb (print_list false t) printed
  | _ => true
  end.

(* the parser model agrees with the implementation on a text:
   Some true / Some false, or None when the text is outside the model *)
Definition parse_agrees (src : str) (p : parsed) : option bool :=
  match parse_program src, p with
  | Unsupp, _ => None
  | Ok t, PTree t' _ => Some (slist_eqb t t')
  | Err, PErr => Some true
  | _, _ => Some false
  end.

Definition printed_of (p : parsed) : option (slist * str) :=
  match p with PTree t s => Some (t, s) | _ => None end.

Definition model_agrees (c : case) : option bool :=
  if negb (print_agrees (c_first c)) then Some false
  else
    match parse_agrees (c_src c) (c_first c) with
    | None => None
    | Some false => Some false
    | Some true =>
        (* the text the implementation printed, parsed by the model *)
        match printed_of (c_first c), c_second c with
        | Some (t, printed), (SSame _ | SSameAll) => parse_agrees printed (PTree t printed)
        | Some (_, printed), SOther p =>
            if print_agrees p then parse_agrees printed p else Some false
        | _, _ => Some true
        end
    end.

Definition run_case (c : case) : verdict :=
  (* oracle first: on the implementation's outputs only *)
  match oracle (c_first c) (c_second c) with
  | Some 8%N => 99%N              (* harness bug: a tree without here-documents was not re-parsed *)
  | Some k => (2 + k)%N
  | None =>
      match model_agrees c with
      | Some true => 0%N
      | Some false => 1%N
      | None => if c_dom c then 99%N else 0%N   (* outside the model: only legal if the harness said so *)
      end
  end.

Definition run_cases := run_cases_with run_case.
