(* C06 — proofs, part 8: dollar-single-quoted strings.  Every escape unit the
   lexer produces is printed in a form the lexer reads back as the same unit
   (EscapeUnit re-encoding of impl_display.rs against lex/escape.rs). *)
From Yv Require Import Common.Base C06.Ast C06.Print C06.Lex C06.ProofsLen C06.ProofsNum.
Local Open Scope N_scope.

(* what the lexer can produce *)
Definition wf_eu (u : escape_unit) : Prop :=
  match u with
  | EuLiteral c => c <> c_sq /\ c <> c_bslash
  | EuControl b => b = 28 \/ (exists x, in_range 63 95 x = true /\ x <> 92 /\ b = N.lxor x 64)
  | EuOctal b => b <= 255
  | EuHex b => b < 256
  | EuUnicode c => is_scalar_value c = true
  | _ => True
  end.

Lemma hex_more_bound k acc s v r j :
  hex_more k acc s = (v, r) -> acc < 16 ^ j -> v < 16 ^ (j + N.of_nat k).
Proof.
  revert acc s v r j. induction k as [|k IH]; intros acc s v r j H Ha; cbn [hex_more] in H.
  - inv H. rewrite N.add_0_r. exact Ha.
  - assert (Hm : 16 ^ j <= 16 ^ (j + N.of_nat (S k))) by (apply N.pow_le_mono_r; lia).
    destruct s as [|c s']; [inv H; lia|].
    destruct (hex_val c) as [d|] eqn:E; [|inv H; lia].
    assert (Hd : d < 16).
    { unfold hex_val in E. repeat (dmh E; try discriminate); inv E;
        unfold in_range, is_digit, in_range in *;
        repeat match goal with H : _ && _ = true |- _ => apply andb_prop in H; destruct H end;
        repeat match goal with H : (_ <=? _) = true |- _ => apply N.leb_le in H end; lia. }
    apply (IH _ _ _ _ (j + 1)) in H.
    + replace (j + N.of_nat (S k)) with (j + 1 + N.of_nat k) by lia. exact H.
    + rewrite N.pow_add_r, N.pow_1_r. lia.
Qed.

Lemma hex_val_lt c d : hex_val c = Some d -> d < 16.
Proof.
  unfold hex_val. intros E. repeat (dmh E; try discriminate); inv E;
    unfold in_range, is_digit, in_range in *;
    repeat match goal with H : _ && _ = true |- _ => apply andb_prop in H; destruct H end;
    repeat match goal with H : (_ <=? _) = true |- _ => apply N.leb_le in H end; lia.
Qed.

Lemma hex_digits_bound k s v r :
  hex_digits k s = Some (v, r) -> (1 <= k)%nat -> v < 16 ^ N.of_nat k.
Proof.
  unfold hex_digits. intros H Hk. destruct s as [|c s']; [discriminate|].
  destruct (hex_val c) as [d|] eqn:Ed; [|discriminate].
  destruct (hex_more (k - 1) d s') as [v' r'] eqn:Em. inv H.
  apply hex_val_lt in Ed.
  apply (hex_more_bound _ _ _ _ _ 1) in Em; [|rewrite N.pow_1_r; exact Ed].
  replace (N.of_nat k) with (1 + N.of_nat (k - 1)) by lia. exact Em.
Qed.

Lemma lex_escape_wf c2 s u r : lex_escape c2 s = Ok (u, r) -> wf_eu u.
Proof.
  unfold lex_escape. intros H.
  repeat (dmh H; try discriminate); inv H; cbn [wf_eu]; auto.
  - (* control *)
    right. eexists. split; [eassumption|]. split; [|reflexivity].
    match goal with E : (_ =? 92) = false |- _ => apply N.eqb_neq in E; exact E end.
  - (* hex *)
    match goal with E : hex_digits _ _ = Some _ |- _ => apply hex_digits_bound in E; [|lia] end.
    cbn in *. assumption.
  - (* octal *)
    match goal with E : (_ <=? 255) = true |- _ => apply N.leb_le in E; exact E end.
Qed.

Lemma scalar_lt v : is_scalar_value v = true -> v < 16 ^ 8.
Proof.
  unfold is_scalar_value, in_range. intros H.
  apply Bool.orb_true_iff in H. destruct H as [H|H].
  - apply N.ltb_lt in H. cbn. lia.
  - apply andb_prop in H. destruct H as [_ H]. apply N.leb_le in H. cbn. lia.
Qed.

(* the printed form of a unit other than a literal: backslash, a selector
   character, and a tail that the lexer reads back *)
Lemma print_eu_lex u :
  wf_eu u -> (forall c, u <> EuLiteral c) ->
  exists c2 t, print_eu u = c_bslash :: c2 :: t /\ forall z, lex_escape c2 (t ++ z) = Ok (u, z).
Proof.
  intros W NL. destruct u; cbn [wf_eu] in W;
    try (eexists _, []; split; [reflexivity | intros z; reflexivity]).
  - exfalso. eapply NL. reflexivity.
  - (* control *)
    destruct W as [->|(x & Hr & Hx & ->)].
    + exists 99, [92; 92]. split; [reflexivity | intros z; reflexivity].
    + assert (Hb : (N.lxor x 64 =? 28) = false).
      { apply N.eqb_neq. intros E. apply Hx.
        assert (X : N.lxor (N.lxor x 64) 64 = N.lxor 28 64) by (rewrite E; reflexivity).
        rewrite N.lxor_assoc, N.lxor_nilpotent, N.lxor_0_r in X. exact X. }
      exists 99, [x]. cbn [print_eu]. rewrite Hb.
      rewrite N.lxor_assoc, N.lxor_nilpotent, N.lxor_0_r. split; [reflexivity|].
      intros z. clear NL. revert Hr Hx Hb.
      assert (Hx96 : x < N.of_nat 96 \/ 96 <= x) by lia.
      destruct Hx96 as [Hlt|Hge].
      * revert x Hlt. refine (N_lt_cases _ 96%nat _). intros i Hi.
        do 96 (destruct i as [|i]; [intros; try discriminate; try reflexivity; try (exfalso; auto; fail)|]).
        lia.
      * intros Hr. unfold in_range in Hr. apply andb_prop in Hr. destruct Hr as [_ Hr].
        apply N.leb_le in Hr. lia.
  - (* octal *)
    destruct (oct_fmt b W) as (d0 & t & E & Hd & Hm).
    exists (digit_char false d0), t. cbn [print_eu]. rewrite E. split; [reflexivity|].
    intros z. specialize (Hm z). apply N.leb_le in W. clear NL E.
    revert Hm. generalize (t ++ z). clear t. revert d0 Hd.
    refine (N_lt_cases _ 8%nat _). intros i Hi l Hm.
    do 8 (destruct i as [|i];
          [unfold lex_escape; cbn -[oct_more N.leb oct_val] in *;
           match goal with |- context [oct_val ?c] =>
             let v := eval vm_compute in (oct_val c) in change (oct_val c) with v end;
           cbv beta iota; rewrite Hm, W; reflexivity|]).
    lia.
  - (* hex *)
    exists 120, (fmt_num 16 true 2 b). split; [reflexivity|]. intros z.
    unfold lex_escape. cbn -[hex_digits fmt_num].
    rewrite (hex_digits_fmt true 2 b z) by (cbn; lia). reflexivity.
  - (* unicode *)
    cbn [print_eu]. destruct (c <=? 65535) eqn:E.
    + exists 117, (fmt_num 16 false 4 c). split; [reflexivity|]. intros z.
      unfold lex_escape. cbn -[hex_digits fmt_num is_scalar_value].
      apply N.leb_le in E. rewrite (hex_digits_fmt false 4 c z) by (cbn; lia). rewrite W. reflexivity.
    + exists 85, (fmt_num 16 true 8 c). split; [reflexivity|]. intros z.
      unfold lex_escape. cbn -[hex_digits fmt_num is_scalar_value].
      rewrite (hex_digits_fmt true 8 c z) by (try apply scalar_lt; auto; lia). rewrite W. reflexivity.
Qed.

Lemma classic_literal u : (exists c, u = EuLiteral c) \/ (forall c, u <> EuLiteral c).
Proof. destruct u; try (right; intros; discriminate). left. eauto. Qed.

Lemma lex_escaped_wf f s es r : lex_escaped f s = Ok (es, r) -> Forall wf_eu es.
Proof.
  revert s es r. induction f as [|f IH]; intros s es r H; cbn [lex_escaped] in H; [discriminate|].
  unfold bind in H. destruct s as [|c1 s1]; [discriminate|].
  destruct (c1 =? c_sq) eqn:E1; [inv H; constructor|].
  destruct (c1 =? c_bslash) eqn:E2.
  - destruct s1 as [|c2 s2]; [discriminate|].
    destruct (lex_escape c2 s2) as [[u r1]| | | |] eqn:E3; try discriminate.
    destruct (lex_escaped f r1) as [[us r2]| | | |] eqn:E4; try discriminate.
    inv H. constructor; [eapply lex_escape_wf; eauto | eapply IH; eauto].
  - destruct (lex_escaped f s1) as [[us r2]| | | |] eqn:E4; try discriminate.
    inv H. constructor; [|eapply IH; eauto].
    cbn [wf_eu]. split; apply N.eqb_neq; assumption.
Qed.

(* printing the units of a dollar-single-quoted string and lexing the text
   again (followed by the closing quote and anything) gives the same units *)
Lemma escaped_roundtrip_wf es :
  Forall wf_eu es -> forall f z, (length es < f)%nat ->
  lex_escaped f (cat_map print_eu es ++ c_sq :: z) = Ok (es, z).
Proof.
  induction 1 as [|u es W _ IH]; intros f z Hf.
  - destruct f as [|f]; [cbn in Hf; lia|]. reflexivity.
  - destruct f as [|f]; [cbn in Hf; lia|]. cbn [length] in Hf.
    specialize (IH f z ltac:(lia)).
    cbn [cat_map]. rewrite <- app_assoc.
    destruct (classic_literal u) as [[c ->]|NL].
    + destruct W as [W1 W2]. apply N.eqb_neq in W1, W2.
      cbn [print_eu app lex_escaped]. rewrite W1, W2. unfold bind. rewrite IH. reflexivity.
    + destruct (print_eu_lex u W NL) as (c2 & t & E & L).
      rewrite E. cbn [app lex_escaped].
      change (c_bslash =? c_sq) with false. change (c_bslash =? c_bslash) with true.
      cbv iota. unfold bind. rewrite L, IH. reflexivity.
Qed.

Theorem escaped_roundtrip f s es r :
  lex_escaped f s = Ok (es, r) ->
  forall z, lex_escaped (S (length es)) (cat_map print_eu es ++ c_sq :: z) = Ok (es, z).
Proof.
  intros H z. apply escaped_roundtrip_wf; [eapply lex_escaped_wf; eauto | lia].
Qed.
