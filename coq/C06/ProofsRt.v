(* C06 — proofs, part 10: the word-level round trip.  For every word (text)
   the lexer produces, the printed text followed by any text that does not
   extend it is lexed back to the same units and the same rest. *)
From Yv Require Import Common.Base C06.Ast C06.Print C06.Lex C06.LexEq C06.ProofsLen
  C06.ProofsStop C06.ProofsTilde C06.ProofsEscape C06.ProofsRtBase.
Local Open Scope N_scope.

Definition hd (z : str) : option N := match z with c :: _ => Some c | [] => None end.

(* a character that may follow a literal dollar sign *)
Definition dollar_ok (c : N) : bool :=
  match special_of_char c with
  | Some _ => false
  | None => negb (is_digit c || is_name_char c || (c =? c_lbrace) || (c =? c_lparen))
  end.

(* what may follow the printed form of a text unit ([h] = first character of
   what follows, which does not start with a line continuation) *)
Definition fo_tu (e : esc) (u : text_unit) (h : option N) : Prop :=
  match u with
  | Literal c =>
      ((c =? c_dollar) = true ->
       match h with Some c' => dollar_ok c' = true | None => True end) /\
      ((c =? c_bslash) = true ->
       match h with Some c' => is_esc e c' = false /\ (c' =? c_nl) = false | None => True end)
  | RawParam p =>
      p_type p = PtVariable ->
      match h with Some c' => is_name_char c' = false | None => True end
  | _ => True
  end.

Definition fo_wu (cx : ctx) (d : delim) (u : word_unit) (h : option N) : Prop :=
  match u with
  | Unquoted t =>
      fo_tu (esc_of cx d) t h /\
      (cx = CWord -> t = Literal c_dollar -> h <> Some c_sq)
  | _ => True
  end.

Fixpoint last_opt {A} (l : list A) : option A :=
  match l with
  | [] => None
  | [x] => Some x
  | _ :: l => last_opt l
  end.

Definition last_fo_text (e : esc) (t : text) (h : option N) : Prop :=
  match last_opt t with Some u => fo_tu e u h | None => True end.

Definition last_fo_word (cx : ctx) (d : delim) (w : word) (h : option N) : Prop :=
  match last_opt w with Some u => fo_wu cx d u h | None => True end.

(* delimiters are never a backslash, a dollar sign or a backquote *)
Lemma delim_plain d c :
  is_delim d c = true ->
  (c =? c_bslash) = false /\ (c =? c_dollar) = false /\ (c =? c_bq) = false.
Proof.
  intros H. repeat split; apply N.eqb_neq; intros ->; destruct d; cbn in H; discriminate.
Qed.

Lemma hd_nolc_cons c z : nolc (c :: z) -> hd (c :: z) = Some c.
Proof. reflexivity. Qed.

(* Units the round-trip theorems cover: every unit except a command
   substitution whose content starts with an opening parenthesis.  Such a
   substitution is only accepted through the fallback of the arithmetic
   expansion (`$((` ... `) )`), and whether its printed form is read as a
   command substitution again depends on the text that follows the word. *)
Fixpoint ok_tu (u : text_unit) : bool :=
  match u with
  | CommandSubst c => negb (match skip_lc c with c0 :: _ => c0 =? c_lparen | [] => false end)
  | BracedParam _ m =>
      match m with
      | MSwitch _ _ w | MTrim _ _ w => forallb ok_wu w
      | _ => true
      end
  | Arith t => forallb ok_tu t
  | _ => true
  end
with ok_wu (u : word_unit) : bool :=
  match u with
  | Unquoted t => ok_tu t
  | DoubleQuote t => forallb ok_tu t
  | _ => true
  end.

Definition ok_text (t : text) : bool := forallb ok_tu t.
Definition ok_word (w : word) : bool := forallb ok_wu w.

Lemma tilde_name_lits colon w n name sl :
  tilde_name colon w = Some (n, name, sl) -> ok_word (firstn n w) = true.
Proof.
  revert n name sl. induction w as [|u w IH]; intros n name sl H; cbn [tilde_name] in H.
  - inv H. reflexivity.
  - destruct u as [t| | | |]; try discriminate. destruct t; try discriminate.
    destruct (c =? 47); [inv H; reflexivity|].
    destruct (colon && (c =? 58)); [inv H; reflexivity|].
    destruct (tilde_name colon w) as [[[n' name'] sl']|] eqn:E; [|discriminate].
    inv H. cbn [firstn]. unfold ok_word in *. cbn [forallb ok_wu ok_tu]. eapply IH; eauto.
Qed.

Lemma ok_tilde_front w : ok_word (tilde_front w) = true -> ok_word w = true.
Proof.
  unfold tilde_front. destruct (parse_tilde false w) as [[[n name] sl]|] eqn:E; [|auto].
  unfold parse_tilde in E. destruct w as [|u w']; [discriminate|].
  destruct u as [t| | | |]; try discriminate. destruct t; try discriminate.
  destruct (c =? c_tilde); [|discriminate].
  destruct (tilde_name false w') as [[[n' name'] sl']|] eqn:E2; [|discriminate]. inv E.
  unfold ok_word. cbn [skipn forallb ok_wu ok_tu andb]. intros H.
  rewrite <- (firstn_skipn n' w'), forallb_app. apply andb_true_intro. split; [|exact H].
  eapply tilde_name_lits; eauto.
Qed.

Section Rt.
  Variable inner : str -> res (str * str).
  (* the parser of command substitutions reads back the content it returned *)
  Hypothesis inner_rt : forall s content r0 r0',
    inner s = Ok (content, r0) -> skip_lc r0 = c_rparen :: r0' ->
    forall z, inner (content ++ c_rparen :: z) = Ok (content, c_rparen :: z).

  (* ---- nothing to lex: the text stops right away -------------------------------------- *)

  Lemma lex_tu_stop f cx d e z :
    nolc z -> stops d z -> lex_tu inner (S f) cx d e z = Ok (None, z).
  Proof.
    intros Hn Hs. rewrite lex_tu_eq, Hn. destruct z as [|c z']; [reflexivity|].
    cbn [stops] in Hs. destruct (delim_plain _ _ Hs) as (A & B & C).
    rewrite A, B, C, Hs. reflexivity.
  Qed.

  Lemma lex_dollar_none f cx s r :
    lex_dollar inner f cx s = Ok (None, r) ->
    match skip_lc s with c :: _ => dollar_ok c = true | [] => True end.
  Proof.
    destruct f as [|f]; [discriminate|]. rewrite lex_dollar_eq. unfold bind. intros H.
    destruct (skip_lc s) as [|c s1] eqn:E; [exact I|].
    unfold dollar_ok. cbv zeta in H.
    dmall; clean; try discriminate. reflexivity.
  Qed.

  Lemma lex_dollar_stop f cx z :
    nolc z -> match z with c :: _ => dollar_ok c = true | [] => True end ->
    lex_dollar inner (S f) cx z = Ok (None, z).
  Proof.
    intros Hn Hd. rewrite lex_dollar_eq, Hn. destruct z as [|c z']; [reflexivity|].
    unfold dollar_ok in Hd. destruct (special_of_char c); [discriminate|].
    apply Bool.negb_true_iff in Hd. repeat (apply Bool.orb_false_iff in Hd; destruct Hd as [Hd ?]).
    repeat match goal with H : _ = false |- _ => rewrite H; clear H end. reflexivity.
  Qed.

  Lemma lex_bq_units f cx s us r : lex_bq f cx s = Ok (us, r) -> (length us < f)%nat.
  Proof.
    revert s us r. induction f as [|f IH]; intros s us r H; cbn [lex_bq] in H; [discriminate|].
    unfold bind in H. dmall; clean; cbn [length]; try lia.
    all: repeat match goal with E : lex_bq _ _ _ = Ok _ |- _ => apply IH in E end; cbn [length] in *; lia.
  Qed.

  (* ---- the statements, by fuel ------------------------------------------------------------ *)

  Definition S_tu (f : nat) := forall cx d e s u r,
    lex_tu inner f cx d e s = Ok (Some u, r) -> ok_tu u = true ->
    (exists c t t', skip_lc s = c :: t /\ print_tu u = c :: t') /\
    fo_tu e u (hd (skip_lc r)) /\
    (forall z, nolc z -> fo_tu e u (hd z) ->
       nolc (print_tu u ++ z) /\ lex_tu inner f cx d e (print_tu u ++ z) = Ok (Some u, z)).

  Definition S_dollar (f : nat) := forall cx s u r,
    lex_dollar inner f cx s = Ok (Some u, r) -> ok_tu u = true ->
    (exists t', print_tu u = c_dollar :: t' /\
       forall z, nolc z -> (forall e, fo_tu e u (hd z)) ->
         lex_dollar inner f cx (t' ++ z) = Ok (Some u, z)) /\
    (forall e, fo_tu e u (hd (skip_lc r))).

  Definition S_braced (f : nat) := forall cx s u r,
    lex_braced inner f cx s = Ok (u, r) -> ok_tu u = true ->
    exists t', print_tu u = c_dollar :: c_lbrace :: t' /\
      (forall e h, fo_tu e u h) /\
      forall z, lex_braced inner f cx (t' ++ z) = Ok (u, z).

  Definition S_text (f : nat) := forall d e s t r,
    lex_text inner f d e s = Ok (t, r) -> ok_text t = true ->
    nolc r /\ stops d r /\ last_fo_text e t (hd r) /\
    (t <> [] -> exists c x y, skip_lc s = c :: x /\ print_text t = c :: y) /\
    (forall z, nolc z -> stops d z -> last_fo_text e t (hd z) ->
       nolc (print_text t ++ z) /\ lex_text inner f d e (print_text t ++ z) = Ok (t, z)).

  Definition S_twp (f : nat) := forall depth s t r,
    lex_twp inner f depth s = Ok (t, r) -> ok_text t = true ->
    forall z, lex_twp inner f depth (print_text t ++ c_rparen :: z) = Ok (t, c_rparen :: z).

  Definition S_wu (f : nat) := forall cx d s u r,
    lex_wu inner f cx d s = Ok (Some u, r) -> ok_wu u = true ->
    (exists c t t', skip_lc s = c :: t /\ print_wu u = c :: t') /\
    fo_wu cx d u (hd (skip_lc r)) /\
    (forall z, nolc z -> fo_wu cx d u (hd z) ->
       nolc (print_wu u ++ z) /\ lex_wu inner f cx d (print_wu u ++ z) = Ok (Some u, z)).

  Definition S_units (f : nat) := forall cx d s w r,
    lex_units inner f cx d s = Ok (w, r) -> ok_word w = true ->
    nolc r /\ stops d r /\ last_fo_word cx d w (hd r) /\
    (w <> [] -> exists c x y, skip_lc s = c :: x /\ print_word w = c :: y) /\
    (forall z, nolc z -> stops d z -> last_fo_word cx d w (hd z) ->
       nolc (print_word w ++ z) /\ lex_units inner f cx d (print_word w ++ z) = Ok (w, z)).

  Definition S_all f :=
    S_tu f /\ S_dollar f /\ S_braced f /\ S_text f /\ S_twp f /\ S_wu f /\ S_units f.

  Lemma S_all_0 : S_all 0.
  Proof. repeat split; hnf; intros; discriminate. Qed.

  Lemma S_tu_S f : S_all f -> S_tu (S f).
  Proof.
    intros (Htu & Hdol & Hbr & Htx & Htwp & Hwu & Hun) cx d e s u r H Hok.
    rewrite lex_tu_eq in H. unfold bind in H.
    destruct (skip_lc s) as [|c s1] eqn:Es; [discriminate|].
    destruct (c =? c_bslash) eqn:Eb.
    { (* backslash *)
      apply N.eqb_eq in Eb. subst c.
      destruct s1 as [|c2 s2].
      - inv H. split; [eauto|]. cbn [skip_lc hd fo_tu]. split; [split; intros; exact I|].
        intros z Hz [_ Hf]. specialize (Hf eq_refl). cbn [print_tu app].
        destruct z as [|c' z'].
        + split; [reflexivity|]. rewrite lex_tu_eq. reflexivity.
        + cbn [hd] in Hf. destruct Hf as [Hf1 Hf2]. split; [apply nolc_bslash; exact Hf2|].
          rewrite lex_tu_eq. rewrite (nolc_bslash _ _ Hf2).
          change (c_bslash =? c_bslash) with true. cbv iota. rewrite Hf1. reflexivity.
      - pose proof (skip_lc_bslash_next _ _ _ Es) as Hnl.
        destruct (is_esc e c2) eqn:Ee.
        + inv H. split; [eauto|]. split; [exact I|].
          intros z Hz _. cbn [print_tu app]. split; [apply nolc_bslash; exact Hnl|].
          rewrite lex_tu_eq, (nolc_bslash _ _ Hnl).
          change (c_bslash =? c_bslash) with true. cbv iota. rewrite Ee. reflexivity.
        + inv H. split; [eauto|].
          assert (Hc2 : (c2 =? c_bslash) = false).
          { destruct (c2 =? c_bslash) eqn:X; [|reflexivity]. apply N.eqb_eq in X. subst.
            destruct e as [| | |]; cbn in Ee; try discriminate.
            rewrite !Bool.orb_true_r in Ee. cbn in Ee. discriminate. }
          rewrite (skip_lc_nonbslash _ _ Hc2). cbn [hd fo_tu].
          split; [split; [intros X; discriminate | intros _; auto]|].
          intros z Hz [_ Hf]. specialize (Hf eq_refl). cbn [print_tu app].
          destruct z as [|c' z'].
          * split; [reflexivity|]. rewrite lex_tu_eq. reflexivity.
          * cbn [hd] in Hf. destruct Hf as [Hf1 Hf2]. split; [apply nolc_bslash; exact Hf2|].
            rewrite lex_tu_eq. rewrite (nolc_bslash _ _ Hf2).
            change (c_bslash =? c_bslash) with true. cbv iota. rewrite Hf1. reflexivity. }
    destruct (c =? c_dollar) eqn:Ed.
    { (* dollar *)
      apply N.eqb_eq in Ed. subst c.
      destruct (lex_dollar inner f cx s1) as [[[u'|] r']| | | |] eqn:E1; try discriminate.
      - inv H. destruct (Hdol _ _ _ _ E1 Hok) as [(t' & Ep & Hrt) Hfo].
        split; [eauto|]. split; [apply Hfo|].
        intros z Hz Hf. rewrite Ep. cbn [app]. split; [apply nolc_cons; reflexivity|].
        rewrite lex_tu_eq. rewrite skip_lc_nonbslash by reflexivity.
        change (c_dollar =? c_bslash) with false. change (c_dollar =? c_dollar) with true.
        cbv iota. unfold bind. rewrite Hrt; auto.
        (* the follow condition does not depend on the escapable set for these units *)
        intros e'. destruct u'; cbn [fo_tu] in *; auto.
        destruct (Hdol _ _ _ _ E1 Hok) as [_ X]. clear - Ep. cbn [print_tu] in Ep. inv Ep.
      - destruct (is_delim d c_dollar) eqn:Edl; [discriminate|]. inv H.
        split; [eauto|].
        pose proof (lex_dollar_none _ _ _ _ E1) as Hn.
        split.
        { cbn [fo_tu]. split; [intros _|intros X; discriminate].
          destruct (skip_lc s1); [exact I | exact Hn]. }
        intros z Hz [Hf _]. specialize (Hf eq_refl). cbn [print_tu app].
        split; [apply nolc_cons; reflexivity|].
        rewrite lex_tu_eq. rewrite skip_lc_nonbslash by reflexivity.
        change (c_dollar =? c_bslash) with false. change (c_dollar =? c_dollar) with true.
        cbv iota. unfold bind.
        destruct f as [|f']; [discriminate|].
        rewrite (lex_dollar_stop f' cx z Hz).
        + rewrite Edl. reflexivity.
        + destruct z; [exact I | exact Hf]. }
    destruct (c =? c_bq) eqn:Eq.
    { (* backquote *)
      apply N.eqb_eq in Eq. subst c.
      destruct (lex_bq f cx s1) as [[us r']| | | |] eqn:E1; try discriminate.
      destruct r' as [|c' r'']; [discriminate|]. inv H.
      destruct (lex_bq_wf _ _ _ _ _ E1) as [[X|(r0 & X)] W]; [discriminate|]. inv X.
      specialize (W ltac:(discriminate)).
      split; [eexists _, _, _; split; [reflexivity | cbn [print_tu app]; reflexivity]|].
      split; [exact I|].
      intros z Hz _. cbn [print_tu app]. split; [apply nolc_cons; reflexivity|].
      rewrite lex_tu_eq. rewrite skip_lc_nonbslash by reflexivity.
      change (c_bq =? c_bslash) with false. change (c_bq =? c_dollar) with false.
      change (c_bq =? c_bq) with true. cbv iota. unfold bind.
      rewrite <- app_assoc. cbn [app].
      rewrite (lex_bq_print cx us z f W (lex_bq_units _ _ _ _ _ E1)). reflexivity. }
    (* plain literal *)
    destruct (is_delim d c) eqn:Edl; [discriminate|]. inv H.
    split; [eauto|]. split.
    { cbn [fo_tu]. rewrite Ed, Eb. split; intros X; discriminate. }
    intros z Hz _. cbn [print_tu app]. split; [apply nolc_cons; exact Eb|].
    rewrite lex_tu_eq. rewrite (skip_lc_nonbslash _ _ Eb). rewrite Eb, Ed, Eq, Edl. reflexivity.
  Qed.
End Rt.
