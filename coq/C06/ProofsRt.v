(* C06 — proofs, part 10: the word-level round trip.  For every word (text)
   the lexer produces, the printed text followed by any text that does not
   extend it is lexed back to the same units and the same rest. *)
From Yv Require Import Common.Base C06.Ast C06.Print C06.Lex C06.SpecLex C06.LexEq C06.ProofsLen
  C06.ProofsStop C06.ProofsTilde C06.ProofsEscape C06.ProofsRtBase.
Local Open Scope N_scope.

(* delimiters are never a backslash, a dollar sign or a backquote *)
Lemma delim_plain d c :
  is_delim d c = true ->
  (c =? c_bslash) = false /\ (c =? c_dollar) = false /\ (c =? c_bq) = false.
Proof.
  intros H. repeat split; apply N.eqb_neq; intros ->; destruct d; cbn in H; discriminate.
Qed.

Lemma hd_nolc_cons c z : nolc (c :: z) -> hd (c :: z) = Some c.
Proof. reflexivity. Qed.


Lemma tilde_name_lits colon w n name sl :
  tilde_name colon w = Some (n, name, sl) -> ok_word (firstn n w) = true.
Proof.
  revert n name sl. induction w as [|u w IH]; intros n name sl H; cbn [tilde_name] in H.
  - inv H. reflexivity.
  - destruct u as [t| | | |]; try discriminate. destruct t; try discriminate.
    destruct (c =? 47); [inv H; reflexivity|].
    destruct (colon && (c =? 58)); [inv H; reflexivity|].
    destruct (tilde_name colon w) as [[[n' name'] sl']|] eqn:E; [|discriminate].
    inv H. cbn [firstn]. unfold ok_word in *. cbn [forallb ok_wu ok_tu]. eapply IH; eauto.
Qed.

Lemma ok_tilde_front w : ok_word (tilde_front w) = true -> ok_word w = true.
Proof.
  unfold tilde_front. destruct (parse_tilde false w) as [[[n name] sl]|] eqn:E; [|auto].
  unfold parse_tilde in E. destruct w as [|u w']; [discriminate|].
  destruct u as [t| | | |]; try discriminate. destruct t; try discriminate.
  destruct (c =? c_tilde); [|discriminate].
  destruct (tilde_name false w') as [[[n' name'] sl']|] eqn:E2; [|discriminate]. inv E.
  unfold ok_word. cbn [skipn forallb ok_wu ok_tu andb]. intros H.
  rewrite <- (firstn_skipn n' w'), forallb_app. apply andb_true_intro. split; [|exact H].
  eapply tilde_name_lits; eauto.
Qed.

Section Rt.
  Variable inner : str -> res (str * str).
  (* the parser of command substitutions reads back the content it returned *)
  Hypothesis inner_rt : forall s content r0 r0',
    inner s = Ok (content, r0) -> skip_lc r0 = c_rparen :: r0' ->
    forall z, inner (content ++ c_rparen :: z) = Ok (content, c_rparen :: z).

  (* ---- nothing to lex: the text stops right away -------------------------------------- *)

  Lemma lex_tu_stop f cx d e z :
    nolc z -> stops d z -> lex_tu inner (S f) cx d e z = Ok (None, z).
  Proof.
    intros Hn Hs. rewrite lex_tu_eq, Hn. destruct z as [|c z']; [reflexivity|].
    cbn [stops] in Hs. destruct (delim_plain _ _ Hs) as (A & B & C).
    rewrite A, B, C, Hs. reflexivity.
  Qed.

  Lemma lex_dollar_none f cx s r :
    lex_dollar inner f cx s = Ok (None, r) ->
    match skip_lc s with c :: _ => dollar_ok c = true | [] => True end.
  Proof.
    destruct f as [|f]; [discriminate|]. rewrite lex_dollar_eq. unfold bind. intros H.
    destruct (skip_lc s) as [|c s1] eqn:E; [exact I|].
    unfold dollar_ok. cbv zeta in H.
    dmall; clean; try discriminate. reflexivity.
  Qed.

  Lemma lex_dollar_stop f cx z :
    nolc z -> match z with c :: _ => dollar_ok c = true | [] => True end ->
    lex_dollar inner (S f) cx z = Ok (None, z).
  Proof.
    intros Hn Hd. rewrite lex_dollar_eq, Hn. destruct z as [|c z']; [reflexivity|].
    unfold dollar_ok in Hd. destruct (special_of_char c); [discriminate|].
    apply Bool.negb_true_iff in Hd. repeat (apply Bool.orb_false_iff in Hd; destruct Hd as [Hd ?]).
    repeat match goal with H : _ = false |- _ => rewrite H; clear H end. reflexivity.
  Qed.

  Lemma lex_bq_units f cx s us r :
    lex_bq f cx s = Ok (us, r) -> r <> [] -> (length us < f)%nat.
  Proof.
    revert s us r. induction f as [|f IH]; intros s us r H Hr; cbn [lex_bq] in H; [discriminate|].
    unfold bind in H. dmall; clean; cbn [length]; try lia; try congruence.
    all: repeat match goal with E : lex_bq _ _ _ = Ok _ |- _ => apply IH in E; [|assumption] end;
         cbn [length] in *; lia.
  Qed.

  (* ---- the statements, by fuel ------------------------------------------------------------ *)

  Definition S_tu (f : nat) := forall cx d e s u r,
    lex_tu inner f cx d e s = Ok (Some u, r) -> ok_tu u = true ->
    (exists c t t', skip_lc s = c :: t /\ print_tu u = c :: t') /\
    fo_tu e u (hd (skip_lc r)) /\
    (forall z, nolc z -> fo_tu e u (hd z) ->
       nolc (print_tu u ++ z) /\ lex_tu inner (S (S f)) cx d e (print_tu u ++ z) = Ok (Some u, z)).

  Definition S_dollar (f : nat) := forall cx s u r,
    lex_dollar inner f cx s = Ok (Some u, r) -> ok_tu u = true ->
    (exists t', print_tu u = c_dollar :: t' /\
       forall z, nolc z -> (forall e, fo_tu e u (hd z)) ->
         lex_dollar inner (S (S f)) cx (t' ++ z) = Ok (Some u, z)) /\
    (forall e, fo_tu e u (hd (skip_lc r))).

  Definition S_braced (f : nat) := forall cx s u r,
    lex_braced inner f cx s = Ok (u, r) -> ok_tu u = true ->
    exists t', print_tu u = c_dollar :: c_lbrace :: t' /\
      (forall e h, fo_tu e u h) /\
      forall z, lex_braced inner (S (S f)) cx (t' ++ z) = Ok (u, z).

  Definition S_text (f : nat) := forall d e s t r,
    lex_text inner f d e s = Ok (t, r) -> ok_text t = true ->
    nolc r /\ stops d r /\ last_fo_text e t (hd r) /\
    (t <> [] -> exists c x y, skip_lc s = c :: x /\ print_text t = c :: y) /\
    (forall z, nolc z -> stops d z -> last_fo_text e t (hd z) ->
       nolc (print_text t ++ z) /\ lex_text inner (S (S f)) d e (print_text t ++ z) = Ok (t, z)).

  Definition S_twp (f : nat) := forall depth s t r,
    lex_twp inner f depth s = Ok (t, r) -> ok_text t = true ->
    forall z, lex_twp inner (S (S f)) depth (print_text t ++ c_rparen :: z) = Ok (t, c_rparen :: z).

  Definition S_wu (f : nat) := forall cx d s u r,
    lex_wu inner f cx d s = Ok (Some u, r) -> ok_wu u = true ->
    (exists c t t', skip_lc s = c :: t /\ print_wu u = c :: t') /\
    fo_wu cx d u (hd (skip_lc r)) /\
    (forall z, nolc z -> fo_wu cx d u (hd z) ->
       nolc (print_wu u ++ z) /\ lex_wu inner (S (S f)) cx d (print_wu u ++ z) = Ok (Some u, z)).

  Definition S_units (f : nat) := forall cx d s w r,
    lex_units inner f cx d s = Ok (w, r) -> ok_word w = true -> d <> DDQuote ->
    nolc r /\ stops d r /\ last_fo_word cx d w (hd r) /\
    (w <> [] -> exists c x y, skip_lc s = c :: x /\ print_word w = c :: y) /\
    (forall z, nolc z -> stops d z -> last_fo_word cx d w (hd z) ->
       nolc (print_word w ++ z) /\ lex_units inner (S (S f)) cx d (print_word w ++ z) = Ok (w, z)).

  Definition S_all f :=
    S_tu f /\ S_dollar f /\ S_braced f /\ S_text f /\ S_twp f /\ S_wu f /\ S_units f.

  Lemma S_all_0 : S_all 0.
  Proof. repeat split; hnf; intros; discriminate. Qed.

  Lemma S_tu_S f : S_all f -> S_tu (S f).
  Proof.
    intros (Htu & Hdol & Hbr & Htx & Htwp & Hwu & Hun) cx d e s u r H Hok.
    rewrite lex_tu_eq in H. unfold bind in H.
    destruct (skip_lc s) as [|c s1] eqn:Es; [discriminate|].
    destruct (c =? c_bslash) eqn:Eb.
    { (* backslash *)
      apply N.eqb_eq in Eb. subst c.
      destruct s1 as [|c2 s2].
      - inv H. split; [eexists _, _, _; split; reflexivity|]. cbn [skip_lc hd fo_tu]. split; [split; intros; exact I|].
        intros z Hz [_ Hf]. specialize (Hf eq_refl). cbn [print_tu app].
        destruct z as [|c' z'].
        + split; [reflexivity|]. rewrite lex_tu_eq. reflexivity.
        + cbn [hd] in Hf. destruct Hf as [Hf1 Hf2]. split; [apply nolc_bslash; exact Hf2|].
          rewrite lex_tu_eq. rewrite (nolc_bslash _ _ Hf2).
          change (c_bslash =? c_bslash) with true. cbv iota. rewrite Hf1. reflexivity.
      - pose proof (skip_lc_bslash_next _ _ _ Es) as Hnl.
        destruct (is_esc e c2) eqn:Ee.
        + inv H. split; [eexists _, _, _; split; reflexivity|]. split; [exact I|].
          intros z Hz _. cbn [print_tu app]. split; [apply nolc_bslash; exact Hnl|].
          rewrite lex_tu_eq, (nolc_bslash _ _ Hnl).
          change (c_bslash =? c_bslash) with true. cbv iota. rewrite Ee. reflexivity.
        + inv H. split; [eexists _, _, _; split; reflexivity|].
          assert (Hc2 : (c2 =? c_bslash) = false).
          { destruct (c2 =? c_bslash) eqn:X; [|reflexivity]. apply N.eqb_eq in X. subst.
            destruct e as [| | |]; cbn in Ee; discriminate. }
          rewrite (skip_lc_nonbslash _ _ Hc2). cbn [hd fo_tu].
          split; [split; [intros X; discriminate | intros _; auto]|].
          intros z Hz [_ Hf]. specialize (Hf eq_refl). cbn [print_tu app].
          destruct z as [|c' z'].
          * split; [reflexivity|]. rewrite lex_tu_eq. reflexivity.
          * cbn [hd] in Hf. destruct Hf as [Hf1 Hf2]. split; [apply nolc_bslash; exact Hf2|].
            rewrite lex_tu_eq. rewrite (nolc_bslash _ _ Hf2).
            change (c_bslash =? c_bslash) with true. cbv iota. rewrite Hf1. reflexivity. }
    destruct (c =? c_dollar) eqn:Ed.
    { (* dollar *)
      apply N.eqb_eq in Ed. subst c.
      destruct (lex_dollar inner f cx s1) as [[[u'|] r']| | | |] eqn:E1; try discriminate.
      - inv H. destruct (Hdol _ _ _ _ E1 Hok) as [(t' & Ep & Hrt) Hfo].
        split; [rewrite Ep; eexists _, _, _; split; reflexivity|]. split; [apply Hfo|].
        intros z Hz Hf. rewrite Ep. cbn [app]. split; [apply nolc_cons; reflexivity|].
        rewrite lex_tu_eq. rewrite skip_lc_nonbslash by reflexivity.
        change (c_dollar =? c_bslash) with false. change (c_dollar =? c_dollar) with true.
        cbv iota. unfold bind. rewrite Hrt; auto.
        (* the follow condition does not depend on the escapable set for these units *)
        intros e'. destruct u; cbn [fo_tu] in *; auto.
        cbn [print_tu] in Ep. inv Ep. destruct Hf as [A _]. split; [exact A | intros X; discriminate].
      - destruct (is_delim d c_dollar) eqn:Edl; [discriminate|]. inv H.
        split; [eexists _, _, _; split; reflexivity|].
        pose proof (lex_dollar_none _ _ _ _ E1) as Hn.
        split.
        { cbn [fo_tu]. split; [intros _|intros X; discriminate].
          destruct (skip_lc r); [exact I | exact Hn]. }
        intros z Hz [Hf _]. specialize (Hf eq_refl). cbn [print_tu app].
        split; [apply nolc_cons; reflexivity|].
        rewrite lex_tu_eq. rewrite skip_lc_nonbslash by reflexivity.
        change (c_dollar =? c_bslash) with false. change (c_dollar =? c_dollar) with true.
        cbv iota. unfold bind.
        rewrite (lex_dollar_stop (S f) cx z Hz).
        + rewrite Edl. reflexivity.
        + destruct z; [exact I | exact Hf]. }
    destruct (c =? c_bq) eqn:Eq.
    { (* backquote *)
      apply N.eqb_eq in Eq. subst c.
      destruct (lex_bq f cx s1) as [[us r']| | | |] eqn:E1; try discriminate.
      destruct r' as [|c' r'']; [discriminate|]. inv H.
      destruct (lex_bq_wf _ _ _ _ _ E1) as [[X|(r0 & X)] W]; [discriminate|]. inv X.
      specialize (W ltac:(discriminate)).
      split; [eexists _, _, _; split; [reflexivity | cbn [print_tu app]; reflexivity]|].
      split; [exact I|].
      intros z Hz _. cbn [print_tu app]. split; [apply nolc_cons; reflexivity|].
      rewrite lex_tu_eq. rewrite skip_lc_nonbslash by reflexivity.
      change (c_bq =? c_bslash) with false. change (c_bq =? c_dollar) with false.
      change (c_bq =? c_bq) with true. cbv iota. unfold bind.
      rewrite <- app_assoc. cbn [app].
      pose proof (lex_bq_print cx us z (S (S f)) W
                    ltac:(pose proof (lex_bq_units _ _ _ _ _ E1 ltac:(discriminate)); lia)) as X.
      unfold c_bq in X. rewrite X. reflexivity. }
    (* plain literal *)
    destruct (is_delim d c) eqn:Edl; [discriminate|]. inv H.
    split; [eexists _, _, _; split; reflexivity|]. split.
    { cbn [fo_tu]. rewrite Ed, Eb. split; intros X; discriminate. }
    intros z Hz _. cbn [print_tu app]. split; [apply nolc_cons; exact Eb|].
    rewrite lex_tu_eq. rewrite (skip_lc_nonbslash _ _ Eb). rewrite Eb, Ed, Eq, Edl. reflexivity.
  Qed.

  (* appending text that starts with a closing parenthesis does not create an
     opening parenthesis at the head *)
  Lemma skip_lc_app_rparen content z :
    match skip_lc content with c0 :: _ => (c0 =? c_lparen) = false | [] => True end ->
    match skip_lc (content ++ c_rparen :: z) with
    | c0 :: _ => (c0 =? c_lparen) = false
    | [] => True
    end.
  Proof.
    remember (len content) as n eqn:E. revert content E.
    induction n as [n IH] using lt_wf_ind. intros content E H.
    destruct content as [|c1 [|c2 t]].
    - cbn [app]. rewrite skip_lc_nonbslash by reflexivity. reflexivity.
    - cbn [app]. cbn [skip_lc] in H |- *.
      destruct ((c1 =? c_bslash) && (c_rparen =? c_nl)) eqn:X.
      + apply andb_prop in X. destruct X as [_ X]. discriminate.
      + exact H.
    - cbn [app skip_lc] in H |- *.
      destruct ((c1 =? c_bslash) && (c2 =? c_nl)) eqn:X.
      + apply (IH (len t)); [subst; cbn [length]; lia | reflexivity | exact H].
      + exact H.
  Qed.

  Lemma special_not_bslash c sp : special_of_char c = Some sp -> (c =? c_bslash) = false.
  Proof.
    intros H. destruct (c =? c_bslash) eqn:E; [|reflexivity]. apply N.eqb_eq in E. subst.
    cbn in H. discriminate.
  Qed.

  Lemma digit_not_bslash c : is_digit c = true -> (c =? c_bslash) = false.
  Proof.
    intros H. destruct (c =? c_bslash) eqn:E; [|reflexivity]. apply N.eqb_eq in E. subst.
    cbn in H. discriminate.
  Qed.

  Lemma S_dollar_S f : S_all f -> S_dollar (S f).
  Proof.
    intros (Htu & Hdol & Hbr & Htx & Htwp & Hwu & Hun) cx s u r H Hok.
    rewrite lex_dollar_eq in H. unfold bind in H. cbv zeta in H.
    destruct (skip_lc s) as [|c s1] eqn:Es; [discriminate|].
    destruct (special_of_char c) as [sp|] eqn:Esp.
    { inv H. split; [|intros e; cbn [fo_tu p_type]; intros X; discriminate].
      exists [c]. split; [reflexivity|]. intros z Hz _. cbn [app].
      rewrite lex_dollar_eq. rewrite (skip_lc_nonbslash _ _ (special_not_bslash _ _ Esp)).
      rewrite Esp. reflexivity. }
    destruct (is_digit c) eqn:Edg.
    { inv H. split; [|intros e; cbn [fo_tu p_type]; intros X; discriminate].
      exists [c]. split; [reflexivity|]. intros z Hz _. cbn [app].
      rewrite lex_dollar_eq. rewrite (skip_lc_nonbslash _ _ (digit_not_bslash _ Edg)).
      rewrite Esp, Edg. reflexivity. }
    destruct (is_name_char c) eqn:Enm.
    { destruct (lex_name (len s1) s1) as [n r'] eqn:En. inv H.
      destruct (lex_name_spec _ _ _ _ En ltac:(lia)) as (A & B & C).
      split.
      - exists (c :: n). split; [reflexivity|]. intros z Hz Hf. specialize (Hf EAll).
        cbn [fo_tu p_type] in Hf. specialize (Hf eq_refl). cbn [app].
        rewrite lex_dollar_eq. rewrite (skip_lc_nonbslash _ _ (name_char_not_bslash _ Enm)).
        rewrite Esp, Edg, Enm.
        rewrite (lex_name_print n z (len (n ++ z)) A Hz).
        + reflexivity.
        + destruct z; [exact I | exact Hf].
        + rewrite app_length. lia.
      - intros e. cbn [fo_tu p_type]. intros _. rewrite B. destruct r; [exact I | exact C]. }
    destruct (c =? c_lbrace) eqn:Elb.
    { destruct (lex_braced inner f cx s1) as [[u' r']| | | |] eqn:E1; try discriminate. inv H.
      destruct (Hbr _ _ _ _ E1 Hok) as (t' & Ep & Hfo & Hrt).
      split; [|intros e; apply Hfo].
      exists (c_lbrace :: t'). split; [exact Ep|]. intros z Hz _. cbn [app].
      rewrite lex_dollar_eq. rewrite skip_lc_nonbslash by reflexivity.
      change (special_of_char c_lbrace) with (@None special_param).
      change (is_digit c_lbrace) with false. change (is_name_char c_lbrace) with false.
      change (c_lbrace =? c_lbrace) with true. cbv iota. unfold bind. rewrite Hrt. reflexivity. }
    destruct (c =? c_lparen) eqn:Elp; [|inv H].
    apply N.eqb_eq in Elp. subst c.
    (* what a command substitution in the first run tells *)
    assert (CS : forall content r0,
               inner s1 = Ok (content, r0) ->
               forall c' r', skip_lc r0 = c' :: r' -> (c' =? c_rparen) = true ->
               ok_tu (CommandSubst content) = true ->
               (exists t', print_tu (CommandSubst content) = c_dollar :: t' /\
                  forall z, nolc z -> (forall e, fo_tu e (CommandSubst content) (hd z)) ->
                    lex_dollar inner (S (S (S f))) cx (t' ++ z) = Ok (Some (CommandSubst content), z))).
    { intros content r0 Ei c' r' Er Ec Hk. apply N.eqb_eq in Ec. subst c'.
      exists (c_lparen :: content ++ [c_rparen]). split; [reflexivity|].
      intros z Hz _. cbn [app]. rewrite <- app_assoc. cbn [app].
      rewrite lex_dollar_eq. rewrite skip_lc_nonbslash by reflexivity.
      change (special_of_char c_lparen) with (@None special_param).
      change (is_digit c_lparen) with false. change (is_name_char c_lparen) with false.
      change (c_lparen =? c_lbrace) with false. change (c_lparen =? c_lparen) with true.
      cbv iota zeta. unfold bind.
      cbn [ok_tu] in Hk. apply Bool.negb_true_iff in Hk.
      pose proof (skip_lc_app_rparen content z) as X.
      rewrite (inner_rt _ _ _ _ Ei Er z).
      rewrite (skip_lc_nonbslash c_rparen z) by reflexivity.
      change (c_rparen =? c_rparen) with true. cbv iota.
      destruct (skip_lc (content ++ c_rparen :: z)) as [|c0 t0].
      - reflexivity.
      - rewrite X; [reflexivity|]. destruct (skip_lc content); [exact I | exact Hk]. }
    destruct (skip_lc s1) as [|c' s2] eqn:Es1.
    { (* `$(` at the end of the input: only a command substitution *)
      destruct (inner s1) as [[content r0]| | | |] eqn:Ei; try discriminate.
      destruct (skip_lc r0) as [|c'' r''] eqn:Er; [discriminate|].
      destruct (c'' =? c_rparen) eqn:Ec; [|discriminate]. inv H.
      split; [eapply CS; eauto | intros e; exact I]. }
    destruct (c' =? c_lparen) eqn:Ec'.
    - (* arithmetic expansion or fallback *)
      destruct (lex_twp inner f 0 s2) as [[content r1]| | | |] eqn:Et; try discriminate.
      destruct (skip_lc r1) as [|c1 r1'] eqn:Er1; [discriminate|].
      destruct (c1 =? c_rparen) eqn:Ec1; [|discriminate].
      destruct (skip_lc r1') as [|c2 r2] eqn:Er2; [discriminate|].
      destruct (c2 =? c_rparen) eqn:Ec2.
      + inv H. split; [|intros e; exact I].
        exists (c_lparen :: c_lparen :: print_text content ++ [c_rparen; c_rparen]).
        split; [reflexivity|]. intros z Hz _. cbn [app]. rewrite <- app_assoc. cbn [app].
        rewrite lex_dollar_eq. rewrite skip_lc_nonbslash by reflexivity.
        change (special_of_char c_lparen) with (@None special_param).
        change (is_digit c_lparen) with false. change (is_name_char c_lparen) with false.
        change (c_lparen =? c_lbrace) with false. change (c_lparen =? c_lparen) with true.
        cbv iota zeta. unfold bind.
        rewrite (skip_lc_nonbslash c_lparen) by reflexivity.
        change (c_lparen =? c_lparen) with true. cbv iota.
        cbn [ok_tu] in Hok.
        rewrite (Htwp _ _ _ _ Et Hok (c_rparen :: z)).
        rewrite (skip_lc_nonbslash c_rparen (c_rparen :: z)) by reflexivity.
        change (c_rparen =? c_rparen) with true. cbv iota.
        rewrite (skip_lc_nonbslash c_rparen z) by reflexivity.
        change (c_rparen =? c_rparen) with true. cbv iota. reflexivity.
      + destruct (inner s1) as [[content' r0]| | | |] eqn:Ei; try discriminate.
        destruct (skip_lc r0) as [|c'' r''] eqn:Er; [discriminate|].
        destruct (c'' =? c_rparen) eqn:Ec; [|discriminate]. inv H.
        split; [eapply CS; eauto | intros e; exact I].
    - destruct (inner s1) as [[content' r0]| | | |] eqn:Ei; try discriminate.
      destruct (skip_lc r0) as [|c'' r''] eqn:Er; [discriminate|].
      destruct (c'' =? c_rparen) eqn:Ec; [|discriminate]. inv H.
      split; [eapply CS; eauto | intros e; exact I].
  Qed.

  (* ---- braced parameter expansions ---------------------------------------------------------- *)

  (* first character of a parameter: a name character or a special parameter *)
  Definition param_head (c : N) (p : param) : Prop :=
    (is_name_char c = true /\ exists n, p_id p = c :: n /\ forallb is_name_char n = true) \/
    (is_name_char c = false /\ (exists sp, special_of_char c = Some sp) /\ p_id p = [c]).

  Lemma lex_param_spec s0 p r :
    lex_param s0 = Ok (p, r) ->
    exists c t, skip_lc s0 = c :: t /\ param_head c p /\
      forall x, nolc x -> match x with c' :: _ => is_name_char c' = false | [] => True end ->
        lex_param (p_id p ++ x) = Ok (p, x).
  Proof.
    unfold lex_param. destruct (skip_lc s0) as [|c s1] eqn:E; [discriminate|].
    destruct (is_name_char c) eqn:En.
    - destruct (lex_name (len s1) s1) as [n r'] eqn:El.
      destruct (type_of_id (c :: n)) as [t|] eqn:Et; [|discriminate].
      intros H. inv H. destruct (lex_name_spec _ _ _ _ El ltac:(lia)) as (A & B & C).
      exists c, s1. split; [reflexivity|]. split; [left; split; [exact En|]; exists n; auto|].
      intros x Hx Hh. cbn [p_id app].
      rewrite (skip_lc_nonbslash _ _ (name_char_not_bslash _ En)). rewrite En.
      rewrite (lex_name_print n x (len (n ++ x)) A Hx Hh) by (rewrite app_length; lia).
      rewrite Et. reflexivity.
    - destruct (special_of_char c) as [sp|] eqn:Es; [|discriminate].
      intros H. inv H. exists c, r. split; [reflexivity|]. split; [right; repeat split; eauto|].
      intros x Hx Hh. cbn [p_id app].
      rewrite (skip_lc_nonbslash _ _ (special_not_bslash _ _ Es)). rewrite En, Es. reflexivity.
  Qed.

  Lemma param_head_not_bslash c p : param_head c p -> (c =? c_bslash) = false.
  Proof.
    intros [[A _]|(_ & (sp & B) & _)]; [apply name_char_not_bslash | eapply special_not_bslash]; eauto.
  Qed.

  (* the head of a parameter is none of } + = : % *)
  Lemma param_head_not_mod c p :
    param_head c p ->
    (c =? 125) || (c =? 43) || (c =? 61) || (c =? 58) || (c =? 37) = false.
  Proof.
    intros H.
    destruct ((c =? 125) || (c =? 43) || (c =? 61) || (c =? 58) || (c =? 37)) eqn:E; [|reflexivity].
    exfalso.
    repeat (apply Bool.orb_true_iff in E; destruct E as [E|E]);
      apply N.eqb_eq in E; subst c;
      destruct H as [[A _]|(_ & (sp & B) & _)]; cbn in *; discriminate.
  Qed.

  (* - ? # as the head of a parameter: a special parameter of one character *)
  Lemma param_head_special c p :
    param_head c p -> (c =? 45) || (c =? 63) || (c =? 35) = true -> p_id p = [c].
  Proof.
    intros H E. destruct H as [[A _]|(_ & _ & B)]; [|exact B].
    exfalso. repeat (apply Bool.orb_true_iff in E; destruct E as [E|E]);
      apply N.eqb_eq in E; subst c; cbn in A; discriminate.
  Qed.

  Definition print_mod (m : modifier) : str :=
    match m with
    | MNone | MLength => []
    | MSwitch a c w => print_cond c ++ [print_action a] ++ print_word w
    | MTrim sd l w =>
        (print_side sd :: match l with TlShortest => [] | TlLongest => [print_side sd] end)
        ++ print_word w
    end.

  Lemma print_braced p m :
    m <> MLength ->
    print_tu (BracedParam p m) = [c_dollar; c_lbrace] ++ p_id p ++ print_mod m ++ [c_rbrace].
  Proof.
    intros Hm. destruct m; cbn [print_tu print_mod app]; try congruence;
      unfold print_word; rewrite <- ?app_assoc; cbn [app]; try reflexivity.
  Qed.

  Lemma print_action_of sym :
    (sym =? 43) || (sym =? 45) || (sym =? 61) || (sym =? 63) = true ->
    print_action (switch_action_of sym) = sym.
  Proof.
    intros H. unfold switch_action_of.
    destruct (sym =? 43) eqn:E1; [apply N.eqb_eq in E1; subst; reflexivity|].
    destruct (sym =? 45) eqn:E2; [apply N.eqb_eq in E2; subst; reflexivity|].
    destruct (sym =? 61) eqn:E3; [apply N.eqb_eq in E3; subst; reflexivity|].
    cbn [orb] in H. apply N.eqb_eq in H. subst. reflexivity.
  Qed.

  Lemma switch_not_name sym :
    (sym =? 43) || (sym =? 45) || (sym =? 61) || (sym =? 63) = true ->
    is_name_char sym = false /\ (sym =? c_bslash) = false /\ (sym =? 58) = false /\
    (sym =? c_rbrace) = false.
  Proof.
    intros H. repeat (apply Bool.orb_true_iff in H; destruct H as [H|H]);
      apply N.eqb_eq in H; subst; repeat split; reflexivity.
  Qed.

  Lemma trim_not_name sym :
    (sym =? 35) || (sym =? 37) = true ->
    is_name_char sym = false /\ (sym =? c_bslash) = false /\ (sym =? 58) = false /\
    (sym =? c_rbrace) = false /\
    (sym =? 43) || (sym =? 45) || (sym =? 61) || (sym =? 63) = false.
  Proof.
    intros H. repeat (apply Bool.orb_true_iff in H; destruct H as [H|H]);
      apply N.eqb_eq in H; subst; repeat split; reflexivity.
  Qed.

  (* what the round trip of the nested word gives (from [S_units]) *)
  Lemma nested_word f cx' s' w r' r3 :
    S_units f ->
    lex_units inner f cx' DBrace s' = Ok (w, r') -> ok_word w = true ->
    skip_lc r' = c_rbrace :: r3 ->
    r' = c_rbrace :: r3 /\
    (forall z, nolc (print_word w ++ c_rbrace :: z) /\
       lex_units inner (S (S f)) cx' DBrace (print_word w ++ c_rbrace :: z) = Ok (w, c_rbrace :: z)) /\
    (forall c t, skip_lc s' = c :: t -> (c =? c_rbrace) = false ->
       exists y, print_word w = c :: y).
  Proof.
    intros Hun E Hk Er. destruct (Hun _ _ _ _ _ E Hk ltac:(discriminate)) as (N1 & St & Lf & Hd & Rt).
    rewrite N1 in Er. subst r'. split; [reflexivity|]. split.
    - intros z. apply Rt; [apply nolc_cons; reflexivity | reflexivity | exact Lf].
    - intros c t Es Hc. destruct w as [|u w'].
      + (* an empty word: the text stopped right away *)
        exfalso. destruct f as [|f']; [discriminate|]. rewrite lex_units_eq in E. unfold bind in E.
        destruct (lex_wu inner f' cx' DBrace s') as [[[u|] r0]| | | |] eqn:E0; try discriminate.
        * destruct (lex_units inner f' cx' DBrace r0) as [[? ?]| | | |]; discriminate.
        * inv E. apply lex_wu_none in E0. destruct E0 as [E1 E2]. rewrite Es in E1. inv E1.
          rewrite N.eqb_refl in Hc. discriminate.
      + destruct (Hd ltac:(discriminate)) as (c0 & x & y & A & B). rewrite Es in A. inv A. eauto.
  Qed.

  Definition mod_ok (m : modifier) : Prop :=
    match m with
    | MSwitch _ _ w | MTrim _ _ w => ok_word w = true
    | _ => True
    end.

  Lemma hlp_cons rp :
    has_length_prefix (c_hash :: rp) =
    match skip_lc rp with
    | [] => true
    | c :: s2 =>
        if (c =? 125) || (c =? 43) || (c =? 61) || (c =? 58) || (c =? 37) then false
        else if (c =? 45) || (c =? 63) || (c =? 35) then
          match skip_lc s2 with c3 :: _ => c3 =? 125 | [] => true end
        else true
    end.
  Proof.
    unfold has_length_prefix. rewrite skip_lc_nonbslash by reflexivity.
    change (c_hash =? c_hash) with true. reflexivity.
  Qed.

  Lemma lex_suffix_rt f cx rp m r2 r3 :
    S_units f ->
    lex_suffix (fun cx' s' => lex_units inner f cx' DBrace s') cx rp = Ok (m, r2) ->
    skip_lc r2 = c_rbrace :: r3 -> mod_ok m ->
    m <> MLength /\
    forall z,
      nolc (print_mod m ++ c_rbrace :: z) /\
      (exists c t, print_mod m ++ c_rbrace :: z = c :: t /\ is_name_char c = false) /\
      lex_suffix (fun cx' s' => lex_units inner (S (S f)) cx' DBrace s') cx
                 (print_mod m ++ c_rbrace :: z) = Ok (m, c_rbrace :: z) /\
      (has_length_prefix (c_hash :: rp) = false ->
       has_length_prefix (c_hash :: print_mod m ++ c_rbrace :: z) = false).
  Proof.
    intros Hun Em Er Hk. unfold lex_suffix in Em. cbv zeta in Em.
    pose proof (nolc_skip_lc rp) as Nr0.
    destruct (skip_lc rp) as [|cB sB] eqn:Er0.
    { (* nothing after the parameter *)
      inv Em. cbn [skip_lc] in Er. discriminate. }
    destruct (cB =? 58) eqn:Ecolon.
    - (* with a colon *)
      apply N.eqb_eq in Ecolon. subst cB.
      destruct (skip_lc sB) as [|sym r1'] eqn:Er1; [discriminate|].
      destruct ((sym =? 43) || (sym =? 45) || (sym =? 61) || (sym =? 63)) eqn:Esw.
      + unfold bind in Em.
        destruct (lex_units inner f cx DBrace r1') as [[w r']| | | |] eqn:Ew; try discriminate.
        inv Em. split; [discriminate|]. intros z.
        assert (Hkw : ok_word w = true).
        { cbn [mod_ok] in Hk. destruct cx; [apply ok_tilde_front|]; exact Hk. }
        destruct (nested_word _ _ _ _ _ _ Hun Ew Hkw Er) as (-> & Rt & Hh).
        destruct (Rt z) as [Rn Rl].
        assert (Ep : print_mod (MSwitch (switch_action_of sym) ScUnsetOrEmpty
                              match cx with CWord => tilde_front w | CText => w end)
                     ++ c_rbrace :: z
                     = 58 :: sym :: print_word w ++ c_rbrace :: z).
        { cbn [print_mod print_cond app]. rewrite (print_action_of _ Esw).
          destruct cx; rewrite ?print_tilde_front; reflexivity. }
        rewrite Ep. destruct (switch_not_name _ Esw) as (A1 & A2 & A3 & A4).
        split; [apply nolc_cons; reflexivity|].
        split; [eexists _, _; split; [reflexivity | reflexivity]|].
        split.
        * unfold lex_suffix. cbv zeta. rewrite skip_lc_nonbslash by reflexivity.
          change (58 =? 58) with true. cbv iota.
          rewrite (skip_lc_nonbslash _ _ A2). rewrite Esw. unfold bind. rewrite Rl. reflexivity.
        * intros _. rewrite hlp_cons. rewrite skip_lc_nonbslash by reflexivity. reflexivity.
      + destruct ((sym =? 35) || (sym =? 37)); discriminate.
    - (* without a colon: the symbol is the first character *)
      destruct ((cB =? 43) || (cB =? 45) || (cB =? 61) || (cB =? 63)) eqn:Esw.
      + unfold bind in Em.
        destruct (lex_units inner f cx DBrace sB) as [[w r']| | | |] eqn:Ew; try discriminate.
        inv Em. split; [discriminate|]. intros z.
        assert (Hkw : ok_word w = true).
        { cbn [mod_ok] in Hk. destruct cx; [apply ok_tilde_front|]; exact Hk. }
        destruct (nested_word _ _ _ _ _ _ Hun Ew Hkw Er) as (-> & Rt & Hh).
        destruct (Rt z) as [Rn Rl].
        assert (Ep : print_mod (MSwitch (switch_action_of cB) ScUnset
                              match cx with CWord => tilde_front w | CText => w end)
                     ++ c_rbrace :: z
                     = cB :: print_word w ++ c_rbrace :: z).
        { cbn [print_mod print_cond app]. rewrite (print_action_of _ Esw).
          destruct cx; rewrite ?print_tilde_front; reflexivity. }
        rewrite Ep. destruct (switch_not_name _ Esw) as (A1 & A2 & A3 & A4).
        split; [apply nolc_cons; exact A2|].
        split; [eexists _, _; split; [reflexivity | exact A1]|].
        split.
        * unfold lex_suffix. cbv zeta. rewrite (skip_lc_nonbslash _ _ A2).
          rewrite A3, Esw. unfold bind. rewrite Rl. reflexivity.
        * rewrite !hlp_cons. rewrite Er0, (skip_lc_nonbslash _ _ A2).
          destruct ((cB =? 125) || (cB =? 43) || (cB =? 61) || (cB =? 58) || (cB =? 37));
            [reflexivity|].
          destruct ((cB =? 45) || (cB =? 63) || (cB =? 35)); [|discriminate].
          rewrite Rn. destruct (skip_lc sB) as [|cC sC] eqn:EsB; [discriminate|].
          intros HcC. destruct (Hh _ _ eq_refl HcC) as (y & Ey). rewrite Ey. cbn [app]. exact HcC.
      + destruct ((cB =? 35) || (cB =? 37)) eqn:Etr.
        * (* trim *)
          unfold bind in Em.
          destruct (trim_not_name _ Etr) as (A1 & A2 & A3 & A4 & A5).
          destruct (skip_lc sB) as [|cC sC] eqn:EsB.
          -- (* nothing after the symbol: no closing brace *)
             exfalso.
             destruct (lex_units inner f CWord DBrace []) as [[w r']| | | |] eqn:Ew; try discriminate.
             inv Em. destruct f as [|f']; [discriminate|]. rewrite lex_units_eq in Ew.
             destruct f' as [|f'']; [discriminate|].
             rewrite lex_wu_eq in Ew. cbn in Ew. inv Ew. discriminate.
          -- pose proof (nolc_skip_lc sB) as NsB. rewrite EsB in NsB.
             destruct (cC =? cB) eqn:Edbl.
             ++ (* longest *)
                apply N.eqb_eq in Edbl. subst cC.
                destruct (lex_units inner f CWord DBrace sC) as [[w r']| | | |] eqn:Ew; try discriminate.
                inv Em. split; [discriminate|]. intros z.
                assert (Hkw : ok_word w = true) by (apply ok_tilde_front; exact Hk).
                destruct (nested_word _ _ _ _ _ _ Hun Ew Hkw Er) as (-> & Rt & Hh).
                destruct (Rt z) as [Rn Rl].
                assert (Es : print_side (if cB =? 35 then TsPrefix else TsSuffix) = cB).
                { destruct (cB =? 35) eqn:X; [apply N.eqb_eq in X; subst; reflexivity|].
                  cbn [orb] in Etr. apply N.eqb_eq in Etr. subst. reflexivity. }
                cbn [print_mod]. rewrite print_tilde_front, Es. cbn [app].
                split; [apply nolc_cons; exact A2|].
                split; [eexists _, _; split; [reflexivity | exact A1]|].
                split.
                ** unfold lex_suffix. cbv zeta. rewrite (skip_lc_nonbslash _ _ A2).
                   rewrite A3, A5, Etr. rewrite (skip_lc_nonbslash _ _ A2). rewrite N.eqb_refl.
                   unfold bind. rewrite Rl. reflexivity.
                ** intros _. rewrite hlp_cons. rewrite (skip_lc_nonbslash _ _ A2).
                   assert (Hc : cB = 35 \/ cB = 37).
                   { apply Bool.orb_true_iff in Etr. destruct Etr as [X|X]; apply N.eqb_eq in X; auto. }
                   destruct Hc; subst cB.
                   --- change ((35 =? 125) || (35 =? 43) || (35 =? 61) || (35 =? 58) || (35 =? 37))
                         with false.
                       change ((35 =? 45) || (35 =? 63) || (35 =? 35)) with true. cbv iota.
                       rewrite skip_lc_nonbslash by reflexivity. reflexivity.
                   --- reflexivity.
             ++ (* shortest *)
                destruct (lex_units inner f CWord DBrace (cC :: sC)) as [[w r']| | | |] eqn:Ew;
                  try discriminate.
                inv Em. split; [discriminate|]. intros z.
                assert (Hkw : ok_word w = true) by (apply ok_tilde_front; exact Hk).
                destruct (nested_word _ _ _ _ _ _ Hun Ew Hkw Er) as (-> & Rt & Hh).
                destruct (Rt z) as [Rn Rl].
                assert (Es : print_side (if cB =? 35 then TsPrefix else TsSuffix) = cB).
                { destruct (cB =? 35) eqn:X; [apply N.eqb_eq in X; subst; reflexivity|].
                  cbn [orb] in Etr. apply N.eqb_eq in Etr. subst. reflexivity. }
                cbn [print_mod]. rewrite print_tilde_front, Es. cbn [app].
                split; [apply nolc_cons; exact A2|].
                split; [eexists _, _; split; [reflexivity | exact A1]|].
                (* the head of what follows the symbol *)
                assert (Hhd : exists c1 t1, print_word w ++ c_rbrace :: z = c1 :: t1 /\
                                (c1 =? cB) = false /\
                                ((cC =? c_rbrace) = false -> c1 = cC)).
                { destruct (cC =? c_rbrace) eqn:Y.
                  - (* the word is empty *)
                    apply N.eqb_eq in Y. subst cC.
                    destruct w as [|u w'].
                    + eexists _, _. split; [reflexivity|]. split; [exact Edbl | discriminate].
                    + destruct (Hun _ _ _ _ _ Ew Hkw ltac:(discriminate)) as (_ & _ & _ & Hd & _).
                      destruct (Hd ltac:(discriminate)) as (c0 & x & y & B1 & B2).
                      rewrite NsB in B1. inv B1. rewrite B2. cbn [app].
                      eexists _, _. split; [reflexivity|]. split; [exact Edbl | discriminate].
                  - destruct (Hh _ _ NsB Y) as (y & Ey). rewrite Ey. cbn [app].
                    eexists _, _. split; [reflexivity|]. split; [exact Edbl | reflexivity]. }
                destruct Hhd as (c1 & t1 & Hh1 & Hh2 & Hh3).
                split.
                ** unfold lex_suffix. cbv zeta. rewrite (skip_lc_nonbslash _ _ A2).
                   rewrite A3, A5, Etr. rewrite Rn. rewrite Hh1, Hh2. rewrite <- Hh1.
                   unfold bind. rewrite Rl. reflexivity.
                ** rewrite !hlp_cons. rewrite Er0, (skip_lc_nonbslash _ _ A2).
                   destruct ((cB =? 125) || (cB =? 43) || (cB =? 61) || (cB =? 58) || (cB =? 37));
                     [reflexivity|].
                   destruct ((cB =? 45) || (cB =? 63) || (cB =? 35)); [|discriminate].
                   rewrite EsB, Rn, Hh1. intros HcC. rewrite (Hh3 HcC). exact HcC.
        * (* no modifier: the closing brace *)
          inv Em. rewrite Nr0 in Er. inv Er. split; [discriminate|]. intros z.
          cbn [print_mod app].
          split; [apply nolc_cons; reflexivity|].
          split; [eexists _, _; split; reflexivity|].
          split.
          -- unfold lex_suffix. cbv zeta. rewrite skip_lc_nonbslash by reflexivity. reflexivity.
          -- intros _. rewrite hlp_cons. rewrite skip_lc_nonbslash by reflexivity. reflexivity.
  Qed.

  Lemma S_braced_S f : S_all f -> S_braced (S f).
  Proof.
    intros (Htu & Hdol & Hbr & Htx & Htwp & Hwu & Hun) cx s u r H Hok.
    rewrite lex_braced_eq in H. unfold bind in H. cbv zeta in H.
    destruct (has_length_prefix s) eqn:Epre; cbv beta iota in H.
    - (* ${#param} *)
      match type of H with context [lex_param ?x] =>
        destruct (lex_param x) as [[p rp]| | | |] eqn:Ep; try discriminate end.
      match type of H with context [lex_suffix ?a ?b ?c] =>
        destruct (lex_suffix a b c) as [[m r2]| | | |] eqn:Em; try discriminate end.
      destruct (skip_lc r2) as [|c' r3] eqn:Er2; [discriminate|].
      destruct (c' =? c_rbrace) eqn:Ec'; [|discriminate].
      destruct m; try discriminate. inv H.
      destruct (lex_param_spec _ _ _ Ep) as (c & t & Es0 & Hh & Prt).
      exists (c_hash :: p_id p ++ [c_rbrace]). split; [reflexivity|]. split; [intros; exact I|].
      intros z. cbn [app]. rewrite <- app_assoc. cbn [app].
      rewrite lex_braced_eq. cbv zeta.
      (* the length prefix is recognised again *)
      assert (Hp : has_length_prefix (c_hash :: p_id p ++ c_rbrace :: z) = true).
      { rewrite hlp_cons.
        assert (Eid : exists t', p_id p = c :: t').
        { destruct Hh as [(_ & n & -> & _)|(_ & _ & ->)]; eauto. }
        destruct Eid as (t' & Eid). rewrite Eid. cbn [app].
        rewrite (skip_lc_nonbslash _ _ (param_head_not_bslash _ _ Hh)).
        rewrite (param_head_not_mod _ _ Hh).
        destruct ((c =? 45) || (c =? 63) || (c =? 35)) eqn:X; [|reflexivity].
        rewrite (param_head_special _ _ Hh X) in Eid. inv Eid. cbn [app].
        rewrite skip_lc_nonbslash by reflexivity. reflexivity. }
      rewrite Hp. rewrite (skip_lc_nonbslash c_hash) by reflexivity.
      rewrite (Prt (c_rbrace :: z)) by (try apply nolc_cons; reflexivity).
      unfold bind. unfold lex_suffix at 1. cbv zeta.
      rewrite skip_lc_nonbslash by reflexivity.
      change (c_rbrace =? 58) with false. cbv iota.
      change ((c_rbrace =? 43) || (c_rbrace =? 45) || (c_rbrace =? 61) || (c_rbrace =? 63)) with false.
      change ((c_rbrace =? 35) || (c_rbrace =? 37)) with false. cbv iota.
      rewrite skip_lc_nonbslash by reflexivity. change (c_rbrace =? c_rbrace) with true.
      reflexivity.
    - (* ${param modifier} *)
      match type of H with context [lex_param ?x] =>
        destruct (lex_param x) as [[p rp]| | | |] eqn:Ep; try discriminate end.
      match type of H with context [lex_suffix ?a ?b ?c] =>
        destruct (lex_suffix a b c) as [[m r2]| | | |] eqn:Em; try discriminate end.
      destruct (skip_lc r2) as [|c' r3] eqn:Er2; [discriminate|].
      destruct (c' =? c_rbrace) eqn:Ec'; [|discriminate]. inv H.
      apply N.eqb_eq in Ec'. subst c'.
      destruct (lex_param_spec _ _ _ Ep) as (c & t & Es0 & Hh & Prt).
      assert (Hk : mod_ok m).
      { cbn [ok_tu] in Hok. destruct m; cbn [mod_ok]; auto. }
      destruct (lex_suffix_rt _ _ _ _ _ _ Hun Em Er2 Hk) as (Hm & Srt).
      exists (p_id p ++ print_mod m ++ [c_rbrace]). split; [apply print_braced; exact Hm|].
      split; [intros; exact I|].
      intros z. rewrite <- !app_assoc. cbn [app].
      destruct (Srt z) as (Sn & (cx0 & tx0 & Sx & Sname) & Sl & Sh).
      rewrite lex_braced_eq. cbv zeta.
      assert (Eid : exists t', p_id p = c :: t').
      { destruct Hh as [(_ & n & -> & _)|(_ & _ & ->)]; eauto. }
      destruct Eid as (t' & Eid).
      (* no length prefix *)
      assert (Hp : has_length_prefix (p_id p ++ print_mod m ++ c_rbrace :: z) = false).
      { destruct (c =? c_hash) eqn:Ech.
        - apply N.eqb_eq in Ech. subst c.
          assert (Eid1 : p_id p = [c_hash]) by (apply (param_head_special _ _ Hh); reflexivity).
          rewrite Eid1. cbn [app]. apply Sh.
          (* the first run saw no length prefix either *)
          rewrite <- Epre. unfold has_length_prefix at 2. rewrite Es0.
          change (c_hash =? c_hash) with true. cbv iota.
          rewrite hlp_cons.
          (* the parameter is the single character #, so what follows it is [t] *)
          unfold lex_param in Ep. rewrite Es0 in Ep. cbn in Ep. inv Ep. reflexivity.
        - unfold has_length_prefix. rewrite Eid. cbn [app].
          rewrite (skip_lc_nonbslash _ _ (param_head_not_bslash _ _ Hh)). rewrite Ech. reflexivity. }
      rewrite Hp.
      rewrite (Prt (print_mod m ++ c_rbrace :: z) Sn) by (rewrite Sx; exact Sname).
      unfold bind. rewrite Sl.
      rewrite skip_lc_nonbslash by reflexivity. change (c_rbrace =? c_rbrace) with true.
      reflexivity.
  Qed.

  (* ---- sequences of units ---------------------------------------------------------------------- *)

  Lemma last_opt_cons {A} (x : A) l :
    last_opt (x :: l) = match l with [] => Some x | _ => last_opt l end.
  Proof. destruct l; reflexivity. Qed.

  Lemma lex_text_nil f d e s r : lex_text inner f d e s = Ok ([], r) -> r = skip_lc s.
  Proof.
    destruct f as [|f]; [discriminate|]. rewrite lex_text_eq. unfold bind. intros H.
    destruct (lex_tu inner f CText d e s) as [[[u|] r1]| | | |] eqn:E; try discriminate.
    - destruct (lex_text inner f d e r1) as [[? ?]| | | |]; discriminate.
    - inv H. apply lex_tu_none in E. apply E.
  Qed.

  Lemma lex_units_nil f cx d s r : lex_units inner f cx d s = Ok ([], r) -> r = skip_lc s.
  Proof.
    destruct f as [|f]; [discriminate|]. rewrite lex_units_eq. unfold bind. intros H.
    destruct (lex_wu inner f cx d s) as [[[u|] r1]| | | |] eqn:E; try discriminate.
    - destruct (lex_units inner f cx d r1) as [[? ?]| | | |]; discriminate.
    - inv H. apply lex_wu_none in E. apply E.
  Qed.

  Lemma S_text_S f : S_all f -> S_text (S f).
  Proof.
    intros (Htu & Hdol & Hbr & Htx & Htwp & Hwu & Hun) d e s t r H Hok.
    rewrite lex_text_eq in H. unfold bind in H.
    destruct (lex_tu inner f CText d e s) as [[[u|] r1]| | | |] eqn:E1; try discriminate.
    - destruct (lex_text inner f d e r1) as [[us r']| | | |] eqn:E2; try discriminate. inv H.
      unfold ok_text in Hok. cbn [forallb] in Hok. apply andb_prop in Hok. destruct Hok as [Hk1 Hk2].
      destruct (Htu _ _ _ _ _ _ E1 Hk1) as ((c & x & y & Hs & Hp) & Bu & Ru).
      destruct (Htx _ _ _ _ _ E2 Hk2) as (Nr & St & Lf & Hd & Rus).
      split; [exact Nr|]. split; [exact St|].
      assert (Bu' : us = [] -> fo_tu e u (hd r)).
      { intros ->. apply lex_text_nil in E2. subst r. exact Bu. }
      split.
      { unfold last_fo_text. rewrite last_opt_cons. destruct us as [|u2 us']; [apply Bu'; reflexivity|].
        exact Lf. }
      split.
      { intros _. exists c, x, (y ++ print_text us). split; [exact Hs|].
        unfold print_text. cbn [cat_map]. fold (print_text us). rewrite Hp. reflexivity. }
      intros z Hz Hsz Hl.
      assert (Hl2 : last_fo_text e us (hd z)).
      { unfold last_fo_text in *. rewrite last_opt_cons in Hl. destruct us; [exact I | exact Hl]. }
      destruct (Rus z Hz Hsz Hl2) as [N2 L2].
      assert (Hfu : fo_tu e u (hd (print_text us ++ z))).
      { destruct us as [|u2 us'].
        - cbn [print_text cat_map app]. unfold last_fo_text in Hl. cbn [last_opt] in Hl. exact Hl.
        - destruct (Hd ltac:(discriminate)) as (c2 & x2 & y2 & Hs2 & Hp2).
          rewrite Hp2. cbn [app hd]. rewrite Hs2 in Bu. exact Bu. }
      destruct (Ru _ N2 Hfu) as [N1 L1].
      unfold print_text in *. cbn [cat_map]. rewrite <- app_assoc. split; [exact N1|].
      rewrite lex_text_eq. unfold bind. rewrite L1, L2. reflexivity.
    - inv H.
      apply lex_tu_none in E1. destruct E1 as [-> St].
      split; [apply nolc_skip_lc|]. split; [exact St|]. split; [exact I|].
      split; [congruence|].
      intros z Hz Hsz _. cbn [print_text cat_map app]. split; [exact Hz|].
      rewrite lex_text_eq. unfold bind.
      rewrite (lex_tu_stop (S f) CText d e z Hz Hsz). reflexivity.
  Qed.

  (* a closing parenthesis may follow any unit of an arithmetic expansion *)
  Lemma fo_rparen u : fo_tu EArith u (Some c_rparen).
  Proof.
    destruct u; cbn [fo_tu]; auto.
  Qed.

  Lemma last_fo_rparen t : last_fo_text EArith t (Some c_rparen).
  Proof. unfold last_fo_text. destruct (last_opt t); [apply fo_rparen | exact I]. Qed.

  Lemma S_twp_S f : S_all f -> S_twp (S f).
  Proof.
    intros (Htu & Hdol & Hbr & Htx & Htwp & Hwu & Hun) depth s t r H Hok z.
    rewrite lex_twp_eq in H. unfold bind in H.
    destruct (lex_text inner f DParen EArith s) as [[us r0]| | | |] eqn:E1; try discriminate.
    (* the text part alone, followed by a closing parenthesis *)
    assert (Base : ok_text us = true ->
              lex_twp inner (S (S (S f))) 0 (print_text us ++ c_rparen :: z) = Ok (us, c_rparen :: z)).
    { intros Hk. destruct (Htx _ _ _ _ _ E1 Hk) as (_ & _ & _ & _ & Rus).
      destruct (Rus (c_rparen :: z) ltac:(apply nolc_cons; reflexivity) ltac:(reflexivity)
                  (last_fo_rparen us)) as [_ L].
      rewrite lex_twp_eq. unfold bind. rewrite L.
      rewrite skip_lc_nonbslash by reflexivity. reflexivity. }
    destruct (skip_lc r0) as [|c r1] eqn:Er0.
    - destruct depth; [|discriminate]. inv H. apply Base. exact Hok.
    - destruct (c =? c_lparen) eqn:Ec.
      + destruct (lex_twp inner f (S depth) r1) as [[vs r2]| | | |] eqn:E2; try discriminate. inv H.
        apply N.eqb_eq in Ec. subst c.
        unfold ok_text in Hok. rewrite forallb_app in Hok. apply andb_prop in Hok.
        destruct Hok as [Hk1 Hk2]. cbn [forallb ok_tu andb] in Hk2.
        destruct (Htx _ _ _ _ _ E1 Hk1) as (Nr & _ & Lf & _ & Rus).
        rewrite Nr in Er0. subst r0. cbn [hd] in Lf.
        unfold print_text. rewrite cat_map_app. cbn [cat_map print_tu]. rewrite <- !app_assoc. cbn [app].
        destruct (Rus (c_lparen :: cat_map print_tu vs ++ c_rparen :: z)
                    ltac:(apply nolc_cons; reflexivity) ltac:(reflexivity) Lf) as [_ L].
        rewrite lex_twp_eq. unfold bind. unfold print_text in L. rewrite L.
        rewrite skip_lc_nonbslash by reflexivity. change (c_lparen =? c_lparen) with true. cbv iota.
        pose proof (Htwp _ _ _ _ E2 Hk2 z) as L2. unfold print_text in L2. rewrite L2. reflexivity.
      + destruct depth as [|dep].
        * inv H. apply Base. exact Hok.
        * destruct (c =? c_rparen) eqn:Ec2; [|discriminate].
          destruct (lex_twp inner f dep r1) as [[vs r2]| | | |] eqn:E2; try discriminate. inv H.
          apply N.eqb_eq in Ec2. subst c.
          unfold ok_text in Hok. rewrite forallb_app in Hok. apply andb_prop in Hok.
          destruct Hok as [Hk1 Hk2]. cbn [forallb ok_tu andb] in Hk2.
          destruct (Htx _ _ _ _ _ E1 Hk1) as (Nr & _ & _ & _ & Rus).
          unfold print_text. rewrite cat_map_app. cbn [cat_map print_tu]. rewrite <- !app_assoc. cbn [app].
          destruct (Rus (c_rparen :: cat_map print_tu vs ++ c_rparen :: z)
                      ltac:(apply nolc_cons; reflexivity) ltac:(reflexivity)
                      (last_fo_rparen us)) as [_ L].
          rewrite lex_twp_eq. unfold bind. unfold print_text in L. rewrite L.
          rewrite skip_lc_nonbslash by reflexivity.
          change (c_rparen =? c_lparen) with false. change (c_rparen =? c_rparen) with true. cbv iota.
          pose proof (Htwp _ _ _ _ E2 Hk2 z) as L2. unfold print_text in L2. rewrite L2. reflexivity.
  Qed.

  (* ---- word units ------------------------------------------------------------------------------- *)

  Lemma lex_single_quote_spec s q r :
    lex_single_quote s = Ok (q, r) ->
    forall z, lex_single_quote (q ++ c_sq :: z) = Ok (q, z).
  Proof.
    revert q r. induction s as [|c s IH]; intros q r H z; cbn [lex_single_quote] in H; [discriminate|].
    destruct (c =? c_sq) eqn:E.
    - inv H. cbn [app lex_single_quote]. change (c_sq =? c_sq) with true. reflexivity.
    - unfold bind in H. destruct (lex_single_quote s) as [[q' r']| | | |] eqn:E'; try discriminate.
      inv H. cbn [app lex_single_quote]. rewrite E. unfold bind. rewrite (IH _ _ eq_refl z). reflexivity.
  Qed.

  Lemma print_eu_nonempty u : (1 <= length (print_eu u))%nat.
  Proof.
    destruct u; cbn [print_eu length]; try lia.
    - destruct (b =? 28); cbn [length]; lia.
    - destruct (c <=? 65535); cbn [length]; lia.
  Qed.

  Lemma cat_print_eu_len es : (length es <= length (cat_map print_eu es))%nat.
  Proof.
    induction es as [|u es IH]; cbn [cat_map length]; [lia|].
    rewrite app_length. pose proof (print_eu_nonempty u). lia.
  Qed.

  Lemma S_wu_S f : S_all f -> S_wu (S f).
  Proof.
    intros (Htu & Hdol & Hbr & Htx & Htwp & Hwu & Hun) cx d s u r H Hok.
    rewrite lex_wu_eq in H. unfold bind in H.
    destruct (skip_lc s) as [|c s1] eqn:Es; [discriminate|].
    destruct ((c =? c_sq) && match cx with CWord => true | CText => false end) eqn:Esq.
    { (* single quotes *)
      destruct (lex_single_quote s1) as [[q r']| | | |] eqn:E1; try discriminate. inv H.
      apply andb_prop in Esq. destruct Esq as [Ec Ecx]. apply N.eqb_eq in Ec. subst c.
      split; [eexists _, _, _; split; reflexivity|]. split; [exact I|].
      intros z Hz _. cbn [print_wu app]. split; [apply nolc_cons; reflexivity|].
      rewrite lex_wu_eq. rewrite skip_lc_nonbslash by reflexivity.
      change (c_sq =? c_sq) with true. rewrite Ecx. cbn [andb]. unfold bind.
      rewrite <- app_assoc. cbn [app].
      pose proof (lex_single_quote_spec _ _ _ E1 z) as X. unfold c_sq in X. rewrite X. reflexivity. }
    destruct (c =? c_dq) eqn:Edq.
    { (* double quotes *)
      destruct (lex_text inner f DDQuote EDQuote s1) as [[t r1]| | | |] eqn:E1; try discriminate.
      destruct (skip_lc r1) as [|c' r'] eqn:Er1; [discriminate|].
      destruct (c' =? c_dq) eqn:Ec'; [|discriminate]. inv H.
      apply N.eqb_eq in Edq, Ec'. subst c c'.
      cbn [ok_wu] in Hok.
      destruct (Htx _ _ _ _ _ E1 Hok) as (Nr & _ & Lf & _ & Rt).
      rewrite Nr in Er1. subst r1. cbn [hd] in Lf.
      split; [eexists _, _, _; split; reflexivity|]. split; [exact I|].
      intros z Hz _. cbn [print_wu app]. split; [apply nolc_cons; reflexivity|].
      rewrite lex_wu_eq. rewrite skip_lc_nonbslash by reflexivity.
      change (c_dq =? c_sq) with false. cbn [andb].
      change (c_dq =? c_dq) with true. cbv iota. unfold bind.
      rewrite <- app_assoc. cbn [app].
      destruct (Rt (c_dq :: z) ltac:(apply nolc_cons; reflexivity) ltac:(reflexivity) Lf) as [_ L].
      unfold print_text, c_dq in L. rewrite L.
      rewrite skip_lc_nonbslash by reflexivity. change (c_dq =? c_dq) with true. reflexivity. }
    (* an unquoted unit, or a dollar-single-quoted string *)
    destruct (lex_tu inner f cx d (esc_of cx d) (c :: s1)) as [[[tu|] r1]| | | |] eqn:E1;
      try discriminate.
    assert (Hc : skip_lc (c :: s1) = c :: s1) by (rewrite <- Es; apply skip_lc_idem).
    (* the general shape of an unquoted unit *)
    assert (Gen : forall r0, ok_tu tu = true ->
              hd (skip_lc r0) = hd (skip_lc r1) ->
              (cx = CWord -> tu = Literal c_dollar -> hd (skip_lc r0) <> Some c_sq) ->
              (exists c0 t0 t', c :: s1 = c0 :: t0 /\ print_wu (Unquoted tu) = c0 :: t') /\
              fo_wu cx d (Unquoted tu) (hd (skip_lc r0)) /\
              (forall z, nolc z -> fo_wu cx d (Unquoted tu) (hd z) ->
                 nolc (print_wu (Unquoted tu) ++ z) /\
                 lex_wu inner (S (S (S f))) cx d (print_wu (Unquoted tu) ++ z) = Ok (Some (Unquoted tu), z))).
    { intros r0 Hk Hr0 Hq.
      destruct (Htu _ _ _ _ _ _ E1 Hk) as ((c0 & t0 & t' & Hs & Hp) & Bu & Ru).
      rewrite Hc in Hs. inv Hs.
      split; [eexists _, _, _; split; [reflexivity | exact Hp]|].
      split; [cbn [fo_wu]; rewrite Hr0; split; [exact Bu | rewrite <- Hr0; exact Hq]|].
      intros z Hz [Hf1 Hf2]. destruct (Ru z Hz Hf1) as [N1 L1].
      cbn [print_wu]. split; [exact N1|].
      rewrite lex_wu_eq. rewrite N1. rewrite Hp in L1 |- *. cbn [app] in L1 |- *.
      rewrite Esq, Edq. unfold bind. rewrite L1.
      destruct cx; [|reflexivity].
      destruct tu; try reflexivity.
      destruct (c =? c_dollar) eqn:Ed; [|reflexivity].
      apply N.eqb_eq in Ed. subst c.
      rewrite Hz. destruct z as [|c' z']; [reflexivity|].
      destruct (c' =? c_sq) eqn:Eq; [|reflexivity].
      exfalso. apply N.eqb_eq in Eq. subst c'. apply (Hf2 eq_refl eq_refl). reflexivity. }
    destruct cx.
    - destruct tu as [c0| | | | | |];
        try (inv H; cbn [ok_wu] in Hok; apply (Gen _ Hok eq_refl); intros _ X; discriminate).
      destruct (c0 =? c_dollar) eqn:Ed.
      + apply N.eqb_eq in Ed. subst c0.
        destruct (skip_lc r1) as [|c' r'] eqn:Er1.
        * inv H. apply (Gen [] eq_refl); [reflexivity|].
          intros _ _. cbn. discriminate.
        * destruct (c' =? c_sq) eqn:Eq.
          -- (* $'...' *)
             destruct (lex_escaped (S (len r')) r') as [[es r'']| | | |] eqn:Ee; try discriminate.
             inv H. apply N.eqb_eq in Eq. subst c'.
             destruct (Htu _ _ _ _ _ _ E1 eq_refl) as ((c0 & t0 & t' & Hs & Hp) & Bu & Ru).
             rewrite Hc in Hs. inv Hs. cbn [print_tu] in Hp. inv Hp.
             split; [eexists _, _, _; split; reflexivity|]. split; [exact I|].
             intros z Hz _. cbn [print_wu app]. rewrite <- app_assoc. cbn [app].
             split; [apply nolc_cons; reflexivity|].
             rewrite lex_wu_eq. rewrite skip_lc_nonbslash by reflexivity.
             change (36 =? c_sq) with false. change (36 =? c_dq) with false. cbn [andb].
             unfold bind.
             set (z0 := 39 :: cat_map print_eu es ++ 39 :: z).
             assert (Nz0 : nolc z0) by (apply nolc_cons; reflexivity).
             assert (Fz0 : fo_tu EAll (Literal c_dollar) (hd z0)).
             { unfold z0. cbn [fo_tu hd]. split; [intros _; reflexivity | intros X; discriminate X]. }
             destruct (Ru z0 Nz0 Fz0) as [_ L1]. cbn [print_tu app] in L1.
             change (c_dollar :: z0) with (36 :: z0) in L1. rewrite L1.
             change (c_dollar =? c_dollar) with true. cbv iota.
             rewrite Nz0. unfold z0. change (39 =? c_sq) with true. cbv iota.
             pose proof (lex_escaped_wf _ _ _ _ Ee) as W.
             pose proof (escaped_roundtrip_wf es W (S (len (cat_map print_eu es ++ 39 :: z))) z) as X.
             unfold c_sq in X. rewrite X.
             ++ reflexivity.
             ++ rewrite app_length. pose proof (cat_print_eu_len es). cbn [length]. lia.
          -- inv H.
             assert (Hn : skip_lc (c' :: r') = c' :: r') by (rewrite <- Er1; apply skip_lc_idem).
             apply (Gen (c' :: r') eq_refl).
             ++ rewrite Hn. reflexivity.
             ++ intros _ _. rewrite Hn. cbn [hd]. intros X. inv X.
                rewrite N.eqb_refl in Eq. discriminate.
      + inv H. cbn [ok_wu] in Hok. apply (Gen _ Hok eq_refl).
        intros _ X. inv X. rewrite N.eqb_refl in Ed. discriminate.
    - inv H. cbn [ok_wu] in Hok. apply (Gen _ Hok eq_refl). intros X. discriminate.
  Qed.

  (* nothing to lex: the word stops right away *)
  Lemma lex_wu_stop f cx d z :
    d <> DDQuote -> nolc z -> stops d z -> lex_wu inner (S (S f)) cx d z = Ok (None, z).
  Proof.
    intros Hd Hz Hs. rewrite lex_wu_eq, Hz. destruct z as [|c z']; [reflexivity|].
    cbn [stops] in Hs.
    assert (Hq : (c =? c_sq) && match cx with CWord => true | CText => false end = false).
    { destruct (c =? c_sq) eqn:X; [|reflexivity]. apply N.eqb_eq in X. subst.
      destruct d; cbn in Hs; discriminate. }
    assert (Hdq : (c =? c_dq) = false).
    { destruct (c =? c_dq) eqn:X; [|reflexivity]. apply N.eqb_eq in X. subst.
      destruct d; cbn in Hs; try discriminate. congruence. }
    rewrite Hq, Hdq. unfold bind. rewrite (lex_tu_stop f cx d _ (c :: z') Hz Hs). reflexivity.
  Qed.

  Lemma S_units_S f : S_all f -> S_units (S f).
  Proof.
    intros (Htu & Hdol & Hbr & Htx & Htwp & Hwu & Hun) cx d s w r H Hok Hdd.
    rewrite lex_units_eq in H. unfold bind in H.
    destruct (lex_wu inner f cx d s) as [[[u|] r1]| | | |] eqn:E1; try discriminate.
    - destruct (lex_units inner f cx d r1) as [[us r']| | | |] eqn:E2; try discriminate. inv H.
      unfold ok_word in Hok. cbn [forallb] in Hok. apply andb_prop in Hok. destruct Hok as [Hk1 Hk2].
      destruct (Hwu _ _ _ _ _ E1 Hk1) as ((c & x & y & Hs & Hp) & Bu & Ru).
      destruct (Hun _ _ _ _ _ E2 Hk2 Hdd) as (Nr & St & Lf & Hd & Rus).
      split; [exact Nr|]. split; [exact St|].
      assert (Bu' : us = [] -> fo_wu cx d u (hd r)).
      { intros ->. apply lex_units_nil in E2. subst r. exact Bu. }
      split.
      { unfold last_fo_word. rewrite last_opt_cons. destruct us as [|u2 us']; [apply Bu'; reflexivity|].
        exact Lf. }
      split.
      { intros _. exists c, x, (y ++ print_word us). split; [exact Hs|].
        unfold print_word. cbn [cat_map]. fold (print_word us). rewrite Hp. reflexivity. }
      intros z Hz Hsz Hl.
      assert (Hl2 : last_fo_word cx d us (hd z)).
      { unfold last_fo_word in *. rewrite last_opt_cons in Hl. destruct us; [exact I | exact Hl]. }
      destruct (Rus z Hz Hsz Hl2) as [N2 L2].
      assert (Hfu : fo_wu cx d u (hd (print_word us ++ z))).
      { destruct us as [|u2 us'].
        - cbn [print_word cat_map app]. unfold last_fo_word in Hl. cbn [last_opt] in Hl. exact Hl.
        - destruct (Hd ltac:(discriminate)) as (c2 & x2 & y2 & Hs2 & Hp2).
          rewrite Hp2. cbn [app hd]. rewrite Hs2 in Bu. exact Bu. }
      destruct (Ru _ N2 Hfu) as [N1 L1].
      unfold print_word in *. cbn [cat_map]. rewrite <- app_assoc. split; [exact N1|].
      rewrite lex_units_eq. unfold bind. rewrite L1, L2. reflexivity.
    - inv H. apply lex_wu_none in E1. destruct E1 as [-> St].
      split; [apply nolc_skip_lc|]. split; [exact St|]. split; [exact I|].
      split; [congruence|].
      intros z Hz Hsz _. cbn [print_word cat_map app]. split; [exact Hz|].
      rewrite lex_units_eq. unfold bind. rewrite (lex_wu_stop f cx d z Hdd Hz Hsz). reflexivity.
  Qed.

  Lemma lex_rt : forall f, S_all f.
  Proof.
    induction f as [|f IH]; [exact S_all_0|].
    unfold S_all.
    pose proof (S_tu_S f IH). pose proof (S_dollar_S f IH). pose proof (S_braced_S f IH).
    pose proof (S_text_S f IH). pose proof (S_twp_S f IH). pose proof (S_wu_S f IH).
    pose proof (S_units_S f IH). tauto.
  Qed.

  (* ---- the word-level round trip --------------------------------------------------------------- *)

  (* Lexing the printed form of a word the lexer produced, followed by any
     text [z] that does not extend the word, gives the same word and the rest
     [z]: [z] does not begin with a line continuation, it is empty or starts
     with a delimiter, and it is compatible with the last unit of the word
     (a trailing literal `$` is not followed by `(`; after a trailing
     unquoted backslash nothing follows). *)
  Theorem lex_units_print f cx d s w r :
    lex_units inner f cx d s = Ok (w, r) -> ok_word w = true -> d <> DDQuote ->
    forall z, nolc z -> stops d z -> last_fo_word cx d w (hd z) ->
    lex_units inner (S (S f)) cx d (print_word w ++ z) = Ok (w, z).
  Proof.
    intros H Hk Hd z Hz Hs Hl.
    destruct (lex_rt f) as (_ & _ & _ & _ & _ & _ & Hun).
    destruct (Hun _ _ _ _ _ H Hk Hd) as (_ & _ & _ & _ & Rt). apply Rt; assumption.
  Qed.

  (* the rest the lexer returned itself is such a text *)
  Theorem lex_units_print_same f cx d s w r :
    lex_units inner f cx d s = Ok (w, r) -> ok_word w = true -> d <> DDQuote ->
    lex_units inner (S (S f)) cx d (print_word w ++ r) = Ok (w, r).
  Proof.
    intros H Hk Hd.
    destruct (lex_rt f) as (_ & _ & _ & _ & _ & _ & Hun).
    destruct (Hun _ _ _ _ _ H Hk Hd) as (Nr & St & Lf & _ & Rt). apply Rt; assumption.
  Qed.

  (* with the tilde post-processing of the callers of [word] *)
  Corollary lex_word_print f cx d s w r :
    lex_units inner f cx d s = Ok (w, r) -> ok_word w = true -> d <> DDQuote ->
    forall z, nolc z -> stops d z -> last_fo_word cx d w (hd z) ->
    lex_units inner (S (S f)) cx d (print_word (tilde_front w) ++ z) = Ok (w, z).
  Proof. intros. rewrite print_tilde_front. eapply lex_units_print; eauto. Qed.
End Rt.

(* ---- known finding F14: the restriction [ok_word] cannot be dropped ----------------------- *)

From Yv Require Import C06.Parse.
From Coq Require Ascii String.
Import Coq.Strings.String.StringSyntax.

(* `$(('(' ) )` followed by `)`: the word is a command substitution, but the
   printed form followed by a closing parenthesis is read as an arithmetic
   expansion *)
Lemma lex_units_print_refuted_witness :
  let inner := p_inner 200 in
  let s := lit "$(('(' ) ) " in
  let z := lit ")" in
  exists w r,
    lex_units inner 200 CWord DToken s = Ok (w, r) /\ ok_word w = false /\
    nolc z /\ stops DToken z /\ last_fo_word CWord DToken w (hd z) /\
    lex_units inner 202 CWord DToken (print_word w ++ z) <> Ok (w, z).
Proof.
  cbv zeta. eexists _, _. split; [vm_compute; reflexivity|].
  split; [vm_compute; reflexivity|]. split; [reflexivity|]. split; [reflexivity|].
  split; [vm_compute; split; [exact I | intros _ X; discriminate X]|]. vm_compute. discriminate.
Qed.
