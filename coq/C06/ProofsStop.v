(* C06 — proofs, part 3: where the lexer stops (the rest is empty or starts
   with a delimiter) and the absence of the one modelled panic site
   (`unreachable!()` in arith.rs). *)
From Yv Require Import Common.Base C06.Ast C06.Print C06.Lex C06.SpecLex C06.LexEq C06.Parse C06.ProofsLen.
Local Open Scope N_scope.


Lemma skip_lc_cons_not_lc c s s' :
  skip_lc s = c :: s' -> skip_lc (c :: s') = c :: s'.
Proof. intros H. rewrite <- H. apply skip_lc_idem. Qed.

Lemma skip_lc_nonbslash c s : (c =? c_bslash) = false -> skip_lc (c :: s) = c :: s.
Proof.
  intros H. destruct s as [|c2 s]; [reflexivity|]. cbn [skip_lc]. rewrite H. reflexivity.
Qed.

Section LexStop.
  Variable inner : str -> res (str * str).

  Lemma lex_tu_none f cx d e s r :
    lex_tu inner f cx d e s = Ok (None, r) -> r = skip_lc s /\ stops d r.
  Proof.
    destruct f as [|f]; [discriminate|]. rewrite lex_tu_eq. unfold bind. intros H.
    dmall; clean; try discriminate; cbn [stops]; auto.
  Qed.

  Lemma lex_text_stops f d e s t r :
    lex_text inner f d e s = Ok (t, r) -> stops d r.
  Proof.
    revert s t r. induction f as [|f IH]; intros s t r H; [discriminate|].
    rewrite lex_text_eq in H. unfold bind in H. dmall; clean.
    - eapply IH; eauto.
    - eapply lex_tu_none; eauto.
  Qed.

  Lemma lex_wu_none f cx d s r :
    lex_wu inner f cx d s = Ok (None, r) -> r = skip_lc s /\ stops d r.
  Proof.
    destruct f as [|f]; [discriminate|]. rewrite lex_wu_eq. unfold bind. intros H.
    dmall; clean; try discriminate; cbn [stops]; auto.
    all: match goal with E : lex_tu _ _ _ _ _ _ = Ok (None, _) |- _ =>
           apply lex_tu_none in E; destruct E as [E1 E2] end.
    all: match goal with E : skip_lc _ = _ :: _ |- _ =>
           rewrite (skip_lc_cons_not_lc _ _ _ E) in E1 end.
    all: subst; auto.
  Qed.

  Lemma lex_units_stops f cx d s w r :
    lex_units inner f cx d s = Ok (w, r) -> stops d r.
  Proof.
    revert s w r. induction f as [|f IH]; intros s w r H; [discriminate|].
    rewrite lex_units_eq in H. unfold bind in H. dmall; clean.
    - eapply IH; eauto.
    - eapply lex_wu_none; eauto.
  Qed.

  (* text_with_parentheses stops at the end or before a closing parenthesis *)
  Lemma lex_twp_stops f depth s t r :
    lex_twp inner f depth s = Ok (t, r) -> r = [] \/ exists r', r = c_rparen :: r'.
  Proof.
    revert depth s t r. induction f as [|f IH]; intros depth s t r H; [discriminate|].
    rewrite lex_twp_eq in H. unfold bind in H.
    destruct (lex_text inner f DParen EArith s) as [[us r0]| | | |] eqn:E; try discriminate.
    pose proof (lex_text_stops _ _ _ _ _ _ E) as St.
    destruct r0 as [|c0 r0'].
    - cbn [skip_lc] in H. destruct depth; [inv H; auto | discriminate].
    - cbn [stops is_delim] in St.
      assert (Hc : (c0 =? c_bslash) = false).
      { apply Bool.orb_true_iff in St. unfold c_lparen, c_rparen, c_bslash in *.
        destruct St as [St|St]; apply N.eqb_eq in St; subst; reflexivity. }
      rewrite (skip_lc_nonbslash _ _ Hc) in H.
      destruct (c0 =? c_lparen) eqn:E1.
      + destruct (lex_twp inner f (S depth) r0') as [[vs r2]| | | |] eqn:E2; try discriminate.
        inv H. eapply IH; eauto.
      + cbn [orb] in St. apply N.eqb_eq in St. subst c0.
        destruct depth as [|dep].
        * inv H. right. eauto.
        * rewrite N.eqb_refl in H.
          destruct (lex_twp inner f dep r0') as [[vs r2]| | | |] eqn:E2; try discriminate.
          inv H. eapply IH; eauto.
  Qed.

  (* ---- no panic ------------------------------------------------------------------- *)
  Hypothesis inner_nopanic : forall s, inner s <> Panic.

  Lemma lex_bq_nopanic f cx s : lex_bq f cx s <> Panic.
  Proof.
    revert s. induction f as [|f IH]; intros s; cbn [lex_bq]; [discriminate|].
    unfold bind. intros H. dmall; clean; try discriminate;
      match goal with E : lex_bq _ _ _ = Panic |- _ => apply IH in E; exact E end.
  Qed.

  Lemma lex_single_quote_nopanic s : lex_single_quote s <> Panic.
  Proof.
    induction s as [|c s IH]; cbn [lex_single_quote]; [discriminate|].
    destruct (c =? c_sq); [discriminate|]. unfold bind.
    destruct (lex_single_quote s) as [[? ?]| | | |]; congruence.
  Qed.

  Lemma lex_escape_nopanic c2 s : lex_escape c2 s <> Panic.
  Proof. unfold lex_escape. repeat (dmg; try discriminate). Qed.

  Lemma lex_escaped_nopanic f s : lex_escaped f s <> Panic.
  Proof.
    revert s. induction f as [|f IH]; intros s; cbn [lex_escaped]; [discriminate|].
    unfold bind. intros H. dmall; clean; try discriminate.
    all: try match goal with E : lex_escaped _ _ = Panic |- _ => apply IH in E; exact E end.
    all: match goal with E : lex_escape _ _ = Panic |- _ => apply lex_escape_nopanic in E; exact E end.
  Qed.

  Definition N_all (f : nat) :=
    (forall cx d e s, lex_tu inner f cx d e s <> Panic) /\
    (forall cx s, lex_dollar inner f cx s <> Panic) /\
    (forall cx s, lex_braced inner f cx s <> Panic) /\
    (forall d e s, lex_text inner f d e s <> Panic) /\
    (forall depth s, lex_twp inner f depth s <> Panic) /\
    (forall cx d s, lex_wu inner f cx d s <> Panic) /\
    (forall cx d s, lex_units inner f cx d s <> Panic).

  Ltac paniccontra :=
    match goal with
    | H : lex_bq _ _ _ = Panic |- _ => apply lex_bq_nopanic in H; exact H
    | H : lex_escaped _ _ = Panic |- _ => apply lex_escaped_nopanic in H; exact H
    | H : lex_single_quote _ = Panic |- _ => apply lex_single_quote_nopanic in H; exact H
    | H : inner _ = Panic |- _ => apply inner_nopanic in H; exact H
    | H : _ = Panic |- _ =>
        match goal with
        | IH : forall _, _ |- _ => apply IH in H; exact H
        end
    end.

  Ltac panicstep eqn :=
    intros Hp; revert Hp; rewrite eqn; unfold lex_param, lex_suffix, bind; cbv zeta; intros Hp;
    dmall; clean; try discriminate; try paniccontra.

  Lemma lex_nopanic : forall f, N_all f.
  Proof.
    induction f as [|f (Htu & Hdol & Hbr & Htx & Htwp & Hwu & Hun)].
    { repeat split; intros; discriminate. }
    repeat split.
    - intros cx d e s. panicstep lex_tu_eq.
    - intros cx s. panicstep lex_dollar_eq.
      (* the unreachable!() of arith.rs *)
      match goal with E : lex_twp _ _ _ _ = Ok (_, _) |- _ => apply lex_twp_stops in E; rename E into St end.
      destruct St as [->|[r' ->]]; [discriminate|].
      match goal with E : skip_lc (c_rparen :: _) = _ |- _ =>
        rewrite skip_lc_nonbslash in E by reflexivity; inv E end.
      discriminate.
    - intros cx s. panicstep lex_braced_eq.
    - intros d e s. panicstep lex_text_eq.
    - intros depth s. panicstep lex_twp_eq.
    - intros cx d s. panicstep lex_wu_eq.
    - intros cx d s. panicstep lex_units_eq.
  Qed.
End LexStop.
