(* C06 — proofs, part 15: a redirection is read back from its printed form
   (file-descriptor number, operator and operand are printed without blanks
   between them). *)
From Yv Require Import Common.Base C06.Ast C06.Print C06.Lex C06.LexEq C06.Parse C06.Spec
  C06.ProofsLen C06.ProofsStop C06.ProofsTilde C06.ProofsNum C06.ProofsRtBase C06.ProofsRt
  C06.ProofsMono C06.ProofsOp C06.ProofsToken.
Local Open Scope N_scope.

(* ---- decimal numbers ------------------------------------------------------------------ *)

Lemma dec_value_digits acc ds :
  Forall (fun d => d < 10) ds ->
  dec_value acc (map (digit_char false) ds) = Some (be_val 10 acc ds).
Proof.
  revert acc. induction ds as [|d ds IH]; intros acc H; cbn [map dec_value be_val]; [reflexivity|].
  pose proof (Forall_inv H) as Hd. cbn beta in Hd.
  assert (E : is_digit (digit_char false d) = true /\ digit_char false d - 48 = d).
  { clear - Hd. revert d Hd. refine (N_lt_cases _ 10%nat _). intros i Hi.
    do 10 (destruct i as [|i]; [split; reflexivity|]). lia. }
  destruct E as [E1 E2]. rewrite E1, E2. apply IH. exact (Forall_inv_tail H).
Qed.

Lemma fmt_dec_digits v :
  v < 10 ^ 64 ->
  exists ds, fmt_dec v = map (digit_char false) ds /\ Forall (fun d => d < 10) ds /\
             be_val 10 0 ds = v /\ ds <> [].
Proof.
  intros Hv. unfold fmt_dec, fmt_num, pad_left. rewrite digits_rev_dig, <- map_rev.
  destruct (dig_spec 64 10 v ltac:(lia) Hv) as [D1 D2].
  exists (rev (dig 64 10 v)). cbn [Nat.sub repeat app].
  repeat split.
  - apply Forall_rev. exact D2.
  - rewrite be_val_rev. exact D1.
  - cbn [dig]. intros X. apply (f_equal (@rev N)) in X. rewrite rev_involutive in X.
    cbn [rev] in X. discriminate.
Qed.

Lemma dec_value_fmt_dec v : v < 10 ^ 64 -> dec_value 0 (fmt_dec v) = Some v.
Proof.
  intros Hv. destruct (fmt_dec_digits v Hv) as (ds & E & F & V & _).
  rewrite E, (dec_value_digits 0 ds F), V. reflexivity.
Qed.

Lemma fmt_dec_all_digits v : v < 10 ^ 64 -> forallb is_digit (fmt_dec v) = true.
Proof.
  intros Hv. destruct (fmt_dec_digits v Hv) as (ds & E & F & _ & _). rewrite E.
  clear E. induction ds as [|d ds IH]; [reflexivity|]. cbn [map forallb].
  pose proof (Forall_inv F) as Hd. cbn beta in Hd.
  assert (E1 : is_digit (digit_char false d) = true).
  { clear - Hd. revert d Hd. refine (N_lt_cases _ 10%nat _). intros i Hi.
    do 10 (destruct i as [|i]; [reflexivity|]). lia. }
  rewrite E1. apply IH. exact (Forall_inv_tail F).
Qed.

(* ---- plain characters --------------------------------------------------------------------- *)

Definition plain_char (c : N) : bool :=
  negb ((c =? c_bslash) || (c =? c_dollar) || (c =? c_bq) || (c =? c_sq) || (c =? c_dq)
        || is_token_delimiter_char c).

Lemma lex_units_plain inner cs z f :
  forallb plain_char cs = true -> nolc z -> stops DToken z -> (length cs + 3 <= f)%nat ->
  lex_units inner f CWord DToken (cs ++ z) = Ok (wlits cs, z).
Proof.
  revert f. induction cs as [|c cs IH]; intros f Hp Hz Hs Hf.
  - destruct f as [|[|[|f]]]; try (cbn in Hf; lia). cbn [app wlits map].
    rewrite lex_units_eq. unfold bind.
    rewrite (lex_wu_stop inner f CWord DToken z ltac:(discriminate) Hz Hs). reflexivity.
  - destruct f as [|[|[|f]]]; try (cbn in Hf; lia). cbn [forallb] in Hp. apply andb_prop in Hp.
    destruct Hp as [Hc Hp]. unfold plain_char in Hc. apply Bool.negb_true_iff in Hc.
    repeat (apply Bool.orb_false_iff in Hc; destruct Hc as [Hc ?]).
    cbn [app wlits map]. rewrite lex_units_eq. unfold bind.
    rewrite lex_wu_eq. rewrite (skip_lc_nonbslash _ _ Hc).
    match goal with H : (c =? c_sq) = false |- _ => rewrite H end. cbn [andb].
    match goal with H : (c =? c_dq) = false |- _ => rewrite H end. unfold bind.
    rewrite lex_tu_eq. rewrite (skip_lc_nonbslash _ _ Hc). rewrite Hc.
    match goal with H : (c =? c_dollar) = false |- _ => rewrite H end.
    match goal with H : (c =? c_bq) = false |- _ => rewrite H end.
    cbn [is_delim].
    match goal with H : is_token_delimiter_char c = false |- _ => rewrite H end.
    match goal with H : (c =? c_dollar) = false |- _ => rewrite H end.
    rewrite (IH (S (S f)) Hp Hz Hs ltac:(cbn [length] in Hf; lia)). reflexivity.
Qed.

Lemma digit_plain c : is_digit c = true -> plain_char c = true.
Proof.
  unfold is_digit, in_range. intros H. apply andb_prop in H. destruct H as [A B].
  apply N.leb_le in A, B.
  assert (X : c = 48 \/ c = 49 \/ c = 50 \/ c = 51 \/ c = 52 \/ c = 53 \/ c = 54 \/ c = 55 \/
              c = 56 \/ c = 57) by lia.
  repeat (destruct X as [X|X]; [subst; reflexivity|]). subst. reflexivity.
Qed.

Lemma forallb_impl {A} (p q : A -> bool) l :
  (forall x, p x = true -> q x = true) -> forallb p l = true -> forallb q l = true.
Proof.
  intros H. induction l as [|x l IH]; [reflexivity|]. cbn [forallb]. intros X.
  apply andb_prop in X. destruct X as [X1 X2]. rewrite (H _ X1), (IH X2). reflexivity.
Qed.

Lemma word_literal_wlits cs : word_literal (wlits cs) = Some cs.
Proof.
  induction cs as [|c cs IH]; [reflexivity|]. unfold wlits in *. cbn [map word_literal].
  rewrite IH. reflexivity.
Qed.

Lemma tilde_front_wlits_digit c cs :
  is_digit c = true -> tilde_front (wlits (c :: cs)) = wlits (c :: cs).
Proof.
  intros H. unfold tilde_front, parse_tilde. cbn [wlits map].
  destruct (c =? c_tilde) eqn:E; [|reflexivity]. apply N.eqb_eq in E. subst. discriminate.
Qed.

Lemma digit_cases c : is_digit c = true ->
  c = 48 \/ c = 49 \/ c = 50 \/ c = 51 \/ c = 52 \/ c = 53 \/ c = 54 \/ c = 55 \/ c = 56 \/ c = 57.
Proof.
  unfold is_digit, in_range. intros H. apply andb_prop in H. destruct H as [A B].
  apply N.leb_le in A, B. lia.
Qed.

Lemma keyword_of_digits cs : cs <> [] -> forallb is_digit cs = true -> keyword_of cs = None.
Proof.
  intros Hne H. destruct cs as [|c cs]; [congruence|]. cbn [forallb] in H. apply andb_prop in H.
  destruct H as [Hc _]. apply digit_cases in Hc.
  repeat (destruct Hc as [Hc|Hc]; [subst c; reflexivity|]). subst c. reflexivity.
Qed.

(* ---- the file-descriptor number ------------------------------------------------------------ *)

Lemma fmt_dec_head v : v < 10 ^ 64 -> exists c t, fmt_dec v = c :: t /\ is_digit c = true.
Proof.
  intros Hv. pose proof (fmt_dec_all_digits v Hv) as A.
  destruct (fmt_dec_digits v Hv) as (ds & E & _ & _ & Hne).
  destruct (fmt_dec v) as [|c t] eqn:Ef.
  - destruct ds; [congruence | discriminate].
  - cbn [forallb] in A. apply andb_prop in A. destruct A as [A _]. eauto.
Qed.

Lemma io_number_token inner v z f :
  v < 10 ^ 64 -> nolc z -> peek_is_redir z = true -> (length (fmt_dec v) + 3 <= f)%nat ->
  lex_token inner f (fmt_dec v ++ z)
  = Ok (mkToken (wlits (fmt_dec v)) TIoNumber (fmt_dec v ++ z), z).
Proof.
  intros Hv Hz Hp Hf.
  destruct (fmt_dec_head v Hv) as (c & t & Ef & Hc).
  pose proof (fmt_dec_all_digits v Hv) as Hall.
  assert (Hs : stops DToken z).
  { unfold peek_is_redir in Hp. rewrite Hz in Hp. destruct z as [|c0 z0]; [discriminate|].
    cbn [stops is_delim]. unfold is_token_delimiter_char, is_operator_char.
    apply Bool.orb_true_iff in Hp. destruct Hp as [X|X]; apply N.eqb_eq in X; subst; reflexivity. }
  assert (Nc : nolc (fmt_dec v ++ z)).
  { rewrite Ef. cbn [app]. apply nolc_cons. apply digit_cases in Hc.
    repeat (destruct Hc as [Hc|Hc]; [subst; reflexivity|]). subst. reflexivity. }
  unfold lex_token.
  assert (Eb : skip_blanks_and_comment (fmt_dec v ++ z) = fmt_dec v ++ z).
  { rewrite Ef in Nc |- *. cbn [app] in *. apply skip_blanks_and_comment_id; [exact Nc| |];
      apply digit_cases in Hc;
      repeat (destruct Hc as [Hc|Hc]; [subst; reflexivity|]); subst; reflexivity. }
  rewrite Eb.
  assert (Eo : lex_operator (fmt_dec v ++ z) = None).
  { unfold lex_operator. rewrite Nc, Ef. cbn [app]. apply digit_cases in Hc.
    repeat (destruct Hc as [Hc|Hc]; [subst; reflexivity|]). subst. reflexivity. }
  rewrite Eo. unfold bind.
  rewrite (lex_units_plain inner (fmt_dec v) z f
             (forallb_impl _ _ _ digit_plain Hall) Hz Hs Hf).
  assert (Et : tilde_front (wlits (fmt_dec v)) = wlits (fmt_dec v)).
  { rewrite Ef. apply tilde_front_wlits_digit. exact Hc. }
  rewrite Et. f_equal. f_equal. f_equal.
  assert (Ew : exists u us, wlits (fmt_dec v) = u :: us).
  { rewrite Ef. cbn [wlits map]. eauto. }
  destruct Ew as (u & us & Ew).
  unfold token_id_of. rewrite Ew. rewrite <- Ew.
  rewrite word_literal_wlits.
  rewrite keyword_of_digits; [| rewrite Ef; discriminate | exact Hall].
  rewrite Hall, Hp. reflexivity.
Qed.

Lemma fd_of_word_fmt v :
  v <= 2147483647 -> fd_of_word (wlits (fmt_dec v)) = Some (Z.of_N v).
Proof.
  intros Hv. unfold fd_of_word. rewrite word_literal_wlits.
  assert (Hv' : v < 10 ^ 64).
  { apply N.le_lt_trans with 2147483647; [exact Hv | vm_compute; reflexivity]. }
  rewrite (dec_value_fmt_dec v Hv').
  apply N.leb_le in Hv. rewrite Hv. reflexivity.
Qed.

(* the number the first run read *)
Lemma fd_of_word_range w fd : fd_of_word w = Some fd -> exists v, fd = Z.of_N v /\ v <= 2147483647.
Proof.
  unfold fd_of_word. destruct (word_literal w); [|discriminate].
  destruct (dec_value 0 s) as [v|]; [|discriminate].
  destruct (v <=? 2147483647) eqn:E; [|discriminate]. intros H. inv H.
  apply N.leb_le in E. eauto.
Qed.

Lemma fmt_z_of_N v : fmt_z (Z.of_N v) = fmt_dec v.
Proof. destruct v; reflexivity. Qed.

(* ---- a whole redirection --------------------------------------------------------------------- *)

Lemma redir_op_first o rop :
  redir_op_of o = Some rop ->
  print_op o = print_rop rop /\
  exists c t, print_rop rop = c :: t /\ ((c =? 60) || (c =? 62) = true).
Proof.
  destruct o; cbn [redir_op_of]; intros H; inv H; (split; [reflexivity|]);
    eexists _, _; split; reflexivity.
Qed.

(* the first character of a word token is not an operator character *)
Lemma lex_operator_none_head c t :
  nolc (c :: t) -> lex_operator (c :: t) = None -> is_operator_char c = false.
Proof.
  unfold lex_operator. intros N H. rewrite N in H. unfold is_operator_char.
  repeat (dmh H; try discriminate).
  repeat match goal with E : (c =? _) = false |- _ => rewrite E; clear E end. reflexivity.
Qed.

Lemma op_ext_operator_chars o rop c :
  redir_op_of o = Some rop -> is_operator_char c = false -> existsb (N.eqb c) (op_ext o) = false.
Proof.
  intros Ho Hc. unfold is_operator_char in Hc.
  repeat (apply Bool.orb_false_iff in Hc; destruct Hc as [Hc ?]).
  destruct o; cbn [redir_op_of] in Ho; inv Ho; cbn [op_ext existsb];
    repeat match goal with H : (c =? _) = false |- _ => rewrite H; clear H end; reflexivity.
Qed.

Lemma fmt_dec_short v : v <= 2147483647 -> (length (fmt_dec v) <= 10)%nat.
Proof.
  intros Hv. unfold fmt_dec, fmt_num, pad_left. rewrite digits_rev_dig.
  cbn [Nat.sub repeat app]. rewrite rev_length, map_length.
  apply (dig_length 64 10 v 10); [lia | | lia].
  apply N.le_lt_trans with 2147483647; [exact Hv | vm_compute; reflexivity].
Qed.

Lemma ext_refl {A B} (i : A -> res B) : ext i i.
Proof. intros s R H _. exact H. Qed.

Lemma token_id_of_word w z :
  w <> [] ->
  match token_id_of w z with TToken _ | TIoNumber | TIoLocation => True | _ => False end.
Proof.
  intros Hw. unfold token_id_of. destruct w as [|u us]; [congruence|].
  destruct (word_literal (u :: us)) as [l|].
  - destruct (keyword_of l); [exact I|].
    destruct (forallb is_digit l && peek_is_redir z); [exact I|].
    match goal with |- context [if ?b then _ else _] => destruct b end; exact I.
  - match goal with |- context [if ?b then _ else _] => destruct b end; exact I.
Qed.

Section RedirRt.
  Variable inner : str -> res (str * str).
  Hypothesis inner_rt : forall s content r0 r0',
    inner s = Ok (content, r0) -> skip_lc r0 = c_rparen :: r0' ->
    forall z, inner (content ++ c_rparen :: z) = Ok (content, c_rparen :: z).

  (* an operator token in front of a word *)
  Lemma operator_token f op rop x c y :
    redir_op_of op = Some rop -> x = c :: y -> nolc x -> is_operator_char c = false ->
    lex_token inner f (print_rop rop ++ x) = Ok (mkToken [] (TOp op) (print_rop rop ++ x), x).
  Proof.
    intros Ho Ex Nx Hc. destruct (redir_op_first _ _ Ho) as (Ep & c0 & t0 & E0 & Hc0).
    unfold lex_token.
    assert (N0 : nolc (print_rop rop ++ x)).
    { rewrite E0. cbn [app]. apply nolc_cons.
      apply Bool.orb_true_iff in Hc0. destruct Hc0 as [X|X]; apply N.eqb_eq in X; subst; reflexivity. }
    assert (Eb : skip_blanks_and_comment (print_rop rop ++ x) = print_rop rop ++ x).
    { rewrite E0 in N0 |- *. cbn [app] in *. apply skip_blanks_and_comment_id; [exact N0 | |];
        apply Bool.orb_true_iff in Hc0; destruct Hc0 as [X|X]; apply N.eqb_eq in X; subst; reflexivity. }
    rewrite Eb, <- Ep.
    rewrite (lex_operator_print_lemma op x Nx); [reflexivity|].
    rewrite Ex. cbn [hd op_follow_ok]. eapply op_ext_operator_chars; eauto.
  Qed.

  (* A redirection with a normal operator (here-documents are outside the
     model): the operand is a word token of the first run; [w0] are its units
     before the tilde post-processing. *)
  Theorem p_redir_print_lemma f s rd r :
    p_redir (lex_token inner f) s = Ok (Some rd, r) ->
    exists rop w0,
      r_body rd = RNormal rop (tilde_front w0) /\
      (ok_word w0 = true ->
       forall z f', nolc z -> stops DToken z -> last_fo_word CWord DToken w0 (hd z) ->
         (S (S f) <= f')%nat -> (13 <= f')%nat ->
         p_redir (lex_token inner f') (print_redir rd ++ z) = Ok (Some rd, z)).
  Proof.
    unfold p_redir at 1. unfold bind. intros H.
    destruct (lex_token inner f s) as [[t s1]| | | |] eqn:E1; try discriminate.
    (* the file-descriptor part *)
    assert (Hfd : exists fdo s2,
               (match t_id t with
                | TIoNumber => match fd_of_word (t_word t) with
                               | Some fd => Ok (Some fd, s1)
                               | None => Err
                               end
                | TIoLocation => Err
                | _ => Ok (None, s)
                end = Ok (fdo, s2)) /\
               (forall fd, fdo = Some fd -> exists v, fd = Z.of_N v /\ v <= 2147483647)).
    { destruct (t_id t); try (eexists _, _; split; [reflexivity | intros ? X; discriminate]);
        try discriminate.
      destruct (fd_of_word (t_word t)) as [fd|] eqn:Ef; [|discriminate].
      eexists _, _. split; [reflexivity|]. intros fd' X. inv X. eapply fd_of_word_range; eauto. }
    destruct Hfd as (fdo & s2 & Hfd & Hrange). rewrite Hfd in H.
    destruct (lex_token inner f s2) as [[t' s3]| | | |] eqn:E2; try discriminate.
    destruct (t_id t') as [| op | | |] eqn:Eid; try discriminate.
    destruct (redir_op_of op) as [rop|] eqn:Erop.
    2:{ destruct op; try discriminate. }
    destruct (lex_token inner f s3) as [[o s4]| | | |] eqn:E3; try discriminate.
    assert (Hoid : t_word o <> []).
    { unfold lex_token, bind in E3.
      destruct (lex_operator (skip_blanks_and_comment s3)) as [[op' r']|]; [inv E3; cbn in H; discriminate|].
      destruct (lex_units inner f CWord DToken (skip_blanks_and_comment s3)) as [[w r']| | | |];
        try discriminate.
      inv E3. cbn [t_id t_word] in *. intros X. rewrite X in H. cbn in H. discriminate. }
    assert (Hres : rd = mkRedir fdo (RNormal rop (t_word o)) /\ r = s4).
    { destruct (t_id o); inv H; auto. }
    destruct Hres as [-> ->]. clear H.
    destruct (lex_token_word _ _ _ _ _ E3 Hoid) as (w0 & Ew0 & Hw0 & Eu0 & _).
    exists rop, w0. cbn [r_body]. split; [rewrite Ew0; reflexivity|].
    intros Hk z f' Hz Hs Hl Hf1 Hf2.
    (* the operand, read back *)
    pose proof (lex_token_print_w inner inner_rt _ _ _ _ _ E3 Ew0 Hw0 Eu0 Hk z Hz Hs Hl) as Rt.
    apply (lex_token_mono inner inner _ f' _ _ (ext_refl inner) Hf1) in Rt; [|discriminate].
    destruct (lex_token_head inner inner_rt _ _ _ _ _ E3 Ew0 Hw0 Eu0 Hk) as (c & y & Hp & Hc & Hb & Hh).
    assert (Nx : nolc (print_word (t_word o) ++ z)).
    { destruct (lex_rt inner inner_rt f) as (_ & _ & _ & _ & _ & _ & Hun).
      destruct (Hun _ _ _ _ _ Eu0 Hk ltac:(discriminate)) as (_ & _ & _ & _ & RtU).
      destruct (RtU z Hz Hs Hl) as [N1 _]. rewrite Ew0, print_tilde_front. exact N1. }
    (* the operator, read back *)
    pose proof (operator_token f' op rop (print_word (t_word o) ++ z) c (y ++ z) Erop
                  ltac:(rewrite Hp; reflexivity) Nx Hc) as Ro.
    assert (Hido : match token_id_of (t_word o) z with
                   | TToken _ | TIoNumber | TIoLocation => True
                   | _ => False
                   end).
    { apply token_id_of_word. exact Hoid. }
    unfold print_redir. cbn [r_fd r_body print_rbody].
    destruct fdo as [fd|].
    - (* with a file-descriptor number *)
      destruct (Hrange fd eq_refl) as (v & -> & Hv).
      rewrite fmt_z_of_N. rewrite <- !app_assoc.
      unfold p_redir, bind.
      destruct (redir_op_first _ _ Erop) as (_ & c0 & t0 & E0 & Hc0).
      assert (Nz' : nolc (print_rop rop ++ print_word (t_word o) ++ z)).
      { rewrite E0. cbn [app]. apply nolc_cons.
        apply Bool.orb_true_iff in Hc0. destruct Hc0 as [X|X]; apply N.eqb_eq in X; subst; reflexivity. }
      assert (Pz' : peek_is_redir (print_rop rop ++ print_word (t_word o) ++ z) = true).
      { unfold peek_is_redir. rewrite Nz', E0. cbn [app]. exact Hc0. }
      assert (Hv' : v < 10 ^ 64).
      { apply N.le_lt_trans with 2147483647; [exact Hv | vm_compute; reflexivity]. }
      rewrite (io_number_token inner v _ f' Hv' Nz' Pz'
                 ltac:(pose proof (fmt_dec_short v Hv); lia)).
      cbn [t_id t_word]. rewrite (fd_of_word_fmt v Hv).
      rewrite Ro. cbn [t_id]. rewrite Erop. rewrite Rt. cbn [t_id t_word].
      destruct (token_id_of (t_word o) z); try contradiction; reflexivity.
    - (* without *)
      cbn [app]. rewrite <- app_assoc. unfold p_redir, bind.
      rewrite Ro. cbn [t_id]. rewrite Ro. cbn [t_id]. rewrite Erop. rewrite Rt. cbn [t_id t_word].
      destruct (token_id_of (t_word o) z); try contradiction; reflexivity.
  Qed.
End RedirRt.
