(* C06 — one-step unfolding equations of the mutually recursive lexer (generated from
   Lex.v by copying the bodies; each is proved by reflexivity). *)
From Yv Require Import Common.Base C06.Ast C06.Lex.
Local Open Scope N_scope.

Section LexEq.
  Variable inner : str -> res (str * str).

  Lemma lex_tu_eq (f : nat) (cx : ctx) (d : delim) (e : esc) (s : str) :
    lex_tu inner (S f) cx d e s =

        match skip_lc s with
        | [] => Ok (None, [])
        | c :: s1 =>
            if c =? c_bslash then
              
              match s1 with
              | c2 :: s2 => if is_esc e c2 then Ok (Some (Backslashed c2), s2)
                            else Ok (Some (Literal c_bslash), s1)
              | [] => Ok (Some (Literal c_bslash), [])
              end
            else if c =? c_dollar then
              let* (o, r) := lex_dollar inner f cx s1 in
              match o with
              | Some u => Ok (Some u, r)
              | None => if is_delim d c then Ok (None, c :: s1) else Ok (Some (Literal c), s1)
              end
            else if c =? c_bq then
              let* (us, r) := lex_bq f cx s1 in
              match r with
              | _ :: r' => Ok (Some (Backquote us), r')    
              | [] => Err
              end
            else if is_delim d c then Ok (None, c :: s1)
            else Ok (Some (Literal c), s1)
        end.
  Proof. reflexivity. Qed.

  Lemma lex_dollar_eq (f : nat) (cx : ctx) (s : str) :
    lex_dollar inner (S f) cx s =

        match skip_lc s with
        | [] => Ok (None, [])
        | c :: s1 =>
            match special_of_char c with
            | Some sp => Ok (Some (RawParam (mkParam [c] (PtSpecial sp))), s1)
            | None =>
                if is_digit c then Ok (Some (RawParam (mkParam [c] (PtPositional (c - 48)))), s1)
                else if is_name_char c then
                  let (n, r) := lex_name (length s1) s1 in
                  Ok (Some (RawParam (mkParam (c :: n) PtVariable)), r)
                else if c =? c_lbrace then
                  let* (u, r) := lex_braced inner f cx s1 in Ok (Some u, r)
                else if c =? c_lparen then
                  let cmdsubst :=
                    let* (content, r) := inner s1 in
                    match skip_lc r with
                    | c' :: r' => if c' =? c_rparen then Ok (Some (CommandSubst content), r')
                                  else Err
                    | [] => Err
                    end in
                  match skip_lc s1 with
                  | c' :: s2 =>
                      if c' =? c_lparen then
                        
                        let* (content, r) := lex_twp inner f O s2 in
                        match skip_lc r with
                        | [] => Err
                        | c1 :: r1 =>
                            if c1 =? c_rparen then
                              match skip_lc r1 with
                              | [] => Err
                              | c2 :: r2 => if c2 =? c_rparen then Ok (Some (Arith content), r2)
                                            else cmdsubst
                              end
                            else Panic                       
                        end
                      else cmdsubst
                  | [] => cmdsubst
                  end
                else Ok (None, c :: s1)
            end
        end.
  Proof. reflexivity. Qed.

  Lemma lex_braced_eq (f : nat) (cx : ctx) (s : str) :
    lex_braced inner (S f) cx s =

        let pre := has_length_prefix s in
        let s0 := if pre then match skip_lc s with _ :: t => t | [] => [] end else s in
        let* (p, r) := lex_param s0 in
        let* (m, r2) := lex_suffix (fun cx' s' => lex_units inner f cx' DBrace s') cx r in
        match skip_lc r2 with
        | c' :: r3 =>
            if c' =? c_rbrace then
              match pre, m with
              | true, MNone => Ok (BracedParam p MLength, r3)
              | true, _ => Err                              
              | false, _ => Ok (BracedParam p m, r3)
              end
            else Err                                        
        | [] => Err
        end.
  Proof. reflexivity. Qed.

  Lemma lex_text_eq (f : nat) (d : delim) (e : esc) (s : str) :
    lex_text inner (S f) d e s =

        let* (o, r) := lex_tu inner f CText d e s in
        match o with
        | None => Ok ([], r)
        | Some u => let* (us, r') := lex_text inner f d e r in Ok (u :: us, r')
        end.
  Proof. reflexivity. Qed.

  Lemma lex_twp_eq (f : nat) (depth : nat) (s : str) :
    lex_twp inner (S f) depth s =

        let* (us, r) := lex_text inner f DParen EArith s in
        match skip_lc r with
        | c :: r1 =>
            if c =? c_lparen then
              let* (vs, r2) := lex_twp inner f (S depth) r1 in Ok (us ++ Literal c_lparen :: vs, r2)
            else
              match depth with
              | O => Ok (us, c :: r1)
              | S dep =>
                  if c =? c_rparen then
                    let* (vs, r2) := lex_twp inner f dep r1 in Ok (us ++ Literal c_rparen :: vs, r2)
                  else Err                                       
              end
        | [] => match depth with O => Ok (us, []) | S _ => Err end
        end.
  Proof. reflexivity. Qed.

  Lemma lex_wu_eq (f : nat) (cx : ctx) (d : delim) (s : str) :
    lex_wu inner (S f) cx d s =

        match skip_lc s with
        | [] => Ok (None, [])
        | c :: s1 =>
            if (c =? c_sq) && match cx with CWord => true | CText => false end then
              let* (q, r) := lex_single_quote s1 in Ok (Some (SingleQuote q), r)
            else if c =? c_dq then
              let* (t, r) := lex_text inner f DDQuote EDQuote s1 in
              match skip_lc r with
              | c' :: r' => if c' =? c_dq then Ok (Some (DoubleQuote t), r') else Err
              | [] => Err                                        
              end
            else
              let* (o, r) := lex_tu inner f cx d (esc_of cx d) (c :: s1) in
              match o with
              | None => Ok (None, r)
              | Some u =>
                  match cx, u with
                  | CWord, Literal c0 =>
                      if c0 =? c_dollar then
                        
                        match skip_lc r with
                        | c' :: r' =>
                            if c' =? c_sq then
                              let* (es, r'') := lex_escaped (S (length r')) r' in
                              Ok (Some (DollarSingleQuote es), r'')
                            else Ok (Some (Unquoted u), c' :: r')
                        | [] => Ok (Some (Unquoted u), [])
                        end
                      else Ok (Some (Unquoted u), r)
                  | _, _ => Ok (Some (Unquoted u), r)
                  end
              end
        end.
  Proof. reflexivity. Qed.

  Lemma lex_units_eq (f : nat) (cx : ctx) (d : delim) (s : str) :
    lex_units inner (S f) cx d s =

        let* (o, r) := lex_wu inner f cx d s in
        match o with
        | None => Ok ([], r)
        | Some u => let* (us, r') := lex_units inner f cx d r in Ok (u :: us, r')
        end.
  Proof. reflexivity. Qed.

End LexEq.
