(* C06 — proofs, part 16: the token-level facts used by the command-level
   round trip, stated for two arbitrary parsers of command substitutions
   ([i1] in the first run, [i2] in the second) and words without `$(...)`. *)
From Yv Require Import Common.Base C06.Ast C06.Print C06.Lex C06.LexEq C06.Parse C06.Spec
  C06.ProofsLen C06.ProofsStop C06.ProofsTilde C06.ProofsNum C06.ProofsRtBase C06.ProofsRt
  C06.ProofsMono C06.ProofsOp C06.ProofsToken C06.ProofsInner C06.ProofsRedir C06.SpecCmd.
Local Open Scope N_scope.

Definition inner_t := str -> res (str * str).

(* what the word-level round trip gives for one run of [lex_units] *)
Definition units_facts (i2 : inner_t) (f : nat) (cx : ctx) (d : delim) (s : str) (w : word) (r : str)
    : Prop :=
  nolc r /\ stops d r /\ last_fo_word cx d w (hd r) /\
  (w <> [] -> exists c x y, skip_lc s = c :: x /\ print_word w = c :: y) /\
  (forall z, nolc z -> stops d z -> last_fo_word cx d w (hd z) ->
     nolc (print_word w ++ z) /\ lex_units i2 (S (S f)) cx d (print_word w ++ z) = Ok (w, z)).

Lemma units_facts_nocs (i1 i2 : inner_t) f cx d s w r :
  lex_units i1 f cx d s = Ok (w, r) -> nocs_word w = true -> d <> DDQuote ->
  units_facts i2 f cx d s w r.
Proof.
  intros H Hn Hd.
  pose (i0 := fun _ : str => @Err (str * str)).
  assert (R0 : forall s content r0 r0', i0 s = Ok (content, r0) -> skip_lc r0 = c_rparen :: r0' ->
                 forall z, i0 (content ++ c_rparen :: z) = Ok (content, c_rparen :: z)).
  { intros ? ? ? ? X. discriminate. }
  destruct (lex_irrelevant i1 i0 f) as (_ & _ & _ & _ & _ & _ & I10).
  pose proof (I10 _ _ _ _ _ H Hn) as H0.
  destruct (lex_rt i0 R0 f) as (_ & _ & _ & _ & _ & _ & Hun).
  destruct (Hun _ _ _ _ _ H0 (nocs_ok_word _ Hn) Hd) as (A & B & C & D & E).
  unfold units_facts. repeat split; auto.
  - apply E; assumption.
  - destruct (E z H1 H2 H3) as [_ L].
    destruct (lex_irrelevant i0 i2 (S (S f))) as (_ & _ & _ & _ & _ & _ & I02).
    exact (I02 _ _ _ _ _ L Hn).
Qed.

(* ---- word tokens -------------------------------------------------------------------------- *)

(* A word token of the first run: [w] are its units before the tilde
   post-processing. *)
Record word_token (i1 i2 : inner_t) (f : nat) (s : str) (t : token) (r : str) (w : word) : Prop := {
  wt_lex : lex_token i1 f s = Ok (t, r);
  wt_word : t_word t = tilde_front w;
  wt_ne : w <> [];
  wt_facts : units_facts i2 f CWord DToken (skip_blanks_and_comment s) w r
}.

Lemma word_token_nocs (i1 i2 : inner_t) f s t r :
  lex_token i1 f s = Ok (t, r) -> t_word t <> [] -> nocs_word (t_word t) = true ->
  exists w, word_token i1 i2 f s t r w.
Proof.
  intros H Hw Hn. destruct (lex_token_word _ _ _ _ _ H Hw) as (w & Ew & Hne & Eu & _).
  exists w. constructor; auto.
  apply (units_facts_nocs i1 i2 _ _ _ _ _ _ Eu); [|discriminate].
  apply nocs_tilde_front. rewrite <- Ew. exact Hn.
Qed.

Section WordToken.
  Variables i1 i2 : inner_t.

  Lemma word_token_print f s t r w :
    word_token i1 i2 f s t r w ->
    forall z, nolc z -> stops DToken z -> last_fo_word CWord DToken w (hd z) ->
      lex_token i2 (S (S f)) (print_word (t_word t) ++ z)
      = Ok (mkToken (t_word t) (token_id_of (t_word t) z) (print_word (t_word t) ++ z), z).
  Proof.
    intros [H Et Hw (_ & _ & _ & Hd & Rt)] z Hz Hs Hl.
    destruct (skip_blanks_and_comment_spec s) as [N0 B0].
    unfold lex_token, bind in H.
    destruct (lex_operator (skip_blanks_and_comment s)) as [[op r']|] eqn:Eop.
    { inv H. cbn [t_word] in Et. symmetry in Et. apply tilde_front_nil' in Et. congruence. }
    clear H.
    destruct (Hd Hw) as (c & x & y & Hsx & Hp).
    destruct (Rt z Hz Hs Hl) as [N1 L1].
    rewrite Et, print_tilde_front. rewrite N0 in Hsx. rewrite Hsx in B0, Eop, N0.
    destruct B0 as [B1 B2].
    unfold lex_token, bind.
    rewrite Hp in N1 |- *. cbn [app] in N1 |- *.
    rewrite (skip_blanks_and_comment_id _ _ N1 B1 B2).
    rewrite (lex_operator_head _ _ _ N0 N1 Eop).
    rewrite Hp in L1. cbn [app] in L1. rewrite L1. reflexivity.
  Qed.

  (* the printed word: first character, and no line continuation in front *)
  Lemma word_token_head f s t r w :
    word_token i1 i2 f s t r w ->
    exists c y, print_word (t_word t) = c :: y /\ is_operator_char c = false /\
                is_blank c = false /\ (c =? c_hash) = false /\
                forall z, nolc z -> stops DToken z -> last_fo_word CWord DToken w (hd z) ->
                          nolc (print_word (t_word t) ++ z).
  Proof.
    intros [H Et Hw (_ & _ & _ & Hd & Rt)].
    destruct (skip_blanks_and_comment_spec s) as [N0 B0].
    unfold lex_token, bind in H.
    destruct (lex_operator (skip_blanks_and_comment s)) as [[op r']|] eqn:Eop.
    { inv H. cbn [t_word] in Et. symmetry in Et. apply tilde_front_nil' in Et. congruence. }
    destruct (Hd Hw) as (c & x & y & Hsx & Hp).
    rewrite N0 in Hsx. rewrite Hsx in B0, Eop, N0. destruct B0 as [B1 B2].
    rewrite Et, print_tilde_front, Hp. exists c, y. split; [reflexivity|].
    split; [eapply lex_operator_none_head'; eauto|]. split; [exact B1|]. split; [exact B2|].
    intros z Hz Hs Hl. destruct (Rt z Hz Hs Hl) as [N1 _]. rewrite Hp in N1. exact N1.
  Qed.

  (* the rest the first run stopped at is itself a valid follower *)
  Lemma word_token_rest f s t r w :
    word_token i1 i2 f s t r w ->
    nolc r /\ stops DToken r /\ last_fo_word CWord DToken w (hd r).
  Proof. intros [_ _ _ (A & B & C & _)]. auto. Qed.
End WordToken.

(* ---- followers ------------------------------------------------------------------------------ *)

(* a blank may follow any word of the first run that was not the last thing
   in the text *)
Lemma last_fo_blank w r :
  last_fo_word CWord DToken w (hd r) -> r <> [] -> last_fo_word CWord DToken w (Some 32).
Proof.
  unfold last_fo_word. destruct (last_opt w) as [u|]; [|auto].
  destruct u as [t| | | |]; cbn [fo_wu]; auto.
  intros [A B] Hr. split; [|intros _ _ X; discriminate].
  destruct t; cbn [fo_tu] in *; auto.
  destruct A as [A1 A2]. split; [intros _; reflexivity|].
  intros E. specialize (A2 E). destruct r as [|c0 r']; [congruence|]. cbn [hd] in A2.
  destruct A2 as [A2 _]. cbn in A2. discriminate.
Qed.

(* skipping the blank in front of the next item *)
Lemma sbc_blank z : skip_blanks_and_comment (32 :: z) = skip_blanks_and_comment z.
Proof.
  unfold skip_blanks_and_comment. cbn [length skip_blanks].
  rewrite skip_lc_nonbslash by reflexivity. reflexivity.
Qed.

Lemma lex_token_blank i f z : lex_token i f (32 :: z) = lex_token i f z.
Proof. unfold lex_token. rewrite sbc_blank. reflexivity. Qed.

(* ---- what ends a command: an operator other than a redirection operator and
   the opening parenthesis, or the end of the text ------------------------------------------- *)

(* the token that ends a command: an operator or the end of the input; it does
   not depend on the parser of command substitutions nor on the fuel *)
Lemma cmd_end_token i f z :
  cmd_end z -> (3 <= f)%nat ->
  exists t r, lex_token i f z = Ok (t, r) /\ t_word t = [] /\
    t_at t = skip_blanks_and_comment z /\
    match t_id t with
    | TEnd => skip_blanks_and_comment z = []
    | TOp op => redir_op_of op = None /\ op <> OpOpenParen /\ op <> OpLessLess /\
                op <> OpLessLessDash /\ op <> OpLessOpenParen /\ op <> OpGreaterOpenParen
    | _ => False
    end.
Proof.
  unfold cmd_end, lex_token. intros H Hf.
  destruct (skip_blanks_and_comment_spec z) as [N0 _].
  destruct (skip_blanks_and_comment z) as [|c x] eqn:E.
  - cbn [lex_operator skip_lc]. unfold bind.
    destruct f as [|[|[|f]]]; try lia.
    rewrite lex_units_eq. unfold bind. rewrite lex_wu_eq. cbn [skip_lc].
    eexists _, _. split; [reflexivity|]. cbn. auto.
  - unfold end_char in H. unfold lex_operator. rewrite N0.
    assert (Hc : c = 10 \/ c = 38 \/ c = 41 \/ c = 59 \/ c = 124).
    { repeat (apply Bool.orb_true_iff in H; destruct H as [H|H]); apply N.eqb_eq in H; auto. }
    destruct Hc as [->|[->|[->|[->| ->]]]]; cbn -[alt].
    + eexists _, _. split; [reflexivity|]. cbn. repeat split; discriminate.
    + unfold alt. destruct (skip_lc x) as [|c2 x2]; cbn [find fst].
      * eexists _, _. split; [reflexivity|]. cbn. repeat split; discriminate.
      * destruct (38 =? c2); cbn [fin]; eexists _, _; (split; [reflexivity|]); cbn;
          repeat split; discriminate.
    + eexists _, _. split; [reflexivity|]. cbn. repeat split; discriminate.
    + unfold alt. destruct (skip_lc x) as [|c2 x2]; cbn [find fst].
      * eexists _, _. split; [reflexivity|]. cbn. repeat split; discriminate.
      * destruct (38 =? c2); cbn [fin].
        { eexists _, _; (split; [reflexivity|]); cbn; repeat split; discriminate. }
        destruct (59 =? c2); cbn [fin].
        { destruct (skip_lc x2) as [|c3 x3]; cbn [find fst].
          - eexists _, _; (split; [reflexivity|]); cbn; repeat split; discriminate.
          - destruct (38 =? c3); cbn [fin]; eexists _, _; (split; [reflexivity|]); cbn;
              repeat split; discriminate. }
        destruct (124 =? c2); cbn [fin]; eexists _, _; (split; [reflexivity|]); cbn;
          repeat split; discriminate.
    + unfold alt. destruct (skip_lc x) as [|c2 x2]; cbn [find fst].
      * eexists _, _. split; [reflexivity|]. cbn. repeat split; discriminate.
      * destruct (124 =? c2); cbn [fin]; eexists _, _; (split; [reflexivity|]); cbn;
          repeat split; discriminate.
Qed.

(* ---- followers that are safe after any word ------------------------------------------------- *)

(* a character that may follow any word that does not end with an unquoted
   backslash *)
Definition univ_follow (c : N) : bool :=
  dollar_ok c && negb (is_name_char c) && negb (c =? c_sq).

Definition ends_bslash (w : word) : bool :=
  match last_opt w with
  | Some (Unquoted (Literal c)) => c =? c_bslash
  | _ => false
  end.

Lemma last_fo_univ w c :
  univ_follow c = true -> ends_bslash w = false -> last_fo_word CWord DToken w (Some c).
Proof.
  unfold univ_follow, ends_bslash, last_fo_word. intros H Hb.
  apply andb_prop in H. destruct H as [H H3]. apply andb_prop in H. destruct H as [H1 H2].
  apply Bool.negb_true_iff in H2, H3.
  destruct (last_opt w) as [u|]; [|exact I].
  destruct u as [t| | | |]; cbn [fo_wu]; auto.
  split.
  - destruct t; cbn [fo_tu]; auto.
    + split; [intros _; exact H1 | intros E; congruence].
  - intros _ _ X. inv X. rewrite N.eqb_refl in H3. discriminate.
Qed.

Lemma last_fo_nil w : last_fo_word CWord DToken w None.
Proof.
  unfold last_fo_word. destruct (last_opt w) as [u|]; [|exact I].
  destruct u as [t| | | |]; cbn [fo_wu]; auto. split; [|intros _ _ X; discriminate].
  destruct t; cbn [fo_tu]; auto.
Qed.

(* a word that was followed by something in the first run does not end with
   an unquoted backslash *)
Lemma not_ends_bslash w r :
  last_fo_word CWord DToken w (hd r) -> r <> [] -> ends_bslash w = false.
Proof.
  unfold last_fo_word, ends_bslash. destruct (last_opt w) as [u|]; [|auto].
  destruct u as [t| | | |]; auto. destruct t; auto.
  cbn [fo_wu fo_tu]. intros [[_ A] _] Hr.
  destruct (c =? c_bslash) eqn:E; [|reflexivity].
  specialize (A eq_refl). destruct r as [|c0 r']; [congruence|]. cbn [hd] in A.
  destruct A as [A _]. cbn in A. discriminate.
Qed.

Lemma univ_follow_blank : univ_follow 32 = true.
Proof. reflexivity. Qed.

Lemma end_char_univ c : end_char c = true -> univ_follow c = true.
Proof.
  unfold end_char. intros H.
  repeat (apply Bool.orb_true_iff in H; destruct H as [H|H]); apply N.eqb_eq in H; subst; reflexivity.
Qed.

Lemma end_char_stops c z : end_char c = true -> stops DToken (c :: z).
Proof.
  unfold end_char. intros H. cbn [stops is_delim].
  repeat (apply Bool.orb_true_iff in H; destruct H as [H|H]); apply N.eqb_eq in H; subst; reflexivity.
Qed.

(* ---- items of a simple command and what may follow them ---------------------------------------- *)

Definition good_follow (w0 : word) (z : str) : Prop :=
  nolc z /\ stops DToken z /\ last_fo_word CWord DToken w0 (hd z).

Lemma good_follow_blank w0 z : ends_bslash w0 = false -> good_follow w0 (32 :: z).
Proof.
  intros H. split; [apply nolc_cons; reflexivity|]. split; [reflexivity|].
  apply last_fo_univ; [reflexivity | exact H].
Qed.

Lemma good_follow_nil w0 : good_follow w0 [].
Proof. split; [reflexivity|]. split; [exact I | apply last_fo_nil]. Qed.

Lemma good_follow_end w0 c z :
  end_char c = true -> ends_bslash w0 = false -> good_follow w0 (c :: z).
Proof.
  intros Hc Hb. split.
  - apply nolc_cons. unfold end_char in Hc.
    repeat (apply Bool.orb_true_iff in Hc; destruct Hc as [Hc|Hc]); apply N.eqb_eq in Hc; subst; reflexivity.
  - split; [apply end_char_stops; exact Hc | apply last_fo_univ; [apply end_char_univ; exact Hc | exact Hb]].
Qed.

(* a redirection of the first run, with the operand's units [w0] before the
   tilde post-processing: where the first run stopped, and how it is read
   back *)
Definition redir_item (i2 : inner_t) (F : nat) (rd : redir) (r : str) (w0 : word) : Prop :=
  (nolc r /\ stops DToken r /\ last_fo_word CWord DToken w0 (hd r)) /\
  forall z f', (F <= f')%nat -> good_follow w0 z ->
    p_redir (lex_token i2 f') (print_redir rd ++ z) = Ok (Some rd, z).

Lemma operator_token_g (i : inner_t) f op rop x c y :
  redir_op_of op = Some rop -> x = c :: y -> nolc x -> is_operator_char c = false ->
  lex_token i f (print_rop rop ++ x) = Ok (mkToken [] (TOp op) (print_rop rop ++ x), x).
Proof.
  intros Ho Ex Nx Hc. destruct (redir_op_first _ _ Ho) as (Ep & c0 & t0 & E0 & Hc0).
  unfold lex_token.
  assert (N0 : nolc (print_rop rop ++ x)).
  { rewrite E0. cbn [app]. apply nolc_cons.
    apply Bool.orb_true_iff in Hc0. destruct Hc0 as [X|X]; apply N.eqb_eq in X; subst; reflexivity. }
  assert (Eb : skip_blanks_and_comment (print_rop rop ++ x) = print_rop rop ++ x).
  { rewrite E0 in N0 |- *. cbn [app] in *. apply skip_blanks_and_comment_id; [exact N0 | |];
      apply Bool.orb_true_iff in Hc0; destruct Hc0 as [X|X]; apply N.eqb_eq in X; subst; reflexivity. }
  rewrite Eb, <- Ep.
  rewrite (lex_operator_print_lemma op x Nx); [reflexivity|].
  rewrite Ex. cbn [hd op_follow_ok]. eapply op_ext_operator_chars; eauto.
Qed.

Lemma redir_item_of (i1 : inner_t) f s rd r :
  p_redir (lex_token i1 f) s = Ok (Some rd, r) -> nocs_redir rd = true ->
  exists w0, (exists p, print_redir rd = p ++ print_word w0) /\
             forall i2 : inner_t, redir_item i2 (max (S (S f)) 13) rd r w0.
Proof.
  unfold p_redir at 1. unfold bind. intros H Hn.
  destruct (lex_token i1 f s) as [[t s1]| | | |] eqn:E1; try discriminate.
  assert (Hfd : exists fdo s2,
             (match t_id t with
              | TIoNumber => match fd_of_word (t_word t) with
                             | Some fd => Ok (Some fd, s1)
                             | None => Err
                             end
              | TIoLocation => Err
              | _ => Ok (None, s)
              end = Ok (fdo, s2)) /\
             (forall fd, fdo = Some fd -> exists v, fd = Z.of_N v /\ v <= 2147483647)).
  { destruct (t_id t); try (eexists _, _; split; [reflexivity | intros ? X; discriminate]);
      try discriminate.
    destruct (fd_of_word (t_word t)) as [fd|] eqn:Ef; [|discriminate].
    eexists _, _. split; [reflexivity|]. intros fd' X. inv X. eapply fd_of_word_range; eauto. }
  destruct Hfd as (fdo & s2 & Hfd & Hrange). rewrite Hfd in H.
  destruct (lex_token i1 f s2) as [[t' s3]| | | |] eqn:E2; try discriminate.
  destruct (t_id t') as [| op | | |] eqn:Eid; try discriminate.
  destruct (redir_op_of op) as [rop|] eqn:Erop.
  2:{ destruct op; try discriminate. }
  destruct (lex_token i1 f s3) as [[o s4]| | | |] eqn:E3; try discriminate.
  assert (Hoid : t_word o <> []).
  { unfold lex_token, bind in E3.
    destruct (lex_operator (skip_blanks_and_comment s3)) as [[op' r']|]; [inv E3; cbn in H; discriminate|].
    destruct (lex_units i1 f CWord DToken (skip_blanks_and_comment s3)) as [[w r']| | | |];
      try discriminate.
    inv E3. cbn [t_id t_word] in *. intros X. rewrite X in H. cbn in H. discriminate. }
  assert (Hres : rd = mkRedir fdo (RNormal rop (t_word o)) /\ r = s4).
  { destruct (t_id o); inv H; auto. }
  destruct Hres as [-> ->]. clear H. cbn [nocs_redir r_body] in Hn.
  destruct (lex_token_word _ _ _ _ _ E3 Hoid) as (w0 & Ew0 & Hne0 & Eu0 & _).
  exists w0. split.
  { unfold print_redir. cbn [r_fd r_body print_rbody]. rewrite Ew0, print_tilde_front.
    eexists. rewrite !app_assoc. reflexivity. }
  intros i2.
  assert (WT : word_token i1 i2 f s3 o s4 w0).
  { constructor; auto. apply (units_facts_nocs i1 i2 _ _ _ _ _ _ Eu0); [|discriminate].
    apply nocs_tilde_front. rewrite <- Ew0. exact Hn. }
  split; [exact (word_token_rest _ _ _ _ _ _ _ WT)|].
  intros z f' Hf [Hz [Hs Hl]].
  pose proof (word_token_print i1 i2 _ _ _ _ _ WT z Hz Hs Hl) as Rt.
  assert (Hle : (S (S f) <= f')%nat) by lia.
  apply (lex_token_mono i2 i2 (S (S f)) f' _ _ (ext_refl i2) Hle) in Rt; [|discriminate].
  destruct (word_token_head i1 i2 _ _ _ _ _ WT) as (c & y & Hp & Hc & _ & _ & Nn).
  pose proof (Nn z Hz Hs Hl) as Nx.
  pose proof (operator_token_g i2 f' op rop (print_word (t_word o) ++ z) c (y ++ z) Erop
                ltac:(rewrite Hp; reflexivity) Nx Hc) as Ro.
  pose proof (token_id_of_word (t_word o) z Hoid) as Hido.
  unfold print_redir. cbn [r_fd r_body print_rbody].
  destruct fdo as [fd|].
  - destruct (Hrange fd eq_refl) as (v & -> & Hv).
    rewrite fmt_z_of_N. rewrite <- !app_assoc.
    unfold p_redir, bind.
    destruct (redir_op_first _ _ Erop) as (_ & c0 & t0 & E0 & Hc0).
    assert (Nz' : nolc (print_rop rop ++ print_word (t_word o) ++ z)).
    { rewrite E0. cbn [app]. apply nolc_cons.
      apply Bool.orb_true_iff in Hc0. destruct Hc0 as [X|X]; apply N.eqb_eq in X; subst; reflexivity. }
    assert (Pz' : peek_is_redir (print_rop rop ++ print_word (t_word o) ++ z) = true).
    { unfold peek_is_redir. rewrite Nz', E0. cbn [app]. exact Hc0. }
    assert (Hv' : v < 10 ^ 64).
    { apply N.le_lt_trans with 2147483647; [exact Hv | vm_compute; reflexivity]. }
    rewrite (io_number_token i2 v _ f' Hv' Nz' Pz'
               ltac:(pose proof (fmt_dec_short v Hv); lia)).
    cbn [t_id t_word]. rewrite (fd_of_word_fmt v Hv).
    rewrite Ro. cbn [t_id]. rewrite Erop. rewrite Rt. cbn [t_id t_word].
    destruct (token_id_of (t_word o) z); try contradiction; reflexivity.
  - cbn [app]. rewrite <- app_assoc. unfold p_redir, bind.
    rewrite Ro. cbn [t_id]. rewrite Ro. cbn [t_id]. rewrite Erop. rewrite Rt. cbn [t_id t_word].
    destruct (token_id_of (t_word o) z); try contradiction; reflexivity.
Qed.
