(* C06 — proofs, part 14: a word without `$(...)` is lexed the same way
   whatever parser is used for the contents of command substitutions; hence
   the word-level round trip holds for the model's own parser on such words
   without any hypothesis. *)
From Yv Require Import Common.Base C06.Ast C06.Print C06.Lex C06.SpecLex C06.LexEq C06.Parse
  C06.ProofsLen C06.ProofsStop C06.ProofsTilde C06.ProofsRtBase C06.ProofsRt.
Local Open Scope N_scope.

Lemma nocs_ok_tu u : nocs_tu u = true -> ok_tu u = true
with nocs_ok_wu u : nocs_wu u = true -> ok_wu u = true.
Proof.
  - destruct u as [c|c|p|p m|c|c|t]; cbn [nocs_tu ok_tu]; intros H; try reflexivity; try discriminate.
    + destruct m as [| |a c w|s l w]; try reflexivity.
      * induction w as [|x w IH]; [reflexivity|]. cbn [forallb] in *. apply andb_prop in H.
        destruct H as [H1 H2]. rewrite (nocs_ok_wu x H1), (IH H2). reflexivity.
      * induction w as [|x w IH]; [reflexivity|]. cbn [forallb] in *. apply andb_prop in H.
        destruct H as [H1 H2]. rewrite (nocs_ok_wu x H1), (IH H2). reflexivity.
    + induction t as [|x t IH]; [reflexivity|]. cbn [forallb] in *. apply andb_prop in H.
      destruct H as [H1 H2]. rewrite (nocs_ok_tu x H1), (IH H2). reflexivity.
  - destruct u as [t|s|t|e|n b]; cbn [nocs_wu ok_wu]; intros H; try reflexivity.
    + apply nocs_ok_tu. exact H.
    + induction t as [|x t IH]; [reflexivity|]. cbn [forallb] in *. apply andb_prop in H.
      destruct H as [H1 H2]. rewrite (nocs_ok_tu x H1), (IH H2). reflexivity.
Qed.

Lemma nocs_ok_word w : nocs_word w = true -> ok_word w = true.
Proof.
  unfold nocs_word, ok_word. induction w as [|x w IH]; [reflexivity|]. cbn [forallb]. intros H.
  apply andb_prop in H. destruct H as [H1 H2]. rewrite (nocs_ok_wu x H1), (IH H2). reflexivity.
Qed.

Lemma tilde_name_nocs colon w n name sl :
  tilde_name colon w = Some (n, name, sl) -> nocs_word (firstn n w) = true.
Proof.
  revert n name sl. induction w as [|u w IH]; intros n name sl H; cbn [tilde_name] in H.
  - inv H. reflexivity.
  - destruct u as [t| | | |]; try discriminate. destruct t; try discriminate.
    destruct (c =? 47); [inv H; reflexivity|].
    destruct (colon && (c =? 58)); [inv H; reflexivity|].
    destruct (tilde_name colon w) as [[[n' name'] sl']|] eqn:E; [|discriminate].
    inv H. cbn [firstn]. unfold nocs_word in *. cbn [forallb nocs_wu nocs_tu andb]. eapply IH; eauto.
Qed.

Lemma nocs_tilde_front w : nocs_word (tilde_front w) = true -> nocs_word w = true.
Proof.
  unfold tilde_front. destruct (parse_tilde false w) as [[[n name] sl]|] eqn:E; [|auto].
  unfold parse_tilde in E. destruct w as [|u w']; [discriminate|].
  destruct u as [t| | | |]; try discriminate. destruct t; try discriminate.
  destruct (c =? c_tilde); [|discriminate].
  destruct (tilde_name false w') as [[[n' name'] sl']|] eqn:E2; [|discriminate]. inv E.
  unfold nocs_word. cbn [skipn forallb nocs_wu nocs_tu andb]. intros H.
  rewrite <- (firstn_skipn n' w'), forallb_app. apply andb_true_intro. split; [|exact H].
  eapply tilde_name_nocs; eauto.
Qed.

Section Irrelevant.
  Variables i1 i2 : str -> res (str * str).

  Definition I_all (f : nat) :=
    (forall cx d e s o r, lex_tu i1 f cx d e s = Ok (o, r) ->
       match o with Some u => nocs_tu u = true | None => True end ->
       lex_tu i2 f cx d e s = Ok (o, r)) /\
    (forall cx s o r, lex_dollar i1 f cx s = Ok (o, r) ->
       match o with Some u => nocs_tu u = true | None => True end ->
       lex_dollar i2 f cx s = Ok (o, r)) /\
    (forall cx s u r, lex_braced i1 f cx s = Ok (u, r) -> nocs_tu u = true ->
       lex_braced i2 f cx s = Ok (u, r)) /\
    (forall d e s t r, lex_text i1 f d e s = Ok (t, r) -> nocs_text t = true ->
       lex_text i2 f d e s = Ok (t, r)) /\
    (forall depth s t r, lex_twp i1 f depth s = Ok (t, r) -> nocs_text t = true ->
       lex_twp i2 f depth s = Ok (t, r)) /\
    (forall cx d s o r, lex_wu i1 f cx d s = Ok (o, r) ->
       match o with Some u => nocs_wu u = true | None => True end ->
       lex_wu i2 f cx d s = Ok (o, r)) /\
    (forall cx d s w r, lex_units i1 f cx d s = Ok (w, r) -> nocs_word w = true ->
       lex_units i2 f cx d s = Ok (w, r)).

  Lemma lex_irrelevant : forall f, I_all f.
  Proof.
    induction f as [|f (Htu & Hdol & Hbr & Htx & Htwp & Hwu & Hun)].
    { repeat split; intros; discriminate. }
    repeat split.
    - (* lex_tu *)
      intros cx d e s o r H Hn. rewrite lex_tu_eq in H |- *. unfold bind in *.
      destruct (skip_lc s) as [|c s1]; [exact H|].
      destruct (c =? c_bslash); [exact H|].
      destruct (c =? c_dollar).
      + destruct (lex_dollar i1 f cx s1) as [[[u|] r1]| | | |] eqn:E; try discriminate.
        * inv H. rewrite (Hdol _ _ _ _ E Hn). reflexivity.
        * rewrite (Hdol _ _ _ _ E I). exact H.
      + exact H.
    - (* lex_dollar *)
      intros cx s o r H Hn. rewrite lex_dollar_eq in H |- *. unfold bind in *. cbv zeta in *.
      destruct (skip_lc s) as [|c s1]; [exact H|].
      destruct (special_of_char c); [exact H|].
      destruct (is_digit c); [exact H|].
      destruct (is_name_char c); [exact H|].
      destruct (c =? c_lbrace).
      + destruct (lex_braced i1 f cx s1) as [[u r1]| | | |] eqn:E; try discriminate.
        inv H. rewrite (Hbr _ _ _ _ E Hn). reflexivity.
      + destruct (c =? c_lparen); [|exact H].
        (* a command substitution is excluded; an arithmetic expansion recurses *)
        assert (CS : forall X,
                  match i1 s1 with
                  | Ok (content, r0) =>
                      match skip_lc r0 with
                      | [] => Err
                      | c' :: r' => if c' =? c_rparen then Ok (Some (CommandSubst content), r') else Err
                      end
                  | Err => Err | Fuel => Fuel | Panic => Panic | Unsupp => Unsupp
                  end = Ok (o, r) -> X).
        { intros X HX. destruct (i1 s1) as [[content r0]| | | |]; try discriminate.
          destruct (skip_lc r0) as [|c' r']; [discriminate|].
          destruct (c' =? c_rparen); [|discriminate]. inv HX. cbn in Hn. discriminate. }
        destruct (skip_lc s1) as [|c' s2]; [exact (CS _ H)|].
        destruct (c' =? c_lparen); [|exact (CS _ H)].
        destruct (lex_twp i1 f 0 s2) as [[content r1]| | | |] eqn:Et; try discriminate.
        destruct (skip_lc r1) as [|c1 r1'] eqn:Er1; [discriminate|].
        destruct (c1 =? c_rparen) eqn:Ec1; [|discriminate].
        destruct (skip_lc r1') as [|c2 r2] eqn:Er2; [discriminate|].
        destruct (c2 =? c_rparen) eqn:Ec2; [|exact (CS _ H)].
        inv H. cbn [nocs_tu] in Hn. rewrite (Htwp _ _ _ _ Et Hn). rewrite Er1, Ec1, Er2, Ec2.
        reflexivity.
    - (* lex_braced *)
      intros cx s u r H Hn. rewrite lex_braced_eq in H |- *. unfold bind in *. cbv zeta in *.
      destruct (lex_param _) as [[p rp]| | | |]; try discriminate.
      assert (Hs : forall m r2,
                lex_suffix (fun cx' s' => lex_units i1 f cx' DBrace s') cx rp = Ok (m, r2) ->
                match m with MSwitch _ _ w | MTrim _ _ w => nocs_word w = true | _ => True end ->
                lex_suffix (fun cx' s' => lex_units i2 f cx' DBrace s') cx rp = Ok (m, r2)).
      { intros m r2 Hm Hk. unfold lex_suffix, bind in *. cbv zeta in *.
        destruct (skip_lc rp) as [|cB sB]; [exact Hm|].
        destruct (cB =? 58).
        - destruct (skip_lc sB) as [|sym r1']; [exact Hm|].
          destruct ((sym =? 43) || (sym =? 45) || (sym =? 61) || (sym =? 63)).
          + destruct (lex_units i1 f cx DBrace r1') as [[w r']| | | |] eqn:Ew; try discriminate.
            inv Hm. rewrite (Hun _ _ _ _ _ Ew); [reflexivity|].
            destruct cx; [apply nocs_tilde_front|]; exact Hk.
          + exact Hm.
        - destruct ((cB =? 43) || (cB =? 45) || (cB =? 61) || (cB =? 63)).
          + destruct (lex_units i1 f cx DBrace sB) as [[w r']| | | |] eqn:Ew; try discriminate.
            inv Hm. rewrite (Hun _ _ _ _ _ Ew); [reflexivity|].
            destruct cx; [apply nocs_tilde_front|]; exact Hk.
          + destruct ((cB =? 35) || (cB =? 37)); [|exact Hm].
            destruct (match skip_lc sB with
                      | [] => (TlShortest, [])
                      | c' :: t => if c' =? cB then (TlLongest, t) else (TlShortest, c' :: t)
                      end) as [len r1''].
            destruct (lex_units i1 f CWord DBrace r1'') as [[w r']| | | |] eqn:Ew; try discriminate.
            inv Hm. rewrite (Hun _ _ _ _ _ Ew); [reflexivity|].
            apply nocs_tilde_front. exact Hk. }
      destruct (lex_suffix (fun cx' s' => lex_units i1 f cx' DBrace s') cx rp) as [[m r2]| | | |] eqn:Em;
        try discriminate.
      assert (Hk : match m with MSwitch _ _ w | MTrim _ _ w => nocs_word w = true | _ => True end).
      { destruct (skip_lc r2) as [|c' r3]; [discriminate|].
        destruct (c' =? c_rbrace); [|discriminate].
        destruct (has_length_prefix s); destruct m; try discriminate; inv H; cbn in Hn; auto. }
      rewrite (Hs _ _ eq_refl Hk). exact H.
    - (* lex_text *)
      intros d e s t r H Hn. rewrite lex_text_eq in H |- *. unfold bind in *.
      destruct (lex_tu i1 f CText d e s) as [[[u|] r1]| | | |] eqn:E; try discriminate.
      + destruct (lex_text i1 f d e r1) as [[us r']| | | |] eqn:E2; try discriminate. inv H.
        unfold nocs_text in Hn. cbn [forallb] in Hn. apply andb_prop in Hn. destruct Hn as [A B].
        rewrite (Htu _ _ _ _ _ _ E A), (Htx _ _ _ _ _ E2 B). reflexivity.
      + rewrite (Htu _ _ _ _ _ _ E I). exact H.
    - (* lex_twp *)
      intros depth s t r H Hn. rewrite lex_twp_eq in H |- *. unfold bind in *.
      destruct (lex_text i1 f DParen EArith s) as [[us r0]| | | |] eqn:E; try discriminate.
      assert (Hus : forall vs x, nocs_text (us ++ x :: vs) = true ->
                     nocs_text us = true /\ nocs_text vs = true).
      { intros vs x Hx. unfold nocs_text in *. rewrite forallb_app in Hx. apply andb_prop in Hx.
        destruct Hx as [A B]. cbn [forallb] in B. apply andb_prop in B. tauto. }
      destruct (skip_lc r0) as [|c r1] eqn:Er0.
      + destruct depth; [|discriminate]. inv H. rewrite (Htx _ _ _ _ _ E Hn), Er0. reflexivity.
      + destruct (c =? c_lparen) eqn:Ec.
        * destruct (lex_twp i1 f (S depth) r1) as [[vs r2]| | | |] eqn:E2; try discriminate. inv H.
          destruct (Hus _ _ Hn) as [A B].
          rewrite (Htx _ _ _ _ _ E A), Er0, Ec, (Htwp _ _ _ _ E2 B). reflexivity.
        * destruct depth as [|dep].
          -- inv H. rewrite (Htx _ _ _ _ _ E Hn), Er0, Ec. reflexivity.
          -- destruct (c =? c_rparen) eqn:Ec2; [|discriminate].
             destruct (lex_twp i1 f dep r1) as [[vs r2]| | | |] eqn:E2; try discriminate. inv H.
             destruct (Hus _ _ Hn) as [A B].
             rewrite (Htx _ _ _ _ _ E A), Er0, Ec, Ec2, (Htwp _ _ _ _ E2 B). reflexivity.
    - (* lex_wu *)
      intros cx d s o r H Hn. rewrite lex_wu_eq in H |- *. unfold bind in *.
      destruct (skip_lc s) as [|c s1]; [exact H|].
      destruct ((c =? c_sq) && match cx with CWord => true | CText => false end); [exact H|].
      destruct (c =? c_dq).
      + destruct (lex_text i1 f DDQuote EDQuote s1) as [[t r1]| | | |] eqn:E; try discriminate.
        destruct (skip_lc r1) as [|c' r'] eqn:Er1; [discriminate|].
        destruct (c' =? c_dq) eqn:Ec; [|discriminate]. inv H. cbn [nocs_wu] in Hn.
        rewrite (Htx _ _ _ _ _ E Hn), Er1, Ec. reflexivity.
      + destruct (lex_tu i1 f cx d (esc_of cx d) (c :: s1)) as [[[tu|] r1]| | | |] eqn:E;
          try discriminate.
        * assert (Hk : nocs_tu tu = true).
          { destruct cx; [|inv H; exact Hn].
            destruct tu; try (inv H; exact Hn). reflexivity. }
          rewrite (Htu _ _ _ _ _ _ E Hk). exact H.
        * rewrite (Htu _ _ _ _ _ _ E I). exact H.
    - (* lex_units *)
      intros cx d s w r H Hn. rewrite lex_units_eq in H |- *. unfold bind in *.
      destruct (lex_wu i1 f cx d s) as [[[u|] r1]| | | |] eqn:E; try discriminate.
      + destruct (lex_units i1 f cx d r1) as [[us r']| | | |] eqn:E2; try discriminate. inv H.
        unfold nocs_word in Hn. cbn [forallb] in Hn. apply andb_prop in Hn. destruct Hn as [A B].
        rewrite (Hwu _ _ _ _ _ E A), (Hun _ _ _ _ _ E2 B). reflexivity.
      + rewrite (Hwu _ _ _ _ _ E I). exact H.
  Qed.
End Irrelevant.

(* the word-level round trip without any hypothesis on the parser of command
   substitutions, for words without `$(...)` *)
Theorem lex_word_print_nocs_lemma : forall (i1 i2 : str -> res (str * str)) f cx d s w r,
  lex_units i1 f cx d s = Ok (w, r) -> nocs_word w = true -> d <> DDQuote ->
  forall z, nolc z -> stops d z -> last_fo_word cx d w (hd z) ->
  lex_units i2 (S (S f)) cx d (print_word (tilde_front w) ++ z) = Ok (w, z).
Proof.
  intros i1 i2 f cx d s w r H Hn Hd z Hz Hs Hl.
  pose (i0 := fun _ : str => @Err (str * str)).
  assert (R0 : forall s content r0 r0', i0 s = Ok (content, r0) -> skip_lc r0 = c_rparen :: r0' ->
                 forall z, i0 (content ++ c_rparen :: z) = Ok (content, c_rparen :: z)).
  { intros ? ? ? ? X. discriminate. }
  destruct (lex_irrelevant i1 i0 f) as (_ & _ & _ & _ & _ & _ & I10).
  pose proof (I10 _ _ _ _ _ H Hn) as H0.
  pose proof (lex_word_print i0 R0 _ _ _ _ _ _ H0 (nocs_ok_word _ Hn) Hd z Hz Hs Hl) as L0.
  destruct (lex_irrelevant i0 i2 (S (S f))) as (_ & _ & _ & _ & _ & _ & I02).
  exact (I02 _ _ _ _ _ L0 Hn).
Qed.
