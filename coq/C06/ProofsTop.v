(* C06 — proofs: top-level corollaries. *)
From Yv Require Import Common.Base C06.Model C06.Spec C06.ProofsLen C06.ProofsParse C06.ProofsMono.

(* Every fuel above the one computed from the length of the text gives the
   same answer: the model's answer is a function of the text alone. *)
Theorem parse_more_fuel_lemma : forall s f,
  (parse_fuel s <= f)%nat -> p_mcl f s = p_mcl (parse_fuel s) s.
Proof.
  intros s f Hle.
  apply (gm_mcl _ (parser_mono (parse_fuel s)) f s _ Hle eq_refl).
  apply (gf_mcl _ (parser_fuel (parse_fuel s)) s).
  unfold parse_fuel, fuel_k, rk_mcl. lia.
Qed.
