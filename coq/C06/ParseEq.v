(* C06 — one-step unfolding equations of the parser functions (generated from Parse.v by
   copying the bodies; each is proved by reflexivity). *)
From Yv Require Import Common.Base C06.Ast C06.Print C06.Lex C06.Parse.
Local Open Scope N_scope.

Lemma p_inner_eq (f : nat) (s : str) :
  p_inner (S f) s =

      let tk := lex_token (p_inner f) f in
      let* (_, s1) := p_mcl f s in
      let* (t, _) := tk s1 in
      Ok (firstn (length s - length (t_at t)) s, t_at t).
Proof. reflexivity. Qed.

Lemma p_mcl_eq (f : nat) (s : str) :
  p_mcl (S f) s =

      let tk := lex_token (p_inner f) f in
      let* (l, s1) := p_list f s in
      let* (t, s2) := tk s1 in
      match t_id t with
      | TOp OpNewline => let* (l', s3) := p_mcl f s2 in Ok (l ++ l', s3)
      | id => if is_clause_delimiter id then Ok (l, s1) else Err      
      end.
Proof. reflexivity. Qed.

Lemma p_list_eq (f : nat) (s : str) :
  p_list (S f) s =

      let tk := lex_token (p_inner f) f in
      let* (o, s1) := p_and_or f s in
      match o with
      | None => Ok ([], s1)
      | Some ao =>
          let* (t, s2) := tk s1 in
          match t_id t with
          | TOp OpSemicolon => let* (l, s3) := p_list f s2 in Ok (Item ao false :: l, s3)
          | TOp OpAnd => let* (l, s3) := p_list f s2 in Ok (Item ao true :: l, s3)
          | _ => Ok ([Item ao false], s1)
          end
      end.
Proof. reflexivity. Qed.

Lemma p_and_or_eq (f : nat) (s : str) :
  p_and_or (S f) s =

      let* (o, s1) := p_pipeline f s in
      match o with
      | None => Ok (None, s1)
      | Some p => let* (rest, s2) := p_and_or_rest f s1 in Ok (Some (AndOrList p rest), s2)
      end.
Proof. reflexivity. Qed.

Lemma p_and_or_rest_eq (f : nat) (s : str) :
  p_and_or_rest (S f) s =

      let tk := lex_token (p_inner f) f in
      let* (t, s1) := tk s in
      let go (c : and_or) :=
        let* s2 := skip_newlines tk f s1 in
        let* (o, s3) := p_pipeline f s2 in
        match o with
        | None => Err                                                
        | Some p => let* (rest, s4) := p_and_or_rest f s3 in Ok ((c, p) :: rest, s4)
        end in
      match t_id t with
      | TOp OpAndAnd => go AndThen
      | TOp OpBarBar => go OrElse
      | _ => Ok ([], s)
      end.
Proof. reflexivity. Qed.

Lemma p_pipeline_eq (f : nat) (s : str) :
  p_pipeline (S f) s =

      let tk := lex_token (p_inner f) f in
      let* (o, s1) := p_command f s in
      let* (first, s2) :=
        (match o with
         | Some c => Ok (Some (c, false), s1)
         | None =>
             let* (t, s1') := tk s1 in
             match t_id t with
             | TToken (Some KBang) =>
                 let* (o', s2) := p_command f s1' in
                 match o' with
                 | Some c => Ok (Some (c, true), s2)
                 | None => Err                                       
                 end
             | _ => Ok (None, s1)
             end
         end) in
      match first with
      | None => Ok (None, s2)
      | Some (c, neg) =>
          let* (cs, s3) := p_pipe_rest f s2 in Ok (Some (Pipeline (c :: cs) neg), s3)
      end.
Proof. reflexivity. Qed.

Lemma p_pipe_rest_eq (f : nat) (s : str) :
  p_pipe_rest (S f) s =

      let tk := lex_token (p_inner f) f in
      let* (t, s1) := tk s in
      match t_id t with
      | TOp OpBar =>
          let* s2 := skip_newlines tk f s1 in
          let* (o, s3) := p_command f s2 in
          match o with
          | None => Err                                              
          | Some c => let* (cs, s4) := p_pipe_rest f s3 in Ok (c :: cs, s4)
          end
      | _ => Ok ([], s)
      end.
Proof. reflexivity. Qed.

Lemma p_command_eq (f : nat) (s : str) :
  p_command (S f) s =

      let tk := lex_token (p_inner f) f in
      let* (o, s1) := p_simple f None (mkBuilder [] [] []) s in
      match o with
      | Some (a, w, r) =>
          
          match a, w, r with
          | [], [(name, _)], [] =>
              let* (t, s2) := tk s1 in
              match t_id t with
              | TOp OpOpenParen =>
                  let* (t', s3) := tk s2 in
                  match t_id t' with
                  | TOp OpCloseParen =>
                      let* s4 := skip_newlines tk f s3 in
                      let* (o', s5) := p_full_compound f s4 in
                      match o' with
                      | Some (c, rs) => Ok (Some (CFunction false name c rs), s5)
                      | None => Err                                  
                      end
                  | _ => Err                                         
                  end
              | _ => Ok (Some (CSimple a w r), s1)
              end
          | _, _, _ => Ok (Some (CSimple a w r), s1)
          end
      | None =>
          let* (o', s2) := p_full_compound f s1 in
          match o' with
          | Some (c, rs) => Ok (Some (CCompound c rs), s2)
          | None =>
              let* (t, _) := tk s2 in
              match t_id t with
              | TToken (Some (KFunction | KOpenBracketBracket | KNamespace | KSelect)) => Err
              | _ => Ok (None, s2)
              end
          end
      end.
Proof. reflexivity. Qed.

Lemma p_simple_eq (f : nat) (decl : option bool) (b : builder) (s : str) :
  p_simple (S f) decl b s =

      let tk := lex_token (p_inner f) f in
      let finish (s' : str) :=
        if builder_is_empty b then Ok (None, s')
        else Ok (Some (rev (b_assigns b), rev (b_words b), rev (b_redirs b)), s') in
      let* (o, s1) := p_redir tk s in
      match o with
      | Some r => p_simple f decl (mkBuilder (b_assigns b) (b_words b) (r :: b_redirs b)) s1
      | None =>
          let* (t, s2) := tk s1 in
          let take :=
            match t_id t with
            | TToken (Some _) => negb (builder_is_empty b)
            | TToken None => true
            | _ => false
            end in
          if negb take then finish s1
          else
            let w := t_word t in
            match decl with
            | Some d =>
                let e := if d then determine_expansion_mode w else (w, Multiple) in
                p_simple f decl (mkBuilder (b_assigns b) (e :: b_words b) (b_redirs b)) s2
            | _ =>
                let a := match b_words b with [] => assign_of_word w | _ => None end in
                match a with
                | None =>
                    p_simple f (names_declaration_utility w)
                             (mkBuilder (b_assigns b) ((w, Multiple) :: b_words b) (b_redirs b)) s2
                | Some a =>
                    
                    let empty := match a_value a with Scalar [] => true | _ => false end in
                    let blank := match skip_lc s2 with c :: _ => is_blank c | [] => false end in
                    let* (a', s3) :=
                      (if empty && negb blank then
                         let* (t', s2') := tk s2 in
                         match t_id t' with
                         | TOp OpOpenParen =>
                             let* (ws, s3) := p_array tk f s2' in
                             Ok (mkAssign (a_name a) (Array ws), s3)
                         | _ => Ok (a, s2)
                         end
                       else Ok (a, s2)) in
                    p_simple f decl (mkBuilder (a' :: b_assigns b) (b_words b) (b_redirs b)) s3
                end
            end
      end.
Proof. reflexivity. Qed.

Lemma p_full_compound_eq (f : nat) (s : str) :
  p_full_compound (S f) s =

      let tk := lex_token (p_inner f) f in
      let* (o, s1) := p_compound f s in
      match o with
      | None => Ok (None, s1)
      | Some c => let* (rs, s2) := p_redirs tk f s1 in Ok (Some (c, rs), s2)
      end.
Proof. reflexivity. Qed.

Lemma p_compound_eq (f : nat) (s : str) :
  p_compound (S f) s =

      let tk := lex_token (p_inner f) f in
      let* (t, s1) := tk s in
      match t_id t with
      | TToken (Some KOpenBrace) =>
          
          let* (l, s2) := p_mcl f s1 in
          let* (c, s3) := tk s2 in
          match t_id c, l with
          | TToken (Some KCloseBrace), _ :: _ => Ok (Some (Grouping l), s3)
          | _, _ => Err
          end
      | TOp OpOpenParen =>
          
          let* (l, s2) := p_mcl f s1 in
          let* (c, s3) := tk s2 in
          match t_id c, l with
          | TOp OpCloseParen, _ :: _ => Ok (Some (Subshell l), s3)
          | _, _ => Err
          end
      | TToken (Some KFor) =>
          
          let* (n, s2) := tk s1 in
          match t_id n with
          | TToken _ | TIoNumber | TIoLocation =>
              let* (vs, s3) := p_for_values tk f true s2 in
              let* s4 := skip_newlines tk f s3 in
              let* (o, s5) := p_do_clause f s4 in
              match o with
              | Some body => Ok (Some (For (t_word n) vs body), s5)
              | None => Err                                          
              end
          | _ => Err                                                 
          end
      | TToken (Some KWhile) =>
          let* (c, s2) := p_mcl f s1 in
          match c with
          | [] => Err
          | _ => let* (o, s3) := p_do_clause f s2 in
                 match o with Some b => Ok (Some (While c b), s3) | None => Err end
          end
      | TToken (Some KUntil) =>
          let* (c, s2) := p_mcl f s1 in
          match c with
          | [] => Err
          | _ => let* (o, s3) := p_do_clause f s2 in
                 match o with Some b => Ok (Some (Until c b), s3) | None => Err end
          end
      | TToken (Some KIf) =>
          
          let* (c, s2) := p_mcl f s1 in
          let* (th, s3) := tk s2 in
          match c, t_id th with
          | _ :: _, TToken (Some KThen) =>
              let* (b, s4) := p_mcl f s3 in
              match b with
              | [] => Err
              | _ =>
                  let* (es, s5) := p_elifs f s4 in
                  let* (t', s6) := tk s5 in
                  let* (el, s7) :=
                    (match t_id t' with
                     | TToken (Some KElse) =>
                         let* (l, s7) := p_mcl f s6 in
                         match l with [] => Err | _ => Ok (Some l, s7) end
                     | _ => Ok (None, s5)
                     end) in
                  let* (fi, s8) := tk s7 in
                  match t_id fi with
                  | TToken (Some KFi) => Ok (Some (If c b es el), s8)
                  | _ => Err                                         
                  end
              end
          | _, _ => Err
          end
      | TToken (Some KCase) =>
          
          let* (subj, s2) := tk s1 in
          match t_id subj with
          | TToken _ =>
              let* s3 := skip_newlines tk f s2 in
              let* (i, s4) := tk s3 in
              match t_id i with
              | TToken (Some KIn) =>
                  let* (items, s5) := p_case_items f s4 in
                  let* (e, s6) := tk s5 in
                  match t_id e with
                  | TToken (Some KEsac) => Ok (Some (Case (t_word subj) items), s6)
                  | _ => Err                                         
                  end
              | _ => Err                                             
              end
          | _ => Err
          end
      | _ => Ok (None, s)
      end.
Proof. reflexivity. Qed.

Lemma p_do_clause_eq (f : nat) (s : str) :
  p_do_clause (S f) s =

      let tk := lex_token (p_inner f) f in
      let* (t, s1) := tk s in
      match t_id t with
      | TToken (Some KDo) =>
          let* (l, s2) := p_mcl f s1 in
          let* (c, s3) := tk s2 in
          match t_id c, l with
          | TToken (Some KDone), _ :: _ => Ok (Some l, s3)
          | _, _ => Err
          end
      | _ => Ok (None, s)
      end.
Proof. reflexivity. Qed.

Lemma p_elifs_eq (f : nat) (s : str) :
  p_elifs (S f) s =

      let tk := lex_token (p_inner f) f in
      let* (t, s1) := tk s in
      match t_id t with
      | TToken (Some KElif) =>
          let* (c, s2) := p_mcl f s1 in
          let* (th, s3) := tk s2 in
          match c, t_id th with
          | _ :: _, TToken (Some KThen) =>
              let* (b, s4) := p_mcl f s3 in
              match b with
              | [] => Err
              | _ => let* (es, s5) := p_elifs f s4 in Ok ((c, b) :: es, s5)
              end
          | _, _ => Err
          end
      | _ => Ok ([], s)
      end.
Proof. reflexivity. Qed.

Lemma p_case_items_eq (f : nat) (s : str) :
  p_case_items (S f) s =

      let tk := lex_token (p_inner f) f in
      let* s0 := skip_newlines tk f s in
      let* (t, s1) := tk s0 in
      match t_id t with
      | TToken (Some KEsac) => Ok ([], s0)
      | _ =>
          let* (first, s2) :=
            (match t_id t with
             | TToken _ => Ok (t_word t, s1)
             | TOp OpOpenParen =>
                 let* (p, s2) := tk s1 in
                 match t_id p with
                 | TToken _ => Ok (t_word p, s2)
                 | _ => Err
                 end
             | _ => Err
             end) in
          let* (ps, s3) := p_patterns tk f s2 in
          let* (body, s4) := p_mcl f s3 in
          let* (c, s5) := tk s4 in
          match match t_id c with TOp op => case_cont_of op | _ => None end with
          | Some cont =>
              let* (items, s6) := p_case_items f s5 in
              Ok (CaseItem (first :: ps) body cont :: items, s6)
          | None => Ok ([CaseItem (first :: ps) body CcBreak], s4)
          end
      end.
Proof. reflexivity. Qed.
