(* C06 -- proofs, part 22: pipelines, and-or lists and lists of simple commands. *)
From Yv Require Import Common.Base C06.Ast C06.Print C06.Lex C06.LexEq C06.Parse C06.ParseEq
  C06.Spec C06.ProofsLen C06.ProofsStop C06.ProofsTilde C06.ProofsNum C06.ProofsRtBase C06.ProofsRt
  C06.ProofsMono C06.ProofsOp C06.ProofsToken C06.ProofsInner C06.ProofsRedir C06.SpecCmd C06.ProofsCmdBase C06.ProofsSimple
  C06.ProofsSimpleAux C06.ProofsSimpleFirst C06.ProofsSimpleRun C06.ProofsCommand C06.ProofsParse C06.ProofsTop.
From Coq Require Ascii String.
Import Coq.Strings.String.StringSyntax.
Local Open Scope N_scope.

(* ---- more fuel does not change a result ---- *)
Lemma tk2_mono f f' s R : (f <= f')%nat -> tk2 f s = R -> R <> Fuel -> tk2 f' s = R.
Proof.
  intros Hle H HR. eapply lex_token_mono; [|exact Hle | exact H | exact HR].
  intros x R0 X HR0. eapply (gm_inner f (parser_mono f)); eauto.
Qed.

Lemma skip_newlines_none tk f s t r :
  tk s = Ok (t, r) -> t_id t <> TOp OpNewline -> skip_newlines tk (S f) s = Ok s.
Proof.
  intros H Hn. cbn [skip_newlines]. unfold bind. rewrite H.
  destruct (t_id t) as [|op| | |]; try reflexivity. destruct op; try reflexivity. congruence.
Qed.

(* ---- what the printer puts after a command, a pipeline, an and-or list ---- *)
Definition za (z : str) : Prop :=
  z = [] \/ z = [38] \/ (exists x, z = 59 :: 32 :: x) \/ (exists x, z = 38 :: 32 :: x)
  \/ (exists x, z = 41 :: x) \/ (exists x, z = 38 :: 41 :: x).
Definition zp (z : str) : Prop :=
  za z \/ (exists x, z = 32 :: 38 :: 38 :: 32 :: x) \/ (exists x, z = 32 :: 124 :: 124 :: 32 :: x).
Definition zc (z : str) : Prop := zp z \/ (exists x, z = 32 :: 124 :: 32 :: x).

Lemma zc_follow z : zc z -> follow z /\ cmd_end z.
Proof.
  unfold zc, zp, za, follow, cmd_end.
  intros [[[->|[->|[[x ->]|[[x ->]|[[x ->]|[x ->]]]]]]|[[x ->]|[x ->]]]|[x ->]]; rewrite ?sbc_blank;
    try rewrite skip_blanks_and_comment_id by (try reflexivity; apply nolc_cons; reflexivity);
    cbn; split; eauto 8.
  all: try (right; right; eexists _, _; split; [reflexivity | reflexivity]).
Qed.

(* the tokens at these places *)
Lemma op_token i f z c x op r :
  skip_blanks_and_comment z = c :: x -> lex_operator (c :: x) = Some (op, r) ->
  lex_token i f z = Ok (mkToken [] (TOp op) (c :: x), r).
Proof. intros E1 E2. unfold lex_token. rewrite E1, E2. reflexivity. Qed.

Lemma tok_semicolon i f x :
  lex_token i f (59 :: 32 :: x) = Ok (mkToken [] (TOp OpSemicolon) (59 :: 32 :: x), 32 :: x).
Proof.
  apply op_token; [apply skip_blanks_and_comment_id; reflexivity|].
  unfold lex_operator. rewrite skip_lc_nonbslash by reflexivity. cbn -[alt]. unfold alt.
  rewrite skip_lc_nonbslash by reflexivity. reflexivity.
Qed.

Lemma tok_and_blank i f x :
  lex_token i f (38 :: 32 :: x) = Ok (mkToken [] (TOp OpAnd) (38 :: 32 :: x), 32 :: x).
Proof.
  apply op_token; [apply skip_blanks_and_comment_id; reflexivity|].
  unfold lex_operator. rewrite skip_lc_nonbslash by reflexivity. cbn -[alt]. unfold alt.
  rewrite skip_lc_nonbslash by reflexivity. reflexivity.
Qed.

Lemma tok_and_end i f :
  lex_token i f [38] = Ok (mkToken [] (TOp OpAnd) [38], []).
Proof. apply op_token; reflexivity. Qed.

Lemma tok_andand i f x :
  lex_token i f (32 :: 38 :: 38 :: 32 :: x)
  = Ok (mkToken [] (TOp OpAndAnd) (38 :: 38 :: 32 :: x), 32 :: x).
Proof.
  apply op_token; [rewrite sbc_blank; apply skip_blanks_and_comment_id; reflexivity|].
  unfold lex_operator. rewrite skip_lc_nonbslash by reflexivity. cbn -[alt]. unfold alt.
  rewrite skip_lc_nonbslash by reflexivity. reflexivity.
Qed.

Lemma tok_barbar i f x :
  lex_token i f (32 :: 124 :: 124 :: 32 :: x)
  = Ok (mkToken [] (TOp OpBarBar) (124 :: 124 :: 32 :: x), 32 :: x).
Proof.
  apply op_token; [rewrite sbc_blank; apply skip_blanks_and_comment_id; reflexivity|].
  unfold lex_operator. rewrite skip_lc_nonbslash by reflexivity. cbn -[alt]. unfold alt.
  rewrite skip_lc_nonbslash by reflexivity. reflexivity.
Qed.

Lemma tok_bar i f x :
  lex_token i f (32 :: 124 :: 32 :: x)
  = Ok (mkToken [] (TOp OpBar) (124 :: 32 :: x), 32 :: x).
Proof.
  apply op_token; [rewrite sbc_blank; apply skip_blanks_and_comment_id; reflexivity|].
  unfold lex_operator. rewrite skip_lc_nonbslash by reflexivity. cbn -[alt]. unfold alt.
  rewrite skip_lc_nonbslash by reflexivity. reflexivity.
Qed.

Lemma tok_rparen i f x :
  lex_token i f (41 :: x) = Ok (mkToken [] (TOp OpCloseParen) (41 :: x), x).
Proof.
  apply op_token; [apply skip_blanks_and_comment_id; try reflexivity; apply nolc_cons; reflexivity|].
  unfold lex_operator. rewrite skip_lc_nonbslash by reflexivity. reflexivity.
Qed.

Lemma tok_and_rparen i f x :
  lex_token i f (38 :: 41 :: x) = Ok (mkToken [] (TOp OpAnd) (38 :: 41 :: x), 41 :: x).
Proof.
  apply op_token; [apply skip_blanks_and_comment_id; reflexivity|].
  unfold lex_operator. rewrite skip_lc_nonbslash by reflexivity. cbn -[alt]. unfold alt.
  rewrite skip_lc_nonbslash by reflexivity. reflexivity.
Qed.

Lemma tok_end i f : (2 <= f)%nat -> lex_token i f [] = Ok (mkToken [] TEnd [], []).
Proof.
  intros Hf. destruct f as [|[|f]]; try lia.
  unfold lex_token. cbn [skip_blanks_and_comment length skip_blanks skip_lc lex_operator skip_comment]. unfold bind.
  rewrite lex_units_eq. unfold bind. rewrite lex_wu_eq. cbn [skip_lc]. reflexivity.
Qed.

(* ---- the negation ---- *)
Lemma tok_bang i f x pre :
  is_lead pre -> (4 <= f)%nat ->
  lex_token i f (pre ++ 33 :: 32 :: x)
  = Ok (mkToken [Unquoted (Literal 33)] (TToken (Some KBang)) (33 :: 32 :: x), 32 :: x).
Proof.
  intros Hl Hf.
  assert (E : lex_token i f (33 :: 32 :: x)
              = Ok (mkToken [Unquoted (Literal 33)] (TToken (Some KBang)) (33 :: 32 :: x), 32 :: x)).
  { unfold lex_token. rewrite skip_blanks_and_comment_id by reflexivity.
    assert (Eo : lex_operator (33 :: 32 :: x) = None).
    { unfold lex_operator. rewrite skip_lc_nonbslash by reflexivity. reflexivity. }
    rewrite Eo. unfold bind.
    pose proof (lex_units_plain i [33] (32 :: x) f eq_refl (nolc_cons 32 x eq_refl) eq_refl ltac:(cbn; lia)) as L.
    cbn [app] in L. rewrite L. reflexivity. }
  destruct Hl as [-> | ->]; cbn [app]; rewrite ?lex_token_blank; exact E.
Qed.

Lemma bang_no_command f x pre :
  is_lead pre -> (8 <= f)%nat -> p_command f (pre ++ 33 :: 32 :: x) = Ok (None, pre ++ 33 :: 32 :: x).
Proof.
  intros Hl Hf. destruct f as [|[|[|f]]]; try lia.
  rewrite p_command_eq. cbv zeta. unfold bind.
  assert (Hs : p_simple (S (S f)) None (mkBuilder [] [] []) (pre ++ 33 :: 32 :: x)
               = Ok (None, pre ++ 33 :: 32 :: x)).
  { rewrite p_simple_eq. cbv zeta. unfold bind.
    assert (Hr : p_redir (tk2 (S f)) (pre ++ 33 :: 32 :: x) = Ok (None, pre ++ 33 :: 32 :: x)).
    { unfold p_redir, bind. rewrite (tok_bang _ (S f) x pre Hl ltac:(lia)). cbn [t_id].
      rewrite (tok_bang _ (S f) x pre Hl ltac:(lia)). reflexivity. }
    rewrite Hr. rewrite (tok_bang _ (S f) x pre Hl ltac:(lia)). reflexivity. }
  rewrite Hs.
  assert (Hc : p_full_compound (S (S f)) (pre ++ 33 :: 32 :: x) = Ok (None, pre ++ 33 :: 32 :: x)).
  { rewrite p_full_compound_eq. cbv zeta. unfold bind. rewrite p_compound_eq. cbv zeta. unfold bind.
    rewrite (tok_bang _ f x pre Hl ltac:(lia)). reflexivity. }
  rewrite Hc. rewrite (tok_bang _ (S (S f)) x pre Hl ltac:(lia)). reflexivity.
Qed.

(* ---- the tokens that open and close a grouping or a subshell ---- *)
Lemma tok_lbrace i f x pre :
  is_lead pre -> (4 <= f)%nat ->
  lex_token i f (pre ++ 123 :: 32 :: x)
  = Ok (mkToken [Unquoted (Literal 123)] (TToken (Some KOpenBrace)) (123 :: 32 :: x), 32 :: x).
Proof.
  intros Hl Hf.
  assert (E : lex_token i f (123 :: 32 :: x)
              = Ok (mkToken [Unquoted (Literal 123)] (TToken (Some KOpenBrace)) (123 :: 32 :: x), 32 :: x)).
  { unfold lex_token. rewrite skip_blanks_and_comment_id by reflexivity.
    assert (Eo : lex_operator (123 :: 32 :: x) = None).
    { unfold lex_operator. rewrite skip_lc_nonbslash by reflexivity. reflexivity. }
    rewrite Eo. unfold bind.
    pose proof (lex_units_plain i [123] (32 :: x) f eq_refl (nolc_cons 32 x eq_refl) eq_refl ltac:(cbn; lia)) as L.
    cbn [app] in L. rewrite L. reflexivity. }
  destruct Hl as [-> | ->]; cbn [app]; rewrite ?lex_token_blank; exact E.
Qed.

Lemma tok_rbrace i f x pre :
  is_lead pre -> nolc x -> stops DToken x -> (4 <= f)%nat ->
  lex_token i f (pre ++ 125 :: x)
  = Ok (mkToken [Unquoted (Literal 125)] (TToken (Some KCloseBrace)) (125 :: x), x).
Proof.
  intros Hl Hn Hs Hf.
  assert (E : lex_token i f (125 :: x)
              = Ok (mkToken [Unquoted (Literal 125)] (TToken (Some KCloseBrace)) (125 :: x), x)).
  { unfold lex_token.
    rewrite skip_blanks_and_comment_id by (try reflexivity; apply nolc_cons; reflexivity).
    assert (Eo : lex_operator (125 :: x) = None).
    { unfold lex_operator. rewrite skip_lc_nonbslash by reflexivity. reflexivity. }
    rewrite Eo. unfold bind.
    pose proof (lex_units_plain i [125] x f eq_refl Hn Hs ltac:(cbn; lia)) as L.
    cbn [app] in L. rewrite L. reflexivity. }
  destruct Hl as [-> | ->]; cbn [app]; rewrite ?lex_token_blank; exact E.
Qed.

(* the reserved words that follow a list printed in the alternate form *)
Definition closer (k : keyword) (cs : str) : Prop :=
  (k = KCloseBrace /\ cs = [125]) \/ (k = KDo /\ cs = [100; 111]) \/
  (k = KDone /\ cs = [100; 111; 110; 101]).

Lemma tok_closer i f k cs x pre :
  closer k cs -> is_lead pre -> nolc x -> stops DToken x -> (8 <= f)%nat ->
  lex_token i f (pre ++ cs ++ x) = Ok (mkToken (wlits cs) (TToken (Some k)) (cs ++ x), x).
Proof.
  intros Hk Hl Hn Hs Hf.
  assert (E : lex_token i f (cs ++ x) = Ok (mkToken (wlits cs) (TToken (Some k)) (cs ++ x), x)).
  { destruct Hk as [[-> ->]|[[-> ->]|[-> ->]]]; cbn [app];
      unfold lex_token;
      rewrite skip_blanks_and_comment_id by (try reflexivity; apply nolc_cons; reflexivity);
      match goal with |- context [lex_operator ?t] =>
        assert (Eo : lex_operator t = None)
          by (unfold lex_operator; rewrite skip_lc_nonbslash by reflexivity; reflexivity)
      end; rewrite Eo; unfold bind.
    - pose proof (lex_units_plain i [125] x f eq_refl Hn Hs ltac:(cbn; lia)) as L.
      cbn [app] in L. rewrite L. reflexivity.
    - pose proof (lex_units_plain i [100; 111] x f eq_refl Hn Hs ltac:(cbn; lia)) as L.
      cbn [app] in L. rewrite L. reflexivity.
    - pose proof (lex_units_plain i [100; 111; 110; 101] x f eq_refl Hn Hs ltac:(cbn; lia)) as L.
      cbn [app] in L. rewrite L. reflexivity. }
  destruct Hl as [-> | ->]; cbn [app]; rewrite ?lex_token_blank; exact E.
Qed.

Lemma tok_lparen i f x pre :
  is_lead pre ->
  lex_token i f (pre ++ 40 :: x) = Ok (mkToken [] (TOp OpOpenParen) (40 :: x), x).
Proof.
  intros Hl.
  assert (E : lex_token i f (40 :: x) = Ok (mkToken [] (TOp OpOpenParen) (40 :: x), x)).
  { apply op_token; [apply skip_blanks_and_comment_id; try reflexivity; apply nolc_cons; reflexivity|].
    unfold lex_operator. rewrite skip_lc_nonbslash by reflexivity. reflexivity. }
  destruct Hl as [-> | ->]; cbn [app]; rewrite ?lex_token_blank; exact E.
Qed.

(* no command starts at a closing parenthesis or brace: list.rs returns the
   empty list there and consumes nothing *)
Lemma closer_no_list s w id at_ r :
  (forall f, (8 <= f)%nat -> tk2 f s = Ok (mkToken w id at_, r)) ->
  id = TOp OpCloseParen \/ (exists k, id = TToken (Some k) /\ (k = KCloseBrace \/ k = KDo \/ k = KDone)) ->
  forall f, (16 <= f)%nat -> p_list f s = Ok ([], s).
Proof.
  intros Ht Hid f Hf.
  assert (Hr : forall g, (8 <= g)%nat -> p_redir (tk2 g) s = Ok (None, s)).
  { intros g Hg. unfold p_redir, bind. rewrite (Ht g Hg).
    destruct Hid as [-> | (k0 & -> & [->|[->| ->]])]; cbn [t_id t_word]; rewrite (Ht g Hg); reflexivity. }
  assert (Hs : forall e, (9 <= e)%nat -> p_simple e None (mkBuilder [] [] []) s = Ok (None, s)).
  { intros e He. destruct e as [|e]; [lia|]. rewrite p_simple_eq. cbv zeta. unfold bind.
    rewrite (Hr e ltac:(lia)). rewrite (Ht e ltac:(lia)). destruct Hid as [-> | (k0 & -> & [->|[->| ->]])]; reflexivity. }
  assert (Hc : forall e, (9 <= e)%nat -> p_compound e s = Ok (None, s)).
  { intros e He. destruct e as [|e]; [lia|]. rewrite p_compound_eq. cbv zeta. unfold bind.
    rewrite (Ht e ltac:(lia)). destruct Hid as [-> | (k0 & -> & [->|[->| ->]])]; reflexivity. }
  assert (Hfc : forall d, (10 <= d)%nat -> p_full_compound d s = Ok (None, s)).
  { intros d Hd. destruct d as [|d]; [lia|]. rewrite p_full_compound_eq. cbv zeta. unfold bind.
    rewrite (Hc d ltac:(lia)). reflexivity. }
  assert (Hcm : forall c, (11 <= c)%nat -> p_command c s = Ok (None, s)).
  { intros c Hc'. destruct c as [|c]; [lia|]. rewrite p_command_eq. cbv zeta. unfold bind.
    rewrite (Hs c ltac:(lia)). rewrite (Hfc c ltac:(lia)). rewrite (Ht c ltac:(lia)).
    destruct Hid as [-> | (k0 & -> & [->|[->| ->]])]; reflexivity. }
  assert (Hp : forall b, (12 <= b)%nat -> p_pipeline b s = Ok (None, s)).
  { intros b Hb. destruct b as [|b]; [lia|]. rewrite p_pipeline_eq. cbv zeta. unfold bind.
    rewrite (Hcm b ltac:(lia)). rewrite (Ht b ltac:(lia)). destruct Hid as [-> | (k0 & -> & [->|[->| ->]])]; reflexivity. }
  assert (Ha : forall a, (13 <= a)%nat -> p_and_or a s = Ok (None, s)).
  { intros a Ha'. destruct a as [|a]; [lia|]. rewrite p_and_or_eq. cbv zeta. unfold bind.
    rewrite (Hp a ltac:(lia)). reflexivity. }
  destruct f as [|f]; [lia|]. rewrite p_list_eq. cbv zeta. unfold bind.
  rewrite (Ha f ltac:(lia)). reflexivity.
Qed.

(* ---- commands: simple commands ---- *)
Definition cmd_first (c : command) : Prop :=
  match c with
  | CSimple a w rds => exists f s r, p_simple f None empty_b s = Ok (Some (a, w, rds), r)
  | _ => True
  end.

Definition cmd_clean (c : command) : Prop :=
  match c with
  | CSimple a w rds => nocs_res (a, w, rds) /\ nobs_res (a, w, rds)
  | _ => False
  end.

Definition cmd_good (c : command) : Prop := cmd_first c /\ cmd_clean c.

Lemma simple_no_newline f x res r :
  p_simple f None empty_b x = Ok (Some res, r) ->
  exists f0 t r', tk2 f0 x = Ok (t, r') /\ t_id t <> TOp OpNewline.
Proof.
  destruct f as [|f]; [discriminate|]. rewrite p_simple_eq. cbv zeta. unfold bind.
  destruct (tk2 f x) as [[t r']| | | |] eqn:Et.
  2-5: unfold p_redir, bind; rewrite Et; discriminate.
  intros H. exists f, t, r'. split; [exact Et|]. intros Hid.
  assert (Hr : p_redir (tk2 f) x = Ok (None, x)).
  { unfold p_redir, bind. rewrite Et, Hid, Et, Hid. reflexivity. }
  rewrite Hr, Et, Hid in H. cbn in H. discriminate.
Qed.

(* a command that was read: more fuel reads it too, and no newline is in front *)
Lemma command_replay c z pre :
  cmd_good c -> follow z -> cmd_end z -> is_lead pre ->
  exists f0, forall f, (f0 <= f)%nat ->
    p_command f (pre ++ print_command c ++ z) = Ok (Some c, z) /\
    forall k, skip_newlines (tk2 f) (S k) (pre ++ print_command c ++ z) = Ok (pre ++ print_command c ++ z).
Proof.
  intros [Hf Hc] Hz He Hl. destruct c as [a w rds| |]; try contradiction.
  destruct Hf as (f1 & s1 & r1 & H1). destruct Hc as [Hn Hb].
  assert (H1' : p_command (S f1) s1 = Ok (Some (CSimple a w rds), r1) \/ True) by auto.
  destruct (simple_print_lemma _ _ _ _ _ _ z pre H1 (or_intror Hb) Hn Hz He Hl) as [F HF].
  pose proof (HF F (le_n _)) as HFF.
  destruct (simple_no_newline _ _ _ _ HFF) as (f2 & t & r' & Et & Hid).
  exists (S (max (max F 3) f2)). intros f Hle. split.
  - destruct f as [|f]; [lia|]. rewrite p_command_eq. cbv zeta. unfold bind.
    change (mkBuilder [] [] []) with empty_b. cbn [print_command]. rewrite (HF f ltac:(lia)).
    destruct (cmd_end_token (p_inner f) f z He ltac:(lia)) as (t0 & r0 & Et0 & _ & _ & Hid0).
    destruct a; [|reflexivity]. destruct w as [|[name m] [|]]; try reflexivity.
    destruct rds; [|reflexivity]. rewrite Et0.
    destruct (t_id t0) as [|op| | |]; try reflexivity. destruct op; try reflexivity.
    destruct Hid0 as (_ & X & _). congruence.
  - intros k. eapply skip_newlines_none; [|exact Hid].
    eapply tk2_mono; [|exact Et | discriminate]. lia.
Qed.

(* ---- a class of commands that are read back from their printed text ---- *)
Definition replays (P : command -> Prop) : Prop :=
  forall c z pre, P c -> follow z -> cmd_end z -> is_lead pre ->
  exists f0, forall f, (f0 <= f)%nat ->
    p_command f (pre ++ print_command c ++ z) = Ok (Some c, z) /\
    forall k, skip_newlines (tk2 f) (S k) (pre ++ print_command c ++ z) = Ok (pre ++ print_command c ++ z).

Lemma cmd_good_replays : replays cmd_good.
Proof. intros c z pre. apply command_replay. Qed.

(* pipelines (not empty), and-or lists and items made of commands of a class *)
Definition gpl (P : command -> Prop) (p : pipeline) : Prop :=
  match p with Pipeline cs _ => cs <> [] /\ Forall P cs end.
Definition gao (P : command -> Prop) (ao : and_or_list) : Prop :=
  match ao with AndOrList p rest => gpl P p /\ Forall (fun x => gpl P (snd x)) rest end.
Definition gitem (P : command -> Prop) (i : item) : Prop := match i with Item ao _ => gao P ao end.

(* what follows a printed list: the end of the text or the closing parenthesis
   of a subshell (plain form); " }" and something that ends a word (alternate
   form, in which every item carries its separator) *)
Definition zl (alt : bool) (zt : str) : Prop :=
  if alt then exists k cs x, zt = 32 :: cs ++ x /\ closer k cs /\ nolc x /\ stops DToken x
  else zt = [] \/ exists x, zt = 41 :: x.

Lemma zp_zc z : zp z -> zc z. Proof. left. assumption. Qed.
Lemma za_zp z : za z -> zp z. Proof. left. assumption. Qed.

(* the token after a pipeline is not `|` *)
Lemma zp_token z f : zp z -> (2 <= f)%nat ->
  exists t r, tk2 f z = Ok (t, r) /\ t_id t <> TOp OpBar.
Proof.
  intros [[->|[->|[[x ->]|[[x ->]|[[x ->]|[x ->]]]]]]|[[x ->]|[x ->]]] Hf.
  - rewrite tok_end by exact Hf. eexists _, _. split; [reflexivity | discriminate].
  - rewrite tok_and_end. eexists _, _. split; [reflexivity | discriminate].
  - rewrite tok_semicolon. eexists _, _. split; [reflexivity | discriminate].
  - rewrite tok_and_blank. eexists _, _. split; [reflexivity | discriminate].
  - rewrite tok_rparen. eexists _, _. split; [reflexivity | discriminate].
  - rewrite tok_and_rparen. eexists _, _. split; [reflexivity | discriminate].
  - rewrite tok_andand. eexists _, _. split; [reflexivity | discriminate].
  - rewrite tok_barbar. eexists _, _. split; [reflexivity | discriminate].
Qed.

Definition pipe_tail (cs : list command) : str :=
  cat_map (fun c => [32; 124; 32] ++ print_command c) cs.

Lemma pipe_tail_zc cs z : zp z -> zc (pipe_tail cs ++ z).
Proof.
  intros Hz. destruct cs as [|c cs]; [apply zp_zc; exact Hz|].
  right. unfold pipe_tail. cbn [cat_map app]. rewrite <- !app_assoc. eauto.
Qed.

Lemma print_pipeline_cons c cs neg :
  print_pipeline (Pipeline (c :: cs) neg)
  = (if neg then [33; 32] else []) ++ print_command c ++ pipe_tail cs.
Proof.
  cbn [print_pipeline]. change (kw " | ") with [32; 124; 32]. change (kw "! ") with [33; 32].
  rewrite join_map_cons. reflexivity.
Qed.

Definition ao_tail (rest : list (and_or * pipeline)) : str :=
  cat_map (fun x => [32] ++ print_andor (fst x) ++ [32] ++ print_pipeline (snd x)) rest.

Lemma ao_tail_zp rest z : za z -> zp (ao_tail rest ++ z).
Proof.
  intros Hz. destruct rest as [|[a p] rest]; [apply za_zp; exact Hz|].
  right. unfold ao_tail. cbn [cat_map fst snd]. destruct a; cbn [print_andor app]; rewrite <- !app_assoc; cbn [app]; eauto.
Qed.

Lemma za_token z f : za z -> (2 <= f)%nat ->
  exists t r, tk2 f z = Ok (t, r) /\ t_id t <> TOp OpAndAnd /\ t_id t <> TOp OpBarBar.
Proof.
  intros [->|[->|[[x ->]|[[x ->]|[[x ->]|[x ->]]]]]] Hf.
  - rewrite tok_end by exact Hf. eexists _, _. split; [reflexivity | split; discriminate].
  - rewrite tok_and_end. eexists _, _. split; [reflexivity | split; discriminate].
  - rewrite tok_semicolon. eexists _, _. split; [reflexivity | split; discriminate].
  - rewrite tok_and_blank. eexists _, _. split; [reflexivity | split; discriminate].
  - rewrite tok_rparen. eexists _, _. split; [reflexivity | split; discriminate].
  - rewrite tok_and_rparen. eexists _, _. split; [reflexivity | split; discriminate].
Qed.

Lemma p_list_nil f : (12 <= f)%nat -> p_list f [] = Ok ([], []).
Proof.
  intros Hf. apply (gm_list 12 (parser_mono 12) f [] _ Hf); [vm_compute; reflexivity | discriminate].
Qed.

Section Generic.
  Variable P : command -> Prop.
  Hypothesis P_replay : replays P.

Lemma pipe_rest_replay cs : Forall P cs -> forall z, zp z ->
  exists f0, forall f, (f0 <= f)%nat -> p_pipe_rest f (pipe_tail cs ++ z) = Ok (cs, z).
Proof.
  induction 1 as [|c cs Hc _ IH]; intros z Hz.
  - exists 3%nat. intros f Hf. destruct f as [|f]; [lia|]. rewrite p_pipe_rest_eq. cbv zeta. unfold bind.
    cbn [pipe_tail cat_map app].
    destruct (zp_token z f Hz ltac:(lia)) as (t & r & Et & Hid). rewrite Et.
    destruct (t_id t) as [|op| | |]; try reflexivity. destruct op; try reflexivity. congruence.
  - destruct (IH z Hz) as [f1 H1].
    pose proof (pipe_tail_zc cs z Hz) as Hzc. destruct (zc_follow _ Hzc) as [Hfo Hce].
    destruct (P_replay c (pipe_tail cs ++ z) [32] Hc Hfo Hce (or_intror eq_refl)) as [f2 H2].
    exists (S (S (max f1 f2))). intros f Hf. destruct f as [|f]; [lia|].
    rewrite p_pipe_rest_eq. cbv zeta. unfold bind.
    unfold pipe_tail at 1. cbn [cat_map]. fold (pipe_tail cs). rewrite <- !app_assoc. cbn [app].
    rewrite tok_bar. cbn [t_id].
    destruct (H2 f ltac:(lia)) as [Hcmd Hsk]. cbn [app] in Hcmd, Hsk.
    destruct f as [|f']; [lia|]. rewrite (Hsk f'). rewrite Hcmd. rewrite (H1 (S f') ltac:(lia)). reflexivity.
Qed.

Lemma pipeline_replay c cs neg z pre :
  Forall P (c :: cs) -> zp z -> is_lead pre ->
  exists f0, forall f, (f0 <= f)%nat ->
    p_pipeline f (pre ++ print_pipeline (Pipeline (c :: cs) neg) ++ z) = Ok (Some (Pipeline (c :: cs) neg), z) /\
    forall k, skip_newlines (tk2 f) (S k) (pre ++ print_pipeline (Pipeline (c :: cs) neg) ++ z)
              = Ok (pre ++ print_pipeline (Pipeline (c :: cs) neg) ++ z).
Proof.
  intros Hg Hz Hl. pose proof (Forall_inv Hg) as Hc. pose proof (Forall_inv_tail Hg) as Hcs.
  destruct (pipe_rest_replay cs Hcs z Hz) as [f1 H1].
  pose proof (pipe_tail_zc cs z Hz) as Hzc. destruct (zc_follow _ Hzc) as [Hfo Hce].
  rewrite print_pipeline_cons. destruct neg.
  - destruct (P_replay c (pipe_tail cs ++ z) [32] Hc Hfo Hce (or_intror eq_refl)) as [f2 H2].
    exists (S (max (max f1 f2) 8)). intros f Hf. rewrite <- !app_assoc. cbn [app].
    split.
    + destruct f as [|f]; [lia|]. rewrite p_pipeline_eq. cbv zeta. unfold bind.
      rewrite (bang_no_command f _ pre Hl ltac:(lia)).
      rewrite (tok_bang _ f _ pre Hl ltac:(lia)). cbn [t_id].
      destruct (H2 f ltac:(lia)) as [Hcmd _]. cbn [app] in Hcmd. rewrite Hcmd.
      rewrite (H1 f ltac:(lia)). reflexivity.
    + intros k. eapply skip_newlines_none; [apply (tok_bang _ f _ pre Hl); lia | discriminate].
  - destruct (P_replay c (pipe_tail cs ++ z) pre Hc Hfo Hce Hl) as [f2 H2].
    exists (S (max f1 f2)). intros f Hf. cbn [app]. rewrite <- !app_assoc.
    split.
    + destruct f as [|f]; [lia|]. rewrite p_pipeline_eq. cbv zeta. unfold bind.
      destruct (H2 f ltac:(lia)) as [Hcmd _]. rewrite Hcmd. rewrite (H1 f ltac:(lia)). reflexivity.
    + destruct (H2 f ltac:(lia)) as [_ Hsk]. exact Hsk.
Qed.

Lemma pipeline_replay' p z pre :
  gpl P p -> zp z -> is_lead pre ->
  exists f0, forall f, (f0 <= f)%nat ->
    p_pipeline f (pre ++ print_pipeline p ++ z) = Ok (Some p, z) /\
    forall k, skip_newlines (tk2 f) (S k) (pre ++ print_pipeline p ++ z) = Ok (pre ++ print_pipeline p ++ z).
Proof.
  destruct p as [cs neg]. intros [Hne Hg] Hz Hl. destruct cs as [|c cs]; [congruence|].
  apply pipeline_replay; assumption.
Qed.

Lemma and_or_rest_replay rest : Forall (fun x => gpl P (snd x)) rest -> forall z, za z ->
  exists f0, forall f, (f0 <= f)%nat -> p_and_or_rest f (ao_tail rest ++ z) = Ok (rest, z).
Proof.
  induction 1 as [|[a p] rest Hp _ IH]; intros z Hz.
  - exists 3%nat. intros f Hf. destruct f as [|f]; [lia|]. rewrite p_and_or_rest_eq. cbv zeta. unfold bind.
    cbn [ao_tail cat_map app].
    destruct (za_token z f Hz ltac:(lia)) as (t & r & Et & Hid1 & Hid2). rewrite Et.
    destruct (t_id t) as [|op| | |]; try reflexivity. destruct op; try reflexivity; congruence.
  - destruct (IH z Hz) as [f1 H1]. cbn [snd] in Hp.
    destruct (pipeline_replay' p (ao_tail rest ++ z) [32] Hp (ao_tail_zp rest z Hz) (or_intror eq_refl)) as [f2 H2].
    exists (S (S (max f1 f2))). intros f Hf. destruct f as [|f]; [lia|].
    rewrite p_and_or_rest_eq. cbv zeta. unfold bind.
    unfold ao_tail at 1. cbn [cat_map fst snd]. fold (ao_tail rest). rewrite <- !app_assoc. cbn [app].
    destruct (H2 f ltac:(lia)) as [Hpl Hsk]. cbn [app] in Hpl, Hsk.
    destruct f as [|f']; [lia|].
    destruct a; cbn [print_andor app]; [rewrite tok_andand | rewrite tok_barbar]; cbn [t_id];
      rewrite (Hsk f'), Hpl, (H1 (S f') ltac:(lia)); reflexivity.
Qed.

Lemma and_or_replay ao z pre :
  gao P ao -> za z -> is_lead pre ->
  exists f0, forall f, (f0 <= f)%nat ->
    p_and_or f (pre ++ print_and_or_list ao ++ z) = Ok (Some ao, z).
Proof.
  destruct ao as [p rest]. intros [Hp Hr] Hz Hl.
  destruct (and_or_rest_replay rest Hr z Hz) as [f1 H1].
  destruct (pipeline_replay' p (ao_tail rest ++ z) pre Hp (ao_tail_zp rest z Hz) Hl) as [f2 H2].
  exists (S (max f1 f2)). intros f Hf. destruct f as [|f]; [lia|].
  rewrite p_and_or_eq. cbv zeta. unfold bind.
  change (print_and_or_list (AndOrList p rest)) with (print_pipeline p ++ ao_tail rest). rewrite <- !app_assoc.
  destruct (H2 f ltac:(lia)) as [Hpl _]. rewrite Hpl. rewrite (H1 f ltac:(lia)). reflexivity.
Qed.

(* ---- lists, in both printed forms and in front of every list terminator ---- *)
Lemma list_replay l : Forall (gitem P) l -> forall pre, is_lead pre -> l <> [] ->
  forall alt zt, zl alt zt ->
  exists f0, forall f, (f0 <= f)%nat -> p_list f (pre ++ print_list alt l ++ zt) = Ok (l, zt).
Proof.
  induction 1 as [|[ao async] l Hi Hl IH]; intros pre Hpre Hne alt zt Hzt; [congruence|].
  cbn [gitem] in Hi. destruct l as [|i2 l'].
  - (* the last item *)
    unfold print_list. cbn [print_list_with print_item].
    destruct alt.
    + destruct Hzt as (k & cs & x & -> & Hk & Hn & Hs).
      assert (Hnil : forall f, (16 <= f)%nat -> p_list f (32 :: cs ++ x) = Ok ([], 32 :: cs ++ x)).
      { apply (closer_no_list _ (wlits cs) (TToken (Some k)) (cs ++ x) x).
        - intros f Hf. apply (tok_closer _ f k cs x [32] Hk (or_intror eq_refl) Hn Hs). lia.
        - right. exists k. split; [reflexivity|].
          destruct Hk as [[-> _]|[[-> _]|[-> _]]]; auto. }
      destruct async.
      * destruct (and_or_replay ao (38 :: 32 :: cs ++ x) pre Hi
                    ltac:(right; right; right; left; eauto) Hpre) as [f1 H1].
        exists (S (max f1 16)). intros f Hf. destruct f as [|f]; [lia|].
        rewrite p_list_eq. cbv zeta. unfold bind. rewrite <- !app_assoc. cbn [app].
        rewrite (H1 f ltac:(lia)). rewrite tok_and_blank. cbn [t_id].
        rewrite (Hnil f ltac:(lia)). reflexivity.
      * destruct (and_or_replay ao (59 :: 32 :: cs ++ x) pre Hi
                    ltac:(right; right; left; eauto) Hpre) as [f1 H1].
        exists (S (max f1 16)). intros f Hf. destruct f as [|f]; [lia|].
        rewrite p_list_eq. cbv zeta. unfold bind. rewrite <- !app_assoc. cbn [app].
        rewrite (H1 f ltac:(lia)). rewrite tok_semicolon. cbn [t_id].
        rewrite (Hnil f ltac:(lia)). reflexivity.
    + destruct Hzt as [-> | [x ->]].
      * destruct async.
        -- destruct (and_or_replay ao [38] pre Hi ltac:(right; left; reflexivity) Hpre) as [f1 H1].
           exists (S (max f1 16)). intros f Hf. destruct f as [|f]; [lia|].
           rewrite p_list_eq. cbv zeta. unfold bind. rewrite <- !app_assoc. cbn [app].
           rewrite (H1 f ltac:(lia)).
           rewrite tok_and_end. cbn [t_id]. rewrite (p_list_nil f ltac:(lia)). reflexivity.
        -- destruct (and_or_replay ao [] pre Hi ltac:(left; reflexivity) Hpre) as [f1 H1].
           exists (S (max f1 2)). intros f Hf. destruct f as [|f]; [lia|].
           rewrite p_list_eq. cbv zeta. unfold bind. rewrite <- !app_assoc. cbn [app].
           rewrite (H1 f ltac:(lia)).
           rewrite (tok_end _ f ltac:(lia)). reflexivity.
      * assert (Hnil : forall f, (16 <= f)%nat -> p_list f (41 :: x) = Ok ([], 41 :: x)).
        { apply (closer_no_list _ [] (TOp OpCloseParen) (41 :: x) x).
          - intros f Hf. apply tok_rparen.
          - left; reflexivity. }
        destruct async.
        -- destruct (and_or_replay ao (38 :: 41 :: x) pre Hi ltac:(do 5 right; eauto) Hpre) as [f1 H1].
           exists (S (max f1 16)). intros f Hf. destruct f as [|f]; [lia|].
           rewrite p_list_eq. cbv zeta. unfold bind. rewrite <- !app_assoc. cbn [app].
           rewrite (H1 f ltac:(lia)). rewrite tok_and_rparen. cbn [t_id].
           rewrite (Hnil f ltac:(lia)). reflexivity.
        -- destruct (and_or_replay ao (41 :: x) pre Hi ltac:(do 4 right; left; eauto) Hpre) as [f1 H1].
           exists (S (max f1 2)). intros f Hf. destruct f as [|f]; [lia|].
           rewrite p_list_eq. cbv zeta. unfold bind. rewrite <- !app_assoc. cbn [app].
           rewrite (H1 f ltac:(lia)). rewrite tok_rparen. reflexivity.
  - destruct (IH [32] (or_intror eq_refl) ltac:(discriminate) alt zt Hzt) as [f2 H2].
    unfold print_list in *.
    change (print_list_with print_item alt (Item ao async :: i2 :: l'))
      with (print_item true (Item ao async) ++ [32] ++ print_list_with print_item alt (i2 :: l')).
    cbn [print_item]. set (rest := print_list_with print_item alt (i2 :: l')) in *.
    destruct async.
    + destruct (and_or_replay ao (38 :: 32 :: rest ++ zt) pre Hi
                  ltac:(right; right; right; left; eauto) Hpre) as [f1 H1].
      exists (S (max f1 f2)). intros f Hf. destruct f as [|f]; [lia|].
      rewrite p_list_eq. cbv zeta. unfold bind. rewrite <- !app_assoc. cbn [app].
      rewrite (H1 f ltac:(lia)). rewrite tok_and_blank. cbn [t_id].
      pose proof (H2 f ltac:(lia)) as X. cbn [app] in X. rewrite X. reflexivity.
    + destruct (and_or_replay ao (59 :: 32 :: rest ++ zt) pre Hi
                  ltac:(right; right; left; eauto) Hpre) as [f1 H1].
      exists (S (max f1 f2)). intros f Hf. destruct f as [|f]; [lia|].
      rewrite p_list_eq. cbv zeta. unfold bind. rewrite <- !app_assoc. cbn [app].
      rewrite (H1 f ltac:(lia)). rewrite tok_semicolon. cbn [t_id].
      pose proof (H2 f ltac:(lia)) as X. cbn [app] in X. rewrite X. reflexivity.
Qed.

(* list.rs maybe_compound_list: the list up to its terminator *)
Lemma mcl_replay l : Forall (gitem P) l -> l <> [] -> forall pre alt zt, is_lead pre -> zl alt zt ->
  exists f0, forall f, (f0 <= f)%nat -> p_mcl f (pre ++ print_list alt l ++ zt) = Ok (l, zt).
Proof.
  intros Hg Hne pre alt zt Hpre Hzt.
  destruct (list_replay l Hg pre Hpre Hne alt zt Hzt) as [f0 H0].
  exists (S (max f0 8)). intros f Hf. destruct f as [|f]; [lia|].
  rewrite p_mcl_eq. cbv zeta. unfold bind. rewrite (H0 f ltac:(lia)).
  destruct alt.
  - destruct Hzt as (k & cs & x & -> & Hk & Hn & Hs).
    rewrite (tok_closer _ f k cs x [32] Hk (or_intror eq_refl) Hn Hs ltac:(lia)).
    destruct Hk as [[-> _]|[[-> _]|[-> _]]]; reflexivity.
  - destruct Hzt as [-> | [x ->]].
    + rewrite (tok_end _ f ltac:(lia)). reflexivity.
    + rewrite tok_rparen. reflexivity.
Qed.

(* ---- the whole text ---- *)
Lemma program_replay l : Forall (gitem P) l -> parse_program (print_list false l) = Ok l.
Proof.
  intros Hg. destruct l as [|i l'] eqn:El; [vm_compute; reflexivity|]. rewrite <- El in *.
  destruct (mcl_replay l Hg ltac:(subst; discriminate) [] false [] (or_introl eq_refl) (or_introl eq_refl))
    as [f0 H0].
  cbn [app] in H0. rewrite app_nil_r in H0. set (txt := print_list false l) in *.
  pose proof (H0 f0 (le_n _)) as Hm.
  unfold parse_program, bind.
  rewrite <- (parse_more_fuel_lemma txt (max (parse_fuel txt) f0) ltac:(lia)).
  rewrite (gm_mcl f0 (parser_mono f0) (max (parse_fuel txt) f0) txt _ ltac:(lia) Hm ltac:(discriminate)).
  reflexivity.
Qed.

End Generic.

(* ---- what the first run tells about the commands of a tree: a fact [P] that
   holds of every command returned by command.rs holds of all commands of the
   lists returned by the list-level parsers ---- *)
Lemma command_first f s c r : p_command f s = Ok (Some c, r) -> cmd_first c.
Proof.
  destruct c as [a w rds| |]; try (intros; exact I).
  intros H. destruct (command_simple _ _ _ _ _ _ H) as [f0 H0]. cbn. eauto.
Qed.

Record Extract (P : command -> Prop) (f : nat) : Prop := {
  ex_command : forall s c r, p_command f s = Ok (Some c, r) -> P c;
  ex_pipe_rest : forall s cs r, p_pipe_rest f s = Ok (cs, r) -> Forall P cs;
  ex_pipeline : forall s p r, p_pipeline f s = Ok (Some p, r) -> gpl P p;
  ex_and_or_rest : forall s rest r, p_and_or_rest f s = Ok (rest, r) -> Forall (fun x => gpl P (snd x)) rest;
  ex_and_or : forall s ao r, p_and_or f s = Ok (Some ao, r) -> gao P ao;
  ex_list : forall s l r, p_list f s = Ok (l, r) -> Forall (gitem P) l;
  ex_mcl : forall s l r, p_mcl f s = Ok (l, r) -> Forall (gitem P) l
}.

Lemma extract_zero P : Extract P O.
Proof. constructor; intros; discriminate. Qed.

Lemma extract_step P f :
  Extract P f -> (forall s c r, p_command (S f) s = Ok (Some c, r) -> P c) -> Extract P (S f).
Proof.
  intros [I0 I1 I2 I3 I4 I5 I6] HC. constructor.
  - exact HC.
  - intros s cs r. rewrite p_pipe_rest_eq. cbv zeta. unfold bind. intros H.
    repeat (dmh H; try discriminate); inv H; try constructor; eauto.
  - intros s p r. rewrite p_pipeline_eq. cbv zeta. unfold bind. intros H.
    repeat (dmh H; try discriminate); inv H; cbn; (split; [discriminate|]); constructor; eauto;
      repeat match goal with
             | X : match ?a with _ => _ end = _ |- _ => destruct a eqn:?; try discriminate
             end;
      repeat match goal with X : Ok _ = Ok _ |- _ => inv X end; eauto.
  - intros s rest r. rewrite p_and_or_rest_eq. cbv zeta. unfold bind. intros H.
    repeat (dmh H; try discriminate); inv H; try constructor; cbn [snd]; eauto.
  - intros s ao r. rewrite p_and_or_eq. cbv zeta. unfold bind. intros H.
    repeat (dmh H; try discriminate); inv H. cbn. split; eauto.
  - intros s l r. rewrite p_list_eq. cbv zeta. unfold bind. intros H.
    repeat (dmh H; try discriminate); inv H; try constructor; cbn [gitem]; eauto.
  - intros s l r. rewrite p_mcl_eq. cbv zeta. unfold bind. intros H.
    repeat (dmh H; try discriminate); inv H; try apply Forall_app; eauto.
Qed.
