(* C06 — proofs, part 6: the tilde post-processing of tilde.rs does not change
   the printed text of a word. *)
From Yv Require Import Common.Base C06.Ast C06.Print C06.Lex C06.ProofsLen.
Local Open Scope N_scope.

Lemma cat_map_app {A} (f : A -> str) (l1 l2 : list A) :
  cat_map f (l1 ++ l2) = cat_map f l1 ++ cat_map f l2.
Proof.
  induction l1 as [|x l1 IH]; cbn [cat_map app]; [reflexivity|]. rewrite IH, app_assoc. reflexivity.
Qed.

Lemma tilde_name_print colon w n name sl :
  tilde_name colon w = Some (n, name, sl) -> print_word (firstn n w) = name.
Proof.
  revert n name sl. induction w as [|u w IH]; intros n name sl H; cbn [tilde_name] in H.
  - inv H. reflexivity.
  - destruct u as [t| | | |]; try discriminate. destruct t; try discriminate.
    destruct (c =? 47); [inv H; reflexivity|].
    destruct (colon && (c =? 58)); [inv H; reflexivity|].
    destruct (tilde_name colon w) as [[[n' name'] sl']|] eqn:E; [|discriminate].
    inv H. cbn [firstn]. unfold print_word in *. cbn [cat_map print_wu print_tu app].
    rewrite (IH _ _ _ eq_refl). reflexivity.
Qed.

Lemma parse_tilde_print colon w n name sl :
  parse_tilde colon w = Some (n, name, sl) -> print_word (firstn n w) = c_tilde :: name.
Proof.
  unfold parse_tilde. destruct w as [|u w]; [discriminate|].
  destruct u as [t| | | |]; try discriminate. destruct t; try discriminate.
  destruct (c =? c_tilde) eqn:Ec; [|discriminate].
  destruct (tilde_name colon w) as [[[n' name'] sl']|] eqn:E; [|discriminate].
  intros H. inv H. apply N.eqb_eq in Ec. subst c. cbn [firstn]. unfold print_word.
  cbn [cat_map print_wu print_tu app]. f_equal. apply (tilde_name_print _ _ _ _ _ E).
Qed.

Lemma print_word_split n w : print_word w = print_word (firstn n w) ++ print_word (skipn n w).
Proof. unfold print_word. rewrite <- cat_map_app, firstn_skipn. reflexivity. Qed.

(* Word::parse_tilde_front keeps the printed text *)
Lemma print_tilde_front w : print_word (tilde_front w) = print_word w.
Proof.
  unfold tilde_front. destruct (parse_tilde false w) as [[[n name] sl]|] eqn:E; [|reflexivity].
  rewrite (print_word_split n w), (parse_tilde_print _ _ _ _ _ E).
  unfold print_word. cbn [cat_map print_wu]. reflexivity.
Qed.

Lemma skip_to_colon_app w a b : skip_to_colon w = Some (a, b) -> w = a ++ b.
Proof.
  revert a b. induction w as [|u w IH]; intros a b H; cbn [skip_to_colon] in H; [discriminate|].
  destruct u as [t| | | |].
  - destruct t;
      try (destruct (skip_to_colon w) as [[a' b']|]; [|discriminate]; inv H; cbn [app];
           f_equal; apply IH; reflexivity).
    destruct (c =? 58).
    + inv H. reflexivity.
    + destruct (skip_to_colon w) as [[a' b']|]; [|discriminate]. inv H. cbn [app]. f_equal.
      apply IH. reflexivity.
  - destruct (skip_to_colon w) as [[a' b']|]; [|discriminate]. inv H. cbn [app]. f_equal. apply IH. reflexivity.
  - destruct (skip_to_colon w) as [[a' b']|]; [|discriminate]. inv H. cbn [app]. f_equal. apply IH. reflexivity.
  - destruct (skip_to_colon w) as [[a' b']|]; [|discriminate]. inv H. cbn [app]. f_equal. apply IH. reflexivity.
  - destruct (skip_to_colon w) as [[a' b']|]; [|discriminate]. inv H. cbn [app]. f_equal. apply IH. reflexivity.
Qed.

(* Word::parse_tilde_everywhere keeps the printed text *)
Lemma print_tilde_everywhere fuel w : print_word (tilde_everywhere fuel w) = print_word w.
Proof.
  revert w. induction fuel as [|fuel IH]; intros w; cbn [tilde_everywhere]; [reflexivity|].
  destruct (parse_tilde true w) as [[[n name] sl]|] eqn:E.
  - rewrite (print_word_split n w), (parse_tilde_print _ _ _ _ _ E).
    unfold print_word at 1. cbn [cat_map print_wu]. cbn [app]. f_equal. f_equal.
    destruct (skip_to_colon (skipn n w)) as [[a b]|] eqn:E2; [|reflexivity].
    apply skip_to_colon_app in E2. rewrite E2. unfold print_word in *.
    rewrite !cat_map_app. f_equal. apply IH.
  - destruct (skip_to_colon w) as [[a b]|] eqn:E2; [|reflexivity].
    apply skip_to_colon_app in E2. rewrite E2. unfold print_word in *.
    rewrite !cat_map_app. f_equal. apply IH.
Qed.
