(* C06 — proofs, part 1: the lexer and the parser never return more text than
   they were given, and a produced unit/token consumed at least one
   character.  These facts carry the fuel argument of [parse_total]. *)
From Yv Require Import Common.Base C06.Ast C06.Print C06.Lex C06.LexEq C06.Parse.
Local Open Scope N_scope.

Notation len := (@length N).

Ltac inv H := inversion H; subst; clear H.

(* destruct the scrutinee of a match in a hypothesis / in the goal *)
Ltac dmh H :=
  match type of H with
  | context [match ?x with _ => _ end] => destruct x eqn:?
  end.
(* destruct scrutinees in all equational hypotheses until none is left *)
Ltac dmall :=
  repeat match goal with
  | H : context [match ?x with _ => _ end] |- _ =>
      match type of H with
      | _ = _ => destruct x eqn:?; try discriminate
      end
  end.
Ltac clean :=
  repeat match goal with
  | H : Ok _ = Ok _ |- _ => inv H
  | H : (_, _) = (_, _) |- _ => inv H
  | H : _ :: _ = _ :: _ |- _ => inv H
  | H : Some _ = Some _ |- _ => inv H
  | H : [] = _ :: _ |- _ => discriminate H
  | H : _ :: _ = [] |- _ => discriminate H
  end.
Ltac dmg :=
  match goal with
  | |- context [match ?x with _ => _ end] => destruct x eqn:?
  end.

Lemma skip_lc_len s : (len (skip_lc s) <= len s)%nat.
Proof.
  remember (len s) as n eqn:E. revert s E.
  induction n as [n IH] using lt_wf_ind. intros s E.
  destruct s as [|c1 [|c2 s']]; cbn [skip_lc]; try lia.
  destruct ((c1 =? c_bslash) && (c2 =? c_nl)); [|lia].
  cbn [length] in *. specialize (IH (len s') ltac:(lia) s' eq_refl). lia.
Qed.

Lemma skip_lc_idem s : skip_lc (skip_lc s) = skip_lc s.
Proof.
  remember (len s) as n eqn:E. revert s E.
  induction n as [n IH] using lt_wf_ind. intros s E.
  destruct s as [|c1 [|c2 s']]; try reflexivity.
  cbn [skip_lc]. destruct ((c1 =? c_bslash) && (c2 =? c_nl)) eqn:B.
  - cbn [length] in *. apply (IH (len s')); [lia | reflexivity].
  - cbn [skip_lc]. rewrite B. reflexivity.
Qed.

(* ---- helper loops ---------------------------------------------------------------- *)

Lemma lex_name_len f s n r : lex_name f s = (n, r) -> (len r <= len s)%nat.
Proof.
  revert s n r. induction f as [|f IH]; intros s n r H; cbn [lex_name] in H.
  - inv H. apply skip_lc_len.
  - pose proof (skip_lc_len s) as L. destruct (skip_lc s) as [|c s'] eqn:E.
    + inv H. cbn. lia.
    + destruct (is_name_char c).
      * destruct (lex_name f s') as [n' r'] eqn:E'. inv H.
        apply IH in E'. cbn [length] in L. lia.
      * inv H. exact L.
Qed.

Lemma lex_single_quote_len s q r : lex_single_quote s = Ok (q, r) -> (len r < len s)%nat.
Proof.
  revert q r. induction s as [|c s IH]; intros q r H; cbn [lex_single_quote] in H; [discriminate|].
  destruct (c =? c_sq).
  - inv H. cbn. lia.
  - unfold bind in H. destruct (lex_single_quote s) as [[q' r']| | | |] eqn:E; try discriminate.
    inv H. specialize (IH _ _ eq_refl). cbn. lia.
Qed.

Lemma lex_bq_len f cx s us r : lex_bq f cx s = Ok (us, r) -> (len r <= len s)%nat.
Proof.
  revert s us r. induction f as [|f IH]; intros s us r H; cbn [lex_bq] in H; [discriminate|].
  pose proof (skip_lc_len s) as L. destruct (skip_lc s) as [|c s1] eqn:E.
  - inv H. cbn. lia.
  - cbn [length] in L. unfold bind in H.
    destruct (c =? c_bslash).
    + destruct s1 as [|c2 s2].
      * inv H. cbn. lia.
      * destruct (bq_escapable cx c2).
        -- destruct (lex_bq f cx s2) as [[us' r']| | | |] eqn:E'; try discriminate.
           inv H. apply IH in E'. cbn [length] in *. lia.
        -- destruct (lex_bq f cx (c2 :: s2)) as [[us' r']| | | |] eqn:E'; try discriminate.
           inv H. apply IH in E'. cbn [length] in *. lia.
    + destruct (c =? c_bq).
      * inv H. cbn [length]. lia.
      * destruct (lex_bq f cx s1) as [[us' r']| | | |] eqn:E'; try discriminate.
        inv H. apply IH in E'. lia.
Qed.

Lemma hex_more_len k acc s v r : hex_more k acc s = (v, r) -> (len r <= len s)%nat.
Proof.
  revert acc s v r. induction k as [|k IH]; intros acc s v r H; cbn [hex_more] in H.
  - inv H. lia.
  - destruct s as [|c s']; [inv H; lia|]. destruct (hex_val c).
    + apply IH in H. cbn. lia.
    + inv H. lia.
Qed.

Lemma oct_more_len k acc s v r : oct_more k acc s = (v, r) -> (len r <= len s)%nat.
Proof.
  revert acc s v r. induction k as [|k IH]; intros acc s v r H; cbn [oct_more] in H.
  - inv H. lia.
  - destruct s as [|c s']; [inv H; lia|]. destruct (oct_val c).
    + apply IH in H. cbn. lia.
    + inv H. lia.
Qed.

Lemma hex_digits_len k s v r : hex_digits k s = Some (v, r) -> (len r < len s)%nat.
Proof.
  unfold hex_digits. destruct s as [|c s']; [discriminate|]. destruct (hex_val c); [|discriminate].
  intros H. inv H. destruct (hex_more (k - 1) n s') as [v' r'] eqn:E. inv H1.
  apply hex_more_len in E. cbn. lia.
Qed.

Lemma lex_escape_len c2 s u r : lex_escape c2 s = Ok (u, r) -> (len r <= len s)%nat.
Proof.
  unfold lex_escape. intros H.
  repeat (dmh H; try discriminate);
    try (match goal with E : hex_digits _ _ = Some _ |- _ => apply hex_digits_len in E end);
    try (match goal with E : oct_more _ _ _ = _ |- _ => apply oct_more_len in E end);
    inv H; cbn [length] in *; lia.
Qed.

Lemma lex_escaped_len f s es r : lex_escaped f s = Ok (es, r) -> (len r < len s)%nat.
Proof.
  revert s es r. induction f as [|f IH]; intros s es r H; cbn [lex_escaped] in H; [discriminate|].
  destruct s as [|c1 s1]; [discriminate|]. unfold bind in H.
  destruct (c1 =? c_sq).
  - inv H. cbn. lia.
  - destruct (c1 =? c_bslash).
    + destruct s1 as [|c2 s2]; [discriminate|].
      destruct (lex_escape c2 s2) as [[u r1]| | | |] eqn:E1; try discriminate.
      destruct (lex_escaped f r1) as [[us r2]| | | |] eqn:E2; try discriminate.
      inv H. apply lex_escape_len in E1. apply IH in E2. cbn [length]. lia.
    + destruct (lex_escaped f s1) as [[us r2]| | | |] eqn:E2; try discriminate.
      inv H. apply IH in E2. cbn [length]. lia.
Qed.

(* ---- the mutually recursive lexer -------------------------------------------------------------- *)

Section LexLen.
  Variable inner : str -> res (str * str).
  Hypothesis inner_len : forall s c r, inner s = Ok (c, r) -> (len r <= len s)%nat.

  Definition P_tu (f : nat) := forall cx d e s o r,
    lex_tu inner f cx d e s = Ok (o, r) ->
    (len r <= len s)%nat /\ (o <> None -> (len r < len s)%nat).
  Definition P_dollar (f : nat) := forall cx s o r,
    lex_dollar inner f cx s = Ok (o, r) ->
    (len r <= len s)%nat /\ (o <> None -> (len r < len s)%nat).
  Definition P_braced (f : nat) := forall cx s u r,
    lex_braced inner f cx s = Ok (u, r) -> (len r < len s)%nat.
  Definition P_text (f : nat) := forall d e s t r,
    lex_text inner f d e s = Ok (t, r) -> (len r <= len s)%nat.
  Definition P_twp (f : nat) := forall depth s t r,
    lex_twp inner f depth s = Ok (t, r) -> (len r <= len s)%nat.
  Definition P_wu (f : nat) := forall cx d s o r,
    lex_wu inner f cx d s = Ok (o, r) ->
    (len r <= len s)%nat /\ (o <> None -> (len r < len s)%nat).
  Definition P_units (f : nat) := forall cx d s w r,
    lex_units inner f cx d s = Ok (w, r) -> (len r <= len s)%nat.

  Definition P_all f := P_tu f /\ P_dollar f /\ P_braced f /\ P_text f /\ P_twp f /\ P_wu f /\ P_units f.

  Lemma P_all_0 : P_all 0.
  Proof. repeat split; intros; discriminate. Qed.

  (* turn every successful call in the context into its length fact *)
  Ltac lenfacts :=
    repeat match goal with
    | IH : P_tu ?f, H : lex_tu _ ?f _ _ _ _ = Ok (_, _) |- _ => apply IH in H
    | IH : P_dollar ?f, H : lex_dollar _ ?f _ _ = Ok (_, _) |- _ => apply IH in H
    | IH : P_braced ?f, H : lex_braced _ ?f _ _ = Ok (_, _) |- _ => apply IH in H
    | IH : P_text ?f, H : lex_text _ ?f _ _ _ = Ok (_, _) |- _ => apply IH in H
    | IH : P_twp ?f, H : lex_twp _ ?f _ _ = Ok (_, _) |- _ => apply IH in H
    | IH : P_wu ?f, H : lex_wu _ ?f _ _ _ = Ok (_, _) |- _ => apply IH in H
    | IH : P_units ?f, H : lex_units _ ?f _ _ _ = Ok (_, _) |- _ => apply IH in H
    | H : lex_bq _ _ _ = Ok (_, _) |- _ => apply lex_bq_len in H
    | H : lex_name _ _ = (_, _) |- _ => apply lex_name_len in H
    | H : lex_single_quote _ = Ok (_, _) |- _ => apply lex_single_quote_len in H
    | H : lex_escaped _ _ = Ok (_, _) |- _ => apply lex_escaped_len in H
    | H : inner _ = Ok (_, _) |- _ => apply inner_len in H
    | H : skip_lc ?s = _ |- _ =>
        let L := fresh "L" in pose proof (skip_lc_len s) as L; rewrite H in L; clear H
    end.

  Ltac lexunf H :=
    first [ rewrite lex_tu_eq in H | rewrite lex_dollar_eq in H | rewrite lex_braced_eq in H
          | rewrite lex_text_eq in H | rewrite lex_twp_eq in H | rewrite lex_wu_eq in H
          | rewrite lex_units_eq in H ];
    unfold lex_param, lex_suffix, bind in H.

  Ltac lenfin :=
    lenfacts;
    repeat match goal with H : _ /\ _ |- _ => destruct H end;
    repeat match goal with
           | H : Some _ <> None -> _ |- _ => specialize (H ltac:(discriminate))
           | H : None <> None -> _ |- _ => clear H
           end;
    cbn [length] in *;
    first [ lia
          | split; [lia | intros; try congruence; lia]
          | split; [lia | intros ?; exfalso; congruence] ].

  Lemma P_tu_S f : P_all f -> P_tu (S f).
  Proof.
    intros (Htu & Hdol & Hbr & Htx & Htwp & Hwu & Hun) cx d e s o r H.
    lexunf H. cbv zeta in H. dmall; clean; lenfin.
  Qed.

  Lemma P_dollar_S f : P_all f -> P_dollar (S f).
  Proof.
    intros (Htu & Hdol & Hbr & Htx & Htwp & Hwu & Hun) cx s o r H.
    lexunf H. cbv zeta in H. dmall; clean; lenfin.
  Qed.

  Lemma P_braced_S f : P_all f -> P_braced (S f).
  Proof.
    intros (Htu & Hdol & Hbr & Htx & Htwp & Hwu & Hun) cx s u r H.
    lexunf H. cbv zeta in H.
    dmall; clean; lenfin.
  Qed.

  Lemma P_text_S f : P_all f -> P_text (S f).
  Proof.
    intros (Htu & Hdol & Hbr & Htx & Htwp & Hwu & Hun) d e s t r H.
    lexunf H. cbv zeta in H. dmall; clean; lenfin.
  Qed.

  Lemma P_twp_S f : P_all f -> P_twp (S f).
  Proof.
    intros (Htu & Hdol & Hbr & Htx & Htwp & Hwu & Hun) depth s t r H.
    lexunf H. cbv zeta in H. dmall; clean; lenfin.
  Qed.

  Lemma P_wu_S f : P_all f -> P_wu (S f).
  Proof.
    intros (Htu & Hdol & Hbr & Htx & Htwp & Hwu & Hun) cx d s o r H.
    lexunf H. cbv zeta in H. dmall; clean; lenfin.
  Qed.

  Lemma P_units_S f : P_all f -> P_units (S f).
  Proof.
    intros (Htu & Hdol & Hbr & Htx & Htwp & Hwu & Hun) cx d s w r H.
    lexunf H. cbv zeta in H. dmall; clean; lenfin.
  Qed.

  Lemma lex_len : forall f, P_all f.
  Proof.
    induction f as [|f IH]; [exact P_all_0|].
    unfold P_all.
    pose proof (P_tu_S f IH). pose proof (P_dollar_S f IH). pose proof (P_braced_S f IH).
    pose proof (P_text_S f IH). pose proof (P_twp_S f IH). pose proof (P_wu_S f IH).
    pose proof (P_units_S f IH). tauto.
  Qed.
End LexLen.
