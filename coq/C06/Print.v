(* C06 — Gallina model of yash-syntax/src/syntax/impl_display.rs: the
   single-line text printed for a tree ([Display]; [{:#}] is the [alt] flag). *)
From Yv Require Import Common.Base C06.Ast.
From Coq Require Ascii String.
Import Coq.Strings.String.StringSyntax.
Delimit Scope string_scope with string.
Local Open Scope N_scope.

(* string literals as code point lists (ASCII only) *)
Definition lit (s : String.string) : str := map Ascii.N_of_ascii (String.list_ascii_of_string s).

(* ---- numbers --------------------------------------------------------------- *)

Definition digit_char (upper : bool) (d : N) : N :=
  if d <? 10 then 48 + d else (if upper then 55 else 87) + d.

(* digits of [n] in [base], most significant first; [fuel] >= number of digits *)
Fixpoint digits_rev (fuel : nat) (base : N) (upper : bool) (n : N) : str :=
  match fuel with
  | O => []
  | S f => digit_char upper (n mod base)
           :: (if n / base =? 0 then [] else digits_rev f base upper (n / base))
  end.

Definition pad_left (width : nat) (c : N) (s : str) : str :=
  repeat c (width - length s) ++ s.

(* Rust's {:0width$}, {:0width$o}, {:0width$x}, {:0width$X}; 64 digits are
   enough for any number below 2^64 in any base >= 2 *)
Definition fmt_num (base : N) (upper : bool) (width : nat) (n : N) : str :=
  pad_left width 48 (rev (digits_rev 64 base upper n)).

Definition fmt_dec (n : N) : str := fmt_num 10 false 0 n.

Definition fmt_z (z : Z) : str :=
  match z with
  | Z0 => [48]
  | Zpos p => fmt_dec (Npos p)
  | Zneg p => 45 :: fmt_dec (Npos p)
  end.

(* ---- lexical elements -------------------------------------------------------- *)

Definition print_action (a : switch_action) : N :=
  match a with SaAlter => 43 | SaDefault => 45 | SaAssign => 61 | SaError => 63 end.
Definition print_cond (c : switch_cond) : str :=
  match c with ScUnset => [] | ScUnsetOrEmpty => [58] end.
Definition print_side (s : trim_side) : N :=
  match s with TsPrefix => 35 | TsSuffix => 37 end.

Definition print_bq (b : bq_unit) : str :=
  match b with BqLiteral c => [c] | BqBackslashed c => [92; c] end.

Definition print_eu (e : escape_unit) : str :=
  match e with
  | EuLiteral c => [c]
  | EuDoubleQuote => [92; 34]
  | EuSingleQuote => [92; 39]
  | EuBackslash => [92; 92]
  | EuQuestion => [92; 63]
  | EuAlert => [92; 97]
  | EuBackspace => [92; 98]
  | EuEscape => [92; 101]
  | EuFormFeed => [92; 102]
  | EuNewline => [92; 110]
  | EuCarriageReturn => [92; 114]
  | EuTab => [92; 116]
  | EuVerticalTab => [92; 118]
  | EuControl b => if b =? 28 then [92; 99; 92; 92] else [92; 99; N.lxor b 64]
  | EuOctal b => 92 :: fmt_num 8 false 3 b
  | EuHex b => 92 :: 120 :: fmt_num 16 true 2 b
  | EuUnicode c => if c <=? 65535 then 92 :: 117 :: fmt_num 16 false 4 c
                   else 92 :: 85 :: fmt_num 16 true 8 c
  end.

Section Concat.
  Context {A : Type} (f : A -> str).
  Fixpoint cat_map (l : list A) : str :=
    match l with
    | [] => []
    | x :: l => f x ++ cat_map l
    end.
  (* itertools [format(sep)] *)
  Fixpoint join_map (sep : str) (l : list A) : str :=
    match l with
    | [] => []
    | [x] => f x
    | x :: l => f x ++ sep ++ join_map sep l
    end.
End Concat.

Fixpoint print_tu (u : text_unit) : str :=
  match u with
  | Literal c => [c]
  | Backslashed c => [92; c]
  | RawParam p => 36 :: p_id p
  | BracedParam p m =>
      match m with
      | MNone => [36; 123] ++ p_id p ++ [125]
      | MLength => [36; 123; 35] ++ p_id p ++ [125]
      | MSwitch a c w =>
          [36; 123] ++ p_id p ++ print_cond c ++ [print_action a] ++ cat_map print_wu w ++ [125]
      | MTrim s l w =>
          [36; 123] ++ p_id p
          ++ (print_side s :: match l with TlShortest => [] | TlLongest => [print_side s] end)
          ++ cat_map print_wu w ++ [125]
      end
  | CommandSubst c => [36; 40] ++ c ++ [41]
  | Backquote c => [96] ++ cat_map print_bq c ++ [96]
  | Arith c => [36; 40; 40] ++ cat_map print_tu c ++ [41; 41]
  end
with print_wu (u : word_unit) : str :=
  match u with
  | Unquoted t => print_tu t
  | SingleQuote s => [39] ++ s ++ [39]
  | DoubleQuote t => [34] ++ cat_map print_tu t ++ [34]
  | DollarSingleQuote e => [36; 39] ++ cat_map print_eu e ++ [39]
  | Tilde name _ => 126 :: name
  end.

Definition print_text (t : text) : str := cat_map print_tu t.
Definition print_word (w : word) : str := cat_map print_wu w.

(* ---- keywords (parser/lex/keyword.rs) ----------------------------------------- *)

Definition keywords : list str :=
  Eval compute in map lit
    ["!"; "[["; "]]"; "case"; "do"; "done"; "elif"; "else"; "esac"; "fi"; "for"; "function";
     "if"; "in"; "namespace"; "select"; "then"; "until"; "while"; "{"; "}"]%string.

Definition is_keyword (s : str) : bool := existsb (str_eqb s) keywords.

(* Word::to_string_if_literal *)
Fixpoint word_literal (w : word) : option str :=
  match w with
  | [] => Some []
  | Unquoted (Literal c) :: w =>
      match word_literal w with Some s => Some (c :: s) | None => None end
  | _ => None
  end.

(* ---- commands --------------------------------------------------------------------- *)

Definition print_rop (o : redir_op) : str :=
  match o with
  | FileIn => [60] | FileInOut => [60; 62] | FileOut => [62] | FileAppend => [62; 62]
  | FileClobber => [62; 124] | FdIn => [60; 38] | FdOut => [62; 38] | Pipe => [62; 62; 124]
  | HereString => [60; 60; 60]
  end.

Definition print_rbody (b : redir_body) : str :=
  match b with
  | RNormal o w => print_rop o ++ print_word w
  | RHereDoc d tabs _ =>
      (if tabs then [60; 60; 45] else [60; 60])
      ++ (match d with Unquoted (Literal 45) :: _ => [32] | _ => [] end)
      ++ print_word d
  end.

Definition print_redir (r : redir) : str :=
  match r_fd r with Some fd => fmt_z fd | None => [] end ++ print_rbody (r_body r).

Definition print_value (v : value) : str :=
  match v with
  | Scalar w => print_word w
  | Array ws => [40] ++ join_map print_word [32] ws ++ [41]
  end.

Definition print_assign (a : assign) : str := a_name a ++ [61] ++ print_value (a_value a).

Definition first_word_is_keyword (ws : list (word * exp_mode)) : bool :=
  match ws with
  | [] => false
  | (w, _) :: _ => match word_literal w with Some s => is_keyword s | None => false end
  end.

(* the last unit of the word is an unquoted literal [c], or a tilde expansion
   whose name ends with [c] (a tilde expansion takes the unquoted literals
   that follow it into its name) *)
Definition word_ends_with (c : N) (w : word) : bool :=
  match last w (SingleQuote []) with
  | Unquoted (Literal c') => c' =? c
  | Tilde name _ => match rev name with c' :: _ => c' =? c | [] => false end
  | _ => false
  end.

(* the last printed word ends with an unquoted backslash (possible only at the
   end of the input) *)
Definition word_ends_with_backslash (w : word) : bool := word_ends_with 92 w.

Definition ends_with_backslash (a : list assign) (w : list (word * exp_mode)) : bool :=
  match rev w, rev a with
  | (x, _) :: _, _ => word_ends_with_backslash x
  | [], y :: _ => match a_value y with
                  | Scalar x => word_ends_with_backslash x
                  | Array _ => false
                  end
  | [], [] => false
  end.

(* impl_display.rs operand_ends_with_backslash *)
Definition operand_ends_with_backslash (r : redir) : bool :=
  match r_body r with
  | RNormal _ w => word_ends_with_backslash w
  | RHereDoc d _ _ => word_ends_with_backslash d
  end.

Definition print_simple (a : list assign) (w : list (word * exp_mode)) (r : list redir) : str :=
  let i1 := map print_assign a in
  let i2 := map (fun x => print_word (fst x)) w in
  let i3 := map print_redir r in
  if ends_with_backslash a w then join_map (fun x => x) [32] (i3 ++ i1 ++ i2)
  else if negb (match a with [] => true | _ => false end) || negb (first_word_is_keyword w)
  then join_map (fun x => x) [32] (i1 ++ i2 ++ i3)
  else
    match rev r with
    | last_redir :: (_ :: _) as others =>
        if operand_ends_with_backslash last_redir
        then join_map (fun x => x) [32]
               (map print_redir (rev others) ++ i2 ++ [print_redir last_redir])
        else join_map (fun x => x) [32] (i3 ++ i2)
    | _ => join_map (fun x => x) [32] (i3 ++ i2)
    end.

Definition print_cont (c : case_cont) : str :=
  match c with CcBreak => [59; 59] | CcFallThrough => [59; 38] | CcContinue => [59; 124] end.

Definition print_andor (a : and_or) : str :=
  match a with AndThen => [38; 38] | OrElse => [124; 124] end.

Definition sp := 32.

Section PrintList.
  Context (print_item : bool -> item -> str).
  (* Display for List; [alt] = the {:#} flag *)
  Fixpoint print_list_with (alt : bool) (l : list item) : str :=
    match l with
    | [] => []
    | [last] => print_item alt last
    | i :: l => print_item true i ++ [sp] ++ print_list_with alt l
    end.
End PrintList.

Definition kw (s : String.string) : str := lit s.
Arguments kw s%string.
Arguments lit s%string.

Fixpoint print_command (c : command) : str :=
  match c with
  | CSimple a w r => print_simple a w r
  | CCompound c r => print_compound c ++ cat_map (fun x => sp :: print_redir x) r
  | CFunction k n c r =>
      (if k then kw "function " else []) ++ print_word n
      ++ (if word_ends_with 36 n then [sp] else [])
      ++ kw "() "
      ++ print_compound c ++ cat_map (fun x => sp :: print_redir x) r
  end
with print_compound (c : compound) : str :=
  match c with
  | Grouping l => kw "{ " ++ print_list_with print_item true l ++ kw " }"
  | Subshell l => [40] ++ print_list_with print_item false l ++ [41]
  | For n v b =>
      kw "for " ++ print_word n
      ++ match v with
         | None => []
         | Some vs => kw " in" ++ cat_map (fun w => sp :: print_word w) vs ++ [59]
         end
      ++ kw " do " ++ print_list_with print_item true b ++ kw " done"
  | While c b =>
      kw "while " ++ print_list_with print_item true c ++ kw " do "
      ++ print_list_with print_item true b ++ kw " done"
  | Until c b =>
      kw "until " ++ print_list_with print_item true c ++ kw " do "
      ++ print_list_with print_item true b ++ kw " done"
  | If c b es e =>
      kw "if " ++ print_list_with print_item true c ++ kw " then "
      ++ print_list_with print_item true b ++ [sp]
      ++ cat_map (fun p => kw "elif " ++ print_list_with print_item true (fst p) ++ kw " then "
                           ++ print_list_with print_item true (snd p) ++ [sp]) es
      ++ match e with
         | None => []
         | Some l => kw "else " ++ print_list_with print_item true l ++ [sp]
         end
      ++ kw "fi"
  | Case s items =>
      kw "case " ++ print_word s ++ kw " in "
      ++ cat_map (fun i => print_case_item i ++ [sp]) items ++ kw "esac"
  end
with print_case_item (i : case_item) : str :=
  match i with
  | CaseItem ps b c =>
      [40] ++ join_map print_word (kw " | ") ps ++ kw ") "
      ++ print_list_with print_item false b ++ print_cont c
  end
with print_item (alt : bool) (i : item) : str :=
  match i with
  | Item ao is_async =>
      print_and_or_list ao ++ (if is_async then [38] else if alt then [59] else [])
  end
with print_and_or_list (a : and_or_list) : str :=
  match a with
  | AndOrList f r =>
      print_pipeline f
      ++ cat_map (fun p => [sp] ++ print_andor (fst p) ++ [sp] ++ print_pipeline (snd p)) r
  end
with print_pipeline (p : pipeline) : str :=
  match p with
  | Pipeline cs neg =>
      (if neg then kw "! " else []) ++ join_map print_command (kw " | ") cs
  end.

Definition print_list (alt : bool) (l : slist) : str := print_list_with print_item alt l.
