(* C06 — proofs, part 12: operators are read back from their printed form
   whenever what follows does not turn them into a longer operator. *)
From Yv Require Import Common.Base C06.Ast C06.Print C06.Lex C06.Parse C06.Spec C06.ProofsLen
  C06.ProofsStop C06.ProofsRtBase.
Local Open Scope N_scope.

Lemma alt_nil z o : nolc z -> alt z [] o = (o, z).
Proof. intros H. unfold alt. rewrite H. destruct z; reflexivity. Qed.

Ltac alt_solve Hz Hf z :=
  unfold alt; rewrite Hz; destruct z as [|c z']; [reflexivity|];
  cbn [hd existsb] in Hf; cbn [find fst];
  repeat match type of Hf with
         | _ || _ = false => apply Bool.orb_false_iff in Hf; destruct Hf as [? Hf]
         end;
  repeat match goal with
         | H : (c =? ?k) = false |- context [?k =? c] => rewrite (N.eqb_sym k c), H
         end;
  reflexivity.

Theorem lex_operator_print_lemma o z :
  nolc z -> op_follow_ok o (hd z) -> lex_operator (print_op o ++ z) = Some (o, z).
Proof.
  intros Hz Hf. unfold op_follow_ok in Hf.
  destruct o; cbn [print_op app op_ext] in *; unfold lex_operator;
    rewrite skip_lc_nonbslash by reflexivity; cbn -[alt skip_lc];
    try reflexivity.
  all: try (unfold alt at 1; rewrite skip_lc_nonbslash by reflexivity; cbn -[alt skip_lc]).
  all: try (unfold alt at 1; rewrite skip_lc_nonbslash by reflexivity; cbn -[alt skip_lc]).
  all: try reflexivity.
  all: unfold fin.
  all: f_equal; alt_solve Hz Hf z.
Qed.
