(* C06 — the syntax tree of yash-syntax/src/syntax.rs with the [Location]s
   erased, and boolean equality on it.  Characters are code points, strings
   are [list N]. *)
From Yv Require Import Common.Base.

(* ---- lexical elements -------------------------------------------------- *)

Inductive special_param :=
| SpAt | SpAsterisk | SpNumber | SpQuestion | SpHyphen | SpDollar | SpExclamation | SpZero.

Inductive param_type :=
| PtVariable
| PtSpecial (s : special_param)
| PtPositional (n : N).

Record param := mkParam { p_id : str; p_type : param_type }.

Inductive switch_action := SaAlter | SaDefault | SaAssign | SaError.
Inductive switch_cond := ScUnset | ScUnsetOrEmpty.
Inductive trim_side := TsPrefix | TsSuffix.
Inductive trim_len := TlShortest | TlLongest.

Inductive bq_unit := BqLiteral (c : N) | BqBackslashed (c : N).

Inductive escape_unit :=
| EuLiteral (c : N)
| EuDoubleQuote | EuSingleQuote | EuBackslash | EuQuestion | EuAlert | EuBackspace
| EuEscape | EuFormFeed | EuNewline | EuCarriageReturn | EuTab | EuVerticalTab
| EuControl (b : N)
| EuOctal (b : N)
| EuHex (b : N)
| EuUnicode (c : N).

Inductive text_unit :=
| Literal (c : N)
| Backslashed (c : N)
| RawParam (p : param)
| BracedParam (p : param) (m : modifier)
| CommandSubst (content : str)
| Backquote (content : list bq_unit)
| Arith (content : list text_unit)
with modifier :=
| MNone
| MLength
| MSwitch (a : switch_action) (c : switch_cond) (w : list word_unit)
| MTrim (s : trim_side) (l : trim_len) (w : list word_unit)
with word_unit :=
| Unquoted (u : text_unit)
| SingleQuote (s : str)
| DoubleQuote (t : list text_unit)
| DollarSingleQuote (e : list escape_unit)
| Tilde (name : str) (followed_by_slash : bool).

Definition text := list text_unit.
Definition word := list word_unit.

(* compact notation used by the harness for runs of literal characters *)
Definition tlits (l : list N) : text := map Literal l.
Definition wlits (l : list N) : word := map (fun c => Unquoted (Literal c)) l.

(* ---- commands ------------------------------------------------------------ *)

Inductive redir_op :=
| FileIn | FileInOut | FileOut | FileAppend | FileClobber | FdIn | FdOut | Pipe | HereString.

Inductive redir_body :=
| RNormal (op : redir_op) (operand : word)
(* the content is [None] when it is not transmitted; it never takes part in
   comparisons (the property leaves here-document bodies aside) *)
| RHereDoc (delimiter : word) (remove_tabs : bool) (content : option text).

Record redir := mkRedir { r_fd : option Z; r_body : redir_body }.

Inductive value := Scalar (w : word) | Array (ws : list word).
Record assign := mkAssign { a_name : str; a_value : value }.

Inductive exp_mode := Single | Multiple.
Inductive case_cont := CcBreak | CcFallThrough | CcContinue.
Inductive and_or := AndThen | OrElse.

Inductive command :=
| CSimple (assigns : list assign) (words : list (word * exp_mode)) (redirs : list redir)
| CCompound (c : compound) (redirs : list redir)
| CFunction (has_keyword : bool) (name : word) (body : compound) (redirs : list redir)
with compound :=
| Grouping (l : list item)
| Subshell (l : list item)
| For (name : word) (values : option (list word)) (body : list item)
| While (condition body : list item)
| Until (condition body : list item)
| If (condition body : list item) (elifs : list (list item * list item))
     (els : option (list item))
| Case (subject : word) (items : list case_item)
with case_item :=
| CaseItem (patterns : list word) (body : list item) (cont : case_cont)
with item :=
| Item (ao : and_or_list) (is_async : bool)
with and_or_list :=
| AndOrList (first : pipeline) (rest : list (and_or * pipeline))
with pipeline :=
| Pipeline (commands : list command) (negation : bool).

Definition slist := list item.

(* ---- boolean equality ------------------------------------------------------ *)

Section ListEq.
  Context {A : Type} (eqb : A -> A -> bool).
  Fixpoint leqb (l1 l2 : list A) : bool :=
    match l1, l2 with
    | [], [] => true
    | x :: l1, y :: l2 => eqb x y && leqb l1 l2
    | _, _ => false
    end.
  Definition oeqb (o1 o2 : option A) : bool :=
    match o1, o2 with
    | None, None => true
    | Some x, Some y => eqb x y
    | _, _ => false
    end.
End ListEq.

Definition special_eqb (a b : special_param) : bool :=
  match a, b with
  | SpAt, SpAt | SpAsterisk, SpAsterisk | SpNumber, SpNumber | SpQuestion, SpQuestion
  | SpHyphen, SpHyphen | SpDollar, SpDollar | SpExclamation, SpExclamation
  | SpZero, SpZero => true
  | _, _ => false
  end.

Definition ptype_eqb (a b : param_type) : bool :=
  match a, b with
  | PtVariable, PtVariable => true
  | PtSpecial x, PtSpecial y => special_eqb x y
  | PtPositional x, PtPositional y => N.eqb x y
  | _, _ => false
  end.

Definition param_eqb (a b : param) : bool :=
  str_eqb (p_id a) (p_id b) && ptype_eqb (p_type a) (p_type b).

Definition action_eqb (a b : switch_action) : bool :=
  match a, b with
  | SaAlter, SaAlter | SaDefault, SaDefault | SaAssign, SaAssign | SaError, SaError => true
  | _, _ => false
  end.
Definition cond_eqb (a b : switch_cond) : bool :=
  match a, b with ScUnset, ScUnset | ScUnsetOrEmpty, ScUnsetOrEmpty => true | _, _ => false end.
Definition side_eqb (a b : trim_side) : bool :=
  match a, b with TsPrefix, TsPrefix | TsSuffix, TsSuffix => true | _, _ => false end.
Definition len_eqb (a b : trim_len) : bool :=
  match a, b with TlShortest, TlShortest | TlLongest, TlLongest => true | _, _ => false end.

Definition bq_eqb (a b : bq_unit) : bool :=
  match a, b with
  | BqLiteral x, BqLiteral y | BqBackslashed x, BqBackslashed y => N.eqb x y
  | _, _ => false
  end.

Definition eu_eqb (a b : escape_unit) : bool :=
  match a, b with
  | EuLiteral x, EuLiteral y | EuControl x, EuControl y | EuOctal x, EuOctal y
  | EuHex x, EuHex y | EuUnicode x, EuUnicode y => N.eqb x y
  | EuDoubleQuote, EuDoubleQuote | EuSingleQuote, EuSingleQuote | EuBackslash, EuBackslash
  | EuQuestion, EuQuestion | EuAlert, EuAlert | EuBackspace, EuBackspace | EuEscape, EuEscape
  | EuFormFeed, EuFormFeed | EuNewline, EuNewline | EuCarriageReturn, EuCarriageReturn
  | EuTab, EuTab | EuVerticalTab, EuVerticalTab => true
  | _, _ => false
  end.

Fixpoint tu_eqb (a b : text_unit) {struct a} : bool :=
  match a, b with
  | Literal x, Literal y | Backslashed x, Backslashed y => N.eqb x y
  | RawParam p, RawParam q => param_eqb p q
  | BracedParam p m, BracedParam q n => param_eqb p q && mod_eqb m n
  | CommandSubst x, CommandSubst y => str_eqb x y
  | Backquote x, Backquote y => leqb bq_eqb x y
  | Arith x, Arith y => leqb tu_eqb x y
  | _, _ => false
  end
with mod_eqb (a b : modifier) {struct a} : bool :=
  match a, b with
  | MNone, MNone | MLength, MLength => true
  | MSwitch a1 c1 w1, MSwitch a2 c2 w2 => action_eqb a1 a2 && cond_eqb c1 c2 && leqb wu_eqb w1 w2
  | MTrim s1 l1 w1, MTrim s2 l2 w2 => side_eqb s1 s2 && len_eqb l1 l2 && leqb wu_eqb w1 w2
  | _, _ => false
  end
with wu_eqb (a b : word_unit) {struct a} : bool :=
  match a, b with
  | Unquoted x, Unquoted y => tu_eqb x y
  | SingleQuote x, SingleQuote y => str_eqb x y
  | DoubleQuote x, DoubleQuote y => leqb tu_eqb x y
  | DollarSingleQuote x, DollarSingleQuote y => leqb eu_eqb x y
  | Tilde n1 b1, Tilde n2 b2 => str_eqb n1 n2 && Bool.eqb b1 b2
  | _, _ => false
  end.

Definition text_eqb : text -> text -> bool := leqb tu_eqb.
Definition word_eqb : word -> word -> bool := leqb wu_eqb.

Definition rop_eqb (a b : redir_op) : bool :=
  match a, b with
  | FileIn, FileIn | FileInOut, FileInOut | FileOut, FileOut | FileAppend, FileAppend
  | FileClobber, FileClobber | FdIn, FdIn | FdOut, FdOut | Pipe, Pipe
  | HereString, HereString => true
  | _, _ => false
  end.

(* here-document contents are left aside *)
Definition rbody_eqb (a b : redir_body) : bool :=
  match a, b with
  | RNormal o1 w1, RNormal o2 w2 => rop_eqb o1 o2 && word_eqb w1 w2
  | RHereDoc d1 t1 _, RHereDoc d2 t2 _ => word_eqb d1 d2 && Bool.eqb t1 t2
  | _, _ => false
  end.

Definition redir_eqb (a b : redir) : bool :=
  oeqb Z.eqb (r_fd a) (r_fd b) && rbody_eqb (r_body a) (r_body b).

Definition value_eqb (a b : value) : bool :=
  match a, b with
  | Scalar x, Scalar y => word_eqb x y
  | Array x, Array y => leqb word_eqb x y
  | _, _ => false
  end.

Definition assign_eqb (a b : assign) : bool :=
  str_eqb (a_name a) (a_name b) && value_eqb (a_value a) (a_value b).

Definition mode_eqb (a b : exp_mode) : bool :=
  match a, b with Single, Single | Multiple, Multiple => true | _, _ => false end.
Definition cont_eqb (a b : case_cont) : bool :=
  match a, b with
  | CcBreak, CcBreak | CcFallThrough, CcFallThrough | CcContinue, CcContinue => true
  | _, _ => false
  end.
Definition andor_eqb (a b : and_or) : bool :=
  match a, b with AndThen, AndThen | OrElse, OrElse => true | _, _ => false end.

Definition wm_eqb (a b : word * exp_mode) : bool :=
  word_eqb (fst a) (fst b) && mode_eqb (snd a) (snd b).

Fixpoint command_eqb (a b : command) {struct a} : bool :=
  match a, b with
  | CSimple a1 w1 r1, CSimple a2 w2 r2 =>
      leqb assign_eqb a1 a2 && leqb wm_eqb w1 w2 && leqb redir_eqb r1 r2
  | CCompound c1 r1, CCompound c2 r2 => compound_eqb c1 c2 && leqb redir_eqb r1 r2
  | CFunction k1 n1 c1 r1, CFunction k2 n2 c2 r2 =>
      Bool.eqb k1 k2 && word_eqb n1 n2 && compound_eqb c1 c2 && leqb redir_eqb r1 r2
  | _, _ => false
  end
with compound_eqb (a b : compound) {struct a} : bool :=
  match a, b with
  | Grouping x, Grouping y | Subshell x, Subshell y => leqb item_eqb x y
  | For n1 v1 b1, For n2 v2 b2 =>
      word_eqb n1 n2 && oeqb (leqb word_eqb) v1 v2 && leqb item_eqb b1 b2
  | While c1 b1, While c2 b2 | Until c1 b1, Until c2 b2 =>
      leqb item_eqb c1 c2 && leqb item_eqb b1 b2
  | If c1 b1 e1 l1, If c2 b2 e2 l2 =>
      leqb item_eqb c1 c2 && leqb item_eqb b1 b2
      && leqb (fun p q => leqb item_eqb (fst p) (fst q) && leqb item_eqb (snd p) (snd q)) e1 e2
      && oeqb (leqb item_eqb) l1 l2
  | Case s1 i1, Case s2 i2 => word_eqb s1 s2 && leqb case_item_eqb i1 i2
  | _, _ => false
  end
with case_item_eqb (a b : case_item) {struct a} : bool :=
  match a, b with
  | CaseItem p1 b1 c1, CaseItem p2 b2 c2 =>
      leqb word_eqb p1 p2 && leqb item_eqb b1 b2 && cont_eqb c1 c2
  end
with item_eqb (a b : item) {struct a} : bool :=
  match a, b with
  | Item x f, Item y g => and_or_list_eqb x y && Bool.eqb f g
  end
with and_or_list_eqb (a b : and_or_list) {struct a} : bool :=
  match a, b with
  | AndOrList f1 r1, AndOrList f2 r2 =>
      pipeline_eqb f1 f2
      && leqb (fun p q => andor_eqb (fst p) (fst q) && pipeline_eqb (snd p) (snd q)) r1 r2
  end
with pipeline_eqb (a b : pipeline) {struct a} : bool :=
  match a, b with
  | Pipeline c1 n1, Pipeline c2 n2 => leqb command_eqb c1 c2 && Bool.eqb n1 n2
  end.

Definition slist_eqb : slist -> slist -> bool := leqb item_eqb.
