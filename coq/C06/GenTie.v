(* C06 — the reserved words of the parser and printer models are those of the
   source: Gen/Gen_Keywords.v is regenerated from
   yash-syntax/src/parser/lex/keyword.rs on every run by translator/keywords.py. *)
From Coq Require Import NArith List Bool.
From Yv Require Import Common.Base C06.Model Gen.Gen_Keywords.
Import ListNotations.
Local Open Scope N_scope.

Definition keyword_index (k : keyword) : N :=
  match k with
  | KBang => 0 | KOpenBracketBracket => 1 | KCloseBracketBracket => 2 | KCase => 3 | KDo => 4
  | KDone => 5 | KElif => 6 | KElse => 7 | KEsac => 8 | KFi => 9 | KFor => 10 | KFunction => 11
  | KIf => 12 | KIn => 13 | KNamespace => 14 | KSelect => 15 | KThen => 16 | KUntil => 17
  | KWhile => 18 | KOpenBrace => 19 | KCloseBrace => 20
  end.

Definition all_keywords : list keyword :=
  [KBang; KOpenBracketBracket; KCloseBracketBracket; KCase; KDo; KDone; KElif; KElse; KEsac; KFi;
   KFor; KFunction; KIf; KIn; KNamespace; KSelect; KThen; KUntil; KWhile; KOpenBrace; KCloseBrace].

Lemma keyword_index_injective : forall a b, keyword_index a = keyword_index b -> a = b.
Proof. intros a b; destruct a, b; cbn; intros H; try reflexivity; discriminate H. Qed.

Lemma all_keywords_complete : forall k, In k all_keywords.
Proof. intros k; destruct k; cbn; tauto. Qed.

(* the parser model's table is the table of FromStr for Keyword *)
Lemma parser_keyword_table_is_source_table :
  map (fun p => (fst p, keyword_index (snd p))) keyword_table = gen_keyword_from_str.
Proof. reflexivity. Qed.

(* the printer model's list of reserved words is the texts of Keyword::as_str *)
Lemma printer_keywords_are_source_texts : keywords = map snd gen_keyword_as_str.
Proof. reflexivity. Qed.

(* the clause delimiters among the reserved words are those of is_clause_delimiter *)
Lemma keyword_clause_delimiters_are_source :
  forall k, is_clause_delimiter (TToken (Some k)) = existsb (N.eqb (keyword_index k)) gen_clause_delimiters.
Proof. intros k; destruct k; reflexivity. Qed.
