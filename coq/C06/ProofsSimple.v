(* C06 — proofs, part 17: simple commands.  One step of the loop of
   simple_command.rs on the printed form of an item of the first run. *)
From Yv Require Import Common.Base C06.Ast C06.Print C06.Lex C06.LexEq C06.Parse C06.ParseEq
  C06.Spec C06.ProofsLen C06.ProofsStop C06.ProofsTilde C06.ProofsNum C06.ProofsRtBase C06.ProofsRt
  C06.ProofsMono C06.ProofsOp C06.ProofsToken C06.ProofsInner C06.ProofsRedir C06.SpecCmd C06.ProofsCmdBase.
Local Open Scope N_scope.

(* the second run uses the model's own parser for command substitutions *)
Notation tk2 f := (lex_token (p_inner f) f).

(* a word-like item of the first run, as it is read back in the second run:
   [W] is the token's word, [w0] its units before the tilde post-processing *)
Record witem (F : nat) (W : word) (w0 : word) : Prop := {
  wi_ne : W <> [];
  wi_replay : forall z f', (F <= f')%nat -> good_follow w0 z ->
    tk2 f' (print_word W ++ z)
    = Ok (mkToken W (token_id_of W z) (print_word W ++ z), z);
  wi_head : exists c y, print_word W = c :: y /\ is_operator_char c = false /\
                        is_blank c = false /\ (c =? c_hash) = false;
  wi_print : print_word W = print_word w0
}.

Lemma witem_of (i1 : inner_t) f s t r :
  lex_token i1 f s = Ok (t, r) -> t_word t <> [] -> nocs_word (t_word t) = true ->
  exists w0, witem (S (S f)) (t_word t) w0 /\
             (nolc r /\ stops DToken r /\ last_fo_word CWord DToken w0 (hd r)).
Proof.
  intros H Hw Hn.
  assert (G : forall f2, exists w0, word_token i1 (p_inner f2) f s t r w0).
  { intros f2. apply word_token_nocs; assumption. }
  destruct (lex_token_word _ _ _ _ _ H Hw) as (w0 & Ew & Hne & Eu & _).
  exists w0. split.
  - constructor; [exact Hw | | | rewrite Ew; apply print_tilde_front].
    + intros z f' Hf [Hz [Hs Hl]].
      assert (WT : word_token i1 (p_inner f') f s t r w0).
      { constructor; auto. apply (units_facts_nocs i1 (p_inner f') _ _ _ _ _ _ Eu); [|discriminate].
        apply nocs_tilde_front. rewrite <- Ew. exact Hn. }
      pose proof (word_token_print _ _ _ _ _ _ _ WT z Hz Hs Hl) as Rt.
      apply (lex_token_mono (p_inner f') (p_inner f') (S (S f)) f' _ _ (ext_refl _) Hf) in Rt;
        [exact Rt | discriminate].
    + assert (WT : word_token i1 (p_inner 0) f s t r w0).
      { constructor; auto. apply (units_facts_nocs i1 (p_inner 0) _ _ _ _ _ _ Eu); [|discriminate].
        apply nocs_tilde_front. rewrite <- Ew. exact Hn. }
      destruct (word_token_head _ _ _ _ _ _ _ WT) as (c & y & A & B & C & D & _). eauto 8.
  - assert (WT : word_token i1 (p_inner 0) f s t r w0).
    { constructor; auto. apply (units_facts_nocs i1 (p_inner 0) _ _ _ _ _ _ Eu); [|discriminate].
      apply nocs_tilde_front. rewrite <- Ew. exact Hn. }
    exact (word_token_rest _ _ _ _ _ _ _ WT).
Qed.

(* ---- token kinds in the second run ------------------------------------------------------------ *)

Definition word_kw (W : word) : option keyword :=
  match word_literal W with Some l => keyword_of l | None => None end.

Lemma token_id_plain W z :
  W <> [] -> peek_is_redir z = false -> token_id_of W z = TToken (word_kw W).
Proof.
  intros Hw Hp. unfold token_id_of, word_kw. destruct W as [|u us]; [congruence|].
  rewrite Hp. rewrite !Bool.andb_false_r.
  destruct (word_literal (u :: us)) as [l|]; [|reflexivity].
  destruct (keyword_of l); [reflexivity|]. rewrite Bool.andb_false_r. reflexivity.
Qed.

(* a blank in front of a redirection *)
Lemma p_redir_blank_some tk x rd r :
  (forall y, tk (32 :: y) = tk y) ->
  p_redir tk x = Ok (Some rd, r) -> p_redir tk (32 :: x) = Ok (Some rd, r).
Proof.
  intros Hb H. unfold p_redir, bind in *. rewrite Hb.
  destruct (tk x) as [[t s1]| | | |] eqn:E1; try discriminate.
  destruct (t_id t); try (rewrite Hb, E1; rewrite E1 in H);
    repeat match type of H with
           | context [match ?a with _ => _ end] => destruct a eqn:?; try discriminate
           end; exact H.
Qed.

(* no redirection starts at a plain word *)
Lemma p_redir_word F W w0 z f' :
  witem F W w0 -> (F <= f')%nat -> good_follow w0 z -> peek_is_redir z = false ->
  p_redir (tk2 f') (print_word W ++ z) = Ok (None, print_word W ++ z).
Proof.
  intros WI Hf Hg Hp. unfold p_redir, bind.
  rewrite (wi_replay _ _ _ WI z f' Hf Hg). cbn [t_id].
  rewrite (token_id_plain W z (wi_ne _ _ _ WI) Hp).
  rewrite (wi_replay _ _ _ WI z f' Hf Hg). cbn [t_id].
  rewrite (token_id_plain W z (wi_ne _ _ _ WI) Hp). reflexivity.
Qed.

Lemma p_redir_word_blank F W w0 z f' :
  witem F W w0 -> (F <= f')%nat -> good_follow w0 z -> peek_is_redir z = false ->
  p_redir (tk2 f') (32 :: print_word W ++ z) = Ok (None, 32 :: print_word W ++ z).
Proof.
  intros WI Hf Hg Hp. unfold p_redir, bind. rewrite lex_token_blank.
  rewrite (wi_replay _ _ _ WI z f' Hf Hg). cbn [t_id].
  rewrite (token_id_plain W z (wi_ne _ _ _ WI) Hp). rewrite lex_token_blank.
  rewrite (wi_replay _ _ _ WI z f' Hf Hg). cbn [t_id].
  rewrite (token_id_plain W z (wi_ne _ _ _ WI) Hp). reflexivity.
Qed.

(* ---- one iteration of the loop of simple_command.rs on a word item ------------------------------ *)

Definition add_word (b : builder) (e : word * exp_mode) : builder :=
  mkBuilder (b_assigns b) (e :: b_words b) (b_redirs b).
Definition add_assign (b : builder) (a : assign) : builder :=
  mkBuilder (a :: b_assigns b) (b_words b) (b_redirs b).
Definition add_redir (b : builder) (r : redir) : builder :=
  mkBuilder (b_assigns b) (b_words b) (r :: b_redirs b).


Lemma simple_word_unfold F W w0 z f' decl b pre :
  witem F W w0 -> (F <= f')%nat -> good_follow w0 z -> peek_is_redir z = false -> is_lead pre ->
  (word_kw W = None \/ builder_is_empty b = false) ->
  p_simple (S f') decl b (pre ++ print_word W ++ z) =
  match decl with
  | Some d =>
      p_simple f' decl (add_word b (if d then determine_expansion_mode W else (W, Multiple))) z
  | None =>
      match match b_words b with [] => assign_of_word W | _ => None end with
      | None => p_simple f' (names_declaration_utility W) (add_word b (W, Multiple)) z
      | Some a =>
          let empty := match a_value a with Scalar [] => true | _ => false end in
          let blank := match skip_lc z with c :: _ => is_blank c | [] => false end in
          let* (a', s3) :=
            (if empty && negb blank then
               let* (t', s2') := tk2 f' z in
               match t_id t' with
               | TOp OpOpenParen =>
                   let* (ws, s3) := p_array (tk2 f') f' s2' in
                   Ok (mkAssign (a_name a) (Array ws), s3)
               | _ => Ok (a, z)
               end
             else Ok (a, z)) in
          p_simple f' decl (add_assign b a') s3
      end
  end.
Proof.
  intros WI Hf Hg Hp Hl Hk. rewrite p_simple_eq. cbv zeta. unfold bind.
  assert (Hr : p_redir (tk2 f') (pre ++ print_word W ++ z) = Ok (None, pre ++ print_word W ++ z)).
  { destruct Hl as [-> | ->]; cbn [app];
      [eapply p_redir_word | eapply p_redir_word_blank]; eauto. }
  rewrite Hr.
  assert (Ht : tk2 f' (pre ++ print_word W ++ z)
               = Ok (mkToken W (TToken (word_kw W)) (print_word W ++ z), z)).
  { destruct Hl as [-> | ->]; cbn [app]; rewrite ?lex_token_blank;
      rewrite (wi_replay _ _ _ WI z f' Hf Hg), (token_id_plain W z (wi_ne _ _ _ WI) Hp); reflexivity. }
  rewrite Ht. cbn [t_id t_word].
  assert (Htake : match word_kw W with Some _ => negb (builder_is_empty b) | None => true end = true).
  { destruct Hk as [-> | ->]; [reflexivity | destruct (word_kw W); reflexivity]. }
  rewrite Htake. cbn [negb]. reflexivity.
Qed.

(* ---- redirection items, and the end of the command ------------------------------------------------ *)

Definition ritem (F : nat) (rd : redir) (w0 : word) : Prop :=
  (exists p, print_redir rd = p ++ print_word w0) /\
  forall z f', (F <= f')%nat -> good_follow w0 z ->
    p_redir (tk2 f') (print_redir rd ++ z) = Ok (Some rd, z).

Lemma ritem_of (i1 : inner_t) f s rd r :
  p_redir (lex_token i1 f) s = Ok (Some rd, r) -> nocs_redir rd = true ->
  exists w0, ritem (max (S (S f)) 13) rd w0 /\
             (nolc r /\ stops DToken r /\ last_fo_word CWord DToken w0 (hd r)).
Proof.
  intros H Hn. destruct (redir_item_of i1 f s rd r H Hn) as (w0 & Hpr & R0).
  exists w0. split.
  - split; [exact Hpr|].
    intros z f' Hf Hg. destruct (R0 (p_inner f')) as [_ Rp]. apply Rp; assumption.
  - destruct (R0 (p_inner 0)) as [A _]. exact A.
Qed.

Lemma simple_redir_step F rd w0 z f' decl b pre :
  ritem F rd w0 -> (F <= f')%nat -> good_follow w0 z -> is_lead pre ->
  p_simple (S f') decl b (pre ++ print_redir rd ++ z) = p_simple f' decl (add_redir b rd) z.
Proof.
  intros [_ RI] Hf Hg Hl. rewrite p_simple_eq. cbv zeta. unfold bind.
  assert (Hr : p_redir (tk2 f') (pre ++ print_redir rd ++ z) = Ok (Some rd, z)).
  { destruct Hl as [-> | ->]; cbn [app]; [apply RI; assumption|].
    apply p_redir_blank_some; [intros y; apply lex_token_blank | apply RI; assumption]. }
  rewrite Hr. reflexivity.
Qed.

(* the end of the command *)
Lemma simple_finish z f' decl b :
  cmd_end z -> (3 <= f')%nat ->
  p_simple (S f') decl b z =
  if builder_is_empty b then Ok (None, z)
  else Ok (Some (rev (b_assigns b), rev (b_words b), rev (b_redirs b)), z).
Proof.
  intros He Hf. rewrite p_simple_eq. cbv zeta. unfold bind.
  destruct (cmd_end_token (p_inner f') f' z He Hf) as (t & r & Et & Ew & Ea & Hid).
  assert (Hr : p_redir (tk2 f') z = Ok (None, z)).
  { unfold p_redir, bind. rewrite Et.
    destruct (t_id t) as [| op | | |] eqn:Eid; try contradiction.
    - rewrite Et, Eid. destruct Hid as (A & B & C & D & E & G). rewrite A.
      destruct op; try reflexivity; congruence.
    - rewrite Et, Eid. reflexivity. }
  rewrite Hr, Et.
  destruct (t_id t) as [| op | | |]; try contradiction; reflexivity.
Qed.

(* ---- array values ------------------------------------------------------------------------------------ *)

(* the words of an array value of the first run, each with its units before
   the tilde post-processing; none ends with an unquoted backslash *)
Definition aitems (F : nat) (ws : list word) : Prop :=
  Forall (fun W => exists w0, witem F W w0 /\ ends_bslash w0 = false) ws.

Fixpoint print_array_tail (ws : list word) : str :=
  match ws with
  | [] => []
  | W :: ws' => 32 :: print_word W ++ print_array_tail ws'
  end.

Lemma join_map_cons {A} (pr : A -> str) sep x l :
  join_map pr sep (x :: l) = pr x ++ cat_map (fun y => sep ++ pr y) l.
Proof.
  revert x. induction l as [|y l IH]; intros x.
  - cbn [join_map cat_map]. rewrite app_nil_r. reflexivity.
  - change (join_map pr sep (x :: y :: l)) with (pr x ++ sep ++ join_map pr sep (y :: l)).
    rewrite IH. cbn [cat_map]. rewrite <- app_assoc. reflexivity.
Qed.

Lemma print_array_tail_cat ws : print_array_tail ws = cat_map (fun y => [32] ++ print_word y) ws.
Proof. induction ws as [|W ws IH]; cbn [print_array_tail cat_map app]; [reflexivity|]. rewrite IH. reflexivity. Qed.

(* after the opening parenthesis: words separated by blanks, then `)` *)
Lemma p_array_print F ws z f' :
  aitems F ws -> (F <= f')%nat -> (3 <= f')%nat -> (length ws < f')%nat ->
  p_array (tk2 f') f' (match ws with
                        | [] => []
                        | W :: ws' => print_word W ++ print_array_tail ws'
                        end ++ c_rparen :: z) = Ok (ws, z) /\
  p_array (tk2 f') f' (print_array_tail ws ++ c_rparen :: z) = Ok (ws, z).
Proof.
  intros Ha Hf H3 Hl.
  assert (Hclose : forall k, (1 <= k)%nat -> p_array (tk2 f') k (c_rparen :: z) = Ok ([], z)).
  { intros k Hk. destruct k as [|k]; [lia|]. cbn [p_array]. unfold bind.
    assert (E : tk2 f' (c_rparen :: z) = Ok (mkToken [] (TOp OpCloseParen) (c_rparen :: z), z)).
    { unfold lex_token. rewrite (skip_blanks_and_comment_id c_rparen z (nolc_cons c_rparen z eq_refl) eq_refl eq_refl).
      unfold lex_operator. rewrite skip_lc_nonbslash by reflexivity. reflexivity. }
    rewrite E. reflexivity. }
  assert (Htail : forall ws k, aitems F ws -> (length ws < k)%nat ->
             p_array (tk2 f') k (print_array_tail ws ++ c_rparen :: z) = Ok (ws, z)).
  { clear Ha Hl ws. induction ws as [|W ws IH]; intros k Ha Hk.
    - cbn [print_array_tail app]. apply Hclose. lia.
    - destruct k as [|k]; [cbn in Hk; lia|]. cbn [length] in Hk.
      pose proof (Forall_inv Ha) as (w0 & WI & Hb). pose proof (Forall_inv_tail Ha) as Ha'.
      cbn [print_array_tail app]. rewrite <- app_assoc. cbn [p_array]. unfold bind.
      rewrite lex_token_blank.
      set (z' := print_array_tail ws ++ c_rparen :: z).
      assert (Hg : good_follow w0 z').
      { unfold z'. destruct ws as [|W2 ws2]; cbn [print_array_tail app].
        - apply good_follow_end; [reflexivity | exact Hb].
        - apply good_follow_blank. exact Hb. }
      assert (Hp : peek_is_redir z' = false).
      { unfold z', peek_is_redir. destruct ws as [|W2 ws2]; cbn [print_array_tail app];
          rewrite skip_lc_nonbslash by reflexivity; reflexivity. }
      rewrite (wi_replay _ _ _ WI z' f' Hf Hg). cbn [t_id t_word].
      rewrite (token_id_plain W z' (wi_ne _ _ _ WI) Hp).
      unfold z'. rewrite (IH k Ha' ltac:(lia)). reflexivity. }
  split; [|apply Htail; assumption].
  destruct ws as [|W ws]; [cbn [app]; apply Hclose; lia|].
  destruct f' as [|k]; [lia|]. cbn [length] in Hl.
  pose proof (Forall_inv Ha) as (w0 & WI & Hb). pose proof (Forall_inv_tail Ha) as Ha'.
  rewrite <- app_assoc. cbn [p_array]. unfold bind.
  set (z' := print_array_tail ws ++ c_rparen :: z).
  assert (Hg : good_follow w0 z').
  { unfold z'. destruct ws as [|W2 ws2]; cbn [print_array_tail app].
    - apply good_follow_end; [reflexivity | exact Hb].
    - apply good_follow_blank. exact Hb. }
  assert (Hp : peek_is_redir z' = false).
  { unfold z', peek_is_redir. destruct ws as [|W2 ws2]; cbn [print_array_tail app];
      rewrite skip_lc_nonbslash by reflexivity; reflexivity. }
  rewrite (wi_replay _ _ _ WI z' (S k) Hf Hg). cbn [t_id t_word].
  rewrite (token_id_plain W z' (wi_ne _ _ _ WI) Hp).
  unfold z'. rewrite (Htail ws k Ha' ltac:(lia)). reflexivity.
Qed.

