(* C06 — proofs, part 7: numbers printed by the escape-unit printer
   (\OOO, \xHH, \uhhhh, \UHHHHHHHH) are read back by the escape-unit lexer. *)
From Yv Require Import Common.Base C06.Ast C06.Print C06.Lex C06.ProofsLen.
Local Open Scope N_scope.

(* bounded case analysis on N *)
Lemma N_lt_cases (P : N -> Prop) (k : nat) :
  (forall i, (i < k)%nat -> P (N.of_nat i)) -> forall n, n < N.of_nat k -> P n.
Proof.
  intros H n Hn. rewrite <- (N2Nat.id n). apply H. lia.
Qed.

Lemma hex_val_digit_char up d : d < 16 -> hex_val (digit_char up d) = Some d.
Proof.
  revert d. apply (N_lt_cases _ 16). intros i Hi.
  destruct up; do 16 (destruct i as [|i]; [reflexivity|]); lia.
Qed.

Lemma oct_val_digit_char up d : d < 8 -> oct_val (digit_char up d) = Some d.
Proof.
  revert d. apply (N_lt_cases _ 8). intros i Hi.
  destruct up; do 8 (destruct i as [|i]; [reflexivity|]); lia.
Qed.

(* digits, least significant first *)
Fixpoint dig (fuel : nat) (base n : N) : list N :=
  match fuel with
  | O => []
  | S f => (n mod base) :: (if n / base =? 0 then [] else dig f base (n / base))
  end.

Lemma digits_rev_dig fuel base up n :
  digits_rev fuel base up n = map (digit_char up) (dig fuel base n).
Proof.
  revert n. induction fuel as [|f IH]; intros n; cbn [digits_rev dig map]; [reflexivity|].
  f_equal. destruct (n / base =? 0); [reflexivity | apply IH].
Qed.

Fixpoint le_val (base : N) (l : list N) : N :=
  match l with
  | [] => 0
  | d :: l => d + base * le_val base l
  end.

Fixpoint be_val (base acc : N) (l : list N) : N :=
  match l with
  | [] => acc
  | d :: l => be_val base (acc * base + d) l
  end.

Lemma dig_spec fuel base n :
  1 < base -> n < base ^ N.of_nat fuel ->
  le_val base (dig fuel base n) = n /\ Forall (fun d => d < base) (dig fuel base n).
Proof.
  intros Hb. revert n. induction fuel as [|f IH]; intros n Hn.
  - cbn in Hn. assert (n = 0) by lia. subst. cbn. auto.
  - cbn [dig le_val].
    assert (Hm : n mod base < base) by (apply N.mod_lt; lia).
    assert (Hdm : n = base * (n / base) + n mod base) by (apply N.div_mod; lia).
    destruct (n / base =? 0) eqn:E.
    + apply N.eqb_eq in E. cbn [le_val]. split; [|repeat constructor; exact Hm].
      rewrite E in Hdm. lia.
    + assert (Hq : n / base < base ^ N.of_nat f).
      { apply N.div_lt_upper_bound; [lia|].
        rewrite Nat2N.inj_succ, N.pow_succ_r' in Hn. exact Hn. }
      destruct (IH _ Hq) as [IH1 IH2]. split; [|constructor; assumption].
      rewrite IH1. lia.
Qed.

Lemma dig_length fuel base n k :
  1 < base -> n < base ^ N.of_nat k -> (1 <= k)%nat -> (length (dig fuel base n) <= k)%nat.
Proof.
  intros Hb. revert n k. induction fuel as [|f IH]; intros n k Hn Hk; cbn [dig length]; [lia|].
  destruct (n / base =? 0) eqn:E; [cbn; lia|].
  apply N.eqb_neq in E.
  destruct k as [|k]; [lia|]. destruct k as [|k].
  - (* n < base: then n / base = 0 *)
    exfalso. apply E. apply N.div_small. change (N.of_nat 1) with 1 in Hn.
    rewrite N.pow_1_r in Hn. exact Hn.
  - assert (Hq : n / base < base ^ N.of_nat (S k)).
    { apply N.div_lt_upper_bound; [lia|].
      rewrite (Nat2N.inj_succ (S k)), N.pow_succ_r' in Hn. exact Hn. }
    specialize (IH _ (S k) Hq ltac:(lia)). lia.
Qed.

Lemma map_repeat' {A B} (g : A -> B) x k : map g (repeat x k) = repeat (g x) k.
Proof. induction k as [|k IH]; cbn [repeat map]; [reflexivity|]. f_equal. exact IH. Qed.

Lemma be_val_app base acc l1 l2 :
  be_val base acc (l1 ++ l2) = be_val base (be_val base acc l1) l2.
Proof. revert acc. induction l1 as [|d l1 IH]; intros acc; cbn [be_val app]; auto. Qed.

Lemma be_val_rev base l : be_val base 0 (rev l) = le_val base l.
Proof.
  induction l as [|d l IH]; cbn [rev le_val be_val]; [reflexivity|].
  rewrite be_val_app, IH. cbn [be_val]. lia.
Qed.

Lemma be_val_zeros base k l : be_val base 0 (repeat 0 k ++ l) = be_val base 0 l.
Proof. induction k as [|k IH]; cbn [repeat app be_val]; [reflexivity|]. exact IH. Qed.

(* the digit list of a printed number: exactly [width] digits below the base
   whose big-endian value is the number *)
Lemma fmt_num_digits base up width v :
  1 < base -> v < base ^ N.of_nat width -> (1 <= width <= 64)%nat ->
  exists ds, fmt_num base up width v = map (digit_char up) ds /\
             length ds = width /\ Forall (fun d => d < base) ds /\ be_val base 0 ds = v.
Proof.
  intros Hb Hv Hw. unfold fmt_num, pad_left.
  rewrite digits_rev_dig, <- map_rev.
  assert (Hv64 : v < base ^ N.of_nat 64).
  { eapply N.lt_le_trans; [exact Hv|]. apply N.pow_le_mono_r; lia. }
  destruct (dig_spec 64 base v Hb Hv64) as [D1 D2].
  pose proof (dig_length 64 base v width Hb Hv ltac:(lia)) as DL.
  exists (repeat 0 (width - length (dig 64 base v)) ++ rev (dig 64 base v)).
  rewrite map_length, rev_length.
  repeat split.
  - rewrite map_app. f_equal. rewrite map_repeat'. reflexivity.
  - rewrite app_length, repeat_length, rev_length. lia.
  - apply Forall_app. split.
    + apply Forall_forall. intros x Hx. apply repeat_spec in Hx. subst. lia.
    + apply Forall_rev. exact D2.
  - rewrite be_val_zeros, be_val_rev. exact D1.
Qed.

Lemma hex_more_digits up ds z acc k :
  Forall (fun d => d < 16) ds -> length ds = k ->
  hex_more k acc (map (digit_char up) ds ++ z) = (be_val 16 acc ds, z).
Proof.
  revert acc k. induction ds as [|d ds IH]; intros acc k Hf Hl; cbn [length] in Hl; subst k.
  - reflexivity.
  - inv Hf. cbn [map app hex_more be_val]. rewrite hex_val_digit_char by assumption.
    apply IH; auto.
Qed.

Lemma oct_more_digits up ds z acc k :
  Forall (fun d => d < 8) ds -> length ds = k ->
  oct_more k acc (map (digit_char up) ds ++ z) = (be_val 8 acc ds, z).
Proof.
  revert acc k. induction ds as [|d ds IH]; intros acc k Hf Hl; cbn [length] in Hl; subst k.
  - reflexivity.
  - inv Hf. cbn [map app oct_more be_val]. rewrite oct_val_digit_char by assumption.
    apply IH; auto.
Qed.

(* \xHH, \uhhhh, \UHHHHHHHH *)
Lemma hex_digits_fmt up width v z :
  v < 16 ^ N.of_nat width -> (1 <= width <= 64)%nat ->
  hex_digits width (fmt_num 16 up width v ++ z) = Some (v, z).
Proof.
  intros Hv Hw.
  destruct (fmt_num_digits 16 up width v ltac:(lia) Hv Hw) as (ds & E & L & Fa & V).
  rewrite E. destruct ds as [|d ds]; [cbn in L; lia|].
  pose proof (Forall_inv Fa) as Hd. pose proof (Forall_inv_tail Fa) as Hds. cbn beta in Hd.
  cbn [map app hex_digits]. rewrite hex_val_digit_char by assumption.
  cbn [length] in L. replace (width - 1)%nat with (length ds) by lia.
  rewrite (hex_more_digits up ds z d (length ds)) by auto.
  cbn [be_val] in V. rewrite N.mul_0_l, N.add_0_l in V. rewrite V. reflexivity.
Qed.

(* \OOO : the first digit is the character after the backslash *)
Lemma oct_fmt v :
  v <= 255 ->
  exists d0 t, fmt_num 8 false 3 v = digit_char false d0 :: t /\ d0 < 8 /\
               forall z, oct_more 2 d0 (t ++ z) = (v, z).
Proof.
  intros Hv.
  destruct (fmt_num_digits 8 false 3 v ltac:(lia) ltac:(cbn; lia) ltac:(lia)) as (ds & E & L & Fa & V).
  destruct ds as [|d ds]; [cbn in L; lia|].
  pose proof (Forall_inv Fa) as Hd. pose proof (Forall_inv_tail Fa) as Hds. cbn beta in Hd.
  exists d, (map (digit_char false) ds). cbn [map] in E. repeat split; auto.
  intros z. cbn [length] in L. rewrite (oct_more_digits false ds z d 2) by (auto; lia).
  cbn [be_val] in V. rewrite N.mul_0_l, N.add_0_l in V. rewrite V. reflexivity.
Qed.
