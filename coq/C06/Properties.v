(* C06 — property theorems only.  Each is closed by [exact] of a lemma from the
   proof files; the driver pins the statements with [Check] and prints the
   assumptions on every run. *)
From Yv Require Import Common.Base C06.Model C06.Spec C06.SpecCmd C06.SpecCompound C06.Proofs.
From Yv Require Import C06.GenTie Gen.Gen_Keywords.
From Coq Require Ascii String.
Import Coq.Strings.String.StringSyntax.

(* The parser model is total: with the fuel computed from the length of the
   text (16 * length + 16) it answers with a tree or a syntax error -- or
   "outside the model" when it meets a here-document operator -- for every
   text; the fuel is never exhausted and the modelled panic site
   (`unreachable!()` in lex/arith.rs) is never reached. *)
Theorem parse_total : forall s,
  (exists t, parse_program s = Ok t) \/ parse_program s = Err \/ parse_program s = Unsupp.
Proof. exact parse_program_total. Qed.

(* Dollar-single-quoted strings: the escape units the lexer produces are
   printed (EscapeUnit re-encoding: \OOO, \xHH, \uhhhh, \UHHHHHHHH, \cX, \c\\ ...)
   in a form that is lexed back to the same units, whatever follows the
   closing quote. *)
Theorem escape_print_relex : forall f s es r,
  lex_escaped f s = Ok (es, r) ->
  forall z, lex_escaped (S (length es)) (cat_map print_eu es ++ c_sq :: z) = Ok (es, z).
Proof. exact escaped_roundtrip. Qed.

(* The tilde post-processing (Word::parse_tilde_front / parse_tilde_everywhere)
   does not change the printed text of a word. *)
Theorem tilde_front_print : forall w, print_word (tilde_front w) = print_word w.
Proof. exact print_tilde_front. Qed.

Theorem tilde_everywhere_print : forall fuel w,
  print_word (tilde_everywhere fuel w) = print_word w.
Proof. exact print_tilde_everywhere. Qed.

(* lex_word_print: lexing the printed form of any word in the lexer's image
   (for every context, delimiter set and source text, line continuations
   included), followed by any text [z] that does not extend the word, returns
   that word and the rest [z].  [z] does not extend the word when it does not
   start with a line continuation, is empty or starts with a delimiter, and is
   compatible with the last unit: a trailing literal `$` is not followed by
   `(`, and nothing follows a trailing unquoted backslash ([last_fo_word]).
   Covered: literals, backslash escapes, single/double/dollar-single quotes,
   $name, ${name} with every modifier and nested words, `...`, $((...)), and
   $(...) for any parser [inner] of the content that reads its own content
   back; not covered ([ok_word]): a $(...) whose content starts with `(`
   (known finding F14). *)
Theorem lex_word_print : forall inner : str -> res (str * str),
  (forall s content r0 r0', inner s = Ok (content, r0) -> skip_lc r0 = c_rparen :: r0' ->
     forall z, inner (content ++ c_rparen :: z) = Ok (content, c_rparen :: z)) ->
  forall f cx d s w r,
  lex_units inner f cx d s = Ok (w, r) -> ok_word w = true -> d <> DDQuote ->
  forall z, nolc z -> stops d z -> last_fo_word cx d w (hd z) ->
  lex_units inner (S (S f)) cx d (print_word (tilde_front w) ++ z) = Ok (w, z).
Proof. exact lex_word_print. Qed.

(* without any hypothesis on the parser of command substitutions (so in
   particular for the model's own parser p_inner, with any fuel), for words
   that contain no `$(...)` *)
Theorem lex_word_print_nocs : forall (i1 i2 : str -> res (str * str)) f cx d s w r,
  lex_units i1 f cx d s = Ok (w, r) -> nocs_word w = true -> d <> DDQuote ->
  forall z, nolc z -> stops d z -> last_fo_word cx d w (hd z) ->
  lex_units i2 (S (S f)) cx d (print_word (tilde_front w) ++ z) = Ok (w, z).
Proof. exact lex_word_print_nocs_lemma. Qed.

(* in particular the rest the lexer stopped at is such a text *)
Theorem lex_word_print_same : forall inner : str -> res (str * str),
  (forall s content r0 r0', inner s = Ok (content, r0) -> skip_lc r0 = c_rparen :: r0' ->
     forall z, inner (content ++ c_rparen :: z) = Ok (content, c_rparen :: z)) ->
  forall f cx d s w r,
  lex_units inner f cx d s = Ok (w, r) -> ok_word w = true -> d <> DDQuote ->
  lex_units inner (S (S f)) cx d (print_word w ++ r) = Ok (w, r).
Proof. exact lex_units_print_same. Qed.

(* the restriction [ok_word] cannot be dropped (known finding F14): with the
   model of the real parser as [inner], the word `$(('(' ) )` is lexed to a
   command substitution, but its printed form followed by `)` is not lexed
   back to it *)
Theorem lex_word_print_refuted :
  let inner := p_inner 200 in
  let s := lit "$(('(' ) ) " in
  let z := lit ")" in
  exists w r,
    lex_units inner 200 CWord DToken s = Ok (w, r) /\ ok_word w = false /\
    nolc z /\ stops DToken z /\ last_fo_word CWord DToken w (hd z) /\
    lex_units inner 202 CWord DToken (print_word w ++ z) <> Ok (w, z).
Proof. exact lex_units_print_refuted_witness. Qed.

(* lex_token_print: a word token (any token that is not an operator or the end
   of input) is read back from its printed form followed by a text that does
   not extend it; its kind (keyword, IO_NUMBER, IO_LOCATION, plain word) is
   then decided by the word and the first character of that text alone *)
Theorem lex_token_print : forall inner : str -> res (str * str),
  (forall s content r0 r0', inner s = Ok (content, r0) -> skip_lc r0 = c_rparen :: r0' ->
     forall z, inner (content ++ c_rparen :: z) = Ok (content, c_rparen :: z)) ->
  forall f s t r,
  lex_token inner f s = Ok (t, r) -> t_word t <> [] ->
  exists w,
    t_word t = tilde_front w /\
    (ok_word w = true ->
     forall z, nolc z -> stops DToken z -> last_fo_word CWord DToken w (hd z) ->
       lex_token inner (S (S f)) (print_word (t_word t) ++ z)
       = Ok (mkToken (t_word t) (token_id_of (t_word t) z) (print_word (t_word t) ++ z), z)).
Proof. exact lex_token_print_lemma. Qed.

(* redirection placement: a redirection (optional file-descriptor number,
   operator, operand) is read back from its printed form, in which the three
   parts are adjacent; [w0] are the operand's units before the tilde
   post-processing.  Here-document operators are outside the model. *)
Theorem p_redir_print : forall inner : str -> res (str * str),
  (forall s content r0 r0', inner s = Ok (content, r0) -> skip_lc r0 = c_rparen :: r0' ->
     forall z, inner (content ++ c_rparen :: z) = Ok (content, c_rparen :: z)) ->
  forall f s rd r,
  p_redir (lex_token inner f) s = Ok (Some rd, r) ->
  exists rop w0,
    r_body rd = RNormal rop (tilde_front w0) /\
    (ok_word w0 = true ->
     forall z f', nolc z -> stops DToken z -> last_fo_word CWord DToken w0 (hd z) ->
       (S (S f) <= f')%nat -> (13 <= f')%nat ->
       p_redir (lex_token inner f') (print_redir rd ++ z) = Ok (Some rd, z)).
Proof. exact p_redir_print_lemma. Qed.

(* simple commands (simple_command.rs) without `$(...)`: if the loop of
   simple_command.rs, started at any text [s], returns the assignments [a],
   words [w] and redirections [rds], then it returns the same three lists
   from the text printed by Display for SimpleCommand -- in whichever of its
   four orders (redirections first when the command ends with a backslash;
   assignments, words, redirections; redirections before a keyword; all
   redirections but the last before a keyword when the last one ends with a
   backslash) -- followed by any text [z] that starts with nothing, a blank
   or an operator character ending a command, provided something followed the
   command in [s] or no printed item ends with a backslash.  Covers the
   recomputation of the expansion modes of declaration utilities, array
   assignments, keywords after a redirection and IO numbers. *)
Theorem p_simple_print : forall f s a w rds r z pre,
  p_simple f None empty_b s = Ok (Some (a, w, rds), r) ->
  r <> [] \/ nobs_res (a, w, rds) -> nocs_res (a, w, rds) -> follow z -> cmd_end z -> is_lead pre ->
  exists F, forall f', (F <= f')%nat ->
    p_simple f' None empty_b (pre ++ print_simple a w rds ++ z) = Ok (Some (a, w, rds), z).
Proof. exact simple_print_lemma. Qed.

(* the same one level up (command.rs): the printed simple command is read
   back as that simple command -- not as a function definition or a compound
   command *)
Theorem p_command_print : forall f s a w rds r z pre,
  p_command f s = Ok (Some (CSimple a w rds), r) ->
  r <> [] \/ nobs_res (a, w, rds) -> nocs_res (a, w, rds) -> follow z -> cmd_end z -> is_lead pre ->
  exists F, forall f', (F <= f')%nat ->
    p_command f' (pre ++ print_command (CSimple a w rds) ++ z) = Ok (Some (CSimple a w rds), z).
Proof. exact command_print_lemma. Qed.

(* parse_print_list for the lists made of simple commands: a text whose tree
   consists of pipelines (with `!`), and-or lists (`&&`, `||`) and sequences
   (`;`, `&`, newlines) of simple commands without `$(...)`, none of whose
   printed words ends with a backslash, is printed by Display for List as a
   text that the parser reads back as the same tree.  [clean_list] says
   exactly that about the tree; compound commands and function definitions are
   not covered. *)
Theorem parse_print_simple_lists : forall s l,
  parse_program s = Ok l -> clean_list l -> parse_program (print_list false l) = Ok l.
Proof. exact parse_print_simple_lists_lemma. Qed.

(* parse_print_list for lists with groupings, subshells and while/until loops:
   the commands of the pipelines may also be groupings `{ ...; }`, subshells
   `( ... )` and loops `while ...; do ...; done` / `until ...; do ...; done`
   without redirections of their own, whose bodies and conditions are again
   such lists, to any depth.
   [clean_list_n n] describes these trees level by level ([n] levels of
   nesting; [clean_n] in SpecCompound.v); the statement holds for every [n],
   so for every such tree.  Covers the alternate form of Display for List
   inside `{ }` and between `while` / `do` / `done` (every item carries its
   `;` or `&`), `&)` and `;` before ` }`, `! ` before `{`, `(` and `while`,
   and `((`. *)
Theorem parse_print_compound_lists : forall s l n,
  parse_program s = Ok l -> clean_list_n n l -> parse_program (print_list false l) = Ok l.
Proof. exact parse_print_compound_lists_lemma. Qed.

(* operator spacing: an operator is read back from its text whenever the next
   character does not turn it into a longer operator *)
Theorem lex_operator_print : forall o z,
  nolc z -> op_follow_ok o (hd z) -> lex_operator (print_op o ++ z) = Some (o, z).
Proof. exact lex_operator_print_lemma. Qed.

(* the answer of the parser model is a function of the text alone: every fuel
   above the one computed from the length gives the same answer *)
Theorem parse_more_fuel : forall s f,
  (parse_fuel s <= f)%nat -> p_mcl f s = p_mcl (parse_fuel s) s.
Proof. exact parse_more_fuel_lemma. Qed.

(* known finding F14 at the level of programs: the statement "the printed text
   of a parsed tree parses back to the tree" is false of the model (which
   mirrors the implementation) for a tree of the class [f14_class] *)
Theorem parse_print_refuted :
  exists s t, parse_program s = Ok t /\ f14_class t = true /\
              parse_program (print_list false t) <> Ok t.
Proof. exact parse_print_refuted_lemma. Qed.

Theorem oracle_err : forall s, oracle PErr s = None.
Proof. exact oracle_accepts_errors. Qed.

(* TIE BY TRANSLATION: the reserved words of the parser and printer models are
   those of yash-syntax/src/parser/lex/keyword.rs as it is now (translator/keywords.py) *)
Theorem parser_keyword_table_is_source_table :
  map (fun p => (fst p, keyword_index (snd p))) keyword_table = gen_keyword_from_str.
Proof. exact parser_keyword_table_is_source_table. Qed.
Theorem printer_keywords_are_source_texts : keywords = map snd gen_keyword_as_str.
Proof. exact printer_keywords_are_source_texts. Qed.
Theorem keyword_clause_delimiters_are_source :
  forall k, is_clause_delimiter (TToken (Some k)) = existsb (N.eqb (keyword_index k)) gen_clause_delimiters.
Proof. exact keyword_clause_delimiters_are_source. Qed.
Print Assumptions parser_keyword_table_is_source_table.
Print Assumptions printer_keywords_are_source_texts.
Print Assumptions keyword_clause_delimiters_are_source.
