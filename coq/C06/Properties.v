(* C06 — property theorems only.  Each is closed by [exact] of a lemma from the
   proof files; the driver pins the statements with [Check] and prints the
   assumptions on every run. *)
From Yv Require Import Common.Base C06.Model C06.Spec C06.Proofs.

(* The parser model is total: with the fuel computed from the length of the
   text (16 * length + 16) it answers with a tree or a syntax error -- or
   "outside the model" when it meets a here-document operator -- for every
   text; the fuel is never exhausted and the modelled panic site
   (`unreachable!()` in lex/arith.rs) is never reached. *)
Theorem parse_total : forall s,
  (exists t, parse_program s = Ok t) \/ parse_program s = Err \/ parse_program s = Unsupp.
Proof. exact parse_program_total. Qed.

Theorem oracle_err : forall s, oracle PErr s = None.
Proof. exact oracle_accepts_errors. Qed.
