(* C06 -- proofs, part 23: groupings `{ ...; }`, subshells `( ... )` and
   `while` / `until` loops are
   read back from their printed text, at every depth of nesting; the round
   trip of the lists that contain them. *)
From Yv Require Import Common.Base C06.Ast C06.Print C06.Lex C06.LexEq C06.Parse C06.ParseEq
  C06.Spec C06.ProofsLen C06.ProofsStop C06.ProofsTilde C06.ProofsNum C06.ProofsRtBase C06.ProofsRt
  C06.ProofsMono C06.ProofsOp C06.ProofsToken C06.ProofsInner C06.ProofsRedir C06.SpecCmd C06.ProofsCmdBase C06.ProofsSimple
  C06.ProofsSimpleAux C06.ProofsSimpleFirst C06.ProofsSimpleRun C06.ProofsCommand C06.ProofsParse C06.ProofsTop
  C06.ProofsList C06.SpecCompound.
From Coq Require Ascii String.
Import Coq.Strings.String.StringSyntax.
Local Open Scope N_scope.

(* ---- what may follow a command may follow the closing brace ---- *)
Lemma follow_stops z : follow z -> nolc z /\ stops DToken z.
Proof.
  intros [-> | [[z' ->] | (c & z' & -> & Hc)]].
  - split; [reflexivity | exact I].
  - split; [apply nolc_cons; reflexivity | reflexivity].
  - unfold end_char in Hc.
    assert (X : c = 10 \/ c = 38 \/ c = 41 \/ c = 59 \/ c = 124).
    { repeat (apply Bool.orb_true_iff in Hc; destruct Hc as [Hc|Hc]); apply N.eqb_eq in Hc; auto. }
    destruct X as [->|[->|[->|[->| ->]]]]; (split; [apply nolc_cons; reflexivity | reflexivity]).
Qed.

(* simple_command.rs takes nothing at an opening brace or parenthesis *)
Lemma opener_no_simple s w id at_ r :
  (forall f, (8 <= f)%nat -> tk2 f s = Ok (mkToken w id at_, r)) ->
  id = TOp OpOpenParen \/ (exists k, id = TToken (Some k)) ->
  forall e, (9 <= e)%nat -> p_simple e None (mkBuilder [] [] []) s = Ok (None, s).
Proof.
  intros Ht Hid e He. destruct e as [|e]; [lia|].
  assert (Hr : p_redir (tk2 e) s = Ok (None, s)).
  { unfold p_redir, bind. rewrite (Ht e ltac:(lia)).
    destruct Hid as [-> | [k0 ->]]; cbn [t_id t_word]; rewrite (Ht e ltac:(lia)); reflexivity. }
  rewrite p_simple_eq. cbv zeta. unfold bind.
  rewrite Hr. rewrite (Ht e ltac:(lia)). destruct Hid as [-> | [k0 ->]]; reflexivity.
Qed.

(* no redirection follows where a command may end *)
Lemma redirs_none z f k : cmd_end z -> (4 <= f)%nat -> p_redirs (tk2 f) (S k) z = Ok ([], z).
Proof.
  intros He Hf.
  destruct (cmd_end_token (p_inner f) f z He ltac:(lia)) as (t & r & Et & _ & _ & Hid).
  assert (Hr : p_redir (tk2 f) z = Ok (None, z)).
  { unfold p_redir, bind. rewrite Et. revert Hid.
    destruct (t_id t) as [kw|op| | |] eqn:Eid; intros Hid; try contradiction.
    - cbv beta match. rewrite Et, Eid. destruct Hid as (H1 & H2 & H3 & H4 & H5 & H6). rewrite H1.
      destruct op; try reflexivity; congruence.
    - cbv beta match. rewrite Et, Eid. reflexivity. }
  cbn [p_redirs]. unfold bind. rewrite Hr. reflexivity.
Qed.


(* the reserved words `while` and `until` in front of a blank *)
Lemma tok_loop i f k cs x pre :
  (k = KWhile /\ cs = [119; 104; 105; 108; 101]) \/ (k = KUntil /\ cs = [117; 110; 116; 105; 108]) ->
  is_lead pre -> (8 <= f)%nat ->
  lex_token i f (pre ++ cs ++ 32 :: x) = Ok (mkToken (wlits cs) (TToken (Some k)) (cs ++ 32 :: x), 32 :: x).
Proof.
  intros Hk Hl Hf.
  assert (E : lex_token i f (cs ++ 32 :: x) = Ok (mkToken (wlits cs) (TToken (Some k)) (cs ++ 32 :: x), 32 :: x)).
  { destruct Hk as [[-> ->]|[-> ->]]; cbn [app];
      unfold lex_token; rewrite skip_blanks_and_comment_id by reflexivity;
      match goal with |- context [lex_operator ?t] =>
        assert (Eo : lex_operator t = None)
          by (unfold lex_operator; rewrite skip_lc_nonbslash by reflexivity; reflexivity)
      end; rewrite Eo; unfold bind.
    - pose proof (lex_units_plain i [119; 104; 105; 108; 101] (32 :: x) f eq_refl
                    (nolc_cons 32 x eq_refl) eq_refl ltac:(cbn; lia)) as L.
      cbn [app] in L. rewrite L. reflexivity.
    - pose proof (lex_units_plain i [117; 110; 116; 105; 108] (32 :: x) f eq_refl
                    (nolc_cons 32 x eq_refl) eq_refl ltac:(cbn; lia)) as L.
      cbn [app] in L. rewrite L. reflexivity. }
  destruct Hl as [-> | ->]; cbn [app]; rewrite ?lex_token_blank; exact E.
Qed.

(* ---- one level: groupings and subshells whose bodies are made of commands of
   a class that is read back ---- *)
Section Step.
  Variable P : command -> Prop.
  Hypothesis P_replay : replays P.

  Lemma group_replay l z pre :
    Forall (gitem P) l -> l <> [] -> follow z -> cmd_end z -> is_lead pre ->
    exists f0, forall f, (f0 <= f)%nat ->
      p_command f (pre ++ print_command (CCompound (Grouping l) []) ++ z)
      = Ok (Some (CCompound (Grouping l) []), z) /\
      forall k, skip_newlines (tk2 f) (S k) (pre ++ print_command (CCompound (Grouping l) []) ++ z)
                = Ok (pre ++ print_command (CCompound (Grouping l) []) ++ z).
  Proof.
    intros Hg Hne Hfo Hce Hl.
    destruct (follow_stops z Hfo) as [Hn Hs].
    assert (Hzl : zl true (32 :: 125 :: z)).
    { exists KCloseBrace, [125], z. split; [reflexivity|]. split; [left; auto | auto]. }
    destruct (mcl_replay P P_replay l Hg Hne [32] true (32 :: 125 :: z) (or_intror eq_refl) Hzl) as [f1 H1].
    assert (Ep : print_command (CCompound (Grouping l) []) ++ z
                 = 123 :: 32 :: print_list true l ++ 32 :: 125 :: z).
    { cbn [print_command print_compound cat_map]. rewrite app_nil_r.
      change (kw "{ ") with [123; 32]. change (kw " }") with [32; 125].
      fold (print_list true l). cbn [app]. rewrite <- app_assoc. reflexivity. }
    rewrite Ep. set (body := print_list true l) in *.
    assert (Htk : forall g, (4 <= g)%nat ->
              tk2 g (pre ++ 123 :: 32 :: body ++ 32 :: 125 :: z)
              = Ok (mkToken [Unquoted (Literal 123)] (TToken (Some KOpenBrace))
                            (123 :: 32 :: body ++ 32 :: 125 :: z), 32 :: body ++ 32 :: 125 :: z)).
    { intros g Hg'. apply tok_lbrace; assumption. }
    exists (S (S (S (max f1 8)))). intros f Hf. split.
    - destruct f as [|[|[|f]]]; try lia.
      rewrite p_command_eq. cbv zeta. unfold bind.
      rewrite (opener_no_simple _ _ _ _ _ (fun g Hg' => Htk g ltac:(lia)) (or_intror (ex_intro _ _ eq_refl)) (S (S f)) ltac:(lia)).
      assert (Hc : p_compound (S f) (pre ++ 123 :: 32 :: body ++ 32 :: 125 :: z) = Ok (Some (Grouping l), z)).
      { rewrite p_compound_eq. cbv zeta. unfold bind. rewrite (Htk f ltac:(lia)). cbn [t_id].
        pose proof (H1 f ltac:(lia)) as X. cbn [app] in X. rewrite X.
        rewrite (tok_rbrace _ f z [32] (or_intror eq_refl) Hn Hs ltac:(lia)). cbn [t_id].
        destruct l; [congruence | reflexivity]. }
      assert (Hfc : p_full_compound (S (S f)) (pre ++ 123 :: 32 :: body ++ 32 :: 125 :: z)
                    = Ok (Some (Grouping l, []), z)).
      { rewrite p_full_compound_eq. cbv zeta. unfold bind. rewrite Hc.
        rewrite (redirs_none z (S f) f Hce ltac:(lia)). reflexivity. }
      rewrite Hfc. reflexivity.
    - intros k. eapply skip_newlines_none; [apply (Htk f); lia | discriminate].
  Qed.

  Lemma subshell_replay l z pre :
    Forall (gitem P) l -> l <> [] -> follow z -> cmd_end z -> is_lead pre ->
    exists f0, forall f, (f0 <= f)%nat ->
      p_command f (pre ++ print_command (CCompound (Subshell l) []) ++ z)
      = Ok (Some (CCompound (Subshell l) []), z) /\
      forall k, skip_newlines (tk2 f) (S k) (pre ++ print_command (CCompound (Subshell l) []) ++ z)
                = Ok (pre ++ print_command (CCompound (Subshell l) []) ++ z).
  Proof.
    intros Hg Hne Hfo Hce Hl.
    assert (Hzl : zl false (41 :: z)) by (right; eauto).
    destruct (mcl_replay P P_replay l Hg Hne [] false (41 :: z) (or_introl eq_refl) Hzl) as [f1 H1].
    assert (Ep : print_command (CCompound (Subshell l) []) ++ z
                 = 40 :: print_list false l ++ 41 :: z).
    { cbn [print_command print_compound cat_map]. rewrite app_nil_r.
      fold (print_list false l). cbn [app]. rewrite <- app_assoc. reflexivity. }
    rewrite Ep. set (body := print_list false l) in *.
    assert (Htk : forall g, (4 <= g)%nat ->
              tk2 g (pre ++ 40 :: body ++ 41 :: z)
              = Ok (mkToken [] (TOp OpOpenParen) (40 :: body ++ 41 :: z), body ++ 41 :: z)).
    { intros g Hg'. apply tok_lparen; assumption. }
    exists (S (S (S (max f1 8)))). intros f Hf. split.
    - destruct f as [|[|[|f]]]; try lia.
      rewrite p_command_eq. cbv zeta. unfold bind.
      rewrite (opener_no_simple _ _ _ _ _ (fun g Hg' => Htk g ltac:(lia)) (or_introl eq_refl) (S (S f)) ltac:(lia)).
      assert (Hc : p_compound (S f) (pre ++ 40 :: body ++ 41 :: z) = Ok (Some (Subshell l), z)).
      { rewrite p_compound_eq. cbv zeta. unfold bind. rewrite (Htk f ltac:(lia)). cbn [t_id].
        pose proof (H1 f ltac:(lia)) as X. cbn [app] in X. rewrite X.
        rewrite tok_rparen. cbn [t_id].
        destruct l; [congruence | reflexivity]. }
      assert (Hfc : p_full_compound (S (S f)) (pre ++ 40 :: body ++ 41 :: z)
                    = Ok (Some (Subshell l, []), z)).
      { rewrite p_full_compound_eq. cbv zeta. unfold bind. rewrite Hc.
        rewrite (redirs_none z (S f) f Hce ltac:(lia)). reflexivity. }
      rewrite Hfc. reflexivity.
    - intros k. eapply skip_newlines_none; [apply (Htk f); lia | discriminate].
  Qed.

  Lemma while_replay c b z pre :
    Forall (gitem P) c -> c <> [] -> Forall (gitem P) b -> b <> [] ->
    follow z -> cmd_end z -> is_lead pre ->
    exists f0, forall f, (f0 <= f)%nat ->
      p_command f (pre ++ print_command (CCompound (While c b) []) ++ z)
      = Ok (Some (CCompound (While c b) []), z) /\
      forall k, skip_newlines (tk2 f) (S k) (pre ++ print_command (CCompound (While c b) []) ++ z)
                = Ok (pre ++ print_command (CCompound (While c b) []) ++ z).
  Proof.
    intros Hgc Hnec Hgb Hneb Hfo Hce Hl.
    destruct (follow_stops z Hfo) as [Hn Hs].
    set (C := print_list true c). set (B := print_list true b).
    set (X2 := 32 :: [100; 111; 110; 101] ++ z).
    set (X1 := 32 :: [100; 111] ++ 32 :: B ++ X2).
    assert (Hz2 : zl true X2).
    { exists KDone, [100; 111; 110; 101], z. split; [reflexivity|]. split; [right; right; auto | auto]. }
    assert (Hn1 : nolc (32 :: B ++ X2)) by (apply nolc_cons; reflexivity).
    assert (Hz1 : zl true X1).
    { exists KDo, [100; 111], (32 :: B ++ X2). split; [reflexivity|].
      split; [right; left; auto | split; [exact Hn1 | reflexivity]]. }
    destruct (mcl_replay P P_replay c Hgc Hnec [32] true X1 (or_intror eq_refl) Hz1) as [f1 H1].
    destruct (mcl_replay P P_replay b Hgb Hneb [32] true X2 (or_intror eq_refl) Hz2) as [f2 H2].
    fold C in H1. fold B in H2.
    assert (Ep : print_command (CCompound (While c b) []) ++ z = [119; 104; 105; 108; 101] ++ 32 :: C ++ X1).
    { cbn [print_command print_compound cat_map]. rewrite app_nil_r.
      change (kw "while ") with ([119; 104; 105; 108; 101] ++ [32]). change (kw " do ") with [32; 100; 111; 32].
      change (kw " done") with [32; 100; 111; 110; 101].
      fold (print_list true c). fold (print_list true b). fold C. fold B. unfold X1, X2.
      rewrite <- !app_assoc. reflexivity. }
    rewrite Ep.
    assert (Htk : forall g, (8 <= g)%nat ->
              tk2 g (pre ++ [119; 104; 105; 108; 101] ++ 32 :: C ++ X1)
              = Ok (mkToken (wlits [119; 104; 105; 108; 101]) (TToken (Some KWhile)) ([119; 104; 105; 108; 101] ++ 32 :: C ++ X1), 32 :: C ++ X1)).
    { intros g Hg'. apply tok_loop; [auto | assumption | assumption]. }
    exists (S (S (S (S (max (max f1 f2) 12))))). intros f Hf. split.
    - destruct f as [|[|[|[|f]]]]; try lia.
      rewrite p_command_eq. cbv zeta. unfold bind.
      rewrite (opener_no_simple _ _ _ _ _ (fun g Hg' => Htk g ltac:(lia)) (or_intror (ex_intro _ _ eq_refl)) (S (S (S f))) ltac:(lia)).
      assert (Hdo : p_do_clause (S f) X1 = Ok (Some b, z)).
      { rewrite p_do_clause_eq. cbv zeta. unfold bind.
        assert (E1 : tk2 f X1 = Ok (mkToken (wlits [100; 111]) (TToken (Some KDo)) ([100; 111] ++ 32 :: B ++ X2), 32 :: B ++ X2)).
        { apply (tok_closer _ f KDo [100; 111] (32 :: B ++ X2) [32]); [right; left; auto | right; reflexivity | exact Hn1 | reflexivity | lia]. }
        rewrite E1. cbn [t_id].
        pose proof (H2 f ltac:(lia)) as Xb. cbn [app] in Xb. rewrite Xb.
        assert (E2 : tk2 f X2 = Ok (mkToken (wlits [100; 111; 110; 101]) (TToken (Some KDone)) ([100; 111; 110; 101] ++ z), z)).
        { apply (tok_closer _ f KDone [100; 111; 110; 101] z [32]); [right; right; auto | right; reflexivity | exact Hn | exact Hs | lia]. }
        rewrite E2. cbn [t_id].
        destruct b; [congruence | reflexivity]. }
      assert (Hc : p_compound (S (S f)) (pre ++ [119; 104; 105; 108; 101] ++ 32 :: C ++ X1) = Ok (Some (While c b), z)).
      { rewrite p_compound_eq. cbv zeta. unfold bind. rewrite (Htk (S f) ltac:(lia)). cbn [t_id].
        pose proof (H1 (S f) ltac:(lia)) as Xc. cbn [app] in Xc. rewrite Xc.
        destruct c; [congruence|]. rewrite Hdo. reflexivity. }
      assert (Hfc : p_full_compound (S (S (S f))) (pre ++ [119; 104; 105; 108; 101] ++ 32 :: C ++ X1)
                    = Ok (Some (While c b, []), z)).
      { rewrite p_full_compound_eq. cbv zeta. unfold bind. rewrite Hc.
        rewrite (redirs_none z (S (S f)) (S f) Hce ltac:(lia)). reflexivity. }
      rewrite Hfc. reflexivity.
    - intros k. eapply skip_newlines_none; [apply (Htk f); lia | discriminate].
  Qed.

  Lemma until_replay c b z pre :
    Forall (gitem P) c -> c <> [] -> Forall (gitem P) b -> b <> [] ->
    follow z -> cmd_end z -> is_lead pre ->
    exists f0, forall f, (f0 <= f)%nat ->
      p_command f (pre ++ print_command (CCompound (Until c b) []) ++ z)
      = Ok (Some (CCompound (Until c b) []), z) /\
      forall k, skip_newlines (tk2 f) (S k) (pre ++ print_command (CCompound (Until c b) []) ++ z)
                = Ok (pre ++ print_command (CCompound (Until c b) []) ++ z).
  Proof.
    intros Hgc Hnec Hgb Hneb Hfo Hce Hl.
    destruct (follow_stops z Hfo) as [Hn Hs].
    set (C := print_list true c). set (B := print_list true b).
    set (X2 := 32 :: [100; 111; 110; 101] ++ z).
    set (X1 := 32 :: [100; 111] ++ 32 :: B ++ X2).
    assert (Hz2 : zl true X2).
    { exists KDone, [100; 111; 110; 101], z. split; [reflexivity|]. split; [right; right; auto | auto]. }
    assert (Hn1 : nolc (32 :: B ++ X2)) by (apply nolc_cons; reflexivity).
    assert (Hz1 : zl true X1).
    { exists KDo, [100; 111], (32 :: B ++ X2). split; [reflexivity|].
      split; [right; left; auto | split; [exact Hn1 | reflexivity]]. }
    destruct (mcl_replay P P_replay c Hgc Hnec [32] true X1 (or_intror eq_refl) Hz1) as [f1 H1].
    destruct (mcl_replay P P_replay b Hgb Hneb [32] true X2 (or_intror eq_refl) Hz2) as [f2 H2].
    fold C in H1. fold B in H2.
    assert (Ep : print_command (CCompound (Until c b) []) ++ z = [117; 110; 116; 105; 108] ++ 32 :: C ++ X1).
    { cbn [print_command print_compound cat_map]. rewrite app_nil_r.
      change (kw "until ") with ([117; 110; 116; 105; 108] ++ [32]). change (kw " do ") with [32; 100; 111; 32].
      change (kw " done") with [32; 100; 111; 110; 101].
      fold (print_list true c). fold (print_list true b). fold C. fold B. unfold X1, X2.
      rewrite <- !app_assoc. reflexivity. }
    rewrite Ep.
    assert (Htk : forall g, (8 <= g)%nat ->
              tk2 g (pre ++ [117; 110; 116; 105; 108] ++ 32 :: C ++ X1)
              = Ok (mkToken (wlits [117; 110; 116; 105; 108]) (TToken (Some KUntil)) ([117; 110; 116; 105; 108] ++ 32 :: C ++ X1), 32 :: C ++ X1)).
    { intros g Hg'. apply tok_loop; [auto | assumption | assumption]. }
    exists (S (S (S (S (max (max f1 f2) 12))))). intros f Hf. split.
    - destruct f as [|[|[|[|f]]]]; try lia.
      rewrite p_command_eq. cbv zeta. unfold bind.
      rewrite (opener_no_simple _ _ _ _ _ (fun g Hg' => Htk g ltac:(lia)) (or_intror (ex_intro _ _ eq_refl)) (S (S (S f))) ltac:(lia)).
      assert (Hdo : p_do_clause (S f) X1 = Ok (Some b, z)).
      { rewrite p_do_clause_eq. cbv zeta. unfold bind.
        assert (E1 : tk2 f X1 = Ok (mkToken (wlits [100; 111]) (TToken (Some KDo)) ([100; 111] ++ 32 :: B ++ X2), 32 :: B ++ X2)).
        { apply (tok_closer _ f KDo [100; 111] (32 :: B ++ X2) [32]); [right; left; auto | right; reflexivity | exact Hn1 | reflexivity | lia]. }
        rewrite E1. cbn [t_id].
        pose proof (H2 f ltac:(lia)) as Xb. cbn [app] in Xb. rewrite Xb.
        assert (E2 : tk2 f X2 = Ok (mkToken (wlits [100; 111; 110; 101]) (TToken (Some KDone)) ([100; 111; 110; 101] ++ z), z)).
        { apply (tok_closer _ f KDone [100; 111; 110; 101] z [32]); [right; right; auto | right; reflexivity | exact Hn | exact Hs | lia]. }
        rewrite E2. cbn [t_id].
        destruct b; [congruence | reflexivity]. }
      assert (Hc : p_compound (S (S f)) (pre ++ [117; 110; 116; 105; 108] ++ 32 :: C ++ X1) = Ok (Some (Until c b), z)).
      { rewrite p_compound_eq. cbv zeta. unfold bind. rewrite (Htk (S f) ltac:(lia)). cbn [t_id].
        pose proof (H1 (S f) ltac:(lia)) as Xc. cbn [app] in Xc. rewrite Xc.
        destruct c; [congruence|]. rewrite Hdo. reflexivity. }
      assert (Hfc : p_full_compound (S (S (S f))) (pre ++ [117; 110; 116; 105; 108] ++ 32 :: C ++ X1)
                    = Ok (Some (Until c b, []), z)).
      { rewrite p_full_compound_eq. cbv zeta. unfold bind. rewrite Hc.
        rewrite (redirs_none z (S (S f)) (S f) Hce ltac:(lia)). reflexivity. }
      rewrite Hfc. reflexivity.
    - intros k. eapply skip_newlines_none; [apply (Htk f); lia | discriminate].
  Qed.
End Step.

(* ---- all depths ---- *)
Fixpoint good_n (n : nat) (c : command) {struct n} : Prop :=
  match c with
  | CSimple _ _ _ => cmd_good c
  | CCompound (Grouping l) [] | CCompound (Subshell l) [] =>
      match n with
      | O => False
      | S n' => l <> [] /\ Forall (gitem (good_n n')) l
      end
  | CCompound (While c b) [] | CCompound (Until c b) [] =>
      match n with
      | O => False
      | S n' => (c <> [] /\ Forall (gitem (good_n n')) c) /\ (b <> [] /\ Forall (gitem (good_n n')) b)
      end
  | _ => False
  end.

Lemma good_n_replays : forall n, replays (good_n n).
Proof.
  induction n as [|n IH]; intros c z pre Hc Hfo Hce Hl.
  - destruct c as [a w rds|comp rds|]; [apply command_replay; assumption| |exfalso; exact Hc].
    destruct comp; destruct rds; exfalso; exact Hc.
  - destruct c as [a w rds|comp rds|]; [apply command_replay; assumption| |exfalso; exact Hc].
    destruct comp; destruct rds; try (exfalso; exact Hc); destruct Hc as [Hne Hg].
    + apply (group_replay (good_n n) IH); assumption.
    + apply (subshell_replay (good_n n) IH); assumption.
    + destruct Hne as [? ?]. destruct Hg as [? ?]. apply (while_replay (good_n n) IH); assumption.
    + destruct Hne as [? ?]. destruct Hg as [? ?]. apply (until_replay (good_n n) IH); assumption.
Qed.

(* ---- what the first run tells, at every depth: every simple command was read
   by simple_command.rs and no grouping or subshell is empty ---- *)
Fixpoint first_n (n : nat) (c : command) {struct n} : Prop :=
  match c with
  | CSimple _ _ _ => cmd_first c
  | CCompound (Grouping l) _ | CCompound (Subshell l) _ =>
      match n with
      | O => True
      | S n' => l <> [] /\ Forall (gitem (first_n n')) l
      end
  | CCompound (While c b) _ | CCompound (Until c b) _ =>
      match n with
      | O => True
      | S n' => (c <> [] /\ Forall (gitem (first_n n')) c) /\ (b <> [] /\ Forall (gitem (first_n n')) b)
      end
  | _ => True
  end.

Lemma command_compound f s comp rs r :
  p_command f s = Ok (Some (CCompound comp rs), r) ->
  exists f0 s0 s1, (f0 < f)%nat /\ p_compound f0 s0 = Ok (Some comp, s1).
Proof.
  destruct f as [|f]; [discriminate|]. rewrite p_command_eq. cbv zeta. unfold bind.
  destruct (p_simple f None (mkBuilder [] [] []) s) as [[[[[a w] rds]|] s1]| | | |] eqn:E; try discriminate.
  - intros H. repeat (dmh H; try discriminate).
  - destruct (p_full_compound f s1) as [[[[c' rs']|] s2]| | | |] eqn:E2; try discriminate.
    + intros H. inv H. destruct f as [|f]; [discriminate|].
      rewrite p_full_compound_eq in E2. cbv zeta in E2. unfold bind in E2.
      destruct (p_compound f s1) as [[[c''|] s3]| | | |] eqn:E3; try discriminate.
      repeat (dmh E2; try discriminate). inv E2. exists f, s1, s3. split; [lia | exact E3].
    + intros H. repeat (dmh H; try discriminate).
Qed.

Lemma compound_group f s l r :
  p_compound f s = Ok (Some (Grouping l), r) ->
  l <> [] /\ exists f0 s1 s2, (f0 < f)%nat /\ p_mcl f0 s1 = Ok (l, s2).
Proof.
  destruct f as [|f]; [discriminate|]. rewrite p_compound_eq. cbv zeta. unfold bind. intros H.
  repeat (dmh H; try discriminate); inv H.
  split; [discriminate|]. eexists f, _, _. split; [lia | eassumption].
Qed.

Lemma compound_subshell f s l r :
  p_compound f s = Ok (Some (Subshell l), r) ->
  l <> [] /\ exists f0 s1 s2, (f0 < f)%nat /\ p_mcl f0 s1 = Ok (l, s2).
Proof.
  destruct f as [|f]; [discriminate|]. rewrite p_compound_eq. cbv zeta. unfold bind. intros H.
  repeat (dmh H; try discriminate); inv H.
  split; [discriminate|]. eexists f, _, _. split; [lia | eassumption].
Qed.


Lemma do_clause_inv f s b r :
  p_do_clause f s = Ok (Some b, r) ->
  b <> [] /\ exists f0 s1 s2, (f0 < f)%nat /\ p_mcl f0 s1 = Ok (b, s2).
Proof.
  destruct f as [|f]; [discriminate|]. rewrite p_do_clause_eq. cbv zeta. unfold bind. intros H.
  repeat (dmh H; try discriminate); inv H.
  split; [discriminate|]. eexists f, _, _. split; [lia | eassumption].
Qed.

Lemma compound_while f s c b r :
  p_compound f s = Ok (Some (While c b), r) ->
  (c <> [] /\ exists f0 s1 s2, (f0 < f)%nat /\ p_mcl f0 s1 = Ok (c, s2)) /\
  (b <> [] /\ exists f0 s1 s2, (f0 < f)%nat /\ p_mcl f0 s1 = Ok (b, s2)).
Proof.
  destruct f as [|f]; [discriminate|]. rewrite p_compound_eq. cbv zeta. unfold bind. intros H.
  repeat (dmh H; try discriminate); inv H.
  match goal with X : p_do_clause _ _ = Ok (Some _, _) |- _ =>
    destruct (do_clause_inv _ _ _ _ X) as (Hb & fb & sb1 & sb2 & Hl & Hm) end.
  split; split; try discriminate; try exact Hb.
  - eexists f, _, _. split; [lia | eassumption].
  - exists fb, sb1, sb2. split; [lia | exact Hm].
Qed.

Lemma compound_until f s c b r :
  p_compound f s = Ok (Some (Until c b), r) ->
  (c <> [] /\ exists f0 s1 s2, (f0 < f)%nat /\ p_mcl f0 s1 = Ok (c, s2)) /\
  (b <> [] /\ exists f0 s1 s2, (f0 < f)%nat /\ p_mcl f0 s1 = Ok (b, s2)).
Proof.
  destruct f as [|f]; [discriminate|]. rewrite p_compound_eq. cbv zeta. unfold bind. intros H.
  repeat (dmh H; try discriminate); inv H.
  match goal with X : p_do_clause _ _ = Ok (Some _, _) |- _ =>
    destruct (do_clause_inv _ _ _ _ X) as (Hb & fb & sb1 & sb2 & Hl & Hm) end.
  split; split; try discriminate; try exact Hb.
  - eexists f, _, _. split; [lia | eassumption].
  - exists fb, sb1, sb2. split; [lia | exact Hm].
Qed.

Lemma extract_first : forall f n, Extract (first_n n) f.
Proof.
  induction f as [|f IH]; intros n; [apply extract_zero|]. apply extract_step; [apply IH|].
  intros s c r H. destruct c as [a w rds|comp rds|]; [destruct n; exact (command_first _ _ _ _ H) | | destruct n; exact I].
  destruct n as [|n]; [destruct comp; exact I|].
  destruct (command_compound _ _ _ _ _ H) as (f0 & s0 & s1 & Hlt & Hc).
  destruct comp; try exact I.
  - destruct (compound_group _ _ _ _ Hc) as (Hne & f1 & s2 & s3 & Hlt1 & Hm).
    split; [exact Hne|].
    apply (ex_mcl _ _ (IH n) s2 _ s3).
    apply (gm_mcl f1 (parser_mono f1) f s2 _ ltac:(lia) Hm ltac:(discriminate)).
  - destruct (compound_subshell _ _ _ _ Hc) as (Hne & f1 & s2 & s3 & Hlt1 & Hm).
    split; [exact Hne|].
    apply (ex_mcl _ _ (IH n) s2 _ s3).
    apply (gm_mcl f1 (parser_mono f1) f s2 _ ltac:(lia) Hm ltac:(discriminate)).
  - destruct (compound_while _ _ _ _ _ Hc) as ((Hc1 & f1 & s2 & s3 & Hl1 & Hm1) & (Hb1 & f2 & s4 & s5 & Hl2 & Hm2)).
    split; (split; [assumption|]).
    + apply (ex_mcl _ _ (IH n) s2 _ s3).
      apply (gm_mcl f1 (parser_mono f1) f s2 _ ltac:(lia) Hm1 ltac:(discriminate)).
    + apply (ex_mcl _ _ (IH n) s4 _ s5).
      apply (gm_mcl f2 (parser_mono f2) f s4 _ ltac:(lia) Hm2 ltac:(discriminate)).
  - destruct (compound_until _ _ _ _ _ Hc) as ((Hc1 & f1 & s2 & s3 & Hl1 & Hm1) & (Hb1 & f2 & s4 & s5 & Hl2 & Hm2)).
    split; (split; [assumption|]).
    + apply (ex_mcl _ _ (IH n) s2 _ s3).
      apply (gm_mcl f1 (parser_mono f1) f s2 _ ltac:(lia) Hm1 ltac:(discriminate)).
    + apply (ex_mcl _ _ (IH n) s4 _ s5).
      apply (gm_mcl f2 (parser_mono f2) f s4 _ ltac:(lia) Hm2 ltac:(discriminate)).
Qed.

(* ---- clean and read by the parser = read back ---- *)
Lemma combine_pl (A B C : command -> Prop) :
  (forall c, A c -> B c -> C c) -> forall p, pl_of A p -> gpl B p -> gpl C p.
Proof.
  intros H [cs neg]. cbn. intros HA [Hne HB]. split; [exact Hne|].
  rewrite Forall_forall in *. intros c Hc. apply H; auto.
Qed.

Lemma combine_items (A B C : command -> Prop) :
  (forall c, A c -> B c -> C c) -> forall l, list_of A l -> Forall (gitem B) l -> Forall (gitem C) l.
Proof.
  intros H l HA HB. unfold list_of in HA. rewrite Forall_forall in *.
  intros [[p rest] async] Hi. specialize (HA _ Hi). specialize (HB _ Hi).
  cbn in HA, HB |- *. destruct HA as [A1 A2]. destruct HB as [B1 B2]. split.
  - apply (combine_pl A B C H); assumption.
  - rewrite Forall_forall in *. intros x Hx. apply (combine_pl A B C H); auto.
Qed.

Lemma good_of_clean_first : forall n c, clean_n n c -> first_n n c -> good_n n c.
Proof.
  induction n as [|n IH]; intros c Hc Hf.
  - destruct c as [a w rds|comp rds|]; [split; [exact Hf | exact Hc] | | exfalso; exact Hc].
    destruct comp; destruct rds; exfalso; exact Hc.
  - destruct c as [a w rds|comp rds|]; [split; [exact Hf | exact Hc] | | exfalso; exact Hc].
    destruct comp; destruct rds; try (exfalso; exact Hc).
    1,2: destruct Hf as [Hne Hf];
      (split; [exact Hne|]); apply (combine_items (clean_n n) (first_n n) (good_n n) (IH)); assumption.
    all: destruct Hc as [Hc1 Hc2]; destruct Hf as [[Hn1 Hf1] [Hn2 Hf2]];
      split; (split; [assumption|]);
      apply (combine_items (clean_n n) (first_n n) (good_n n) (IH)); assumption.
Qed.

(* ---- the round trip of lists with groupings and subshells ---- *)
Theorem parse_print_compound_lists_lemma : forall s l n,
  parse_program s = Ok l -> clean_list_n n l -> parse_program (print_list false l) = Ok l.
Proof.
  intros s l n H Hc. apply (program_replay (good_n n) (good_n_replays n)).
  unfold parse_program, bind in H.
  destruct (p_mcl (parse_fuel s) s) as [[l0 r]| | | |] eqn:E; try discriminate. inv H.
  pose proof (ex_mcl _ _ (extract_first _ n) _ _ _ E) as Hr.
  apply (combine_items (clean_n n) (first_n n) (good_n n) (good_of_clean_first n)); assumption.
Qed.

(* the lists of simple commands are the depth 0 *)
Lemma clean_command_0 c : clean_command c -> clean_n 0 c.
Proof. destruct c as [a w rds| |]; cbn; auto; contradiction. Qed.

Lemma clean_list_0 l : clean_list l -> clean_list_n 0 l.
Proof.
  unfold clean_list, clean_list_n, list_of. apply Forall_impl. intros [[[cs neg] rest] a]. cbn.
  intros [H1 H2]. split.
  - eapply Forall_impl; [|exact H1]. exact clean_command_0.
  - eapply Forall_impl; [|exact H2]. intros [x [cs' neg']]. cbn. apply Forall_impl. exact clean_command_0.
Qed.

Theorem parse_print_simple_lists_lemma : forall s l,
  parse_program s = Ok l -> clean_list l -> parse_program (print_list false l) = Ok l.
Proof.
  intros s l H Hc. exact (parse_print_compound_lists_lemma s l 0 H (clean_list_0 l Hc)).
Qed.

(* non-vacuity: a text with a subshell inside a grouping is covered *)
Example compound_lists_nonvacuous :
  let s := lit "{ (a >f); }" in
  exists l, parse_program s = Ok l /\ clean_list_n 2 l /\ l <> [] /\
            parse_program (print_list false l) = Ok l.
Proof.
  cbv zeta. eexists. split; [vm_compute; reflexivity|].
  match goal with |- ?C /\ _ /\ _ => assert (HC : C) end.
  { unfold clean_list_n.
    do 3 (unfold list_of; apply Forall_cons; [|apply Forall_nil]; split; [|apply Forall_nil];
          apply Forall_cons; [|apply Forall_nil]; cbn [clean_n]).
    split; (split; [|split]); intros x Hx; cbn [In] in Hx;
      (contradiction || (destruct Hx as [<-|[]]; reflexivity)). }
  split; [exact HC|]. split; [discriminate|].
  apply (parse_print_compound_lists_lemma (lit "{ (a >f); }") _ 2); [vm_compute; reflexivity | exact HC].
Qed.
