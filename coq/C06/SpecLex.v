(* C06 — the vocabulary of the word-level round-trip theorems: when a text
   may follow the printed form of a word without changing how the word is
   read back. *)
From Yv Require Import Common.Base C06.Ast C06.Print C06.Lex.
Local Open Scope N_scope.

(* the text does not start with a line continuation *)
Definition nolc (z : str) : Prop := skip_lc z = z.

(* the text is empty or starts with a delimiter *)
Definition stops (d : delim) (r : str) : Prop :=
  match r with
  | [] => True
  | c :: _ => is_delim d c = true
  end.

Definition hd (z : str) : option N := match z with c :: _ => Some c | [] => None end.

(* a character that may follow a literal dollar sign *)
Definition dollar_ok (c : N) : bool :=
  match special_of_char c with
  | Some _ => false
  | None => negb (is_digit c || is_name_char c || (c =? c_lbrace) || (c =? c_lparen))
  end.

(* what may follow the printed form of a text unit ([h] = first character of
   what follows, which does not start with a line continuation) *)
Definition fo_tu (e : esc) (u : text_unit) (h : option N) : Prop :=
  match u with
  | Literal c =>
      ((c =? c_dollar) = true ->
       match h with Some c' => dollar_ok c' = true | None => True end) /\
      ((c =? c_bslash) = true ->
       match h with Some c' => is_esc e c' = false /\ (c' =? c_nl) = false | None => True end)
  | RawParam p =>
      p_type p = PtVariable ->
      match h with Some c' => is_name_char c' = false | None => True end
  | _ => True
  end.

Definition fo_wu (cx : ctx) (d : delim) (u : word_unit) (h : option N) : Prop :=
  match u with
  | Unquoted t =>
      fo_tu (esc_of cx d) t h /\
      (cx = CWord -> t = Literal c_dollar -> h <> Some c_sq)
  | _ => True
  end.

Fixpoint last_opt {A} (l : list A) : option A :=
  match l with
  | [] => None
  | [x] => Some x
  | _ :: l => last_opt l
  end.

Definition last_fo_text (e : esc) (t : text) (h : option N) : Prop :=
  match last_opt t with Some u => fo_tu e u h | None => True end.

Definition last_fo_word (cx : ctx) (d : delim) (w : word) (h : option N) : Prop :=
  match last_opt w with Some u => fo_wu cx d u h | None => True end.


(* Units the round-trip theorems cover: every unit except a command
   substitution whose content starts with an opening parenthesis.  Such a
   substitution is only accepted through the fallback of the arithmetic
   expansion (`$((` ... `) )`), and whether its printed form is read as a
   command substitution again depends on the text that follows the word. *)
Fixpoint ok_tu (u : text_unit) : bool :=
  match u with
  | CommandSubst c => negb (match skip_lc c with c0 :: _ => c0 =? c_lparen | [] => false end)
  | BracedParam _ m =>
      match m with
      | MSwitch _ _ w | MTrim _ _ w => forallb ok_wu w
      | _ => true
      end
  | Arith t => forallb ok_tu t
  | _ => true
  end
with ok_wu (u : word_unit) : bool :=
  match u with
  | Unquoted t => ok_tu t
  | DoubleQuote t => forallb ok_tu t
  | _ => true
  end.

Definition ok_text (t : text) : bool := forallb ok_tu t.
Definition ok_word (w : word) : bool := forallb ok_wu w.

(* no `$(...)` command substitution anywhere in the unit (backquotes are not
   parsed by the lexer and are allowed) *)
Fixpoint nocs_tu (u : text_unit) : bool :=
  match u with
  | CommandSubst _ => false
  | BracedParam _ m =>
      match m with
      | MSwitch _ _ w | MTrim _ _ w => forallb nocs_wu w
      | _ => true
      end
  | Arith t => forallb nocs_tu t
  | _ => true
  end
with nocs_wu (u : word_unit) : bool :=
  match u with
  | Unquoted t => nocs_tu t
  | DoubleQuote t => forallb nocs_tu t
  | _ => true
  end.

Definition nocs_text (t : text) : bool := forallb nocs_tu t.
Definition nocs_word (w : word) : bool := forallb nocs_wu w.
