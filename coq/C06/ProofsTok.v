(* C06 — proofs, part 4: the token layer (lengths, fuel, no panic) and the
   token-level loops of the parser. *)
From Yv Require Import Common.Base C06.Ast C06.Print C06.Lex C06.LexEq C06.Parse
  C06.ProofsLen C06.ProofsFuel C06.ProofsStop.
Local Open Scope N_scope.

Lemma skip_blanks_len f s : (len (skip_blanks f s) <= len s)%nat.
Proof.
  revert s. induction f as [|f IH]; intros s; cbn [skip_blanks].
  - apply skip_lc_len.
  - pose proof (skip_lc_len s) as L. destruct (skip_lc s) as [|c s']; [cbn; lia|].
    cbn [length] in L. destruct (is_blank c); [specialize (IH s'); lia | exact L].
Qed.

Lemma drop_line_len s : (len (drop_line s) <= len s)%nat.
Proof.
  induction s as [|c s IH]; cbn [drop_line]; [lia|].
  destruct (c =? c_nl); cbn [length]; lia.
Qed.

Lemma skip_comment_len s : (len (skip_comment s) <= len s)%nat.
Proof.
  unfold skip_comment. pose proof (skip_lc_len s) as L.
  destruct (skip_lc s) as [|c s']; [cbn; lia|]. cbn [length] in L.
  destruct (c =? c_hash); [pose proof (drop_line_len s'); lia | exact L].
Qed.

Lemma skip_blanks_and_comment_len s : (len (skip_blanks_and_comment s) <= len s)%nat.
Proof.
  unfold skip_blanks_and_comment.
  pose proof (skip_comment_len (skip_blanks (len s) s)). pose proof (skip_blanks_len (len s) s). lia.
Qed.

Definition good_k (k : str -> operator * str) : Prop :=
  forall s o r, k s = (o, r) -> (len r <= len s)%nat.

Lemma fin_good o : good_k (fin o).
Proof. intros s o' r H. inv H. lia. Qed.

Lemma alt_good cases dflt :
  Forall (fun p => good_k (snd p)) cases -> good_k (fun s => alt s cases dflt).
Proof.
  intros Hk s o r H. unfold alt in H. pose proof (skip_lc_len s) as L.
  destruct (skip_lc s) as [|c s']; [inv H; cbn; lia|]. cbn [length] in L.
  dmh H.
  - destruct p as [c' k].
    rewrite Forall_forall in Hk.
    match goal with F : find _ _ = Some _ |- _ =>
      apply find_some in F; destruct F as [F _]; apply Hk in F; cbn [snd] in F; apply F in H end.
    lia.
  - inv H. exact L.
Qed.

Lemma lex_operator_len s o r : lex_operator s = Some (o, r) -> (len r < len s)%nat.
Proof.
  unfold lex_operator. pose proof (skip_lc_len s) as L.
  destruct (skip_lc s) as [|c s1]; [discriminate|]. cbn [length] in L. intros H.
  repeat (dmh H; try discriminate); inv H; try lia.
  all: match goal with E : alt ?s ?cases ?d = _ |- _ =>
         apply (alt_good cases d) in E; [lia|] end.
  all: repeat constructor; cbn [snd]; try apply fin_good.
  all: apply alt_good; repeat constructor; cbn [snd]; apply fin_good.
Qed.

Lemma tilde_front_nil w : tilde_front w = [] -> w = [].
Proof.
  unfold tilde_front. destruct (parse_tilde false w) as [[[n name] sl]|]; [discriminate | auto].
Qed.

Section TokLen.
  Variable inner : str -> res (str * str).
  Hypothesis inner_len : forall s c r, inner s = Ok (c, r) -> (len r <= len s)%nat.

  Lemma lex_units_strict f cx d s w r :
    lex_units inner f cx d s = Ok (w, r) -> w <> [] -> (len r < len s)%nat.
  Proof.
    destruct f as [|f]; [discriminate|]. rewrite lex_units_eq. unfold bind. intros H Hw.
    pose proof (lex_len inner inner_len f) as (_ & _ & _ & _ & _ & Hwu & Hun).
    dmall; clean; try congruence.
    match goal with E : lex_wu _ _ _ _ _ = Ok (Some _, _) |- _ => apply Hwu in E; destruct E as [_ E] end.
    match goal with E : lex_units _ _ _ _ _ = Ok _ |- _ => apply Hun in E end.
    match goal with E : Some _ <> None -> _ |- _ => specialize (E ltac:(discriminate)) end. lia.
  Qed.

  Lemma lex_token_len f s t r :
    lex_token inner f s = Ok (t, r) ->
    (len r <= len (t_at t))%nat /\ (len (t_at t) <= len s)%nat /\
    (t_id t <> TEnd -> (len r < len (t_at t))%nat).
  Proof.
    unfold lex_token, bind. intros H. pose proof (skip_blanks_and_comment_len s) as L0.
    destruct (lex_operator (skip_blanks_and_comment s)) as [[op r']|] eqn:E.
    - inv H. apply lex_operator_len in E. cbn [t_at t_id]. repeat split; try lia.
    - destruct (lex_units inner f CWord DToken (skip_blanks_and_comment s)) as [[w r']| | | |] eqn:E2;
        try discriminate.
      inv H. cbn [t_at t_id t_word].
      pose proof (proj2 (proj2 (proj2 (proj2 (proj2 (proj2 (lex_len inner inner_len f)))))) _ _ _ _ _ E2).
      repeat split; try lia.
      intros Hid. apply (lex_units_strict _ _ _ _ _ _ E2).
      intros ->. apply Hid. reflexivity.
  Qed.
End TokLen.

Section TokFuel.
  Variable inner : str -> res (str * str).
  Variable F : nat.
  Hypothesis inner_len : forall s c r, inner s = Ok (c, r) -> (len r <= len s)%nat.
  Hypothesis inner_fuel : forall s, (fuel_k * len s + rk_inner < F)%nat -> inner s <> Fuel.

  Lemma lex_token_fuel f s :
    (f <= F)%nat -> (fuel_k * len s + rk_units < f)%nat -> lex_token inner f s <> Fuel.
  Proof.
    intros Hle Hf. unfold lex_token, bind.
    destruct (lex_operator (skip_blanks_and_comment s)) as [[op r']|]; [discriminate|].
    pose proof (skip_blanks_and_comment_len s) as L.
    pose proof (lex_fuel inner F inner_len inner_fuel f) as (_ & _ & _ & _ & _ & _ & Hun).
    specialize (Hun CWord DToken (skip_blanks_and_comment s) Hle).
    destruct (lex_units inner f CWord DToken (skip_blanks_and_comment s)) as [[w r']| | | |];
      try discriminate.
    exfalso. apply Hun; [|reflexivity]. unfold fuel_k, rk_units in *. lia.
  Qed.
End TokFuel.

Lemma lex_token_nopanic inner f s :
  (forall s, inner s <> Panic) -> lex_token inner f s <> Panic.
Proof.
  intros Hi. unfold lex_token, bind.
  destruct (lex_operator (skip_blanks_and_comment s)) as [[op r']|]; [discriminate|].
  pose proof (lex_nopanic inner Hi f) as (_ & _ & _ & _ & _ & _ & Hun).
  specialize (Hun CWord DToken (skip_blanks_and_comment s)).
  destruct (lex_units inner f CWord DToken (skip_blanks_and_comment s)) as [[w r']| | | |];
    congruence.
Qed.

(* ---- the token-level loops of the parser ------------------------------------------------ *)

Section WithTk.
  Variable tk : str -> res (token * str).
  Hypothesis tk_len : forall s t r, tk s = Ok (t, r) ->
    (len r <= len s)%nat /\ (t_id t <> TEnd -> (len r < len s)%nat).

  Ltac tkfacts :=
    repeat match goal with
    | H : tk _ = Ok (_, _) |- _ => apply tk_len in H
    end;
    repeat match goal with H : _ /\ _ |- _ => destruct H end;
    repeat match goal with
    | E : t_id ?t = _, H : t_id ?t <> TEnd -> _ |- _ =>
        specialize (H ltac:(rewrite E; discriminate))
    end.

  Lemma skip_newlines_len f s r : skip_newlines tk f s = Ok r -> (len r <= len s)%nat.
  Proof.
    revert s r. induction f as [|f IH]; intros s r H; cbn [skip_newlines] in H; [discriminate|].
    unfold bind in H. dmall; clean; try lia.
    all: try (match goal with E : skip_newlines _ _ _ = Ok _ |- _ => apply IH in E end; tkfacts; lia).
  Qed.

  Lemma p_redir_len s o r :
    p_redir tk s = Ok (o, r) -> (len r <= len s)%nat /\ (o <> None -> (len r < len s)%nat).
  Proof.
    unfold p_redir, bind. intros H. dmall; clean; try discriminate; tkfacts;
      (split; [lia | intros; try congruence; lia]).
  Qed.

  Lemma p_redirs_len f s rs r : p_redirs tk f s = Ok (rs, r) -> (len r <= len s)%nat.
  Proof.
    revert s rs r. induction f as [|f IH]; intros s rs r H; cbn [p_redirs] in H; [discriminate|].
    unfold bind in H. dmall; clean.
    all: repeat match goal with
         | E : p_redirs _ _ _ = Ok _ |- _ => apply IH in E
         | E : p_redir _ _ = Ok _ |- _ => apply p_redir_len in E; destruct E
         end; lia.
  Qed.

  Lemma p_array_len f s ws r : p_array tk f s = Ok (ws, r) -> (len r < len s)%nat.
  Proof.
    revert s ws r. induction f as [|f IH]; intros s ws r H; cbn [p_array] in H; [discriminate|].
    unfold bind in H. dmall; clean.
    all: repeat match goal with E : p_array _ _ _ = Ok _ |- _ => apply IH in E end; tkfacts; lia.
  Qed.

  Lemma p_for_words_len f s ws r : p_for_words tk f s = Ok (ws, r) -> (len r <= len s)%nat.
  Proof.
    revert s ws r. induction f as [|f IH]; intros s ws r H; cbn [p_for_words] in H; [discriminate|].
    unfold bind in H. dmall; clean.
    all: repeat match goal with E : p_for_words _ _ _ = Ok _ |- _ => apply IH in E end; tkfacts; lia.
  Qed.

  Lemma p_for_values_len f b s o r : p_for_values tk f b s = Ok (o, r) -> (len r <= len s)%nat.
  Proof.
    revert b s o r. induction f as [|f IH]; intros b s o r H; cbn [p_for_values] in H; [discriminate|].
    unfold bind in H. dmall; clean.
    all: repeat match goal with
         | E : p_for_values _ _ _ _ = Ok _ |- _ => apply IH in E
         | E : p_for_words _ _ _ = Ok _ |- _ => apply p_for_words_len in E
         end; tkfacts; lia.
  Qed.

  Lemma p_patterns_len f s ps r : p_patterns tk f s = Ok (ps, r) -> (len r < len s)%nat.
  Proof.
    revert s ps r. induction f as [|f IH]; intros s ps r H; cbn [p_patterns] in H; [discriminate|].
    unfold bind in H. dmall; clean.
    all: repeat match goal with E : p_patterns _ _ _ = Ok _ |- _ => apply IH in E end; tkfacts; lia.
  Qed.

  (* ---- fuel: each loop iteration consumes a token ------------------------------------ *)
  Variable B : nat.
  Hypothesis tk_nofuel : forall s, (len s <= B)%nat -> tk s <> Fuel.

  Ltac tkfuel :=
    match goal with
    | H : tk _ = Fuel |- _ => apply tk_nofuel in H; [exact H | tkfacts; lia]
    end.

  Lemma skip_newlines_fuel f s : (len s <= B)%nat -> (len s < f)%nat -> skip_newlines tk f s <> Fuel.
  Proof.
    revert s. induction f as [|f IH]; intros s Hb Hf; [lia|]. cbn [skip_newlines]. unfold bind.
    intros H. dmall; clean; try discriminate; try tkfuel.
    match goal with E : skip_newlines _ _ _ = Fuel |- _ => apply IH in E; [exact E | tkfacts; lia | tkfacts; lia] end.
  Qed.

  Lemma p_redir_fuel s : (len s <= B)%nat -> p_redir tk s <> Fuel.
  Proof.
    intros Hb. unfold p_redir, bind. intros H. dmall; clean; try discriminate; tkfuel.
  Qed.

  Lemma p_redirs_fuel f s : (len s <= B)%nat -> (len s < f)%nat -> p_redirs tk f s <> Fuel.
  Proof.
    revert s. induction f as [|f IH]; intros s Hb Hf; [lia|]. cbn [p_redirs]. unfold bind.
    intros H. dmall; clean; try discriminate.
    - match goal with E : p_redirs _ _ _ = Fuel |- _ => apply IH in E; [exact E | |] end;
        match goal with E : p_redir _ _ = Ok _ |- _ => apply p_redir_len in E; destruct E as [E1 E2];
          specialize (E2 ltac:(discriminate)) end; lia.
    - match goal with E : p_redir _ _ = Fuel |- _ => apply p_redir_fuel in E; [exact E | lia] end.
  Qed.

  Lemma p_array_fuel f s : (len s <= B)%nat -> (len s < f)%nat -> p_array tk f s <> Fuel.
  Proof.
    revert s. induction f as [|f IH]; intros s Hb Hf; [lia|]. cbn [p_array]. unfold bind.
    intros H. dmall; clean; try discriminate; try tkfuel.
    all: match goal with E : p_array _ _ _ = Fuel |- _ => apply IH in E; [exact E | tkfacts; lia | tkfacts; lia] end.
  Qed.

  Lemma p_for_words_fuel f s : (len s <= B)%nat -> (len s < f)%nat -> p_for_words tk f s <> Fuel.
  Proof.
    revert s. induction f as [|f IH]; intros s Hb Hf; [lia|]. cbn [p_for_words]. unfold bind.
    intros H. dmall; clean; try discriminate; try tkfuel.
    all: match goal with E : p_for_words _ _ _ = Fuel |- _ => apply IH in E; [exact E | tkfacts; lia | tkfacts; lia] end.
  Qed.

  Lemma p_for_values_fuel f b s :
    (len s <= B)%nat -> (len s + 1 < f)%nat -> p_for_values tk f b s <> Fuel.
  Proof.
    revert b s. induction f as [|f IH]; intros b s Hb Hf; [lia|]. cbn [p_for_values]. unfold bind.
    intros H. dmall; clean; try discriminate; try tkfuel.
    all: try match goal with E : p_for_values _ _ _ _ = Fuel |- _ => apply IH in E; [exact E | tkfacts; lia | tkfacts; lia] end.
    all: match goal with E : p_for_words _ _ _ = Fuel |- _ => apply p_for_words_fuel in E; [exact E | tkfacts; lia | tkfacts; lia] end.
  Qed.

  Lemma p_patterns_fuel f s : (len s <= B)%nat -> (len s < f)%nat -> p_patterns tk f s <> Fuel.
  Proof.
    revert s. induction f as [|f IH]; intros s Hb Hf; [lia|]. cbn [p_patterns]. unfold bind.
    intros H. dmall; clean; try discriminate; try tkfuel.
    all: match goal with E : p_patterns _ _ _ = Fuel |- _ => apply IH in E; [exact E | tkfacts; lia | tkfacts; lia] end.
  Qed.
End WithTk.

Section WithTkPanic.
  Variable tk : str -> res (token * str).
  Hypothesis tk_nopanic : forall s, tk s <> Panic.

  Ltac tkpanic :=
    match goal with H : tk _ = Panic |- _ => apply tk_nopanic in H; exact H end.

  Lemma skip_newlines_nopanic f s : skip_newlines tk f s <> Panic.
  Proof.
    revert s. induction f as [|f IH]; intros s; cbn [skip_newlines]; [discriminate|]. unfold bind.
    intros H. dmall; clean; try discriminate; try tkpanic.
    match goal with E : skip_newlines _ _ _ = Panic |- _ => apply IH in E; exact E end.
  Qed.

  Lemma p_redir_nopanic s : p_redir tk s <> Panic.
  Proof. unfold p_redir, bind. intros H. dmall; clean; try discriminate; tkpanic. Qed.

  Lemma p_redirs_nopanic f s : p_redirs tk f s <> Panic.
  Proof.
    revert s. induction f as [|f IH]; intros s; cbn [p_redirs]; [discriminate|]. unfold bind.
    intros H. dmall; clean; try discriminate.
    - match goal with E : p_redirs _ _ _ = Panic |- _ => apply IH in E; exact E end.
    - match goal with E : p_redir _ _ = Panic |- _ => apply p_redir_nopanic in E; exact E end.
  Qed.

  Lemma p_array_nopanic f s : p_array tk f s <> Panic.
  Proof.
    revert s. induction f as [|f IH]; intros s; cbn [p_array]; [discriminate|]. unfold bind.
    intros H. dmall; clean; try discriminate; try tkpanic.
    all: match goal with E : p_array _ _ _ = Panic |- _ => apply IH in E; exact E end.
  Qed.

  Lemma p_for_words_nopanic f s : p_for_words tk f s <> Panic.
  Proof.
    revert s. induction f as [|f IH]; intros s; cbn [p_for_words]; [discriminate|]. unfold bind.
    intros H. dmall; clean; try discriminate; try tkpanic.
    all: match goal with E : p_for_words _ _ _ = Panic |- _ => apply IH in E; exact E end.
  Qed.

  Lemma p_for_values_nopanic f b s : p_for_values tk f b s <> Panic.
  Proof.
    revert b s. induction f as [|f IH]; intros b s; cbn [p_for_values]; [discriminate|]. unfold bind.
    intros H. dmall; clean; try discriminate; try tkpanic.
    all: try match goal with E : p_for_values _ _ _ _ = Panic |- _ => apply IH in E; exact E end.
    all: match goal with E : p_for_words _ _ _ = Panic |- _ => apply p_for_words_nopanic in E; exact E end.
  Qed.

  Lemma p_patterns_nopanic f s : p_patterns tk f s <> Panic.
  Proof.
    revert s. induction f as [|f IH]; intros s; cbn [p_patterns]; [discriminate|]. unfold bind.
    intros H. dmall; clean; try discriminate; try tkpanic.
    all: match goal with E : p_patterns _ _ _ = Panic |- _ => apply IH in E; exact E end.
  Qed.
End WithTkPanic.
