(* C19 — the structural invariant [wf] of kernel states is kept by every call:
   no descriptor refers to a missing open file description, no description to a
   missing inode, no directory entry to a missing inode, and every process has
   a directory as its working directory. *)
From Yv Require Import Common.Base C19.Model C19.Spec C19.Run C19.Proofs.
From Coq Require Import ZifyBool ZifyN.

Definition fds_ok (n : nat) (t : fdtab) : Prop := forall fd e, In (fd, e) t -> e_ofd e < n.

Lemma fd_del_In t fd k e : In (k, e) (fd_del t fd) -> In (k, e) t.
Proof.
  induction t as [|[k' e'] t IH]; cbn; auto.
  destruct (N.eqb k' fd); cbn; intuition.
Qed.

Lemma fds_ok_del n t fd : fds_ok n t -> fds_ok n (fd_del t fd).
Proof. intros H k e Hi. eapply H, fd_del_In; eauto. Qed.

Lemma fds_ok_put n t fd e : fds_ok n t -> e_ofd e < n -> fds_ok n (fd_put t fd e).
Proof.
  intros H He k e' [Hi|Hi].
  - inversion Hi; subst; auto.
  - eapply H, fd_del_In; eauto.
Qed.

Lemma fds_ok_mono n n' t : fds_ok n t -> n <= n' -> fds_ok n' t.
Proof. intros H Hl k e Hi. specialize (H k e Hi). lia. Qed.

Lemma fd_get_In t fd e : fd_get t fd = Some e -> In (fd, e) t.
Proof.
  induction t as [|[k e'] t IH]; cbn; try discriminate.
  destruct (N.eqb k fd) eqn:E; intros H.
  - apply N.eqb_eq in E. inversion H; subst. auto.
  - auto.
Qed.

Lemma inode_ok_mono n n' x : inode_ok n x -> n <= n' -> inode_ok n' x.
Proof.
  destruct x; cbn; auto. intros H Hl name i Hi. specialize (H name i Hi). lia.
Qed.

Lemma Forall_set_nth {A} (P : A -> Prop) l i x : Forall P l -> P x -> Forall P (set_nth l i x).
Proof.
  intros H Hx. revert i; induction H as [|y l Hy Hl IH]; intros [|i]; cbn; constructor; auto.
Qed.

Lemma is_dir_app ino x i : is_dir ino i = true -> is_dir (ino ++ [x]) i = true.
Proof.
  unfold is_dir. destruct (nth_error ino i) as [n|] eqn:E; try discriminate.
  rewrite nth_app_old by (eapply nth_error_lt; eauto). rewrite E. auto.
Qed.

Lemma is_dir_set_nth ino j x i :
  (is_dir ino j = true -> match x with IDir _ _ => True | _ => False end) ->
  is_dir ino i = true -> is_dir (set_nth ino j x) i = true.
Proof.
  unfold is_dir. intros Hx H. destruct (Nat.eq_dec j i) as [->|Hne].
  - destruct (nth_error ino i) as [n|] eqn:E; try discriminate.
    rewrite nth_set_nth_eq by (eapply nth_error_lt; eauto).
    destruct x; auto; exfalso; apply Hx; rewrite E; auto.
  - rewrite nth_set_nth_neq; auto.
Qed.

(* replacing the inode table by a larger / updated one *)
Lemma wf_set_ino_gen s ino' :
  wf s -> length (k_ino s) <= length ino' ->
  Forall (inode_ok (length ino')) ino' ->
  (forall i, is_dir (k_ino s) i = true -> is_dir ino' i = true) ->
  wf (set_ino s ino').
Proof.
  intros (H1 & H2 & H3 & H4) Hl Hf Hd. unfold wf, set_ino, all_procs in *. cbn [k_ino k_ofd k_cur k_susp].
  split; auto. split.
  - eapply Forall_impl; [|exact H2]. cbn. intros; lia.
  - split; auto. eapply Forall_impl; [|exact H3]. intros p (Ha & Hb). split; auto.
Qed.

Lemma wf_set_ofd_gen s l' :
  wf s -> length (k_ofd s) <= length l' ->
  Forall (fun o => o_ino o < length (k_ino s)) l' ->
  wf (set_ofd s l').
Proof.
  intros (H1 & H2 & H3 & H4) Hl Hf. unfold wf, set_ofd, all_procs in *. cbn [k_ino k_ofd k_cur k_susp].
  split; auto. split; auto. split; auto.
  eapply Forall_impl; [|exact H3]. intros p (Ha & Hb). split; auto.
  intros fd e Hi. specialize (Ha fd e Hi). lia.
Qed.

Lemma wf_set_cur s p :
  wf s -> proc_ok (length (k_ofd s)) (k_ino s) p -> wf (set_cur s p).
Proof.
  intros (H1 & H2 & H3 & H4) Hp. unfold wf, set_cur, all_procs in *. cbn [k_ino k_ofd k_cur k_susp].
  split; auto. split; auto. split; auto. inversion H3; subst. constructor; auto.
Qed.

Lemma wf_cur s : wf s -> proc_ok (length (k_ofd s)) (k_ino s) (k_cur s).
Proof. intros (_ & _ & H3 & _). unfold all_procs in H3. inversion H3; auto. Qed.

Lemma wf_set_fds s t : wf s -> fds_ok (length (k_ofd s)) t -> wf (set_fds s t).
Proof.
  intros Hw Ht. apply wf_set_cur; auto. destruct (wf_cur s Hw) as (_ & Hd). split; auto.
Qed.

Lemma wf_fds s : wf s -> fds_ok (length (k_ofd s)) (fds s).
Proof. intros Hw. destruct (wf_cur s Hw) as (H & _). exact H. Qed.

Lemma wf_install s o cx : wf s -> o_ino o < length (k_ino s) -> wf (fst (install s o cx)).
Proof.
  intros Hw Ho. unfold install. cbn [fst].
  assert (Hw1 : wf (set_ofd s (k_ofd s ++ [o]))).
  { apply wf_set_ofd_gen; auto.
    - rewrite app_length; lia.
    - apply Forall_app. split; [apply Hw | constructor; auto]. }
  apply wf_set_fds; auto. cbn [set_ofd k_ofd].
  apply fds_ok_put.
  - eapply fds_ok_mono; [apply (wf_fds s Hw)|]. rewrite app_length; lia.
  - cbn. rewrite app_length. cbn. lia.
Qed.

Lemma install_eq s o cx s' fd : install s o cx = (s', fd) -> s' = fst (install s o cx).
Proof. intros ->. reflexivity. Qed.

Lemma wf_ino_ok s i x : wf s -> nth_error (k_ino s) i = Some x -> inode_ok (length (k_ino s)) x.
Proof.
  intros (H1 & _) Hn. rewrite Forall_forall in H1. apply H1. eapply nth_error_In; eauto.
Qed.

(* new bytes for a regular file or a FIFO *)
Lemma wf_set_data s i x y :
  wf s -> nth_error (k_ino s) i = Some x ->
  match x, y with IReg _ _, IReg _ _ | IFifo _, IFifo _ => True | _, _ => False end ->
  wf (set_ino s (set_nth (k_ino s) i y)).
Proof.
  intros Hw Hn Hxy. apply wf_set_ino_gen; auto.
  - rewrite length_set_nth; lia.
  - rewrite length_set_nth. apply Forall_set_nth; [apply Hw|]. destruct x, y; cbn; tauto.
  - intros j. apply is_dir_set_nth. unfold is_dir. rewrite Hn. destruct x, y; try tauto; discriminate.
Qed.

Lemma wf_set_off s id o n : wf s -> nth_error (k_ofd s) id = Some o -> wf (set_off s id o n).
Proof.
  intros Hw Hn. unfold set_off. apply wf_set_ofd_gen; auto.
  - rewrite length_set_nth; lia.
  - apply Forall_set_nth; [apply Hw|]. cbn.
    destruct Hw as (_ & H2 & _). rewrite Forall_forall in H2. apply H2. eapply nth_error_In; eauto.
Qed.

Lemma wf_append_inode s x :
  wf s -> match x with IDir _ _ => False | _ => True end -> wf (set_ino s (k_ino s ++ [x])).
Proof.
  intros Hw Hx. apply wf_set_ino_gen; auto.
  - rewrite app_length; lia.
  - apply Forall_app. split.
    + eapply Forall_impl; [|apply Hw]. intros y Hy. eapply inode_ok_mono; eauto. rewrite app_length; lia.
    + constructor; auto. destruct x; cbn; tauto.
  - intros i. apply is_dir_app.
Qed.

Lemma wf_create s d perm ents name perm' :
  wf s -> nth_error (k_ino s) d = Some (IDir perm ents) ->
  wf (set_ino s (add_entry (k_ino s ++ [IReg perm' []]) d name (length (k_ino s)))).
Proof.
  intros Hw Hd.
  assert (Hlt : d < length (k_ino s)) by (eapply nth_error_lt; eauto).
  assert (Hw1 : wf (set_ino s (k_ino s ++ [IReg perm' []]))) by (apply wf_append_inode; cbn; auto).
  unfold add_entry. rewrite nth_app_old, Hd by auto.
  change (set_ino s ?l) with (set_ino (set_ino s (k_ino s ++ [IReg perm' []])) l).
  apply wf_set_ino_gen; auto; cbn [set_ino k_ino].
  - rewrite length_set_nth; lia.
  - rewrite length_set_nth. apply Forall_set_nth; [apply Hw1|].
    cbn. intros n i Hi. apply in_app_or in Hi. destruct Hi as [Hi|[Hi|[]]].
    + pose proof (wf_ino_ok s d _ Hw Hd) as Hok. cbn in Hok. specialize (Hok n i Hi).
      rewrite app_length; lia.
    + inversion Hi; subst. rewrite app_length; cbn; lia.
  - intros i. apply is_dir_set_nth. intros _. exact I.
Qed.

Lemma wf_chdir s st :
  wf s -> is_dir (k_ino s) (top st) = true ->
  wf (set_cur s (mkProc (fds s) st (p_umask (k_cur s)) (p_sig (k_cur s)) (p_limit (k_cur s)) (p_id (k_cur s)))).
Proof.
  intros Hw Hd. apply wf_set_cur; auto. split; auto. apply (wf_fds s Hw).
Qed.

Lemma wf_open_existing s i a f : wf s -> wf (fst (open_existing s i a f)).
Proof.
  intros Hw. unfold open_existing.
  destruct (f_creat f && f_excl f); auto.
  destruct (nth_error (k_ino s) i) as [[perm data| perm ents | data]|] eqn:En; auto.
  - destruct (f_dir f); auto.
    destruct (k_unpriv s && _); auto.
    destruct (install _ _ _) as [s' fd] eqn:Ei. cbn [fst]. rewrite (install_eq _ _ _ _ _ Ei).
    apply wf_install.
    + destruct (f_trunc f); auto. eapply wf_set_data; eauto. exact I.
    + cbn [o_ino]. destruct (f_trunc f); cbn [set_ino k_ino]; rewrite ?length_set_nth;
        eapply nth_error_lt; eauto.
  - destruct (writable a); auto. destruct (f_creat f); auto.
    destruct (k_unpriv s && _); auto.
    destruct (install _ _ _) as [s' fd] eqn:Ei. cbn [fst]. rewrite (install_eq _ _ _ _ _ Ei).
    apply wf_install; auto. cbn. eapply nth_error_lt; eauto.
Qed.

Lemma wf_open_inner s p a f mode : wf s -> wf (fst (k_open_inner s p a f mode)).
Proof.
  intros Hw. unfold k_open_inner.
  destruct (negb (flags_ok a f) || negb (nonempty p)); auto.
  assert (Hwhole : wf (fst match resolve (k_unpriv s) (k_ino s) (p_cwd (k_cur s)) p with
                           | WOk st => open_existing s (top st) a f
                           | WErr e => if f_creat f then (s, ROut) else (s, RErr e)
                           | WOut => (s, ROut)
                           end)).
  { destruct (resolve _ _ _); auto; [apply wf_open_existing; auto | destruct (f_creat f); auto]. }
  destruct (rev (comps p)) as [|last rinit]; auto.
  destruct (is_dot last || is_dotdot last || trailing_slash p); auto.
  destruct (walk _ _ _) as [st| |]; auto.
  destruct (nth_error (k_ino s) (top st)) as [[| perm ents |]|] eqn:En; auto.
  destruct (k_unpriv s && negb (may_x perm)); auto.
  destruct (lookup ents last); [apply wf_open_existing; auto|].
  destruct (f_creat f && k_unpriv s && negb (may_w perm)); auto.
  destruct (f_creat f); auto.
  destruct (install _ _ _) as [s' fd] eqn:Ei. cbn [fst]. rewrite (install_eq _ _ _ _ _ Ei).
  apply wf_install.
  - eapply wf_create; eauto.
  - cbn [o_ino set_ino k_ino]. unfold add_entry.
    rewrite nth_app_old, En by (eapply nth_error_lt; eauto).
    rewrite length_set_nth, app_length. cbn. lia.
Qed.

Lemma wf_open s p a f mode : wf s -> wf (fst (k_open s p a f mode)).
Proof.
  intros Hw. unfold k_open. destruct (can_alloc s 0); [apply wf_open_inner; auto|].
  destruct (snd (k_open_inner s p a f mode)); auto.
Qed.

Lemma wf_pipe s : wf s -> wf (fst (k_pipe s)).
Proof.
  intros Hw. unfold k_pipe.
  assert (Hw0 : wf (set_ino s (k_ino s ++ [IFifo []]))) by (apply wf_append_inode; cbn; auto).
  destruct (negb (can_alloc s 0)); auto.
  destruct (install (set_ino s _) _ _) as [s1 r] eqn:E1.
  destruct (negb (can_alloc s1 0)); auto.
  destruct (install s1 _ _) as [s2 w] eqn:E2. cbn [fst].
  rewrite (install_eq _ _ _ _ _ E2). apply wf_install.
  - rewrite (install_eq _ _ _ _ _ E1). apply wf_install; auto.
    cbn [o_ino set_ino k_ino]. rewrite app_length. cbn. lia.
  - rewrite (install_eq _ _ _ _ _ E1). cbn [install fst o_ino set_fds set_ofd set_cur set_ino k_ino].
    rewrite app_length. cbn. lia.
Qed.

Lemma wf_set_sig s g : wf s -> wf (set_sig s g).
Proof.
  intros Hw. apply wf_set_cur; auto. destruct (wf_cur s Hw) as (Ha & Hb). split; auto.
Qed.

Lemma wf_fork s : wf s -> wf (fst (k_fork s)).
Proof.
  intros (H1 & H2 & H3 & H4). unfold k_fork, wf, all_procs in *. cbn [fst k_ino k_ofd k_cur k_susp].
  split; auto. split; auto. split; auto. inversion H3 as [|p l Hp Hl]; subst.
  constructor; [|constructor; auto]. destruct Hp as (Ha & Hb). split; auto.
Qed.

Lemma notify_ok n ino p : proc_ok n ino p -> proc_ok n ino (notify p).
Proof.
  intros (A & B). destruct (notify_rest p) as (F & C & _). unfold proc_ok. rewrite F, C. split; auto.
Qed.

Lemma wf_exit s : wf s -> wf (fst (k_exit s)).
Proof.
  intros Hw. unfold k_exit. destruct (k_susp s) as [|p rest] eqn:E; auto.
  destruct Hw as (H1 & H2 & H3 & H4). unfold wf, all_procs in *. rewrite E in H3.
  cbn [fst k_ino k_ofd k_cur k_susp]. split; auto. split; auto. split; auto.
  inversion H3 as [|? ? _ Hr]; subst. inversion Hr; subst. constructor; auto. apply notify_ok; auto.
Qed.

Lemma get_ofd_ofd s fd id o : get_ofd s fd = Some (id, o) -> nth_error (k_ofd s) id = Some o.
Proof. intros H. destruct (get_ofd_inv _ _ _ _ H) as (e & _ & _ & Hn). exact Hn. Qed.

Lemma with_sig_ok n ino p g : proc_ok n ino p -> proc_ok n ino (with_sig p g).
Proof. intros (A & B). split; auto. Qed.

Lemma signal_ancestors_ok n ino : forall l pg sig l',
  Forall (proc_ok n ino) l -> signal_ancestors l pg sig = Some l' -> Forall (proc_ok n ino) l'.
Proof.
  induction l as [|p l IH]; intros pg sig l' Hf H; cbn in H.
  - inversion H; constructor.
  - inversion Hf; subst.
    destruct (signal_ancestors l pg sig) as [l''|] eqn:E; try discriminate.
    destruct (N.eqb _ pg).
    + destruct (generate _ sig); try discriminate. inversion H; subst.
      constructor; [apply with_sig_ok; auto | eapply IH; eauto].
    + inversion H; subst. constructor; auto. eapply IH; eauto.
Qed.

(* replacing the processes (same tables) keeps the state well formed *)
Lemma wf_procs s cur' susp' sk' u' :
  wf s -> proc_ok (length (k_ofd s)) (k_ino s) cur' ->
  Forall (proc_ok (length (k_ofd s)) (k_ino s)) susp' ->
  wf (mkK (k_ino s) (k_ofd s) cur' susp' sk' u').
Proof.
  intros (H1 & H2 & H3 & H4) Hc Hs. unfold wf, all_procs. cbn [k_ino k_ofd k_cur k_susp].
  repeat split; auto.
Qed.

Lemma wf_susp s : wf s -> Forall (proc_ok (length (k_ofd s)) (k_ino s)) (k_susp s).
Proof. intros (_ & _ & H3 & _). unfold all_procs in H3. inversion H3; auto. Qed.

Lemma wf_signal_self s susp' sig :
  wf s -> Forall (proc_ok (length (k_ofd s)) (k_ino s)) susp' ->
  wf (fst (signal_self s susp' sig)).
Proof.
  intros Hw Hs. unfold signal_self.
  destruct (generate _ sig); cbn [fst]; auto.
  - apply wf_procs; auto. apply with_sig_ok, wf_cur; auto.
  - destruct (k_susp s); cbn [fst]; auto. apply wf_procs; auto. apply wf_cur; auto.
  - destruct (k_susp s); cbn [fst]; auto. apply wf_procs; auto. apply wf_cur; auto.
Qed.

Lemma wf_kill s tg sig : wf s -> wf (fst (k_kill s tg sig)).
Proof.
  intros Hw. unfold k_kill. destruct (negb (N.ltb sig nsig)); auto.
  destruct tg.
  - apply wf_signal_self; auto. apply wf_susp; auto.
  - pose proof (wf_susp s Hw) as Hs.
    destruct (k_susp s) as [|p rest]; auto.
    destruct (generate (p_sig p) sig); cbn [fst]; auto.
    inversion Hs; subst.
    apply wf_procs; auto; try (apply wf_cur; auto); try (constructor; auto; apply with_sig_ok; auto).
  - destruct (signal_ancestors _ _ _) eqn:E; auto.
    apply wf_signal_self; auto. eapply signal_ancestors_ok; [apply wf_susp; auto | eauto].
  - destruct (signal_ancestors _ _ _) eqn:E; auto.
    apply wf_signal_self; auto. eapply signal_ancestors_ok; [apply wf_susp; auto | eauto].
  - destruct (N.eqb _ _); auto.
    destruct (signal_ancestors _ _ _) eqn:E; auto.
    apply wf_signal_self; auto. eapply signal_ancestors_ok; [apply wf_susp; auto | eauto].
Qed.

Lemma wf_reskip s x u' : wf s -> wf (mkK (k_ino s) (k_ofd s) (k_cur s) (k_susp s) x u').
Proof. intros Hw. apply (wf_procs s (k_cur s) (k_susp s)); auto; [apply wf_cur | apply wf_susp]; auto. Qed.

Lemma step_live_preserves_wf s o : wf s -> wf (fst (step_live s o)).
Proof.
  intros Hw. destruct o; cbn [step_live].
  - apply wf_open; auto.
  - unfold k_close. cbn [fst]. apply wf_set_fds; auto. apply fds_ok_del, wf_fds; auto.
  - unfold k_dup. destruct (N.ltb fd_limit min); auto.
    destruct (fd_get (fds s) fd) as [e|] eqn:G; auto.
    destruct (N.leb (p_limit (k_cur s)) min); auto.
    destruct (negb (can_alloc s min)); auto. cbn [fst].
    apply wf_set_fds; auto. apply fds_ok_put; [apply wf_fds; auto|]. cbn.
    apply (wf_fds s Hw fd e). apply fd_get_In; auto.
  - unfold k_dup2. destruct (N.ltb fd_limit to); auto.
    destruct (fd_get (fds s) fd) as [e|] eqn:G; auto.
    destruct (N.eqb fd to); auto.
    destruct (N.leb (p_limit (k_cur s)) to); auto. cbn [fst].
    apply wf_set_fds; auto. apply fds_ok_put; [apply wf_fds; auto|]. cbn.
    apply (wf_fds s Hw fd e). apply fd_get_In; auto.
  - unfold k_read. destruct (N.eqb n 0); auto.
    destruct (get_ofd s fd) as [[id o]|] eqn:G; auto.
    destruct (negb (o_rd o)); auto.
    destruct (nth_error (k_ino s) (o_ino o)) as [[perm data| perm ents | data]|] eqn:En; auto.
    + cbn [fst]. apply wf_set_off; auto. eapply get_ofd_ofd; eauto.
    + destruct data as [|c data]; [destruct (live_end _ _ _); auto|].
      cbn [fst]. eapply wf_set_data; eauto. exact I.
  - unfold k_write. destruct (negb (nonempty b)); auto.
    destruct (get_ofd s fd) as [[id o]|] eqn:G; auto.
    destruct (negb (o_wr o)); auto.
    destruct (nth_error (k_ino s) (o_ino o)) as [[perm data| perm ents | data]|] eqn:En; auto.
    + cbn [fst]. apply wf_set_off.
      * eapply wf_set_data; eauto. exact I.
      * cbn [set_ino k_ofd]. eapply get_ofd_ofd; eauto.
    + destruct (negb (live_end _ _ _)); auto. destruct (N.ltb _ _); auto.
      cbn [fst]. eapply wf_set_data; eauto. exact I.
  - unfold k_lseek. destruct (get_ofd s fd) as [[id o]|] eqn:G; auto.
    destruct (nth_error (k_ino s) (o_ino o)) as [[perm data| perm ents | data]|]; auto.
    destruct (Z.ltb _ 0); auto. cbn [fst]. apply wf_set_off; auto. eapply get_ofd_ofd; eauto.
  - unfold k_fstat. destruct (get_ofd s fd) as [[id o]|]; auto. destruct (nth_error _ _); auto.
  - unfold k_stat. destruct (resolve _ _ _); auto. destruct (nth_error _ _); auto.
  - unfold k_umask. destruct (N.ltb 511 m); auto. cbn [fst].
    apply wf_set_cur; auto. destruct (wf_cur s Hw) as (Ha & Hb). split; auto.
  - unfold k_chdir. destruct (resolve _ _ _) as [st| |]; auto.
    destruct (is_dir (k_ino s) (top st)) eqn:Ed; auto.
    destruct (k_unpriv s && _); auto. cbn [fst]. apply wf_chdir; auto.
  - auto.
  - apply wf_pipe; auto.
  - unfold k_readdir. destruct (resolve _ _ _ _); auto; [destruct (nth_error _ _) as [[]|]; auto|];
      destruct (can_alloc s 0); cbn [negb]; auto. destruct (k_unpriv s && _); auto.
  - unfold k_getfd. destruct (fd_get _ _); auto.
  - unfold k_setfd. destruct (fd_get (fds s) fd) as [e|] eqn:G; auto. cbn [fst].
    apply wf_set_fds; auto. apply fds_ok_put; [apply wf_fds; auto|]. cbn.
    apply (wf_fds s Hw fd e). apply fd_get_In; auto.
  - unfold k_access. destruct (get_ofd s fd) as [[id o]|]; auto.
    destruct (o_rd o), (o_wr o); auto.
  - unfold k_setrlimit. destruct (N.eqb n 0 || N.ltb default_limit n); auto. cbn [fst].
    apply wf_set_cur; auto. destruct (wf_cur s Hw) as (Ha & Hb). split; auto.
  - unfold k_droppriv. cbn [fst]. apply wf_reskip; auto.
  - unfold k_chmod. destruct (N.ltb 511 mode); auto.
    destruct (resolve _ _ _ _) as [st| |]; auto.
    destruct (nth_error (k_ino s) (top st)) as [[pm data| pm ents | data]|] eqn:En; auto; cbn [fst].
    + eapply wf_set_data; eauto. exact I.
    + apply wf_set_ino_gen; auto.
      * rewrite length_set_nth; lia.
      * rewrite length_set_nth. apply Forall_set_nth; [apply Hw|].
        exact (wf_ino_ok s _ _ Hw En).
      * intros j. apply is_dir_set_nth. intros _. exact I.
  - unfold k_setpgid0. cbn [fst]. apply wf_set_cur; auto.
    destruct (wf_cur s Hw) as (Ha & Hb). split; auto.
  - apply wf_kill; auto.
  - unfold k_sigaction. destruct (negb (N.ltb sig nsig)); auto.
    destruct (N.eqb sig sigchld && _); auto. cbn [fst]. apply wf_set_sig; auto.
  - unfold k_getsigaction. destruct (negb (N.ltb sig nsig)); auto.
  - unfold k_raise. destruct (negb (N.ltb sig nsig)); auto.
    destruct (mem_n sig _).
    + destruct (get_disp _ sig); auto; cbn [fst]; apply wf_set_sig; auto.
    + destruct (deliver _ sig); auto. cbn [fst]. apply wf_set_sig; auto.
  - unfold k_caught. cbn [fst]. apply wf_set_sig; auto.
  - unfold k_sigmask. destruct (negb (sigs_ok sigs) || N.ltb 2 how); auto.
    destruct (deliver_pending _ _); [cbn [fst]; apply wf_set_sig; auto|].
    destruct (filter _ _) as [|sg [|sg2 l]]; auto.
    destruct (N.eqb sg sigtstp); auto. destruct (k_susp s) eqn:E; auto. cbn [fst].
    rewrite <- E. apply wf_reskip; auto.
  - apply wf_fork; auto.
  - apply wf_exit; auto.
Qed.

Lemma step_preserves_wf_l s o : wf s -> wf (fst (step s o)).
Proof.
  intros Hw. unfold step. destruct (k_skip s) as [[sig d]|]; [|apply step_live_preserves_wf; auto].
  destruct o; cbn [fst]; auto using wf_reskip.
  destruct d; cbn [fst]; auto using wf_reskip.
  pose proof (wf_susp s Hw) as Hs. destruct (k_susp s) as [|p rest]; auto. cbn [fst].
  inversion Hs; subst. apply (wf_procs s (notify p) rest); auto. apply notify_ok; auto.
Qed.

Lemma run_preserves_wf_l : forall ops s, wf s -> wf (fst (run s ops)).
Proof.
  induction ops as [|o ops IH]; intros s Hw; cbn; auto.
  destruct (step s o) as [s1 r] eqn:Es.
  assert (Hw1 : wf s1) by (replace s1 with (fst (step s o)) by (rewrite Es; auto);
                           apply step_preserves_wf_l; auto).
  specialize (IH s1 Hw1). destruct (run s1 ops). auto.
Qed.

(* in a well-formed state no call falls into one of the model's "dangling
   reference" branches: a descriptor that is open always has its OFD *)
Lemma wf_get_ofd_l s fd e :
  wf s -> fd_get (fds s) fd = Some e -> exists o, get_ofd s fd = Some (e_ofd e, o) /\
  exists n, nth_error (k_ino s) (o_ino o) = Some n.
Proof.
  intros Hw G. pose proof (wf_fds s Hw fd e (fd_get_In _ _ _ G)) as Hlt.
  destruct (nth_error (k_ofd s) (e_ofd e)) as [o|] eqn:En.
  - exists o. split. { unfold get_ofd. rewrite G, En. reflexivity. }
    destruct Hw as (_ & H2 & _). rewrite Forall_forall in H2.
    specialize (H2 o (nth_error_In _ _ En)).
    destruct (nth_error (k_ino s) (o_ino o)) eqn:E2; eauto.
    apply nth_error_None in E2. lia.
  - apply nth_error_None in En. lia.
Qed.

(* ---- the initial state is well formed ------------------------------------------------------------ *)

Definition ino_wf (l : list inode) : Prop :=
  Forall (inode_ok (length l)) l /\ is_dir l 0 = true /\ 4 <= length l.

Lemma add_entry_length l d name i : length (add_entry l d name i) = length l.
Proof.
  unfold add_entry. destruct (nth_error l d) as [[| perm ents |]|]; auto. apply length_set_nth.
Qed.

Lemma add_entry_ok l d name i :
  Forall (inode_ok (length l)) l -> i < length l ->
  Forall (inode_ok (length l)) (add_entry l d name i).
Proof.
  intros H Hi. unfold add_entry. destruct (nth_error l d) as [[| perm ents |]|] eqn:E; auto.
  apply Forall_set_nth; auto. cbn. intros n j Hj. apply in_app_or in Hj. destruct Hj as [Hj|[Hj|[]]].
  - rewrite Forall_forall in H. apply (H _ (nth_error_In _ _ E) n j Hj).
  - inversion Hj; subst; auto.
Qed.

Lemma add_entry_is_dir l d name i j : is_dir l j = true -> is_dir (add_entry l d name i) j = true.
Proof.
  unfold add_entry. destruct (nth_error l d) as [[| perm ents |]|]; auto.
  apply is_dir_set_nth. intros _. exact I.
Qed.

Lemma add_init_wf ino e : ino_wf ino -> ino_wf (add_init ino e).
Proof.
  intros (H1 & H2 & H3). destruct e as [path content]. unfold add_init.
  destruct (rev path) as [|name rparent]; [repeat split; auto|].
  destruct (walk_names ino 0 (rev rparent)) as [d|]; [|repeat split; auto].
  set (node := match content with None => IDir 493 [] | Some b => IReg 420 b end).
  assert (Hf : Forall (inode_ok (length (ino ++ [node]))) (ino ++ [node])).
  { apply Forall_app. split.
    - eapply Forall_impl; [|exact H1]. intros y Hy. eapply inode_ok_mono; eauto. rewrite app_length; lia.
    - constructor; auto. unfold node. destruct content; cbn; auto. intros ? ? []. }
  split; [|split].
  - rewrite add_entry_length. apply add_entry_ok; auto. rewrite app_length; cbn; lia.
  - apply add_entry_is_dir, is_dir_app; auto.
  - rewrite add_entry_length, app_length. lia.
Qed.

Lemma fold_add_init_wf tree : forall ino, ino_wf ino -> ino_wf (fold_left add_init tree ino).
Proof. induction tree as [|e tree IH]; intros ino H; cbn; auto. apply IH, add_init_wf; auto. Qed.

Lemma wf_init_l tree um : wf (init_state tree um).
Proof.
  unfold init_state.
  set (ino := fold_left add_init tree _).
  assert (Hi : ino_wf ino).
  { apply fold_add_init_wf. split; [|split].
    - constructor; [cbn; intros ? ? [] | repeat (constructor; [exact I|]); constructor].
    - reflexivity.
    - cbn. lia. }
  destruct Hi as (H1 & H2 & H3).
  unfold wf, all_procs. cbn [k_ino k_ofd k_cur k_susp]. split; auto. split; [|split; auto].
  - repeat constructor; cbn; lia.
  - constructor; [|constructor]. split.
    + cbn. intros fd e [H|[H|[H|[]]]]; inversion H; subst; cbn; lia.
    + exact H2.
Qed.

Lemma wf_reachable_l tree um ops : wf (fst (run (init_state tree um) ops)).
Proof. apply run_preserves_wf_l, wf_init_l. Qed.

(* ---- descriptor allocation and flags -------------------------------------------------------------- *)

Lemma dup_lowest_free_l s fd m cx s' fd' :
  k_dup s fd m cx = (s', RFd fd') ->
  (m <= fd' < p_limit (k_cur s))%N /\ fd_mem (fds s) fd' = false /\
  (forall k, (m <= k < fd')%N -> fd_mem (fds s) k = true) /\
  k_getfd s' fd' = (s', RFlag cx).
Proof.
  unfold k_dup. destruct (N.ltb fd_limit m); try discriminate.
  destruct (fd_get (fds s) fd) as [e|]; try discriminate.
  destruct (N.leb (p_limit (k_cur s)) m); try discriminate.
  destruct (can_alloc s m) eqn:Hc; try discriminate. cbn [negb].
  intros H; inversion H; subst s' fd'; clear H.
  destruct (lowest_free_spec_l (fds s) m) as (A & B & C).
  unfold can_alloc in Hc. apply N.ltb_lt in Hc.
  repeat split; auto.
  unfold k_getfd, fds. cbn [set_fds set_cur k_cur p_fds]. rewrite fd_get_put_eq. reflexivity.
Qed.

Lemma dup2_clears_cloexec_l s fd to s' :
  k_dup2 s fd to = (s', RFd to) -> fd <> to -> k_getfd s' to = (s', RFlag false).
Proof.
  unfold k_dup2. destruct (N.ltb fd_limit to); try discriminate.
  destruct (fd_get (fds s) fd) as [e|]; try discriminate.
  destruct (N.eqb fd to) eqn:E. { apply N.eqb_eq in E. congruence. }
  destruct (N.leb (p_limit (k_cur s)) to); try discriminate.
  intros H _; inversion H; subst s'; clear H.
  unfold k_getfd, fds. cbn [set_fds set_cur k_cur p_fds]. rewrite fd_get_put_eq. reflexivity.
Qed.

Lemma close_closes_l s fd : k_getfd (fst (k_close s fd)) fd = (fst (k_close s fd), RErr EBADF).
Proof.
  unfold k_close, k_getfd, fds. cbn [fst set_fds set_cur k_cur p_fds]. rewrite fd_get_del_eq.
  reflexivity.
Qed.

(* ---- signals ------------------------------------------------------------------------------------------ *)

Lemma mem_insert_n x l : mem_n x (insert_n x l) = true.
Proof.
  induction l as [|y l IH]; cbn. { rewrite N.eqb_refl. reflexivity. }
  destruct (N.ltb x y) eqn:E1. { cbn. rewrite N.eqb_refl. reflexivity. }
  destruct (N.eqb x y) eqn:E2; cbn; rewrite ?E2; cbn; auto.
Qed.

Lemma mem_remove_n x l : mem_n x (remove_n x l) = false.
Proof.
  induction l as [|y l IH]; cbn; auto.
  destruct (N.eqb x y) eqn:E; cbn; rewrite ?E; auto.
Qed.

(* a caught signal raised while it is not blocked is recorded at once *)
Lemma raise_caught_l s sig :
  (sig < nsig)%N -> mem_n sig (g_mask (p_sig (k_cur s))) = false ->
  get_disp (g_disp (p_sig (k_cur s))) sig = DCatch ->
  snd (k_raise s sig) = RUnit /\
  mem_n sig (g_caught (p_sig (k_cur (fst (k_raise s sig))))) = true /\
  g_pend (p_sig (k_cur (fst (k_raise s sig)))) = g_pend (p_sig (k_cur s)).
Proof.
  intros Hs Hm Hd. unfold k_raise, deliver.
  assert (E : negb (N.ltb sig nsig) = false) by lia. rewrite E, Hm, Hd. cbn.
  split; auto. split; auto. apply mem_insert_n.
Qed.

(* an ignored signal changes nothing *)
Lemma raise_ignored_l s sig :
  (sig < nsig)%N -> mem_n sig (g_mask (p_sig (k_cur s))) = false ->
  get_disp (g_disp (p_sig (k_cur s))) sig = DIgnore ->
  snd (k_raise s sig) = RUnit /\ p_sig (k_cur (fst (k_raise s sig))) = p_sig (k_cur s).
Proof.
  intros Hs Hm Hd. unfold k_raise, deliver.
  assert (E : negb (N.ltb sig nsig) = false) by lia. rewrite E, Hd, Hm. cbn. auto.
Qed.

(* a blocked signal stays pending and is not recorded until it is unblocked *)
Lemma raise_blocked_l s sig :
  (sig < nsig)%N -> mem_n sig (g_mask (p_sig (k_cur s))) = true ->
  get_disp (g_disp (p_sig (k_cur s))) sig = DCatch ->
  snd (k_raise s sig) = RUnit /\
  mem_n sig (g_pend (p_sig (k_cur (fst (k_raise s sig))))) = true /\
  g_caught (p_sig (k_cur (fst (k_raise s sig)))) = g_caught (p_sig (k_cur s)).
Proof.
  intros Hs Hm Hd. unfold k_raise.
  assert (E : negb (N.ltb sig nsig) = false) by lia. rewrite E, Hm, Hd. cbn.
  split; auto. split; auto. apply mem_insert_n.
Qed.

(* setting the action to "ignore" discards a pending instance (POSIX) *)
Lemma ignore_discards_pending_l s sig :
  (sig < nsig)%N -> sig <> sigchld ->
  mem_n sig (g_pend (p_sig (k_cur (fst (k_sigaction s sig DIgnore))))) = false.
Proof.
  intros Hs Hc. unfold k_sigaction.
  assert (E : negb (N.ltb sig nsig) = false) by lia. rewrite E.
  assert (E2 : N.eqb sig sigchld = false) by (apply N.eqb_neq; auto). rewrite E2.
  cbn. apply mem_remove_n.
Qed.

(* ---- RLIMIT_NOFILE ---------------------------------------------------------------------------------- *)

(* a pipe that cannot get both descriptors gets none: the state is unchanged *)
Lemma pipe_emfile_no_leak_l s e : snd (k_pipe s) = RErr e -> fst (k_pipe s) = s.
Proof.
  unfold k_pipe. destruct (negb (can_alloc s 0)); auto.
  destruct (install (set_ino s _) _ _) as [s1 r].
  destruct (negb (can_alloc s1 0)); auto.
  destruct (install s1 _ _) as [s2 w]. cbn. discriminate.
Qed.

(* no allocation hands out a descriptor at or above the limit *)
Lemma pipe_below_limit_l s s' r w :
  k_pipe s = (s', RPipe r w) -> (r < p_limit (k_cur s))%N /\ (w < p_limit (k_cur s))%N.
Proof.
  unfold k_pipe. destruct (can_alloc s 0) eqn:C0; cbn [negb]; try discriminate.
  unfold install at 1. cbn [fst snd].
  match goal with |- context [can_alloc ?x 0] => destruct (can_alloc x 0) eqn:C1 end;
    cbn [negb]; try discriminate.
  unfold install. intros H; inversion H; subst; clear H.
  unfold can_alloc in *. apply N.ltb_lt in C0, C1. cbn in C1. split; auto.
Qed.

Lemma dup_emfile_l s fd m cx e :
  fd_get (fds s) fd = Some e -> (m <= fd_limit)%N -> (m < p_limit (k_cur s))%N ->
  can_alloc s m = false -> k_dup s fd m cx = (s, RErr EMFILE).
Proof.
  intros G Hm Hl Hc. unfold k_dup.
  assert (E1 : N.ltb fd_limit m = false) by lia. rewrite E1, G.
  assert (E2 : N.leb (p_limit (k_cur s)) m = false) by lia. rewrite E2, Hc. reflexivity.
Qed.

(* ---- process groups ------------------------------------------------------------------------------------ *)

(* a signal for the whole group that the parent ignores: the child that has the
   default action dies, the parent is untouched and learns the signal at the
   child's exit *)
Lemma group_kill_child_dies_l s parent rest sig :
  k_skip s = None -> k_susp s = parent :: rest ->
  (sig < nsig)%N -> sig <> sigtstp -> sig <> sigchld ->
  mem_n sig (g_mask (p_sig (k_cur s))) = false ->
  get_disp (g_disp (p_sig (k_cur s))) sig = DDefault ->
  signal_ancestors (k_susp s) (snd (p_id (k_cur s))) sig = Some (k_susp s) ->
  let s1 := fst (k_kill s TGroup0 sig) in
  snd (k_kill s TGroup0 sig) = RSkip /\
  (forall o, o <> OFork -> o <> OExit -> step s1 o = (s1, RSkip)) /\
  fst (step s1 OExit) = mkK (k_ino s) (k_ofd s) (notify parent) rest None (k_unpriv s) /\
  snd (step s1 OExit) = RChild (CSignaled sig).
Proof.
  intros Hn Hsusp Hs Hst Hch Hm Hd Ha. unfold k_kill.
  assert (E : negb (N.ltb sig nsig) = false) by lia. rewrite E, Ha.
  unfold signal_self, generate. rewrite Hd, Hm.
  assert (E2 : N.eqb sig sigtstp = false) by (apply N.eqb_neq; auto).
  assert (E3 : N.eqb sig sigchld = false) by (apply N.eqb_neq; auto). rewrite E3, E2, Hsusp.
  cbn [fst snd]. split; auto. split; [|split].
  - intros o Hf He. unfold step. cbn [k_skip]. destruct o; try congruence; reflexivity.
  - reflexivity.
  - reflexivity.
Qed.

(* an ancestor in the group that ignores the signal is not changed by it *)
Lemma signal_ancestors_ignored_l p sig pg :
  get_disp (g_disp (p_sig p)) sig = DIgnore -> mem_n sig (g_mask (p_sig p)) = false ->
  signal_ancestors [p] pg sig = Some [p].
Proof.
  intros Hd Hm. cbn. destruct (N.eqb _ pg); auto.
  unfold generate. rewrite Hd, Hm. unfold with_sig. destruct p; reflexivity.
Qed.

(* only the leader of a group can name it by its own ID *)
Lemma kill_neg_pid_not_leader_l s sig :
  (sig < nsig)%N -> fst (p_id (k_cur s)) <> snd (p_id (k_cur s)) ->
  k_kill s TNegPid sig = (s, RErr ESRCH).
Proof.
  intros Hs Hne. unfold k_kill.
  assert (E : negb (N.ltb sig nsig) = false) by lia. rewrite E.
  assert (E2 : N.eqb (fst (p_id (k_cur s))) (snd (p_id (k_cur s))) = false) by (apply N.eqb_neq; auto).
  rewrite E2. reflexivity.
Qed.

(* ---- permission bits (unprivileged owner) --------------------------------------------------------------- *)

(* no component is looked up in a directory the process may not search *)
Lemma walk_needs_search_l ino st c cs perm ents :
  nth_error ino (top st) = Some (IDir perm ents) -> may_x perm = false ->
  walk true ino st (c :: cs) = WErr EACCES.
Proof. intros En Hx. cbn. rewrite En, Hx. reflexivity. Qed.

(* a privileged process is never refused *)
Lemma walk_privileged_l ino : forall cs st e, walk false ino st cs = WErr e -> e <> EACCES.
Proof.
  induction cs as [|c cs IH]; intros st e H; cbn in H; try discriminate.
  destruct (nth_error ino (top st)) as [[| perm ents |]|]; try discriminate.
  - inversion H; discriminate.
  - cbn [andb] in H. destruct (is_dot c); [eapply IH; eauto|].
    destruct (is_dotdot c). { destruct st; [discriminate | eapply IH; eauto]. }
    destruct (lookup ents c); [eapply IH; eauto | inversion H; discriminate].
  - inversion H; discriminate.
Qed.

(* opening a file needs the owner's read / write bit *)
Lemma open_existing_denied_l s i a f perm data :
  k_unpriv s = true -> f_creat f && f_excl f = false -> f_dir f = false ->
  nth_error (k_ino s) i = Some (IReg perm data) ->
  (readable a && negb (may_r perm)) || (writable a && negb (may_w perm)) = true ->
  open_existing s i a f = (s, RErr EACCES).
Proof.
  intros Hu Hc Hd En Hp. unfold open_existing. rewrite Hc, En, Hd, Hu, Hp. reflexivity.
Qed.

(* and succeeds exactly as for a privileged process when the bits allow it *)
Lemma open_existing_allowed_l s i a f perm data :
  f_creat f && f_excl f = false -> f_dir f = false ->
  nth_error (k_ino s) i = Some (IReg perm data) ->
  (readable a && negb (may_r perm)) || (writable a && negb (may_w perm)) = false ->
  exists s' fd, open_existing s i a f = (s', RFd fd).
Proof.
  intros Hc Hd En Hp. unfold open_existing. rewrite Hc, En, Hd, Hp, andb_false_r.
  destruct (install _ _ _) as [s' fd]. eauto.
Qed.

(* ---- SIGCHLD, death at unblock time ----------------------------------------------------------------------- *)

(* the parent of a child that ends is told: a parent that catches SIGCHLD (and
   does not block it) has it recorded, whatever process group the child was in *)
Lemma exit_notifies_parent_l s parent rest :
  k_susp s = parent :: rest ->
  get_disp (g_disp (p_sig parent)) sigchld = DCatch ->
  mem_n sigchld (g_mask (p_sig parent)) = false ->
  mem_n sigchld (g_caught (p_sig (k_cur (fst (k_exit s))))) = true /\
  snd (k_exit s) = RChild CExited.
Proof.
  intros Hs Hd Hm. unfold k_exit. rewrite Hs. cbn [fst snd k_cur]. split; auto.
  unfold notify, generate. rewrite Hd, Hm. cbn. apply mem_insert_n.
Qed.

(* a child that unblocks a pending signal with the default (fatal) action dies
   inside that call; at its exit the parent learns the signal and is told *)
Lemma death_at_unblock_l s parent rest sig :
  k_skip s = None -> k_susp s = parent :: rest ->
  g_mask (p_sig (k_cur s)) = [sig] -> g_pend (p_sig (k_cur s)) = [sig] ->
  get_disp (g_disp (p_sig (k_cur s))) sig = DDefault ->
  (sig < 5)%N ->
  let s1 := fst (k_sigmask s 1 [sig]) in
  snd (k_sigmask s 1 [sig]) = RSkip /\
  step s1 OExit = (mkK (k_ino s) (k_ofd s) (notify parent) rest None (k_unpriv s), RChild (CSignaled sig)).
Proof.
  intros Hn Hs Hmask Hpend Hd Hlt.
  assert (Hcases : (sig = 0 \/ sig = 1 \/ sig = 2 \/ sig = 3 \/ sig = 4)%N) by lia.
  unfold k_sigmask. rewrite Hmask, Hpend.
  destruct Hcases as [E|[E|[E|[E|E]]]]; subst sig;
    repeat (cbn; unfold deliver; rewrite ?Hd, ?Hs); split; try reflexivity; unfold step;
    repeat (cbn; unfold deliver; rewrite ?Hd, ?Hs); reflexivity.
Qed.
