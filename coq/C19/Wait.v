(* C19 — several children alive at the same time (the "wait" stream).

   MODEL.  The parent is a whole kernel state of Model.v (it may perform every
   call of Model.v except fork/exit: [WParent]); next to it there is a table
   of children, oldest first.  A child is deliberately small: it is running, a
   zombie (terminated, not yet waited for) or reaped; it has a signal mask and
   a set of pending signals over the fatal signals 0..4, every action is the
   default one.  The children are driven from outside (the harness sends each
   command through a pipe and waits for its effect), so the interleaving of
   their system calls is part of the input:

     WFork           the parent forks the next child (it inherits the mask)
     WCmd k c        child k performs one call itself: exit(n), kill(getpid(),
                     sig), sigprocmask, setpgid(0, 0)
     WKill k sig     the parent sends a signal to child k
     WWait t         the parent calls waitpid(t, WNOHANG): t = None is -1

   A child that terminates — by exit, by a signal that is not blocked, or
   inside its own sigprocmask call when that unblocks a pending signal —
   becomes a zombie and its PARENT is sent SIGCHLD ([Model.notify]), whatever
   process group the child is in and whatever the other children do.

   Written from POSIX; where POSIX leaves a choice (which of several zombies
   wait(-1) reports) the Linux behaviour: the oldest child first.

   SPEC / ORACLE at the end: the two implementations must return the same
   list of results. *)
From Yv Require Import Common.Base C19.Model C19.Spec.

Inductive wstat := WExited (n : N) | WSignaled (sig : N).

Inductive cst := CRun | CZomb (w : wstat) | CReaped.

Record wchild := mkC {
  c_st : cst;
  c_mask : list N;      (* blocked, ascending *)
  c_pend : list N;      (* pending, ascending *)
  c_own : bool          (* leads a process group of its own *)
}.

Record wstate := mkW {
  w_k : kstate;               (* the parent *)
  w_ch : list wchild          (* its children, oldest first *)
}.

Inductive ccmd :=
| CExit (n : N)
| CSelfKill (sig : N)
| CMask (how : N) (sigs : list N)      (* 0 = block, 1 = unblock, 2 = set *)
| CSetpgid.

Inductive wop :=
| WParent (o : op)
| WFork
| WCmd (k : nat) (c : ccmd)
| WKill (k : nat) (sig : N)
| WWait (t : option nat).

Inductive wres :=
| WR (r : res)                   (* result of a call of Model.v; RSkip = the child died in the call *)
| WRNone                         (* wait: nothing to report yet *)
| WRNoChild                      (* wait: ECHILD *)
| WRGot (k : nat) (w : wstat).   (* wait: child k (in fork order) ended like this *)

(* ---- children ------------------------------------------------------------------ *)

Definition nfatal : N := 5.      (* signals 0..4: the default action terminates *)

Definition is_run (c : wchild) : bool := match c_st c with CRun => true | _ => false end.
Definition is_reaped (c : wchild) : bool := match c_st c with CReaped => true | _ => false end.
Definition zomb_of (c : wchild) : option wstat := match c_st c with CZomb w => Some w | _ => None end.

Definition with_st (c : wchild) (st : cst) : wchild := mkC st (c_mask c) (c_pend c) (c_own c).

(* the parent is told about the death of one of its children *)
Definition notify_parent (k : kstate) : kstate := set_cur k (notify (k_cur k)).

Definition set_child (s : wstate) (k : nat) (c : wchild) : wstate :=
  mkW (w_k s) (set_nth (w_ch s) k c).

(* child k dies: zombie, SIGCHLD for the parent *)
Definition die (s : wstate) (k : nat) (c : wchild) (w : wstat) : wstate :=
  mkW (notify_parent (w_k s)) (set_nth (w_ch s) k (with_st c (CZomb w))).

(* a signal is generated for a running child (by itself or by its parent) *)
Definition child_signal (s : wstate) (k : nat) (c : wchild) (sig : N) : wstate * wres :=
  if negb (N.ltb sig nfatal) then (s, WR ROut)
  else if mem_n sig (c_mask c)
  then (set_child s k (mkC CRun (c_mask c) (insert_n sig (c_pend c)) (c_own c)), WR RUnit)
  else (die s k c (WSignaled sig), WR RSkip).

Definition child_cmd (s : wstate) (k : nat) (c : wchild) (cmd : ccmd) : wstate * wres :=
  match cmd with
  | CExit n => if N.ltb 255 n then (s, WR ROut) else (die s k c (WExited n), WR RSkip)
  | CSelfKill sig => child_signal s k c sig
  | CMask how sigs =>
      if negb (forallb (fun x => N.ltb x nfatal) sigs) || N.ltb 2 how then (s, WR ROut) else
      let new :=
        if N.eqb how 0 then fold_right insert_n (c_mask c) sigs
        else if N.eqb how 1 then fold_right remove_n (c_mask c) sigs
        else norm_set sigs in
      match filter (fun sig => negb (mem_n sig new)) (c_pend c) with
      | [] => (set_child s k (mkC CRun new (c_pend c) (c_own c)), WR RUnit)
      | [sig] => (* death inside the call *)
          (die s k (mkC CRun new (remove_n sig (c_pend c)) (c_own c)) (WSignaled sig), WR RSkip)
      | _ => (s, WR ROut)      (* which of several signals wins is not compared *)
      end
  | CSetpgid => (set_child s k (mkC CRun (c_mask c) (c_pend c) true), WR RUnit)
  end.

(* ---- wait ------------------------------------------------------------------------- *)

(* the oldest zombie at or after index i *)
Fixpoint first_zomb (l : list wchild) (i : nat) : option (nat * wstat) :=
  match l with
  | [] => None
  | c :: l' => match c_st c with
               | CZomb w => Some (i, w)
               | _ => first_zomb l' (S i)
               end
  end.

Definition reap (s : wstate) (k : nat) : wstate :=
  match nth_error (w_ch s) k with
  | Some c => set_child s k (with_st c CReaped)
  | None => s
  end.

Definition w_wait (s : wstate) (t : option nat) : wstate * wres :=
  match t with
  | None =>
      match first_zomb (w_ch s) 0 with
      | Some (k, w) => (reap s k, WRGot k w)
      | None => if existsb (fun c => negb (is_reaped c)) (w_ch s) then (s, WRNone)
                else (s, WRNoChild)
      end
  | Some k =>
      match nth_error (w_ch s) k with
      | None => (s, WR ROut)
      | Some c =>
          match c_st c with
          | CRun => (s, WRNone)
          | CZomb w => (reap s k, WRGot k w)
          | CReaped => (s, WRNoChild)
          end
      end
  end.

(* ---- one step, a run ----------------------------------------------------------------- *)

(* the fatal signals must have the default action in the parent when it forks
   (the children of this stream never change an action) *)
Definition fork_ok (g : sigstate) : bool :=
  forallb (fun sig => match get_disp (g_disp g) sig with DDefault => true | _ => false end)
          [0; 1; 2; 3; 4]%N.

(* calls of the parent that concern other processes are not [WParent] calls:
   fork / exit (the children are in the table) and signals for a process group
   (its children may be members) *)
Definition parent_ok (o : op) : bool :=
  match o with
  | OFork | OExit => false
  | OKill TSelf _ => true
  | OKill _ _ => false
  | _ => true
  end.

Definition wstep (s : wstate) (o : wop) : wstate * wres :=
  match o with
  | WParent o' =>
      if parent_ok o' then let '(k', r) := step (w_k s) o' in (mkW k' (w_ch s), WR r)
      else (s, WR ROut)
  | WFork =>
      let g := p_sig (k_cur (w_k s)) in
      if negb (fork_ok g) then (s, WR ROut) else
      (mkW (w_k s) (w_ch s ++ [mkC CRun (filter (fun x => N.ltb x nfatal) (g_mask g)) [] false]), WR RUnit)
  | WCmd k cmd =>
      match nth_error (w_ch s) k with
      | Some c => if is_run c then child_cmd s k c cmd else (s, WR ROut)
      | None => (s, WR ROut)
      end
  | WKill k sig =>
      match nth_error (w_ch s) k with
      | Some c => if is_run c then child_signal s k c sig else (s, WR ROut)
      | None => (s, WR ROut)
      end
  | WWait t => w_wait s t
  end.

Fixpoint wrun (s : wstate) (ops : list wop) : wstate * list wres :=
  match ops with
  | [] => (s, [])
  | o :: ops' =>
      let '(s1, r) := wstep s o in
      let '(s2, rs) := wrun s1 ops' in
      (s2, r :: rs)
  end.

Definition winit : wstate := mkW (init_state [] 18) [].

(* ---- SPEC / ORACLE ------------------------------------------------------------------ *)

Definition wstat_eqb (a b : wstat) : bool :=
  match a, b with
  | WExited x, WExited y => N.eqb x y
  | WSignaled x, WSignaled y => N.eqb x y
  | _, _ => false
  end.

Definition wres_eqb (a b : wres) : bool :=
  match a, b with
  | WR x, WR y => res_eqb x y
  | WRNone, WRNone => true
  | WRNoChild, WRNoChild => true
  | WRGot k w, WRGot k' w' => Nat.eqb k k' && wstat_eqb w w'
  | _, _ => false
  end.

(* the property for one sequence: both systems returned the same results *)
Definition wait_agree (v r : list wres) : Prop := v = r.

Definition clause_wait : N := 24.        (* wait / SIGCHLD with several children differs *)
Definition clause_wait_shape : N := 25.  (* a run did not finish / results are missing *)

Definition is_hang (x : wres) : bool :=
  match x with WR RHang | WR RPanic => true | _ => false end.

Fixpoint wait_oracle (v r : list wres) : option N :=
  match v, r with
  | [], [] => None
  | x :: v', y :: r' =>
      if wres_eqb x y then wait_oracle v' r'
      else Some (if is_hang x || is_hang y then clause_wait_shape else clause_wait)
  | _, _ => Some clause_wait_shape
  end.

Definition whas_out (l : list wres) : bool :=
  existsb (fun x => match x with WR ROut => true | _ => false end) l.
