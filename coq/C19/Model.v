(* C19 — the PIVOT: a small pure model of the part of a POSIX kernel that the
   shell's system interface (yash-env/src/system.rs: Open, Close, Dup, Read,
   Write, Seek, Fstat, Umask, Chdir, GetCwd, Pipe, Fcntl, Fork/Exit) relies on.

   It is written from POSIX (and the Linux behaviour where POSIX leaves a
   choice), NOT from either implementation: both /repo's VirtualSystem
   (yash-env/src/system/virtual*.rs) and /repo's RealSystem on the running
   kernel (yash-env/src/system/real*.rs) are compared with it, and with each
   other, on the same system-call sequences.

   State:
     inodes     regular file (permission bits, bytes) | directory (permission
                bits, name |-> inode) | FIFO (buffered bytes).  The System
                traits have no unlink/rename/mkdir, so inodes are never
                removed: an inode number is an index into a growing list.
     open file descriptions (OFD): inode, offset, readable, writable, append.
                Never removed either; an OFD is *live* while some descriptor
                of some process refers to it.
     process    descriptor table fd |-> (OFD id, close-on-exec), current
                directory (stack of (name, inode), innermost first; the root of
                the model is the scratch directory the sequences run in),
                file mode creation mask.
     processes  the running one and the stack of its suspended ancestors: the
                only schedule modelled is the subshell schedule "fork; the
                child runs to its exit while the parent waits".

   Everything outside the domain the comparison is meant for (would block,
   empty path, `..` above the scratch root, unspecified flag
   combinations, ...) yields [ROut]; the run-time check reports such a case as
   a generator bug (verdict 99), never as agreement.

   No permission checks: the check runs as the owner of every file with all
   permission bits the generator uses sufficient (see props/C19.json). *)
From Yv Require Import Common.Base.

(* ---- data ----------------------------------------------------------------- *)

Inductive errno :=
| ENOENT | EEXIST | ENOTDIR | EISDIR | EBADF | EINVAL | ESPIPE | EPIPE
| EMFILE | EACCES | ELOOP | ESRCH | EOTHER.

Inductive kind := KReg | KDir | KFifo | KOther.

Inductive inode :=
| IReg (perm : N) (data : list N)
| IDir (perm : N) (ents : list (str * nat))
| IFifo (data : list N).

Record ofd := mkOfd { o_ino : nat; o_off : N; o_rd : bool; o_wr : bool; o_app : bool }.

Record fdent := mkEnt { e_ofd : nat; e_cx : bool }.

Definition fdtab := list (N * fdent).

Definition stack := list (str * nat).      (* innermost directory first *)

(* signals: the five the sequences use (SIGUSR1, SIGUSR2, SIGTERM, SIGINT,
   SIGHUP) are numbered 0..4 *)
Inductive disp := DDefault | DIgnore | DCatch.

Record sigstate := mkSig {
  g_disp : list (N * disp);      (* dispositions that are not the default *)
  g_mask : list N;               (* blocked *)
  g_pend : list N;               (* pending (blocked when raised) *)
  g_caught : list N              (* caught and not yet collected *)
}.

(* [p_limit]: the soft RLIMIT_NOFILE; a descriptor number must be below it *)
(* [p_id] = (process ID, process group ID); IDs are symbolic: the process at
   depth d of the fork nesting has ID d + 1 *)
Record proc := mkProc { p_fds : fdtab; p_cwd : stack; p_umask : N; p_sig : sigstate; p_limit : N;
                        p_id : N * N }.

Record kstate := mkK {
  k_ino : list inode;
  k_ofd : list ofd;
  k_cur : proc;                (* the running process *)
  k_susp : list proc;          (* its waiting ancestors, parent first *)
  k_skip : option (N * nat);   (* the running process was killed by this signal; the rest of
                                  its operations (with this many nested forks open) is skipped *)
  k_unpriv : bool              (* the processes are unprivileged: the permission bits of the
                                  owner (they own every file) are enforced *)
}.

Inductive access := ARd | AWr | ARdWr.

Record oflags := mkFl {
  f_creat : bool; f_excl : bool; f_trunc : bool; f_append : bool;
  f_cloexec : bool; f_dir : bool }.

Inductive whence := WSet | WCur | WEnd.

Inductive ktarget :=
| TSelf            (* kill(getpid()) *)
| TParent          (* kill(getppid()) *)
| TGroup0          (* kill(0): the caller's process group *)
| TNegPgid         (* kill(-getpgrp()): the same group, named *)
| TNegPid.         (* kill(-getpid()): the group the caller leads, if it leads one *)

Inductive cstat := CExited | CSignaled (sig : N).

Inductive op :=
| OOpen (p : str) (a : access) (f : oflags) (mode : N)
| OClose (fd : N)
| ODup (fd min : N) (cx : bool)
| ODup2 (fd to : N)
| ORead (fd : N) (n : N)
| OWrite (fd : N) (b : list N)
| OLseek (fd : N) (w : whence) (off : Z)
| OFstat (fd : N)
| OStat (p : str)
| OUmask (m : N)
| OChdir (p : str)
| OGetcwd
| OPipe
| OReaddir (p : str)
| OGetfd (fd : N)
| OSetfd (fd : N) (cx : bool)
| OAccess (fd : N)
| OSetrlimit (n : N)          (* soft RLIMIT_NOFILE *)
| ODropPriv                   (* from here on the processes are unprivileged *)
| OChmod (p : str) (mode : N) (* (by the harness) set the permission bits *)
| OSetpgid0                   (* setpgid(0, 0): the caller becomes the leader of a new group *)
| OKill (t : ktarget) (sig : N)
| OSigaction (sig : N) (d : disp)
| OGetSigaction (sig : N)
| ORaise (sig : N)
| OCaught
| OSigmask (how : N) (sigs : list N)      (* 0 = block, 1 = unblock, 2 = set *)
| OFork                       (* the child becomes the running process *)
| OExit.                      (* the running child exits; its parent resumes *)

Inductive res :=
| RFd (n : N)
| RUnit
| RBytes (b : list N)
| RCount (n : N)
| ROff (n : N)
| RStat (k : kind) (size : N) (perm : N)
| RMode (m : N)
| RPath (p : list str)
| RPipe (r w : N)
| RNames (l : list str)
| RFlag (b : bool)
| RAcc (a : access)
| RErr (e : errno)
| RDisp (d : disp)
| RSigs (l : list N)          (* a set of signals, ascending *)
| RSkip                       (* not executed: the process had been killed *)
| RChild (c : cstat)          (* how the child ended (reported at its exit) *)
| ROut                        (* model only: outside the compared domain *)
| RHang                       (* harness only: the call did not return *)
| RPanic.                     (* harness only: the implementation panicked in this call *)

(* ---- descriptor tables ------------------------------------------------------ *)

Fixpoint fd_get (t : fdtab) (fd : N) : option fdent :=
  match t with
  | [] => None
  | (k, e) :: t' => if N.eqb k fd then Some e else fd_get t' fd
  end.

Fixpoint fd_del (t : fdtab) (fd : N) : fdtab :=
  match t with
  | [] => []
  | (k, e) :: t' => if N.eqb k fd then fd_del t' fd else (k, e) :: fd_del t' fd
  end.

Definition fd_put (t : fdtab) (fd : N) (e : fdent) : fdtab := (fd, e) :: fd_del t fd.

Definition fd_mem (t : fdtab) (fd : N) : bool :=
  match fd_get t fd with Some _ => true | None => false end.

(* the least descriptor >= m that is not in the table; among [fuel] + 1
   consecutive candidates one is free when fuel >= length t *)
Fixpoint free_from (t : fdtab) (fuel : nat) (m : N) : N :=
  match fuel with
  | O => m
  | S f => if fd_mem t m then free_from t f (m + 1)%N else m
  end.

Definition lowest_free (t : fdtab) (m : N) : N := free_from t (length t) m.

(* ---- paths ------------------------------------------------------------------- *)

Definition slash : N := 47.
Definition dot : N := 46.

(* split at '/' *)
Fixpoint split_slash (p : str) (cur : str) : list str :=
  match p with
  | [] => [rev cur]
  | c :: p' => if N.eqb c slash then rev cur :: split_slash p' [] else split_slash p' (c :: cur)
  end.

Definition nonempty (s : str) : bool := match s with [] => false | _ => true end.

Definition comps (p : str) : list str := filter nonempty (split_slash p []).

Definition is_dot (c : str) : bool := str_eqb c [dot].
Definition is_dotdot (c : str) : bool := str_eqb c [dot; dot].

Definition is_abs (p : str) : bool :=
  match p with c :: _ => N.eqb c slash | [] => false end.

Definition trailing_slash (p : str) : bool :=
  match rev p with c :: _ => N.eqb c slash | [] => false end.

Fixpoint lookup (ents : list (str * nat)) (name : str) : option nat :=
  match ents with
  | [] => None
  | (n, i) :: ents' => if str_eqb n name then Some i else lookup ents' name
  end.

Definition top (st : stack) : nat := match st with [] => O | (_, i) :: _ => i end.

Inductive wres := WOk (st : stack) | WErr (e : errno) | WOut.

(* owner permission bits *)
Definition may_r (perm : N) : bool := N.testbit perm 8.
Definition may_w (perm : N) : bool := N.testbit perm 7.
Definition may_x (perm : N) : bool := N.testbit perm 6.

(* POSIX pathname resolution in a tree without symbolic links: every component
   (also `.` and `..`) is looked up in a *directory*, which an unprivileged
   process ([u] = true) must be allowed to search. *)
Fixpoint walk (u : bool) (ino : list inode) (st : stack) (cs : list str) : wres :=
  match cs with
  | [] => WOk st
  | c :: cs' =>
      match nth_error ino (top st) with
      | Some (IDir perm ents) =>
          if u && negb (may_x perm) then WErr EACCES
          else if is_dot c then walk u ino st cs'
          else if is_dotdot c then
            match st with [] => WOut | _ :: st' => walk u ino st' cs' end
          else match lookup ents c with
               | Some i => walk u ino ((c, i) :: st) cs'
               | None => WErr ENOENT
               end
      | Some _ => WErr ENOTDIR
      | None => WOut
      end
  end.

Definition is_dir (ino : list inode) (i : nat) : bool :=
  match nth_error ino i with Some (IDir _ _) => true | _ => false end.

(* where resolution starts: a path that begins with '/' is relative to the
   scratch root (the harness prefixes the absolute name of that directory) *)
Definition start (cwd : stack) (p : str) : stack := if is_abs p then [] else cwd.

(* a whole path names an existing file *)
Definition resolve (u : bool) (ino : list inode) (cwd : stack) (p : str) : wres :=
  if negb (nonempty p) then WOut
  else match walk u ino (start cwd p) (comps p) with
       | WOk st => if trailing_slash p && negb (is_dir ino (top st)) then WErr ENOTDIR else WOk st
       | r => r
       end.

(* ---- small helpers --------------------------------------------------------------- *)

Fixpoint set_nth {A} (l : list A) (i : nat) (x : A) : list A :=
  match l, i with
  | [], _ => []
  | _ :: l', O => x :: l'
  | y :: l', S i' => y :: set_nth l' i' x
  end.

Definition ntake (n : N) (l : list N) : list N := firstn (N.to_nat n) l.
Definition ndrop (n : N) (l : list N) : list N := skipn (N.to_nat n) l.
Definition nlen (l : list N) : N := N.of_nat (length l).

Definition zeros (n : N) : list N := repeat 0%N (N.to_nat n).

(* bytes of a regular file after writing [b] at offset [off] *)
Definition write_at (data : list N) (off : N) (b : list N) : list N :=
  if N.leb off (nlen data)
  then ntake off data ++ b ++ ndrop (off + nlen b) data
  else data ++ zeros (off - nlen data) ++ b.

Definition mask (mode um : N) : N := N.land (N.land mode 511) (N.lxor (N.land um 511) 511).

Definition readable (a : access) := match a with AWr => false | _ => true end.
Definition writable (a : access) := match a with ARd => false | _ => true end.

Definition all_procs (s : kstate) : list proc := k_cur s :: k_susp s.

(* some descriptor of some process refers to an OFD on inode [i] that
   satisfies [want] *)
Definition live_end (s : kstate) (i : nat) (want : ofd -> bool) : bool :=
  existsb (fun p =>
    existsb (fun fe =>
      match nth_error (k_ofd s) (e_ofd (snd fe)) with
      | Some o => Nat.eqb (o_ino o) i && want o
      | None => false
      end) (p_fds p)) (all_procs s).

Definition pipe_cap : N := 1024.    (* the smaller of the two pipe capacities *)

Definition set_cur (s : kstate) (p : proc) : kstate :=
  mkK (k_ino s) (k_ofd s) p (k_susp s) (k_skip s) (k_unpriv s).
Definition set_fds (s : kstate) (t : fdtab) : kstate :=
  set_cur s (mkProc t (p_cwd (k_cur s)) (p_umask (k_cur s)) (p_sig (k_cur s)) (p_limit (k_cur s)) (p_id (k_cur s))).
Definition set_sig (s : kstate) (g : sigstate) : kstate :=
  set_cur s (mkProc (p_fds (k_cur s)) (p_cwd (k_cur s)) (p_umask (k_cur s)) g (p_limit (k_cur s)) (p_id (k_cur s))).
Definition set_ino (s : kstate) (l : list inode) : kstate :=
  mkK l (k_ofd s) (k_cur s) (k_susp s) (k_skip s) (k_unpriv s).
Definition set_ofd (s : kstate) (l : list ofd) : kstate :=
  mkK (k_ino s) l (k_cur s) (k_susp s) (k_skip s) (k_unpriv s).

Definition fds (s : kstate) : fdtab := p_fds (k_cur s).

(* descriptor -> (OFD id, OFD) *)
Definition get_ofd (s : kstate) (fd : N) : option (nat * ofd) :=
  match fd_get (fds s) fd with
  | Some e => match nth_error (k_ofd s) (e_ofd e) with
              | Some o => Some (e_ofd e, o)
              | None => None
              end
  | None => None
  end.

(* allocate a new OFD and bind the lowest free descriptor >= 0 to it *)
Definition install (s : kstate) (o : ofd) (cx : bool) : kstate * N :=
  let id := length (k_ofd s) in
  let fd := lowest_free (fds s) 0 in
  (set_fds (set_ofd s (k_ofd s ++ [o])) (fd_put (fds s) fd (mkEnt id cx)), fd).

(* a descriptor >= m below the limit is free *)
Definition can_alloc (s : kstate) (m : N) : bool :=
  N.ltb (lowest_free (fds s) m) (p_limit (k_cur s)).

Definition default_limit : N := 1024.

(* ---- open ------------------------------------------------------------------------ *)

Definition flags_ok (a : access) (f : oflags) : bool :=
  (* combinations POSIX leaves unspecified or that the shell never uses *)
  negb (f_excl f && negb (f_creat f)) &&
  negb (f_trunc f && negb (writable a)) &&
  negb (f_dir f && (f_creat f || writable a || f_trunc f)).

Definition open_existing (s : kstate) (i : nat) (a : access) (f : oflags) : kstate * res :=
  if f_creat f && f_excl f then (s, RErr EEXIST) else
  match nth_error (k_ino s) i with
  | Some (IDir dperm _) =>
      if writable a then (s, RErr EISDIR)
      else if f_creat f then (s, ROut)
      else if k_unpriv s && negb (may_r dperm) then (s, RErr EACCES)
      else let '(s', fd) := install s (mkOfd i 0 true false (f_append f)) (f_cloexec f) in
           (s', RFd fd)
  | Some (IReg perm data) =>
      if f_dir f then (s, RErr ENOTDIR) else
      if k_unpriv s && ((readable a && negb (may_r perm)) || (writable a && negb (may_w perm)))
      then (s, RErr EACCES) else
      let s1 := if f_trunc f then set_ino s (set_nth (k_ino s) i (IReg perm [])) else s in
      let '(s', fd) := install s1 (mkOfd i 0 (readable a) (writable a) (f_append f)) (f_cloexec f) in
      (s', RFd fd)
  | Some (IFifo _) => (s, ROut)       (* no named FIFOs in the domain *)
  | None => (s, ROut)
  end.

Definition add_entry (l : list inode) (d : nat) (name : str) (i : nat) : list inode :=
  match nth_error l d with
  | Some (IDir perm ents) => set_nth l d (IDir perm (ents ++ [(name, i)]))
  | _ => l
  end.

Definition k_open_inner (s : kstate) (p : str) (a : access) (f : oflags) (mode : N) : kstate * res :=
  if negb (flags_ok a f) || negb (nonempty p) then (s, ROut) else
  let cs := comps p in
  let whole :=
    (* the last component is not a name to create: resolve the whole path *)
    match resolve (k_unpriv s) (k_ino s) (p_cwd (k_cur s)) p with
    | WOk st => open_existing s (top st) a f
    | WErr e => if f_creat f then (s, ROut) else (s, RErr e)
    | WOut => (s, ROut)
    end in
  match rev cs with
  | [] => whole
  | last :: rinit =>
      if is_dot last || is_dotdot last || trailing_slash p then whole
      else
        match walk (k_unpriv s) (k_ino s) (start (p_cwd (k_cur s)) p) (rev rinit) with
        | WOk st =>
            match nth_error (k_ino s) (top st) with
            | Some (IDir dperm ents) =>
                if k_unpriv s && negb (may_x dperm) then (s, RErr EACCES) else
                match lookup ents last with
                | Some i => open_existing s i a f
                | None =>
                    if f_creat f && k_unpriv s && negb (may_w dperm) then (s, RErr EACCES) else
                    if f_creat f then
                      let i := length (k_ino s) in
                      let perm := mask mode (p_umask (k_cur s)) in
                      let s1 := set_ino s (add_entry (k_ino s ++ [IReg perm []]) (top st) last i) in
                      let '(s', fd) :=
                        install s1 (mkOfd i 0 (readable a) (writable a) (f_append f)) (f_cloexec f) in
                      (s', RFd fd)
                    else (s, RErr ENOENT)
                end
            | Some _ => (s, RErr ENOTDIR)
            | None => (s, ROut)
            end
        | WErr e => (s, RErr e)
        | WOut => (s, ROut)
        end
  end.

(* With no descriptor available an open that would otherwise succeed fails
   with EMFILE and has no effect (nothing is created or truncated: Linux
   reserves the descriptor first).  Which error wins when the open would fail
   anyway is not specified: outside the domain. *)
Definition k_open (s : kstate) (p : str) (a : access) (f : oflags) (mode : N) : kstate * res :=
  if can_alloc s 0 then k_open_inner s p a f mode
  else match snd (k_open_inner s p a f mode) with
       | RFd _ => (s, RErr EMFILE)
       | _ => (s, ROut)
       end.

(* ---- descriptors ------------------------------------------------------------------- *)

Definition fd_limit : N := 200.     (* descriptors the sequences may name *)

Definition k_close (s : kstate) (fd : N) : kstate * res :=
  (* both implementations of Close report success for a descriptor that is not
     open (RealSystem maps EBADF to Ok) *)
  (set_fds s (fd_del (fds s) fd), RUnit).

Definition k_dup (s : kstate) (fd m : N) (cx : bool) : kstate * res :=
  if N.ltb fd_limit m then (s, ROut) else
  match fd_get (fds s) fd with
  | None => (s, RErr EBADF)
  | Some e =>
      if N.leb (p_limit (k_cur s)) m then (s, RErr EINVAL)
      else if negb (can_alloc s m) then (s, RErr EMFILE)
      else
      let fd' := lowest_free (fds s) m in
      (set_fds s (fd_put (fds s) fd' (mkEnt (e_ofd e) cx)), RFd fd')
  end.

Definition k_dup2 (s : kstate) (fd to : N) : kstate * res :=
  if N.ltb fd_limit to then (s, ROut) else
  match fd_get (fds s) fd with
  | None => (s, RErr EBADF)
  | Some e =>
      if N.eqb fd to then (s, RFd to)
      else if N.leb (p_limit (k_cur s)) to then (s, RErr EBADF)
      else (set_fds s (fd_put (fds s) to (mkEnt (e_ofd e) false)), RFd to)
  end.

Definition k_getfd (s : kstate) (fd : N) : kstate * res :=
  match fd_get (fds s) fd with
  | None => (s, RErr EBADF)
  | Some e => (s, RFlag (e_cx e))
  end.

Definition k_setfd (s : kstate) (fd : N) (cx : bool) : kstate * res :=
  match fd_get (fds s) fd with
  | None => (s, RErr EBADF)
  | Some e => (set_fds s (fd_put (fds s) fd (mkEnt (e_ofd e) cx)), RUnit)
  end.

Definition k_access (s : kstate) (fd : N) : kstate * res :=
  match get_ofd s fd with
  | None => (s, RErr EBADF)
  | Some (_, o) =>
      match o_rd o, o_wr o with
      | true, false => (s, RAcc ARd)
      | false, true => (s, RAcc AWr)
      | true, true => (s, RAcc ARdWr)
      | false, false => (s, ROut)
      end
  end.

(* ---- read / write / lseek ------------------------------------------------------------ *)

Definition set_off (s : kstate) (id : nat) (o : ofd) (off : N) : kstate :=
  set_ofd s (set_nth (k_ofd s) id (mkOfd (o_ino o) off (o_rd o) (o_wr o) (o_app o))).

Definition k_read (s : kstate) (fd n : N) : kstate * res :=
  if N.eqb n 0 then (s, ROut) else
  match get_ofd s fd with
  | None => (s, RErr EBADF)
  | Some (id, o) =>
      if negb (o_rd o) then (s, RErr EBADF) else
      match nth_error (k_ino s) (o_ino o) with
      | Some (IReg _ data) =>
          let got := ntake n (ndrop (o_off o) data) in
          (set_off s id o (o_off o + nlen got), RBytes got)
      | Some (IDir _ _) => (s, RErr EISDIR)
      | Some (IFifo data) =>
          match data with
          | [] => if live_end s (o_ino o) o_wr then (s, ROut)    (* would block *)
                  else (s, RBytes [])
          | _ => let got := ntake n data in
                 (set_ino s (set_nth (k_ino s) (o_ino o) (IFifo (ndrop n data))), RBytes got)
          end
      | None => (s, ROut)
      end
  end.

Definition k_write (s : kstate) (fd : N) (b : list N) : kstate * res :=
  if negb (nonempty b) then (s, ROut) else
  match get_ofd s fd with
  | None => (s, RErr EBADF)
  | Some (id, o) =>
      if negb (o_wr o) then (s, RErr EBADF) else
      match nth_error (k_ino s) (o_ino o) with
      | Some (IReg perm data) =>
          let off := if o_app o then nlen data else o_off o in
          let s1 := set_ino s (set_nth (k_ino s) (o_ino o) (IReg perm (write_at data off b))) in
          (set_off s1 id o (off + nlen b), RCount (nlen b))
      | Some (IDir _ _) => (s, ROut)           (* unreachable: a directory is never open for writing *)
      | Some (IFifo data) =>
          if negb (live_end s (o_ino o) o_rd) then (s, RErr EPIPE)
          else if N.ltb pipe_cap (nlen data + nlen b) then (s, ROut)   (* may block *)
          else (set_ino s (set_nth (k_ino s) (o_ino o) (IFifo (data ++ b))), RCount (nlen b))
      | None => (s, ROut)
      end
  end.

Definition k_lseek (s : kstate) (fd : N) (w : whence) (off : Z) : kstate * res :=
  match get_ofd s fd with
  | None => (s, RErr EBADF)
  | Some (id, o) =>
      match nth_error (k_ino s) (o_ino o) with
      | Some (IReg _ data) =>
          let base := match w with
                      | WSet => 0%Z
                      | WCur => Z.of_N (o_off o)
                      | WEnd => Z.of_N (nlen data)
                      end in
          let new := (base + off)%Z in
          if Z.ltb new 0 then (s, RErr EINVAL)
          else (set_off s id o (Z.to_N new), ROff (Z.to_N new))
      | Some (IFifo _) => (s, RErr ESPIPE)
      | Some (IDir _ _) => (s, ROut)           (* directory offsets are not compared *)
      | None => (s, ROut)
      end
  end.

(* ---- stat -------------------------------------------------------------------------------- *)

Definition stat_of (n : inode) : res :=
  match n with
  | IReg perm data => RStat KReg (nlen data) perm
  | IDir perm _ => RStat KDir 0 perm
  | IFifo _ => RStat KFifo 0 0
  end.

Definition k_fstat (s : kstate) (fd : N) : kstate * res :=
  match get_ofd s fd with
  | None => (s, RErr EBADF)
  | Some (_, o) =>
      match nth_error (k_ino s) (o_ino o) with
      | Some n => (s, stat_of n)
      | None => (s, ROut)
      end
  end.

Definition k_stat (s : kstate) (p : str) : kstate * res :=
  match resolve (k_unpriv s) (k_ino s) (p_cwd (k_cur s)) p with
  | WOk st => match nth_error (k_ino s) (top st) with
              | Some n => (s, stat_of n)
              | None => (s, ROut)
              end
  | WErr e => (s, RErr e)
  | WOut => (s, ROut)
  end.

(* ---- umask, working directory -------------------------------------------------------------- *)

Definition k_umask (s : kstate) (m : N) : kstate * res :=
  if N.ltb 511 m then (s, ROut) else
  (set_cur s (mkProc (fds s) (p_cwd (k_cur s)) m (p_sig (k_cur s)) (p_limit (k_cur s)) (p_id (k_cur s))), RMode (p_umask (k_cur s))).

Definition k_chdir (s : kstate) (p : str) : kstate * res :=
  match resolve (k_unpriv s) (k_ino s) (p_cwd (k_cur s)) p with
  | WOk st => if is_dir (k_ino s) (top st)
              then if k_unpriv s && negb (match nth_error (k_ino s) (top st) with
                                        | Some (IDir dperm _) => may_x dperm
                                        | _ => true
                                        end) then (s, RErr EACCES) else
                   (set_cur s (mkProc (fds s) st (p_umask (k_cur s)) (p_sig (k_cur s)) (p_limit (k_cur s)) (p_id (k_cur s))), RUnit)
              else (s, RErr ENOTDIR)
  | WErr e => (s, RErr e)
  | WOut => (s, ROut)
  end.

Definition k_getcwd (s : kstate) : kstate * res :=
  (s, RPath (rev (map fst (p_cwd (k_cur s))))).

(* ---- pipe ------------------------------------------------------------------------------------ *)

Definition k_pipe (s : kstate) : kstate * res :=
  let i := length (k_ino s) in
  let s0 := set_ino s (k_ino s ++ [IFifo []]) in
  if negb (can_alloc s 0) then (s, RErr EMFILE) else
  let '(s1, r) := install s0 (mkOfd i 0 true false false) false in
  (* no second descriptor: nothing stays allocated *)
  if negb (can_alloc s1 0) then (s, RErr EMFILE) else
  let '(s2, w) := install s1 (mkOfd i 0 false true false) false in
  (s2, RPipe r w).

(* ---- directory listing ------------------------------------------------------------------------ *)

Fixpoint str_leb (a b : str) : bool :=
  match a, b with
  | [], _ => true
  | _ :: _, [] => false
  | x :: a', y :: b' => if N.ltb x y then true else if N.ltb y x then false else str_leb a' b'
  end.

Fixpoint insert_sorted {A} (key : A -> str) (x : A) (l : list A) : list A :=
  match l with
  | [] => [x]
  | y :: l' => if str_leb (key x) (key y) then x :: l else y :: insert_sorted key x l'
  end.

Definition sort_by {A} (key : A -> str) (l : list A) : list A :=
  fold_right (insert_sorted key) [] l.

Definition k_readdir (s : kstate) (p : str) : kstate * res :=
  match resolve (k_unpriv s) (k_ino s) (p_cwd (k_cur s)) p with
  | WOk st => match nth_error (k_ino s) (top st) with
              | Some (IDir dperm ents) =>
                  (* the directory stream needs a descriptor while it is read *)
                  if negb (can_alloc s 0) then (s, RErr EMFILE)
                  else if k_unpriv s && negb (may_r dperm) then (s, RErr EACCES)
                  else (s, RNames (sort_by (fun x => x) (map fst ents)))
              | Some _ => if can_alloc s 0 then (s, RErr ENOTDIR) else (s, ROut)
              | None => (s, ROut)
              end
  (* (which error wins without a free descriptor is not specified) *)
  | WErr e => if can_alloc s 0 then (s, RErr e) else (s, ROut)
  | WOut => (s, ROut)
  end.

Definition k_setrlimit (s : kstate) (n : N) : kstate * res :=
  if N.eqb n 0 || N.ltb default_limit n then (s, ROut) else
  (set_cur s (mkProc (fds s) (p_cwd (k_cur s)) (p_umask (k_cur s)) (p_sig (k_cur s)) n (p_id (k_cur s))), RUnit).

(* ---- privileges, permission bits ------------------------------------------------------------------ *)

Definition k_droppriv (s : kstate) : kstate * res :=
  (mkK (k_ino s) (k_ofd s) (k_cur s) (k_susp s) (k_skip s) true, RUnit).

Definition k_chmod (s : kstate) (p : str) (mode : N) : kstate * res :=
  if N.ltb 511 mode then (s, ROut) else
  match resolve (k_unpriv s) (k_ino s) (p_cwd (k_cur s)) p with
  | WOk st =>
      match nth_error (k_ino s) (top st) with
      | Some (IReg _ data) => (set_ino s (set_nth (k_ino s) (top st) (IReg mode data)), RUnit)
      | Some (IDir _ ents) => (set_ino s (set_nth (k_ino s) (top st) (IDir mode ents)), RUnit)
      | _ => (s, ROut)
      end
  | WErr e => (s, RErr e)
  | WOut => (s, ROut)
  end.

(* ---- signals ------------------------------------------------------------------------------------- *)

Definition nsig : N := 7.        (* 5 = SIGTSTP: the default action stops the process;
                                    6 = SIGCHLD: the default action is to do nothing *)
Definition sigtstp : N := 5.
Definition sigchld : N := 6.

Fixpoint mem_n (x : N) (l : list N) : bool :=
  match l with [] => false | y :: l' => N.eqb x y || mem_n x l' end.

Fixpoint remove_n (x : N) (l : list N) : list N :=
  match l with [] => [] | y :: l' => if N.eqb x y then remove_n x l' else y :: remove_n x l' end.

(* insert into an ascending list without duplicates *)
Fixpoint insert_n (x : N) (l : list N) : list N :=
  match l with
  | [] => [x]
  | y :: l' => if N.ltb x y then x :: l else if N.eqb x y then l else y :: insert_n x l'
  end.

Definition norm_set (l : list N) : list N := fold_right insert_n [] l.

Fixpoint get_disp (l : list (N * disp)) (sig : N) : disp :=
  match l with
  | [] => DDefault
  | (k, d) :: l' => if N.eqb k sig then d else get_disp l' sig
  end.

Definition set_disp (l : list (N * disp)) (sig : N) (d : disp) : list (N * disp) :=
  (sig, d) :: filter (fun kd => negb (N.eqb (fst kd) sig)) l.

(* deliver one signal to the running process: None = the default action
   (termination) would be taken, which the sequences never do *)
Definition deliver (g : sigstate) (sig : N) : option sigstate :=
  match get_disp (g_disp g) sig with
  | DIgnore => Some g
  | DCatch => Some (mkSig (g_disp g) (g_mask g) (g_pend g) (insert_n sig (g_caught g)))
  | DDefault => if N.eqb sig sigchld then Some g else None
  end.

(* deliver the pending signals that are no longer blocked, lowest first *)
Fixpoint deliver_pending (g : sigstate) (cands : list N) : option sigstate :=
  match cands with
  | [] => Some g
  | sig :: cands' =>
      if mem_n sig (g_pend g) && negb (mem_n sig (g_mask g)) then
        match deliver (mkSig (g_disp g) (g_mask g) (remove_n sig (g_pend g)) (g_caught g)) sig with
        | Some g' => deliver_pending g' cands'
        | None => None
        end
      else deliver_pending g cands'
  end.

Definition all_sigs : list N := [0; 1; 2; 3; 4; 5; 6]%N.

Definition sigs_ok (l : list N) : bool := forallb (fun x => N.ltb x nsig) l.

Definition k_sigaction (s : kstate) (sig : N) (d : disp) : kstate * res :=
  if negb (N.ltb sig nsig) then (s, ROut) else
  (* (ignoring SIGCHLD changes what wait() does) *)
  if N.eqb sig sigchld && match d with DIgnore => true | _ => false end then (s, ROut) else
  let g := p_sig (k_cur s) in
  (* POSIX: setting the action to "ignore" discards a pending instance *)
  let pend := match d with DIgnore => remove_n sig (g_pend g) | _ => g_pend g end in
  (set_sig s (mkSig (set_disp (g_disp g) sig d) (g_mask g) pend (g_caught g)),
   RDisp (get_disp (g_disp g) sig)).

Definition k_getsigaction (s : kstate) (sig : N) : kstate * res :=
  if negb (N.ltb sig nsig) then (s, ROut) else
  (s, RDisp (get_disp (g_disp (p_sig (k_cur s))) sig)).

Definition k_raise (s : kstate) (sig : N) : kstate * res :=
  if negb (N.ltb sig nsig) then (s, ROut) else
  let g := p_sig (k_cur s) in
  if mem_n sig (g_mask g) then
    (* blocked: stays pending (once).  POSIX leaves open whether a blocked
       signal whose action is "ignore" is discarded or stays pending *)
    match get_disp (g_disp g) sig with
    | DIgnore => (s, ROut)
    | _ => (set_sig s (mkSig (g_disp g) (g_mask g) (insert_n sig (g_pend g)) (g_caught g)), RUnit)
    end
  else match deliver g sig with
       | Some g' => (set_sig s g', RUnit)
       | None => (s, ROut)
       end.

Definition k_caught (s : kstate) : kstate * res :=
  let g := p_sig (k_cur s) in
  (set_sig s (mkSig (g_disp g) (g_mask g) (g_pend g) []), RSigs (g_caught g)).

Definition k_sigmask (s : kstate) (how : N) (sigs : list N) : kstate * res :=
  if negb (sigs_ok sigs) || N.ltb 2 how then (s, ROut) else
  let g := p_sig (k_cur s) in
  let new :=
    if N.eqb how 0 then fold_right insert_n (g_mask g) sigs
    else if N.eqb how 1 then fold_right remove_n (g_mask g) sigs
    else norm_set sigs in
  match deliver_pending (mkSig (g_disp g) new (g_pend g) (g_caught g)) all_sigs with
  | Some g' => (set_sig s g', RSigs (g_mask g))
  | None =>
      (* a pending signal whose action is the default one becomes deliverable.
         Exactly one such signal and it terminates: a child dies inside this
         call (its parent will be told); everything else is outside the domain
         (the first process must survive; with several signals the order of
         the two systems' signal numbers would decide; a stop is not generated) *)
      match filter (fun sig => mem_n sig (g_pend g) && negb (mem_n sig new) &&
                               match get_disp (g_disp g) sig with DDefault => negb (N.eqb sig sigchld) | _ => false end)
                   all_sigs with
      | [sig] =>
          if N.eqb sig sigtstp then (s, ROut) else
          match k_susp s with
          | [] => (s, ROut)
          | _ => (mkK (k_ino s) (k_ofd s) (k_cur s) (k_susp s) (Some (sig, O)) (k_unpriv s), RSkip)
          end
      | _ => (s, ROut)
      end
  end.

(* ---- process groups, kill ---------------------------------------------------------------------------- *)

Definition k_setpgid0 (s : kstate) : kstate * res :=
  let p := k_cur s in
  (set_cur s (mkProc (p_fds p) (p_cwd p) (p_umask p) (p_sig p) (p_limit p) (fst (p_id p), fst (p_id p))),
   RUnit).

Inductive dres := DOk (g : sigstate) | DFatal | DStop | DUnspec.

(* the effect of generating [sig] for a process with signal state [g] *)
Definition generate (g : sigstate) (sig : N) : dres :=
  match get_disp (g_disp g) sig with
  | DIgnore => if mem_n sig (g_mask g) then DUnspec else DOk g
  | DCatch =>
      if mem_n sig (g_mask g)
      then DOk (mkSig (g_disp g) (g_mask g) (insert_n sig (g_pend g)) (g_caught g))
      else DOk (mkSig (g_disp g) (g_mask g) (g_pend g) (insert_n sig (g_caught g)))
  | DDefault =>
      if mem_n sig (g_mask g)
      then DOk (mkSig (g_disp g) (g_mask g) (insert_n sig (g_pend g)) (g_caught g))
      else if N.eqb sig sigchld then DOk g
      else if N.eqb sig sigtstp then DStop else DFatal
  end.

Definition with_sig (p : proc) (g : sigstate) : proc :=
  mkProc (p_fds p) (p_cwd p) (p_umask p) g (p_limit p) (p_id p).

(* ---- fork / exit (subshell schedule) ------------------------------------------------------------ *)

Definition k_fork (s : kstate) : kstate * res :=
  (* the child is a copy of the parent and shares its open file descriptions;
     it inherits dispositions, the mask, the limit and the process group, and
     has no pending signals.
     (Caught-but-uncollected signals are an implementation artefact on both
     sides: the sequences collect them before forking.) *)
  let p := k_cur s in
  let g := p_sig p in
  (mkK (k_ino s) (k_ofd s)
       (mkProc (p_fds p) (p_cwd p) (p_umask p) (mkSig (g_disp g) (g_mask g) [] []) (p_limit p)
               (N.of_nat (length (k_susp s)) + 2, snd (p_id p))%N)
       (p :: k_susp s) None (k_unpriv s),
   match g_caught g with [] => RUnit | _ => ROut end).

(* the parent of a child that terminates gets SIGCHLD *)
Definition notify (parent : proc) : proc :=
  match generate (p_sig parent) sigchld with
  | DOk g => with_sig parent g
  | _ => parent
  end.

Definition k_exit (s : kstate) : kstate * res :=
  match k_susp s with
  | [] => (s, ROut)
  | parent :: rest => (mkK (k_ino s) (k_ofd s) (notify parent) rest None (k_unpriv s), RChild CExited)
  end.

(* the waiting ancestors in group [pg] get the signal; it must not kill or stop
   any of them (they are the ones that collect the results) *)
Fixpoint signal_ancestors (l : list proc) (pg : N) (sig : N) : option (list proc) :=
  match l with
  | [] => Some []
  | p :: l' =>
      match signal_ancestors l' pg sig with
      | None => None
      | Some l'' =>
          if N.eqb (snd (p_id p)) pg then
            match generate (p_sig p) sig with
            | DOk g => Some (with_sig p g :: l'')
            | _ => None
            end
          else Some (p :: l'')
      end
  end.

(* the signal for the running process itself *)
Definition signal_self (s : kstate) (susp' : list proc) (sig : N) : kstate * res :=
  match generate (p_sig (k_cur s)) sig with
  | DOk g => (mkK (k_ino s) (k_ofd s) (with_sig (k_cur s) g) susp' None (k_unpriv s), RUnit)
  | DFatal =>
      (* a child dies: nothing more of it is executed; the first process of a
         sequence must survive *)
      match k_susp s with
      | [] => (s, ROut)
      | _ => (mkK (k_ino s) (k_ofd s) (k_cur s) susp' (Some (sig, O)) (k_unpriv s), RSkip)
      end
  | DStop =>
      (* a stopped child is continued by its waiting parent: no effect *)
      match k_susp s with
      | [] => (s, ROut)
      | _ => (mkK (k_ino s) (k_ofd s) (k_cur s) susp' None (k_unpriv s), RUnit)
      end
  | DUnspec => (s, ROut)
  end.

Definition k_kill (s : kstate) (t : ktarget) (sig : N) : kstate * res :=
  if negb (N.ltb sig nsig) then (s, ROut) else
  let me := k_cur s in
  match t with
  | TSelf => signal_self s (k_susp s) sig
  | TParent =>
      match k_susp s with
      | [] => (s, ROut)
      | p :: rest =>
          match generate (p_sig p) sig with
          | DOk g => (mkK (k_ino s) (k_ofd s) me (with_sig p g :: rest) None (k_unpriv s), RUnit)
          | _ => (s, ROut)
          end
      end
  | TGroup0 | TNegPgid =>
      match signal_ancestors (k_susp s) (snd (p_id me)) sig with
      | Some susp' => signal_self s susp' sig
      | None => (s, ROut)
      end
  | TNegPid =>
      (* only a group leader has a group named by its own ID; no other process
         of a sequence can be in that group *)
      if N.eqb (fst (p_id me)) (snd (p_id me)) then
        match signal_ancestors (k_susp s) (snd (p_id me)) sig with
        | Some susp' => signal_self s susp' sig
        | None => (s, ROut)
        end
      else (s, RErr ESRCH)
  end.

(* ---- one step, a run ------------------------------------------------------------------------------ *)

Definition step_live (s : kstate) (o : op) : kstate * res :=
  match o with
  | OOpen p a f mode => k_open s p a f mode
  | OClose fd => k_close s fd
  | ODup fd m cx => k_dup s fd m cx
  | ODup2 fd to => k_dup2 s fd to
  | ORead fd n => k_read s fd n
  | OWrite fd b => k_write s fd b
  | OLseek fd w off => k_lseek s fd w off
  | OFstat fd => k_fstat s fd
  | OStat p => k_stat s p
  | OUmask m => k_umask s m
  | OChdir p => k_chdir s p
  | OGetcwd => k_getcwd s
  | OPipe => k_pipe s
  | OReaddir p => k_readdir s p
  | OGetfd fd => k_getfd s fd
  | OSetfd fd cx => k_setfd s fd cx
  | OAccess fd => k_access s fd
  | OSetrlimit n => k_setrlimit s n
  | ODropPriv => k_droppriv s
  | OChmod p mode => k_chmod s p mode
  | OSetpgid0 => k_setpgid0 s
  | OKill t sig => k_kill s t sig
  | OSigaction sig d => k_sigaction s sig d
  | OGetSigaction sig => k_getsigaction s sig
  | ORaise sig => k_raise s sig
  | OCaught => k_caught s
  | OSigmask how sigs => k_sigmask s how sigs
  | OFork => k_fork s
  | OExit => k_exit s
  end.

(* a killed child executes nothing more; its exit reports the signal *)
Definition step (s : kstate) (o : op) : kstate * res :=
  match k_skip s with
  | None => step_live s o
  | Some (sig, d) =>
      match o with
      | OFork => (mkK (k_ino s) (k_ofd s) (k_cur s) (k_susp s) (Some (sig, S d)) (k_unpriv s), RSkip)
      | OExit =>
          match d with
          | O => match k_susp s with
                 | [] => (s, ROut)
                 | parent :: rest =>
                     (mkK (k_ino s) (k_ofd s) (notify parent) rest None (k_unpriv s), RChild (CSignaled sig))
                 end
          | S d' => (mkK (k_ino s) (k_ofd s) (k_cur s) (k_susp s) (Some (sig, d')) (k_unpriv s), RSkip)
          end
      | _ => (s, RSkip)
      end
  end.

Fixpoint run (s : kstate) (ops : list op) : kstate * list res :=
  match ops with
  | [] => (s, [])
  | o :: ops' =>
      let '(s1, r) := step s o in
      let '(s2, rs) := run s1 ops' in
      (s2, r :: rs)
  end.

(* ---- initial state and the final observation --------------------------------------------------------- *)

(* The initial tree is given as a list of (path components, content):
   [None] = directory, [Some bytes] = regular file; parents come first.
   Descriptors 0, 1, 2 are open read/write + append on three regular files that
   have no name inside the scratch root (like VirtualSystem::new). *)
Definition init_entry := (list str * option (list N))%type.

Fixpoint walk_names (ino : list inode) (i : nat) (names : list str) : option nat :=
  match names with
  | [] => Some i
  | n :: names' =>
      match nth_error ino i with
      | Some (IDir _ ents) => match lookup ents n with
                              | Some j => walk_names ino j names'
                              | None => None
                              end
      | _ => None
      end
  end.

Definition add_init (ino : list inode) (e : init_entry) : list inode :=
  let '(path, content) := e in
  match rev path with
  | [] => ino
  | name :: rparent =>
      match walk_names ino 0 (rev rparent) with
      | Some d =>
          let i := length ino in
          let node := match content with
                      | None => IDir 493 []          (* 0o755 *)
                      | Some b => IReg 420 b          (* 0o644 *)
                      end in
          add_entry (ino ++ [node]) d name i
      | None => ino
      end
  end.

Definition init_state (tree : list init_entry) (um : N) : kstate :=
  let ino0 := [IDir 493 []; IReg 420 []; IReg 420 []; IReg 420 []] in
  let ino := fold_left add_init tree ino0 in
  let std i := mkOfd i 0 true true true in
  mkK ino [std 1%nat; std 2%nat; std 3%nat]
      (mkProc [(0%N, mkEnt 0 false); (1%N, mkEnt 1 false); (2%N, mkEnt 2 false)] [] um
              (mkSig [] [] [] []) default_limit (1%N, 1%N)) [] None false.

(* final tree below the scratch root: (path, kind, permission bits, bytes),
   depth first, entries of a directory in byte order of their names *)
Definition tree_entry := (list str * kind * N * list N)%type.

Fixpoint snap (fuel : nat) (ino : list inode) (prefix : list str) (i : nat) : list tree_entry :=
  match fuel with
  | O => []
  | S f =>
      match nth_error ino i with
      | Some (IReg perm data) => [(prefix, KReg, perm, data)]
      | Some (IFifo _) => [(prefix, KFifo, 0%N, [])]
      | Some (IDir perm ents) =>
          (prefix, KDir, perm, []) ::
          flat_map (fun ne => snap f ino (prefix ++ [fst ne]) (snd ne)) (sort_by fst ents)
      | None => []
      end
  end.

Definition snapshot (s : kstate) : list tree_entry :=
  snap (S (length (k_ino s))) (k_ino s) [] 0.

(* contents of the three standard files (descriptors 0-2 of the initial process) *)
Definition std_files (s : kstate) : list (list N) :=
  map (fun i => match nth_error (k_ino s) i with Some (IReg _ d) => d | _ => [] end)
      [1%nat; 2%nat; 3%nat].
