(* C19 — property theorems only.  Each is closed by [exact] of a lemma from
   Proofs.v / ProofsWf.v / ProofsEx.v; the driver pins the statements with
   [Check] and prints the assumptions on every run. *)
From Yv Require Import Common.Base C19.Model C19.Spec C19.Wait C19.Run C19.Proofs C19.ProofsWf C19.ProofsEx C19.ProofsWait.

(* descriptor allocation: the least descriptor >= m that is not in the table *)
Theorem lowest_free_spec : forall t m, (m <= lowest_free t m)%N /\ fd_mem t (lowest_free t m) = false /\ (forall k, (m <= k < lowest_free t m)%N -> fd_mem t k = true).
Proof. exact lowest_free_spec_l. Qed.

(* dup returns the lowest free descriptor >= min and sets close-on-exec as asked *)
Theorem dup_lowest_free : forall s fd m cx s' fd', k_dup s fd m cx = (s', RFd fd') -> (m <= fd' < p_limit (k_cur s))%N /\ fd_mem (fds s) fd' = false /\ (forall k, (m <= k < fd')%N -> fd_mem (fds s) k = true) /\ k_getfd s' fd' = (s', RFlag cx).
Proof. exact dup_lowest_free_l. Qed.

(* a position set through the duplicate is the position seen through the original *)
Theorem dup_shares_offset : forall s fd m cx s1 fd' w off s2 n, k_dup s fd m cx = (s1, RFd fd') -> k_lseek s1 fd' w off = (s2, ROff n) -> exists s3, k_lseek s2 fd WCur 0 = (s3, ROff n).
Proof. exact dup_shares_offset_l. Qed.

(* dup2 onto another descriptor clears close-on-exec *)
Theorem dup2_clears_cloexec : forall s fd to s', k_dup2 s fd to = (s', RFd to) -> fd <> to -> k_getfd s' to = (s', RFlag false).
Proof. exact dup2_clears_cloexec_l. Qed.

(* a closed descriptor is not open *)
Theorem close_closes : forall s fd, k_getfd (fst (k_close s fd)) fd = (fst (k_close s fd), RErr EBADF).
Proof. exact close_closes_l. Qed.

(* the child has the parent's descriptor table, cwd and umask and shares all open file descriptions *)
Theorem fork_child_is_copy : forall s, g_caught (p_sig (k_cur s)) = [] -> let s1 := fst (k_fork s) in p_fds (k_cur s1) = p_fds (k_cur s) /\ p_cwd (k_cur s1) = p_cwd (k_cur s) /\ p_umask (k_cur s1) = p_umask (k_cur s) /\ g_disp (p_sig (k_cur s1)) = g_disp (p_sig (k_cur s)) /\ g_mask (p_sig (k_cur s1)) = g_mask (p_sig (k_cur s)) /\ g_pend (p_sig (k_cur s1)) = [] /\ k_susp s1 = k_cur s :: k_susp s /\ k_ofd s1 = k_ofd s /\ k_ino s1 = k_ino s /\ snd (k_fork s) = RUnit.
Proof. exact fork_child_is_copy_l. Qed.

(* a position set by the child is the position the parent sees after the child exits *)
Theorem fork_shares_offset : forall s s1 fd w off s2 n s3, k_fork s = (s1, RUnit) -> k_lseek s1 fd w off = (s2, ROff n) -> k_exit s2 = (s3, RChild CExited) -> exists s4, k_lseek s3 fd WCur 0 = (s4, ROff n).
Proof. exact fork_shares_offset_l. Qed.

(* whatever the child does, the parent's descriptor table, cwd and umask are unchanged *)
Theorem subshell_isolation : forall s ops, k_skip s = None -> nested 0 ops = true -> strip (k_cur (fst (run s (OFork :: ops ++ [OExit])))) = strip (k_cur s) /\ map strip (k_susp (fst (run s (OFork :: ops ++ [OExit])))) = map strip (k_susp s).
Proof. exact subshell_isolation_l. Qed.

(* a caught signal raised while not blocked is recorded at once *)
Theorem raise_caught : forall s sig, (sig < nsig)%N -> mem_n sig (g_mask (p_sig (k_cur s))) = false -> get_disp (g_disp (p_sig (k_cur s))) sig = DCatch -> snd (k_raise s sig) = RUnit /\ mem_n sig (g_caught (p_sig (k_cur (fst (k_raise s sig))))) = true /\ g_pend (p_sig (k_cur (fst (k_raise s sig)))) = g_pend (p_sig (k_cur s)).
Proof. exact raise_caught_l. Qed.

(* an ignored signal changes nothing *)
Theorem raise_ignored : forall s sig, (sig < nsig)%N -> mem_n sig (g_mask (p_sig (k_cur s))) = false -> get_disp (g_disp (p_sig (k_cur s))) sig = DIgnore -> snd (k_raise s sig) = RUnit /\ p_sig (k_cur (fst (k_raise s sig))) = p_sig (k_cur s).
Proof. exact raise_ignored_l. Qed.

(* a blocked signal stays pending and is not recorded *)
Theorem raise_blocked : forall s sig, (sig < nsig)%N -> mem_n sig (g_mask (p_sig (k_cur s))) = true -> get_disp (g_disp (p_sig (k_cur s))) sig = DCatch -> snd (k_raise s sig) = RUnit /\ mem_n sig (g_pend (p_sig (k_cur (fst (k_raise s sig))))) = true /\ g_caught (p_sig (k_cur (fst (k_raise s sig)))) = g_caught (p_sig (k_cur s)).
Proof. exact raise_blocked_l. Qed.

(* setting the action to ignore discards a pending instance *)
Theorem ignore_discards_pending : forall s sig, (sig < nsig)%N -> sig <> sigchld -> mem_n sig (g_pend (p_sig (k_cur (fst (k_sigaction s sig DIgnore))))) = false.
Proof. exact ignore_discards_pending_l. Qed.

(* O_APPEND: the bytes go to the end of the file whatever the offset was; the offset ends after them *)
Theorem append_writes_at_end : forall s fd id o perm data b, get_ofd s fd = Some (id, o) -> o_wr o = true -> o_app o = true -> nth_error (k_ino s) (o_ino o) = Some (IReg perm data) -> nonempty b = true -> snd (k_write s fd b) = RCount (nlen b) /\ nth_error (k_ino (fst (k_write s fd b))) (o_ino o) = Some (IReg perm (data ++ b)) /\ get_ofd (fst (k_write s fd b)) fd = Some (id, mkOfd (o_ino o) (nlen data + nlen b) (o_rd o) (o_wr o) (o_app o)).
Proof. exact append_writes_at_end_l. Qed.

(* what was written is read back from the position it was written at (also beyond the end) *)
Theorem write_read_roundtrip : forall s fd id o perm data b, get_ofd s fd = Some (id, o) -> o_rd o = true -> o_wr o = true -> nth_error (k_ino s) (o_ino o) = Some (IReg perm data) -> nonempty b = true -> let off := if o_app o then nlen data else o_off o in let s1 := fst (k_write s fd b) in let s2 := fst (k_lseek s1 fd WSet (Z.of_N off)) in snd (k_read s2 fd (nlen b)) = RBytes b.
Proof. exact write_read_roundtrip_l. Qed.

(* O_CREAT|O_EXCL on an existing name fails with EEXIST and changes nothing *)
Theorem excl_refuses_existing : forall s p a f mode k sz pm, can_alloc s 0 = true -> k_stat s p = (s, RStat k sz pm) -> flags_ok a f = true -> f_creat f = true -> f_excl f = true -> k_open s p a f mode = (s, RErr EEXIST).
Proof. exact excl_refuses_existing_l. Qed.

(* after a successful open with O_TRUNC the file is an empty regular file *)
Theorem trunc_empties : forall s p a f mode s' fd, k_open s p a f mode = (s', RFd fd) -> f_trunc f = true -> exists perm, k_fstat s' fd = (s', RStat KReg 0 perm).
Proof. exact trunc_empties_l. Qed.

(* a file created by open has the permission bits mode & ~umask *)
Theorem umask_masks_creation : forall s p a f mode s' fd, k_stat s p = (s, RErr ENOENT) -> k_open s p a f mode = (s', RFd fd) -> k_fstat s' fd = (s', RStat KReg 0 (mask mode (p_umask (k_cur s)))).
Proof. exact umask_masks_creation_l. Qed.

(* bit by bit: requested, not masked, one of the nine permission bits *)
Theorem mask_spec : forall mode um i, N.testbit (mask mode um) i = N.testbit mode i && negb (N.testbit um i) && (i <? 9)%N.
Proof. exact mask_spec_l. Qed.

(* the resolution function computes exactly the declarative resolution relation *)
Theorem walk_iff_resolves : forall u ino st cs st', walk u ino st cs = WOk st' <-> Resolves u ino st cs st'.
Proof. exact walk_iff_resolves_l. Qed.

(* removing `.` and cancelling `name/..` does not change where a resolvable path leads *)
Theorem path_normalisation : forall u ino st cs st', walk u ino st cs = WOk st' -> walk u ino st (norm [] cs) = WOk st'.
Proof. exact norm_sound_l. Qed.

(* the normal form has no `.` component *)
Theorem norm_no_dot : forall cs, Forall (fun a => is_dot a = false) (norm [] cs).
Proof. exact norm_no_dot_l. Qed.

(* the initial state is well formed *)
Theorem wf_init : forall tree um, wf (init_state tree um).
Proof. exact wf_init_l. Qed.

(* every call keeps the state well formed *)
Theorem step_preserves_wf : forall s o, wf s -> wf (fst (step s o)).
Proof. exact step_preserves_wf_l. Qed.

(* every reachable state is well formed *)
Theorem wf_reachable : forall tree um ops, wf (fst (run (init_state tree um) ops)).
Proof. exact wf_reachable_l. Qed.

(* an open descriptor always has its open file description and that its inode *)
Theorem wf_no_dangling : forall s fd e, wf s -> fd_get (fds s) fd = Some e -> exists o, get_ofd s fd = Some (e_ofd e, o) /\ exists n, nth_error (k_ino s) (o_ino o) = Some n.
Proof. exact wf_get_ofd_l. Qed.

(* if both systems behave like the model (inside the domain) the check reports 0: no false alarm *)
Theorem oracle_sound : forall tree um ops, let m := model_obs tree um ops in has_out (so_res m) = false -> run_case (CSys tree um ops m m) = 0%N.
Proof. exact oracle_sound_l. Qed.

(* equal script observations are accepted *)
Theorem script_oracle_reflexive : forall o, run_case (CScript o o) = 0%N.
Proof. exact script_oracle_refl. Qed.

(* equal observations of the three runs of a built-in-only script are accepted *)
Theorem script3_oracle_reflexive : forall o, run_case (CScript3 o o o) = 0%N.
Proof. exact script3_oracle_refl. Qed.

(* whatever the oracle accepts is a pair of equal observations *)
Theorem sys_oracle_complete : forall ops v r, sys_oracle ops v r = None -> sys_agree v r.
Proof. exact sys_oracle_complete_l. Qed.

(* the same for scripts *)
Theorem script_oracle_complete : forall v r, script_oracle v r = None -> script_agree v r.
Proof. exact script_oracle_complete_l. Qed.

(* ---- non-vacuity / witnesses ---- *)

Example ex_dup_nonvacuous : exists s1 s2, k_dup ex1 3 10 true = (s1, RFd 10%N) /\ k_lseek s1 10 WSet 2 = (s2, ROff 2).
Proof. exact ex_dup. Qed.

Example ex_fork_nonvacuous : exists s1 s2 s3, k_fork ex1 = (s1, RUnit) /\ k_lseek s1 3 WEnd (-1) = (s2, ROff 2) /\ k_exit s2 = (s3, RChild CExited).
Proof. exact ex_fork. Qed.

Example ex_excl_nonvacuous : exists k sz pm, can_alloc ex0 0 = true /\ k_stat ex0 p_f = (ex0, RStat k sz pm) /\ flags_ok AWr fl_creat_excl = true.
Proof. exact ex_excl. Qed.

Example ex_umask_nonvacuous : exists s' fd, k_stat ex0 p_new = (ex0, RErr ENOENT) /\ k_open ex0 p_new AWr fl_creat 438 = (s', RFd fd) /\ mask 438 (p_umask (k_cur ex0)) = 420%N.
Proof. exact ex_umask. Qed.

Example ex_norm_nonvacuous : exists st, walk false (k_ino ex0) [] (comps p_dots) = WOk st /\ norm [] (comps p_dots) = [[100]; [104]]%N /\ top st = 7.
Proof. exact ex_norm. Qed.

Example norm_needs_resolvable : walk false (k_ino ex0) [] [[102]; [46; 46]]%N = WErr ENOTDIR /\ walk false (k_ino ex0) [] (norm [] [[102]; [46; 46]]%N) = WOk [].
Proof. exact ex_norm_needs_hyp. Qed.

Example oracle_rejects_fd_leak : run_case (CSys ex_tree 18 [OOpen p_f ARd fl_none 0] (mkSysObs [RFd 4] (so_tree (model_obs ex_tree 18 [])) [[]; []; []]) (mkSysObs [RFd 3] (so_tree (model_obs ex_tree 18 [])) [[]; []; []])) = 2%N.
Proof. exact ex_oracle_rejects. Qed.

(* no descriptor below the limit: an open that would succeed fails with EMFILE and creates or truncates nothing *)
Theorem open_emfile_no_effect : forall s p a f mode s' fd, can_alloc s 0 = false -> k_open_inner s p a f mode = (s', RFd fd) -> k_open s p a f mode = (s, RErr EMFILE).
Proof. exact open_emfile_no_effect_l. Qed.

(* a pipe that cannot get both descriptors keeps none: the state is unchanged *)
Theorem pipe_emfile_no_leak : forall s e, snd (k_pipe s) = RErr e -> fst (k_pipe s) = s.
Proof. exact pipe_emfile_no_leak_l. Qed.

(* both descriptors of a pipe are below the limit *)
Theorem pipe_below_limit : forall s s' r w, k_pipe s = (s', RPipe r w) -> (r < p_limit (k_cur s))%N /\ (w < p_limit (k_cur s))%N.
Proof. exact pipe_below_limit_l. Qed.

(* dup with no free descriptor between min and the limit: EMFILE, nothing changes *)
Theorem dup_emfile : forall s fd m cx e, fd_get (fds s) fd = Some e -> (m <= fd_limit)%N -> (m < p_limit (k_cur s))%N -> can_alloc s m = false -> k_dup s fd m cx = (s, RErr EMFILE).
Proof. exact dup_emfile_l. Qed.

(* a fatal signal for the caller's own group kills the child that has the default action: nothing more of it runs, its waiting ancestors (which ignore the signal) are unchanged and the parent learns the signal at the child's exit *)
Theorem group_kill_child_dies : forall s parent rest sig, k_skip s = None -> k_susp s = parent :: rest -> (sig < nsig)%N -> sig <> sigtstp -> sig <> sigchld -> mem_n sig (g_mask (p_sig (k_cur s))) = false -> get_disp (g_disp (p_sig (k_cur s))) sig = DDefault -> signal_ancestors (k_susp s) (snd (p_id (k_cur s))) sig = Some (k_susp s) -> let s1 := fst (k_kill s TGroup0 sig) in snd (k_kill s TGroup0 sig) = RSkip /\ (forall o, o <> OFork -> o <> OExit -> step s1 o = (s1, RSkip)) /\ fst (step s1 OExit) = mkK (k_ino s) (k_ofd s) (notify parent) rest None (k_unpriv s) /\ snd (step s1 OExit) = RChild (CSignaled sig).
Proof. exact group_kill_child_dies_l. Qed.

(* a waiting process that ignores the signal is not changed by a signal for its group *)
Theorem signal_ancestors_ignored : forall p sig pg, get_disp (g_disp (p_sig p)) sig = DIgnore -> mem_n sig (g_mask (p_sig p)) = false -> signal_ancestors [p] pg sig = Some [p].
Proof. exact signal_ancestors_ignored_l. Qed.

(* kill(-getpid()) by a process that leads no group: ESRCH *)
Theorem kill_neg_pid_not_leader : forall s sig, (sig < nsig)%N -> fst (p_id (k_cur s)) <> snd (p_id (k_cur s)) -> k_kill s TNegPid sig = (s, RErr ESRCH).
Proof. exact kill_neg_pid_not_leader_l. Qed.

Example ex_pipe_emfile : k_pipe ex_lim = (ex_lim, RErr EMFILE) /\ snd (k_open ex_lim p_f ARd fl_none 0) = RFd 3 /\ can_alloc (fst (k_open ex_lim p_f ARd fl_none 0)) 0 = false.
Proof. exact ex_pipe_emfile. Qed.

Example ex_group_kill : snd (run ex0 [OSigaction 2 DIgnore; OFork; OSigaction 2 DDefault; OKill TGroup0 2; OGetcwd; OExit; OGetSigaction 2]) = [RDisp DDefault; RUnit; RDisp DIgnore; RSkip; RSkip; RChild (CSignaled 2); RDisp DIgnore].
Proof. exact ex_group_kill. Qed.

(* an unprivileged process cannot look anything up in a directory it may not search *)
Theorem walk_needs_search : forall ino st c cs perm ents, nth_error ino (top st) = Some (IDir perm ents) -> may_x perm = false -> walk true ino st (c :: cs) = WErr EACCES.
Proof. exact walk_needs_search_l. Qed.

(* a privileged process is never refused by pathname resolution *)
Theorem walk_privileged : forall ino cs st e, walk false ino st cs = WErr e -> e <> EACCES.
Proof. exact walk_privileged_l. Qed.

(* opening a file without the owner's read / write bit: EACCES, no effect *)
Theorem open_existing_denied : forall s i a f perm data, k_unpriv s = true -> f_creat f && f_excl f = false -> f_dir f = false -> nth_error (k_ino s) i = Some (IReg perm data) -> (readable a && negb (may_r perm)) || (writable a && negb (may_w perm)) = true -> open_existing s i a f = (s, RErr EACCES).
Proof. exact open_existing_denied_l. Qed.

(* with the needed bits the open succeeds, privileged or not *)
Theorem open_existing_allowed : forall s i a f perm data, f_creat f && f_excl f = false -> f_dir f = false -> nth_error (k_ino s) i = Some (IReg perm data) -> (readable a && negb (may_r perm)) || (writable a && negb (may_w perm)) = false -> exists s' fd, open_existing s i a f = (s', RFd fd).
Proof. exact open_existing_allowed_l. Qed.

(* the parent of a child that ends gets SIGCHLD (whatever process group the child is in) *)
Theorem exit_notifies_parent : forall s parent rest, k_susp s = parent :: rest -> get_disp (g_disp (p_sig parent)) sigchld = DCatch -> mem_n sigchld (g_mask (p_sig parent)) = false -> mem_n sigchld (g_caught (p_sig (k_cur (fst (k_exit s))))) = true /\ snd (k_exit s) = RChild CExited.
Proof. exact exit_notifies_parent_l. Qed.

(* a child that unblocks a pending fatal signal dies inside the call; its parent learns the signal at the exit and is told *)
Theorem death_at_unblock : forall s parent rest sig, k_skip s = None -> k_susp s = parent :: rest -> g_mask (p_sig (k_cur s)) = [sig] -> g_pend (p_sig (k_cur s)) = [sig] -> get_disp (g_disp (p_sig (k_cur s))) sig = DDefault -> (sig < 5)%N -> let s1 := fst (k_sigmask s 1 [sig]) in snd (k_sigmask s 1 [sig]) = RSkip /\ step s1 OExit = (mkK (k_ino s) (k_ofd s) (notify parent) rest None (k_unpriv s), RChild (CSignaled sig)).
Proof. exact death_at_unblock_l. Qed.

(* the SIGCHLD for the parent changes its signal state only *)
Theorem subshell_notify_only : forall p, strip (notify p) = strip p.
Proof. exact strip_notify. Qed.

(* several children alive together: what wait reports is a terminated, not yet reported child with exactly that status; it is reaped, nothing else changes *)
Theorem wait_reports_zombie : forall s t s' k w, wstep s (WWait t) = (s', WRGot k w) -> exists c, nth_error (w_ch s) k = Some c /\ c_st c = CZomb w /\ nth_error (w_ch s') k = Some (with_st c CReaped) /\ w_k s' = w_k s /\ forall j, j <> k -> nth_error (w_ch s') j = nth_error (w_ch s) j.
Proof. exact wait_reports_zombie_l. Qed.

(* wait(-1) reports a terminated child iff one exists *)
Theorem wait_any_iff : forall s, (exists k w, snd (wstep s (WWait None)) = WRGot k w) <-> (exists c, In c (w_ch s) /\ zomb_of c <> None).
Proof. exact wait_any_iff_l. Qed.

(* ... the oldest one (Linux; POSIX leaves the choice open) *)
Theorem wait_oldest_first : forall s s' k w, wstep s (WWait None) = (s', WRGot k w) -> forall j c, j < k -> nth_error (w_ch s) j = Some c -> zomb_of c = None.
Proof. exact wait_oldest_first_l. Qed.

(* wait(-1) fails with ECHILD iff every child has been reaped (or there is none) *)
Theorem wait_any_echild_iff : forall s, snd (wstep s (WWait None)) = WRNoChild <-> (forall c, In c (w_ch s) -> is_reaped c = true).
Proof. exact wait_any_echild_iff_l. Qed.

(* a child that wait has reported is never reported a second time, whatever the parent and the children do in between and afterwards *)
Theorem never_reported_twice : forall s ops1 ops2 k w w', In (WRGot k w) (snd (wrun s ops1)) -> ~ In (WRGot k w') (snd (wrun (fst (wrun s ops1)) ops2)).
Proof. exact never_reported_twice_l. Qed.

(* in every run from every state each child is reported at most once *)
Theorem at_most_one_report : forall ops s k, count_got k (snd (wrun s ops)) <= 1.
Proof. exact at_most_one_report_l. Qed.

(* a call in which child k dies (exit, fatal signal, death inside sigprocmask): SIGCHLD goes to the parent, the child is a zombie, its siblings are untouched - whatever process group the child is in *)
Theorem child_death_notifies_parent : forall s k c cmd, nth_error (w_ch s) k = Some c -> is_run c = true -> snd (wstep s (WCmd k cmd)) = WR RSkip -> w_k (fst (wstep s (WCmd k cmd))) = notify_parent (w_k s) /\ (exists c', nth_error (w_ch (fst (wstep s (WCmd k cmd)))) k = Some c' /\ zomb_of c' <> None) /\ (forall j, j <> k -> nth_error (w_ch (fst (wstep s (WCmd k cmd)))) j = nth_error (w_ch s) j).
Proof. exact child_death_notifies_parent_l. Qed.

(* a parent that catches SIGCHLD and does not block it has caught it after the notification *)
Theorem notify_parent_caught : forall k, get_disp (g_disp (p_sig (k_cur k))) sigchld = DCatch -> mem_n sigchld (g_mask (p_sig (k_cur k))) = false -> mem_n sigchld (g_caught (p_sig (k_cur (notify_parent k)))) = true.
Proof. exact notify_parent_caught_l. Qed.

(* a child in a process group of its own dies inside its sigprocmask call while siblings live: the parent has caught SIGCHLD and wait(-1) reports this child and the signal *)
Theorem unblock_death_own_group : forall s k c sig, nth_error (w_ch s) k = Some c -> c_st c = CRun -> c_own c = true -> c_mask c = [sig] -> c_pend c = [sig] -> (sig < 5)%N -> (forall j cj, j < k -> nth_error (w_ch s) j = Some cj -> zomb_of cj = None) -> get_disp (g_disp (p_sig (k_cur (w_k s)))) sigchld = DCatch -> mem_n sigchld (g_mask (p_sig (k_cur (w_k s)))) = false -> let s1 := fst (wstep s (WCmd k (CMask 1 [sig]))) in snd (wstep s (WCmd k (CMask 1 [sig]))) = WR RSkip /\ mem_n sigchld (g_caught (p_sig (k_cur (w_k s1)))) = true /\ snd (wstep s1 (WWait None)) = WRGot k (WSignaled sig).
Proof. exact unblock_death_own_group_l. Qed.

(* Model.v: a child that dies inside its sigprocmask call - whatever its process group, also when its parent is a waiting child that leads no group - has SIGCHLD sent to its parent, which catches it; the processes above the parent are untouched *)
Theorem unblock_death_sigchld_to_parent_only : forall s parent rest sig, k_skip s = None -> k_susp s = parent :: rest -> g_mask (p_sig (k_cur s)) = [sig] -> g_pend (p_sig (k_cur s)) = [sig] -> get_disp (g_disp (p_sig (k_cur s))) sig = DDefault -> (sig < 5)%N -> get_disp (g_disp (p_sig parent)) sigchld = DCatch -> mem_n sigchld (g_mask (p_sig parent)) = false -> let s2 := fst (step (fst (k_sigmask s 1 [sig])) OExit) in mem_n sigchld (g_caught (p_sig (k_cur s2))) = true /\ k_susp s2 = rest /\ strip (k_cur s2) = strip parent.
Proof. exact unblock_death_sigchld_to_parent_only_l. Qed.

(* whatever the oracle of the wait stream accepts is a pair of equal result lists *)
Theorem wait_oracle_complete : forall v r, wait_oracle v r = None -> wait_agree v r.
Proof. exact wait_oracle_complete_l. Qed.

(* if both systems behave like the model (inside the domain) the check reports 0 *)
Theorem wait_oracle_sound : forall ops, whas_out (wmodel_obs ops) = false -> run_case (CWait ops (wmodel_obs ops) (wmodel_obs ops)) = 0%N.
Proof. exact wait_oracle_sound_l. Qed.

(* non-vacuity: two children alive together, the younger (own group) dies inside sigprocmask, the older exits later *)
Example ex_wait_two_children : wmodel_obs ex_wait_ops = [WR (RDisp DDefault); WR (RSigs []); WR RUnit; WR RUnit; WRNone; WR RUnit; WR RUnit; WR (RSigs []); WRNone; WR RSkip; WR (RSigs [6%N]); WRNone; WRGot 1 (WSignaled 2); WRNone; WR RSkip; WR (RSigs [6%N]); WRNoChild; WRGot 0 (WExited 7); WRNoChild].
Proof. exact ex_wait_run. Qed.

Print Assumptions lowest_free_spec.
Print Assumptions dup_lowest_free.
Print Assumptions dup_shares_offset.
Print Assumptions dup2_clears_cloexec.
Print Assumptions close_closes.
Print Assumptions fork_child_is_copy.
Print Assumptions fork_shares_offset.
Print Assumptions subshell_isolation.
Print Assumptions raise_caught.
Print Assumptions raise_ignored.
Print Assumptions raise_blocked.
Print Assumptions ignore_discards_pending.
Print Assumptions append_writes_at_end.
Print Assumptions write_read_roundtrip.
Print Assumptions excl_refuses_existing.
Print Assumptions trunc_empties.
Print Assumptions umask_masks_creation.
Print Assumptions mask_spec.
Print Assumptions walk_iff_resolves.
Print Assumptions path_normalisation.
Print Assumptions norm_no_dot.
Print Assumptions wf_init.
Print Assumptions step_preserves_wf.
Print Assumptions wf_reachable.
Print Assumptions wf_no_dangling.
Print Assumptions oracle_sound.
Print Assumptions script_oracle_reflexive.
Print Assumptions script3_oracle_reflexive.
Print Assumptions sys_oracle_complete.
Print Assumptions script_oracle_complete.
Print Assumptions ex_dup_nonvacuous.
Print Assumptions ex_fork_nonvacuous.
Print Assumptions ex_excl_nonvacuous.
Print Assumptions ex_umask_nonvacuous.
Print Assumptions ex_norm_nonvacuous.
Print Assumptions norm_needs_resolvable.
Print Assumptions oracle_rejects_fd_leak.
Print Assumptions open_emfile_no_effect.
Print Assumptions pipe_emfile_no_leak.
Print Assumptions pipe_below_limit.
Print Assumptions dup_emfile.
Print Assumptions group_kill_child_dies.
Print Assumptions signal_ancestors_ignored.
Print Assumptions kill_neg_pid_not_leader.
Print Assumptions ex_pipe_emfile.
Print Assumptions ex_group_kill.
Print Assumptions walk_needs_search.
Print Assumptions walk_privileged.
Print Assumptions open_existing_denied.
Print Assumptions open_existing_allowed.
Print Assumptions exit_notifies_parent.
Print Assumptions death_at_unblock.
Print Assumptions subshell_notify_only.
Print Assumptions wait_reports_zombie.
Print Assumptions wait_any_iff.
Print Assumptions wait_oldest_first.
Print Assumptions wait_any_echild_iff.
Print Assumptions never_reported_twice.
Print Assumptions at_most_one_report.
Print Assumptions child_death_notifies_parent.
Print Assumptions notify_parent_caught.
Print Assumptions unblock_death_own_group.
Print Assumptions unblock_death_sigchld_to_parent_only.
Print Assumptions wait_oracle_complete.
Print Assumptions wait_oracle_sound.
Print Assumptions ex_wait_two_children.
