(* C19 — proofs of the kernel laws (the facts that make Model.v a
   specification): descriptor allocation, path resolution, open flags,
   sharing of open file descriptions by dup and fork, append, umask,
   write/read round trip, well-formedness, soundness of the run-time check. *)
From Yv Require Import Common.Base C19.Model C19.Spec C19.Run.
From Coq Require Import ZifyBool ZifyN.

(* ---- lists -------------------------------------------------------------------- *)

Lemma length_set_nth {A} (l : list A) i x : length (set_nth l i x) = length l.
Proof. revert i; induction l as [|y l IH]; intros [|i]; cbn; auto. Qed.

Lemma nth_set_nth_eq {A} (l : list A) i x :
  i < length l -> nth_error (set_nth l i x) i = Some x.
Proof.
  revert i; induction l as [|y l IH]; intros [|i] H; cbn in *; try lia; auto.
  apply IH; lia.
Qed.

Lemma nth_set_nth_neq {A} (l : list A) i j x :
  i <> j -> nth_error (set_nth l i x) j = nth_error l j.
Proof.
  revert i j; induction l as [|y l IH]; intros [|i] [|j] H; cbn; auto; try congruence.
Qed.

Lemma nth_error_lt {A} (l : list A) i x : nth_error l i = Some x -> i < length l.
Proof. intros H. apply nth_error_Some. congruence. Qed.

Lemma nth_app_new {A} (l : list A) x : nth_error (l ++ [x]) (length l) = Some x.
Proof. rewrite nth_error_app2 by lia. rewrite Nat.sub_diag. reflexivity. Qed.

Lemma nth_app_old {A} (l : list A) x i : i < length l -> nth_error (l ++ [x]) i = nth_error l i.
Proof. intros; apply nth_error_app1; auto. Qed.

(* ---- descriptor tables ----------------------------------------------------------- *)

Lemma fd_get_del_eq t k : fd_get (fd_del t k) k = None.
Proof.
  induction t as [|[k' e] t IH]; cbn; auto.
  destruct (N.eqb k' k) eqn:E; auto. cbn. rewrite E. auto.
Qed.

Lemma fd_get_del_neq t k k' : k <> k' -> fd_get (fd_del t k) k' = fd_get t k'.
Proof.
  intros H. induction t as [|[k0 e] t IH]; cbn; auto.
  destruct (N.eqb k0 k) eqn:E.
  - apply N.eqb_eq in E. subst. destruct (N.eqb k k') eqn:E'; auto.
    apply N.eqb_eq in E'. congruence.
  - cbn. rewrite IH. reflexivity.
Qed.

Lemma fd_get_put_eq t k e : fd_get (fd_put t k e) k = Some e.
Proof. unfold fd_put; cbn. rewrite N.eqb_refl. reflexivity. Qed.

Lemma fd_get_put_neq t k e k' : k <> k' -> fd_get (fd_put t k e) k' = fd_get t k'.
Proof.
  intros H. unfold fd_put; cbn.
  destruct (N.eqb k k') eqn:E. { apply N.eqb_eq in E. congruence. }
  apply fd_get_del_neq; auto.
Qed.

Lemma fd_del_length t k : length (fd_del t k) <= length t.
Proof. induction t as [|[k' e] t IH]; cbn; auto. destruct (N.eqb k' k); cbn; lia. Qed.

Lemma fd_del_length_mem t k : fd_mem t k = true -> length (fd_del t k) < length t.
Proof.
  unfold fd_mem. induction t as [|[k' e] t IH]; cbn; try discriminate.
  destruct (N.eqb k' k) eqn:E; intros H.
  - pose proof (fd_del_length t k). lia.
  - cbn. apply IH in H. lia.
Qed.

Lemma fd_mem_del_neq t k k' : k <> k' -> fd_mem (fd_del t k) k' = fd_mem t k'.
Proof. intros H. unfold fd_mem. rewrite fd_get_del_neq; auto. Qed.

(* pigeonhole: [f] consecutive descriptors that are all in the table need a
   table of at least [f] entries *)
Lemma consecutive_members t : forall f m,
  (forall k, (m <= k < m + N.of_nat f)%N -> fd_mem t k = true) -> f <= length t.
Proof.
  remember (length t) as n eqn:Hn. revert t Hn.
  induction n as [n IH] using lt_wf_ind. intros t Hn [|f] m H; [lia|].
  assert (Hm : fd_mem t m = true) by (apply H; lia).
  pose proof (fd_del_length_mem t m Hm) as Hl.
  assert (f <= length (fd_del t m)).
  { eapply (IH (length (fd_del t m))); [lia | reflexivity |].
    intros k Hk. instantiate (1 := (m + 1)%N) in Hk.
    rewrite fd_mem_del_neq by lia. apply H. lia. }
  lia.
Qed.

Lemma free_from_ge t f m : (m <= free_from t f m)%N.
Proof.
  revert m; induction f as [|f IH]; intros m; cbn; [lia|].
  destruct (fd_mem t m); [|lia]. specialize (IH (m + 1)%N). lia.
Qed.

Lemma free_from_le t f m : (free_from t f m <= m + N.of_nat f)%N.
Proof.
  revert m; induction f as [|f IH]; intros m; cbn; [lia|].
  destruct (fd_mem t m); [|lia]. specialize (IH (m + 1)%N). lia.
Qed.

Lemma free_from_below t f m k :
  (m <= k < free_from t f m)%N -> fd_mem t k = true.
Proof.
  revert m; induction f as [|f IH]; intros m; cbn; [lia|].
  destruct (fd_mem t m) eqn:E; [|lia].
  intros H. destruct (N.eq_dec k m) as [->|Hne]; auto. apply (IH (m + 1)%N). lia.
Qed.

Lemma free_from_stop t f m :
  fd_mem t (free_from t f m) = true -> free_from t f m = (m + N.of_nat f)%N.
Proof.
  revert m; induction f as [|f IH]; intros m; cbn; [intros; lia|].
  destruct (fd_mem t m) eqn:E; [|congruence].
  intros H. apply IH in H. lia.
Qed.

Lemma lowest_free_spec_l t m :
  (m <= lowest_free t m)%N /\
  fd_mem t (lowest_free t m) = false /\
  (forall k, (m <= k < lowest_free t m)%N -> fd_mem t k = true).
Proof.
  unfold lowest_free. split; [apply free_from_ge|]. split; [|apply free_from_below].
  destruct (fd_mem t (free_from t (length t) m)) eqn:E; auto. exfalso.
  pose proof (free_from_stop _ _ _ E) as Hs.
  assert (S (length t) <= length t); [|lia].
  apply (consecutive_members t (S (length t)) m). intros k Hk.
  destruct (N.eq_dec k (free_from t (length t) m)) as [->|Hne]; auto.
  apply (free_from_below t (length t) m). lia.
Qed.

(* ---- pathname resolution ------------------------------------------------------------ *)

Lemma walk_app u ino st a b :
  walk u ino st (a ++ b) =
  match walk u ino st a with WOk st' => walk u ino st' b | r => r end.
Proof.
  revert st; induction a as [|c a IH]; intros st; cbn; auto.
  destruct (nth_error ino (top st)) as [[| perm ents |]|]; auto.
  destruct (u && negb (may_x perm)); auto.
  destruct (is_dot c); auto.
  destruct (is_dotdot c). { destruct st; auto. }
  destruct (lookup ents c); auto.
Qed.

(* the function computes exactly the declarative relation *)
Lemma walk_resolves u ino : forall cs st st', walk u ino st cs = WOk st' -> Resolves u ino st cs st'.
Proof.
  induction cs as [|c cs IH]; intros st st' H; cbn in H.
  - inversion H; constructor.
  - destruct (nth_error ino (top st)) as [[| perm ents |]|] eqn:En; try discriminate.
    destruct (u && negb (may_x perm)) eqn:Ex; try discriminate.
    destruct (is_dot c) eqn:Ed. { eapply RsDot; eauto. }
    destruct (is_dotdot c) eqn:Edd.
    + destruct st as [|e st]; try discriminate. eapply RsUp; eauto.
    + destruct (lookup ents c) eqn:El; try discriminate. eapply RsName; eauto.
Qed.

Lemma resolves_walk u ino : forall st cs st', Resolves u ino st cs st' -> walk u ino st cs = WOk st'.
Proof.
  induction 1 as [st | st c cs st' perm ents En Ex Ed _ IH | e st c cs st' perm ents En Ex Ed Edd _ IH
                 | st c cs st' perm ents i En Ex Ed Edd El _ IH]; cbn [walk]; auto.
  - rewrite En, Ex, Ed. exact IH.
  - rewrite En, Ex, Ed, Edd. exact IH.
  - rewrite En, Ex, Ed, Edd, El. exact IH.
Qed.

Lemma walk_iff_resolves_l u ino st cs st' : walk u ino st cs = WOk st' <-> Resolves u ino st cs st'.
Proof. split; [apply walk_resolves | apply resolves_walk]. Qed.

(* one name at the end of a successful walk *)
Lemma walk_snoc_name u ino st0 acc a st :
  is_dot a = false -> is_dotdot a = false ->
  walk u ino st0 (acc ++ [a]) = WOk st ->
  exists i st1, st = (a, i) :: st1 /\ walk u ino st0 acc = WOk st1.
Proof.
  intros Hd Hdd. rewrite walk_app. destruct (walk u ino st0 acc) as [st1| |]; try discriminate.
  cbn. destruct (nth_error ino (top st1)) as [[| perm ents |]|]; try discriminate.
  destruct (u && negb (may_x perm)); try discriminate.
  rewrite Hd, Hdd. destruct (lookup ents a) as [i|]; try discriminate.
  intros H; inversion H; eauto.
Qed.

Lemma is_dot_not_dotdot c : is_dot c = true -> is_dotdot c = false.
Proof.
  unfold is_dot, is_dotdot. intros H. apply str_eqb_eq in H. subst. reflexivity.
Qed.

(* Lexical normalisation does not change where a path leads, PROVIDED the
   original path resolves (every `x/..` really passes through a directory x). *)
Lemma norm_walk u ino st0 : forall cs acc st st',
  Forall (fun a => is_dot a = false) acc ->
  walk u ino st0 (rev acc) = WOk st ->
  walk u ino st cs = WOk st' ->
  walk u ino st0 (norm acc cs) = WOk st'.
Proof.
  induction cs as [|c cs IH]; intros acc st st' Hnd Hacc Hcs; cbn in *.
  - inversion Hcs; subst; auto.
  - destruct (nth_error ino (top st)) as [[| perm ents |]|] eqn:En; try discriminate.
    destruct (u && negb (may_x perm)) eqn:Ex; try discriminate.
    destruct (is_dot c) eqn:Ed. { eapply IH; eauto. }
    destruct (is_dotdot c) eqn:Edd.
    + destruct st as [|e st1]; try discriminate.
      destruct acc as [|a acc'].
      * cbn in Hacc. inversion Hacc; subst st0.
        eapply IH; [constructor; auto | | exact Hcs]. cbn [rev app walk].
        cbn [top] in En. cbn [top]. rewrite En, Ex, Ed, Edd. reflexivity.
      * inversion Hnd as [|? ? Hda Hnd']; subst.
        destruct (is_dotdot a) eqn:Ea.
        -- eapply IH; [constructor; auto | | exact Hcs].
           change (rev (c :: a :: acc')) with (rev (a :: acc') ++ [c]).
           rewrite walk_app, Hacc. cbn [walk top]. cbn [top] in En.
           rewrite En, Ex, Ed, Edd. reflexivity.
        -- cbn [rev] in Hacc.
           destruct (walk_snoc_name _ _ _ _ _ _ Hda Ea Hacc) as (i & st2 & Heq & H2).
           inversion Heq; subst. eapply IH; eauto.
    + destruct (lookup ents c) as [i|] eqn:El; try discriminate.
      eapply IH; [constructor; auto | | exact Hcs].
      change (rev (c :: acc)) with (rev acc ++ [c]).
      rewrite walk_app, Hacc. cbn [walk]. rewrite En, Ex, Ed, Edd, El. reflexivity.
Qed.

Lemma norm_sound_l u ino st cs st' :
  walk u ino st cs = WOk st' -> walk u ino st (norm [] cs) = WOk st'.
Proof. intros H. eapply (norm_walk u ino st cs [] st st'); auto. Qed.

(* the normal form contains no `.` component *)
Lemma norm_no_dot_aux : forall cs acc,
  Forall (fun a => is_dot a = false) acc ->
  Forall (fun a => is_dot a = false) (norm acc cs).
Proof.
  induction cs as [|c cs IH]; intros acc H; cbn.
  - apply Forall_rev. exact H.
  - destruct (is_dot c) eqn:Ed; auto.
    destruct (is_dotdot c).
    + destruct acc as [|a acc']; [apply IH; constructor; auto|].
      inversion H; subst. destruct (is_dotdot a); apply IH; auto.
    + apply IH. constructor; auto.
Qed.

Lemma norm_no_dot_l cs : Forall (fun a => is_dot a = false) (norm [] cs).
Proof. apply norm_no_dot_aux. constructor. Qed.

(* ---- descriptors and open file descriptions ---------------------------------------------- *)

Lemma get_ofd_inv s fd id o :
  get_ofd s fd = Some (id, o) ->
  exists e, fd_get (fds s) fd = Some e /\ e_ofd e = id /\ nth_error (k_ofd s) id = Some o.
Proof.
  unfold get_ofd. destruct (fd_get (fds s) fd) as [e|]; try discriminate.
  destruct (nth_error (k_ofd s) (e_ofd e)) as [o'|] eqn:E; try discriminate.
  intros H; inversion H; subst. eauto.
Qed.

Lemma get_ofd_intro s fd e o :
  fd_get (fds s) fd = Some e -> nth_error (k_ofd s) (e_ofd e) = Some o ->
  get_ofd s fd = Some (e_ofd e, o).
Proof. unfold get_ofd. intros -> ->. reflexivity. Qed.

Definition with_off (o : ofd) (n : N) : ofd := mkOfd (o_ino o) n (o_rd o) (o_wr o) (o_app o).

Lemma set_off_fds s id o n : fds (set_off s id o n) = fds s.
Proof. reflexivity. Qed.
Lemma set_off_ino s id o n : k_ino (set_off s id o n) = k_ino s.
Proof. reflexivity. Qed.
Lemma set_off_ofd s id o n : k_ofd (set_off s id o n) = set_nth (k_ofd s) id (with_off o n).
Proof. reflexivity. Qed.

(* after an lseek through one descriptor, the position is seen through every
   descriptor (of the running process) that refers to the same OFD *)
Lemma lseek_then_tell s fd1 fd2 id o1 o2 w off s2 n :
  get_ofd s fd1 = Some (id, o1) -> get_ofd s fd2 = Some (id, o2) ->
  k_lseek s fd1 w off = (s2, ROff n) ->
  exists s3, k_lseek s2 fd2 WCur 0 = (s3, ROff n).
Proof.
  intros H1 H2 Hl.
  destruct (get_ofd_inv _ _ _ _ H1) as (e1 & G1 & I1 & N1).
  destruct (get_ofd_inv _ _ _ _ H2) as (e2 & G2 & I2 & N2).
  assert (o2 = o1) by congruence. subst o2.
  unfold k_lseek in Hl. rewrite H1 in Hl.
  destruct (nth_error (k_ino s) (o_ino o1)) as [[perm data| |]|] eqn:Ei; try discriminate.
  match type of Hl with (if ?c then _ else _) = _ => destruct c eqn:Ec end; try discriminate.
  inversion Hl; subst s2 n. clear Hl.
  set (n := Z.to_N _).
  assert (Hg : get_ofd (set_off s id o1 n) fd2 = Some (id, with_off o1 n)).
  { unfold get_ofd. rewrite set_off_fds, G2, I2, set_off_ofd.
    rewrite nth_set_nth_eq by (eapply nth_error_lt; eauto). reflexivity. }
  unfold k_lseek. rewrite Hg, set_off_ino. cbn [with_off o_ino o_off]. rewrite Ei.
  assert (Hz : (Z.of_N n + 0 <? 0)%Z = false) by lia. rewrite Hz.
  eexists. f_equal. f_equal. lia.
Qed.

Lemma dup_shares_offset_l s fd m cx s1 fd' w off s2 n :
  k_dup s fd m cx = (s1, RFd fd') ->
  k_lseek s1 fd' w off = (s2, ROff n) ->
  exists s3, k_lseek s2 fd WCur 0 = (s3, ROff n).
Proof.
  unfold k_dup. destruct (N.ltb fd_limit m); try discriminate.
  destruct (fd_get (fds s) fd) as [e|] eqn:G; try discriminate.
  destruct (N.leb (p_limit (k_cur s)) m); try discriminate.
  destruct (negb (can_alloc s m)); try discriminate.
  intros H; inversion H; subst s1 fd'; clear H. intros Hl.
  set (t' := fd_put (fds s) (lowest_free (fds s) m) (mkEnt (e_ofd e) cx)) in *.
  assert (Hnew : fd_get t' (lowest_free (fds s) m) = Some (mkEnt (e_ofd e) cx))
    by apply fd_get_put_eq.
  assert (Hold : exists e', fd_get t' fd = Some e' /\ e_ofd e' = e_ofd e).
  { destruct (N.eq_dec (lowest_free (fds s) m) fd) as [Heq|Hne].
    - rewrite <- Heq. eauto.
    - unfold t'. rewrite fd_get_put_neq by auto. eauto. }
  destruct Hold as (e' & Hold & He').
  (* the lseek succeeded, so the OFD exists *)
  assert (Ho : exists o, nth_error (k_ofd s) (e_ofd e) = Some o).
  { unfold k_lseek, get_ofd in Hl. cbn [fds set_fds set_cur k_cur p_fds k_ofd] in Hl.
    fold t' in Hl. rewrite Hnew in Hl. cbn [e_ofd] in Hl.
    destruct (nth_error (k_ofd s) (e_ofd e)); eauto; discriminate. }
  destruct Ho as (o & Ho).
  eapply (lseek_then_tell (set_fds s t') (lowest_free (fds s) m) fd (e_ofd e) o o); eauto.
  - unfold get_ofd. cbn [fds set_fds set_cur k_cur p_fds k_ofd]. fold t'. rewrite Hnew. cbn [e_ofd].
    rewrite Ho. reflexivity.
  - unfold get_ofd. cbn [fds set_fds set_cur k_cur p_fds k_ofd]. fold t'. rewrite Hold, He', Ho.
    reflexivity.
Qed.

(* ---- fork / exit ----------------------------------------------------------------------------- *)

(* [g_caught] empty: the sequences collect caught signals before forking *)
Lemma fork_child_is_copy_l s :
  g_caught (p_sig (k_cur s)) = [] ->
  let s1 := fst (k_fork s) in
  p_fds (k_cur s1) = p_fds (k_cur s) /\ p_cwd (k_cur s1) = p_cwd (k_cur s) /\
  p_umask (k_cur s1) = p_umask (k_cur s) /\
  g_disp (p_sig (k_cur s1)) = g_disp (p_sig (k_cur s)) /\
  g_mask (p_sig (k_cur s1)) = g_mask (p_sig (k_cur s)) /\
  g_pend (p_sig (k_cur s1)) = [] /\
  k_susp s1 = k_cur s :: k_susp s /\
  k_ofd s1 = k_ofd s /\ k_ino s1 = k_ino s /\ snd (k_fork s) = RUnit.
Proof. intros H. unfold k_fork. rewrite H. cbn. repeat split; reflexivity. Qed.

(* the SIGCHLD for the parent touches its signal state only *)
Lemma notify_rest p :
  p_fds (notify p) = p_fds p /\ p_cwd (notify p) = p_cwd p /\ p_umask (notify p) = p_umask p /\
  p_limit (notify p) = p_limit p /\ p_id (notify p) = p_id p.
Proof. unfold notify. destruct (generate _ _); cbn; auto. Qed.

Lemma fork_shares_offset_l s s1 fd w off s2 n s3 :
  k_fork s = (s1, RUnit) ->
  k_lseek s1 fd w off = (s2, ROff n) ->
  k_exit s2 = (s3, RChild CExited) ->
  exists s4, k_lseek s3 fd WCur 0 = (s4, ROff n).
Proof.
  unfold k_fork. intros H; inversion H; subst s1; clear H. intros Hl He.
  unfold k_lseek in Hl.
  destruct (get_ofd _ fd) as [[id o]|] eqn:Hg; try discriminate.
  destruct (get_ofd_inv _ _ _ _ Hg) as (e & G & I & Nn).
  cbn [k_ino] in Hl.
  destruct (nth_error (k_ino s) (o_ino o)) as [[perm data| |]|] eqn:Ei; try discriminate.
  match type of Hl with (if ?c then _ else _) = _ => destruct c eqn:Ec end; try discriminate.
  inversion Hl; subst s2 n; clear Hl.
  set (n := Z.to_N _) in *.
  unfold k_exit in He. cbn [k_susp k_ino k_ofd k_unpriv set_off set_ofd] in He.
  inversion He; subst s3; clear He.
  unfold k_lseek, get_ofd. unfold fds in *. cbn [k_cur k_ofd k_ino] in *.
  rewrite (proj1 (notify_rest _)). cbn [p_fds] in *.
  rewrite G, I.
  rewrite nth_set_nth_eq by (eapply nth_error_lt; eauto).
  cbn [o_ino o_off]. rewrite Ei.
  assert (Hz : (Z.of_N n + 0 <? 0)%Z = false) by lia. rewrite Hz.
  eexists. f_equal. f_equal. lia.
Qed.

(* Everything of a process except its signal state; no system call other than
   fork/exit changes this part of a waiting ancestor (kill changes the signal
   state of the ancestors it reaches). *)
Definition strip (p : proc) := (p_fds p, p_cwd p, p_umask p, p_limit p, p_id p).

Definition sk (s : kstate) : nat := match k_skip s with Some (_, d) => d | None => O end.

Lemma install_susp' s o cx s' fd :
  install s o cx = (s', fd) -> k_susp s' = k_susp s /\ k_skip s' = k_skip s.
Proof. unfold install. intros H; inversion H; split; reflexivity. Qed.

Ltac break_match :=
  match goal with
  | |- context [match ?x with _ => _ end] => destruct x eqn:?
  | |- context [if ?x then _ else _] => destruct x eqn:?
  end.

(* the operations that touch neither the ancestors nor the skip marker *)
Definition quiet (s s' : kstate) : Prop := k_susp s' = k_susp s /\ k_skip s' = k_skip s.

Lemma quiet_refl s : quiet s s.
Proof. split; reflexivity. Qed.

Ltac quiet_tac :=
  repeat break_match; cbn [fst];
  repeat match goal with
         | H : install _ _ _ = (_, _) |- _ =>
             let A := fresh in let B := fresh in
             apply install_susp' in H; destruct H as (A & B); unfold quiet; rewrite A, B; clear A B
         end;
  repeat break_match; try (apply quiet_refl); try (split; reflexivity).

Lemma open_existing_quiet s i a f : quiet s (fst (open_existing s i a f)).
Proof. unfold open_existing. quiet_tac. Qed.

Lemma k_open_quiet s p a f mode : quiet s (fst (k_open s p a f mode)).
Proof.
  assert (Hin : quiet s (fst (k_open_inner s p a f mode))).
  { unfold k_open_inner. repeat break_match; cbn [fst]; try apply quiet_refl;
      try apply open_existing_quiet.
    all: repeat match goal with
           | H : install _ _ _ = (_, _) |- _ =>
               let A := fresh in let B := fresh in
               apply install_susp' in H; destruct H as (A & B); unfold quiet; rewrite A, B
           end; split; reflexivity. }
  unfold k_open. destruct (can_alloc s 0); auto.
  destruct (snd (k_open_inner s p a f mode)); apply quiet_refl.
Qed.

Lemma signal_ancestors_strip : forall l pg sig l',
  signal_ancestors l pg sig = Some l' -> map strip l' = map strip l.
Proof.
  induction l as [|p l IH]; intros pg sig l' H; cbn in H.
  - inversion H; reflexivity.
  - destruct (signal_ancestors l pg sig) as [l''|] eqn:E; try discriminate.
    specialize (IH _ _ _ E).
    destruct (N.eqb (snd (p_id p)) pg).
    + destruct (generate (p_sig p) sig); try discriminate. inversion H; subst. cbn. rewrite IH. reflexivity.
    + inversion H; subst. cbn. rewrite IH. reflexivity.
Qed.

Lemma signal_self_props s susp' sig :
  k_skip s = None -> map strip susp' = map strip (k_susp s) ->
  map strip (k_susp (fst (signal_self s susp' sig))) = map strip (k_susp s) /\
  sk (fst (signal_self s susp' sig)) = O.
Proof.
  intros Hn H. unfold signal_self, sk.
  destruct (generate (p_sig (k_cur s)) sig); cbn [fst k_susp k_skip]; auto.
  - destruct (k_susp s) eqn:E; cbn [fst k_susp k_skip]; rewrite ?E, ?Hn; auto.
  - destruct (k_susp s) eqn:E; cbn [fst k_susp k_skip]; rewrite ?E, ?Hn; auto.
  - rewrite Hn. auto.
Qed.

Lemma k_kill_props s tg sig :
  k_skip s = None ->
  map strip (k_susp (fst (k_kill s tg sig))) = map strip (k_susp s) /\
  sk (fst (k_kill s tg sig)) = O.
Proof.
  intros Hn. assert (Hs : sk s = O) by (unfold sk; rewrite Hn; reflexivity).
  unfold k_kill. destruct (negb (N.ltb sig nsig)); cbn [fst]; auto.
  destruct tg.
  - apply signal_self_props; auto.
  - destruct (k_susp s) as [|p rest] eqn:E; cbn [fst]; rewrite ?E; auto.
    destruct (generate (p_sig p) sig); cbn [fst k_susp]; rewrite ?E; auto.
  - destruct (signal_ancestors _ _ _) eqn:E; cbn [fst]; auto.
    apply signal_self_props; auto. eapply signal_ancestors_strip; eauto.
  - destruct (signal_ancestors _ _ _) eqn:E; cbn [fst]; auto.
    apply signal_self_props; auto. eapply signal_ancestors_strip; eauto.
  - destruct (N.eqb _ _); cbn [fst]; auto.
    destruct (signal_ancestors _ _ _) eqn:E; cbn [fst]; auto.
    apply signal_self_props; auto. eapply signal_ancestors_strip; eauto.
Qed.

Lemma k_sigmask_props s how sigs :
  k_skip s = None ->
  map strip (k_susp (fst (k_sigmask s how sigs))) = map strip (k_susp s) /\
  sk (fst (k_sigmask s how sigs)) = O.
Proof.
  intros Hn. assert (Hs : sk s = O) by (unfold sk; rewrite Hn; reflexivity).
  unfold k_sigmask. destruct (negb (sigs_ok sigs) || N.ltb 2 how); cbn [fst]; auto.
  destruct (deliver_pending _ _); cbn [fst]; auto.
  destruct (filter _ _) as [|sig [|sig2 l]]; cbn [fst]; auto.
  destruct (N.eqb sig sigtstp); cbn [fst]; auto.
  destruct (k_susp s) eqn:E; cbn [fst k_susp]; rewrite ?E; auto.
Qed.

Lemma step_live_props s o :
  o <> OFork -> o <> OExit -> k_skip s = None ->
  map strip (k_susp (fst (step_live s o))) = map strip (k_susp s) /\
  sk (fst (step_live s o)) = O.
Proof.
  intros Hf He Hn.
  assert (Hq : forall s', quiet s s' -> map strip (k_susp s') = map strip (k_susp s) /\ sk s' = O).
  { intros s' (A & B). rewrite A. unfold sk. rewrite B, Hn. auto. }
  destruct o; try congruence; cbn [step_live]; try apply k_kill_props; try apply k_sigmask_props;
    auto; apply Hq;
    try apply k_open_quiet;
    try (unfold k_close, k_dup, k_dup2, k_read, k_write, k_lseek, k_fstat, k_stat, k_umask,
           k_chdir, k_getcwd, k_pipe, k_readdir, k_getfd, k_setfd, k_access,
           k_sigaction, k_getsigaction, k_raise, k_caught, k_setrlimit, k_setpgid0,
           k_droppriv, k_chmod;
         quiet_tac; fail).
Qed.

Lemma run_app s a b :
  run s (a ++ b) =
  let '(s1, r1) := run s a in
  let '(s2, r2) := run s1 b in (s2, r1 ++ r2).
Proof.
  revert s; induction a as [|o a IH]; intros s; cbn.
  - destruct (run s b); reflexivity.
  - destruct (step s o) as [s1 r]. rewrite IH.
    destruct (run s1 a) as [s2 r2]. destruct (run s2 b). reflexivity.
Qed.

(* properly nested fork/exit, also when a child is killed on the way: at the
   end the stack of waiting ancestors has lost exactly the [d] innermost ones *)
Lemma run_nested : forall ops d s,
  nested d ops = true -> sk s <= d -> d - sk s <= length (k_susp s) ->
  map strip (k_susp (fst (run s ops))) = skipn (d - sk s) (map strip (k_susp s)) /\
  sk (fst (run s ops)) = O.
Proof.
  induction ops as [|o ops IH]; intros d s Hn Hk Hd; cbn [run nested] in *.
  - apply Nat.eqb_eq in Hn. subst. assert (sk s = O) by lia. rewrite H. cbn. auto.
  - destruct (step s o) as [s1 r] eqn:Es.
    destruct (run s1 ops) as [s2 rs] eqn:Er. cbn [fst].
    change s2 with (fst (s2, rs)). rewrite <- Er. clear Er s2 rs.
    assert (Es1 : s1 = fst (step s o)) by (rewrite Es; reflexivity). clear Es.
    unfold step in Es1.
    destruct (k_skip s) as [[sig e]|] eqn:Eskip.
    + (* the running process has been killed *)
      assert (Hsk : sk s = e) by (unfold sk; rewrite Eskip; reflexivity).
      rewrite Hsk in Hk, Hd |- *.
      destruct o;
        try (cbn in Es1; subst s1; rewrite <- Hsk; apply IH; auto; rewrite Hsk; auto).
      * (* fork: not executed *)
        cbn in Es1.
        assert (Hs1 : sk s1 = S e) by (subst s1; reflexivity).
        assert (Hu : k_susp s1 = k_susp s) by (subst s1; reflexivity).
        destruct (IH (S d) s1 Hn) as (A & B); try (rewrite ?Hs1, ?Hu; lia).
        split; auto. rewrite A, Hs1, Hu. replace (S d - S e) with (d - e) by lia. reflexivity.
      * (* exit *)
        destruct d as [|d]; try discriminate.
        destruct e as [|e].
        -- destruct (k_susp s) as [|p rest] eqn:Ek; cbn in Hd; try lia.
           cbn in Es1.
           assert (Hs1 : sk s1 = 0) by (subst s1; reflexivity).
           assert (Hu : k_susp s1 = rest) by (subst s1; reflexivity).
           destruct (IH d s1 Hn) as (A & B); try (rewrite ?Hs1, ?Hu; lia).
           split; auto. rewrite A, Hs1, Hu. cbn [map].
           replace (S d - 0) with (S d) by lia. replace (d - 0) with d by lia. reflexivity.
        -- cbn in Es1.
           assert (Hs1 : sk s1 = e) by (subst s1; reflexivity).
           assert (Hu : k_susp s1 = k_susp s) by (subst s1; reflexivity).
           destruct (IH d s1 Hn) as (A & B); try (rewrite ?Hs1, ?Hu; lia).
           split; auto. rewrite A, Hs1, Hu. reflexivity.
    + (* alive *)
      assert (Hsk : sk s = 0) by (unfold sk; rewrite Eskip; reflexivity).
      rewrite Hsk in Hk, Hd |- *. replace (d - 0) with d in Hd |- * by lia.
      destruct o;
        try (match type of Es1 with _ = fst (step_live s ?o') =>
               destruct (step_live_props s o' ltac:(congruence) ltac:(congruence) Eskip) as (A & B)
             end;
             rewrite <- Es1 in A, B;
             assert (Hlen : length (k_susp s1) = length (k_susp s))
               by (apply (f_equal (@length _)) in A; rewrite !map_length in A; exact A);
             destruct (IH d s1 Hn) as (C & D); [lia | rewrite B, Hlen; lia |];
             split; auto; rewrite C, B, A; replace (d - 0) with d by lia; reflexivity).
      * (* fork *)
        cbn in Es1.
        assert (Hs1 : sk s1 = 0) by (subst s1; reflexivity).
        assert (Hu : map strip (k_susp s1) = strip (k_cur s) :: map strip (k_susp s))
          by (subst s1; reflexivity).
        assert (Hlen : length (k_susp s1) = S (length (k_susp s))) by (subst s1; reflexivity).
        destruct (IH (S d) s1 Hn) as (A & B); try (rewrite ?Hs1, ?Hlen; lia).
        split; auto. rewrite A, Hs1, Hu. reflexivity.
      * (* exit *)
        destruct d as [|d]; try discriminate.
        cbn [step_live] in Es1. unfold k_exit in Es1.
        destruct (k_susp s) as [|p rest] eqn:Ek; cbn in Hd; try lia.
        cbn in Es1.
        assert (Hs1 : sk s1 = 0) by (subst s1; reflexivity).
        assert (Hu : k_susp s1 = rest) by (subst s1; reflexivity).
        destruct (IH d s1 Hn) as (A & B); try (rewrite ?Hs1, ?Hu; lia).
        split; auto. rewrite A, Hs1, Hu. cbn [map]. replace (d - 0) with d by lia. reflexivity.
Qed.

(* Whatever the child does (including getting itself killed), the parent's
   descriptor table, cwd, umask, limit and IDs are as before, and so are those
   of all waiting ancestors.  (Signals the child sends reach their signal
   state only.) *)
Lemma strip_notify p : strip (notify p) = strip p.
Proof.
  destruct (notify_rest p) as (A & B & C & D & E). unfold strip. rewrite A, B, C, D, E. reflexivity.
Qed.

Lemma subshell_isolation_l s ops :
  k_skip s = None -> nested 0 ops = true ->
  strip (k_cur (fst (run s (OFork :: ops ++ [OExit])))) = strip (k_cur s) /\
  map strip (k_susp (fst (run s (OFork :: ops ++ [OExit])))) = map strip (k_susp s).
Proof.
  intros Hnone Hn. cbn [run]. unfold step. rewrite Hnone. cbn [step_live]. unfold k_fork.
  set (s1 := mkK (k_ino s) (k_ofd s) _ (k_cur s :: k_susp s) None (k_unpriv s)).
  rewrite run_app.
  destruct (run s1 ops) as [s2 r2] eqn:E2.
  destruct (run_nested ops 0 s1 Hn) as (A & B); try (unfold s1, sk; cbn; lia).
  rewrite E2 in A, B. cbn [fst] in A, B.
  replace (0 - sk s1) with 0 in A by lia. cbn [skipn] in A.
  unfold s1 in A. cbn [k_susp map] in A.
  cbn [run]. unfold step. unfold sk in B.
  destruct (k_skip s2) as [[sig e]|] eqn:Es2.
  - subst e. destruct (k_susp s2) as [|p rest]; [discriminate|].
    cbn [map] in A.
    pose proof (f_equal (hd (strip p)) A) as A1. pose proof (f_equal (@tl _) A) as A2.
    cbn [hd tl] in A1, A2. cbn -[strip notify]. rewrite strip_notify. split; assumption.
  - cbn [step_live]. unfold k_exit.
    destruct (k_susp s2) as [|p rest]; [discriminate|].
    cbn [map] in A.
    pose proof (f_equal (hd (strip p)) A) as A1. pose proof (f_equal (@tl _) A) as A2.
    cbn [hd tl] in A1, A2. cbn -[strip notify]. rewrite strip_notify. split; assumption.
Qed.

(* ---- bytes ---------------------------------------------------------------------------------- *)

Lemma nlen_to_nat l : N.to_nat (nlen l) = length l.
Proof. unfold nlen. apply Nat2N.id. Qed.

Lemma nlen_app a b : nlen (a ++ b) = (nlen a + nlen b)%N.
Proof. unfold nlen. rewrite app_length. lia. Qed.

Lemma write_at_end data b : write_at data (nlen data) b = data ++ b.
Proof.
  unfold write_at. rewrite N.leb_refl. unfold ntake, ndrop.
  rewrite nlen_to_nat, firstn_all.
  rewrite skipn_all2 by (rewrite N2Nat.inj_add, !nlen_to_nat; lia).
  rewrite app_nil_r. reflexivity.
Qed.

Lemma zeros_length n : length (zeros n) = N.to_nat n.
Proof. unfold zeros. apply repeat_length. Qed.

(* what was written at [off] is what is read back from [off] *)
Lemma write_at_read_back data off b :
  ntake (nlen b) (ndrop off (write_at data off b)) = b.
Proof.
  unfold write_at, ntake, ndrop. rewrite nlen_to_nat.
  destruct (N.leb off (nlen data)) eqn:E.
  - assert (Hl : N.to_nat off <= length data) by (unfold nlen in E; lia).
    rewrite skipn_app. rewrite firstn_length, Nat.min_l by lia.
    rewrite skipn_all2 by (rewrite firstn_length; lia).
    rewrite Nat.sub_diag. cbn [skipn app].
    rewrite firstn_app, Nat.sub_diag, firstn_all. cbn. apply app_nil_r.
  - assert (Hl : length data < N.to_nat off) by (unfold nlen in E; lia).
    rewrite app_assoc, skipn_app.
    assert (Hz : length (data ++ zeros (off - nlen data)) = N.to_nat off).
    { rewrite app_length, zeros_length. unfold nlen. lia. }
    rewrite skipn_all2 by lia. rewrite Hz, Nat.sub_diag. cbn [skipn app].
    apply firstn_all.
Qed.

(* ---- the creation mask ------------------------------------------------------------------------ *)

Lemma testbit_511 i : N.testbit 511 i = (i <? 9)%N.
Proof.
  change 511%N with (N.ones 9).
  destruct (N.ltb_spec i 9).
  - apply N.ones_spec_low; auto.
  - apply N.ones_spec_high; auto.
Qed.

(* bit i of the permission bits of a new file: requested and not masked *)
Lemma mask_spec_l mode um i :
  N.testbit (mask mode um) i = N.testbit mode i && negb (N.testbit um i) && (i <? 9)%N.
Proof.
  unfold mask. rewrite !N.land_spec, N.lxor_spec, N.land_spec, testbit_511.
  destruct (N.testbit mode i), (N.testbit um i), (i <? 9)%N; reflexivity.
Qed.

(* ---- open --------------------------------------------------------------------------------------- *)

Lemma install_fstat s1 o cx s' fd n :
  install s1 o cx = (s', fd) ->
  nth_error (k_ino s1) (o_ino o) = Some n ->
  k_fstat s' fd = (s', stat_of n) /\ get_ofd s' fd = Some (length (k_ofd s1), o) /\
  k_ino s' = k_ino s1.
Proof.
  unfold install. intros H Hn. inversion H; subst s' fd; clear H.
  assert (Hg : get_ofd
            (set_fds (set_ofd s1 (k_ofd s1 ++ [o]))
               (fd_put (fds s1) (lowest_free (fds s1) 0) (mkEnt (length (k_ofd s1)) cx)))
            (lowest_free (fds s1) 0) = Some (length (k_ofd s1), o)).
  { unfold get_ofd. unfold fds at 1. cbn [set_fds set_cur k_cur p_fds k_ofd set_ofd].
    rewrite fd_get_put_eq. cbn [e_ofd]. rewrite nth_app_new. reflexivity. }
  split; [|split]; auto.
  unfold k_fstat. rewrite Hg. cbn [set_fds set_cur set_ofd k_ino]. rewrite Hn. reflexivity.
Qed.

Lemma comps_split (cs : list str) last rinit : rev cs = last :: rinit -> cs = rev rinit ++ [last].
Proof. intros H. rewrite <- (rev_involutive cs), H. reflexivity. Qed.

(* how [resolve] sees a path whose last component is a plain name *)
Lemma resolve_last u ino cwd p last rinit :
  nonempty p = true ->
  rev (comps p) = last :: rinit ->
  is_dot last = false -> is_dotdot last = false -> trailing_slash p = false ->
  resolve u ino cwd p =
  match walk u ino (start cwd p) (rev rinit) with
  | WOk st =>
      match nth_error ino (top st) with
      | Some (IDir perm ents) =>
          if u && negb (may_x perm) then WErr EACCES else
          match lookup ents last with
          | Some i => WOk ((last, i) :: st)
          | None => WErr ENOENT
          end
      | Some _ => WErr ENOTDIR
      | None => WOut
      end
  | r => r
  end.
Proof.
  intros Hne Hr Hd Hdd Hts. unfold resolve. rewrite Hne. cbn [negb].
  rewrite (comps_split _ _ _ Hr), walk_app.
  destruct (walk u ino (start cwd p) (rev rinit)) as [st| |]; auto.
  cbn [walk]. destruct (nth_error ino (top st)) as [[| perm ents |]|]; auto.
  destruct (u && negb (may_x perm)); auto.
  rewrite Hd, Hdd. destruct (lookup ents last); auto.
  rewrite Hts. reflexivity.
Qed.

Lemma excl_refuses_existing_inner s p a f mode k sz pm :
  k_stat s p = (s, RStat k sz pm) ->
  flags_ok a f = true -> f_creat f = true -> f_excl f = true ->
  k_open_inner s p a f mode = (s, RErr EEXIST).
Proof.
  intros Hst Hok Hc He.
  assert (Hex : forall i, open_existing s i a f = (s, RErr EEXIST)).
  { intros i. unfold open_existing. rewrite Hc, He. reflexivity. }
  unfold k_stat in Hst.
  destruct (resolve (k_unpriv s) (k_ino s) (p_cwd (k_cur s)) p) as [st| |] eqn:Er; try discriminate.
  assert (Hne : nonempty p = true).
  { unfold resolve in Er. destruct (nonempty p); auto. discriminate. }
  unfold k_open_inner. rewrite Hok, Hne. cbn [negb orb]. rewrite Er.
  destruct (rev (comps p)) as [|last rinit] eqn:Hr; auto.
  destruct (is_dot last) eqn:Hd; cbn [orb]; auto.
  destruct (is_dotdot last) eqn:Hdd; cbn [orb]; auto.
  destruct (trailing_slash p) eqn:Hts; auto.
  rewrite (resolve_last _ _ _ _ _ _ Hne Hr Hd Hdd Hts) in Er.
  destruct (walk (k_unpriv s) (k_ino s) (start (p_cwd (k_cur s)) p) (rev rinit)) as [st1| |]; try discriminate.
  destruct (nth_error (k_ino s) (top st1)) as [[| perm ents |]|]; try discriminate.
  destruct (k_unpriv s && negb (may_x perm)); try discriminate.
  destruct (lookup ents last); try discriminate. auto.
Qed.

Lemma excl_refuses_existing_l s p a f mode k sz pm :
  can_alloc s 0 = true ->
  k_stat s p = (s, RStat k sz pm) ->
  flags_ok a f = true -> f_creat f = true -> f_excl f = true ->
  k_open s p a f mode = (s, RErr EEXIST).
Proof.
  intros Hc. unfold k_open. rewrite Hc. apply excl_refuses_existing_inner.
Qed.

(* a successful open is a successful open with a descriptor available *)
Lemma k_open_inner_of s p a f mode s' fd :
  k_open s p a f mode = (s', RFd fd) ->
  k_open_inner s p a f mode = (s', RFd fd) /\ can_alloc s 0 = true.
Proof.
  unfold k_open. destruct (can_alloc s 0); auto.
  destruct (snd (k_open_inner s p a f mode)); discriminate.
Qed.

(* no descriptor available: EMFILE, and nothing is created or truncated *)
Lemma open_emfile_no_effect_l s p a f mode s' fd :
  can_alloc s 0 = false ->
  k_open_inner s p a f mode = (s', RFd fd) ->
  k_open s p a f mode = (s, RErr EMFILE).
Proof. intros Hc Hi. unfold k_open. rewrite Hc, Hi. reflexivity. Qed.

Lemma open_existing_trunc s i a f s' fd :
  open_existing s i a f = (s', RFd fd) -> flags_ok a f = true -> f_trunc f = true ->
  exists perm, k_fstat s' fd = (s', RStat KReg 0 perm).
Proof.
  unfold open_existing. intros H Hok Ht.
  assert (Hw : writable a = true).
  { unfold flags_ok in Hok. rewrite Ht in Hok. destruct (writable a); auto.
    cbn in Hok. rewrite andb_false_r in Hok. discriminate. }
  destruct (f_creat f && f_excl f); try discriminate.
  destruct (nth_error (k_ino s) i) as [[perm data| perm ents | data]|] eqn:En; try discriminate.
  - destruct (f_dir f); try discriminate.
    destruct (k_unpriv s && _); try discriminate. rewrite Ht in H.
    destruct (install _ _ _) as [s2 fd2] eqn:Ei. inversion H; subst s2 fd2; clear H.
    exists perm.
    refine (proj1 (install_fstat _ _ _ _ _ (IReg perm []) Ei _)).
    cbn [o_ino set_ino k_ino]. apply nth_set_nth_eq. eapply nth_error_lt; eauto.
  - rewrite Hw in H. discriminate.
Qed.

Lemma add_entry_new l d name perm :
  d < length l ->
  nth_error (add_entry (l ++ [IReg perm []]) d name (length l)) (length l) = Some (IReg perm []).
Proof.
  intros Hd. unfold add_entry.
  destruct (nth_error (l ++ [IReg perm []]) d) as [[| p ents |]|]; try apply nth_app_new.
  rewrite nth_set_nth_neq by lia. apply nth_app_new.
Qed.

(* every successful open answers one of three ways; used by the flag laws *)
Lemma k_open_cases s p a f mode s' fd :
  k_open_inner s p a f mode = (s', RFd fd) ->
  flags_ok a f = true /\
  ((exists i, open_existing s i a f = (s', RFd fd) /\
              exists st, resolve (k_unpriv s) (k_ino s) (p_cwd (k_cur s)) p = WOk st /\ top st = i) \/
   (f_creat f = true /\
    resolve (k_unpriv s) (k_ino s) (p_cwd (k_cur s)) p = WErr ENOENT /\
    k_fstat s' fd = (s', RStat KReg 0 (mask mode (p_umask (k_cur s)))))).
Proof.
  unfold k_open_inner. destruct (flags_ok a f) eqn:Hok; [|discriminate].
  destruct (nonempty p) eqn:Hne; [|discriminate]. cbn [negb orb].
  intros H. split; auto.
  assert (Hwhole : match resolve (k_unpriv s) (k_ino s) (p_cwd (k_cur s)) p with
                   | WOk st => open_existing s (top st) a f
                   | WErr e => if f_creat f then (s, ROut) else (s, RErr e)
                   | WOut => (s, ROut)
                   end = (s', RFd fd) ->
                   exists i, open_existing s i a f = (s', RFd fd) /\
                     exists st, resolve (k_unpriv s) (k_ino s) (p_cwd (k_cur s)) p = WOk st /\ top st = i).
  { destruct (resolve _ _ _ p) as [st|e|]; try discriminate.
    - intros; eauto.
    - destruct (f_creat f); discriminate. }
  destruct (rev (comps p)) as [|last rinit] eqn:Hr; [left; auto|].
  destruct (is_dot last) eqn:Hd; cbn [orb] in H; [left; auto|].
  destruct (is_dotdot last) eqn:Hdd; cbn [orb] in H; [left; auto|].
  destruct (trailing_slash p) eqn:Hts; [left; auto|].
  pose proof (resolve_last (k_unpriv s) (k_ino s) (p_cwd (k_cur s)) _ _ _ Hne Hr Hd Hdd Hts) as Hres.
  destruct (walk (k_unpriv s) (k_ino s) (start (p_cwd (k_cur s)) p) (rev rinit)) as [st1| |]; try discriminate.
  destruct (nth_error (k_ino s) (top st1)) as [[| perm ents |]|] eqn:En; try discriminate.
  destruct (k_unpriv s && negb (may_x perm)); try discriminate.
  destruct (lookup ents last) as [i|].
  - left. exists i. split; auto. eexists; split; [exact Hres|reflexivity].
  - right. destruct (f_creat f); [|discriminate]. cbn [andb] in H.
    destruct (k_unpriv s && negb (may_w perm)); try discriminate.
    split; auto. split; auto.
    destruct (install _ _ _) as [s2 fd2] eqn:Ei. inversion H; subst s2 fd2; clear H.
    refine (proj1 (install_fstat _ _ _ _ _ (IReg (mask mode (p_umask (k_cur s))) []) Ei _)).
    cbn [o_ino set_ino k_ino]. apply add_entry_new. eapply nth_error_lt; eauto.
Qed.

Lemma trunc_empties_l s p a f mode s' fd :
  k_open s p a f mode = (s', RFd fd) -> f_trunc f = true ->
  exists perm, k_fstat s' fd = (s', RStat KReg 0 perm).
Proof.
  intros H Ht. apply k_open_inner_of in H. destruct H as (H & _).
  destruct (k_open_cases _ _ _ _ _ _ _ H) as (Hok & [(i & Hi & _) | (_ & _ & Hf)]).
  - eapply open_existing_trunc; eauto.
  - eauto.
Qed.

Lemma umask_masks_creation_l s p a f mode s' fd :
  k_stat s p = (s, RErr ENOENT) ->
  k_open s p a f mode = (s', RFd fd) ->
  k_fstat s' fd = (s', RStat KReg 0 (mask mode (p_umask (k_cur s)))).
Proof.
  intros Hst H. apply k_open_inner_of in H. destruct H as (H & _).
  destruct (k_open_cases _ _ _ _ _ _ _ H) as (Hok & [(i & _ & st & Hr & _) | (_ & _ & Hf)]).
  - unfold k_stat in Hst. rewrite Hr in Hst. destruct (nth_error _ _) as [[]|]; discriminate.
  - exact Hf.
Qed.

(* ---- append, write then read --------------------------------------------------------------------- *)

Lemma nonempty_nlen b : nonempty b = true -> (nlen b =? 0)%N = false.
Proof. destruct b; cbn; [discriminate|]. intros _. unfold nlen. cbn [length]. lia. Qed.

(* the state after a write to a regular file *)
Lemma write_reg s fd id o perm data b :
  get_ofd s fd = Some (id, o) -> o_wr o = true ->
  nth_error (k_ino s) (o_ino o) = Some (IReg perm data) -> nonempty b = true ->
  let off := if o_app o then nlen data else o_off o in
  let s' := fst (k_write s fd b) in
  snd (k_write s fd b) = RCount (nlen b) /\
  nth_error (k_ino s') (o_ino o) = Some (IReg perm (write_at data off b)) /\
  get_ofd s' fd = Some (id, with_off o (off + nlen b)).
Proof.
  intros Hg Hw Hi Hb. unfold k_write. rewrite Hb, Hg, Hw, Hi. cbn [negb fst snd].
  destruct (get_ofd_inv _ _ _ _ Hg) as (e & G & I & Nn).
  split; [reflexivity|]. split.
  - cbn [set_off set_ofd set_ino k_ino]. apply nth_set_nth_eq. eapply nth_error_lt; eauto.
  - unfold get_ofd, fds. cbn [set_off set_ofd set_ino k_cur k_ofd]. fold (fds s). rewrite G, I.
    rewrite nth_set_nth_eq by (eapply nth_error_lt; eauto). reflexivity.
Qed.

Lemma append_writes_at_end_l s fd id o perm data b :
  get_ofd s fd = Some (id, o) -> o_wr o = true -> o_app o = true ->
  nth_error (k_ino s) (o_ino o) = Some (IReg perm data) -> nonempty b = true ->
  snd (k_write s fd b) = RCount (nlen b) /\
  nth_error (k_ino (fst (k_write s fd b))) (o_ino o) = Some (IReg perm (data ++ b)) /\
  get_ofd (fst (k_write s fd b)) fd = Some (id, with_off o (nlen data + nlen b)).
Proof.
  intros Hg Hw Ha Hi Hb. pose proof (write_reg s fd id o perm data b Hg Hw Hi Hb) as H.
  cbn zeta in H. rewrite Ha, write_at_end in H. exact H.
Qed.

Lemma write_read_roundtrip_l s fd id o perm data b :
  get_ofd s fd = Some (id, o) -> o_rd o = true -> o_wr o = true ->
  nth_error (k_ino s) (o_ino o) = Some (IReg perm data) -> nonempty b = true ->
  let off := if o_app o then nlen data else o_off o in
  let s1 := fst (k_write s fd b) in
  let s2 := fst (k_lseek s1 fd WSet (Z.of_N off)) in
  snd (k_read s2 fd (nlen b)) = RBytes b.
Proof.
  intros Hg Hr Hw Hi Hb off s1 s2.
  destruct (write_reg s fd id o perm data b Hg Hw Hi Hb) as (_ & Hi1 & Hg1).
  fold off in Hi1, Hg1. fold s1 in Hi1, Hg1.
  destruct (get_ofd_inv _ _ _ _ Hg1) as (e & G & I & Nn).
  assert (Hs2 : s2 = set_off s1 id (with_off o (off + nlen b)) off).
  { unfold s2, k_lseek. rewrite Hg1. cbn [with_off o_ino]. rewrite Hi1.
    assert (Hz : (0 + Z.of_N off <? 0)%Z = false) by lia. rewrite Hz. cbn [fst].
    f_equal. lia. }
  assert (Hg2 : get_ofd s2 fd = Some (id, with_off o off)).
  { rewrite Hs2. unfold get_ofd. rewrite set_off_fds, G, I, set_off_ofd.
    rewrite nth_set_nth_eq by (eapply nth_error_lt; eauto). reflexivity. }
  unfold k_read. rewrite (nonempty_nlen _ Hb), Hg2. cbn [with_off o_rd o_ino o_off].
  rewrite Hr. cbn [negb]. rewrite Hs2, set_off_ino, Hi1. cbn [snd].
  rewrite write_at_read_back. reflexivity.
Qed.

(* ---- the run-time check accepts the model's own behaviour -------------------------------------------- *)

Lemma errno_eqb_refl e : errno_eqb e e = true.
Proof. destruct e; reflexivity. Qed.
Lemma kind_eqb_refl e : kind_eqb e e = true.
Proof. destruct e; reflexivity. Qed.
Lemma access_eqb_refl e : access_eqb e e = true.
Proof. destruct e; reflexivity. Qed.
Lemma str_eqb_refl (s : str) : str_eqb s s = true.
Proof. apply str_eqb_eq. reflexivity. Qed.
Lemma list_eqb_refl {A} (eqb : A -> A -> bool) :
  (forall x, eqb x x = true) -> forall l, list_eqb eqb l l = true.
Proof. intros H l; induction l; cbn; auto. rewrite H, IHl. reflexivity. Qed.

Lemma disp_eqb_refl d : disp_eqb d d = true.
Proof. destruct d; reflexivity. Qed.
Lemma disp_eqb_eq a b : disp_eqb a b = true -> a = b.
Proof. destruct a, b; cbn; congruence. Qed.

Lemma cstat_eqb_refl c : cstat_eqb c c = true.
Proof. destruct c; cbn; auto. apply N.eqb_refl. Qed.
Lemma cstat_eqb_eq a b : cstat_eqb a b = true -> a = b.
Proof. destruct a, b; cbn; try discriminate; auto. intros H. apply N.eqb_eq in H. congruence. Qed.

Lemma res_eqb_refl r : res_eqb r r = true.
Proof.
  destruct r; cbn; auto;
    rewrite ?N.eqb_refl, ?str_eqb_refl, ?kind_eqb_refl, ?errno_eqb_refl, ?access_eqb_refl,
      ?Bool.eqb_reflx, ?disp_eqb_refl, ?cstat_eqb_refl; auto;
    apply list_eqb_refl; apply str_eqb_refl.
Qed.

Lemma tree_entry_eqb_refl e : tree_entry_eqb e e = true.
Proof.
  destruct e as [[[p k] m] d]. cbn.
  rewrite (list_eqb_refl _ str_eqb_refl), kind_eqb_refl, N.eqb_refl, str_eqb_refl. reflexivity.
Qed.

Lemma first_diff_refl : forall ops rs, length ops = length rs -> first_diff ops rs rs = None.
Proof.
  induction ops as [|o ops IH]; intros [|r rs] H; cbn in *; try lia; auto.
  rewrite res_eqb_refl. apply IH. lia.
Qed.

Lemma run_length : forall ops s, length (snd (run s ops)) = length ops.
Proof.
  induction ops as [|o ops IH]; intros s; cbn; auto.
  destruct (step s o) as [s1 r]. specialize (IH s1). destruct (run s1 ops). cbn in *. lia.
Qed.

Lemma sysobs_eqb_refl o : sysobs_eqb o o = true.
Proof.
  unfold sysobs_eqb. rewrite (list_eqb_refl _ res_eqb_refl).
  unfold tree_eqb. rewrite (list_eqb_refl _ tree_entry_eqb_refl).
  rewrite (list_eqb_refl _ str_eqb_refl). reflexivity.
Qed.

(* if both systems behave like the model (inside the domain), the check says 0 *)
Lemma oracle_sound_l tree um ops :
  let m := model_obs tree um ops in
  has_out (so_res m) = false ->
  run_case (CSys tree um ops m m) = 0%N.
Proof.
  intros m Hout. unfold run_case. fold m.
  assert (Hl : length ops = length (so_res m)).
  { unfold m, model_obs. pose proof (run_length ops (init_state tree um)) as H.
    destruct (run (init_state tree um) ops). cbn in *. lia. }
  unfold sys_oracle. rewrite (first_diff_refl _ _ Hl).
  unfold tree_eqb. rewrite (list_eqb_refl _ tree_entry_eqb_refl). cbn [negb].
  rewrite (list_eqb_refl _ str_eqb_refl). cbn [negb].
  rewrite Hout, sysobs_eqb_refl. reflexivity.
Qed.

Lemma script_oracle_refl o : run_case (CScript o o) = 0%N.
Proof.
  unfold run_case, script_oracle. rewrite andb_negb_r. rewrite str_eqb_refl, Z.eqb_refl. cbn [negb].
  unfold tree_eqb. rewrite (list_eqb_refl _ tree_entry_eqb_refl). reflexivity.
Qed.

Lemma script3_oracle_refl o : run_case (CScript3 o o o) = 0%N.
Proof.
  pose proof (script_oracle_refl o) as H. unfold run_case in *.
  destruct (script_oracle o o) as [k|]; [|reflexivity].
  exfalso. lia.
Qed.

(* and any accepted pair of observations really is a pair of equal observations *)
Lemma errno_eqb_eq a b : errno_eqb a b = true -> a = b.
Proof. destruct a, b; cbn; congruence. Qed.
Lemma kind_eqb_eq a b : kind_eqb a b = true -> a = b.
Proof. destruct a, b; cbn; congruence. Qed.
Lemma access_eqb_eq a b : access_eqb a b = true -> a = b.
Proof. destruct a, b; cbn; congruence. Qed.
Lemma names_eqb_eq (a b : list str) : list_eqb str_eqb a b = true -> a = b.
Proof. apply list_eqb_spec. intros; apply str_eqb_eq. Qed.

Lemma res_eqb_eq a b : res_eqb a b = true -> a = b.
Proof.
  destruct a, b; cbn; try discriminate; auto; intros H;
    repeat (apply andb_true_iff in H; destruct H as [H ?]);
    repeat match goal with
           | H : N.eqb _ _ = true |- _ => apply N.eqb_eq in H
           | H : str_eqb _ _ = true |- _ => apply str_eqb_eq in H
           | H : list_eqb str_eqb _ _ = true |- _ => apply names_eqb_eq in H
           | H : kind_eqb _ _ = true |- _ => apply kind_eqb_eq in H
           | H : errno_eqb _ _ = true |- _ => apply errno_eqb_eq in H
           | H : access_eqb _ _ = true |- _ => apply access_eqb_eq in H
           | H : disp_eqb _ _ = true |- _ => apply disp_eqb_eq in H
           | H : cstat_eqb _ _ = true |- _ => apply cstat_eqb_eq in H
           | H : Bool.eqb _ _ = true |- _ => apply Bool.eqb_prop in H
           end; subst; reflexivity.
Qed.

Lemma tree_entry_eqb_eq a b : tree_entry_eqb a b = true -> a = b.
Proof.
  destruct a as [[[pa ka] ma] da], b as [[[pb kb] mb] db]. cbn. intros H.
  repeat (apply andb_true_iff in H; destruct H as [H ?]).
  apply names_eqb_eq in H. apply kind_eqb_eq in H2. apply N.eqb_eq in H1.
  apply str_eqb_eq in H0. subst. reflexivity.
Qed.

Lemma first_diff_none : forall ops v r, first_diff ops v r = None -> v = r.
Proof.
  induction ops as [|o ops IH]; intros [|x v] [|y r]; cbn; try discriminate; auto.
  destruct (res_eqb x y) eqn:E.
  - intros H. apply res_eqb_eq in E. apply IH in H. subst. reflexivity.
  - destruct x, y; discriminate.
Qed.

Lemma sys_oracle_complete_l ops v r : sys_oracle ops v r = None -> sys_agree v r.
Proof.
  unfold sys_oracle, sys_agree. destruct (first_diff ops (so_res v) (so_res r)) eqn:E1; try discriminate.
  destruct (tree_eqb (so_tree v) (so_tree r)) eqn:E2; cbn [negb]; try discriminate.
  destruct (list_eqb str_eqb (so_std v) (so_std r)) eqn:E3; cbn [negb]; try discriminate.
  intros _. apply first_diff_none in E1.
  apply (proj1 (list_eqb_spec tree_entry_eqb
           (fun x y => conj (tree_entry_eqb_eq x y)
                            (fun H => eq_ind_r (fun x => tree_entry_eqb x y = true)
                                        (tree_entry_eqb_refl y) H)) _ _)) in E2.
  apply names_eqb_eq in E3.
  destruct v, r; cbn in *; subst; reflexivity.
Qed.

Lemma script_oracle_complete_l v r : script_oracle v r = None -> script_agree v r.
Proof.
  unfold script_oracle, script_agree.
  destruct (unfinished v && negb (unfinished r)); try discriminate.
  destruct (str_eqb (sc_stdout v) (sc_stdout r)) eqn:E1; cbn [negb]; try discriminate.
  destruct (Z.eqb (sc_status v) (sc_status r)) eqn:E2; cbn [negb]; try discriminate.
  destruct (tree_eqb (sc_tree v) (sc_tree r)) eqn:E3; cbn [negb]; try discriminate.
  intros _. apply str_eqb_eq in E1. apply Z.eqb_eq in E2.
  apply (proj1 (list_eqb_spec tree_entry_eqb
           (fun x y => conj (tree_entry_eqb_eq x y)
                            (fun H => eq_ind_r (fun x => tree_entry_eqb x y = true)
                                        (tree_entry_eqb_refl y) H)) _ _)) in E3.
  destruct v, r; cbn in *; subst; reflexivity.
Qed.
