(* C19 — non-vacuity: concrete states that satisfy the hypotheses of the
   implication-shaped theorems (all by computation). *)
From Yv Require Import Common.Base C19.Model C19.Spec C19.Run.

Definition ex_tree : list init_entry :=
  [([[100]], None);                              (* d/   *)
   ([[100]; [115]], None);                       (* d/s/ *)
   ([[102]], Some [104; 105; 10]);               (* f = "hi\n" *)
   ([[100]; [104]], Some [97; 98; 99])]%N.       (* d/h = "abc" *)

Definition ex0 : kstate := init_state ex_tree 18.    (* umask 022 *)

Definition fl_none := mkFl false false false false false false.
Definition fl_creat := mkFl true false false false false false.
Definition fl_creat_excl := mkFl true true false false false false.
Definition fl_trunc := mkFl true false true false false false.
Definition fl_append := mkFl false false false true false false.

Definition p_f : str := [102]%N.
Definition p_new : str := [100; 47; 110]%N.                       (* d/n *)
Definition p_dots : str := [100; 47; 115; 47; 46; 46; 47; 46; 47; 104]%N.   (* d/s/.././h *)

(* f opened read/write on descriptor 3 *)
Definition ex1 : kstate := fst (k_open ex0 p_f ARdWr fl_none 0).

Example ex_open : snd (k_open ex0 p_f ARdWr fl_none 0) = RFd 3.
Proof. vm_compute. reflexivity. Qed.

Example ex_dup :
  exists s1 s2, k_dup ex1 3 10 true = (s1, RFd 10%N) /\ k_lseek s1 10 WSet 2 = (s2, ROff 2).
Proof. eexists; eexists; split; vm_compute; reflexivity. Qed.

Example ex_dup2 : exists s', k_dup2 ex1 3 7 = (s', RFd 7%N) /\ 3%N <> 7%N.
Proof. eexists; split; [vm_compute; reflexivity | discriminate]. Qed.

Example ex_fork :
  exists s1 s2 s3, k_fork ex1 = (s1, RUnit) /\ k_lseek s1 3 WEnd (-1) = (s2, ROff 2) /\
                   k_exit s2 = (s3, RChild CExited).
Proof. do 3 eexists. repeat split; vm_compute; reflexivity. Qed.

Example ex_nested :
  nested 0 [OClose 3; OChdir [100]%N; OUmask 63; OFork; OClose 0; OExit; OPipe] = true.
Proof. reflexivity. Qed.

Example ex_append :
  exists s id o perm data,
    s = fst (k_open ex0 p_f AWr fl_append 0) /\
    get_ofd s 3 = Some (id, o) /\ o_wr o = true /\ o_app o = true /\
    nth_error (k_ino s) (o_ino o) = Some (IReg perm data) /\ data = [104; 105; 10]%N.
Proof. do 5 eexists. repeat split; vm_compute; reflexivity. Qed.

Example ex_roundtrip :
  exists id o perm data,
    get_ofd ex1 3 = Some (id, o) /\ o_rd o = true /\ o_wr o = true /\
    nth_error (k_ino ex1) (o_ino o) = Some (IReg perm data).
Proof. do 4 eexists. repeat split; vm_compute; reflexivity. Qed.

Example ex_excl :
  exists k sz pm, can_alloc ex0 0 = true /\ k_stat ex0 p_f = (ex0, RStat k sz pm) /\
                  flags_ok AWr fl_creat_excl = true.
Proof. do 3 eexists. repeat split; vm_compute; reflexivity. Qed.

(* descriptors 0-2 open and a limit of 4: the pipe gets nothing, and the next
   open gets descriptor 3 *)
Definition ex_lim : kstate := fst (k_setrlimit ex0 4).
Example ex_pipe_emfile :
  k_pipe ex_lim = (ex_lim, RErr EMFILE) /\ snd (k_open ex_lim p_f ARd fl_none 0) = RFd 3 /\
  can_alloc (fst (k_open ex_lim p_f ARd fl_none 0)) 0 = false.
Proof. repeat split; vm_compute; reflexivity. Qed.

(* the parent ignores SIGTERM (2); the child resets it and signals the group *)
Example ex_group_kill :
  snd (run ex0 [OSigaction 2 DIgnore; OFork; OSigaction 2 DDefault; OKill TGroup0 2; OGetcwd;
                OExit; OGetSigaction 2])
  = [RDisp DDefault; RUnit; RDisp DIgnore; RSkip; RSkip; RChild (CSignaled 2); RDisp DIgnore].
Proof. vm_compute. reflexivity. Qed.

Example ex_trunc : exists s' fd, k_open ex0 p_f AWr fl_trunc 438 = (s', RFd fd).
Proof. do 2 eexists. vm_compute. reflexivity. Qed.

Example ex_umask :
  exists s' fd, k_stat ex0 p_new = (ex0, RErr ENOENT) /\
                k_open ex0 p_new AWr fl_creat 438 = (s', RFd fd) /\
                mask 438 (p_umask (k_cur ex0)) = 420%N.       (* 0666 & ~022 = 0644 *)
Proof. do 2 eexists. repeat split; vm_compute; reflexivity. Qed.

Example ex_norm :
  exists st, walk false (k_ino ex0) [] (comps p_dots) = WOk st /\
             norm [] (comps p_dots) = [[100]; [104]]%N /\ top st = 7.
Proof. eexists. repeat split; vm_compute; reflexivity. Qed.

(* the hypothesis of [path_normalisation] is needed: `f/..` does not resolve
   (f is a regular file) although its normal form (the empty path) does *)
Example ex_norm_needs_hyp :
  walk false (k_ino ex0) [] [[102]; [46; 46]]%N = WErr ENOTDIR /\
  walk false (k_ino ex0) [] (norm [] [[102]; [46; 46]]%N) = WOk [].
Proof. split; vm_compute; reflexivity. Qed.

Example ex_oracle_sound :
  has_out (so_res (model_obs ex_tree 18
     [OOpen p_f ARdWr fl_none 0; ODup 3 10 true; ORead 10 2; OFork; OChdir [100]%N; OExit; OGetcwd]))
  = false.
Proof. vm_compute. reflexivity. Qed.

(* the oracle does reject: a simulator that leaves one more descriptor open *)
Example ex_oracle_rejects :
  run_case (CSys ex_tree 18 [OOpen p_f ARd fl_none 0]
              (mkSysObs [RFd 4] (so_tree (model_obs ex_tree 18 [])) [[]; []; []])
              (mkSysObs [RFd 3] (so_tree (model_obs ex_tree 18 [])) [[]; []; []])) = 2%N.
Proof. vm_compute. reflexivity. Qed.
