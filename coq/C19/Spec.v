(* C19 — SPEC and ORACLE.

   The property: the simulated system and the real system give the shell the
   same observable behaviour.  Its run-time form (the ORACLE) compares what the
   two implementations of the System traits returned for the same sequence of
   calls (and what two runs of the same script printed / returned / left on
   disk) — it never looks at the model.

   The model (Model.v) is the pivot that says which side deviates; what makes
   it a *specification* rather than a third implementation are the kernel laws
   stated here declaratively and proved in Proofs.v:
     - [Resolves]: pathname resolution as an inductive relation;
     - [wf]: the structural invariant of kernel states;
     - [norm]: lexical normalisation of a path. *)
From Yv Require Import Common.Base C19.Model.

(* ---- equality tests on observations --------------------------------------------- *)

Definition errno_eqb (a b : errno) : bool :=
  match a, b with
  | ENOENT, ENOENT | EEXIST, EEXIST | ENOTDIR, ENOTDIR | EISDIR, EISDIR
  | EBADF, EBADF | EINVAL, EINVAL | ESPIPE, ESPIPE | EPIPE, EPIPE
  | EMFILE, EMFILE | EACCES, EACCES | ELOOP, ELOOP | ESRCH, ESRCH | EOTHER, EOTHER => true
  | _, _ => false
  end.

Definition kind_eqb (a b : kind) : bool :=
  match a, b with
  | KReg, KReg | KDir, KDir | KFifo, KFifo | KOther, KOther => true
  | _, _ => false
  end.

Definition access_eqb (a b : access) : bool :=
  match a, b with
  | ARd, ARd | AWr, AWr | ARdWr, ARdWr => true
  | _, _ => false
  end.

Definition disp_eqb (a b : disp) : bool :=
  match a, b with
  | DDefault, DDefault | DIgnore, DIgnore | DCatch, DCatch => true
  | _, _ => false
  end.

Definition cstat_eqb (a b : cstat) : bool :=
  match a, b with
  | CExited, CExited => true
  | CSignaled x, CSignaled y => N.eqb x y
  | _, _ => false
  end.

Definition res_eqb (a b : res) : bool :=
  match a, b with
  | RFd x, RFd y => N.eqb x y
  | RUnit, RUnit => true
  | RBytes x, RBytes y => str_eqb x y
  | RCount x, RCount y => N.eqb x y
  | ROff x, ROff y => N.eqb x y
  | RStat k s p, RStat k' s' p' => kind_eqb k k' && N.eqb s s' && N.eqb p p'
  | RMode x, RMode y => N.eqb x y
  | RPath x, RPath y => list_eqb str_eqb x y
  | RPipe r w, RPipe r' w' => N.eqb r r' && N.eqb w w'
  | RNames x, RNames y => list_eqb str_eqb x y
  | RFlag x, RFlag y => Bool.eqb x y
  | RAcc x, RAcc y => access_eqb x y
  | RErr x, RErr y => errno_eqb x y
  | RDisp x, RDisp y => disp_eqb x y
  | RSigs x, RSigs y => str_eqb x y
  | RSkip, RSkip => true
  | RChild x, RChild y => cstat_eqb x y
  | ROut, ROut => true
  | RHang, RHang => true
  | RPanic, RPanic => true
  | _, _ => false
  end.

Definition tree_entry_eqb (a b : tree_entry) : bool :=
  let '(pa, ka, ma, da) := a in
  let '(pb, kb, mb, db) := b in
  list_eqb str_eqb pa pb && kind_eqb ka kb && N.eqb ma mb && str_eqb da db.

Definition tree_eqb : list tree_entry -> list tree_entry -> bool := list_eqb tree_entry_eqb.

(* ---- stream 1: system-call sequences ---------------------------------------------- *)

(* what one implementation showed: the result of every call, the final tree
   below the scratch root, the final contents of the three standard files *)
Record sysobs := mkSysObs {
  so_res : list res;
  so_tree : list tree_entry;
  so_std : list (list N)
}.

(* the property, for one sequence *)
Definition sys_agree (v r : sysobs) : Prop := v = r.

(* clause numbers of the oracle (verdict = 2 + clause) *)
Definition op_class (o : op) : N :=
  match o with
  | OOpen _ _ _ _ => 0
  | OClose _ | ODup _ _ _ | ODup2 _ _ | OGetfd _ | OSetfd _ _ | OAccess _ => 1
  | ORead _ _ | OWrite _ _ | OLseek _ _ _ => 2
  | OFstat _ | OStat _ => 3
  | OUmask _ => 4
  | OChdir _ | OGetcwd => 5
  | OPipe => 6
  | OReaddir _ => 7
  | OFork | OExit => 8
  | OSigaction _ _ | OGetSigaction _ | ORaise _ | OCaught | OSigmask _ _ => 12
  | OSetrlimit _ => 1
  | OSetpgid0 | OKill _ _ => 12
  | ODropPriv | OChmod _ _ => 3
  end.

Definition clause_tree : N := 9.
Definition clause_std : N := 10.
Definition clause_shape : N := 11.      (* a run is missing results / did not finish *)

Fixpoint first_diff (ops : list op) (v r : list res) : option N :=
  match ops, v, r with
  | [], [], [] => None
  | o :: ops', x :: v', y :: r' =>
      if res_eqb x y then first_diff ops' v' r'
      else Some (match x, y with
                 | RHang, _ | _, RHang | RPanic, _ | _, RPanic => clause_shape
                 | _, _ => op_class o
                 end)
  | _, _, _ => Some clause_shape
  end.

(* None = the two systems agree on this sequence; Some k = clause k fails *)
Definition sys_oracle (ops : list op) (v r : sysobs) : option N :=
  match first_diff ops (so_res v) (so_res r) with
  | Some k => Some k
  | None =>
      if negb (tree_eqb (so_tree v) (so_tree r)) then Some clause_tree
      else if negb (list_eqb str_eqb (so_std v) (so_std r)) then Some clause_std
      else None
  end.

(* ---- stream 2: whole scripts ---------------------------------------------------------- *)

Record scriptobs := mkScriptObs {
  sc_stdout : list N;
  sc_status : Z;          (* exit status; negative = killed / did not finish *)
  sc_tree : list tree_entry
}.

Definition script_agree (v r : scriptobs) : Prop := v = r.

Definition clause_stdout : N := 18.
Definition clause_status : N := 19.
Definition clause_files : N := 20.
Definition clause_unfinished : N := 21.   (* the simulated run did not finish (deadlock / out of
                                             virtual steps) although the real run did *)

(* status -1 = "did not finish" (harness: the simulated shell's task never
   completed: every process is blocked, or the step budget ran out) *)
Definition unfinished (o : scriptobs) : bool := Z.eqb (sc_status o) (-1).

Definition script_oracle (v r : scriptobs) : option N :=
  if unfinished v && negb (unfinished r) then Some clause_unfinished
  else if negb (str_eqb (sc_stdout v) (sc_stdout r)) then Some clause_stdout
  else if negb (Z.eqb (sc_status v) (sc_status r)) then Some clause_status
  else if negb (tree_eqb (sc_tree v) (sc_tree r)) then Some clause_files
  else None.

(* ---- declarative pathname resolution --------------------------------------------------- *)

(* [Resolves ino st cs st']: starting in the directory on top of [st], the
   components [cs] lead to [st'].  One rule per kind of component; every rule
   demands that the component is looked up in a directory, which an
   unprivileged process ([u]) must be allowed to search. *)
Inductive Resolves (u : bool) (ino : list inode) : stack -> list str -> stack -> Prop :=
| RsNil : forall st, Resolves u ino st [] st
| RsDot : forall st c cs st' perm ents,
    nth_error ino (top st) = Some (IDir perm ents) ->
    u && negb (may_x perm) = false ->
    is_dot c = true ->
    Resolves u ino st cs st' -> Resolves u ino st (c :: cs) st'
| RsUp : forall e st c cs st' perm ents,
    nth_error ino (top (e :: st)) = Some (IDir perm ents) ->
    u && negb (may_x perm) = false ->
    is_dot c = false -> is_dotdot c = true ->
    Resolves u ino st cs st' -> Resolves u ino (e :: st) (c :: cs) st'
| RsName : forall st c cs st' perm ents i,
    nth_error ino (top st) = Some (IDir perm ents) ->
    u && negb (may_x perm) = false ->
    is_dot c = false -> is_dotdot c = false ->
    lookup ents c = Some i ->
    Resolves u ino ((c, i) :: st) cs st' -> Resolves u ino st (c :: cs) st'.

(* ---- lexical normalisation ---------------------------------------------------------------- *)

(* remove `.`, cancel `name/..`; [acc] is the output so far, reversed *)
Fixpoint norm (acc : list str) (cs : list str) : list str :=
  match cs with
  | [] => rev acc
  | c :: cs' =>
      if is_dot c then norm acc cs'
      else if is_dotdot c then
        match acc with
        | a :: acc' => if is_dotdot a then norm (c :: acc) cs' else norm acc' cs'
        | [] => norm [c] cs'
        end
      else norm (c :: acc) cs'
  end.

(* ---- well-formed kernel states ---------------------------------------------------------------- *)

Definition inode_ok (n : nat) (x : inode) : Prop :=
  match x with
  | IDir _ ents => forall name i, In (name, i) ents -> i < n
  | _ => True
  end.

Definition proc_ok (nofd : nat) (ino : list inode) (p : proc) : Prop :=
  (forall fd e, In (fd, e) (p_fds p) -> e_ofd e < nofd) /\
  is_dir ino (top (p_cwd p)) = true.

Definition wf (s : kstate) : Prop :=
  Forall (inode_ok (length (k_ino s))) (k_ino s) /\
  Forall (fun o => o_ino o < length (k_ino s)) (k_ofd s) /\
  Forall (proc_ok (length (k_ofd s)) (k_ino s)) (all_procs s) /\
  is_dir (k_ino s) 0 = true.

(* fork/exit nest properly and never leave the starting process *)
Fixpoint nested (depth : nat) (ops : list op) : bool :=
  match ops with
  | [] => Nat.eqb depth 0
  | OFork :: ops' => nested (S depth) ops'
  | OExit :: ops' => match depth with O => false | S d => nested d ops' end
  | _ :: ops' => nested depth ops'
  end.
