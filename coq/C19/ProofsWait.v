(* C19 — proofs about the model with several live children (Wait.v) and about
   SIGCHLD going to the parent (and only the parent) in Model.v. *)
From Yv Require Import Common.Base C19.Model C19.Spec C19.Wait C19.Run C19.Proofs C19.ProofsWf.
From Coq Require Import ZifyBool ZifyN.

(* ---- lists ------------------------------------------------------------------------ *)

Lemma nth_set_nth_eq {A} (l : list A) k x c :
  nth_error l k = Some c -> nth_error (set_nth l k x) k = Some x.
Proof.
  revert k; induction l as [|y l IH]; intros [|k]; cbn; try discriminate; auto.
Qed.

Lemma nth_set_nth_neq {A} (l : list A) k k' x :
  k <> k' -> nth_error (set_nth l k' x) k = nth_error l k.
Proof.
  revert k k'; induction l as [|y l IH]; intros [|k] [|k'] H; cbn; auto; try congruence.
Qed.

Lemma first_zomb_some l : forall i j w,
  first_zomb l i = Some (j, w) ->
  i <= j /\ exists c, nth_error l (j - i) = Some c /\ c_st c = CZomb w /\
  forall m c', m < j - i -> nth_error l m = Some c' -> zomb_of c' = None.
Proof.
  induction l as [|c l IH]; intros i j w H; cbn in H; [discriminate|].
  destruct (c_st c) eqn:E.
  - apply IH in H. destruct H as [Hle [c0 [Hn [Hz Hm]]]]. split; [lia|].
    exists c0. replace (j - i) with (S (j - S i)) by lia. cbn. repeat split; auto.
    intros [|m] c' Hlt Hc'; cbn in Hc'.
    + inversion Hc'; subst. unfold zomb_of. rewrite E. reflexivity.
    + apply (Hm m); auto. lia.
  - inversion H; subst. split; [lia|]. exists c. replace (j - j) with 0 by lia. cbn.
    repeat split; auto. intros m c' Hlt. lia.
  - apply IH in H. destruct H as [Hle [c0 [Hn [Hz Hm]]]]. split; [lia|].
    exists c0. replace (j - i) with (S (j - S i)) by lia. cbn. repeat split; auto.
    intros [|m] c' Hlt Hc'; cbn in Hc'.
    + inversion Hc'; subst. unfold zomb_of. rewrite E. reflexivity.
    + apply (Hm m); auto. lia.
Qed.

Lemma first_zomb_none l : forall i,
  first_zomb l i = None <-> (forall c, In c l -> zomb_of c = None).
Proof.
  induction l as [|c l IH]; intros i; cbn.
  - split; auto. intros _ c [].
  - destruct (c_st c) eqn:E.
    + rewrite IH. split.
      * intros H c' [<-|Hin]; auto. unfold zomb_of. rewrite E. reflexivity.
      * intros H c' Hin. apply H. auto.
    + split; [discriminate|]. intros H. specialize (H c (or_introl eq_refl)).
      unfold zomb_of in H. rewrite E in H. discriminate.
    + rewrite IH. split.
      * intros H c' [<-|Hin]; auto. unfold zomb_of. rewrite E. reflexivity.
      * intros H c' Hin. apply H. auto.
Qed.

(* ---- wait ------------------------------------------------------------------------- *)

(* what wait reports is a zombie child with exactly that status, and it is reaped *)
Lemma wait_reports_zombie_l s t s' k w :
  wstep s (WWait t) = (s', WRGot k w) ->
  exists c, nth_error (w_ch s) k = Some c /\ c_st c = CZomb w /\
            nth_error (w_ch s') k = Some (with_st c CReaped) /\ w_k s' = w_k s /\
            forall j, j <> k -> nth_error (w_ch s') j = nth_error (w_ch s) j.
Proof.
  cbn [wstep]. unfold w_wait. destruct t as [k0|].
  - destruct (nth_error (w_ch s) k0) as [c|] eqn:En; [|discriminate].
    destruct (c_st c) eqn:Est; try discriminate.
    intros H. inversion H; subst. exists c. unfold reap. rewrite En. cbn.
    repeat split; auto.
    + eapply nth_set_nth_eq; eauto.
    + intros j Hj. apply nth_set_nth_neq; auto.
  - destruct (first_zomb (w_ch s) 0) as [[k0 w0]|] eqn:Ef.
    + intros H. inversion H; subst.
      apply first_zomb_some in Ef. destruct Ef as [_ [c [Hn [Hz _]]]].
      replace (k - 0) with k in Hn by lia.
      exists c. unfold reap. rewrite Hn. cbn. repeat split; auto.
      * eapply nth_set_nth_eq; eauto.
      * intros j Hj. apply nth_set_nth_neq; auto.
    + destruct (existsb _ _); discriminate.
Qed.

(* wait(-1) reports a terminated child iff there is one *)
Lemma wait_any_iff_l s :
  (exists k w, snd (wstep s (WWait None)) = WRGot k w) <->
  (exists c, In c (w_ch s) /\ zomb_of c <> None).
Proof.
  cbn [wstep]. unfold w_wait. split.
  - intros [k [w H]]. destruct (first_zomb (w_ch s) 0) as [[k0 w0]|] eqn:Ef.
    + apply first_zomb_some in Ef. destruct Ef as [_ [c [Hn [Hz _]]]].
      exists c. split; [eapply nth_error_In; eauto|]. unfold zomb_of. rewrite Hz. discriminate.
    + destruct (existsb _ _); discriminate.
  - intros [c [Hin Hz]]. destruct (first_zomb (w_ch s) 0) as [[k0 w0]|] eqn:Ef.
    + exists k0, w0. reflexivity.
    + exfalso. apply Hz. eapply first_zomb_none; eauto.
Qed.

(* ... the oldest one *)
Lemma wait_oldest_first_l s s' k w :
  wstep s (WWait None) = (s', WRGot k w) ->
  forall j c, j < k -> nth_error (w_ch s) j = Some c -> zomb_of c = None.
Proof.
  cbn [wstep]. unfold w_wait.
  destruct (first_zomb (w_ch s) 0) as [[k0 w0]|] eqn:Ef.
  - intros H. inversion H; subst. apply first_zomb_some in Ef.
    destruct Ef as [_ [c [_ [_ Hm]]]]. intros j c' Hlt Hn. apply (Hm j); auto. lia.
  - destruct (existsb _ _); discriminate.
Qed.

(* wait(-1) fails with ECHILD iff every child has been reaped (or there is none) *)
Lemma wait_any_echild_iff_l s :
  snd (wstep s (WWait None)) = WRNoChild <->
  (forall c, In c (w_ch s) -> is_reaped c = true).
Proof.
  cbn [wstep]. unfold w_wait.
  destruct (first_zomb (w_ch s) 0) as [[k0 w0]|] eqn:Ef.
  - split; [discriminate|]. intros H. exfalso.
    apply first_zomb_some in Ef. destruct Ef as [_ [c [Hn [Hz _]]]].
    apply nth_error_In in Hn. apply H in Hn. unfold is_reaped in Hn. rewrite Hz in Hn. discriminate.
  - destruct (existsb (fun c => negb (is_reaped c)) (w_ch s)) eqn:Ee; cbn [snd].
    + split; [discriminate|]. intros H. exfalso.
      apply existsb_exists in Ee. destruct Ee as [c [Hin Hc]]. rewrite (H c Hin) in Hc. discriminate.
    + split; auto. intros _ c Hin.
      destruct (is_reaped c) eqn:Er; auto. exfalso.
      assert (existsb (fun c => negb (is_reaped c)) (w_ch s) = true).
      { apply existsb_exists. exists c. rewrite Er. auto. }
      congruence.
Qed.

(* ---- a reaped child stays reaped and is never reported again ---------------------------- *)

Definition reaped_at (s : wstate) (k : nat) : Prop :=
  exists c, nth_error (w_ch s) k = Some c /\ is_reaped c = true.

Lemma child_signal_keeps s k0 c0 sig k :
  nth_error (w_ch s) k0 = Some c0 -> is_run c0 = true ->
  reaped_at s k -> reaped_at (fst (child_signal s k0 c0 sig)) k.
Proof.
  intros Hn0 Hr0 [c [Hn Hr]]. unfold child_signal.
  assert (Hne : k <> k0).
  { intros ->. rewrite Hn0 in Hn. inversion Hn; subst. unfold is_run, is_reaped in *.
    destruct (c_st c); discriminate. }
  destruct (negb (sig <? nfatal)%N); [exists c; auto|].
  destruct (mem_n sig (c_mask c0)); exists c; unfold set_child, die; cbn [fst w_ch];
    rewrite nth_set_nth_neq; auto.
Qed.

Lemma wstep_reaped_stays s o k : reaped_at s k -> reaped_at (fst (wstep s o)) k.
Proof.
  intros Hr. pose proof Hr as [c [Hn Hc]]. destruct o as [o'| |k0 cmd|k0 sig|t]; cbn [wstep].
  - destruct (parent_ok o'); [|exact Hr]. destruct (step (w_k s) o'). exact Hr.
  - destruct (negb (fork_ok _)); [exact Hr|]. exists c. cbn [fst w_ch]. split; auto.
    rewrite nth_error_app1; auto. apply nth_error_Some. congruence.
  - destruct (nth_error (w_ch s) k0) as [c0|] eqn:En0; [|exact Hr].
    destruct (is_run c0) eqn:Er0; [|exact Hr].
    assert (Hne : k <> k0).
    { intros ->. rewrite En0 in Hn. inversion Hn; subst. unfold is_run, is_reaped in *.
      destruct (c_st c); discriminate. }
    destruct cmd as [n|sig|how sigs|]; cbn [child_cmd].
    + destruct (255 <? n)%N; [exact Hr|]. exists c. unfold die. cbn [fst w_ch]. rewrite nth_set_nth_neq; auto.
    + apply child_signal_keeps; auto.
    + destruct (negb (forallb _ sigs) || (2 <? how)%N); [exact Hr|].
      destruct (filter _ (c_pend c0)) as [|x [|y l]]; try exact Hr;
        exists c; unfold set_child, die; cbn [fst w_ch]; rewrite nth_set_nth_neq; auto.
    + exists c. unfold set_child. cbn [fst w_ch]. rewrite nth_set_nth_neq; auto.
  - destruct (nth_error (w_ch s) k0) as [c0|] eqn:En0; [|exact Hr].
    destruct (is_run c0) eqn:Er0; [|exact Hr].
    apply child_signal_keeps; auto.
  - change (w_wait s t) with (wstep s (WWait t)).
    destruct (wstep s (WWait t)) as [s' r] eqn:E. cbn [fst].
    assert (Hsame : (forall k1 w, r <> WRGot k1 w) -> s' = s).
    { cbn [wstep] in E. unfold w_wait in E. intros Hng. destruct t as [k1|].
      - destruct (nth_error (w_ch s) k1) as [c1|]; [|inversion E; auto].
        destruct (c_st c1); inversion E; subst; auto. exfalso. eapply Hng; eauto.
      - destruct (first_zomb (w_ch s) 0) as [[? ?]|];
          [inversion E; subst; exfalso; eapply Hng; eauto|].
        destruct (existsb _ _); inversion E; subst; auto. }
    destruct r as [r| | |k1 w]; [assert (s' = s) as -> by (apply Hsame; intros; discriminate); exact Hr ..|].
    + apply wait_reports_zombie_l in E. destruct E as [c1 [Hn1 [Hz1 [_ [_ Hoth]]]]].
      assert (Hne : k <> k1).
      { intros ->. rewrite Hn1 in Hn. inversion Hn; subst. unfold is_reaped in Hc.
        rewrite Hz1 in Hc. discriminate. }
      exists c. rewrite Hoth; auto.
Qed.

Lemma wrun_reaped_stays ops : forall s k, reaped_at s k -> reaped_at (fst (wrun s ops)) k.
Proof.
  induction ops as [|o ops IH]; intros s k Hr; cbn; auto.
  pose proof (wstep_reaped_stays s o k Hr) as H1.
  destruct (wstep s o) as [s1 r]. cbn [fst] in H1.
  specialize (IH s1 k H1). destruct (wrun s1 ops) as [s2 rs]. exact IH.
Qed.

Lemma wstep_got_reaps s o k w : snd (wstep s o) = WRGot k w -> reaped_at (fst (wstep s o)) k.
Proof.
  intros H. destruct (wstep s o) as [s' r] eqn:E. cbn [fst snd] in *. subst r.
  destruct o as [o'| |k0 cmd|k0 sig|t].
  - cbn [wstep] in E. destruct (parent_ok o'); [|inversion E]. destruct (step (w_k s) o'). inversion E.
  - cbn [wstep] in E. destruct (negb (fork_ok _)); inversion E.
  - cbn [wstep] in E. destruct (nth_error (w_ch s) k0) as [c0|]; [|inversion E].
    destruct (is_run c0); [|inversion E].
    destruct cmd as [n|sig|how sigs|]; cbn [child_cmd] in E.
    + destruct (255 <? n)%N; inversion E.
    + unfold child_signal in E. destruct (negb _); [inversion E|]. destruct (mem_n _ _); inversion E.
    + destruct (negb (forallb _ sigs) || (2 <? how)%N); [inversion E|].
      destruct (filter _ (c_pend c0)) as [|x [|y l]]; inversion E.
    + inversion E.
  - cbn [wstep] in E. destruct (nth_error (w_ch s) k0) as [c0|]; [|inversion E].
    destruct (is_run c0); [|inversion E].
    unfold child_signal in E. destruct (negb _); [inversion E|]. destruct (mem_n _ _); inversion E.
  - apply wait_reports_zombie_l in E. destruct E as [c [_ [_ [Hn' _]]]].
    exists (with_st c CReaped). split; auto.
Qed.

Lemma wstep_reaped_not_got s o k w : reaped_at s k -> snd (wstep s o) <> WRGot k w.
Proof.
  intros [c [Hn Hc]] H. destruct (wstep s o) as [s' r] eqn:E. cbn [snd] in H. subst r.
  destruct o as [o'| |k0 cmd|k0 sig|t].
  - cbn [wstep] in E. destruct (parent_ok o'); [|inversion E]. destruct (step (w_k s) o'). inversion E.
  - cbn [wstep] in E. destruct (negb (fork_ok _)); inversion E.
  - cbn [wstep] in E. destruct (nth_error (w_ch s) k0) as [c0|]; [|inversion E].
    destruct (is_run c0); [|inversion E].
    destruct cmd as [n|sig|how sigs|]; cbn [child_cmd] in E.
    + destruct (255 <? n)%N; inversion E.
    + unfold child_signal in E. destruct (negb _); [inversion E|]. destruct (mem_n _ _); inversion E.
    + destruct (negb (forallb _ sigs) || (2 <? how)%N); [inversion E|].
      destruct (filter _ (c_pend c0)) as [|x [|y l]]; inversion E.
    + inversion E.
  - cbn [wstep] in E. destruct (nth_error (w_ch s) k0) as [c0|]; [|inversion E].
    destruct (is_run c0); [|inversion E].
    unfold child_signal in E. destruct (negb _); [inversion E|]. destruct (mem_n _ _); inversion E.
  - apply wait_reports_zombie_l in E. destruct E as [c1 [Hn1 [Hz1 _]]].
    rewrite Hn1 in Hn. inversion Hn; subst. unfold is_reaped in Hc. rewrite Hz1 in Hc. discriminate.
Qed.

Lemma wrun_reaped_not_got ops : forall s k w,
  reaped_at s k -> ~ In (WRGot k w) (snd (wrun s ops)).
Proof.
  induction ops as [|o ops IH]; intros s k w Hr; cbn; auto.
  pose proof (wstep_reaped_stays s o k Hr) as H1.
  pose proof (wstep_reaped_not_got s o k w Hr) as H2.
  destruct (wstep s o) as [s1 r]. cbn [fst snd] in *.
  specialize (IH s1 k w H1). destruct (wrun s1 ops) as [s2 rs]. cbn [snd] in *.
  intros [E|Hin]; auto.
Qed.

Lemma wrun_got_reaped ops : forall s k w,
  In (WRGot k w) (snd (wrun s ops)) -> reaped_at (fst (wrun s ops)) k.
Proof.
  induction ops as [|o ops IH]; intros s k w Hin; cbn in *; [contradiction|].
  pose proof (wstep_got_reaps s o k w) as H1.
  destruct (wstep s o) as [s1 r] eqn:E. cbn [fst snd] in *.
  specialize (IH s1 k w). pose proof (wrun_reaped_stays ops s1 k) as H2.
  destruct (wrun s1 ops) as [s2 rs]. cbn [fst snd] in *.
  destruct Hin as [->|Hin]; auto.
Qed.

(* a child that wait has reported is never reported a second time, whatever
   happens in between and afterwards *)
Lemma never_reported_twice_l s ops1 ops2 k w w' :
  In (WRGot k w) (snd (wrun s ops1)) ->
  ~ In (WRGot k w') (snd (wrun (fst (wrun s ops1)) ops2)).
Proof.
  intros H. apply wrun_reaped_not_got. eapply wrun_got_reaped; eauto.
Qed.

(* ... also within one run: at most one report per child *)
Fixpoint count_got (k : nat) (l : list wres) : nat :=
  match l with
  | [] => 0
  | WRGot k' _ :: l' => (if Nat.eqb k k' then 1 else 0) + count_got k l'
  | _ :: l' => count_got k l'
  end.

Lemma count_got_zero k l : (forall w, ~ In (WRGot k w) l) -> count_got k l = 0.
Proof.
  induction l as [|x l IH]; intros H; cbn; auto.
  assert (Hl : forall w, ~ In (WRGot k w) l) by (intros w Hin; apply (H w); right; auto).
  destruct x as [r| | |k' w]; auto.
  destruct (Nat.eqb k k') eqn:E; auto.
  apply Nat.eqb_eq in E. subst k'. exfalso. apply (H w). left. reflexivity.
Qed.

Lemma at_most_one_report_l ops : forall s k, count_got k (snd (wrun s ops)) <= 1.
Proof.
  induction ops as [|o ops IH]; intros s k; cbn; auto.
  pose proof (wstep_got_reaps s o k) as H1.
  destruct (wstep s o) as [s1 r] eqn:E. cbn [fst snd] in *.
  pose proof (IH s1 k) as H2. pose proof (wrun_reaped_not_got ops s1 k) as H3.
  destruct (wrun s1 ops) as [s2 rs]. cbn [snd] in *.
  destruct r as [r| | |k' w]; cbn; auto.
  destruct (Nat.eqb k k') eqn:Ek; auto.
  apply Nat.eqb_eq in Ek. subst k'.
  rewrite count_got_zero; auto. intros w'. apply H3. eapply H1. reflexivity.
Qed.

(* ---- SIGCHLD goes to the parent, whatever the child's process group ----------------------- *)

(* a command in which child k dies: the parent is notified, the child is a
   zombie, the other children are untouched — independent of [c_own] *)
Lemma child_death_notifies_parent_l s k c cmd :
  nth_error (w_ch s) k = Some c -> is_run c = true ->
  snd (wstep s (WCmd k cmd)) = WR RSkip ->
  w_k (fst (wstep s (WCmd k cmd))) = notify_parent (w_k s) /\
  (exists c', nth_error (w_ch (fst (wstep s (WCmd k cmd)))) k = Some c' /\ zomb_of c' <> None) /\
  (forall j, j <> k -> nth_error (w_ch (fst (wstep s (WCmd k cmd)))) j = nth_error (w_ch s) j).
Proof.
  intros Hn Hr. cbn [wstep]. rewrite Hn, Hr.
  destruct cmd as [n|sig|how sigs|]; cbn [child_cmd].
  - destruct (255 <? n)%N; cbn; [discriminate|]. intros _. repeat split.
    + eexists. split; [eapply nth_set_nth_eq; eauto|]. cbn. discriminate.
    + intros j Hj. apply nth_set_nth_neq; auto.
  - unfold child_signal. destruct (negb _); cbn; [discriminate|].
    destruct (mem_n sig (c_mask c)); cbn; [discriminate|]. intros _. repeat split.
    + eexists. split; [eapply nth_set_nth_eq; eauto|]. cbn. discriminate.
    + intros j Hj. apply nth_set_nth_neq; auto.
  - destruct (negb (forallb _ sigs) || (2 <? how)%N); cbn; [discriminate|].
    destruct (filter _ (c_pend c)) as [|x [|y l]]; cbn; try discriminate. intros _. repeat split.
    + eexists. split; [eapply nth_set_nth_eq; eauto|]. cbn. discriminate.
    + intros j Hj. apply nth_set_nth_neq; auto.
  - cbn. discriminate.
Qed.

(* the parent catches SIGCHLD and does not block it: after the notification it
   has been caught *)
Lemma notify_parent_caught_l k :
  get_disp (g_disp (p_sig (k_cur k))) sigchld = DCatch ->
  mem_n sigchld (g_mask (p_sig (k_cur k))) = false ->
  mem_n sigchld (g_caught (p_sig (k_cur (notify_parent k)))) = true.
Proof.
  intros Hd Hm. unfold notify_parent, notify, generate. rewrite Hd, Hm. cbn. apply mem_insert_n.
Qed.

(* death inside sigprocmask of a child in a process group of its own, with a
   sibling alive: the parent has caught SIGCHLD, wait(-1) reports this child
   and the signal, the sibling is still running *)
Lemma unblock_death_own_group_l s k c sig :
  nth_error (w_ch s) k = Some c -> c_st c = CRun -> c_own c = true ->
  c_mask c = [sig] -> c_pend c = [sig] -> (sig < 5)%N ->
  (forall j cj, j < k -> nth_error (w_ch s) j = Some cj -> zomb_of cj = None) ->
  get_disp (g_disp (p_sig (k_cur (w_k s)))) sigchld = DCatch ->
  mem_n sigchld (g_mask (p_sig (k_cur (w_k s)))) = false ->
  let s1 := fst (wstep s (WCmd k (CMask 1 [sig]))) in
  snd (wstep s (WCmd k (CMask 1 [sig]))) = WR RSkip /\
  mem_n sigchld (g_caught (p_sig (k_cur (w_k s1)))) = true /\
  snd (wstep s1 (WWait None)) = WRGot k (WSignaled sig).
Proof.
  intros Hn Hst Hown Hmask Hpend Hlt Hold Hd Hm.
  assert (Hcases : (sig = 0 \/ sig = 1 \/ sig = 2 \/ sig = 3 \/ sig = 4)%N) by lia.
  assert (Hrun : is_run c = true) by (unfold is_run; rewrite Hst; reflexivity).
  cbn zeta. cbn [wstep]. rewrite Hn, Hrun. cbn [child_cmd]. rewrite Hmask, Hpend.
  assert (Hstep :
    (if negb (forallb (fun x : N => (x <? nfatal)%N) [sig]) || (2 <? 1)%N then (s, WR ROut)
     else match filter (fun sig0 : N => negb (mem_n sig0
                     (if (1 =? 0)%N then fold_right insert_n [sig] [sig]
                      else if (1 =? 1)%N then fold_right remove_n [sig] [sig] else norm_set [sig]))) [sig] with
          | [] => (set_child s k (mkC CRun
                     (if (1 =? 0)%N then fold_right insert_n [sig] [sig]
                      else if (1 =? 1)%N then fold_right remove_n [sig] [sig] else norm_set [sig]) [sig] (c_own c)), WR RUnit)
          | [sig0] => (die s k (mkC CRun
                     (if (1 =? 0)%N then fold_right insert_n [sig] [sig]
                      else if (1 =? 1)%N then fold_right remove_n [sig] [sig] else norm_set [sig])
                     (remove_n sig0 [sig]) (c_own c)) (WSignaled sig0), WR RSkip)
          | _ => (s, WR ROut)
          end)
    = (die s k (mkC CRun [] [] (c_own c)) (WSignaled sig), WR RSkip)).
  { destruct Hcases as [E|[E|[E|[E|E]]]]; subst sig; reflexivity. }
  rewrite Hstep. cbn [fst snd]. split; [reflexivity|]. split.
  - unfold die. cbn [w_k]. apply notify_parent_caught_l; auto.
  - unfold w_wait, die. cbn [w_ch].
    destruct (first_zomb (set_nth (w_ch s) k (with_st (mkC CRun [] [] (c_own c)) (CZomb (WSignaled sig)))) 0)
      as [[k0 w0]|] eqn:Ef.
    + pose proof Ef as Ef'. apply first_zomb_some in Ef. destruct Ef as [_ [c0 [Hn0 [Hz0 Hm0]]]].
      replace (k0 - 0) with k0 in * by lia.
      destruct (Nat.lt_trichotomy k0 k) as [Hlt0|[->|Hgt]].
      * rewrite nth_set_nth_neq in Hn0 by lia. specialize (Hold k0 c0 Hlt0 Hn0).
        unfold zomb_of in Hold. rewrite Hz0 in Hold. discriminate.
      * erewrite nth_set_nth_eq in Hn0 by eauto. inversion Hn0; subst c0. cbn in Hz0.
        inversion Hz0; subst. reflexivity.
      * exfalso. assert (Hk : nth_error (set_nth (w_ch s) k
                   (with_st (mkC CRun [] [] (c_own c)) (CZomb (WSignaled sig)))) k =
                   Some (with_st (mkC CRun [] [] (c_own c)) (CZomb (WSignaled sig))))
          by (eapply nth_set_nth_eq; eauto).
        specialize (Hm0 k _ Hgt Hk). cbn in Hm0. discriminate.
    + exfalso. rewrite first_zomb_none in Ef.
      assert (Hk : nth_error (set_nth (w_ch s) k
                   (with_st (mkC CRun [] [] (c_own c)) (CZomb (WSignaled sig)))) k =
                   Some (with_st (mkC CRun [] [] (c_own c)) (CZomb (WSignaled sig))))
        by (eapply nth_set_nth_eq; eauto).
      apply nth_error_In in Hk. apply Ef in Hk. cbn in Hk. discriminate.
Qed.

(* Model.v (one live child at a time): a child that dies inside its own
   sigprocmask call — whatever process group it is in, and also when its parent
   is itself a waiting child that does not lead its group — has SIGCHLD sent to
   its PARENT, which catches it; the processes above the parent are untouched *)
Lemma unblock_death_sigchld_to_parent_only_l s parent rest sig :
  k_skip s = None -> k_susp s = parent :: rest ->
  g_mask (p_sig (k_cur s)) = [sig] -> g_pend (p_sig (k_cur s)) = [sig] ->
  get_disp (g_disp (p_sig (k_cur s))) sig = DDefault -> (sig < 5)%N ->
  get_disp (g_disp (p_sig parent)) sigchld = DCatch ->
  mem_n sigchld (g_mask (p_sig parent)) = false ->
  let s2 := fst (step (fst (k_sigmask s 1 [sig])) OExit) in
  mem_n sigchld (g_caught (p_sig (k_cur s2))) = true /\ k_susp s2 = rest /\
  strip (k_cur s2) = strip parent.
Proof.
  intros Hn Hs Hmask Hpend Hd Hlt Hdc Hmc.
  destruct (death_at_unblock_l s parent rest sig Hn Hs Hmask Hpend Hd Hlt) as [_ H2].
  cbn zeta. rewrite H2. cbn [fst k_cur k_susp]. repeat split.
  - unfold notify, generate. rewrite Hdc, Hmc. cbn. apply mem_insert_n.
  - apply strip_notify.
Qed.

(* ---- oracle of the wait stream --------------------------------------------------------- *)

Lemma wstat_eqb_eq a b : wstat_eqb a b = true -> a = b.
Proof. destruct a, b; cbn; try discriminate; intros H; apply N.eqb_eq in H; congruence. Qed.
Lemma wstat_eqb_refl a : wstat_eqb a a = true.
Proof. destruct a; cbn; apply N.eqb_refl. Qed.

Lemma wres_eqb_eq a b : wres_eqb a b = true -> a = b.
Proof.
  destruct a, b; cbn; try discriminate; auto.
  - intros H. apply res_eqb_eq in H. congruence.
  - intros H. apply andb_true_iff in H. destruct H as [H1 H2].
    apply Nat.eqb_eq in H1. apply wstat_eqb_eq in H2. congruence.
Qed.
Lemma wres_eqb_refl a : wres_eqb a a = true.
Proof. destruct a; cbn; auto. - apply res_eqb_refl. - rewrite Nat.eqb_refl, wstat_eqb_refl. reflexivity. Qed.

Lemma wait_oracle_complete_l v : forall r, wait_oracle v r = None -> wait_agree v r.
Proof.
  unfold wait_agree. induction v as [|x v IH]; intros [|y r]; cbn; try discriminate; auto.
  destruct (wres_eqb x y) eqn:E; [|discriminate]. intros H.
  apply wres_eqb_eq in E. apply IH in H. congruence.
Qed.

Lemma wait_oracle_refl v : wait_oracle v v = None.
Proof. induction v as [|x v IH]; cbn; auto. rewrite wres_eqb_refl. exact IH. Qed.

Lemma wait_oracle_sound_l ops :
  whas_out (wmodel_obs ops) = false ->
  run_case (CWait ops (wmodel_obs ops) (wmodel_obs ops)) = 0%N.
Proof.
  intros H. unfold run_case. rewrite wait_oracle_refl, H.
  rewrite (list_eqb_refl _ wres_eqb_refl). reflexivity.
Qed.

(* ---- witnesses -------------------------------------------------------------------------- *)

(* two children alive together; the younger one (in a group of its own) dies
   inside its sigprocmask call, then the older one exits; SIGCHLD accounting
   and every kind of wait result *)
Definition ex_wait_ops : list wop :=
  [WParent (OSigaction 6 DCatch); WParent (OSigmask 0 [2%N]); WFork; WFork;
   WWait None; WCmd 1 CSetpgid; WKill 1 2; WParent OCaught; WWait (Some 1);
   WCmd 1 (CMask 1 [2%N]); WParent OCaught; WWait (Some 0); WWait None; WWait None;
   WCmd 0 (CExit 7); WParent OCaught; WWait (Some 1); WWait (Some 0); WWait None].

Lemma ex_wait_run :
  wmodel_obs ex_wait_ops =
  [WR (RDisp DDefault); WR (RSigs []); WR RUnit; WR RUnit;
   WRNone; WR RUnit; WR RUnit; WR (RSigs []); WRNone;
   WR RSkip; WR (RSigs [6%N]); WRNone; WRGot 1 (WSignaled 2); WRNone;
   WR RSkip; WR (RSigs [6%N]); WRNoChild; WRGot 0 (WExited 7); WRNoChild].
Proof. vm_compute. reflexivity. Qed.

(* the oracle rejects a simulator that loses the SIGCHLD of that death *)
Lemma ex_wait_oracle_rejects :
  run_case (CWait ex_wait_ops
    [WR (RDisp DDefault); WR (RSigs []); WR RUnit; WR RUnit;
     WRNone; WR RUnit; WR RUnit; WR (RSigs []); WRNone;
     WR RSkip; WR (RSigs []); WRNone; WRGot 1 (WSignaled 2); WRNone;
     WR RSkip; WR (RSigs [6%N]); WRNoChild; WRGot 0 (WExited 7); WRNoChild]
    (wmodel_obs ex_wait_ops)) = 26%N.
Proof. vm_compute. reflexivity. Qed.
