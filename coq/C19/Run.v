(* C19 — what the correspondence check evaluates on every case. *)
From Yv Require Export Common.Base C19.Model C19.Spec C19.Wait.

(* One case is either
     - a system-call sequence with what VirtualSystem and RealSystem showed, or
     - a script with what the shell showed on the simulated and on the real OS. *)
Inductive case :=
| CSys (tree : list init_entry) (um : N) (ops : list op) (v r : sysobs)
| CScript (v r : scriptobs)
  (* a script of real built-ins only: simulated OS, the harness's shell on the
     real OS, and the yash3 binary built from /repo on the real OS *)
| CScript3 (v r y : scriptobs)
  (* several children alive together: the results of the parent's calls on the
     simulated and on the real OS (Wait.v) *)
| CWait (ops : list wop) (v r : list wres).

Definition has_out (l : list res) : bool :=
  existsb (fun x => match x with ROut => true | _ => false end) l.

Definition model_obs (tree : list init_entry) (um : N) (ops : list op) : sysobs :=
  let '(s, rs) := run (init_state tree um) ops in
  mkSysObs rs (snapshot s) (std_files s).

Definition sysobs_eqb (a b : sysobs) : bool :=
  list_eqb res_eqb (so_res a) (so_res b) &&
  tree_eqb (so_tree a) (so_tree b) &&
  list_eqb str_eqb (so_std a) (so_std b).

Definition wmodel_obs (ops : list wop) : list wres := snd (wrun winit ops).

Definition run_case (c : case) : verdict :=
  match c with
  | CSys tree um ops v r =>
      (* the oracle first, on the two implementations' outputs only *)
      let m := model_obs tree um ops in
      match sys_oracle ops v r with
      | Some k =>
          (* a violation; the pivot only says which side deviates from POSIX *)
          if sysobs_eqb m r then (2 + k)%N            (* the simulator deviates *)
          else if sysobs_eqb m v then (30 + k)%N      (* the real system deviates from simulator and pivot *)
          else (60 + k)%N                             (* all three differ *)
      | None =>
          if has_out (so_res m) then 99%N             (* generator left the domain *)
          else if sysobs_eqb m v then 0%N else 1%N   (* the pivot disagrees with both *)
      end
  | CScript v r =>
      match script_oracle v r with
      | Some k => (2 + k)%N
      | None => 0%N
      end
  | CScript3 v r y =>
      (* the property, literally: simulated OS against the real binary *)
      match script_oracle v y with
      | Some k => (2 + k)%N
      | None =>
          (* and the real side of stream 2 is the same shell as the binary *)
          match script_oracle r y with
          | Some _ => 25%N
          | None => 0%N
          end
      end
  | CWait ops v r =>
      let m := wmodel_obs ops in
      match wait_oracle v r with
      | Some k =>
          if list_eqb wres_eqb m r then (2 + k)%N
          else if list_eqb wres_eqb m v then (30 + k)%N
          else (60 + k)%N
      | None =>
          if whas_out m then 99%N
          else if list_eqb wres_eqb m v then 0%N else 1%N
      end
  end.

Definition run_cases := run_cases_with run_case.
