(* C15 — the relay protocol delivers exactly once. *)
From Yv Require Import Common.Base C15.Model C15.Spec.

Definition waiting (r : relay) : Prop := r = RlPending \/ exists w, r = RlPolled w.

Definition holder (r : relay) : option tid :=
  match r with RlPolled w => Some w | _ => None end.

(* before the send nothing is delivered, nothing panics, the relay remembers
   the last poller *)
Lemma before_send (ops : list rop) : forall r, waiting r -> no_send ops ->
  deliveries (relay_run r ops) = [] /\
  ~ In RoPanic (relay_run r ops) /\
  exists r', waiting r' /\ holder r' = last_poller ops (holder r) /\
    forall ops2, relay_run r (ops ++ ops2) = relay_run r ops ++ relay_run r' ops2.
Proof.
  induction ops as [|o ops IH]; intros r Hw Hn.
  - cbn. split; [reflexivity|]. split; [intros []|]. exists r. split; [exact Hw|]. split; reflexivity.
  - unfold no_send in Hn. cbn in Hn. apply andb_true_iff in Hn. destruct Hn as [Ho Hn].
    destruct o as [v|w|]; [discriminate| |].
    + assert (E : relay_op r (RPoll w) = (RlPolled w, RoPending)).
      { destruct Hw as [->|[w0 ->]]; reflexivity. }
      cbn [relay_run app]. rewrite E.
      destruct (IH (RlPolled w)) as [H1 [H2 [r' [H3 [H4 H5]]]]]; [right; eexists; reflexivity | exact Hn |].
      split; [exact H1|]. split; [intros [H|H]; [discriminate | exact (H2 H)]|].
      exists r'. split; [exact H3|]. split; [exact H4|].
      intros ops2. cbn. rewrite H5. reflexivity.
    + assert (E : relay_op r RTry = (r, RoTry TNotSent)).
      { destruct Hw as [->|[w0 ->]]; reflexivity. }
      cbn [relay_run app]. rewrite E.
      destruct (IH r Hw Hn) as [H1 [H2 [r' [H3 [H4 H5]]]]].
      split; [exact H1|]. split; [intros [H|H]; [discriminate | exact (H2 H)]|].
      exists r'. split; [exact H3|]. split; [exact H4|].
      intros ops2. cbn. rewrite H5. reflexivity.
Qed.

(* after the send: the first receive gets v, later try_receive say "already" *)
Lemma after_done (ops : list rop) : no_send ops ->
  deliveries (relay_run RlDone ops) = [].
Proof.
  induction ops as [|o ops IH]; intros Hn; [reflexivity|].
  unfold no_send in Hn. cbn in Hn. apply andb_true_iff in Hn. destruct Hn as [Ho Hn].
  destruct o as [v|w|]; [discriminate| |]; cbn; apply IH; exact Hn.
Qed.

Lemma after_send (v : N) (ops : list rop) : no_send ops ->
  deliveries (relay_run (RlComputed v) ops) = if existsb is_receive ops then [v] else [].
Proof.
  intros Hn. destruct ops as [|o ops]; [reflexivity|].
  unfold no_send in Hn. cbn in Hn. apply andb_true_iff in Hn. destruct Hn as [Ho Hn].
  destruct o as [v'|w|]; [discriminate| |]; cbn; rewrite after_done; auto.
Qed.

Lemma relay_exactly_once_l : forall ops1 v ops2,
  no_send ops1 -> no_send ops2 ->
  let outs := relay_run RlPending (ops1 ++ RSend v :: ops2) in
  deliveries outs = (if existsb is_receive ops2 then [v] else []) /\
  nth_error outs (length ops1) = Some (RoSent (last_poller ops1 None)).
Proof.
  intros ops1 v ops2 H1 H2 outs.
  destruct (before_send ops1 RlPending) as [D1 [_ [r' [W [Hh Happ]]]]]; [left; reflexivity | exact H1 |].
  unfold outs. rewrite Happ.
  assert (L : length (relay_run RlPending ops1) = length ops1).
  { clear. generalize RlPending. induction ops1 as [|o l IH]; intros r; [reflexivity|].
    cbn. destruct (relay_op r o). cbn. rewrite IH. reflexivity. }
  assert (Dapp : forall a b, deliveries (a ++ b) = deliveries a ++ deliveries b).
  { induction a as [|x a IH]; intros b; [reflexivity|].
    destruct x as [| | |res|]; cbn; try apply IH; [rewrite IH; reflexivity|].
    destruct res; cbn; try apply IH. rewrite IH. reflexivity. }
  assert (E : relay_op r' (RSend v) = (RlComputed v, RoSent (holder r'))).
  { destruct W as [->|[w ->]]; reflexivity. }
  split.
  - rewrite Dapp, D1. cbn [app relay_run]. rewrite E. cbn [deliveries]. apply after_send. exact H2.
  - rewrite nth_error_app2; [|rewrite L; apply le_n]. rewrite L, Nat.sub_diag.
    cbn [relay_run]. rewrite E. cbn. rewrite Hh. reflexivity.
Qed.

Lemma relay_nothing_without_send_l : forall ops, no_send ops ->
  deliveries (relay_run RlPending ops) = [] /\ ~ In RoPanic (relay_run RlPending ops).
Proof.
  intros ops H. destruct (before_send ops RlPending) as [D [P _]]; [left; reflexivity | exact H |].
  split; assumption.
Qed.
