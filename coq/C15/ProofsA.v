(* C15 — proofs about the executor machine (Level A): every list of
   operations, every behaviour of the polled futures. *)
From Yv Require Import Common.Base C15.Model C15.Spec.
From Coq Require Import Arith.

Lemma mem_In (t : nat) (l : list nat) : mem t l = true <-> In t l.
Proof.
  unfold mem. rewrite existsb_exists. split.
  - intros [x [Hin Heq]]. apply Nat.eqb_eq in Heq. subst. exact Hin.
  - intros Hin. exists t. split; [exact Hin | apply Nat.eqb_refl].
Qed.

Lemma mem_false (t : nat) (l : list nat) : mem t l = false <-> ~ In t l.
Proof.
  rewrite <- mem_In. destruct (mem t l).
  - split; [discriminate | intros H; exfalso; apply H; reflexivity].
  - split; [intros _; discriminate | reflexivity].
Qed.

Lemma NoDup_snoc (x : nat) (l : list nat) : NoDup l -> ~ In x l -> NoDup (l ++ [x]).
Proof.
  intros Hnd Hx. induction l as [|y l IH]; cbn.
  - constructor; [intros []|constructor].
  - inversion Hnd as [|y' l' Hy Hl]; subst. constructor.
    + rewrite in_app_iff. intros [H|[H|[]]]; [exact (Hy H)|]. subst. apply Hx. left. reflexivity.
    + apply IH; [exact Hl|]. intros H. apply Hx. right. exact H.
Qed.

(* ---- the invariant ----------------------------------------------------- *)

Record InvA (m : mach) : Prop := {
  ia_nodup : NoDup (queue (mex m));
  ia_range : forall t, In t (queue (mex m)) -> t < ntasks (mex m);
  ia_pending : forall t, pending_wake t (trace m) = true <-> In t (queue (mex m));
  ia_running : forall t, running m = Some t -> ~ In t (dones (mex m)) /\ t < ntasks (mex m);
  ia_dones : forall t, In (GEnd t true) (trace m) -> In t (dones (mex m))
}.

Lemma InvA_init : InvA mach0.
Proof.
  constructor; cbn.
  - constructor.
  - intros t [].
  - intros t. split; [discriminate | intros []].
  - intros t H. discriminate.
  - intros t [].
Qed.

Lemma InvA_step (m : mach) (o : op) : InvA m -> InvA (mstep m o).
Proof.
  intros HI. pose proof HI as [Hnd Hrg Hpd Hrn Hdn].
  assert (Hdn' : forall e, (forall t, e <> GEnd t true) ->
            forall t, In (GEnd t true) (e :: trace m) -> In t (dones (mex m))).
  { intros e He t [H|H]; [exfalso; exact (He t H) | apply Hdn; exact H]. }
  destruct o as [| t0 | | r]; cbn [mstep].
  - (* spawn *)
    constructor; cbn.
    + apply NoDup_snoc; [exact Hnd|]. intros H. apply Hrg in H. lia.
    + intros t H. rewrite in_app_iff in H. destruct H as [H|[H|[]]]; [apply Hrg in H|]; lia.
    + intros t. rewrite in_app_iff. destruct (Nat.eqb_spec (ntasks (mex m)) t) as [E|E].
      * split; [intros _; right; left; exact E | reflexivity].
      * rewrite Hpd. split; [intros H; left; exact H|].
        intros [H|[H|[]]]; [exact H | contradiction].
    + intros t H. destruct (Hrn t H) as [H1 H2]. split; [exact H1 | lia].
    + apply Hdn'. intros t H. discriminate.
  - (* wake *)
    destruct (Nat.ltb_spec t0 (ntasks (mex m))) as [Hlt|Hge]; [|exact HI].
    unfold wake. destruct (mem t0 (queue (mex m))) eqn:Hm.
    + apply mem_In in Hm. constructor; cbn.
      * exact Hnd.
      * exact Hrg.
      * intros t. destruct (Nat.eqb_spec t0 t) as [E|E].
        -- subst. split; [intros _; exact Hm | reflexivity].
        -- apply Hpd.
      * exact Hrn.
      * apply Hdn'. intros t H. discriminate.
    + apply mem_false in Hm. constructor; cbn.
      * apply NoDup_snoc; assumption.
      * intros t H. rewrite in_app_iff in H. destruct H as [H|[H|[]]]; [apply Hrg; exact H | subst; exact Hlt].
      * intros t. rewrite in_app_iff. destruct (Nat.eqb_spec t0 t) as [E|E].
        -- split; [intros _; right; left; exact E | reflexivity].
        -- rewrite Hpd. split; [intros H; left; exact H|].
           intros [H|[H|[]]]; [exact H | contradiction].
      * exact Hrn.
      * apply Hdn'. intros t H. discriminate.
  - (* begin *)
    destruct (running m) as [u|] eqn:Hr; [exact HI|].
    unfold pop. destruct (queue (mex m)) as [|t q] eqn:Hq.
    + constructor; cbn.
      * rewrite Hq. exact Hnd.
      * rewrite Hq. exact Hrg.
      * rewrite Hq. exact Hpd.
      * intros t H. discriminate.
      * apply Hdn'. intros t H. discriminate.
    + inversion Hnd as [|t' q' Ht Hq']; subst.
      assert (Hpd' : forall u, (if Nat.eqb t u then false else pending_wake u (trace m)) = true <-> In u q).
      { intros u. destruct (Nat.eqb_spec t u) as [E|E].
        - subst. split; [discriminate | intros H; contradiction].
        - rewrite Hpd. split; [intros [H|H]; [contradiction | exact H] | intros H; right; exact H]. }
      assert (Hrg' : forall u, In u q -> u < ntasks (mex m)).
      { intros u H. apply Hrg. right. exact H. }
      unfold is_done. cbn [dones]. destruct (mem t (dones (mex m))) eqn:Hd.
      * constructor; cbn.
        -- exact Hq'.
        -- exact Hrg'.
        -- exact Hpd'.
        -- intros u H. discriminate.
        -- apply Hdn'. intros u H. discriminate.
      * apply mem_false in Hd. constructor; cbn.
        -- exact Hq'.
        -- exact Hrg'.
        -- exact Hpd'.
        -- intros u H. inversion H; subst. split; [exact Hd | apply Hrg; left; reflexivity].
        -- apply Hdn'. intros u H. discriminate.
  - (* end *)
    destruct (running m) as [u|] eqn:Hr; [|exact HI].
    destruct (Hrn u eq_refl) as [Hu1 Hu2].
    unfold finish. destruct r; constructor; cbn.
    + exact Hnd.
    + exact Hrg.
    + exact Hpd.
    + intros t H. discriminate.
    + intros t [H|H]; [inversion H; left; reflexivity | right; apply Hdn; exact H].
    + exact Hnd.
    + exact Hrg.
    + exact Hpd.
    + intros t H. discriminate.
    + apply Hdn'. intros t H. discriminate.
Qed.

Lemma InvA_run (ops : list op) : forall m, InvA m -> InvA (mrun m ops).
Proof.
  induction ops as [|o ops IH]; intros m H; cbn; [exact H|].
  apply IH. apply InvA_step. exact H.
Qed.

Lemma InvA_reach (ops : list op) : InvA (mrun mach0 ops).
Proof. apply InvA_run. apply InvA_init. Qed.

(* ---- theorems ------------------------------------------------------------ *)

Lemma queue_nodup_l : forall ops, NoDup (queue (mex (mrun mach0 ops))).
Proof. intros ops. apply ia_nodup. apply InvA_reach. Qed.

Lemma no_lost_wakeup_l : forall ops t,
  pending_wake t (trace (mrun mach0 ops)) = true <-> In t (queue (mex (mrun mach0 ops))).
Proof. intros ops t. apply ia_pending. apply InvA_reach. Qed.

Lemma wake_count_l : forall ops,
  let m := mrun mach0 ops in
  NoDup (queue (mex m)) /\
  forall t, In t (queue (mex m)) <-> pending_wake t (trace m) = true.
Proof.
  intros ops m. split; [apply queue_nodup_l|]. intros t. symmetry. apply no_lost_wakeup_l.
Qed.

Lemma stall_no_pending_l : forall ops,
  queue (mex (mrun mach0 ops)) = [] -> forall t, pending_wake t (trace (mrun mach0 ops)) = false.
Proof.
  intros ops Hq t. destruct (pending_wake t (trace (mrun mach0 ops))) eqn:E; [|reflexivity].
  apply no_lost_wakeup_l in E. rewrite Hq in E. destruct E.
Qed.

(* a finished future is never polled again *)
Definition NoPollAfterEnd (m : mach) : Prop :=
  forall t tr1 tr2, trace m = tr2 ++ GEnd t true :: tr1 -> ~ In (GBegin t) tr2.

Lemma npe_step (m : mach) (o : op) : InvA m -> NoPollAfterEnd m -> NoPollAfterEnd (mstep m o).
Proof.
  intros HI Hn.
  assert (Hcons : forall e, (forall t, e = GBegin t -> ~ In t (dones (mex m))) ->
            forall t tr1 tr2, e :: trace m = tr2 ++ GEnd t true :: tr1 -> ~ In (GBegin t) tr2).
  { intros e He t tr1 tr2 Heq. destruct tr2 as [|e' tr2]; [intros []|].
    cbn in Heq. inversion Heq as [[E1 E2]]. subst e'. intros [Hin|Hin].
    - apply (He t Hin). apply (ia_dones m HI). rewrite E2. apply in_or_app. right. left. reflexivity.
    - exact (Hn t tr1 tr2 E2 Hin). }
  destruct o as [| t0 | | r]; cbn [mstep].
  - unfold NoPollAfterEnd. cbn. apply Hcons. intros t H. discriminate.
  - destruct (Nat.ltb t0 (ntasks (mex m))); [|exact Hn].
    unfold NoPollAfterEnd. cbn. apply Hcons. intros t H. discriminate.
  - destruct (running m); [exact Hn|]. unfold pop. destruct (queue (mex m)) as [|t q].
    + unfold NoPollAfterEnd. cbn. apply Hcons. intros t H. discriminate.
    + unfold is_done. cbn [dones]. destruct (mem t (dones (mex m))) eqn:Hd.
      * unfold NoPollAfterEnd. cbn. apply Hcons. intros u H. discriminate.
      * unfold NoPollAfterEnd. cbn. apply Hcons. intros u H. inversion H; subst.
        apply mem_false. exact Hd.
  - destruct (running m); [|exact Hn].
    unfold NoPollAfterEnd. cbn. apply Hcons. intros u H. discriminate.
Qed.

Lemma npe_run (ops : list op) : forall m, InvA m -> NoPollAfterEnd m -> NoPollAfterEnd (mrun m ops).
Proof.
  induction ops as [|o ops IH]; intros m HI Hn; cbn; [exact Hn|].
  apply IH; [apply InvA_step; exact HI | apply npe_step; assumption].
Qed.

Lemma completed_never_polled_l : forall ops t tr1 tr2,
  trace (mrun mach0 ops) = tr2 ++ GEnd t true :: tr1 -> ~ In (GBegin t) tr2.
Proof.
  intros ops. apply npe_run; [apply InvA_init|].
  intros t tr1 tr2 H. destruct tr2; discriminate.
Qed.

(* polls do not nest *)
Lemma bracket_app (l1 l2 : list gevent) (cur : option tid) :
  bracket cur (l1 ++ l2) = match bracket cur l1 with Some c => bracket c l2 | None => None end.
Proof.
  revert cur. induction l1 as [|e l1 IH]; intros cur; cbn; [reflexivity|].
  destruct e; destruct cur; cbn; try reflexivity; try apply IH.
  destruct (Nat.eqb t0 t); [apply IH | reflexivity].
Qed.

Lemma bracket_step (m : mach) (o : op) :
  bracket None (rev (trace m)) = Some (running m) ->
  bracket None (rev (trace (mstep m o))) = Some (running (mstep m o)).
Proof.
  intros H. destruct o as [| t0 | | r]; cbn [mstep].
  - cbn. rewrite bracket_app, H. cbn. destruct (running m); reflexivity.
  - destruct (Nat.ltb t0 (ntasks (mex m))); [|exact H].
    cbn. rewrite bracket_app, H. cbn. destruct (running m); reflexivity.
  - destruct (running m) eqn:Hr; [rewrite Hr; exact H|].
    destruct (pop (mex m)) as [[t e]|].
    + destruct (is_done e t); cbn; rewrite bracket_app, H; reflexivity.
    + cbn. rewrite bracket_app, H. reflexivity.
  - destruct (running m) as [u|] eqn:Hr; [|rewrite Hr; exact H].
    cbn. rewrite bracket_app, H. cbn. rewrite Nat.eqb_refl. reflexivity.
Qed.

Lemma no_reentrant_l : forall ops,
  bracket None (rev (trace (mrun mach0 ops))) = Some (running (mrun mach0 ops)).
Proof.
  intros ops. unfold mrun.
  assert (G : forall m, bracket None (rev (trace m)) = Some (running m) ->
              bracket None (rev (trace (fold_left mstep ops m))) = Some (running (fold_left mstep ops m))).
  { induction ops as [|o ops IH]; intros m H; cbn; [exact H|]. apply IH. apply bracket_step. exact H. }
  apply G. reflexivity.
Qed.

(* ---- FIFO: bounded waiting ------------------------------------------------- *)

Definition ext_of (m m' : mach) : Prop :=
  running m' = running m /\ exists suf, queue (mex m') = queue (mex m) ++ suf.

Lemma ext_refl m : ext_of m m.
Proof. split; [reflexivity | exists []; rewrite app_nil_r; reflexivity]. Qed.

Lemma ext_trans m1 m2 m3 : ext_of m1 m2 -> ext_of m2 m3 -> ext_of m1 m3.
Proof.
  intros [R1 [s1 Q1]] [R2 [s2 Q2]]. split; [congruence|].
  exists (s1 ++ s2). rewrite Q2, Q1, app_assoc. reflexivity.
Qed.

Lemma effect_ext (m : mach) (f : effect) : ext_of m (mstep m (op_of_effect f)).
Proof.
  destruct f as [t|]; cbn [op_of_effect mstep].
  - destruct (Nat.ltb t (ntasks (mex m))); [|apply ext_refl].
    split; [reflexivity|]. cbn. unfold wake. destruct (mem t (queue (mex m))).
    + exists []. rewrite app_nil_r. reflexivity.
    + exists [t]. reflexivity.
  - split; [reflexivity|]. cbn. exists [ntasks (mex m)]. reflexivity.
Qed.

Lemma effects_ext (fs : list effect) : forall m, ext_of m (mrun m (map op_of_effect fs)).
Proof.
  induction fs as [|f fs IH]; intros m; cbn; [apply ext_refl|].
  eapply ext_trans; [apply effect_ext | apply IH].
Qed.

(* one step of the loop on a non-empty queue: the head is taken, the rest of
   the queue keeps its order, new entries go behind it *)
Lemma gstep_queue (m : mach) (beh : behaviour) (h : tid) (q : list tid) :
  running m = None -> queue (mex m) = h :: q ->
  running (gstep m beh) = None /\ exists suf, queue (mex (gstep m beh)) = q ++ suf.
Proof.
  intros Hr Hq. unfold gstep. cbn [mstep]. rewrite Hr. unfold pop. rewrite Hq.
  destruct (is_done _ h); cbn [running].
  - split; [reflexivity|]. cbn. exists []. rewrite app_nil_r. reflexivity.
  - set (m1 := mkMach _ (Some h) _).
    destruct (effects_ext (fst (beh h)) m1) as [R [suf Q]].
    cbn [mstep]. rewrite R. cbn [running m1]. split; [reflexivity|].
    cbn [mex]. unfold finish. exists suf.
    destruct (snd (beh h)); cbn [queue]; rewrite Q; reflexivity.
Qed.

Lemma taken_next_head (m : mach) (t : tid) (q : list tid) :
  running m = None -> queue (mex m) = t :: q -> taken_next m t.
Proof.
  intros Hr Hq. unfold taken_next. cbn [mstep]. rewrite Hr. unfold pop. rewrite Hq.
  destruct (is_done _ t); [right|left]; reflexivity.
Qed.

Lemma fifo_l : forall behs m t,
  running m = None -> nth_error (queue (mex m)) (length behs) = Some t ->
  running (gsteps m behs) = None /\
  (exists q, queue (mex (gsteps m behs)) = t :: q) /\ taken_next (gsteps m behs) t.
Proof.
  induction behs as [|beh behs IH]; intros m t Hr Hn; cbn [length] in Hn.
  - cbn. destruct (queue (mex m)) as [|h q] eqn:Hq; [discriminate|]. cbn in Hn. inversion Hn; subst.
    split; [exact Hr|]. split; [exists q; reflexivity | eapply taken_next_head; eassumption].
  - destruct (queue (mex m)) as [|h q] eqn:Hq; [discriminate|]. cbn in Hn.
    destruct (gstep_queue m beh h q Hr Hq) as [Hr' [suf Hq']].
    cbn [gsteps fold_left]. apply IH; [exact Hr'|].
    rewrite Hq'. rewrite nth_error_app1; [exact Hn|].
    apply nth_error_Some. rewrite Hn. discriminate.
Qed.

Lemma no_starvation_l : forall ops t,
  let m := mrun mach0 ops in
  running m = None -> pending_wake t (trace m) = true ->
  exists k, k < length (queue (mex m)) /\
    forall behs, length behs = k -> taken_next (gsteps m behs) t.
Proof.
  intros ops t m Hr Hp. apply no_lost_wakeup_l in Hp. fold m in Hp.
  destruct (In_nth_error _ _ Hp) as [k Hk]. exists k. split.
  - apply nth_error_Some. rewrite Hk. discriminate.
  - intros behs Hl. subst k. apply (fifo_l behs m t Hr Hk).
Qed.
