(* C15 — oracle soundness, part 4: driver actions, whole plans, the receivers
   of the driver, and the theorem. *)
From Yv Require Import Common.Base C15.Model C15.Spec C15.ProofsA C15.ProofsB1 C15.ProofsB2
  C15.ProofsB3 C15.ProofsB4 C15.ProofsBR C15.ProofsB5 C15.ProofsB6 C15.ProofsQ C15.ProofsO1 C15.ProofsO2 C15.ProofsO3.
From Coq Require Import Arith.

Lemma fold_wake_eq ws : forall e, fold_left apply_effect (map FWake ws) e = fold_left wake ws e.
Proof. induction ws as [|w ws IH]; intros e; [reflexivity | cbn; apply IH]. Qed.

(* ---- driver actions ---- *)

Lemma ext_spawn_O st o s scripts :
  InvB st -> settled st o ->
  exists o', orec o (LExt [PSpawn (length (tasks (ss st))) s]) = inl o' /\
             settled (mkSys (enqueue (sx st)) (add_task (script_of scripts s) (ss st)) (spanic st)) o'.
Proof.
  intros I [Sl [Hp Hk]]. apply SimL_nolag in Sl. pose proof Sl as [A B C D E F G H J].
  cbn [orec oevs oev obind]. fold (nt (ss st)). rewrite D, Nat.eqb_refl. cbn [obind].
  set (c := nt (ss st)).
  assert (Hcq : mem c (queue (sx st)) = false).
  { apply mem_false. intros Hin. apply B in Hin. unfold c in Hin. lia. }
  destruct (o_wake_fields o c) as [W1 [W2 [W3 [W4 [W5 [W6 [W7 [W8 W9]]]]]]]].
  eexists. split; [reflexivity|]. split; [|split; cbn; [rewrite W8; exact Hp | rewrite W9; exact Hk]].
  apply SimL_nolag. cbn [sx ss].
  constructor; cbn [o_clock o_pend o_done o_vals o_deliv o_join o_flags o_block o_next enqueue queue ntasks dones].
  - pose proof (RepQ_wake _ _ c A) as R. rewrite Hcq in R. rewrite E. exact R.
  - intros u Hu. apply in_app_or in Hu. destruct Hu as [Hu|[<-|[]]]; [apply B in Hu; lia | lia].
  - intros u. rewrite W1. apply C.
  - rewrite W7, nt_add_task, D. reflexivity.
  - rewrite nt_add_task, E. reflexivity.
  - rewrite W5. exact F.
  - intros r Hr. rewrite nt_add_task in Hr. unfold relO. rewrite W2, W3, W4, get_add_task.
    destruct (Nat.ltb_spec r (nt (ss st))) as [L|L]; [apply G; exact L|].
    assert (r = nt (ss st)) by lia. subst r. rewrite Nat.eqb_refl. cbn. apply H. apply le_n.
  - intros r Hr. rewrite nt_add_task in Hr. rewrite W2, W3, W4. apply H. lia.
  - intros u Hu Hc Hd. rewrite nt_add_task in Hu. destruct (Nat.lt_ge_cases u (nt (ss st))) as [L|L].
    + destruct (J u L Hc Hd) as [K|K]; [left; apply in_or_app; left; exact K|].
      right. unfold blockO in *. rewrite W6, get_add_task_old by exact L. exact K.
    + left. apply in_or_app. right. left. rewrite E. lia.
Qed.

Lemma ext_wake_O st o k (setf : bool) :
  InvB st -> settled st o ->
  exists o', orec o (LExt ((if setf then [PSet k] else []) ++ map PWake (waiters_of k (ss st)))) = inl o' /\
             settled (mkSys (fold_left wake (waiters_of k (ss st)) (sx st))
                            (if setf then set_flag k (ss st) else ss st) (spanic st)) o'.
Proof.
  intros I [Sl [Hp Hk]]. apply SimL_nolag in Sl.
  set (sh' := if setf then set_flag k (ss st) else ss st).
  set (o1 := if setf then mkO (o_clock o) (o_pend o) (o_done o) (o_vals o) (o_deliv o) (o_join o)
                   (k :: o_flags o) (o_block o) (o_next o) (o_polls o) (o_skips o) else o).
  assert (S1 : SimO (sx st) sh' o1 None).
  { unfold sh', o1. destruct setf; [|exact Sl].
    destruct Sl as [A B C D E F G H J]. constructor; try assumption. cbn. rewrite F. reflexivity. }
  assert (Ho1 : o_polls o1 = o_polls o /\ o_skips o1 = o_skips o) by (unfold o1; destruct setf; split; reflexivity).
  assert (Hw : waiters_of k sh' = waiters_of k (ss st)) by (unfold sh'; destruct setf; reflexivity).
  assert (Hnt : nt sh' = nt (ss st)) by (unfold sh'; destruct setf; reflexivity).
  destruct (SimO_wakes None sh' (waiters_of k (ss st)) (sx st) o1) as [o' [H1 [H2 [H3 [H4 _]]]]].
  - intros u Hu. apply in_waiters_of in Hu. rewrite Hnt. eapply wf_waiters; [apply (ib_wf st I) | exact Hu].
  - exact S1.
  - exists o'. split.
    + cbn [orec]. rewrite oevs_app. unfold o1 in H1. destruct setf; cbn [oevs oev obind]; exact H1.
    + split; [|split; [rewrite H3; destruct Ho1 as [X _]; rewrite X; exact Hp |
                       rewrite H4; destruct Ho1 as [_ X]; rewrite X; exact Hk]].
      apply SimL_nolag. cbn [sx ss]. rewrite <- fold_wake_eq. exact H2.
Qed.

(* ---- the receivers the driver holds ---- *)

Definition RootInv (st : sys) (roots : list tid) : Prop :=
  forall r, In r roots ->
    r < nt (ss st) /\ rel (get_task (ss st) r) <> RlDone /\
    forall u, ~ In r (recvs (get_task (ss st) u)).

Lemma RootInv_step scripts st roots : InvB st -> RootInv st roots ->
  RootInv (fst (sys_step scripts st)) roots.
Proof.
  intros I R. pose proof I as [Iwf Ilen Iq Id Ifin Ilive Inp Ire].
  unfold sys_step, pop. destruct (queue (sx st)) as [|t q] eqn:Hq; [exact R|].
  assert (Htn : t < ntasks (sx st)) by (apply Iq; left; reflexivity).
  unfold is_done. cbn [dones]. destruct (mem t (dones (sx st))) eqn:Hd; [exact R|].
  apply mem_false in Hd.
  assert (Htl : t < nt (ss st)) by (rewrite Ilen; exact Htn).
  assert (Hwt : waiting_rel (rel (get_task (ss st) t))).
  { apply not_fin_waiting. destruct (fin_rel (rel (get_task (ss st) t))) eqn:F; [|reflexivity].
    exfalso. apply Hd. apply Ifin; assumption. }
  assert (Hself : ~ In t (recvs (get_task (ss st) t))).
  { intros H. apply (wf_recv _ Iwf) in H. lia. }
  unfold poll_task.
  destruct (poll_loop_sum scripts t (pc (get_task (ss st) t)) (ss st) Iwf Htl)
    as [shl [effs1 [evs1 [rl [X [XD [Wl [Hp Hs]]]]]]]].
  rewrite Hp. cbn [emit p_sh p_pc p_evs p_effs p_out].
  assert (Hntl : nt shl = nt (ss st) + count_spawn effs1) by apply (ex_nt _ _ _ _ X).
  assert (Htl' : t < nt shl) by lia.
  assert (Hrelt : rel (get_task shl t) = rel (get_task (ss st) t)) by (apply (ex_rel _ _ _ _ X); assumption).
  assert (Hwt' : waiting_rel (rel (get_task shl t))) by (rewrite Hrelt; exact Hwt).
  pose proof (stop_facts t shl rl Wl Htl' Hwt' Hs) as SF.
  pose proof (stop_d t shl rl Wl Htl' Hwt' Hs) as SD.
  assert (Main : RootInv (mkSys (sx st) (set_pc t (p_pc rl) (p_sh rl)) false) roots).
  { intros r Hr. destruct (R r Hr) as [R1 [R2 R3]]. cbn [ss].
    split; [rewrite nt_set_pc, (sf_nt _ _ _ SF); lia|]. split.
    - rewrite rel_set_pc.
      assert (Hl : rel (get_task shl r) = rel (get_task (ss st) r)) by (apply (ex_rel _ _ _ _ X); [exact R1 | apply R3]).
      destruct (Nat.eq_dec r t) as [->|N].
      + destruct (p_out rl) eqn:Ho.
        * destruct (sd_pend _ _ _ SD Ho) as [_ Wt]. apply waiting_not_done. exact Wt.
        * destruct (sd_ready _ _ _ SD Ho) as [v [_ Ev]]. rewrite Ev. discriminate.
        * exfalso. exact (sf_nopanic _ _ _ SF Ho).
      + destruct (sd_other _ _ _ SD r N) as [Eq|[_ Wt]]; [rewrite Eq, Hl; exact R2 | apply waiting_not_done; exact Wt].
    - intros u Hin. rewrite recvs_set_pc, (sf_recvs _ _ _ SF) in Hin.
      destruct (Nat.lt_ge_cases u (nt (ss st))) as [L|L].
      + destruct (Nat.eq_dec u t) as [->|N].
        * destruct (ex_myrecvs _ _ _ _ X r Hin) as [K|K]; [exact (R3 t K) | lia].
        * rewrite (ex_recvs _ _ _ _ X u L N) in Hin. exact (R3 u Hin).
      + apply (wf_recv _ Wl) in Hin. lia. }
  destruct (p_out rl); cbn [fst]; intros r Hr; destruct (Main r Hr) as [M1 [M2 M3]]; cbn [ss] in *; repeat split; assumption.
Qed.

Lemma RootInv_loop scripts stepmode roots : forall fuel st n, InvB st -> RootInv st roots ->
  RootInv (fst (run_loop fuel scripts stepmode st n)) roots.
Proof.
  induction fuel as [|fuel IH]; intros st n I R; [exact R|].
  cbn [run_loop]. pose proof (InvB_step scripts st I) as I'. pose proof (RootInv_step scripts st roots I R) as R'.
  destruct (sys_step scripts st) as [st' res]. cbn [fst] in I', R'.
  destruct res as [| |t evs r|t evs]; try exact R'.
  - specialize (IH st' (S n) I' R'). destruct (run_loop fuel scripts stepmode st' (S n)). exact IH.
  - specialize (IH st' (if r then S n else n) I' R'). destruct (run_loop fuel scripts stepmode st' (if r then S n else n)). exact IH.
Qed.

Lemma roots_of_app a b : roots_of (a ++ b) = roots_of a ++ roots_of b.
Proof.
  induction a as [|x a IH]; [reflexivity|]. cbn [app].
  destruct x as [evs| | | | | |]; cbn [roots_of]; try exact IH.
  destruct evs as [|ev evs]; [exact IH|]. destruct ev; try exact IH.
  destruct evs; [cbn; rewrite IH; reflexivity | exact IH].
Qed.

Lemma roots_of_none l : (forall x, In x l -> match x with LExt _ => False | _ => True end) -> roots_of l = [].
Proof.
  induction l as [|x l IH]; intros H; [reflexivity|].
  assert (Hx := H x (or_introl eq_refl)). destruct x; try contradiction; cbn [roots_of]; apply IH;
    intros y Hy; apply H; right; exact Hy.
Qed.

Lemma run_loop_no_ext scripts stepmode : forall fuel st n x,
  In x (snd (run_loop fuel scripts stepmode st n)) -> match x with LExt _ => False | _ => True end.
Proof.
  induction fuel as [|fuel IH]; intros st n x Hx.
  - cbn in Hx. destruct Hx as [<-|[]]. exact Logic.I.
  - cbn [run_loop] in Hx. destruct (sys_step scripts st) as [st' res]. destruct res as [| |t evs r|t evs].
    + cbn in Hx. destruct Hx as [<-|[]]. destruct stepmode; exact Logic.I.
    + specialize (IH st' (S n) x). destruct (run_loop fuel scripts stepmode st' (S n)) as [st2 l].
      cbn [snd] in *. apply in_app_or in Hx. destruct Hx as [Hx|Hx]; [|apply IH; exact Hx].
      destruct stepmode; [destruct Hx as [<-|[]]; exact Logic.I | destruct Hx].
    + specialize (IH st' (if r then S n else n) x).
      destruct (run_loop fuel scripts stepmode st' (if r then S n else n)) as [st2 l].
      cbn [snd] in *. destruct Hx as [<-|Hx]; [exact Logic.I|].
      apply in_app_or in Hx. destruct Hx as [Hx|Hx]; [|apply IH; exact Hx].
      destruct stepmode; [destruct Hx as [<-|[]]; exact Logic.I | destruct Hx].
    + cbn in Hx. destruct Hx as [<-|[<-|[]]]; exact Logic.I.
Qed.

Lemma RootInv_same_tasks st st' roots :
  tasks (ss st') = tasks (ss st) -> RootInv st roots -> RootInv st' roots.
Proof.
  intros Ht R r Hr. destruct (R r Hr) as [R1 [R2 R3]]. unfold nt, get_task in *. rewrite Ht.
  repeat split; assumption.
Qed.

Lemma x_O fuel scripts st x o roots :
  InvB st -> settled st o -> RootInv st roots ->
  ~ In LFuel (snd (sys_x fuel scripts st x)) ->
  exists o', orecs o (snd (sys_x fuel scripts st x)) = inl o' /\
             settled (fst (sys_x fuel scripts st x)) o' /\
             RootInv (fst (sys_x fuel scripts st x)) (roots ++ roots_of (snd (sys_x fuel scripts st x))).
Proof.
  intros I Se R Hnf. destruct x as [s|k|k| | |]; cbn [sys_x fst snd] in *.
  - (* spawn from outside *)
    destruct (ext_spawn_O st o s scripts I Se) as [o' [H1 H2]].
    exists o'. cbn [orecs]. rewrite H1. cbn [obind]. split; [reflexivity|]. split; [exact H2|].
    cbn [roots_of]. intros r Hr. cbn [ss]. rewrite nt_add_task.
    pose proof (ib_wf st I) as W. apply in_app_or in Hr. destruct Hr as [Hr|[<-|[]]].
    + destruct (R r Hr) as [R1 [R2 R3]]. split; [lia|]. split.
      * rewrite get_add_task_old by exact R1. exact R2.
      * intros u Hin. rewrite get_add_task in Hin. destruct (Nat.ltb u (nt (ss st))); [exact (R3 u Hin)|].
        destruct (Nat.eqb u (nt (ss st))); destruct Hin.
    + fold (nt (ss st)). split; [lia|]. split.
      * rewrite get_add_task_new. discriminate.
      * intros u Hin. rewrite get_add_task in Hin. destruct (Nat.ltb u (nt (ss st))).
        -- apply (wf_recv _ W) in Hin. lia.
        -- destruct (Nat.eqb u (nt (ss st))); destruct Hin.
  - (* signal from outside *)
    destruct (ext_wake_O st o k true I Se) as [o' [H1 H2]]. unfold ext_wakes.
    exists o'. cbn [orecs]. cbn [app] in H1. rewrite H1. cbn [obind]. split; [reflexivity|]. split; [exact H2|].
    cbn [roots_of]. rewrite app_nil_r. revert R. apply RootInv_same_tasks. reflexivity.
  - (* pulse from outside *)
    destruct (ext_wake_O st o k false I Se) as [o' [H1 H2]]. unfold ext_wakes.
    exists o'. cbn [orecs]. cbn [app] in H1. rewrite H1. cbn [obind]. split; [reflexivity|]. split; [exact H2|].
    assert (Hro : roots_of [LExt (map PWake (waiters_of k (ss st)))] = []).
    { destruct (waiters_of k (ss st)) as [|w ws]; reflexivity. }
    rewrite Hro, app_nil_r. revert R. apply RootInv_same_tasks. reflexivity.
  - (* one step *)
    destruct Se as [Sl [Hp Hk]].
    destruct (xstep_O scripts st o I Sl Hp Hk) as [o' [H1 H2]].
    pose proof (RootInv_step scripts st roots I R) as R'.
    destruct (sys_step scripts st) as [st' res]. cbn [fst snd] in *.
    assert (Hro : roots_of (step_recs st' res) = []) by (destruct res; reflexivity).
    destruct res as [| |t evs r|t evs]; cbn [fst snd step_recs] in *; exists o';
      (split; [exact H1|]); (split; [exact H2|]); cbn [roots_of]; rewrite app_nil_r; exact R'.
  - (* drain *)
    destruct (loop_step_O scripts fuel st 0 o I Se Hnf) as [o' [H1 H2]].
    exists o'. split; [exact H1|]. split; [exact H2|].
    rewrite (roots_of_none _ (run_loop_no_ext scripts true fuel st 0)), app_nil_r.
    apply RootInv_loop; assumption.
  - (* run_until_stalled *)
    destruct Se as [Sl [Hp Hk]].
    destruct (loop_run_O scripts fuel st 0 o [] I Sl) as [o' [H1 H2]].
    + rewrite Hp, Hk. reflexivity.
    + exact Hnf.
    + exists o'. split; [exact H1|]. split; [exact H2|].
      rewrite (roots_of_none _ (run_loop_no_ext scripts false fuel st 0)), app_nil_r.
      apply RootInv_loop; assumption.
Qed.

Lemma plan_O fuel scripts : forall plan st o roots,
  InvB st -> settled st o -> RootInv st roots ->
  ~ In LFuel (snd (sys_plan fuel scripts st plan)) ->
  exists o', orecs o (snd (sys_plan fuel scripts st plan)) = inl o' /\
             settled (fst (sys_plan fuel scripts st plan)) o' /\
             RootInv (fst (sys_plan fuel scripts st plan)) (roots ++ roots_of (snd (sys_plan fuel scripts st plan))).
Proof.
  induction plan as [|x plan IH]; intros st o roots I Se R Hnf.
  - cbn. exists o. rewrite app_nil_r. split; [reflexivity|]. split; [exact Se | exact R].
  - cbn [sys_plan] in *. pose proof (InvB_x fuel scripts st x I) as I1.
    pose proof (x_O fuel scripts st x o roots I Se R) as X.
    destruct (sys_x fuel scripts st x) as [st1 l1]. cbn [fst snd] in *.
    rewrite (ib_nopanic st1 I1) in *.
    specialize (IH st1). destruct (sys_plan fuel scripts st1 plan) as [st2 l2]. cbn [fst snd] in *.
    destruct X as [o1 [H1 [S1 R1]]].
    { intros Hin. apply Hnf. apply in_or_app. left. exact Hin. }
    destruct (IH o1 (roots ++ roots_of l1) I1 S1 R1) as [o2 [H2 [S2 R2]]].
    { intros Hin. apply Hnf. apply in_or_app. right. exact Hin. }
    exists o2. split; [rewrite orecs_app, H1; exact H2|]. split; [exact S2|].
    rewrite roots_of_app, app_assoc. exact R2.
Qed.

Lemma settled_init : settled sys0 ost0.
Proof.
  split; [|split; reflexivity]. apply SimL_nolag. constructor; cbn.
  - exists []. cbn. repeat split; constructor.
  - intros u [].
  - intros u. reflexivity.
  - reflexivity.
  - reflexivity.
  - reflexivity.
  - intros r Hr. unfold nt in Hr. cbn in Hr. lia.
  - intros r _. repeat split; reflexivity.
  - intros u Hu. unfold nt in Hu. cbn in Hu. lia.
Qed.

Lemma list_eqb_refl (l : list nat) : list_eqb Nat.eqb l l = true.
Proof. induction l as [|x l IH]; [reflexivity|]. cbn. rewrite Nat.eqb_refl, IH. reflexivity. Qed.

(* THE theorem: the run-time oracle accepts every log the model produces *)
Lemma oracle_sound_l : forall fuel scripts plan,
  let r := model_run fuel scripts plan in
  ~ In LFuel (fst r) -> oracle (fst r) (snd r) = None.
Proof.
  intros fuel scripts plan r. subst r. unfold model_run.
  pose proof (plan_O fuel scripts plan sys0 ost0 [] InvB_init settled_init) as P.
  pose proof (InvB_plan fuel scripts plan sys0 InvB_init) as I.
  destruct (sys_plan fuel scripts sys0 plan) as [st log]. cbn [fst snd] in *.
  intros Hnf. destruct P as [o [H1 [[Sl _] R]]]; [intros r [] | exact Hnf |].
  cbn [app] in R. rewrite (ib_nopanic st I). unfold oracle. rewrite H1.
  apply SimL_nolag in Sl.
  assert (F : final_ok o (roots_of log) (final_obs st (roots_of log)) = true).
  { unfold final_ok. apply andb_true_iff. split.
    - unfold final_obs. rewrite map_map.
      assert (E : map (fun x => fst (let (r1, a) := relay_try (rel (get_task (ss st) x)) in
                                      let (_, b) := relay_try r1 in (x, (a, b)))) (roots_of log) = roots_of log).
      { clear. induction (roots_of log) as [|x l IH]; [reflexivity|]. cbn [map]. rewrite IH. f_equal.
        destruct (relay_try (rel (get_task (ss st) x))) as [r1 a]. destruct (relay_try r1). reflexivity. }
      rewrite E. apply list_eqb_refl.
    - apply forallb_forall. intros [r [a b]] Hin. unfold final_obs in Hin. apply in_map_iff in Hin.
      destruct Hin as [x [E Hx]]. destruct (R x Hx) as [R1 [R2 _]].
      pose proof (so_rel _ _ _ _ Sl x R1) as G. cbn [fst snd].
      destruct (rel (get_task (ss st) x)) as [|w|v|]; cbn in E, G; inversion E; subst r a b.
      + destruct G as [G1 _]. rewrite G1. reflexivity.
      + destruct G as [G1 _]. rewrite G1. reflexivity.
      + destruct G as [G1 _]. rewrite G1. cbn. rewrite N.eqb_refl. reflexivity.
      + exfalso. apply R2. reflexivity. }
  rewrite F. reflexivity.
Qed.
