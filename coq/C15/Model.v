(* C15 — executable model of yash-executor (single-threaded task executor).

   Level A (the executor itself; yash-executor/src/{lib,executor,task}.rs):
     - [ExecutorState::wake_queue : VecDeque<Rc<Task>>] is a list of task
       identifiers (a task's identity [Rc::ptr_eq] is its number in spawn
       order),
     - [ExecutorState::enqueue(_forwarding)]  = [enqueue]   (push_back, no test),
     - [Task::wake]                           = [wake]      (skip if already in
       the queue, else push_back; a finished or currently polled task is
       pushed like any other),
     - [Executor::step]                       = [pop] + poll: a task whose
       future slot is [None] (finished) is *not* polled but [step] still
       answers [Some(true)]  (this quirk is kept: [GSkip]),
     - [Task::poll] sets the slot to [None] when the future is ready = [finish].
   What a future does while it is polled is *not* fixed at this level: it is
   any list of [effect]s (wake any task, spawn a task) and any answer.

   Level B (tasks as small scripts, forwarder.rs relay): the instrumented
   futures of harness/src/bin/c15.rs, interpreted by [poll_loop]; every
   spawned task has a [Relay] through which its result goes to its receiver
   ([Sender::send], [Receiver::poll], [Receiver::try_receive]).

   Rust panic sites: [Relay::Computed|Done => unreachable!()] in [send] and
   "Receiver polled after receiving the value" are the outcome [OPanic];
   "Future should not be polled recursively" cannot arise in the model
   because the run loop is not re-entered from inside a poll (the tasks have
   no handle on [Executor::step]); the harness reports any panic as [LPanic]. *)
From Yv Require Import Common.Base.

Definition tid := nat.

Definition mem (t : nat) (l : list nat) : bool := existsb (Nat.eqb t) l.

(* ------------------------------------------------------------------ *)
(* Level A: the executor                                                *)
(* ------------------------------------------------------------------ *)

Record exec := mkExec {
  queue : list tid;      (* wake_queue, front first *)
  ntasks : nat;          (* number of tasks spawned so far = next identifier *)
  dones : list tid       (* tasks whose future slot is None *)
}.

Definition exec0 : exec := mkExec [] 0 [].

(* ExecutorState::enqueue / enqueue_forwarding *)
Definition enqueue (e : exec) : exec :=
  mkExec (queue e ++ [ntasks e]) (S (ntasks e)) (dones e).

(* Task::wake *)
Definition wake (e : exec) (t : tid) : exec :=
  if mem t (queue e) then e else mkExec (queue e ++ [t]) (ntasks e) (dones e).

(* wake_queue.pop_front() *)
Definition pop (e : exec) : option (tid * exec) :=
  match queue e with
  | [] => None
  | t :: q => Some (t, mkExec q (ntasks e) (dones e))
  end.

(* end of Task::poll: *future_or_none = None when ready *)
Definition finish (e : exec) (t : tid) (ready : bool) : exec :=
  if ready then mkExec (queue e) (ntasks e) (t :: dones e) else e.

Definition is_done (e : exec) (t : tid) : bool := mem t (dones e).

(* what a future can do to the executor while it is being polled *)
Inductive effect := FWake (t : tid) | FSpawn.

Definition apply_effect (e : exec) (f : effect) : exec :=
  match f with FWake t => wake e t | FSpawn => enqueue e end.

(* small-step machine with a ghost trace (newest event first) *)
Inductive gevent :=
| GEnq (t : tid)               (* task t created and queued *)
| GWake (t : tid)              (* a waker of t invoked *)
| GBegin (t : tid)             (* the run loop starts polling the future of t *)
| GEnd (t : tid) (ready : bool)(* that poll returns *)
| GSkip (t : tid)              (* t popped, its future slot is empty: no poll, step = Some(true) *)
| GIdle.                       (* step on an empty queue: None *)

Record mach := mkMach {
  mex : exec;
  running : option tid;
  trace : list gevent
}.

Definition mach0 : mach := mkMach exec0 None [].

Inductive op :=
| OpSpawn                      (* Executor::spawn / Spawner::spawn, from anywhere *)
| OpWake (t : tid)             (* Waker::wake / wake_by_ref, from anywhere *)
| OpBegin                      (* Executor::step: pop and start polling *)
| OpEnd (ready : bool).        (* the future's poll returns *)

Definition mstep (m : mach) (o : op) : mach :=
  match o with
  | OpSpawn => mkMach (enqueue (mex m)) (running m) (GEnq (ntasks (mex m)) :: trace m)
  | OpWake t =>
      (* a waker exists only for a task that exists *)
      if Nat.ltb t (ntasks (mex m))
      then mkMach (wake (mex m) t) (running m) (GWake t :: trace m)
      else m
  | OpBegin =>
      match running m with
      | Some _ => m               (* the loop is not re-entered from inside a poll *)
      | None =>
          match pop (mex m) with
          | None => mkMach (mex m) None (GIdle :: trace m)
          | Some (t, e) =>
              if is_done e t then mkMach e None (GSkip t :: trace m)
              else mkMach e (Some t) (GBegin t :: trace m)
          end
      end
  | OpEnd r =>
      match running m with
      | None => m
      | Some t => mkMach (finish (mex m) t r) None (GEnd t r :: trace m)
      end
  end.

Definition mrun (m : mach) (ops : list op) : mach := fold_left mstep ops m.

Definition op_of_effect (f : effect) : op :=
  match f with FWake t => OpWake t | FSpawn => OpSpawn end.

(* One whole call of Executor::step when the future of the popped task
   behaves as [beh] says (its effects, in order, and its answer). *)
Definition behaviour := tid -> list effect * bool.

Definition gstep (m : mach) (beh : behaviour) : mach :=
  let m1 := mstep m OpBegin in
  match running m1 with
  | None => m1
  | Some t => mstep (mrun m1 (map op_of_effect (fst (beh t)))) (OpEnd (snd (beh t)))
  end.

Definition gsteps (m : mach) (behs : list behaviour) : mach := fold_left gstep behs m.

(* ------------------------------------------------------------------ *)
(* forwarder.rs: the relay between a spawned task and its receiver      *)
(* ------------------------------------------------------------------ *)

Inductive relay :=
| RlPending
| RlPolled (w : tid)           (* waker of the task that polled the receiver *)
| RlComputed (v : N)
| RlDone.

Inductive tryres := TNotSent | TOk (v : N) | TAlready | TDropped.

(* Sender::send: new state, waker to invoke, panicked? *)
Definition relay_send (r : relay) (v : N) : relay * option tid * bool :=
  match r with
  | RlPending => (RlComputed v, None, false)
  | RlPolled w => (RlComputed v, Some w, false)
  | _ => (RlComputed v, None, true)         (* unreachable!() *)
  end.

(* Receiver::poll by task w: new state, Poll::Ready(v)?, panicked? *)
Definition relay_poll (r : relay) (w : tid) : relay * option N * bool :=
  match r with
  | RlPending | RlPolled _ => (RlPolled w, None, false)
  | RlComputed v => (RlDone, Some v, false)
  | RlDone => (RlDone, None, true)          (* panic!("Receiver polled after ...") *)
  end.

(* Receiver::try_receive (the sender is alive as long as the task is) *)
Definition relay_try (r : relay) : relay * tryres :=
  match r with
  | RlPending | RlPolled _ => (r, TNotSent)
  | RlComputed v => (RlDone, TOk v)
  | RlDone => (RlDone, TAlready)
  end.

(* ------------------------------------------------------------------ *)
(* Level B: tasks as scripts                                            *)
(* ------------------------------------------------------------------ *)

Inductive action :=
| AYield (n : nat)     (* wake_by_ref own waker n+1 times, return Pending *)
| AWait (k : nat)      (* flag k set: go on; else register own waker on k, return Pending *)
| ASignal (k : nat)    (* set flag k, wake_by_ref every waker registered on k (kept) *)
| APulse (k : nat)     (* wake_by_ref every waker registered on k, flag unchanged *)
| ASpawn (s : nat)     (* Spawner::spawn a task running script s; keep the receiver *)
| AJoin                (* poll the oldest kept receiver: Ready(v): drop it, go on; else Pending *)
| ATry                 (* try_receive on the oldest kept receiver; Ok: drop it; go on *)
| ADone (v : N).       (* complete with value v (end of script = complete with 0) *)

Definition script := list action.

Record task := mkTask {
  pc : list action;        (* what is left of its script *)
  recvs : list tid;        (* receivers it holds: the tasks it spawned and did not receive yet *)
  rel : relay              (* the relay its own result goes through *)
}.

Record shared := mkShared {
  tasks : list task;             (* index = task identifier *)
  flags : list nat;              (* flags that are set *)
  waiters : list (nat * tid)     (* (flag, task) registrations, oldest first *)
}.

Definition shared0 : shared := mkShared [] [] [].

Definition dummy_task : task := mkTask [] [] RlDone.
Definition get_task (sh : shared) (t : tid) : task := nth t (tasks sh) dummy_task.

Fixpoint upd {A} (n : nat) (f : A -> A) (l : list A) : list A :=
  match l, n with
  | [], _ => []
  | x :: l, O => f x :: l
  | x :: l, S n => x :: upd n f l
  end.

Definition set_rel (t : tid) (r : relay) (sh : shared) : shared :=
  mkShared (upd t (fun k => mkTask (pc k) (recvs k) r) (tasks sh)) (flags sh) (waiters sh).

Definition set_pc (t : tid) (p : list action) (sh : shared) : shared :=
  mkShared (upd t (fun k => mkTask p (recvs k) (rel k)) (tasks sh)) (flags sh) (waiters sh).

Definition set_recvs (t : tid) (rv : list tid) (sh : shared) : shared :=
  mkShared (upd t (fun k => mkTask (pc k) rv (rel k)) (tasks sh)) (flags sh) (waiters sh).

Definition add_task (p : list action) (sh : shared) : shared :=
  mkShared (tasks sh ++ [mkTask p [] RlPending]) (flags sh) (waiters sh).

Definition set_flag (k : nat) (sh : shared) : shared :=
  mkShared (tasks sh) (k :: flags sh) (waiters sh).

Definition add_waiter (k : nat) (t : tid) (sh : shared) : shared :=
  mkShared (tasks sh) (flags sh) (waiters sh ++ [(k, t)]).

Definition waiters_of (k : nat) (sh : shared) : list tid :=
  map snd (filter (fun p => Nat.eqb (fst p) k) (waiters sh)).

Definition script_of (scripts : list script) (s : nat) : script := nth s scripts [].

(* what the instrumented future reports while it is polled *)
Inductive pevent :=
| PWake (t : tid)                 (* invoked a waker of t *)
| PSpawn (c : tid) (s : nat)      (* spawned task c running script s *)
| PSet (k : nat)                  (* set flag k *)
| PReg (k : nat)                  (* registered own waker on flag k (blocked) *)
| PJoinReg (r : tid)              (* polled the receiver of r: Pending (blocked) *)
| PGot (r : tid) (v : N)          (* polled the receiver of r: Ready(v) *)
| PTry (r : tid) (res : tryres)   (* try_receive on the receiver of r *)
| PComplete (v : N).              (* the future returns Ready(v) *)

Inductive outcome := OPend | OReady | OPanic.

(* what one poll of a future amounts to *)
Record pres := mkPres {
  p_sh : shared;                (* shared state after it *)
  p_pc : list action;           (* what is left of the script *)
  p_evs : list pevent;          (* what the future reported *)
  p_effs : list effect;         (* what it did to the executor *)
  p_out : outcome
}.

Definition emit (evs : list pevent) (effs : list effect) (r : pres) : pres :=
  mkPres (p_sh r) (p_pc r) (evs ++ p_evs r) (effs ++ p_effs r) (p_out r).

(* the future returns Ready(v): enqueue_forwarding's wrapper sends v *)
Definition complete (t : tid) (v : N) (sh : shared) : pres :=
  match relay_send (rel (get_task sh t)) v with
  | (r', w, false) =>
      mkPres (set_rel t r' sh) [] [PComplete v]
             (match w with Some w => [FWake w] | None => [] end) OReady
  | (_, _, true) => mkPres sh [] [] [] OPanic
  end.

(* One action of the script of task t.  Either the poll goes on with the next
   action, or it returns. *)
Inductive ctl :=
| CNext (sh : shared) (evs : list pevent) (effs : list effect)
| CStop (r : pres).

Definition my_recvs (sh : shared) (t : tid) : list tid := recvs (get_task sh t).

Definition do_action (scripts : list script) (t : tid) (sh : shared)
    (a : action) (rest : list action) : ctl :=
  match a with
  | ADone v => CStop (complete t v sh)
  | AYield n =>
      CStop (mkPres sh rest (repeat (PWake t) (S n)) (repeat (FWake t) (S n)) OPend)
  | AWait k =>
      if mem k (flags sh) then CNext sh [] []
      else CStop (mkPres (add_waiter k t sh) (a :: rest) [PReg k] [] OPend)
  | ASignal k =>
      let ws := waiters_of k sh in
      CNext (set_flag k sh) (PSet k :: map PWake ws) (map FWake ws)
  | APulse k =>
      let ws := waiters_of k sh in
      CNext sh (map PWake ws) (map FWake ws)
  | ASpawn s =>
      let c := length (tasks sh) in
      CNext (set_recvs t (my_recvs sh t ++ [c]) (add_task (script_of scripts s) sh))
            [PSpawn c s] [FSpawn]
  | AJoin =>
      match my_recvs sh t with
      | [] => CNext sh [] []
      | r :: rv' =>
          match relay_poll (rel (get_task sh r)) t with
          | (_, _, true) => CStop (mkPres sh (a :: rest) [] [] OPanic)
          | (r', Some v, false) => CNext (set_recvs t rv' (set_rel r r' sh)) [PGot r v] []
          | (r', None, false) =>
              CStop (mkPres (set_rel r r' sh) (a :: rest) [PJoinReg r] [] OPend)
          end
      end
  | ATry =>
      match my_recvs sh t with
      | [] => CNext sh [] []
      | r :: rv' =>
          match relay_try (rel (get_task sh r)) with
          | (r', TOk v) => CNext (set_recvs t rv' (set_rel r r' sh)) [PTry r (TOk v)] []
          | (r', res) => CNext (set_rel r r' sh) [PTry r res] []
          end
      end
  end.

(* One poll of the future of task t: interpret actions until one blocks or
   the script ends. *)
Fixpoint poll_loop (scripts : list script) (t : tid) (sh : shared)
    (acts : list action) : pres :=
  match acts with
  | [] => complete t 0%N sh
  | a :: rest =>
      match do_action scripts t sh a rest with
      | CStop r => r
      | CNext sh' evs effs => emit evs effs (poll_loop scripts t sh' rest)
      end
  end.

Definition poll_task (scripts : list script) (t : tid) (sh : shared) : pres :=
  let r := poll_loop scripts t sh (pc (get_task sh t)) in
  mkPres (set_pc t (p_pc r) (p_sh r)) (p_pc r) (p_evs r) (p_effs r) (p_out r).

(* ---- the whole system and its log ---------------------------------- *)

Record sys := mkSys { sx : exec; ss : shared; spanic : bool }.

Definition sys0 : sys := mkSys exec0 shared0 false.

Inductive rec :=
| LExt (evs : list pevent)                         (* done from outside any task *)
| LPoll (t : tid) (evs : list pevent) (ready : bool)   (* one poll of the future of t *)
| LStep (ret : option bool) (wc : nat)             (* step() returned ret; wake_count() after it *)
| LRun (n : nat) (wc : nat)                        (* run_until_stalled() returned n; wake_count() *)
| LPanic                                           (* a panic was caught *)
| LNested                                          (* a future was polled while another poll was open *)
| LFuel.                                           (* step budget of the case exhausted *)

Inductive stepres := SIdle | SSkip | SPolled (t : tid) (evs : list pevent) (ready : bool) | SPanicked (t : tid) (evs : list pevent).

(* Executor::step *)
Definition sys_step (scripts : list script) (st : sys) : sys * stepres :=
  match pop (sx st) with
  | None => (st, SIdle)
  | Some (t, e) =>
      if is_done e t then (mkSys e (ss st) (spanic st), SSkip)
      else
        let r := poll_task scripts t (ss st) in
        let e' := fold_left apply_effect (p_effs r) e in
        match p_out r with
        | OPanic => (mkSys e' (p_sh r) true, SPanicked t (p_evs r))
        | OReady => (mkSys (finish e' t true) (p_sh r) (spanic st), SPolled t (p_evs r) true)
        | OPend => (mkSys e' (p_sh r) (spanic st), SPolled t (p_evs r) false)
        end
  end.

Definition wake_count (st : sys) : nat := length (queue (sx st)).

(* a loop of step() calls that observes every step (mode = true), or
   run_until_stalled() (mode = false); [n] counts the [true] answers *)
Fixpoint run_loop (fuel : nat) (scripts : list script) (stepmode : bool)
    (st : sys) (n : nat) : sys * list rec :=
  match fuel with
  | O => (st, [LFuel])
  | S fuel =>
      match sys_step scripts st with
      | (st', SIdle) =>
          (st', [if stepmode then LStep None (wake_count st') else LRun n (wake_count st')])
      | (st', SSkip) =>
          let (st2, l) := run_loop fuel scripts stepmode st' (S n) in
          (st2, (if stepmode then [LStep (Some true) (wake_count st')] else []) ++ l)
      | (st', SPolled t evs r) =>
          let (st2, l) := run_loop fuel scripts stepmode st' (if r then S n else n) in
          (st2, LPoll t evs r ::
                (if stepmode then [LStep (Some r) (wake_count st')] else []) ++ l)
      | (st', SPanicked t evs) => (st', [LPoll t evs false; LPanic])
      end
  end.

(* what the driver (outside any task) does *)
Inductive xact :=
| XSpawn (s : nat)      (* Executor::spawn a task running script s, keep its receiver *)
| XSignal (k : nat)     (* set flag k and wake its registered wakers, from outside *)
| XPulse (k : nat)      (* wake the wakers registered on k, from outside *)
| XStep                 (* one call of step() *)
| XDrain                (* step() until it returns None *)
| XRun.                 (* run_until_stalled() *)

Definition ext_wakes (k : nat) (st : sys) : list tid := waiters_of k (ss st).

Definition sys_x (fuel : nat) (scripts : list script) (st : sys) (x : xact) : sys * list rec :=
  match x with
  | XSpawn s =>
      let c := length (tasks (ss st)) in
      (mkSys (enqueue (sx st)) (add_task (script_of scripts s) (ss st)) (spanic st),
       [LExt [PSpawn c s]])
  | XSignal k =>
      let ws := ext_wakes k st in
      (mkSys (fold_left wake ws (sx st)) (set_flag k (ss st)) (spanic st),
       [LExt (PSet k :: map PWake ws)])
  | XPulse k =>
      let ws := ext_wakes k st in
      (mkSys (fold_left wake ws (sx st)) (ss st) (spanic st), [LExt (map PWake ws)])
  | XStep =>
      match sys_step scripts st with
      | (st', SIdle) => (st', [LStep None (wake_count st')])
      | (st', SSkip) => (st', [LStep (Some true) (wake_count st')])
      | (st', SPolled t evs r) => (st', [LPoll t evs r; LStep (Some r) (wake_count st')])
      | (st', SPanicked t evs) => (st', [LPoll t evs false; LPanic])
      end
  | XDrain => run_loop fuel scripts true st 0
  | XRun => run_loop fuel scripts false st 0
  end.

Fixpoint sys_plan (fuel : nat) (scripts : list script) (st : sys) (plan : list xact)
  : sys * list rec :=
  match plan with
  | [] => (st, [])
  | x :: plan =>
      let (st1, l1) := sys_x fuel scripts st x in
      if spanic st1 then (st1, l1)
      else let (st2, l2) := sys_plan fuel scripts st1 plan in (st2, l1 ++ l2)
  end.

(* the receivers the driver holds (tasks it spawned itself, in order), each
   asked twice with try_receive at the end *)
Fixpoint roots_of (log : list rec) : list tid :=
  match log with
  | LExt [PSpawn c _] :: log => c :: roots_of log
  | _ :: log => roots_of log
  | [] => []
  end.

Definition final_obs (st : sys) (roots : list tid) : list (tid * (tryres * tryres)) :=
  map (fun r =>
         let (r1, a) := relay_try (rel (get_task (ss st) r)) in
         let (_, b) := relay_try r1 in
         (r, (a, b))) roots.

Definition model_run (fuel : nat) (scripts : list script) (plan : list xact)
  : list rec * list (tid * (tryres * tryres)) :=
  let (st, log) := sys_plan fuel scripts sys0 plan in
  (log, if spanic st then [] else final_obs st (roots_of log)).

(* ------------------------------------------------------------------ *)
(* Parts of the API outside the script systems                          *)
(* ------------------------------------------------------------------ *)

(* forwarder.rs with the whole life cycle of both halves: the sender is
   consumed by [send] or dropped; the receiver can be dropped.
   [Sender::send] on a dropped receiver hands the value back ([Err(value)]);
   [try_receive] answers [SenderDropped] when nothing was sent and no sender
   is left ([Rc::weak_count == 0]). *)
Inductive fop := FSend (v : N) | FPoll (w : tid) | FTry | FDropSender | FDropReceiver.

Inductive fout :=
| FoSent (woken : option tid)   (* Ok(()), and the waker that was invoked *)
| FoSendErr (v : N)             (* Err(v): receiver gone *)
| FoPending | FoReady (v : N)
| FoTry (res : tryres)
| FoDropped                     (* a half was dropped *)
| FoSkip                        (* operation impossible: that half no longer exists *)
| FoPanic.

Record fstate := mkF { f_rel : relay; f_sender : bool; f_receiver : bool }.

Definition fstate0 : fstate := mkF RlPending true true.

Definition f_op (s : fstate) (o : fop) : fstate * fout :=
  match o with
  | FSend v =>
      if negb (f_sender s) then (s, FoSkip)
      else if negb (f_receiver s) then (mkF (f_rel s) false false, FoSendErr v)
      else match relay_send (f_rel s) v with
           | (r', w, false) => (mkF r' false true, FoSent w)
           | (r', _, true) => (mkF r' false true, FoPanic)
           end
  | FPoll w =>
      if negb (f_receiver s) then (s, FoSkip)
      else match relay_poll (f_rel s) w with
           | (r', _, true) => (mkF r' (f_sender s) true, FoPanic)
           | (r', Some v, false) => (mkF r' (f_sender s) true, FoReady v)
           | (r', None, false) => (mkF r' (f_sender s) true, FoPending)
           end
  | FTry =>
      if negb (f_receiver s) then (s, FoSkip)
      else match f_rel s with
           | RlPending | RlPolled _ =>
               (s, FoTry (if f_sender s then TNotSent else TDropped))
           | RlComputed v => (mkF RlDone (f_sender s) true, FoTry (TOk v))
           | RlDone => (s, FoTry TAlready)
           end
  | FDropSender => if f_sender s then (mkF (f_rel s) false (f_receiver s), FoDropped) else (s, FoSkip)
  | FDropReceiver => if f_receiver s then (mkF (f_rel s) (f_sender s) false, FoDropped) else (s, FoSkip)
  end.

(* stops after a panic *)
Fixpoint f_run (s : fstate) (ops : list fop) : list fout :=
  match ops with
  | [] => []
  | o :: ops =>
      let (s', out) := f_op s o in
      out :: match out with FoPanic => [] | _ => f_run s' ops end
  end.

(* After the plan the driver may drop the Executor and go on using what is
   left: the Spawner (spawner.rs: SpawnError), the wakers (task.rs: a wake
   without executor does nothing) and its receivers. *)
Inductive dact := DSpawn (s : nat) | DPulse (k : nat).
Inductive dout := DoSpawnErr | DoSpawned | DoQuiet | DoPanic.

Definition dead_out (a : dact) : dout :=
  match a with DSpawn _ => DoSpawnErr | DPulse _ => DoQuiet end.

(* Dropping the executor drops the queue.  A task that has not finished
   survives only if a waker of it is kept: on a flag (the harness keeps them
   for ever) or in the relay of a child it awaits (a reference cycle). *)
Definition alive_after_drop (sh : shared) (t : tid) : bool :=
  existsb (fun p => Nat.eqb (snd p) t) (waiters sh) ||
  existsb (fun k => match rel k with RlPolled w => Nat.eqb w t | _ => false end) (tasks sh).

Definition final_obs_dead (st : sys) (roots : list tid) : list (tid * (tryres * tryres)) :=
  map (fun r =>
         match rel (get_task (ss st) r) with
         | RlComputed v => (r, (TOk v, TAlready))
         | RlDone => (r, (TAlready, TAlready))
         | _ => if alive_after_drop (ss st) r then (r, (TNotSent, TNotSent))
                else (r, (TDropped, TDropped))
         end) roots.

Definition model_run_dead (fuel : nat) (scripts : list script) (plan : list xact) (tail : list dact)
  : list rec * list dout * list (tid * (tryres * tryres)) :=
  let (st, log) := sys_plan fuel scripts sys0 plan in
  (log, map dead_out tail, final_obs_dead st (roots_of log)).
