(* C15 — Level B, part 2: well-formed ownership of receivers, preserved by
   every action of a script. *)
From Yv Require Import Common.Base C15.Model C15.Spec C15.ProofsA C15.ProofsB1.
From Coq Require Import Arith.

Definition waiting_rel (r : relay) : Prop := r = RlPending \/ exists w, r = RlPolled w.
Definition fin_rel (r : relay) : bool :=
  match r with RlComputed _ | RlDone => true | _ => false end.

Record WF (sh : shared) : Prop := {
  wf_recv : forall u r, In r (recvs (get_task sh u)) ->
              u < r /\ r < nt sh /\ rel (get_task sh r) <> RlDone;
  wf_nodup : forall u, NoDup (recvs (get_task sh u));
  wf_uniq : forall u1 u2 r, In r (recvs (get_task sh u1)) -> In r (recvs (get_task sh u2)) -> u1 = u2;
  wf_polled : forall r w, rel (get_task sh r) = RlPolled w -> w < nt sh;
  wf_waiters : forall k u, In (k, u) (waiters sh) -> u < nt sh
}.

Lemma WF_init : WF shared0.
Proof.
  constructor; unfold get_task; cbn.
  - intros u r H. destruct u; destruct H.
  - intros u. destruct u; constructor.
  - intros u1 u2 r H. destruct u1; destruct H.
  - intros r w H. destruct r; discriminate.
  - intros k u [].
Qed.

(* a change that keeps number of tasks, receivers, relays and waiters *)
Lemma WF_same (sh sh' : shared) :
  nt sh' = nt sh ->
  (forall u, recvs (get_task sh' u) = recvs (get_task sh u)) ->
  (forall u, rel (get_task sh' u) = rel (get_task sh u)) ->
  waiters sh' = waiters sh ->
  WF sh -> WF sh'.
Proof.
  intros Hn Hr Hl Hw [W1 W2 W3 W4 W5]. constructor.
  - intros u r H. rewrite Hr in H. rewrite Hn, Hl. apply W1. exact H.
  - intros u. rewrite Hr. apply W2.
  - intros u1 u2 r H1 H2. rewrite Hr in H1, H2. eapply W3; eassumption.
  - intros r w H. rewrite Hl in H. rewrite Hn. eapply W4. exact H.
  - intros k u H. rewrite Hw in H. rewrite Hn. eapply W5. exact H.
Qed.

(* re-writing a relay with the value it has *)
Lemma WF_set_rel_id (sh : shared) (r : tid) : WF sh -> WF (set_rel r (rel (get_task sh r)) sh).
Proof.
  apply WF_same.
  - apply nt_set_rel.
  - intros u. apply recvs_set_rel.
  - intros u. destruct (Nat.eq_dec u r) as [->|E].
    + rewrite get_set_rel, Nat.eqb_refl. destruct (Nat.ltb r (nt sh)); reflexivity.
    + apply rel_set_rel_other. exact E.
  - reflexivity.
Qed.

(* registering the waker of t in the relay of one of its receivers *)
Lemma WF_set_polled (sh : shared) (t r : tid) :
  WF sh -> t < nt sh -> rel (get_task sh r) <> RlDone ->
  WF (set_rel r (RlPolled t) sh).
Proof.
  intros [W1 W2 W3 W4 W5] Ht Hr. constructor.
  - intros u x H. rewrite recvs_set_rel in H. rewrite nt_set_rel.
    destruct (W1 u x H) as [A [B C]]. split; [exact A|]. split; [exact B|].
    destruct (Nat.eq_dec x r) as [->|E].
    + rewrite rel_set_rel_same; [discriminate | exact B].
    + rewrite rel_set_rel_other; assumption.
  - intros u. rewrite recvs_set_rel. apply W2.
  - intros u1 u2 x H1 H2. rewrite recvs_set_rel in H1, H2. eapply W3; eassumption.
  - intros x w H. rewrite nt_set_rel. rewrite get_set_rel in H.
    destruct (Nat.eqb r x && Nat.ltb r (nt sh)); cbn in H.
    + inversion H; subst. exact Ht.
    + eapply W4. exact H.
  - intros k u H. rewrite nt_set_rel. eapply W5. exact H.
Qed.

(* t takes the value out of the relay of its oldest receiver *)
Lemma WF_receive (sh : shared) (t r : tid) (rv' : list tid) :
  WF sh -> t < nt sh -> my_recvs sh t = r :: rv' ->
  WF (set_recvs t rv' (set_rel r RlDone sh)).
Proof.
  intros W Ht Hrv. pose proof W as [W1 W2 W3 W4 W5]. unfold my_recvs in Hrv.
  assert (Hr : t < r /\ r < nt sh /\ rel (get_task sh r) <> RlDone).
  { apply W1. rewrite Hrv. left. reflexivity. }
  destruct Hr as [Htr [Hrn _]].
  assert (Hnd : ~ In r rv' /\ NoDup rv').
  { pose proof (W2 t) as H. rewrite Hrv in H. inversion H; subst. split; assumption. }
  destruct Hnd as [Hnr Hnd].
  assert (Ht' : t < nt (set_rel r RlDone sh)) by (rewrite nt_set_rel; exact Ht).
  (* membership in the new lists implies membership in the old ones, and x <> r *)
  assert (Hin : forall u x, In x (recvs (get_task (set_recvs t rv' (set_rel r RlDone sh)) u)) ->
                 In x (recvs (get_task sh u)) /\ x <> r).
  { intros u x H. destruct (Nat.eq_dec u t) as [->|E].
    - rewrite recvs_set_recvs_same in H by exact Ht'. split.
      + rewrite Hrv. right. exact H.
      + intros ->. exact (Hnr H).
    - rewrite recvs_set_recvs_other, recvs_set_rel in H by exact E. split; [exact H|].
      intros ->. apply E. apply (W3 u t r H). rewrite Hrv. left. reflexivity. }
  constructor.
  - intros u x H. destruct (Hin u x H) as [H1 H2]. rewrite nt_set_recvs, nt_set_rel.
    destruct (W1 u x H1) as [A [B C]]. split; [exact A|]. split; [exact B|].
    rewrite rel_set_recvs, rel_set_rel_other; assumption.
  - intros u. destruct (Nat.eq_dec u t) as [->|E].
    + rewrite recvs_set_recvs_same by exact Ht'. exact Hnd.
    + rewrite recvs_set_recvs_other, recvs_set_rel by exact E. apply W2.
  - intros u1 u2 x H1 H2. apply Hin in H1. apply Hin in H2. eapply W3; [apply H1 | apply H2].
  - intros x w H. rewrite nt_set_recvs, nt_set_rel. rewrite rel_set_recvs in H.
    destruct (Nat.eq_dec x r) as [->|E].
    + rewrite rel_set_rel_same in H by exact Hrn. discriminate.
    + rewrite rel_set_rel_other in H by exact E. eapply W4. exact H.
  - intros k u H. rewrite nt_set_recvs, nt_set_rel. eapply W5. exact H.
Qed.

(* t spawns a task and keeps its receiver *)
Lemma WF_spawn (sh : shared) (t : tid) (p : list action) :
  WF sh -> t < nt sh ->
  WF (set_recvs t (my_recvs sh t ++ [nt sh]) (add_task p sh)).
Proof.
  intros W Ht. pose proof W as [W1 W2 W3 W4 W5]. unfold my_recvs.
  set (sh1 := add_task p sh).
  assert (Hn1 : nt sh1 = S (nt sh)) by apply nt_add_task.
  assert (Ht1 : t < nt sh1) by lia.
  assert (Hrel : forall x, rel (get_task (set_recvs t (recvs (get_task sh t) ++ [nt sh]) sh1) x) =
                           if Nat.ltb x (nt sh) then rel (get_task sh x)
                           else if Nat.eqb x (nt sh) then RlPending else RlDone).
  { intros x. rewrite rel_set_recvs. unfold sh1. rewrite get_add_task.
    destruct (Nat.ltb x (nt sh)); [reflexivity|]. destruct (Nat.eqb x (nt sh)); reflexivity. }
  assert (Hrecv : forall u x, In x (recvs (get_task (set_recvs t (recvs (get_task sh t) ++ [nt sh]) sh1) u)) ->
                   (In x (recvs (get_task sh u)) /\ x < nt sh) \/ (u = t /\ x = nt sh)).
  { intros u x H. destruct (Nat.eq_dec u t) as [->|E].
    - rewrite recvs_set_recvs_same in H by exact Ht1. apply in_app_iff in H.
      destruct H as [H|[H|[]]]; [left | right; split; [reflexivity | symmetry; exact H]].
      split; [exact H | apply (W1 t x H)].
    - rewrite recvs_set_recvs_other in H by exact E. unfold sh1 in H. rewrite get_add_task in H.
      destruct (Nat.ltb u (nt sh)).
      + left. split; [exact H | apply (W1 u x H)].
      + destruct (Nat.eqb u (nt sh)); destruct H. }
  constructor.
  - intros u x H. rewrite nt_set_recvs, Hn1, Hrel. destruct (Hrecv u x H) as [[H1 H2]|[-> ->]].
    + destruct (W1 u x H1) as [A [B C]]. split; [exact A|]. split; [lia|].
      apply Nat.ltb_lt in H2. rewrite H2. exact C.
    + split; [exact Ht|]. split; [lia|]. rewrite Nat.ltb_irrefl, Nat.eqb_refl. discriminate.
  - intros u. destruct (Nat.eq_dec u t) as [->|E].
    + rewrite recvs_set_recvs_same by exact Ht1. apply NoDup_snoc; [apply W2|].
      intros H. apply W1 in H. lia.
    + rewrite recvs_set_recvs_other by exact E. unfold sh1. rewrite get_add_task.
      destruct (Nat.ltb u (nt sh)); [apply W2|]. destruct (Nat.eqb u (nt sh)); constructor.
  - intros u1 u2 x H1 H2. destruct (Hrecv u1 x H1) as [[A1 B1]|[E0 E1]];
      destruct (Hrecv u2 x H2) as [[A2 B2]|[E2 E3]]; try lia.
    eapply W3; eassumption.
  - intros x w H. rewrite nt_set_recvs, Hn1. rewrite Hrel in H.
    destruct (Nat.ltb x (nt sh)); [apply W4 in H; lia|].
    destruct (Nat.eqb x (nt sh)); discriminate.
  - intros k u H. rewrite nt_set_recvs, Hn1. apply W5 in H. lia.
Qed.

Lemma relay_poll_cases (r : relay) (t : tid) :
  (waiting_rel r /\ relay_poll r t = (RlPolled t, None, false)) \/
  (exists v, r = RlComputed v /\ relay_poll r t = (RlDone, Some v, false)) \/
  (r = RlDone /\ relay_poll r t = (RlDone, None, true)).
Proof.
  destruct r as [|w|v|]; cbn.
  - left. split; [left; reflexivity | reflexivity].
  - left. split; [right; eexists; reflexivity | reflexivity].
  - right. left. exists v. split; reflexivity.
  - right. right. split; reflexivity.
Qed.

Lemma relay_try_cases (r : relay) :
  (exists v, r = RlComputed v /\ relay_try r = (RlDone, TOk v)) \/
  (exists res, relay_try r = (r, res) /\ forall v, res <> TOk v).
Proof.
  destruct r as [|w|v|]; cbn.
  - right. exists TNotSent. split; [reflexivity | discriminate].
  - right. exists TNotSent. split; [reflexivity | discriminate].
  - left. exists v. split; reflexivity.
  - right. exists TAlready. split; [reflexivity | discriminate].
Qed.

(* every action that lets the poll go on keeps the ownership well-formed *)
Lemma do_action_next_WF scripts t sh a rest sh' evs effs :
  WF sh -> t < nt sh -> do_action scripts t sh a rest = CNext sh' evs effs ->
  WF sh' /\ nt sh <= nt sh'.
Proof.
  intros W Ht H. destruct a as [n|k|k|k|s| | |v]; cbn [do_action] in H.
  - discriminate.
  - destruct (mem k (flags sh)); [|discriminate]. inversion H; subst. split; [exact W | apply le_n].
  - inversion H; subst. split; [|apply le_n]. revert W. apply WF_same; reflexivity.
  - inversion H; subst. split; [exact W | apply le_n].
  - inversion H; subst. split; [apply WF_spawn; assumption|].
    rewrite nt_set_recvs, nt_add_task. lia.
  - destruct (my_recvs sh t) as [|r rv'] eqn:Hrv.
    + inversion H; subst. split; [exact W | apply le_n].
    + destruct (relay_poll_cases (rel (get_task sh r)) t) as [[_ E]|[[v [_ E]]|[_ E]]];
        rewrite E in H; try discriminate.
      inversion H; subst. split; [eapply WF_receive; eassumption|].
      rewrite nt_set_recvs, nt_set_rel. apply le_n.
  - destruct (my_recvs sh t) as [|r rv'] eqn:Hrv.
    + inversion H; subst. split; [exact W | apply le_n].
    + destruct (relay_try_cases (rel (get_task sh r))) as [[v [_ E]]|[res [E Hres]]]; rewrite E in H.
      * inversion H; subst. split; [eapply WF_receive; eassumption|].
        rewrite nt_set_recvs, nt_set_rel. apply le_n.
      * destruct res; try (exfalso; eapply Hres; reflexivity);
          inversion H; subst; (split; [apply WF_set_rel_id; exact W | rewrite nt_set_rel; apply le_n]).
  - discriminate.
Qed.
