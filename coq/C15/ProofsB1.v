(* C15 — Level B, part 1: bookkeeping lemmas about the shared state. *)
From Yv Require Import Common.Base C15.Model C15.Spec C15.ProofsA.
From Coq Require Import Arith.

Lemma upd_length {A} (f : A -> A) (l : list A) : forall n, length (upd n f l) = length l.
Proof. induction l as [|x l IH]; intros [|n]; cbn; try reflexivity. rewrite IH. reflexivity. Qed.

Lemma nth_upd {A} (f : A -> A) (d : A) (l : list A) : forall n m,
  nth m (upd n f l) d = if Nat.eqb n m && Nat.ltb n (length l) then f (nth m l d) else nth m l d.
Proof.
  induction l as [|x l IH]; intros n m.
  - destruct n; cbn; rewrite andb_false_r; reflexivity.
  - destruct n as [|n]; destruct m as [|m]; cbn [upd nth length]; try reflexivity.
    rewrite IH. replace (S n <? S (length l)) with (n <? length l); [reflexivity|].
    destruct (Nat.ltb_spec n (length l)); destruct (Nat.ltb_spec (S n) (S (length l))); lia || reflexivity.
Qed.

Definition nt (sh : shared) : nat := length (tasks sh).

Lemma get_dummy sh u : nt sh <= u -> get_task sh u = dummy_task.
Proof. intros H. unfold get_task. apply nth_overflow. exact H. Qed.

(* ---- set_rel ---- *)
Lemma nt_set_rel r x sh : nt (set_rel r x sh) = nt sh.
Proof. unfold nt, set_rel. cbn. apply upd_length. Qed.

Lemma get_set_rel r x sh u :
  get_task (set_rel r x sh) u =
  if Nat.eqb r u && Nat.ltb r (nt sh)
  then mkTask (pc (get_task sh u)) (recvs (get_task sh u)) x else get_task sh u.
Proof. unfold get_task, set_rel. cbn [tasks]. rewrite nth_upd. reflexivity. Qed.

Lemma pc_set_rel r x sh u : pc (get_task (set_rel r x sh) u) = pc (get_task sh u).
Proof. rewrite get_set_rel. destruct (_ && _); reflexivity. Qed.

Lemma recvs_set_rel r x sh u : recvs (get_task (set_rel r x sh) u) = recvs (get_task sh u).
Proof. rewrite get_set_rel. destruct (_ && _); reflexivity. Qed.

Lemma rel_set_rel_same r x sh : r < nt sh -> rel (get_task (set_rel r x sh) r) = x.
Proof.
  intros H. rewrite get_set_rel, Nat.eqb_refl. apply Nat.ltb_lt in H. rewrite H. reflexivity.
Qed.

Lemma rel_set_rel_other r x sh u : u <> r -> rel (get_task (set_rel r x sh) u) = rel (get_task sh u).
Proof.
  intros H. rewrite get_set_rel. destruct (Nat.eqb_spec r u); [congruence|]. reflexivity.
Qed.

(* ---- set_recvs ---- *)
Lemma nt_set_recvs t rv sh : nt (set_recvs t rv sh) = nt sh.
Proof. unfold nt, set_recvs. cbn. apply upd_length. Qed.

Lemma get_set_recvs t rv sh u :
  get_task (set_recvs t rv sh) u =
  if Nat.eqb t u && Nat.ltb t (nt sh)
  then mkTask (pc (get_task sh u)) rv (rel (get_task sh u)) else get_task sh u.
Proof. unfold get_task, set_recvs. cbn [tasks]. rewrite nth_upd. reflexivity. Qed.

Lemma pc_set_recvs t rv sh u : pc (get_task (set_recvs t rv sh) u) = pc (get_task sh u).
Proof. rewrite get_set_recvs. destruct (_ && _); reflexivity. Qed.

Lemma rel_set_recvs t rv sh u : rel (get_task (set_recvs t rv sh) u) = rel (get_task sh u).
Proof. rewrite get_set_recvs. destruct (_ && _); reflexivity. Qed.

Lemma recvs_set_recvs_same t rv sh : t < nt sh -> recvs (get_task (set_recvs t rv sh) t) = rv.
Proof.
  intros H. rewrite get_set_recvs, Nat.eqb_refl. apply Nat.ltb_lt in H. rewrite H. reflexivity.
Qed.

Lemma recvs_set_recvs_other t rv sh u : u <> t ->
  recvs (get_task (set_recvs t rv sh) u) = recvs (get_task sh u).
Proof.
  intros H. rewrite get_set_recvs. destruct (Nat.eqb_spec t u); [congruence|]. reflexivity.
Qed.

(* ---- set_pc ---- *)
Lemma nt_set_pc t p sh : nt (set_pc t p sh) = nt sh.
Proof. unfold nt, set_pc. cbn. apply upd_length. Qed.

Lemma get_set_pc t p sh u :
  get_task (set_pc t p sh) u =
  if Nat.eqb t u && Nat.ltb t (nt sh)
  then mkTask p (recvs (get_task sh u)) (rel (get_task sh u)) else get_task sh u.
Proof. unfold get_task, set_pc. cbn [tasks]. rewrite nth_upd. reflexivity. Qed.

Lemma recvs_set_pc t p sh u : recvs (get_task (set_pc t p sh) u) = recvs (get_task sh u).
Proof. rewrite get_set_pc. destruct (_ && _); reflexivity. Qed.

Lemma rel_set_pc t p sh u : rel (get_task (set_pc t p sh) u) = rel (get_task sh u).
Proof. rewrite get_set_pc. destruct (_ && _); reflexivity. Qed.

Lemma pc_set_pc_same t p sh : t < nt sh -> pc (get_task (set_pc t p sh) t) = p.
Proof.
  intros H. rewrite get_set_pc, Nat.eqb_refl. apply Nat.ltb_lt in H. rewrite H. reflexivity.
Qed.

Lemma pc_set_pc_other t p sh u : u <> t -> pc (get_task (set_pc t p sh) u) = pc (get_task sh u).
Proof.
  intros H. rewrite get_set_pc. destruct (Nat.eqb_spec t u); [congruence|]. reflexivity.
Qed.

(* ---- add_task ---- *)
Lemma nt_add_task p sh : nt (add_task p sh) = S (nt sh).
Proof. unfold nt, add_task. cbn. rewrite app_length. cbn. lia. Qed.

Lemma get_add_task_old p sh u : u < nt sh -> get_task (add_task p sh) u = get_task sh u.
Proof. intros H. unfold get_task, add_task. cbn [tasks]. apply app_nth1. exact H. Qed.

Lemma get_add_task_new p sh : get_task (add_task p sh) (nt sh) = mkTask p [] RlPending.
Proof.
  unfold get_task, add_task, nt. cbn [tasks]. rewrite app_nth2; [|apply le_n].
  rewrite Nat.sub_diag. reflexivity.
Qed.

Lemma get_add_task p sh u :
  get_task (add_task p sh) u =
  if Nat.ltb u (nt sh) then get_task sh u
  else if Nat.eqb u (nt sh) then mkTask p [] RlPending else dummy_task.
Proof.
  destruct (Nat.ltb_spec u (nt sh)) as [H|H]; [apply get_add_task_old; exact H|].
  destruct (Nat.eqb_spec u (nt sh)) as [E|E]; [subst; apply get_add_task_new|].
  apply get_dummy. rewrite nt_add_task. lia.
Qed.

(* waiters_of *)
Lemma in_waiters_of k u sh : In u (waiters_of k sh) <-> In (k, u) (waiters sh).
Proof.
  unfold waiters_of. rewrite in_map_iff. split.
  - intros [[k' u'] [E H]]. cbn in E. subst u'. apply filter_In in H. destruct H as [H1 H2].
    cbn in H2. apply Nat.eqb_eq in H2. subst. exact H1.
  - intros H. exists (k, u). split; [reflexivity|]. apply filter_In. split; [exact H|].
    cbn. apply Nat.eqb_refl.
Qed.
